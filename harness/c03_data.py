"""C03 model data: the unit table of the working tree as exact rationals for TLC.

Projection only: every scale/offset/prefix/EM factor of the tree is turned into
`s * G^tag` with s a small exact rational and G the generator of the unit's
commensurability class (pi for angles, the speed of light in m/s for the
CGS<->SI electromagnetic pairs).  A value that does not rationalise (or is not
32-bit safe) is marked `ex = False`; cases touching it get no predicted numbers
(the property predicates are still evaluated on them)."""

import math
import re
from fractions import Fraction

PI = math.pi
C_MKS = 299792458.0  # speed of light in m/s (exact by definition of the metre)
GEN = {"pi": PI, "c": C_MKS}
LIM = 10**7
ANGLE = [0, 0, 0, 0, 12, 0, 0, 0, 0]
TEMPERATURE = [0, 0, 0, 12, 0, 0, 0, 0, 0]


def rationalise(x, lim=LIM, rel=4e-16):
    """float -> Fraction with small numerator/denominator reproducing the float, or None."""
    if x == 0:
        return Fraction(0)
    if math.isnan(x) or math.isinf(x):
        return None
    f = Fraction(x).limit_denominator(lim)
    if f == 0 or abs(f.numerator) > lim or f.denominator > lim:
        return None
    if abs(float(f) - x) <= rel * abs(x):
        return f
    return None


def rat_tag(x, gen, tags=(0, 1, -1, 2, -2), rel=4e-16, lim=LIM):
    """x = s * gen^tag -> (s, tag) or None."""
    best = None
    for t in tags:
        if t != 0 and gen is None:
            continue
        y = x / (gen**t) if t else x
        f = rationalise(y, lim=lim, rel=rel if t == 0 else max(rel, 2e-15))
        if f is not None:
            size = max(abs(f.numerator), f.denominator)
            if best is None or size < best[0]:
                best = (size, f, t)
    return (best[1], best[2]) if best else None


def rj(f):
    return [f.numerator, f.denominator]


EXACT_POOL = [
    # temperature: plain, offset, prefixed offset, delta, absolute
    "K", "mK", "degC", "mdegC", "dadegC", "degF", "R", "delta_degC", "delta_degF", "mdelta_degC",
    # angle: offsets (lat, lon), pi
    "rad", "mrad", "degree", "arcmin", "lat", "lon",
    # the five CGS<->SI pairs with prefixes (prefix choice keeps TLC's 32-bit integers safe)
    "T", "mT", "G", "mG", "kG",
    "C", "mC", "kC", "statC", "mstatC",
    "A", "mA", "statA", "mstatA",
    "V", "kV", "statV", "mstatV",
    "Ω", "kΩ", "statohm", "kstatohm",
    # plain classes
    "m", "km", "cm", "inch", "ft", "mile",
    "g", "kg",
    "J", "erg", "mJ",
    "Hz", "kHz", "s", "min",
]
EXACT_COMP_ATOMS = ["m", "km", "s", "min", "kg", "J", "kJ"]
EXACT_COMP_EXPS = [[1, -1], [1, 1], [1, -2]]
TABLE_COMP_ATOMS = ["m", "mile", "pc", "s", "yr", "g", "lb", "Msun", "J", "eV"]
TABLE_COMP_EXPS = [[1, -1], [1, 1]]
# alias spellings: N*m (= J), s**-1 (= Hz), 1000*m (= km), 1000*g (= kg)
EXACT_ALIASES = [
    {"a": "N", "ea": 1, "b": "m", "eb": 1, "coef": 1},
    {"a": "s", "ea": -1, "b": "", "eb": 0, "coef": 1},
    {"a": "m", "ea": 1, "b": "", "eb": 0, "coef": 1000},
    {"a": "g", "ea": 1, "b": "", "eb": 0, "coef": 1000},
]
TABLE_ALIASES = EXACT_ALIASES + [{"a": "W", "ea": 1, "b": "s", "eb": 1, "coef": 1}, {"a": "Pa", "ea": 1, "b": "m", "eb": 3, "coef": 1}]
EXACT_SYSTEMS = ["mks", "cgs", "imperial"]
TABLE_SYSTEMS = ["mks", "cgs", "imperial", "galactic", "solar"]


# ---- the `user` instance: a registry created by the caller (UnitRegistry() + add/modify) ----
# add: symbols that exist only in that registry; modify: re-calibrated symbols, among them base units of the stock
# unit systems (imperial ft/lb/R, galactic kpc/Msun/Myr through pc/Msun/yr, solar AU/Mearth/yr).  The same edit list
# is applied to the table TLC reads and to the real registry the workers build.
USER_EDITS = [
    {"op": "add", "sym": "code_length", "value": "2.5", "dim": "length", "prefixable": True},
    {"op": "add", "sym": "code_mass", "value": "4.0", "dim": "mass", "prefixable": False},
    {"op": "add", "sym": "code_time", "value": "0.125", "dim": "time", "prefixable": False},
    {"op": "add", "sym": "code_temperature", "value": "2.0", "dim": "temperature", "prefixable": False},
    {"op": "modify", "sym": "ft", "value": "0.25"},
    {"op": "modify", "sym": "lb", "value": "0.5"},
    {"op": "modify", "sym": "R", "value": "0.5"},
    {"op": "modify", "sym": "Msun", "value": "2e+30"},
    {"op": "modify", "sym": "Mearth", "value": "6e+24"},
    {"op": "modify", "sym": "pc", "value": "3e+16"},
    {"op": "modify", "sym": "AU", "value": "150000000000.0"},
    {"op": "modify", "sym": "yr", "value": "32000000.0"},
    {"op": "modify", "sym": "G", "value": "0.5"},
    {"op": "modify", "sym": "statC", "value": "0.25"},
]
USER_DIMS = {"mass": 0, "length": 1, "time": 2, "temperature": 3}
USER_POOL = [
    "code_length", "kcode_length", "m", "km", "ft", "mile", "pc", "kpc", "AU",
    "code_mass", "kg", "g", "lb", "Msun", "Mearth",
    "code_time", "s", "yr", "Myr",
    "code_temperature", "K", "degC", "R", "degF",
    "T", "mT", "G", "kG", "C", "statC", "mstatC",
]
USER_COMP_ATOMS = ["code_length", "m", "ft", "code_time", "s", "code_mass", "kg"]
USER_COMP_EXPS = [[1, -1]]  # products and mass**-2 in solar/galactic units leave the float32 range
USER_SYSTEMS = ["mks", "cgs", "imperial", "galactic", "solar"]


# ---- the `cross` instance: unit objects that are spelled the same and valued differently ----
# The quantity lives in the caller-made registry above (USER_EDITS); the unit objects B / C of a case may be bound to a
# second table, the TWIN: a registry of its own with the same code_* symbols at other values and the stock values of
# ft/lb/R/pc/... (what a second dataset, or the default registry, looks like from the first).  The electromagnetic
# counterparts carry the same calibration in both tables: the EM route goes by symbol name, so the laws between two
# differently calibrated EM tables are not something the property states.
# A twin row travels to TLC under the name `<symbol>@2`; the replay strips the suffix and binds the unit object
#   bind = "twin"  : to a second UnitRegistry holding the twin values
#   bind = "stale" : to the quantity's own registry, created while that registry still held the twin values (the
#                    registry is re-calibrated afterwards: a Unit object keeps the value it was made with)
TWIN_SUFFIX = "@2"
TWIN_EDITS = [
    {"op": "add", "sym": "code_length", "value": "4.0", "dim": "length", "prefixable": True},
    {"op": "add", "sym": "code_mass", "value": "0.5", "dim": "mass", "prefixable": False},
    {"op": "add", "sym": "code_time", "value": "2.0", "dim": "time", "prefixable": False},
    {"op": "add", "sym": "code_temperature", "value": "0.25", "dim": "temperature", "prefixable": False},
    {"op": "modify", "sym": "G", "value": "0.5"},
    {"op": "modify", "sym": "statC", "value": "0.25"},
]
TWIN_SYMS = ["code_length", "code_mass", "code_time", "code_temperature", "m", "ft", "kg", "lb", "s", "K", "degC", "R", "T", "G", "C", "statC"]
CROSS_POOL = [
    "code_length", "kcode_length", "m", "ft",
    "code_mass", "kg", "lb",
    "code_time", "s",
    "code_temperature", "K", "degC", "R", "degF",
    "T", "mT", "G", "kG", "C", "statC", "mstatC",
]
CROSS_TWINS = [
    "code_length", "kcode_length", "m", "ft",
    "code_mass", "lb",
    "code_time", "s",
    "code_temperature", "degC", "R",
    "T", "G", "kG", "statC", "mstatC", "C",
]
CROSS_COMP_ATOMS = ["code_length", "m", "ft", "code_time", "s"]
CROSS_COMP_EXPS = [[1, -1]]


def apply_edits(rows, ndim, edits=None):
    rows = [dict(r) for r in rows]
    by = {r["sym"]: r for r in rows}
    for e in USER_EDITS if edits is None else edits:
        v = float(e["value"])
        if e["op"] == "add":
            dim = [12 if j == USER_DIMS[e["dim"]] else 0 for j in range(ndim)]
            r = {"sym": e["sym"], "scale": {"repr": repr(v)}, "dim": dim, "dimstr": "(" + e["dim"] + ")", "offset": {"repr": "0.0"}, "prefixable": bool(e["prefixable"])}
            rows.append(r)
            by[e["sym"]] = r
        elif e["sym"] in by:
            by[e["sym"]]["scale"] = {"repr": repr(v)}
    return rows


def build(ex, mode):
    """ex = ck.extract(); mode 'exact' | 'table' | 'user' -> (data for TLC, info for the replay workers)."""
    rows = [r for r in ex["lut"] if r["dim"] is not None]
    if mode == "cross":
        twin = {r["sym"]: r for r in apply_edits(rows, len(ex["base_dimensions"]), TWIN_EDITS)}
        rows = apply_edits(rows, len(ex["base_dimensions"]))
        rows += [dict(twin[s], sym=s + TWIN_SUFFIX) for s in TWIN_SYMS if s in twin]
    if mode == "user":
        rows = apply_edits(rows, len(ex["base_dimensions"]))
    # group by dimension vector; decide absolute vs relative scales per class
    classes = {}
    for r in rows:
        classes.setdefault(tuple(r["dim"]), []).append(r)
    lut = []
    for dim, rs in classes.items():
        gen = PI if list(dim) == ANGLE else None
        absol = {}
        for r in rs:
            absol[r["sym"]] = rat_tag(float(r["scale"]["repr"]), gen, tags=(0, 1) if gen else (0,))
        # absolute scales when the first unit of the class has one (others then need one too); else relative to it
        use_abs = absol[rs[0]["sym"]] is not None or list(dim) == TEMPERATURE
        ref = float(rs[0]["scale"]["repr"])
        for r in rs:
            sc = float(r["scale"]["repr"])
            if use_abs:
                st = absol[r["sym"]]
            else:
                f = rationalise(sc / ref, rel=1e-15)
                st = (f, 0) if f is not None else None
            try:
                off = Fraction(r["offset"]["repr"])
            except ValueError:
                off = None
            okoff = off is not None and abs(off.numerator) <= LIM and off.denominator <= LIM
            exact = st is not None and okoff
            lut.append(
                {
                    "name": r["sym"],
                    "dim": list(dim),
                    "ex": bool(exact),
                    "off": bool(float(r["offset"]["repr"]) != 0.0),
                    "s": rj(st[0]) if exact else [1, 1],
                    "tag": int(st[1]) if exact else 0,
                    "o": rj(off) if exact else [0, 1],
                    "pfxable": bool(r["prefixable"]),
                }
            )
    prefixes = []
    for p in ex["prefixes"]:
        try:
            v = Fraction(p["value"]["repr"])
            okv = float(v) == float(p["value"]["repr"]) and v.numerator <= 10**9 and v.denominator <= 10**9
        except ValueError:
            v, okv = Fraction(1), False
        prefixes.append({"p": p["p"], "ex": bool(okv), "v": rj(v) if okv else [1, 1]})
    em = []
    for e in ex["em_conversions"]:
        st = rat_tag(float(e["factor"]), C_MKS, rel=4e-15, lim=10**9)
        em.append(
            {
                "from": e["from"],
                "fromdim": e["from_dim"],
                "to": e["to"],
                "todim": e["to_dim"],
                "ex": st is not None,
                "f": rj(st[0]) if st else [1, 1],
                "tag": int(st[1]) if st else 0,
            }
        )
    names = {r["name"] for r in lut}
    dimstr = {}
    for r in rows:
        dimstr[r["dimstr"]] = r["dim"]
    for i, b in enumerate(ex["base_dimensions"]):
        if b != "1":
            dimstr.setdefault(b, [12 if j == i else 0 for j in range(len(ex["base_dimensions"]))])
    systems = []
    for sname in {"exact": EXACT_SYSTEMS, "user": USER_SYSTEMS, "cross": USER_SYSTEMS}.get(mode, TABLE_SYSTEMS):
        s = ex["unit_systems"].get(sname)
        if not s or "units_map" not in s:
            continue
        m = []
        for k, v in s["units_map"].items():
            if v is not None and k in dimstr and re.fullmatch(r"\w+", v):  # a plain (possibly prefixed) symbol
                m.append({"dim": dimstr[k], "unit": v})
        systems.append({"name": sname, "map": m})
    if mode == "exact":
        pool = [n for n in EXACT_POOL]
        comp_atoms, comp_exps = EXACT_COMP_ATOMS, EXACT_COMP_EXPS
    elif mode == "user":
        pool = [n for n in USER_POOL]
        comp_atoms, comp_exps = USER_COMP_ATOMS, USER_COMP_EXPS
    elif mode == "cross":
        pool = [n for n in CROSS_POOL]
        comp_atoms, comp_exps = CROSS_COMP_ATOMS, CROSS_COMP_EXPS
    else:
        pool = [r["name"] for r in lut if not r["name"].endswith(TWIN_SUFFIX)]
        comp_atoms, comp_exps = TABLE_COMP_ATOMS, TABLE_COMP_EXPS
    comp_atoms = [a for a in comp_atoms if a in names or a[1:] in names]
    pool = [{"a": n, "ea": 1, "b": "", "eb": 0, "coef": 1} for n in pool]
    # equal-scale spellings: a conversion between them has factor exactly 1 and no offset (like K <-> delta_degC)
    pool += [s for s in ({"exact": EXACT_ALIASES, "user": []}.get(mode, TABLE_ALIASES)) if s["a"] in names and (s["b"] == "" or s["b"] in names)]
    pool += [{"a": a, "ea": e[0], "b": b, "eb": e[1], "coef": 1} for a in comp_atoms for b in comp_atoms for e in comp_exps if a != b]
    # reg: the table a unit object of the pool is bound to (1 = the quantity's registry, 2 = the twin)
    pool = [dict(s, reg=1) for s in pool]
    if mode == "cross":
        T = TWIN_SUFFIX
        pool += [{"a": n + T, "ea": 1, "b": "", "eb": 0, "coef": 1, "reg": 2} for n in CROSS_TWINS]
        pool += [{"a": a + T, "ea": e[0], "b": b + T, "eb": e[1], "coef": 1, "reg": 2} for a in comp_atoms for b in comp_atoms for e in comp_exps if a != b and a + T in names and b + T in names]
    data = {
        "lut": lut,
        "prefixes": prefixes,
        "em": em,
        "pool": pool,
        "exact": mode in ("exact", "user", "cross"),
        "systems": systems,
    }
    info = {"pool": pool, "gen": {k: repr(v) for k, v in GEN.items()}, "edits": USER_EDITS if mode in ("user", "cross") else None, "twin_edits": TWIN_EDITS if mode == "cross" else None}
    return data, info
