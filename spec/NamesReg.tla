----------------------------- MODULE NamesReg -----------------------------
(* Stateful part of C14: one registry resolving strings one after the other. *)
(* State as the code keeps it: the derived prefixed rows that                *)
(* _lookup_unit_symbol writes back into the table (flagged non-prefixable)   *)
(* and the per-registry string memo of Unit.__new__ (written on success      *)
(* only, consulted before anything else).  The property predicates of Names  *)
(* are history-free: every step must satisfy them whatever came before.      *)
EXTENDS Names
VARIABLES rows,   \* set of [k |-> key, m |-> outcome]: derived rows written back
          memo,   \* set of [n |-> string, m |-> outcome]: registry._unit_object_cache
          hist,   \* the cases resolved so far (numbers into the alphabet; observation only)
          last    \* [m |-> outcome, row |-> string is a table key afterwards, memo |-> string is memoised afterwards]
rvars == <<rows, memo, hist, last>>

RowKeys(R) == {r.k : r \in R}
NoLast == [m |-> Raise, row |-> FALSE, memo |-> FALSE]
RegInit == rows = {} /\ memo = {} /\ hist = <<>> /\ last = NoLast

\* _lookup_unit_symbol on the registry's table (pristine keys + derived rows); returns <<outcome, key written or "">>
LookupS(u, R) ==
  IF u \in SymSet THEN <<Ok(0, SymNo[u]), "">>
  ELSE IF u \in RowKeys(R) THEN <<(CHOOSE r \in R : r.k = u).m, "">>
  ELSE IF u = "" THEN <<Raise, "">>
  ELSE \* a derived row is a key of the table but its prefixable flag is False
       LET sp == SplitPrefix(u, SymSet \cup RowKeys(R), PrefixableSyms) IN
       IF sp[1] # "" THEN <<Ok(PrefNo[sp[1]], SymNo[sp[2]]), u>> ELSE <<Raise, "">>
ResolveS(n, R) == LET t == Rewrite(n) IN
                  IF t = "1" THEN <<[ok |-> TRUE, i |-> DimensionlessNo, e |-> 0, j |-> 0], "">>
                  ELSE IF t \in GlobalNames THEN <<Raise, "">>
                  ELSE LookupS(UsedName(t), R)

\* Unit(n, registry=reg)
Construct(n) ==
  IF n \in {x.n : x \in memo}
  THEN /\ last' = [m |-> (CHOOSE x \in memo : x.n = n).m, row |-> n \in SymSet \cup RowKeys(rows), memo |-> TRUE]
       /\ UNCHANGED <<rows, memo>>
  ELSE LET r == ResolveS(n, rows)
           R2 == IF r[2] # "" THEN rows \cup {[k |-> r[2], m |-> r[1]]} ELSE rows IN
       /\ rows' = R2
       /\ memo' = IF r[1].ok THEN memo \cup {[n |-> n, m |-> r[1]]} ELSE memo
       /\ last' = [m |-> r[1], row |-> n \in SymSet \cup RowKeys(R2), memo |-> r[1].ok]
=============================================================================
