-------------------------- MODULE Trace_C07_suite --------------------------
(* Code -> spec over the repository's own test-suite (C07).                   *)
(* Input (IOEnv.EVENTS): the normalised `arrfn` events recorded by            *)
(* harness/suite.py under the external tracer: one per call that went through *)
(* unyt_array.__array_function__, with the kind / dimension vector (8 base    *)
(* dimensions, exponents x 12) / shape of every array operand and result.     *)
(* Event predicate S07: when the function has a plain-call row in the         *)
(* property-side table of ArrayFnUnit whose number of dimensioned operands    *)
(* equals the number of unyt operands of the call, every result that carries  *)
(* units has the exponent vector the signature demands (bare-and-invariant    *)
(* outputs carry none).  Results that are plain arrays are not judged here    *)
(* (subok=False calls etc. are deliberate in the suite); raising calls and    *)
(* calls with dimensionless operands only are skipped.                        *)
EXTENDS ArrayFnUnit, IOUtils
Events == JsonDeserialize(IOEnv.EVENTS)
VARIABLE i
Init == i = 1

IsU(x) == x.k \in {"A", "Q"} /\ x.dimok
Zero8 == <<0, 0, 0, 0, 0, 0, 0, 0>>
UOps(e) == SelectSeq(e.ops, LAMBDA x : IsU(x) /\ ~x.isout)
SpecName(fn) == IF Len(fn) > 6 /\ SubSeq(fn, 1, 6) = "numpy." THEN "np." \o SubSeq(fn, 7, Len(fn)) ELSE fn
\* shape-dependent degrees from the recorded shape of the first operand
ResEv(code, sh) == CASE code = ORDER -> (IF Len(sh) >= 1 THEN 2 * sh[Len(sh)] ELSE 2)
                     [] code = SIZE -> 0 [] code = DIM0 -> 0 [] OTHER -> code
PlainDeg(s) == \A k \in 1..3 : s.deg[k] \notin {SIZE, DIM0}
\* expected exponent vector (x 12) of  prod_k u_k^(deg_k / 2)
Expect8(deg, us, sh) ==
  [j \in 1..8 |-> LET t(k) == IF k <= Len(us) THEN (ResEv(deg[k], sh) * us[k].dim[j]) \div 2 ELSE 0 IN t(1) + t(2) + t(3)]
\* only functions whose signature does not depend on the call form (every row of the table - any template, any number
\* of operands - carries the same signature) and not on a parameter value are judged on arbitrary suite calls
ParamDependent == {"np.linalg.matrix_power", "np.apply_along_axis", "np.apply_over_axes"}
FormIndependent(f) == f \notin ParamDependent /\ Cardinality({r.sig : r \in {x \in Rows : x.f = f}}) = 1
RowsFor(f, n) == IF FormIndependent(f) THEN {r \in Rows : r.f = f /\ r.n = n /\ r.sig.k # "unknown"} ELSE {}
SigJ(sig, j) == IF sig.k = "each" THEN sig.o[1] ELSE IF j <= Len(sig.o) THEN sig.o[j] ELSE Bare
\* the operands a merging position joins may be any number: all must share one dimension, the result keeps it
Applies(e) == e.ev = "arrfn" /\ e.exc = "" /\ Len(UOps(e)) >= 1 /\ \E x \in {UOps(e)[k] : k \in DOMAIN UOps(e)} : x.dim # Zero8
S07Fails(e) ==
  LET f == SpecName(e.fn)
      us == UOps(e)
      rs == RowsFor(f, Len(us)) IN
  IF ~Applies(e) \/ rs = {} \/ (\E r \in rs : r.sig.k = "seq" /\ Len(r.sig.o) # Len(e.res)) THEN {}
  ELSE LET r == CHOOSE x \in rs : TRUE
           sh == us[1].sh IN
       {j \in DOMAIN e.res :
          LET s == SigJ(r.sig, j)
              o == e.res[j] IN
          /\ IsU(o)
          /\ IF s.bare THEN o.dim # Zero8
             ELSE PlainDeg(s) /\ o.dim # Expect8(s.deg, us, sh)}
Judged(e) == Applies(e) /\ RowsFor(SpecName(e.fn), Len(UOps(e))) # {}

Next == /\ i <= Len(Events)
        /\ LET e == Events[i] IN
           /\ \A j \in S07Fails(e) :
                PrintT(ToJson([tag |-> "P-FAIL", idx |-> i, pred |-> "S07", fn |-> SpecName(e.fn), out |-> j,
                               observed |-> e.res[j].dim, unit |-> e.res[j].u]))
           /\ (Judged(e) => PrintT(ToJson([tag |-> "APPLIED", idx |-> i, fn |-> SpecName(e.fn)])))
        /\ i' = i + 1
=============================================================================
