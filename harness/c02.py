"""C02 - every unit's scale and dimension agree with its definition.

Spec: spec/Defs.tla (+ MC_C02, MC_C02_expr, Trace_C02); independent reference: data/C02_definitions.json.
  1. TLC checks the definitional DAG against the table extracted from the tree (well-founded, covering, dimension of
     every symbol = what its definition implies) and flattens every symbol into a symbolic scale (exponent vector over
     primes / pi / named measured values), its uncertainty class and dimension.
  2. TLC generates the cases: every name spelling of the tree, every prefix x prefixable symbol, ordered pairs of names
     sharing a dimension, and unit-expression trees built by a small stack machine (exhaustive to a token bound,
     simulated beyond) over alphabets of real names.
  3. every case is replayed in the real library (harness/impl_c02.py); floats are compared with the exact value of TLC's
     symbolic result and reported as integer distances in units of each class tolerance.
  4. TLC (Trace_C02) evaluates the C02 predicates on the observations (P) and the implementation-shaped expectations (T).
"""

import json

from common import NCPU, MachineryFailure

import c02_data

ENV = "C02DATA"


def _cfg(ck, src, dst, subst):
    txt = open(f"{ck.spec}/{src}.cfg").read()
    import re

    for k, v in subst.items():
        txt, n = re.subn(rf"(?m)^(\s*{k}\s*=\s*).*$", lambda m: m.group(1) + str(v), txt)
        if n != 1:
            raise MachineryFailure(f"cfg {src}: constant {k} not found")
    open(f"{ck.spec}/{dst}.cfg", "w").write(txt)
    return dst


class Ctx:
    pass


def _key_and_detail(cx, o, rec):
    """stable, specific key of a failing observation (symbols by name, never just the property)"""
    data = cx.data
    clause = rec["clause"]
    if o["kind"] == "name":
        nm = data["names"][o["n"] - 1]
        p, t = cx.read.get(o["n"], (0, 0))
        sym = data["table"][t - 1]["sym"] if t else "?"
        pre = data["prefixes"][p - 1]["p"] if p else ""
        return {"part": "name", "clause": clause, "sym": sym, "prefix": pre}, {"name": nm["name"], "base_value": o.get("bv"), "definition_implies": o.get("want"), "tlc": rec["detail"]}
    if o["kind"] == "pfx":
        return {"part": "prefix", "clause": clause, "prefix": data["prefixes"][o["p"] - 1]["p"], "sym": data["table"][o["t"] - 1]["sym"]}, {"base_value": o.get("bv"), "tlc": rec["detail"]}
    if o["kind"] == "conv":
        return {"part": "convert", "clause": clause, "from": o["from"], "to": o["to"], "route": o.get("route", "")}, {"exc": o.get("exc"), "tlc": rec["detail"]}
    if o["kind"] == "expr":
        r = o["s"] if clause.endswith("string") else o["c"] if clause.endswith("convert") else o["a"]
        return {"part": "expr", "clause": clause, "expr": o.get("text", "")}, {"observed": r.get("bv"), "product_of_constituents": o.get("want"), "exc": r.get("exc"), "tlc": rec["detail"]}
    if o["kind"] == "edit":
        sym = data["table"][o["t"] - 1]["sym"]
        d = rec["detail"] if isinstance(rec["detail"], dict) else {}
        ph = o["phases"][d.get("phase", 1) - 1]
        p = ph["probes"][d["k"] - 1] if "k" in d else {}
        return ({"part": "edit", "clause": clause, "sym": sym, "op": ph["op"] if d.get("phase", 1) == 1 else o["op"] + "+modify", "spelling": d.get("spelling", ""), "warm": bool(d.get("warm", False)), "text": p.get("text", "")},
                {"base_value": p.get("bv"), "current_definition_implies": p.get("want"), "eu": p.get("eu"), "to_symbol": p.get("tosym"), "via_si": p.get("via"), "exc": p.get("exc"), "warm_before_edit": o["w"]})
    if o["kind"] == "sys":
        d = rec["detail"] if isinstance(rec["detail"], dict) else {}
        sym = data["table"][o["t"] - 1]["sym"]
        key = {"part": "system", "clause": clause, "system": data["systems"][o["s"] - 1]["name"], "source": o.get("text", ""), "edited": sym, "op": o["op"], "form": ""}
        detail = {"registry_created_with_unit_system": bool(o["ctor"]), "tlc": d}
        if "form" in d and 1 <= d["form"] <= len(o["forms"]):
            f = o["forms"][d["form"] - 1]
            key["form"] = f["form"]
            detail.update(returned_unit=f.get("runit"), base_value=f.get("bv"), product_of_constituents_in_registry=f.get("want"), value=f.get("val"), same=f.get("same"), back=f.get("back"), exc=f.get("exc"))
        if "n" in d:
            a = [x for x in o["anch"] if x["n"] == d["n"]]
            key["form"] = "Unit(" + data["names"][d["n"] - 1]["name"] + ")"
            detail.update(base_value=a[0].get("bv") if a else None, current_definition_implies=a[0].get("want") if a else None)
        return key, detail
    if o["kind"] == "ord":
        sym = data["table"][o["t"] - 1]["sym"]
        j = rec["detail"].get("step", 1) if isinstance(rec["detail"], dict) else 1
        pre = [data["prefixes"][p - 1]["p"] for p in o["seq"]]
        return {"part": "order", "clause": clause, "sym": sym, "prefix": pre[j - 1], "after": pre[: j - 1], "alias": bool(o["al"])}, {"steps": o["steps"], "tlc": rec["detail"]}
    if o["kind"] == "pow":
        return {"part": "power", "clause": clause, "unit": o.get("text", ""), "exponent": o.get("p", ""), "form": o["form"], "type": o["ty"]}, {"result_unit": o.get("runit"), "base_value": o.get("bv"), "scale_to_carried_exponent": o.get("want"), "exc": o.get("exc"), "tlc": rec["detail"]}
    return {"part": o["kind"], "clause": clause}, rec


def _validate(cx, cases, obs, label):
    ck = cx.ck
    bad = [o for o in obs if "_error" in o]
    if bad:
        raise MachineryFailure("replay error: " + str(bad[0])[:1500])
    CH = 30000
    for off in range(0, len(obs), CH):
        part = obs[off : off + CH]
        path = ck.write_json(f"c02_obs_{label}_{off}.json", part)
        res = ck.tlc("Trace_C02", "Trace_C02", env={ENV: cx.path, "C02OBS": path}, workers=1, coverage=False, label=f"trace validation {label} [{off}:{off + len(part)}]", timeout=2400)
        if res.distinct != len(part) + 1:
            raise MachineryFailure(f"trace validation consumed {res.distinct} states, expected {len(part) + 1}")
        ck.validated(len(part))
        if res.by_tag("ECHO-FAIL"):
            raise MachineryFailure("harness evaluated a different symbolic value than TLC exported: " + str(res.by_tag("ECHO-FAIL")[0]))
        for r in res.by_tag("T-FAIL"):
            o = part[r["i"] - 1]
            key, detail = _key_and_detail(cx, o, r)
            ck.drift_step(r["clause"], {"key": key, "detail": detail})
        for r in res.by_tag("P-FAIL"):
            o = part[r["i"] - 1]
            key, detail = _key_and_detail(cx, o, r)
            ck.violation(key, detail, case=cases[off + r["i"] - 1])


def _replay(cx, cases, label):
    obs = cx.ck.pmap("impl_c02", "observe", cases, chunk_timeout=6000)
    _validate(cx, cases, obs, label)
    return obs


def _run_expr(cx, cfg, label, simulate=None, depth=None):
    ck = cx.ck
    res = ck.tlc("MC_C02_expr", cfg, env={ENV: cx.path}, workers=1, simulate=simulate, depth=depth, label=label, timeout=3000, required_actions=() if simulate else ("Next",))
    pools = {r["sel"]: r for r in res.by_tag("POOL")}
    if not pools:
        raise MachineryFailure("expression instance exported no alphabet")
    names = {s: [cx.data["names"][n - 1]["name"] for n in p["pool"]] for s, p in pools.items()}
    cases = []
    for r in res.by_tag("EXPR"):
        pool = pools[r["sel"]]
        cases.append({"kind": "expr", "toks": r["toks"], "pool": pool["pool"], "names": names[r["sel"]], "at": r["at"], "co": r["co"], "style": r["style"], "coefs": pool["coefs"], "exps": pool["exps"]})
    return cases, [names[s] for s in sorted(names)]


def _plain(cx, case, toks):
    import impl_c02

    tree, _ = impl_c02._parse(toks)
    return impl_c02.render(tree, case["names"], case["coefs"], case["exps"], 1)


def _run_reg(cx, cfg, label):
    ck = cx.ck
    res = ck.tlc("MC_C02_reg", cfg, env={ENV: cx.path}, workers=1, label=label, timeout=3000, required_actions=("Next",))
    cases = []
    for r in res.by_tag("HIST"):
        c = {k: r[k] for k in ("sys", "h", "probes", "pairs", "snap", "names", "coefs", "exps")}
        c["kind"] = "reg"
        cases.append(c)
    if len(cases) < 50:
        raise MachineryFailure("too few registry histories exported")
    return cases


def _run_regname(cx, thorough):
    """user registries with the NAME of the user symbol chosen by TLC among the candidates outside the frozen vocabulary"""
    ck = cx.ck
    cfg = _cfg(ck, "MC_C02_regname", "MC_C02_regname_run", {"Thin": "TRUE", "CoefIdx": 1 + (ck.seed + 1) % 4, "VarMod": ck.q(4, 1), "VarSel": ck.seed % ck.q(4, 1)})
    res = ck.tlc("MC_C02_regname", cfg, env={ENV: cx.path}, workers=1, coverage=False, timeout=3000,
                 label="user registries: name of the user symbol = every candidate outside the frozen vocabulary (names of the tree's table, single letters, user-style names, variants of alternative names) x define_unit/add x prefixable")
    data = cx.data
    cases = []
    for r in res.by_tag("HIST"):
        c = {k: r[k] for k in ("sys", "h", "probes", "pairs", "snap", "names", "coefs", "exps", "uk", "ucls")}
        k = r["uk"]
        nm = data["names"][k - 1]["name"] if k <= len(data["names"]) else data["uextra"][k - len(data["names"]) - 1]["name"]
        c["uname"] = nm
        names = list(c["names"])
        if names[-4:] != ["foo", "qux", "kfoo", "kqux"]:
            raise MachineryFailure("user atoms of the registry instance moved")
        names[-4], names[-2] = nm, "k" + nm
        c["names"] = names
        c["kind"] = "reg"
        cases.append(c)
    if len(cases) < 50 or not any(c["ucls"] == "core" and len(c["uname"]) == 1 for c in cases):
        raise MachineryFailure("too few user-name cases exported")
    return cases


def _validate_reg(cx, cases, obs, label):
    ck = cx.ck
    bad = [o for o in obs if "_error" in o]
    if bad:
        raise MachineryFailure("replay error: " + str(bad[0])[:1500])
    CH = 3000
    for off in range(0, len(obs), CH):
        part = obs[off : off + CH]
        path = ck.write_json(f"c02_regobs_{label}_{off}.json", part)
        res = ck.tlc("Trace_C02_reg", "Trace_C02_reg", env={ENV: cx.path, "C02REGOBS": path}, workers=1, coverage=False, label=f"trace validation {label} [{off}:{off + len(part)}]", timeout=2400)
        if res.distinct != len(part) + 1:
            raise MachineryFailure(f"trace validation consumed {res.distinct} states, expected {len(part) + 1}")
        ck.validated(len(part))
        if res.by_tag("ECHO-FAIL"):
            raise MachineryFailure("registry replay looked at other probes/pairs than TLC derives: " + str(res.by_tag("ECHO-FAIL")[0]))
        for r in res.by_tag("T-FAIL") + res.by_tag("P-FAIL"):
            o = part[r["i"] - 1]
            case = cases[off + r["i"] - 1]
            calls = [f"{e['op']}({o.get('uname', 'foo') if e['sym'] == 'foo' else e['sym']}@{o['sys'][e['r'] - 1]}#{e['r']}, {e['form']})" for e in o["h"]]
            d = r["detail"] if isinstance(r["detail"], dict) else {}
            if r["clause"].startswith("reg-convert"):
                q = o["pairs"][r["idx"] - 1]
                key = {"part": "registry", "clause": r["clause"], "kind": q["k"], "route": d.get("route", ""), "from": f"{q['ta']}#{q['r1']}@{q['w1']}", "to": f"{q['tb']}#{q['r2']}@{q['w2']}"}
                detail = {"calls": calls, "scale_from": q.get("s1"), "scale_to": q.get("s2"), "scale_ratio": q.get("want"), "routes": q.get("routes")}
            elif r["clause"] in ("reg-scale", "reg-dimension", "reg-probe-raises"):
                p = o["probes"][r["idx"] - 1]
                key = {"part": "registry", "clause": r["clause"], "system": d.get("system", o["sys"][p["r"] - 1]), "route": d.get("route", ""), "expr": p["text"]}
                detail = {"calls": calls, "base_value": p.get("bv"), "definition_implies": p.get("want"), "exc": p.get("exc"), "tlc": d}
            else:
                key = {"part": "registry", "clause": r["clause"]}
                detail = {"calls": calls, "tlc": d}
            if r["tag"] == "T-FAIL":
                ck.drift_step(r["clause"], {"key": key, "detail": detail})
            else:
                ck.violation(key, detail, case=case)


def run(ck):
    ck.level = "model_checking"
    ck.assumptions += [
        "reference = data/C02_definitions.json, written from the SI brochure / NIST SP 811 / CODATA 2018 / IAU 2012-2015 without network access; class tolerances (relative): exact 4e-15, asdoc 4e-15, conv 1e-7, codata 1e-6, G 1e-3, astro 1e-2, multiplied by the number of worst-class generators (and +1 for a prefix); a slip below the class width is not detectable",
        "that a float equals a literature value is evaluated outside TLC (60-digit evaluation of TLC's symbolic result, reported to TLC as integer distances in class-tolerance units); the definitional structure, classes, dimensions, the meaning of expressions and every comparison are TLC's",
        "alias -> symbol association of name spellings is taken from the tree (C14 owns it); prefix values, symbol definitions and dimensions are independent",
        "affine units (degC, degF, lat, lon) are checked for scale and dimension only; the offset belongs to C08; they and logarithmic units are excluded from products/powers and from the multiplicative conversion law",
        "expression results outside 1e-280..1e280 (also at intermediate nodes) are outside the float range and not compared",
    ]
    cx = Ctx()
    cx.ck = ck
    D = c02_data.Defs()
    cx.defs = D
    ex = ck.extract()
    cx.data = D.tlc_data(ex)
    cx.path = ck.write_json("c02_data.json", cx.data)
    cx.read = {}
    data = cx.data

    if ck.replay:
        blob = json.load(open(ck.replay))
        case = blob["case"]
        if case.get("kind") == "name":
            cx.read[case["n"]] = (case.get("p", 0), case.get("t", 0))
        if case.get("kind") == "table":
            _structure(cx)
            return
        if case.get("kind") == "reg":
            robs = ck.pmap("impl_c02", "observe", [case], nproc=1)
            _validate_reg(cx, [case], robs, "replay")
            return
        _replay(cx, [case], "replay")
        return

    counts = {}
    thorough = ck.tier != "quick"

    # ---- the generating TLC runs are independent of each other: run them side by side
    import concurrent.futures as cf

    stride = ck.q(13, 1)
    mod = 480
    npools = ck.q(3, 24)
    sels = sorted({(ck.seed * 7919 + j * 37 + 11) % mod for j in range(npools)})
    selset = "{" + ", ".join(str(x) for x in [mod] + sels) + "}"

    def gen_all():
        cfg = _cfg(ck, "MC_C02_allt" if thorough else "MC_C02_all", "MC_C02_all_run", {"Stride": stride, "Phase": ck.seed % stride})
        return ck.tlc("MC_C02", cfg, env={ENV: cx.path}, workers=1, timeout=3000, required_actions=["NextDefs", "NextNames", "NextPrefix", "NextConv"],
                      label=f"definitional DAG x table; cases: every name spelling, prefix x prefixable symbol, pairs of names sharing a dimension (1 of {stride})")

    def gen_expr3():
        cfg = _cfg(ck, "MC_C02_expr", "MC_C02_expr_run", {"Sels": selset})
        return _run_expr(cx, cfg, f"expressions: all trees <= 3 tokens over {len(sels) + 1} alphabets (fixed + every {mod}th name from {sels[:4]}...)")

    def gen_expr4():
        cfg = _cfg(ck, "MC_C02_expr", "MC_C02_expr_run4", {"Sels": "{" + str(mod) + "}", "MaxTok": 4, "MaxStack": 3})
        return _run_expr(cx, cfg, "expressions: all trees <= 4 tokens, fixed alphabet")

    def gen_exprsim():
        cfg = _cfg(ck, "MC_C02_expr_sim", "MC_C02_expr_simrun", {"Sels": selset})
        return _run_expr(cx, cfg, "expressions: simulated to 11 tokens (<= 4 operands on the stack)", simulate=ck.q(300, 4000), depth=14)

    def gen_reg(cfgname, label):
        def go():
            return _run_reg(cx, cfgname, label)

        return go

    def gen_more():
        rowmod = ck.q(7, 1)
        cfg = _cfg(ck, "MC_C02_more", "MC_C02_more_run", {"RowMod": rowmod, "RowSel": ck.seed % rowmod})
        r = ck.tlc("MC_C02_more", cfg, env={ENV: cx.path}, workers=1, timeout=3000, required_actions=["NextOrdChain", "NextOrdPairs", "NextPow"],
                   label=f"resolution order in a fresh registry (prefix chains x every prefixable symbol; all ordered prefix pairs x 1 of {rowmod} symbols) and float exponents x call forms")
        more = r.by_tag("MORE")[0]
        pnames = [data["names"][n - 1]["name"] for n in more["pool"]]
        out = []
        for x in r.by_tag("ORD"):
            if any(st["key"] == 0 for st in x["steps"]):
                raise MachineryFailure("order case without a canonical key")
            out.append({"kind": "ord", "t": x["t"], "seq": x["seq"], "al": x["al"], "sname": data["table"][x["t"] - 1]["sym"],
                        "steps": [{"p": st["p"], "kexp": st["kexp"], "name": data["names"][st["n"] - 1]["name"] if st["n"] else data["keys"][st["key"] - 1]} for st in x["steps"]]})
        for x in r.by_tag("POW"):
            out.append({"kind": "pow", "b": x["b"], "e": x["e"], "form": x["form"], "ty": x["ty"], "p": x["p"], "cls": x["cls"], "dimu": x["dimu"],
                        "toks": more["bases"][x["b"] - 1], "names": pnames, "coefs": more["coefs"], "exps": more["exps"]})
        return out

    def gen_edit():
        rowmod = ck.q(2, 1)
        cfg = _cfg(ck, "MC_C02_edit", "MC_C02_edit_run", {"RowMod": rowmod, "RowSel": ck.seed % rowmod})
        r = ck.tlc("MC_C02_edit", cfg, env={ENV: cx.path}, workers=1, timeout=3000, required_actions=["Next"],
                   label=f"edits (modify / add over / remove, optional second modify) of default symbols with aliases (1 of {rowmod}), memo cold / warm for all / for one spelling; every spelling + kilo forms + squares probed after")
        out = []
        for x in r.by_tag("EDIT"):
            c = dict(x)
            c.pop("tag")
            c["kind"] = "edit"
            c["sym"] = data["table"][x["t"] - 1]["sym"]
            c["names"] = {str(n): data["names"][n - 1]["name"] for n in x["spell"] + x["kilo"]}
            out.append(c)
        if len(out) < 100:
            raise MachineryFailure("too few edit cases")
        return out

    def gen_sys():
        mod = ck.q(3, 1)
        cfg = _cfg(ck, "MC_C02_sys", "MC_C02_sys_run", {"Mod": mod, "Sel": ck.seed % mod})
        r = ck.tlc("MC_C02_sys", cfg, env={ENV: cx.path}, workers=1, timeout=3000, coverage=False,
                   label=f"reductions to a named unit system inside an edited registry: system x source (base units, products, electromagnetic atoms) x edited symbol x edit (1 of {mod}); every call form")
        out = []
        for x in r.by_tag("SYS"):
            c = dict(x)
            c.pop("tag")
            c["kind"] = "sys"
            c["sname"] = data["systems"][x["s"] - 1]["name"]
            c["sym"] = data["table"][x["t"] - 1]["sym"]
            c["names"] = {str(n): data["names"][n - 1]["name"] for n in set(x["pool"]) | {a[0] for a in x["src"]}}
            c["first"] = (x["t"] + x["s"] + len(x["src"]) + x["src"][0][0]) % len(x["forms"])
            out.append(c)
        if len(out) < 100:
            raise MachineryFailure("too few unit-system cases")
        if len({c["s"] for c in out}) != len(data["systems"]):
            raise MachineryFailure("a unit system has no case")
        return out

    jobs = {"all": gen_all, "sys": gen_sys, "more": gen_more, "edit": gen_edit, "expr3": gen_expr3, "exprsim": gen_exprsim,
            "reg": gen_reg("MC_C02_reg_t" if thorough else "MC_C02_reg", "user registries: histories <= 3 calls (define_unit tuple/quantity, add, modify) over 2 registries x unit systems, one witness per state"),
            "regname": lambda: _run_regname(cx, thorough),
            "regqux": gen_reg("MC_C02_reg_qux", "user registries: symbol qux defined over user symbol foo, then foo modified; histories <= 3")}
    if thorough:
        jobs["expr4"] = gen_expr4
    with cf.ThreadPoolExecutor(max_workers=max(1, min(len(jobs), NCPU))) as pool:
        futs = {k: pool.submit(f) for k, f in jobs.items()}
        done = {k: f.result() for k, f in futs.items()}
    res = done["all"]
    _structure(cx, res)
    cases = []
    unread = []
    for r in res.by_tag("NAME"):
        if not r["read"] or not r["case"]["covered"]:
            unread.append(data["names"][r["n"] - 1]["name"])
            continue
        cx.read[r["n"]] = (r["case"]["p"], r["case"]["t"])
        cases.append({"kind": "name", "n": r["n"], "p": r["case"]["p"], "t": r["case"]["t"], "name": data["names"][r["n"] - 1]["name"], "gens": r["case"]["gens"]})
    if len(cases) + len(unread) != len(data["names"]):
        raise MachineryFailure("name cases lost")
    counts["names"] = len(cases)
    if unread:
        ck.cov["uncovered"] += [f"name {n!r}: no independent reading" for n in unread[:20]]
    pfx = []
    for r in res.by_tag("PFX"):
        c = r["case"]
        pfx.append({"kind": "pfx", "p": c["p"], "t": c["t"], "kexp": c["kexp"], "pname": data["prefixes"][c["p"] - 1]["p"], "sname": data["table"][c["t"] - 1]["sym"], "own": r["own"], "lib": r["lib"]["k"]})
    npfx = len(data["prefixes"]) * sum(1 for r in data["table"] if r["pfx"])
    if len(pfx) != npfx:
        raise MachineryFailure(f"prefix cases: {len(pfx)} exported, {npfx} expected")
    counts["prefix_pairs"] = npfx
    conv = [{"kind": "conv", "n1": data["keys"][r["i"] - 1], "n2": data["keys"][r["j"] - 1]} for r in res.by_tag("CONV")]
    conva = [{"kind": "conv", "n1": data["names"][r["n"] - 1]["name"], "n2": data["keys"][r["j"] - 1]} for r in res.by_tag("CONVA")]
    if len(conv) < 100:
        raise MachineryFailure("too few conversion pairs")
    counts["conversion_pairs"] = len(conv)
    counts["conversion_pairs_alias_spellings"] = len(conva)
    counts["conversion_stride"] = stride
    cases += pfx + conv + conva

    # ---- compound expressions: all trees to a token bound + simulated deeper ones, over several alphabets
    ecases = []
    alphabets = []
    for k in ("expr3", "expr4", "exprsim"):
        if k in done:
            c, a = done[k]
            ecases += c
            if k == "expr3":
                alphabets += a
    seen = set()
    uniq = []
    for c in ecases:
        sig = (tuple(c["pool"]), tuple(c["toks"]))
        if sig not in seen:
            seen.add(sig)
            uniq.append(c)
    ecases = uniq
    ck.cov["expression_alphabets"] = alphabets[:6]
    counts["expressions"] = len(ecases)
    cases += ecases
    counts["order_sequences"] = sum(1 for c in done["more"] if c["kind"] == "ord")
    counts["float_exponent_cases"] = sum(1 for c in done["more"] if c["kind"] == "pow")
    cases += done["more"]
    counts["edit_cases"] = len(done["edit"])
    counts["edited_symbols"] = len({c["t"] for c in done["edit"]})
    cases += done["edit"]
    counts["unit_system_cases"] = len(done["sys"])
    counts["unit_system_edited_symbols"] = len({c["t"] for c in done["sys"]})
    counts["unit_system_call_forms"] = sum(len(c["forms"]) for c in done["sys"])
    cases += done["sys"]

    # ---- user registries
    rcases = []
    rseen = set()
    for k in ("reg", "regqux", "regname"):
        for c in done[k]:
            sig = json.dumps([c.get("uname", "foo"), c["sys"], [[e[f] for f in ("op", "r", "sym", "t", "c", "form", "pfx")] for e in c["h"]]])
            if sig not in rseen:
                rseen.add(sig)
                rcases.append(c)
    counts["registry_histories"] = len(rcases)
    counts["user_symbol_names"] = len({c["uname"] for c in rcases if c.get("uk")})
    counts["user_symbol_name_cases"] = sum(1 for c in rcases if c.get("uk"))
    counts["user_symbol_names_in_tree_but_not_in_vocabulary"] = sorted({c["uname"] for c in rcases if c.get("ucls") == "tree"})[:40]
    counts["registry_probes"] = sum(len(c["probes"]) for c in rcases)
    counts["registry_conversion_pairs"] = sum(len(c["pairs"]) for c in rcases)

    # ---- replay everything in the real library, then TLC evaluates P and T on the observations
    allobs = cx.ck.pmap("impl_c02", "observe", cases + rcases, chunk_timeout=6000)
    obs, robs = allobs[: len(cases)], allobs[len(cases) :]
    with cf.ThreadPoolExecutor(max_workers=2) as pool:
        f1 = pool.submit(_validate, cx, cases, obs, "all")
        f2 = pool.submit(_validate_reg, cx, rcases, robs, "registries")
        f1.result()
        f2.result()
    nontrivial_reg = sum(1 for c, o in zip(rcases, robs) if any(e["op"] in ("define", "add", "modify") and e["ok"] for e in o["h"]))
    byk = {}
    for c, o in zip(cases, obs):
        byk.setdefault(c["kind"], []).append((c, o))
    rejected = [c["name"] for c, o in byk["name"] if not o["ok"]]
    counts["names_not_accepted_by_Unit"] = len(rejected)
    ck.cov["names_not_accepted_sample"] = rejected[:12]
    nontrivial = nontrivial_reg + sum(1 for c, o in byk["name"] if o["ok"]) + sum(1 for c, o in byk["pfx"] if o["ok"]) + sum(1 for c, o in byk["conv"] if o["ok"] and c["n1"] != c["n2"])
    nontrivial += sum(1 for c, o in byk["edit"] if o["phases"] and o["phases"][0]["ok"])
    nontrivial += sum(1 for c, o in byk["ord"] if all(st["ok"] for st in o["steps"])) + sum(1 for c, o in byk["pow"] if o["ok"])
    nontrivial += sum(1 for c, o in byk["sys"] if o["edit_ok"] and any(f["ok"] for f in o["forms"]))
    eo = byk["expr"]
    counts["expressions_accepted_string"] = sum(1 for c, o in eo if o["s"]["ok"])
    counts["expressions_accepted_arith"] = sum(1 for c, o in eo if o["a"]["ok"])
    counts["expressions_out_of_float_range"] = sum(1 for c, o in eo if (o["s"]["ok"] or o["a"]["ok"]) and not (o["s"]["inrange"] or o["a"]["inrange"]))
    counts["expression_max_tokens"] = max(len(c["toks"]) for c, o in eo)
    counts["expression_max_atoms"] = max(sum(1 for t in c["toks"] if t > 1000) for c, o in eo)
    nontrivial += sum(1 for c, o in eo if o["s"]["ok"] and o["s"]["inrange"] and len(c["toks"]) > 1)
    c, o = byk["name"][len(byk["name"]) // 2]
    ck.sample({"name": c["name"], "symbolic_scale_over_generators": c["gens"], "observed": o.get("bv"), "definition_implies": o.get("want")})
    c, o = byk["conv"][len(byk["conv"]) // 3]
    ck.sample({"convert": [c["n1"], c["n2"]], "route_with_largest_error": o.get("route"), "error_in_units_of_4e-15": o["eu"][0]})
    c, o = max(eo, key=lambda co: len(co[0]["toks"]))
    ck.sample({"expression": o.get("text"), "meaning_atoms": c["at"], "meaning_coef": c["co"], "Unit(str).base_value": o["s"].get("bv"), "product_of_constituents": o.get("want")})

    c, o = rcases[len(rcases) // 2], robs[len(rcases) // 2]
    ck.sample({"registries": c["sys"], "calls": [[e["op"], e["r"], e["sym"], e["form"], _plain(cx, c, e["text"]), e["c"]] for e in c["h"]], "probes": [[p["r"], p["text"], p.get("bv")] for p in o["probes"][:6]], "pairs": [[q["k"], q["ta"], q["w1"], q["tb"], q["w2"]] for q in o["pairs"][:4]]})
    ck.cov.update(counts)
    ck.cov["exhaustive"] = stride == 1
    ck.cov["evaluations"] = ck.cov["traces_validated_against_impl"]
    ck.cov["distinct_nontrivial"] = nontrivial
    ck.cov["rule"] = "cases generated by TLC and replayed: one per name spelling, per prefix x prefixable symbol, per ordered pair of canonical names sharing a dimension (1 of Stride in quick; thorough adds alias spelling x table symbol), per expression tree, per registry history (two registries x unit systems; define_unit / add / modify; probes and conversion pairs through 7-8 routes); non-trivial = accepted by the library and compared (names and prefixed names that resolve; conversions between two different names; expressions with more than one token inside the float range)"


def _structure(cx, res=None):
    """(a) the definitional DAG against the extracted table, decided by TLC"""
    ck = cx.ck
    data = cx.data
    if res is None:
        res = ck.tlc("MC_C02", "MC_C02_defs", env={ENV: cx.path}, workers=1, label="definitional DAG x extracted table", required_actions=["NextDefs"], timeout=1800)
    st = res.by_tag("STRUCT")
    if len(st) != 1:
        raise MachineryFailure("no STRUCT record")
    st = st[0]
    if not st["wellfounded"]:
        raise MachineryFailure("data/C02_definitions.json is not well-founded: " + str([data["nodes"][i - 1]["name"] for i in st["ungrounded"]]))
    syms = res.by_tag("SYM")
    if len(syms) != len(data["table"]):
        raise MachineryFailure("symbol cases lost")
    ck.cov["definitions"] = {"nodes": st["nodes"], "table_rows": st["rows"], "max_rank": st["maxrank"], "keys": st["keys"], "names": st["names"], "generators": len(data["gens"])}
    for t in st["uncovered"]:
        ck.cov["uncovered"].append(f"table symbol {data['table'][t - 1]['sym']!r} has no independent definition")
    for i in st["orphans"]:
        ck.note({"definition_without_table_symbol": data["nodes"][i - 1]["name"]})
    for k in st["unreadable"]:
        ck.cov["uncovered"].append(f"canonical name {data['keys'][k - 1]!r} has no unique reading prefix x symbol")
    cls = {}
    for r in syms:
        c = r["case"]
        sym = data["table"][c["t"] - 1]["sym"]
        if not c["covered"]:
            continue
        cls[cx.defs.classes[c["cls"]]] = cls.get(cx.defs.classes[c["cls"]], 0) + 1
        if not r["dimok"]:
            ck.violation({"part": "table", "clause": "dimension", "sym": sym}, {"table": r["tabledim"], "definition_implies": c["dim"]}, case={"kind": "table", "sym": sym})
    ck.cov["symbols_by_class"] = cls
