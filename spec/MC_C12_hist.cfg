CONSTANTS
  Alias = FALSE
  ExplicitPrefixed = FALSE
  MaxLen = 3
  ExportLen = 3
INIT Init
NEXT Next
INVARIANT ExportHist
CHECK_DEADLOCK FALSE
