INIT TraceInit
NEXT TraceNext
INVARIANT Judge
CHECK_DEADLOCK FALSE
