CONSTANTS
  MaxLen = 1
  ExportLen = 1
  DtAs = {"f8"}
  DtBs = {"f8"}
  UAs = {"la", "oc"}
  UBs = {"lb"}
  UQs = {"la", "na"}
  DtCs = {"f8", "i8"}
  OpSet = {}
  OpSet2 = {}
  FocusR = FALSE
  Fan = 1
  ValSet = {"p2"}
  Seed = 0
INIT Init
NEXT Next
INVARIANT Export
CHECK_DEADLOCK FALSE
