------------------------------- MODULE DefsMore -------------------------------
(* C02, two further case dimensions.                                          *)
(*                                                                            *)
(* (1) ORDER of resolution.  In a registry the first look-up of a prefixed    *)
(* name writes a derived row back into the table, so what a later name        *)
(* resolves to could depend on which names were resolved before it.  C02 says *)
(* it must not: scale(p+s) = prefix(p) x scale(s) whatever the history.  A    *)
(* case is a prefixable symbol s and a sequence of prefixes; the names p_j+s  *)
(* (or a word alias of each) are resolved in that order in a FRESH registry.  *)
(* The sequences: every ordered pair of different prefix spellings, and the   *)
(* chains  q = p o r  of prefix spellings (d, da, a) in every order of the    *)
(* three.  ModelRun is the implementation-shaped memo (derived rows are       *)
(* written back with the prefixable flag cleared; a memoised row is a direct  *)
(* hit); TLC checks on every generated sequence that the design as            *)
(* transcribed is order-free (OrderFree).                                     *)
(*                                                                            *)
(* (2) Exponents given as FLOATS through the object API (Unit ** p,           *)
(* quantity ** p, array ** p, np.power).  The exponent a float denotes is the *)
(* rational of its shortest decimal spelling (0.33 = 33/100); a float made by *)
(* dividing two small integers denotes that fraction (1/3, 1/12).  C02: the   *)
(* result carries exponent q = p, dimension q x dim(u), scale scale(u)^q, and *)
(* data and unit agree.  Exponents finer than the library's documented-by-    *)
(* code resolution (denominator > 10^6, e.g. 2.5000001) are only required to  *)
(* be read within 10^-6 (not demanded beyond), consistently.                  *)
EXTENDS Defs

NIdx(str) == IF \E n \in DOMAIN Names : Names[n].name = str THEN CHOOSE n \in DOMAIN Names : Names[n].name = str ELSE 0

\* ------------------------------------------------------------ (1) order
\* chains of prefix spellings: the spelling of q is the spelling of p followed by the spelling of r
Chains == {x \in (DOMAIN Prefixes) \X (DOMAIN Prefixes) \X (DOMAIN Prefixes) : Prefixes[x[2]].p = Prefixes[x[1]].p \o Prefixes[x[3]].p}
Perms3(a, b, c) == {<<a, b, c>>, <<a, c, b>>, <<b, a, c>>, <<b, c, a>>, <<c, a, b>>, <<c, b, a>>}
ChainSeqs == UNION {Perms3(x[1], x[2], x[3]) \cup {<<x[3], x[2]>>, <<x[1], x[2]>>} : x \in Chains}
PairSeqs == {<<p, q>> : p \in DOMAIN Prefixes, q \in DOMAIN Prefixes} \ {<<p, p>> : p \in DOMAIN Prefixes}
\* canonical key of prefix p on table row t, and a word alias of it (0 if it has none)
KeyOfTab == [p \in DOMAIN Prefixes |-> [t \in PfxRows |->
               IF \E k \in DOMAIN Keys : KeyRead[k] = <<p, t>> THEN CHOOSE k \in DOMAIN Keys : KeyRead[k] = <<p, t>> ELSE 0]]
AliasOfKey == [k \in DOMAIN Keys |->
                 IF \E n \in DOMAIN Names : Names[n].key = k /\ Names[n].name # Keys[k] /\ Len(Names[n].name) > 3
                 THEN CHOOSE n \in DOMAIN Names : Names[n].key = k /\ Names[n].name # Keys[k] /\ Len(Names[n].name) > 3 ELSE 0]
\* implementation-shaped: the registry table plus the rows written back so far (memo: sequence of <<string, p, t>>)
MemoHit(memo, str) == IF \E j \in DOMAIN memo : memo[j][1] = str THEN CHOOSE j \in DOMAIN memo : memo[j][1] = str ELSE 0
ModelResolve(memo, str) ==
  IF MemoHit(memo, str) # 0 THEN [k |-> "memo", p |-> memo[MemoHit(memo, str)][2], t |-> memo[MemoHit(memo, str)][3]]
  ELSE LET ls == LibSplit(str) IN   \* a memoised row is not prefixable, so only table keys are candidates for the remainder
       IF ls.k = "prefixed" /\ (\E p \in DOMAIN Prefixes : Prefixes[p].p = ls.p)
       THEN [k |-> "prefixed", p |-> (CHOOSE p \in DOMAIN Prefixes : Prefixes[p].p = ls.p), t |-> ls.t]
       ELSE [k |-> ls.k, p |-> 0, t |-> ls.t]
RECURSIVE ModelRun(_, _, _, _)
ModelRun(t, seq, j, memo) ==
  IF j > Len(seq) THEN <<>>
  ELSE LET str == Prefixes[seq[j]].p \o Table[t].sym
           r == ModelResolve(memo, str) IN
       <<r>> \o ModelRun(t, seq, j + 1, IF r.k = "prefixed" THEN Append(memo, <<str, r.p, r.t>>) ELSE memo)
\* the design as transcribed resolves every name of the sequence to prefix x symbol whatever came before
OrderFree(t, seq) == LET run == ModelRun(t, seq, 1, <<>>) IN
                     \A j \in DOMAIN seq : run[j].t = t /\ run[j].p # 0 /\ PfxExp(run[j].p) = PfxExp(seq[j])

\* ------------------------------------------------------------ (2) float exponents
\* <<n, d, class>>: "dec" = typed as the decimal n/d; "div" = the float n/d of a division; "fine" = decimal with more digits
\* than the library's resolution
PowExps == << <<33, 100, "dec">>, <<3, 20, "dec">>, <<9, 20, "dec">>, <<17, 20, "dec">>, <<167, 100, "dec">>, <<-167, 100, "dec">>,
              <<1, 200, "dec">>, <<143, 1000, "dec">>, <<667, 1000, "dec">>, <<67, 100, "dec">>, <<34, 100, "dec">>, <<999, 1000, "dec">>,
              <<1, 2, "dec">>, <<3, 2, "dec">>, <<1, 4, "dec">>, <<-3, 4, "dec">>, <<17, 10, "dec">>, <<2, 1, "dec">>, <<-1, 1, "dec">>,
              <<667, 2000, "dec">>, <<2001, 2000, "dec">>, <<617, 5000, "dec">>, <<33333, 100000, "dec">>, <<12345, 100000, "dec">>,
              <<1, 3, "div">>, <<2, 3, "div">>, <<1, 12, "div">>, <<1, 7, "div">>, <<-5, 3, "div">>,
              <<25000001, 10000000, "fine">>, <<3333333, 10000000, "fine">> >>
PowPoolNames == <<"km", "hr", "mile", "Msun", "g", "m", "erg", "s", "kilometer", "G">>
PowPool == [k \in DOMAIN PowPoolNames |-> NIdx(PowPoolNames[k])]
\* base units: every atom of the pool and two compounds ( g/m**3 , erg*s )
PowBases == [k \in DOMAIN PowPoolNames |-> <<NameTok(k)>>] \o << <<DIV, NameTok(5), PowTok(4), NameTok(6)>>, <<MUL, NameTok(7), NameTok(8)>> >>
PowForms == <<"unit", "quantity", "array", "np.power">>
PowTypes == <<"float", "np.float64">>
PowP(e) == Norm(PowExps[e][1], PowExps[e][2])
RECURSIVE PDimSum(_, _)
PDimSum(at, i) == IF i > Len(at) THEN <<>>
                  ELSE LET r == KeyRead[Names[PowPool[at[i][1]]].key] IN
                       VAdd(VScale(FlatTab[TabNode[r[2]]].a, <<at[i][2], at[i][3]>>), PDimSum(at, i + 1))
BaseDimV(b) == PDimSum(Meaning(PowBases[b]).at, 1)

\* ------------------------------------------------------------ property predicates
\* (1) every step of the sequence obeys the prefix rule
C02_OrderStep(step) == step.eu[1] <= 2 /\ step.dimsame
\* (2) q = the exponent the result carries
\* (normalised pairs are compared as pairs; the distance test is written so that no product leaves 32 bits)
SmallQ(q) == Abs(q[1]) <= 200 /\ q[2] <= 50
FineClose(q, p) == LET x == RSub(q, p) IN Abs(x[1]) <= x[2] \div 1000000
C02_PowExponent(q, e) == q = PowP(e) \/ (PowExps[e][3] = "fine" /\ SmallQ(q) /\ FineClose(q, PowP(e)))
\* a carried exponent TLC cannot compare without leaving 32 bits (neither the typed one nor a small fraction)
PowUnreadable(q, e) == q # PowP(e) /\ PowExps[e][3] = "fine" /\ ~SmallQ(q)
C02_PowDim(obs, b, q) == LET want == Dense(VScale(BaseDimV(b), q)) IN \A k \in 1..NB : <<obs[k][1], obs[k][2]>> = want[k]
\* scale(u ** p) = scale(u) ** q and (x ** p) holds x.value ** p: units of 4e-15, plus the float model of a non-dyadic exponent
C02_PowScale(eu, magu) == eu[1] <= 4 + 2 * magu
=============================================================================
