"""C15 - physical constants are coherent across unit systems and with the unit table.

Spec: spec/Constants.tla (+ MC_C15, Trace_C15).  Reference data: data/C15_reference.json (independent of the tree).
  1. the physical_constants table, the exported namespaces, the unit-table rows of the same names and the unit systems
     are regenerated from the working tree (impl_c15.tables, cross-checked with harness/extract.py);
  2. TLC (MC_C15) enumerates every case (name x guise x configuration x comparison route; relation x configuration x
     guise family; constant-vs-unit; literature), decides the table-level clauses by exponent-vector arithmetic
     (dimension of every unit string = the dimension its definition implies, every defining relation dimensionally
     homogeneous, alias sets denote one quantity, names unique) and exports the cases;
  3. every case is replayed in the real library (impl_c15.observe): SI magnitudes -> ladder flags, dimension vectors,
     exceptions, log2 ratios, [p10, pc] value ratios;
  4. TLC (Trace_C15) evaluates the C15 predicates on the observations (P) and compares them with the transcription of
     add_constants (T).  not P -> violation; P but not T -> drift.
"""

import json
import os

import concurrent.futures as cf

from common import NCPU, VERIF, MachineryFailure

CHUNK = 12000
REF = os.path.join(VERIF, "data", "C15_reference.json")
DIMS = {"M": 0, "L": 1, "T": 2, "K": 3, "A": 5}  # position in unyt.dimensions.base_dimensions (Dim.tla)


def _vec(d):
    v = [0] * 9
    for k, e in d.items():
        v[DIMS[k]] = 12 * e
    return v


def _generated_configs(ck, t, cur_of):
    """thorough tier: TLC (MC_C15_cfg) enumerates edited registries over the alphabet of symbols mentioned by the constants' unit
    strings (minus the atomic units of the CGS<->SI route table, see design notes) plus two symbols no constant mentions"""
    mentioned = sorted({a["s"] for r in t["rows"] for a in r["atoms"]} - set(t["em_keys"]))
    syms = mentioned + ["ft", "erg"]
    g = {"systems": [s["id"] for s in t["systems"]], "deep": ["cgs", "imperial"], "syms": syms}
    res = ck.tlc("MC_C15_cfg", env={"CFG_DATA": ck.write_json("cfg_data.json", g)}, workers=1, label="configuration generator (edited registries)", required_actions=["Next"], timeout=1200)
    recs = sorted(res.by_tag("CFG"), key=lambda r: (r["s"], r["x"], r["lx"], r["y"], r["ly"]))
    if len(recs) != res.distinct - 1 or not recs:
        raise MachineryFailure("configuration generator exported nothing")
    out = []
    for r in recs:
        sysid = g["systems"][r["s"] - 1]
        mods = [[syms[r["x"] - 1], r["lx"]]] + ([[syms[r["y"] - 1], r["ly"]]] if r["y"] else [])
        out.append({"id": "gen_" + sysid + "_" + "_".join(f"{m[0]}{m[1]:+d}" for m in mods), "kind": "modified", "sys": sysid, "mods": mods, "cur": cur_of[sysid], "core": False, "generated": True})
    ck.cov["generated_configurations"] = {"alphabet": syms, "count": len(out)}
    return out


SYS_DIMS = ["length", "mass", "time", "temperature", "angle", "current"]


def _generated_systems(ck, ref, need_full):
    """user-defined unit systems enumerated by TLC (MC_C15_sys) over the base-unit alphabets of the reference data"""
    alpha = [ref["system_alphabet"][d] for d in SYS_DIMS]
    cfg = open(ck.spec + "/MC_C15_sys.cfg").read().replace("Full = FALSE", "Full = " + ("TRUE" if need_full else "FALSE"))
    open(ck.spec + "/MC_C15_sys_run.cfg", "w").write(cfg)
    res = ck.tlc("MC_C15_sys", "MC_C15_sys_run", env={"SYS_DATA": ck.write_json("sys_data.json", {"n": [len(a) for a in alpha]})}, workers=1,
                 label="unit-system generator (base-unit alphabets)", required_actions=["Next"], timeout=1200)
    recs = sorted((r["pick"] for r in res.by_tag("SYS")))
    if len(recs) != res.distinct - 1 or not recs:
        raise MachineryFailure("unit-system generator exported nothing")

    def word(x):
        return "none" if x is None else (x[0] + "x" + x[1] if isinstance(x, list) else x)

    out = []
    for pick in recs:
        args = [alpha[d][pick[d] - 1] for d in range(6)]
        out.append({"id": "sys_" + "_".join(word(a) for a in args), "kind": "usersys", "args": args, "cur": args[5] is not None, "mods": [], "core": False,
                    "generated": sum(1 for i in pick if i != 1) == 2 and need_full, "gensys": True, "pick": pick})
    ck.cov["generated_unit_systems"] = {"alphabet": {d: [word(x) for x in a] for d, a in zip(SYS_DIMS, alpha)}, "count": len(out)}
    return out


CODE_DIMS = ["length", "mass", "time", "temperature"]


def _generated_code_registries(ck, ref, need_full):
    """registries with their own code units (same symbol names, different sizes) and a unit system made of them, enumerated by TLC
    (MC_C15_sys over the size alphabets of the reference data)"""
    alpha = [ref["code_alphabet"][d] for d in CODE_DIMS]
    cfg = open(ck.spec + "/MC_C15_sys.cfg").read().replace("Full = FALSE", "Full = " + ("TRUE" if need_full else "FALSE"))
    open(ck.spec + "/MC_C15_code_run.cfg", "w").write(cfg)
    res = ck.tlc("MC_C15_sys", "MC_C15_code_run", env={"SYS_DATA": ck.write_json("code_data.json", {"n": [len(a) for a in alpha]})}, workers=1,
                 label="code-unit registry generator (size alphabets)", required_actions=["Next"], timeout=1200)
    recs = sorted((r["pick"] for r in res.by_tag("SYS")))
    if len(recs) != res.distinct - 1 or not recs:
        raise MachineryFailure("code-unit registry generator exported nothing")
    out = []
    for pick in recs:
        sizes = [alpha[d][pick[d] - 1] for d in range(len(CODE_DIMS))]
        out.append({"id": "code_" + "".join(str(i) for i in pick), "kind": "codereg", "sizes": sizes, "cur": True, "mods": [], "core": False, "generated": False, "gensys": True, "pick": pick})
    ck.cov["generated_code_registries"] = {"alphabet": {d: a for d, a in zip(CODE_DIMS, alpha)}, "count": len(out)}
    return out


def _build(ck):
    t = ck.pmap("impl_c15", "tables", [{}], nproc=1)[0]
    if "_error" in t:
        raise MachineryFailure("table extraction failed: " + str(t))
    ex = ck.extract()
    if list(ex["physical_constants"]) != [r["k"] for r in t["rows"]] or any(ex["physical_constants"][r["k"]]["aliases"] != r["aliases"] or ex["physical_constants"][r["k"]]["unit"] != r["u"] for r in t["rows"]):
        raise MachineryFailure("impl_c15.tables and harness/extract.py disagree on physical_constants")
    if any(r["dim"] is None for r in t["rows"]):
        raise MachineryFailure("a constant's unit string has a dimension outside the 12x grid")
    ref = json.load(open(REF, encoding="utf-8"))
    quants = ref["quantities"]
    qidx = {q["id"]: i + 1 for i, q in enumerate(quants)}
    name2q = {}
    for i, q in enumerate(quants):
        for n in q["names"]:
            if n in name2q:
                raise MachineryFailure("reference data lists a name twice: " + n)
            name2q[n] = i + 1
    names = t["names"]
    exported = {}
    for n, (qid, _like) in ref.get("legacy_names", {}).items():
        name2q.setdefault(n, qidx[qid])
    for r in names:
        r["qi"] = name2q.get(r["n"], 0)
        r["isunit"] = bool(r["in_lut"] or r["in_us"])
        exported.setdefault(r["n"], r["ci"])
    for q in quants:
        q["ci"] = exported.get(q["primary"], 0)
    configs = [{"id": "module", "kind": "module", "sys": "mks", "cur": True, "mods": [], "core": True}, {"id": "top", "kind": "top", "sys": "mks", "cur": True, "mods": [], "core": True}]
    for s in t["systems"]:
        configs.append({"id": "reg_" + s["id"], "kind": "registry", "sys": s["id"], "cur": bool(s["has_current"]), "mods": [], "core": True})
    cur_of = {s["id"]: bool(s["has_current"]) for s in t["systems"]}
    for c in ref["configs"]:
        c = dict(c)
        c["generated"] = False
        c["cur"] = bool(c["has_current"]) if c["kind"] == "usersys" else cur_of.get(c["sys"], True)
        c["core"] = c["id"] in ("user_cur", "user_nocur", "mod_g", "mod_gs_cgs", "edited")
        c.setdefault("sys", "c15_" + c["id"])
        configs.append(c)
    wants_generated = False
    if ck.replay:
        try:
            wants_generated = str(json.load(open(ck.replay))["case"].get("config", "")).startswith("gen_")
        except Exception:  # noqa: BLE001
            wants_generated = False
    wants_pairs = False
    if ck.replay:
        try:
            wants_pairs = str(json.load(open(ck.replay))["case"].get("config", "")).startswith("sys_")
        except Exception:  # noqa: BLE001
            wants_pairs = False
    configs += _generated_systems(ck, ref, (ck.tier == "thorough" and not ck.replay) or wants_pairs)
    configs += _generated_code_registries(ck, ref, False)
    if (ck.tier == "thorough" and not ck.replay) or wants_generated:
        configs += _generated_configs(ck, t, cur_of)
    # the configurations whose constants are compared with each other: rank order = the listed ones, then the code-unit registries
    rank = {}
    for c in configs:
        if c["id"] in ref["pair_members"]:
            rank[c["id"]] = 1 + ref["pair_members"].index(c["id"])
    for c in configs:
        if c["kind"] == "codereg":
            rank[c["id"]] = len(rank) + 1
    for c in configs:
        c["pair"] = rank.get(c["id"], 0)
    rels = [dict(r, terms=[[qidx[a], e] for a, e in r["terms"]]) for r in ref["relations"]]
    use_ids = set(ref["use_configs"]["thorough" if ck.tier == "thorough" else "quick"])
    if ck.replay:
        use_ids = set(ref["use_configs"]["thorough"])
    common = {"rows": t["rows"], "names": names, "quantities": quants, "configs": configs, "relations": rels}
    data = {
        "rows": [{"k": r["k"], "u": r["u"], "dim": r["dim"], "atoms": r["atoms"], "em": r["em_atomic"]} for r in t["rows"]],
        "names": [{"n": r["n"], "ci": r["ci"], "ai": r["ai"], "qi": r["qi"], "isunit": r["isunit"], "bare": r["bare"]} for r in names],
        "quantities": [{"id": q["id"], "dim": _vec(q["dim"]), "cls": q["class"], "unit_enum": bool(q["unit_enum"]), "ci": q["ci"]} for q in quants],
        "relations": [{"id": r["id"], "terms": r["terms"], "form": r["form"]} for r in rels],
        "configs": [{"id": c["id"], "kind": c["kind"], "cur": c["cur"], "core": c["core"], "gensys": bool(c.get("gensys")), "use": c["id"] in use_ids, "pair": c["pair"], "genmod": bool(c.get("generated") and not c.get("gensys")), "mods": [{"s": m[0], "l": m[1]} for m in c.get("mods", [])]} for c in configs],
        "classes": ref["classes"],
        "diffdesign": ref["unit_different_by_design"],
    }
    meta = {
        "names_without_reference": [r["n"] for r in names if not r["qi"]],
        "reference_names_not_exported": sorted(n for n in name2q if n not in exported),
        "extra_attributes": t["extra_attrs"],
        "names_parsing_as_units_but_not_unit_names": [r["n"] for r in names if r["parses"] and not r["isunit"]],
        "top_level_not_the_constant": [r["n"] for r in names if not r["top_is_const"]],
    }
    return data, common, meta


def _label(common, case):
    """human-readable, stable identification of a case"""
    k = case["kind"]
    cfg = common["configs"][case["cfg"] - 1]["id"]
    if k in ("guise", "unit", "pair"):
        nm = common["names"][case["a"] - 1]
        row = common["rows"][nm["ci"] - 1]
        q = common["quantities"][nm["qi"] - 1]["id"] if nm["qi"] else ""
        lab = {"name": nm["n"], "constant": row["k"], "quantity": q, "config": cfg}
        if k == "pair":
            lab["config2"] = common["configs"][case["cfg2"] - 1]["id"]
        return lab
    if k == "rel":
        return {"relation": common["relations"][case["a"] - 1]["id"], "config": cfg}
    return {"quantity": common["quantities"][case["a"] - 1]["id"]}


def _key(common, case, clause):
    key = {"kind": case["kind"], "clause": clause}
    key.update(_label(common, case))
    if case["kind"] == "guise":
        key["guise"] = case["g"]
        key["route"] = case["route"]
    if case["kind"] == "rel":
        key["guise"] = case["g"]
    if case["kind"] == "pair" or (case["kind"] == "unit" and case["route"] != "unit"):
        key["guise"] = case["g"]
        key["route"] = case["route"]
    return key


def _validate(ck, common, data_path, obs, label):
    n_p, n_t, notes = 0, 0, {}
    offs = list(range(0, len(obs), CHUNK))

    def one(off):
        part = obs[off : off + CHUNK]
        path = ck.write_json(f"obs_{label}_{off}.json", part)
        return ck.tlc("Trace_C15", env={"OBS": path, "CONST_DATA": data_path}, workers=1, coverage=False, label=f"trace validation {label}[{off}:{off + len(part)}]", timeout=3000)

    with cf.ThreadPoolExecutor(max_workers=max(1, min(NCPU, len(offs)))) as ex:
        results = list(ex.map(one, offs))  # in chunk order: deterministic verdict order
    for off, res in zip(offs, results):
        part = obs[off : off + CHUNK]
        if res.distinct != len(part) + 1:
            raise MachineryFailure(f"trace validation consumed {res.distinct} states, expected {len(part) + 1}")
        ck.validated(len(part))
        for r in res.by_tag("NOTE"):
            o = part[r["k"] - 1]
            w = o["case"]["kind"] + ":" + r["what"]
            notes.setdefault(w, []).append(o)
        for r in res.by_tag("T-FAIL"):
            o = part[r["k"] - 1]
            n_t += 1
            cs = o["case"]
            ck.drift_step(f"{cs['kind']}:{r['what']}", {"case": dict(cs, **_label(common, cs)), "model": r["model"], "observed": {k: v for k, v in o.items() if k != "case"}})
        for r in res.by_tag("P-FAIL"):
            o = part[r["k"] - 1]
            n_p += 1
            cs = o["case"]
            ck.violation(_key(common, cs, r["clause"]), {k: v for k, v in o.items() if k != "case"}, case=dict(cs, **_label(common, cs)))
    return n_p, n_t, notes


def _use_label(common, cs):
    nm = common["names"][cs["a"] - 1]
    return {"name": nm["n"], "constant": common["rows"][nm["ci"] - 1]["k"], "config": common["configs"][cs["cfg"] - 1]["id"], "guise": cs["g"],
            "ops": ">".join(cs["ops"]), "inplace": cs["ip"]}


def _use_validate(ck, data_path, obs, label):
    """TLC evaluates C15_UseKeeps (P) and the heap discipline (T) on the replayed histories; returns the raw records per chunk"""
    offs = list(range(0, len(obs), CHUNK))

    def one(off):
        part = obs[off : off + CHUNK]
        path = ck.write_json(f"use_{label}_{off}.json", part)
        res = ck.tlc("Trace_C15_use", env={"OBS": path, "CONST_DATA": data_path}, workers=1, coverage=False, label=f"trace validation use histories {label}[{off}:{off + len(part)}]", timeout=3000)
        if res.distinct != len(part) + 1:
            raise MachineryFailure(f"use-history validation consumed {res.distinct} states, expected {len(part) + 1}")
        return res

    with cf.ThreadPoolExecutor(max_workers=max(1, min(NCPU, len(offs)))) as ex:
        return list(zip(offs, ex.map(one, offs)))


def _use_verdicts(ck, common, obs, results):
    n_p, n_t, notes = 0, 0, {}
    for off, res in results:
        part = obs[off : off + CHUNK]
        ck.validated(len(part))
        for r in res.by_tag("NOTE"):
            notes[r["what"]] = notes.get(r["what"], 0) + 1
        for r in res.by_tag("T-FAIL"):
            o = part[r["k"] - 1]
            n_t += 1
            ck.drift_step("use:" + r["what"], {"case": _use_label(common, o["case"]), "model": r["model"], "observed": o.get("steps")})
        for r in res.by_tag("P-FAIL"):
            o = part[r["k"] - 1]
            n_p += 1
            lab = _use_label(common, o["case"])
            ck.violation(dict({"kind": "use", "clause": r["clause"]}, **lab), {k: v for k, v in o.items() if k != "case"}, case=dict(o["case"], **lab))
    return n_p, n_t, notes


def _use_pipeline(ck, common, data_path):
    """stateful part: TLC enumerates the use histories, they are replayed on the real constants (module-level singletons are restored
    after every history), TLC validates the observations.  Runs in its own thread; verdicts are applied by the caller."""
    deep = ck.q(2, 3)
    cfg = open(ck.spec + "/MC_C15_use.cfg").read().replace("MaxLen = 1", "MaxLen = 1").replace("DeepLen = 2", f"DeepLen = {deep}")
    cfg = cfg.replace("WideAll = FALSE", "WideAll = " + ck.q("FALSE", "TRUE"))
    open(ck.spec + "/MC_C15_use_run.cfg", "w").write(cfg)
    res = ck.tlc("MC_C15_use", "MC_C15_use_run", env={"CONST_DATA": data_path}, workers=1, label=f"use histories (calls <= 1, deep rows <= {deep}) + model-level heap discipline",
                 required_actions=["Next"], timeout=3000)
    cases = res.by_tag("USE")
    if len(cases) != res.distinct - 1 or not cases:
        raise MachineryFailure(f"exported {len(cases)} use histories for {res.distinct} states")
    cases = [{"kind": "use", "a": r["a"], "g": r["g"], "cfg": r["cfg"], "ops": list(r["ops"]), "ip": r["ip"]} for r in cases]
    cases.sort(key=lambda r: (r["cfg"], r["a"], r["g"], len(r["ops"]), r["ops"], r["ip"]))
    obs = ck.pmap("impl_c15", "observe_use", cases, common=common)
    bad = [o for o in obs if "_error" in o]
    if bad:
        raise MachineryFailure("use-history replay error: " + str(bad[0]))
    return cases, obs, _use_validate(ck, data_path, obs, "cases")


def _relocate(common, case):
    """a replay file names things by text; find their numbers in the current tables"""
    cfgno = {c["id"]: i + 1 for i, c in enumerate(common["configs"])}
    if "config" in case and case["config"] in cfgno:
        case["cfg"] = cfgno[case["config"]]
    if "config2" in case and case["config2"] in cfgno:
        case["cfg2"] = cfgno[case["config2"]]
    if case["kind"] in ("guise", "unit", "pair") and "name" in case:
        nameno = {r["n"]: i + 1 for i, r in enumerate(common["names"])}
        case["a"] = nameno.get(case["name"], case["a"])
    if case["kind"] == "rel" and "relation" in case:
        relno = {r["id"]: i + 1 for i, r in enumerate(common["relations"])}
        case["a"] = relno.get(case["relation"], case["a"])
    if case["kind"] == "lit" and "quantity" in case:
        qno = {q["id"]: i + 1 for i, q in enumerate(common["quantities"])}
        case["a"] = qno.get(case["quantity"], case["a"])
    return {k: case[k] for k in ("kind", "a", "g", "cfg", "route", "cfg2", "ops", "ip") if k in case}


def run(ck):
    ck.level = "model_checking"
    ck.assumptions += [
        "reference data (data/C15_reference.json) is written from memory of CODATA 2018 / SI 2019 / IAU 2015 / NASA fact sheets without network access; classes are generous (exact 4e-15, codata 1e-6, conv 1e-4, G and measured 1e-3, astro 1e-2): a slip below the class width is not detectable by the literature clause",
        "comparison of floats with reference values and the snapping of deviations to ladder flags is done by the harness (DESIGN section 8); TLC decides on flags, dimension vectors, integer ratios and exceptions",
        "quantities are compared by SI magnitude (value x base_value of the unit in its own registry) and dimension vector; equality class 'same' = 1e-13 relative, defining relations 1e-12",
        "mol is a dimensionless scale in this library: Na reduces to ~1 dimensionless and is exempt from the _cgs/_mks value-ratio clause",
        "a Gaussian (_cgs, or plain in a system without a current unit) guise of an electromagnetic constant and an SI guise have different dimensions by design: == is not demanded between them, the .to()/in_base route (CGS<->SI) is",
        "in a registry where a symbol mentioned by the constant's tabulated unit string was rescaled, equality with the default constant is not demanded (the transcription predicts the factor by exponent arithmetic); agreement of all guises within that registry is",
    ]
    data, common, meta = _build(ck)
    data_path = ck.write_json("const_data.json", data)
    ck.note(meta)
    if meta["names_without_reference"] or meta["reference_names_not_exported"]:
        ck.cov["uncovered"].append({"exported_names_without_reference_quantity": meta["names_without_reference"], "reference_names_not_exported": meta["reference_names_not_exported"]})

    if ck.replay:
        blob = json.load(open(ck.replay))
        case = _relocate(common, dict(blob["case"]))
        if case["kind"] == "table":
            return
        if case["kind"] == "use":
            obs = ck.pmap("impl_c15", "observe_use", [case], nproc=1, common=common)
            if "_error" in obs[0]:
                raise MachineryFailure("replay error: " + str(obs[0]))
            _use_verdicts(ck, common, obs, _use_validate(ck, data_path, obs, "replay"))
            return
        obs = ck.pmap("impl_c15", "observe", [case], nproc=1, common=common)
        if "_error" in obs[0]:
            raise MachineryFailure("replay error: " + str(obs[0]))
        _validate(ck, common, data_path, obs, "replay")
        return

    use_pool = cf.ThreadPoolExecutor(max_workers=1)
    use_future = use_pool.submit(_use_pipeline, ck, common, data_path)
    sel = "all"
    cfg = open(ck.spec + "/MC_C15.cfg").read().replace('CfgSel = "all"', f'CfgSel = "{sel}"')
    cfg = cfg.replace("PairAll = FALSE", "PairAll = " + ck.q("FALSE", "TRUE")).replace("CodeInTable = FALSE", "CodeInTable = " + ck.q("FALSE", "TRUE"))
    open(ck.spec + "/MC_C15_run.cfg", "w").write(cfg)
    res = ck.tlc("MC_C15", "MC_C15_run", env={"CONST_DATA": data_path}, workers=1, label=f"case table, configurations={sel}", required_actions=["Next"], timeout=3000)
    cases = res.by_tag("CASE")
    if len(cases) != res.distinct - 1 or len(cases) < len(common["names"]):
        raise MachineryFailure(f"exported {len(cases)} cases for {res.distinct} states")
    order = {"lit": 0, "unit": 1, "rel": 2, "pair": 3, "guise": 4}
    cases.sort(key=lambda r: (order[r["kind"]], r["cfg"], r["cfg2"], r["a"], r["g"], r["route"]))
    for r in res.by_tag("TABLE-FAIL"):
        cl = r["clause"]
        if cl == "RefRelHomog":
            raise MachineryFailure("reference relation not homogeneous on the reference dimensions: " + common["relations"][r["a"] - 1]["id"])
        if cl == "RelNotExported":
            ck.cov["uncovered"].append({"relation_with_a_constant_not_exported": common["relations"][r["a"] - 1]["id"]})
            continue
        if cl == "RelHomog":
            key = {"kind": "table", "clause": cl, "relation": common["relations"][r["a"] - 1]["id"]}
        else:
            nm = common["names"][r["a"] - 1]
            key = {"kind": "table", "clause": cl, "name": nm["n"], "constant": common["rows"][nm["ci"] - 1]["k"], "quantity": common["quantities"][nm["qi"] - 1]["id"] if nm["qi"] else ""}
        ck.violation(key, {"table_clause": cl}, case={"kind": "table", "a": r["a"], "clause": cl})
    ck.cov["exhaustive"] = True
    ck.cov["bound"] = {"rows": len(common["rows"]), "names": len(common["names"]), "reference_quantities": len(common["quantities"]), "relations": len(common["relations"]),
                       "configurations": [c["id"] for c in common["configs"] if not c.get("generated")], "generated_configurations": sum(1 for c in common["configs"] if c.get("generated"))}
    by_kind = {}
    for r in cases:
        by_kind[r["kind"]] = by_kind.get(r["kind"], 0) + 1
    ck.cov["cases_by_kind"] = by_kind
    ck.cov["evaluations"] = len(cases)
    ck.sample({"case": cases[0], "what": _label(common, cases[0])})
    ck.sample({"case": cases[len(cases) // 2], "what": _label(common, cases[len(cases) // 2])})
    ck.sample({"case": cases[-1], "what": _label(common, cases[-1])})

    obs = ck.pmap("impl_c15", "observe", [{k: r[k] for k in ("kind", "a", "g", "cfg", "route", "cfg2")} for r in cases], common=common)
    bad = [o for o in obs if "_error" in o]
    if bad:
        raise MachineryFailure("replay error: " + str(bad[0]))
    # transition's prediction of presence, exported by MC_C15, must be the one Trace_C15 recomputes (binding of the two instances)
    n_p, n_t, notes = _validate(ck, common, data_path, obs, "cases")
    ck.cov["p_fail_records"] = n_p
    ck.cov["t_fail_records"] = n_t
    ck.cov["not_applicable"] = {k: len(v) for k, v in sorted(notes.items())}
    inapplicable = sum(len(v) for k, v in notes.items() if k in ("guise:magnitude-not-in-SI-dimension", "rel:relation-not-representable", "lit:not-exported"))
    absent = sum(1 for o in obs if not o.get("present"))
    ck.cov["absent_guises_or_participants"] = absent
    ck.cov["distinct_nontrivial"] = len(cases) - inapplicable - absent
    ck.cov["rule"] = "cases whose object exists and whose clause is applicable (magnitude route ending in the SI dimension, relation with all participants representable in its form, exported quantity)"
    for k in ("unit:different-by-design", "unit:different-outside-enumeration"):
        if k in notes:
            ck.note({k: sorted({common["names"][o["case"]["a"] - 1]["n"] for o in notes[k]})})
    applicable_rel = {}
    for o in obs:
        if o["case"]["kind"] == "rel" and o.get("present"):
            rid = common["relations"][o["case"]["a"] - 1]["id"]
            applicable_rel[rid] = applicable_rel.get(rid, 0) + 1
    na = {}
    for o in notes.get("rel:relation-not-representable", []):
        rid = common["relations"][o["case"]["a"] - 1]["id"]
        na[rid] = na.get(rid, 0) + 1
    ck.cov["relation_instances_decided"] = {rid: applicable_rel.get(rid, 0) - na.get(rid, 0) for rid in [r["id"] for r in common["relations"]]}
    # ---- stateful part (ran concurrently): apply its verdicts after the case table's, in a fixed order
    ucases, uobs, uresults = use_future.result()
    use_pool.shutdown()
    u_p, u_t, unotes = _use_verdicts(ck, common, uobs, uresults)
    lens = {}
    for cs in ucases:
        lens[len(cs["ops"])] = lens.get(len(cs["ops"]), 0) + 1
    applied = sum(1 for o in uobs if o.get("present") and o["ip"]["applied"] and o["ip"]["ok"])
    ck.cov["use_histories"] = {"replayed": len(ucases), "by_number_of_calls": {str(k): v for k, v in sorted(lens.items())}, "in_place_call_applied_and_accepted": applied,
                               "configurations": [c["id"] for c in common["configs"] if c["id"] in set(json.load(open(REF, encoding="utf-8"))["use_configs"]["thorough" if ck.tier == "thorough" else "quick"])],
                               "p_fail_records": u_p, "t_fail_records": u_t, "notes": unotes}
    ck.cov["evaluations"] += len(ucases)
    ck.cov["distinct_nontrivial"] += applied
    ck.cov["rule"] += "; use histories whose in-place call was applied to a derived value and accepted"
    ck.sample({"use_history": ucases[len(ucases) // 2], "what": _use_label(common, ucases[len(ucases) // 2])})
    never = [rid for rid, n in ck.cov["relation_instances_decided"].items() if n <= 0]
    if never and not ck.violations:
        raise MachineryFailure("relation never decided in any configuration (vacuous): " + ", ".join(never))
