"""Replay of Equiv.tla histories in real unyt (C09).

observe(case) -> trace record for Trace_C09.tla:
  init  = the initial object (dimension, unit index, dtype, shape, symbolic numbers)
  ev[i] = the request + obs: returned/raised, exception class, the observed numbers
          (each snapped to a symbolic value of the specification when within rounding,
          otherwise a foreign cluster id), unit agreement with the request, class,
          dtype, digest of the input before/after the call, frame condition of views.

Python does: symbolic value -> float (binding the generators to the library's own
constants, high precision), calls, float -> symbolic value matching under a stated
tolerance, projection to strings/bools.  It decides nothing."""

import hashlib
import warnings
from fractions import Fraction

_U = {}
# matching tolerance per float type (a chain of <= 7 roundings, one fourth power): the precision of that type
RTOL = {"f8": 1e-12, "c16": 1e-12, "f4": 1e-5, "c8": 1e-5, "f2": 2e-2}
NPDT = {"i1": "int8", "u1": "uint8", "i2": "int16", "u2": "uint16", "i4": "int32", "u4": "uint32", "i8": "int64", "u8": "uint64",
        "f2": "float16", "f4": "float32", "f8": "float64", "c8": "complex64", "c16": "complex128"}
FINFO = {"f2": "float16", "c8": "float32", "f4": "float32"}
PAD = 7.0


def _tol(dt):
    # integer data: the precision of the float type of the same item size (what the property allows the library to compute in)
    if dt[0] in "iu":
        return {1: 2e-2, 2: 2e-2, 4: 1e-5, 8: 1e-12}[int(dt[1:])]
    return RTOL.get(dt, 1e-12)


# offset scales (degC, degF): a reading y means the absolute value (y + off) * scale.  A float reading carries an absolute
# value only to eps * max(|y + off|, |off|): number claims are made where |absolute value / scale| >= |off| / OFF_R, and
# an object that went through a narrow float type on an offset scale has OFF_TOL x the precision of that type
OFF_R = {8: 1024.0, 4: 4.0, 2: 4.0}
OFF_TOL = 4.0


def _ascii(s):
    return str(s).encode("ascii", "backslashreplace").decode("ascii")


def _carried(val_over_scale, off, dt):
    """can a reading of float type dt on a scale with this offset carry the absolute value to the type's precision?"""
    if off == 0:
        return True
    nb = 8 if dt in ("f8", "c16") else 4 if dt in ("f4", "c8") else 2
    return bool(abs(val_over_scale) * OFF_R[nb] >= abs(off))


def _representable(val, dt):
    """is |val| inside the normal range of the float type dt (with a margin of 4 at both ends)?"""
    if dt not in FINFO:
        return True
    fi = _U["np"].finfo(FINFO[dt])
    a = abs(val)
    return bool(a == 0 or (float(fi.tiny) * 4 <= a <= float(fi.max) / 4))

# formula symbol -> attribute of unyt.physical_constants (long names; the code under test uses the short aliases)
_PHYS = {
    "c": "speed_of_light",
    "h": "planck_constant",
    "kB": "boltzmann_constant",
    "G": "gravitational_constant",
    "mH": "mass_hydrogen",
    "sigma": "stefan_boltzmann_constant",
}


def setup(common=None):
    import mpmath
    import numpy as np
    import unyt
    from unyt import physical_constants as pc

    mpmath.mp.dps = 40
    tb = common["tables"]
    gens = []
    for name, num in zip(tb["gens"], tb["nums"]):
        if name in _PHYS:
            q = getattr(pc, _PHYS[name]).in_mks()
            gens.append(mpmath.mpf(Fraction(float(q.value)).numerator) / Fraction(float(q.value)).denominator)
        elif name == "x":
            gens.append(None)
        else:
            gens.append(mpmath.mpf(num[0]) / num[1])
    # the custom registry of the registry dimension: standard symbols with other values, and code units
    from unyt import dimensions as D0
    from unyt.unit_registry import UnitRegistry

    creg = UnitRegistry()
    for sym, val in (("Msun", 2.0e30), ("AU", 1.5e11), ("eV", 1.6e-19), ("me", 9.0e-31), ("pc", 3.0e16)):
        creg.modify(sym, val)
    for sym, val, dim in (("code_length", 3.0e19, D0.length), ("code_mass", 2.0e40, D0.mass), ("code_time", 3.0e15, D0.time),
                          ("code_temperature", 1.0e4, D0.temperature)):
        creg.add(sym, val, dim)
    units = []
    # the specification's exact offsets (reading y = absolute / scale - off); every other spelling has none
    offs = {o["s"]: Fraction(o["off"][0], o["off"][1]) for o in tb.get("offsets", [])}
    for u in tb["units"]:
        U = unyt.Unit(u["s"], registry=creg) if u["c"] == "code" else unyt.Unit(u["s"])
        if (u["c"] == "offset") != (u["s"] in offs):
            raise RuntimeError("C09 unit table: class offset and the table of offsets disagree: " + u["s"])
        if u["c"] != "offset" and float(U.base_offset) != 0.0:
            raise RuntimeError("offset unit in the C09 unit table outside class offset: " + u["s"])
        units.append({"s": u["s"], "U": U, "scale": float(U.base_value), "d": u["d"], "c": u["c"],
                      "off": mpmath.mpf(offs[u["s"]].numerator) / offs[u["s"]].denominator if u["s"] in offs else mpmath.mpf(0)})
    _U.update(mp=mpmath, np=np, unyt=unyt, gens=gens, units=units, dimcheck=False, creg=creg, dreg=unyt.unit_registry.default_unit_registry)
    # the declared dimension of every spelling is what the library resolves (else the table, not the library, is wrong)
    from unyt import dimensions as D

    dims = {
        "length": D.length, "rate": D.rate, "energy": D.energy, "spatial_frequency": D.spatial_frequency, "mass": D.mass,
        "temperature": D.temperature, "velocity": D.velocity, "dimensionless": D.dimensionless, "density": D.density,
        "number_density": D.number_density, "flux": D.flux, "time": D.time, "pressure": D.pressure,
    }
    for u in units:
        if u["U"].dimensions != dims[u["d"]]:
            raise RuntimeError(f"unit table: {u['s']} is not a {u['d']}")


def sv_value(sv):
    """symbolic value -> mpf (SI)"""
    mp = _U["mp"]
    if sv["r"][1] == 0:
        return mp.inf  # the specification's +infinity (Equiv!Inf)
    v = mp.mpf(sv["r"][0]) / sv["r"][1]
    for g, e in zip(_U["gens"], sv["e"]):
        if e:
            if g is None:
                raise ValueError("indeterminate in a value")
            v *= mp.power(g, mp.mpf(e) / 4)
    return v


def _svkey(sv):
    return (tuple(sv["r"]), tuple(sv["e"]))


class _Snap:
    """float -> symbolic value of the specification (within rtol) or foreign cluster id"""

    def __init__(self):
        self.pool = []  # (key, sv, mpf)
        self.keys = set()
        self.foreign = []  # mpf / None

    def add(self, svs):
        for sv in svs or []:
            k = _svkey(sv)
            if k not in self.keys:
                self.keys.add(k)
                self.pool.append((k, sv, sv_value(sv)))

    def enc(self, y, first, rtol):
        mp = _U["mp"]
        import math

        if y is None or math.isnan(y) or (math.isinf(y) and y < 0):
            return {"k": "other", "r": [0, 1], "e": [], "id": 0}
        cands = [(None, sv, sv_value(sv)) for sv in first] + self.pool
        if math.isinf(y):
            # +inf is the specification's Inf when that value is among the candidates, else a foreign number
            for _, sv, val in cands:
                if mp.isinf(val):
                    return {"k": "sv", "r": list(sv["r"]), "e": list(sv["e"]), "id": 0}
            return {"k": "other", "r": [0, 1], "e": [], "id": 0}
        ym = mp.mpf(y)
        for _, sv, val in cands:
            if mp.isinf(val):
                continue
            if abs(ym - val) <= rtol * abs(val):
                return {"k": "sv", "r": list(sv["r"]), "e": list(sv["e"]), "id": 0}
        for i, f in enumerate(self.foreign):
            if abs(ym - f) <= rtol * abs(f):
                return {"k": "other", "r": [0, 1], "e": [], "id": i + 1}
        self.foreign.append(ym)
        return {"k": "other", "r": [0, 1], "e": [], "id": len(self.foreign)}


def _dt(dtype):
    k = dtype.kind + str(dtype.itemsize)
    return k


def _digest(x, parent):
    np = _U["np"]
    h = hashlib.sha1(np.ascontiguousarray(np.asarray(x)).tobytes()).hexdigest()[:16]
    out = {"b": h, "u": _ascii(x.units), "dt": str(x.dtype), "sh": str(x.shape), "name": str(getattr(x, "name", None))}
    if parent is not None:
        out["pb"] = hashlib.sha1(np.asarray(parent).tobytes()).hexdigest()[:16]
        out["pu"] = _ascii(parent.units)
    else:
        out["pb"] = ""
        out["pu"] = ""
    return out


def _unit_in(s, registry):
    """the unit a spelling means in a registry (memoised per registry object)"""
    memo = _U.setdefault("umemo", {})
    k = (s, id(registry))
    if k not in memo:
        memo[k] = _U["unyt"].Unit(s, registry=registry)
    return memo[k]


def _make(init):
    np = _U["np"]
    unyt = _U["unyt"]
    u = _U["units"][init["u"] - 1]
    registry = _U["creg"] if init.get("reg") == "custom" else None
    scale_in = float(_unit_in(u["s"], registry).base_value) if registry is not None else u["scale"]
    u = dict(u, scale=scale_in)
    vals = [float(sv_value(sv) / _U["mp"].mpf(u["scale"]) - u["off"]) for sv in init["v"]]
    if u["off"] != 0:
        # the case generator only writes numbers on an offset scale that the reading carries to double precision
        for y, sv in zip(vals, init["v"]):
            back = (_U["mp"].mpf(y) + u["off"]) * _U["mp"].mpf(u["scale"])
            if init["dt"] != "f8" or abs(back - sv_value(sv)) > 1e-13 * abs(sv_value(sv)):
                raise RuntimeError(f"case value not carried by a reading in {u['s']}: {y}")
    dt = init["dt"]
    if dt[0] in "iu":
        iv = [int(round(v)) for v in vals]
        for a, b in zip(iv, vals):
            if a != b or u["scale"] != 1.0:
                raise RuntimeError("integer case is not integral in its unit")
        vals = iv
    npdt = NPDT[dt]
    if dt != "f8":
        # the case generator only puts numbers into a narrow dtype that it holds (nearly) exactly
        got = np.array(vals, dtype=npdt)
        if not np.all(np.isfinite(got)) or not np.allclose(got.real, np.array(vals, dtype="float64"), rtol=RTOL.get(dt, 0.0) / 4, atol=0):
            raise RuntimeError(f"case value not representable in {dt}: {vals}")
    sh = init["sh"]
    parent = None
    if sh == "q":
        x = unyt.unyt_quantity(np.array(vals[0], dtype=npdt)[()], u["s"], name="x0", registry=registry)
        if x.dtype != np.dtype(npdt):
            x = unyt.unyt_quantity(np.array(vals[0], dtype=npdt), u["s"], name="x0", registry=registry)
    elif sh == "a":
        x = unyt.unyt_array(np.array(vals, dtype=npdt), u["s"], name="x0", registry=registry)
    elif sh == "v1":
        parent = unyt.unyt_array(np.array([PAD, vals[0], vals[1], PAD], dtype=npdt), u["s"], name="p0")
        x = parent[1:3]
    elif sh == "v2":
        parent = unyt.unyt_array(np.array([vals[0], PAD, vals[1], PAD], dtype=npdt), u["s"], name="p0")
        x = parent[::2]
    else:
        raise ValueError(sh)
    return x, parent


def _target(treg, st):
    """(what is passed as the target, the Unit it means): a string is read in the input's registry (treg: the registry the
    history's object was created in; results stay in it)"""
    s = _U["units"][st["tu"] - 1]["s"]
    tf = st.get("tf", "str")
    off = _U["units"][st["tu"] - 1]["off"]
    if tf == "udef":
        U = _unit_in(s, _U["dreg"])
        return U, U, off
    U = _unit_in(s, treg)
    return (s if tf == "str" else U), U, off


def _call(x, st, tus):
    kw = {}
    for name in st["kw"]["pass"]:
        n, d = st["kw"][name]
        kw[name] = n / d
    en, eq = st["en"], st["eq"]
    if en == "to":
        return x.to(tus, equivalence=eq, **kw)
    if en == "in_units":
        return x.in_units(tus, eq, **kw)
    if en == "to_equivalent":
        return x.to_equivalent(tus, eq, **kw)
    if en == "to_value":
        return x.to_value(tus, equivalence=eq, **kw)
    if en == "convert_to_units":
        return x.convert_to_units(tus, equivalence=eq, **kw)
    if en == "convert_to_equivalent":
        return x.convert_to_equivalent(tus, eq, **kw)
    raise ValueError(en)


def observe(case):
    np = _U["np"]
    unyt = _U["unyt"]
    init = case["init"]
    snap = _Snap()
    snap.add(init["v"])
    for st in case["h"]:
        if st["exp"]["k"] == "ok":
            snap.add(st["exp"]["v"])
        snap.add(st["cand"])
    x, parent = _make(init)
    treg = _U["creg"] if init.get("reg") == "custom" else _U["dreg"]
    ev = []
    tol = _tol(init["dt"])  # the coarsest precision any object of this trace had so far
    with warnings.catch_warnings(), np.errstate(all="ignore"):
        warnings.simplefilter("ignore")
        for st in case["h"]:
            tgt, tU, toff = _target(treg, st)
            tu = {"U": tU, "scale": float(tU.base_value)}
            inplace = st["en"] in ("convert_to_units", "convert_to_equivalent")
            pre = _digest(x, parent)
            obs = {"k": "ok", "exc": "", "v": [], "rep": [], "approx": [], "ueq": True, "unit": "", "cls": "", "dt": "", "frame": True, "uname": "", "ureg": ""}
            ret = None
            try:
                ret = _call(x, st, tgt)
            except Exception as ex:  # noqa: BLE001
                obs["k"] = "raise"
                obs["exc"] = type(ex).__name__
            post = _digest(x, parent)
            obs["pre"], obs["post"] = pre, post
            if parent is not None:
                pv = np.asarray(parent)
                outside = pv[[0, 3]] if init["sh"] == "v1" else pv[[1, 3]]
                obs["frame"] = bool(np.all(outside == PAD)) and bool(np.shares_memory(x, parent))
            if obs["k"] == "ok":
                res = x if inplace else ret
                # the absolute (SI) number of a reading y: (y + off) * scale - scale: the result's own unit (to_value: the
                # requested unit); off: the specification's exact offset of the requested scale, applied when the result
                # is on an offset scale (a result in another unit than requested fails `Unit` whatever its numbers)
                off = 0.0
                if st["en"] == "to_value":
                    scale = tu["scale"]
                    off = toff
                    obs["cls"] = "float" if type(res) is float else "complex" if type(res) is complex else type(res).__name__
                    arr = np.atleast_1d(np.asarray(res))
                else:
                    scale = float(res.units.base_value)
                    obs["ueq"] = bool(res.units == tu["U"]) and float(res.units.base_offset) == float(tu["U"].base_offset)
                    obs["unit"] = _ascii(res.units)
                    # the result's unit as text and the registry it belongs to (TwinUnit: in-place = copying form)
                    obs["uname"] = _ascii(res.units)
                    rr = res.units.registry
                    obs["ureg"] = "in" if rr is treg else "default" if rr is _U["dreg"] else "other"
                    if float(res.units.base_offset) != 0.0:
                        off = toff
                    obs["cls"] = type(res).__name__
                    arr = np.atleast_1d(np.asarray(res))
                obs["dt"] = _dt(arr.dtype)
                tol = max(tol, _tol(obs["dt"]) * (OFF_TOL if off != 0 and obs["dt"] not in ("f8", "c16") else 1.0))
                rtol = tol
                moff = _U["mp"].mpf(off)
                first_e = st["exp"]["v"] if st["exp"]["k"] == "ok" else []
                first_c = st["cand"] or []
                for i, y in enumerate(arr.ravel().tolist()):
                    first = [s[i] for s in (first_e, first_c) if i < len(s)]
                    if isinstance(y, complex):
                        # the cases hold real numbers: an imaginary part beyond rounding makes the number foreign
                        yy = float((_U["mp"].mpf(y.real) + moff) * scale) if abs(y.imag) <= rtol * max(abs(y.real), abs(float(off))) else float("nan")
                    else:
                        yy = float((_U["mp"].mpf(float(y)) + moff) * scale) if off != 0 else float(y) * scale
                    obs["v"].append(snap.enc(yy, first, rtol))
                    # does the formula's number, in the result's unit, lie in the normal range of the result's float type?
                    ref = first_c[i] if i < len(first_c) else first_e[i] if i < len(first_e) else None
                    obs["rep"].append(True if ref is None else (_representable(float(sv_value(ref) / scale - moff), obs["dt"])
                                                                and _carried(float(sv_value(ref)) / scale, float(off), obs["dt"])))
                    obs["approx"].append(repr(y))
                if st["fo"] and st["en"] != "to_value" and not inplace:
                    x, parent = ret, None
            e = {k: st[k] for k in ("en", "eq", "k", "tu", "fo")}
            e["tf"] = st.get("tf", "str")
            e["obs"] = obs
            ev.append(e)
    tinit = {"d": init["d"], "u": init["u"], "dt": init["dt"], "sh": init["sh"], "reg": init.get("reg", "default"),
             "v": [{"k": "sv", "r": list(sv["r"]), "e": list(sv["e"]), "id": 0} for sv in init["v"]]}
    return {"init": tinit, "ev": ev}
