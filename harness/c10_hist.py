"""C10, stateful part: histories of calls on one user-defined UnitSystem.

TLC (MC_C10_hist) explores every history up to MaxLen over the alphabet chosen here from the tables
of the tree (history hidden by VIEW: exhaustive over the abstract state), exports one witness history
per distinct state; impl_c10.observe_hist replays them; TLC (Trace_C10_hist) decides T and P."""

from common import MachineryFailure


def alphabet(tab):
    idx = {a["sym"]: i + 1 for i, a in enumerate(tab["atoms"])}
    pfx = {p: i + 1 for i, p in enumerate(tab["prefixes"])}
    dim = lambda s: tab["atoms"][idx[s] - 1]["dim"]  # noqa: E731
    d = tab["defaults"]
    cur = [[0, idx["g"]], [pfx["k"], idx["m"]], [0, idx["s"]], d[3], d[4], d[5], [0, 0], d[7], d[8]]
    nocur = [list(p) for p in cur]
    nocur[5] = [0, 0]
    bad1 = [list(p) for p in cur]
    bad1[0] = [pfx["f"], idx["s"]]  # a time unit in the mass slot (as in the repository's test_bad_unit_system)
    bad2 = [list(p) for p in cur]
    bad2[1] = [0, idx["erg"]]  # an energy unit in the length slot
    bad3 = [list(p) for p in cur]
    bad3[3] = [0, idx["m"]]  # a length unit in the temperature slot
    vel = [0, 12, -12, 0, 0, 0, 0, 0, 0]
    return {
        "bases": [cur, nocur, bad1, bad2, bad3],
        "decls": [
            {"dim": dim("T"), "x": [[pfx["m"], idx["T"], 12]]},
            {"dim": dim("T"), "x": [[0, idx["T"], 12]]},
            {"dim": dim("erg"), "x": [[0, idx["erg"], 12]]},
            {"dim": dim("G"), "x": [[pfx["m"], idx["G"], 12]]},
        ],
        "dims": [dim("erg"), dim("T"), vel],
        "units": [
            [[0, idx["T"], 12]],
            [[pfx["m"], idx["T"], 12]],
            [[0, idx["G"], 12]],
            [[0, idx["erg"], 12]],
            [[0, idx["m"], -24], [0, idx["Wb"], 12]],
        ],
    }


def _short(tab, e):
    import c10

    if e["op"] == "new":
        return "new(" + ",".join(c10._unit_name(tab, [[p[0], p[1], 12]]) if p[1] else "-" for p in e["base"]) + ")"
    if e["op"] == "declare":
        return "declare(" + c10._unit_name(tab, e["x"]) + ")"
    if e["op"] == "get":
        return "get(" + str(e["dim"]) + ")"
    return e["op"] + "(" + c10._unit_name(tab, e["x"]) + ")"


def _strip(e):
    return {k: v for k, v in e.items() if k in ("op", "base", "dim", "x")}


def _validate(ck, tab, data_path, traces, label):
    import c10

    CH = 20000
    for off in range(0, len(traces), CH):
        part = traces[off : off + CH]
        path = ck.write_json(f"htraces_{label}_{off}.json", part)
        res = ck.tlc("Trace_C10_hist", env={"C10DATA": data_path, "C10TRACES": path}, workers=1, coverage=False, label=f"trace validation histories {label}", timeout=1800)
        expect = 1 + sum(len(t["ev"]) + 1 for t in part)
        if res.distinct != expect:
            raise MachineryFailure(f"history trace validation consumed {res.distinct} states, expected {expect}")
        ck.validated(len(part))
        for r in res.by_tag("T-FAIL"):
            t = part[r["tid"] - 1]
            ck.drift_step("Hist/" + r["op"], {"history": [_short(tab, e) for e in t["ev"][: r["l"]]], "model": r["model"], "model_memo": r["memo"],
                                              "observed": t["ev"][r["l"] - 1]["obs"], "observed_memo": t["ev"][r["l"] - 1]["memo"]})
        for r in res.by_tag("P-FAIL"):
            t = part[r["tid"] - 1]
            key = {"clause": r["clause"], "route": r["route"], "layer": r["layer"], "as_transcribed": bool(r["astranscribed"])}
            detail = {"history": [_short(tab, e) + " -> " + e["obs"]["k"] for e in t["ev"]], "step": r["l"],
                      "probe": c10._unit_name(tab, tab["hist"]["units"][r["probe"] - 1]) if r["probe"] else "",
                      "final": t["final"][r["probe"] - 1] if r["probe"] else t["ev"][r["l"] - 1]["obs"]}
            summ = ck.cov.setdefault("pfail_summary", {})
            sk = f"hist/{r['clause']}/{r['route']}/{r['layer']}"
            summ[sk] = summ.get(sk, 0) + 1
            ck.violation(key, detail, case={"kind": "hist", "h": [_strip(e) for e in t["ev"]]})


def _replay(ck, tab, data_path, cases, label):
    traces = ck.pmap("impl_c10", "observe_hist", cases, common=tab)
    bad = [t for t in traces if "_error" in t]
    if bad:
        raise MachineryFailure("history replay error: " + str(bad[0])[:1500])
    _validate(ck, tab, data_path, traces, label)
    return traces


def replay(ck, tab, data_path, case):
    _replay(ck, tab, data_path, [{"h": case["h"]}], "replay")


def run(ck, tab, data_path):
    maxlen = ck.q(3, 4)
    cfg = open(ck.spec + "/MC_C10_hist.cfg").read().replace("MaxLen = 3", f"MaxLen = {maxlen}")
    open(ck.spec + "/MC_C10_hist_run.cfg", "w").write(cfg)
    res = ck.tlc("MC_C10_hist", "MC_C10_hist_run", env={"C10DATA": data_path}, workers=1, label=f"user-system histories MaxLen={maxlen} (VIEW hides history), state cover export", required_actions=["Next"], timeout=3000)
    hists = [r for r in res.by_tag("HIST") if r["h"]]
    if len(hists) < 50:
        raise MachineryFailure("too few histories exported")
    ck.cov["hist_bound"] = {"MaxLen": maxlen, "histories": len(hists)}
    ck.cov["model_level_history_dependent_states"] = sum(1 for r in hists if r["stale"])
    ck.sample({"history": [_short(tab, e) for e in hists[len(hists) // 2]["h"]]})
    traces = _replay(ck, tab, data_path, [{"h": r["h"]} for r in hists], "cover")
    nontrivial = sum(1 for t in traces if any(e["op"] == "declare" for e in t["ev"]) and t["final"])
    return len(hists), nontrivial
