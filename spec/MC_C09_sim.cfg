CONSTANTS
  MaxLen = 4
  ExportLen = 4
  NUin = 6
  NUout = 6
  Diag = 0
  Part = 0
  Profile = "sim"
INIT Init
NEXT Next
INVARIANT ModelFormula
INVARIANT ExportHist
CHECK_DEADLOCK FALSE
