------------------------------ MODULE Trace_C19 ------------------------------
(* Trace validation for C19, closeness/equality family: every record is one   *)
(* case of MC_C19 together with what the real library did.  For each record   *)
(* TLC evaluates the property predicate P on the observation, compares the    *)
(* observation with the implementation-shaped outcome (T), and checks the     *)
(* re-expression clause: records with the same physical identity (group id g, *)
(* contiguous in the input; the identity itself is PhysKey, computed by TLC   *)
(* when the case was generated) must have received the same verdict.          *)
EXTENDS Helpers, IOUtils
Obs == JsonDeserialize(IOEnv.OBS)
VARIABLES i, grp      \* grp = <<group id, verdict of its first member, explanation if that member broke P>>
TraceInit == i = 1 /\ grp = <<0, <<>>, "">>

HasList(cc) == cc.ka = "lst" \/ cc.kd = "lst"
Explain(cc, o) == IF cc.helper \in UnytHelpers THEN PUnytExplain(cc, o)
                  ELSE IF HasList(cc) /\ TOk(cc, o) THEN "units-of-a-list-of-quantities-ignored"
                  ELSE "none"
TolKind(t) == IF t.k = "bare" THEN (IF RIsZero(t.v) THEN "zero" ELSE "bare")
              ELSE IF UDim(t.u) = "N" /\ ~QEq(UScale(t.u), ROne) THEN "scaled-dimensionless-unit" ELSE "unit"
Rel(cc) == LET ua == EUa(cc)[1]  ud == EUd(cc)[1] IN
           IF UDim(ua) # UDim(ud) THEN "other-dimension"
           ELSE IF SameUnit(ua, ud) THEN "same-unit"
           ELSE IF QLe(UScale(ud), UScale(ua)) /\ ~QEq(UScale(ud), UScale(ua)) THEN "actual-coarser"
           ELSE IF QEq(UScale(ud), UScale(ua)) THEN "same-scale-other-zero" ELSE "actual-finer"
\* value class of the readings, for the finding key
HasTag(cc, t) == (\E k \in DOMAIN cc.sa : cc.sa[k] = t) \/ (\E k \in DOMAIN cc.sd : cc.sd[k] = t)
ValueClass(cc) == IF HasTag(cc, "nan") THEN "nan" ELSE IF HasTag(cc, "inf") \/ HasTag(cc, "-inf") THEN "infinity"
                  ELSE IF cc.a = <<>> \/ cc.d = <<>> THEN "empty" ELSE IF HasTag(cc, "-0") THEN "negative-zero" ELSE "finite"
Describe(cc, o, clause, why) ==
  [i |-> i, clause |-> clause, explains |-> why, helper |-> cc.helper, reg |-> cc.reg, actual_kind |-> cc.ka, desired_kind |-> cc.kd,
   atol |-> TolKind(cc.at), rtol |-> TolKind(cc.rt), units |-> Rel(cc), values |-> ValueClass(cc), equal_nan |-> cc.en,
   observed |-> o, model |-> T(cc)]
Step(r) ==
  LET cc == r.c
      o == r.obs
      p == P(cc, o)
      v == Verdict(o) IN
  /\ (p # "" => PrintT(ToJson([tag |-> "P-FAIL"] @@ Describe(cc, o, p, Explain(cc, o)))))
  /\ (p = "" /\ ~TOk(cc, o) => PrintT(ToJson([tag |-> "T-FAIL"] @@ Describe(cc, o, "", ""))))
  /\ (r.g # 0 /\ r.g = grp[1] /\ v # grp[2] =>
        PrintT(ToJson([tag |-> "P-FAIL", atol |-> "some-member-of-the-group", rtol |-> "some-member-of-the-group", units |-> "some-member-of-the-group"]
                      @@ Describe(cc, o, "verdict-changes-when-units-are-re-expressed", IF p # "" THEN Explain(cc, o) ELSE grp[3]))))
  \* form consistency (r.twin = what the boolean form did on the very same arguments, "none" if there is no such case)
  /\ (cc.helper = "assert_allclose_units" /\ r.twin.k # "none" /\ Accepts(o) # Accepts(r.twin) =>
        PrintT(ToJson([tag |-> "P-FAIL"] @@ Describe(cc, o, "assert-form-and-boolean-form-disagree", Explain(cc, o)))))
  /\ grp' = IF r.g # 0 /\ r.g # grp[1] THEN <<r.g, v, IF p # "" THEN Explain(cc, o) ELSE "none">> ELSE grp
TraceNext == i <= Len(Obs) /\ Step(Obs[i]) /\ i' = i + 1
=============================================================================
