"""C10 - unit-system base conversion stays inside the system and preserves the quantity.

Spec: spec/UnitSystem.tla (+ MC_C10, MC_C10_hist, Trace_C10, Trace_C10_hist).
  1. the model data (atoms with dimension vectors, prefixes, em_conversions, built-in systems with
     base and declared units, UnitSystem.__init__ defaults, a code-unit registry) is regenerated
     from the tree under test by impl_c10.tables and handed to TLC as JSON;
  2. TLC (MC_C10) enumerates the case table  system x unit x entry point  per family (atoms,
     prefixed atoms, compounds, generated user-defined systems) and exports the cases together
     with the route the transcription takes and the clauses the transcription itself breaks;
  3. every case is replayed on the real library (impl_c10.observe);
  4. TLC (Trace_C10) evaluates the C10 clauses on every observation (P) and compares it with the
     transcribed transition (T);
  5. TLC (MC_C10_hist) explores histories of calls on a user-defined system (creation with
     consistent / inconsistent base units, declarations, reads, conversions); the histories are
     replayed and Trace_C10_hist checks validation, immediate usability, the per-step clauses and
     independence of the read history (same probes on a fresh system with the same declarations).
"""

import json
import random

from common import MachineryFailure

ALL_VARIANTS = ["in_base", "in_base_arr", "convert_to_base", "gbe", "to_gbe", "in_sys", "convert_sys", "gbe_sys", "default", "default_conv", "sysobj", "in_base_mod", "convert_mod", "gbe_mod"]
VALUE_VARIANTS = ["in_base", "in_base_arr", "convert_to_base", "to_gbe", "in_sys", "convert_sys", "default", "default_conv", "sysobj", "in_base_mod", "convert_mod"]


def _tla_set(xs):
    return "{" + ", ".join(json.dumps(x) if isinstance(x, str) else str(x) for x in xs) + "}"


def _cfg(ck, name, family, prefixes, variants, comp_stride, ncand, kilo, decl_stride, vcs=("c128",)):
    text = (
        "CONSTANTS\n"
        f'  Family = "{family}"\n'
        f"  PrefixSet = {_tla_set(prefixes)}\n"
        f"  Variants = {_tla_set(variants)}\n"
        f"  CompStride = {comp_stride}\n"
        f"  NCand = {ncand}\n"
        f"  KiloPrefix = {kilo}\n"
        f"  DeclStride = {decl_stride}\n"
        f"  VCSet = {_tla_set(list(vcs))}\n"
        "INIT Init\nNEXT Next\nINVARIANT Export\nCHECK_DEADLOCK FALSE\n"
    )
    open(ck.spec + f"/{name}.cfg", "w").write(text)
    return name


def _unit_name(tab, x):
    parts = []
    for p, a, e in sorted(x, key=lambda t: (t[1], t[0])):
        nm = (tab["prefixes"][p - 1] if p else "") + (tab["atoms"][a - 1]["sym"] if 1 <= a <= len(tab["atoms"]) else "?")
        parts.append(nm if e == 12 else f"{nm}^{e}/12")
    return "*".join(parts) or "1"


def _sys_name(tab, rec):
    if rec["sys"] >= 1:
        return tab["systems"][rec["sys"] - 1]["name"]
    bc = rec.get("bcoef") or [[1, 1]] * 9
    b = ",".join((("" if c == [1, 1] else f"{c[0]}/{c[1]}*") + _unit_name(tab, [[pa[0], pa[1], 12]])) if pa[1] else "-" for pa, c in zip(rec["base"], bc))
    d = ";".join(_unit_name(tab, dd["x"]) for dd in rec["decl"])
    return f"user({b}|{d}|{rec.get('style', '')},{rec.get('form', '')},reg={rec.get('reg', 0)})"


def _norm_obs(o):
    if "_error" in o:
        raise MachineryFailure("replay error: " + str(o)[:1500])
    o.setdefault("made", {"k": "ok", "exc": "", "registered": True})
    for k in ("backexc",):
        o.pop(k, None)
    o.setdefault("uoff", False)
    o.setdefault("lab", {"scale": [1, 1], "off": True, "dim": True, "back": True})
    o["gbe"] = {"k": o["gbe"]["k"], "x": o["gbe"].get("x", []), "coefr": o["gbe"].get("coefr", [1, 1])}
    o["twice"] = {"k": o["twice"]["k"], "x": o["twice"].get("x", []), "coefr": o["twice"].get("coefr", [1, 1]), "same": bool(o["twice"].get("same", True))}
    return o


def _validate(ck, tab, data_path, recs, label):
    """trace validation of single-step observations: P (clauses) and T (transition) by TLC.
    Returns the verdict actions (applied later, in a fixed order, by _apply)."""
    CH = 20000
    acts = []
    for off in range(0, len(recs), CH):
        part = recs[off : off + CH]
        path = ck.write_json(f"obs_{label}_{off}.json", part)
        res = ck.tlc("Trace_C10", env={"C10DATA": data_path, "C10OBS": path}, workers=1, coverage=False, label=f"trace validation {label}", timeout=1800)
        if res.distinct != len(part) + 1:
            raise MachineryFailure(f"trace validation consumed {res.distinct} states, expected {len(part) + 1}")
        acts.append(("validated", len(part)))
        for r in res.by_tag("T-FAIL"):
            rec = part[r["i"] - 1]
            acts.append(("drift", "Target/" + r["route"], {"system": _sys_name(tab, rec), "unit": _unit_name(tab, rec["x"]), "var": rec["var"],
                                                          "observed": {"k": rec["o"]["k"], "unit": _unit_name(tab, rec["o"]["x"]), "coef_pow": [rec["o"].get("coefr"), rec["o"].get("cpow")]}, "model": r["model"]}))
        nfixed = len(res.by_tag("T-FIXED"))
        if nfixed:
            acts.append(("fixed", nfixed))
        for r in res.by_tag("P-FAIL"):
            rec = part[r["i"] - 1]
            o = rec["o"]
            key = {"clause": r["clause"], "route": r["route"], "as_transcribed": bool(r["astranscribed"])}
            detail = {"system": _sys_name(tab, rec), "unit": _unit_name(tab, rec["x"]), "var": rec["var"], "vc": rec.get("vc", "f64"), "label": o.get("lab"), "k": o["k"], "exc": o.get("exc", ""),
                      "result": _unit_name(tab, o["x"]), "coef_pow": [o.get("coefr"), o.get("cpow")], "made": o.get("made"), "unknown": o.get("unk", []), "twice": {"k": o["twice"]["k"], "unit": _unit_name(tab, o["twice"]["x"]), "same": o["twice"]["same"]},
                      "gbe": {"k": o["gbe"]["k"], "unit": _unit_name(tab, o["gbe"]["x"])}, "back": o["back"], "si": o["si"]}
            sk = f"{label}/{r['clause']}/{r['route']}/{'as-transcribed' if r['astranscribed'] else 'not-transcribed'}"
            example = f"{detail['system']}: {detail['unit']} [{detail['var']}, {detail['vc']}] -> {detail['result'] if o['k'] == 'ok' else o.get('exc')}"
            acts.append(("pfail", key, detail, {k: rec[k] for k in ("sys", "base", "bcoef", "decl", "style", "form", "reg", "x", "var", "vc")} | {"kind": "step"}, sk, example))
    return acts


def _apply(ck, acts):
    for a in acts:
        if a[0] == "validated":
            ck.validated(a[1])
        elif a[0] == "drift":
            ck.drift_step(a[1], a[2])
        elif a[0] == "fixed":
            ck.cov["em_route_follows_proposed_fix"] = ck.cov.get("em_route_follows_proposed_fix", 0) + a[1]
        else:
            _, key, detail, case, sk, example = a
            summ = ck.cov.setdefault("pfail_summary", {})
            summ[sk] = summ.get(sk, 0) + 1
            ex = ck.cov.setdefault("pfail_examples", {})
            if len(ex.setdefault(sk, [])) < 8:
                ex[sk].append(example)
            ck.violation(key, detail, case=case)


def _replay_steps(ck, tab, data_path, cases, label):
    for c in cases:  # replay files written before coefficients / value classes existed
        c.setdefault("bcoef", [[1, 1]] * 9 if c["sys"] == 0 else [])
        c.setdefault("style", "str" if c["sys"] == 0 else "")
        c.setdefault("form", "kw" if c["sys"] == 0 else "")
        c.setdefault("reg", 0)
        c.setdefault("vc", "f64")
    SP = ("base", "bcoef", "decl", "style", "form", "reg")
    obs = ck.pmap("impl_c10", "observe", [{"sys": c["sys"], "spec": {k: c[k] for k in SP}, "x": c["x"], "var": c["var"], "vc": c["vc"]} for c in cases], common=tab)
    recs = []
    for c, o in zip(cases, obs):
        recs.append({k: c[k] for k in ("sys",) + SP + ("x", "var", "vc")} | {"o": _norm_obs(o)})
    return recs, _validate(ck, tab, data_path, recs, label)


def _family(ck, tab, data_path, family, **kw):
    """one family: TLC case table -> replay -> TLC trace validation; thread-safe (no shared state is written)"""
    cfg = _cfg(ck, "MC_C10_" + family, family, kw.get("prefixes", [8]), kw.get("variants", ["in_base"]), kw.get("comp_stride", 4), kw.get("ncand", 1), kw["kilo"], kw.get("decl_stride", 8), kw.get("vcs", ("c128",)))
    res = ck.tlc("MC_C10", cfg, env={"C10DATA": data_path}, workers=1, label=f"case table: {family}", required_actions=["Next"], timeout=3000)
    cases = res.by_tag("CASE")
    if len(cases) != res.distinct - 1:
        raise MachineryFailure(f"{family}: exported {len(cases)} cases for {res.distinct - 1} states")
    limit = kw.get("limit")
    if limit and len(cases) > limit:
        rnd = random.Random(ck.seed * 7919 + len(family))
        cases = [cases[i] for i in sorted(rnd.sample(range(len(cases)), limit))]
    model = {}
    for c in cases:
        for cl in c["model"]:
            model.setdefault(c["route"], set()).add(cl)
    recs, acts = _replay_steps(ck, tab, data_path, cases, family)
    return {"family": family, "cases": cases, "recs": recs, "acts": acts, "model": {f"{family}/{k}": sorted(v) for k, v in model.items()}}


def _absorb(ck, tab, out, nontrivial_rule):
    family, cases, recs = out["family"], out["cases"], out["recs"]
    ck.cov.setdefault("model_level_broken_clauses_by_route", {}).update(out["model"])
    ck.cov.setdefault("cases", {})[family] = len(cases)
    if cases:
        mid = cases[len(cases) // 2]
        ck.sample({"family": family, "system": _sys_name(tab, mid), "unit": _unit_name(tab, mid["x"]), "var": mid["var"], "route": mid["route"]})
    _apply(ck, out["acts"])
    return len(cases), sum(1 for r in recs if nontrivial_rule(r))


def run(ck):
    ck.level = "model_checking"
    ck.assumptions += [
        "a unit is a set of (prefix, atom, 12*exponent); dimensions are 12x exponent vectors over unyt.dimensions.base_dimensions",
        "numeric agreement (round trip, SI magnitude, second application) is reduced to booleans by the harness under rtol 1e-11; all other comparisons are TLC's",
        "user-defined systems take atomic (optionally kilo-prefixed) base units from the table; a zero point only on the temperature base unit (degC, degF; offset family); lat / lon as angle base units and re-declaring a base dimension after construction are not demanded",
        "value classes float32 / int32 / complex64 are compared under rtol 5e-6 and only while the converted magnitude stays within [1e-30, 1e30]; the label check (returned unit object vs its freshly resolved spelling) is reduced to a rational ratio and booleans by the harness, the clause is TLC's",
        "a violation is a known finding only when TLC classifies it as the EM counterpart route AND the observation is exactly what the transcription of today's code predicts",
    ]
    tab = ck.pmap("impl_c10", "tables", [{}], nproc=1)[0]
    if "_error" in tab:
        raise MachineryFailure("tables: " + str(tab))
    bad = [s["name"] for s in tab["systems"] if not s["ok"]]
    if bad:
        ck.cov["uncovered"].append({"systems_not_projected": bad})
    import c10_hist

    tab["hist"] = c10_hist.alphabet(tab)
    data_path = ck.write_json("c10data.json", tab)
    kilo = tab["prefixes"].index("k") + 1
    npfx = tab["nprefix"]

    if ck.replay:
        blob = json.load(open(ck.replay))
        case = blob["case"]
        if case.get("kind") == "hist":
            import c10_hist

            c10_hist.replay(ck, tab, data_path, case)
        else:
            _apply(ck, _replay_steps(ck, tab, data_path, [case], "replay")[1])
        return

    import concurrent.futures as cf

    from common import NCPU

    anyobs = lambda r: r["o"]["k"] in ("ok", "raise")  # noqa: E731
    plan = [
        # 1. every table system x every atom x every entry point
        ("atoms", dict(variants=ALL_VARIANTS), lambda r: r["o"]["k"] == "raise" or (r["o"]["k"] == "ok" and r["o"]["x"] != r["x"])),
        # 2. prefixed atoms
        ("prefixed", dict(variants=ck.q(["in_base", "convert_to_base"], ["in_base", "convert_to_base", "gbe", "default"]),
                          prefixes=ck.q(sorted({kilo, tab["prefixes"].index("m") + 1, 1}), list(range(1, npfx + 1)))), anyobs),
        # 3. compounds
        ("compound", dict(variants=ck.q(["in_base"], ["in_base", "convert_to_base", "gbe"]), comp_stride=ck.q(4, 1), limit=ck.q(8000, 120000)), anyobs),
        # 4. generated user-defined systems (value class of the base units and call form rotate)
        ("user", dict(variants=ck.q(["in_base"], ["in_base", "convert_to_base", "gbe"]), comp_stride=ck.q(4, 2), ncand=ck.q(1, 2), decl_stride=ck.q(8, 3), limit=ck.q(8000, 120000)), anyobs),
        # 5. user-defined systems whose base units carry numeric coefficients (quantities such as 2*kpc); entry point rotates
        ("scaled", dict(variants=["rotate"], comp_stride=ck.q(4, 2), ncand=ck.q(1, 2), decl_stride=ck.q(8, 3), limit=ck.q(6000, 60000)), anyobs),
        # 6. validation of base units: one slot of a consistent tuple replaced by every candidate x value class x call form
        ("validate", dict(variants=["in_base"], ncand=ck.q(2, 4)), lambda r: True),
        # 7. value class of the data (narrow float, integer, complex) x value-level entry point x atoms incl. every EM-dimension atom
        ("values", dict(variants=VALUE_VARIANTS, comp_stride=ck.q(4, 1), vcs=ck.q(["c128", "c64", "i64", "f32"], ["c128", "c64", "i64", "i32", "f32"]),
                        prefixes=ck.q([kilo], sorted({kilo, tab["prefixes"].index("m") + 1, 1})), limit=ck.q(10000, 120000)), anyobs),
        # 8. user-defined systems whose temperature base unit has a zero point (degC, degF)
        ("offset", dict(variants=["rotate"], comp_stride=ck.q(4, 2), ncand=1, prefixes=ck.q([kilo], sorted({kilo, tab["prefixes"].index("m") + 1})), limit=ck.q(6000, 60000)), anyobs),
    ]
    import c10_hist

    total = 0
    nontrivial = 0
    with cf.ThreadPoolExecutor(max_workers=max(2, min(len(plan) + 1, NCPU // 2))) as pool:
        futs = [pool.submit(_family, ck, tab, data_path, fam, kilo=kilo, **kw) for fam, kw, _ in plan]
        # 7. histories on a user-defined system (the only thread that records verdicts while the others run)
        fh = pool.submit(c10_hist.run, ck, tab, data_path)
        outs = [f.result() for f in futs]
        nh, nth = fh.result()
    for out, (fam, kw, rule) in zip(outs, plan):
        n, nt = _absorb(ck, tab, out, rule)
        total += n
        nontrivial += nt
        if fam == "validate":
            ck.cov["validate_rejected"] = sum(1 for r in out["recs"] if r["o"]["k"] == "nosystem")
    total += nh
    nontrivial += nth
    ck.cov["exhaustive"] = True
    ck.cov["evaluations"] = total
    ck.cov["distinct_nontrivial"] = nontrivial
    ck.cov["rule"] = "single-step cases whose conversion returned a unit different from the input or raised (atoms family), every constructible case of the other families; histories with at least one conversion or read after a declaration"
