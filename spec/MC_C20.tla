------------------------------- MODULE MC_C20 -------------------------------
(* Bounded instances for C20 (case generation).  One module, four modes:      *)
(*   "valid"  every tree of depth <= Depth over GenNames/GenCoefs/GenExps     *)
(*   "sweep"  every name of the table under every unary template              *)
(*   "build"  a builder machine (wrap the tree with an operator and a sibling *)
(*            of depth <= 1) explored by TLC's simulator to depth MaxD        *)
(*   "mag"    magnitude: extreme-scale names under large integer exponents     *)
(*   "expform" every exponent/coefficient spelling form in every position      *)
(*   "hist"   parsing history: token sequence x joiner x warm-up kind           *)
(*   "xreg"   parsing history across registries: token sequence x joiner x     *)
(*            (registry kind read under, other kind that parsed it before)     *)
(*   "py"     the Python corner: head x trailers x wrapper x warm/cold parser  *)
(*   "persist" registry kind x unit form x carrier x persistence route         *)
(*   "tok"    every token sequence of length <= MaxTok over the tokens TokPick *)
(*            of the alphabet, for each joiner                                *)
(* Cases are exported as JSON records from the invariant Export.              *)
EXTENDS Parser
CONSTANTS Mode, Depth, NGenNames, NGenCoefs, NGenExps, MaxD, MaxTok, TokPick, NJoin, Thin, MaxTr, MaxTrW, ExpPick
GN == 1..NGenNames
GC == 1..NGenCoefs
GE == 1..NGenExps
VARIABLE c
Unary(S) == {<<PowTok(e)>> \o a : e \in GE, a \in S} \cup {<<SQRT>> \o a : a \in S}
T1 == Trees(1, GN, GC, GE)
Sib == LET L == Leaves(GN, GC) IN L \cup Unary(L)
ValidSet == Trees(Depth, GN, GC, GE)
SweepSet == LET L == {<<NameTok(k)>> : k \in GN} IN L \cup Unary(L)
\* magnitude: names with extreme scales (first name of the table: g) under the large integer exponents ExpPick -
\* as a power, a product / quotient of two powers, a power of a power, and in a quotient under g
PowE(e, a) == <<PowTok(e)>> \o a
MagSet == LET N == {<<NameTok(k)>> : k \in GN}
              P1 == {PowE(e, n) : e \in ExpPick, n \in N} IN
          P1 \cup {<<op>> \o x \o y : op \in {MUL, DIV}, x \in P1, y \in {PowE(e, <<NameTok(2)>>) : e \in ExpPick}}
             \cup {<<op>> \o PowE(e1, n) \o PowE(e2, n) : op \in {MUL, DIV}, e1 \in ExpPick, e2 \in ExpPick, n \in N}
             \cup {PowE(e, x) : e \in {3, 7, 11}, x \in P1}
             \cup {<<DIV, NameTok(1)>> \o x : x \in P1}
\* exponent forms: every tree of depth <= 1 and every unary wrapper of one, rendered in the FormStyles
FormSet == T1 \cup Unary(T1)
StyleSeq == IF Mode = "expform" THEN FormStyles ELSE PlainStyles
NextSet(S) == c = <<>> /\ \E a \in S : Good(a) /\ c' = [k |-> "ast", a |-> a, d |-> 0]
Init == IF Mode = "build" THEN c \in {[k |-> "ast", a |-> t, d |-> 0] : t \in {x \in Sib : Good(x)}} ELSE c = <<>>
NextValid == c = <<>> /\ \E a \in ValidSet : Good(a) /\ c' = [k |-> "ast", a |-> a, d |-> 0]
NextSweep == c = <<>> /\ \E a \in SweepSet : Good(a) /\ c' = [k |-> "ast", a |-> a, d |-> 0]
NextBuild == /\ c.d < MaxD
             /\ \E t \in Sib : \E a \in ({<<op>> \o c.a \o t : op \in {MUL, DIV}} \cup {<<op>> \o t \o c.a : op \in {MUL, DIV}} \cup Unary({c.a})) :
                  Good(a) /\ c' = [k |-> "ast", a |-> a, d |-> c.d + 1]
\* (head + rest keeps every enumerated set below TLC's limit of 10^6 elements)
NextTok == c = <<>> /\ \E n \in 0..(MaxTok - 1) : \E h \in TokPick : \E rest \in [1..n -> TokPick] : \E j \in 1..NJoin :
             c' = [k |-> "tok", t |-> <<h>> \o rest, j |-> j]
\* parsing history: sequences of <= MaxTok tokens of HToks (indices TokPick) x tested joiner x warm-up kind
NextHist == c = <<>> /\ \E n \in 0..(MaxTok - 1) : \E h \in TokPick : \E rest \in [1..n -> TokPick] : \E j \in DOMAIN HJoiners : \E w \in DOMAIN HWarm :
              c' = [k |-> "hist", t |-> <<h>> \o rest, j |-> j, w |-> HWarm[w], r |-> "default", q |-> "same"]
\* ... x (registry kind read under, other registry kind that parsed the string before)
NextXreg == c = <<>> /\ \E n \in 0..(MaxTok - 1) : \E h \in TokPick : \E rest \in [1..n -> TokPick] : \E j \in 1..NJoin :
              \E r \in DOMAIN HRegs : \E q \in DOMAIN HRegs \ {r} :
              c' = [k |-> "hist", t |-> <<h>> \o rest, j |-> j, w |-> "foreign", r |-> HRegs[r], q |-> HRegs[q]]
\* Python corner: <= MaxTr trailers under the first two wrappers (bare, product), <= MaxTrW under the others
NextPy == c = <<>> /\ \E h \in DOMAIN PyHeads : \E w \in DOMAIN PyWraps : \E n \in 0..(IF w <= 2 THEN MaxTr ELSE MaxTrW) :
            \E tr \in [1..n -> DOMAIN PyTrailers] : \E warm \in BOOLEAN :
              c' = [k |-> "py", h |-> h, tr |-> tr, w |-> w, warm |-> warm]
NextPersist == c = <<>> /\ \E rk \in DOMAIN RegKinds : \E f \in DOMAIN Forms : \E ca \in DOMAIN Carriers : \E rt \in DOMAIN Routes :
                 PersistCase(RegKinds[rk], Forms[f], Carriers[ca], Routes[rt])
                 /\ c' = [k |-> "persist", rk |-> RegKinds[rk], f |-> Forms[f], ca |-> Carriers[ca], rt |-> Routes[rt]]
Next == CASE Mode = "valid" -> NextValid [] Mode = "sweep" -> NextSweep [] Mode = "build" -> NextBuild
          [] Mode = "mag" -> NextSet(MagSet) [] Mode = "expform" -> NextSet(FormSet)
          [] Mode = "hist" -> NextHist [] Mode = "xreg" -> NextXreg
          [] Mode = "py" -> NextPy [] Mode = "persist" -> NextPersist [] OTHER -> NextTok
\* deterministic thinning of the simulator's export (it evaluates the invariant on every successor)
RECURSIVE WSum(_, _)
WSum(a, n) == IF n = 0 THEN 0 ELSE (n * a[n] + WSum(a, n - 1)) % 1000003
Export ==
  IF c = <<>> THEN TRUE
  ELSE IF c.k = "hist" THEN PrintT(ToJson([tag |-> "HIST", t |-> c.t, j |-> c.j, w |-> c.w, r |-> c.r, q |-> c.q, x |-> [n \in DOMAIN c.t |-> HToks[c.t[n]]]]))
  ELSE IF c.k = "py" THEN PrintT(ToJson([tag |-> "PY", h |-> c.h, tr |-> c.tr, w |-> c.w, warm |-> c.warm, s |-> PyText(c.h, c.tr, c.w)]))
  ELSE IF c.k = "persist" THEN PrintT(ToJson([tag |-> "PERSIST", rk |-> c.rk, f |-> c.f, ca |-> c.ca, rt |-> c.rt]))
  ELSE IF c.k = "tok" THEN PrintT(ToJson([tag |-> "TOK", t |-> c.t, j |-> c.j, x |-> [n \in DOMAIN c.t |-> Toks[c.t[n]].s], pred |-> TokPredict(c.t), feat |-> TokFeatures(c.t)]))
  ELSE (Mode = "build" /\ (c.d < MaxD \/ WSum(c.a, Len(c.a)) % Thin # 0)) \/
       PrintT(ToJson([tag |-> "AST", a |-> c.a, st |-> StyleSeq, sp |-> Spellings(c.a, StyleSeq), ext |-> Extreme(c.a), sem |-> Sem(c.a, "name"), cf |-> Sem(c.a, "name").coef = ROne]))
=============================================================================
