------------------------------- MODULE DefsSys -------------------------------
(* C02 for reductions to a NAMED unit system inside an edited registry.       *)
(*                                                                            *)
(* u.get_base_equivalent(S), x.in_base(S), x.convert_to_base(S), in_cgs ...   *)
(* are conversions x.to(u2) whose target u2 the unit system chooses.  The     *)
(* named systems (cgs mks imperial galactic solar geometrized planck) resolve *)
(* their units in the DEFAULT registry, the caller lives in its own registry  *)
(* R, in which a symbol the source or the target is spelled with may have     *)
(* been re-valued (modify / add over / remove + add).  C02 says, whichever    *)
(* unit comes back:                                                           *)
(*   - its scale is the product of the scales its constituents have, under    *)
(*     the CURRENT definitions, in the registry the unit lives in (R, unless  *)
(*     the library hands back a unit of another registry: that is C13's       *)
(*     matter and not judged), its dimension the sum of theirs;               *)
(*   - the value is x * scale(u1) / scale(u2), each scale read in the         *)
(*     registry of its unit;                                                  *)
(*   - converting the result to its own expression changes nothing, and       *)
(*     converting back gives x.                                               *)
(* Which unit the system chooses is not C02's matter (C10): the returned      *)
(* expression is observed, its atoms are read by TLC through the name table.  *)
(*                                                                            *)
(* A case: target system S x source expression x edited table symbol t x edit *)
(* x whether the registry was created with unit_system = S.  Sources (atoms   *)
(* with rational exponents, all taken from the tables of the tree): every     *)
(* base unit of every system; products of the length / mass / time units of a *)
(* system in the Shapes below (velocity, density, energy, gauss-like half     *)
(* powers ...); the atomic electromagnetic units the library re-routes        *)
(* between cgs and SI.  Edited symbols: those the source is spelled with,     *)
(* those a unit of S of the source's dimension is spelled with, the base      *)
(* units of S the dimension of the source involves, the electromagnetic       *)
(* counterpart.  Prefixed forms are never resolved before the edit (the rows  *)
(* they write back belong to C12).                                            *)
EXTENDS DefsEdit

Systems == D.systems   \* [name, base: 8 unit strings in the order of UnitSystem.units_map ("" = none), atoms: every atom of units_map]
EMTab == D.em          \* [from, to]: atomic electromagnetic units re-routed by the library

\* a name with an independent reading prefix x defined table symbol
Readable(n) == n # 0 /\ KeyRead[Names[n].key][1] >= 0 /\ TabNode[KeyRead[Names[n].key][2]] # 0
RowN(n) == KeyRead[Names[n].key][2]
PreN(n) == KeyRead[Names[n].key][1]
NameOrZero(str) == IF str = "" THEN 0 ELSE LET n == NIdx(str) IN IF Readable(n) THEN n ELSE 0

ASSUME TLCSet(141, [s \in DOMAIN Systems |->
                      [base |-> [b \in DOMAIN Systems[s].base |-> NameOrZero(Systems[s].base[b])],
                       atoms |-> {NameOrZero(Systems[s].atoms[j]) : j \in DOMAIN Systems[s].atoms} \ {0}]])
SysTab == TLCGet(141)
ASSUME TLCSet(142, [e \in DOMAIN EMTab |-> [from |-> NameOrZero(EMTab[e].from), to |-> NameOrZero(EMTab[e].to)]])
EMN == TLCGet(142)
EMNames == UNION {{EMN[e].from, EMN[e].to} : e \in DOMAIN EMN} \ {0}

\* ---- sources
\* exponents of the length, mass, time unit: velocity, density, acceleration, energy, pressure, area, Newton's constant,
\* action, gauss-like (half powers), surface density ** 3/2
Shapes == << << <<1, 1>>, <<0, 1>>, <<-1, 1>> >>, << <<-3, 1>>, <<1, 1>>, <<0, 1>> >>, << <<1, 1>>, <<0, 1>>, <<-2, 1>> >>,
             << <<2, 1>>, <<1, 1>>, <<-2, 1>> >>, << <<-1, 1>>, <<1, 1>>, <<-2, 1>> >>, << <<2, 1>>, <<0, 1>>, <<0, 1>> >>,
             << <<3, 1>>, <<-1, 1>>, <<-2, 1>> >>, << <<2, 1>>, <<1, 1>>, <<-1, 1>> >>, << <<-1, 2>>, <<1, 2>>, <<-1, 1>> >>,
             << <<-3, 1>>, <<3, 2>>, <<0, 1>> >> >>
SrcBase(s2, b) == IF SysTab[s2].base[b] = 0 THEN <<>> ELSE << <<SysTab[s2].base[b], 1, 1>> >>
SrcShape(s2, sh) ==
  LET f(b) == IF Shapes[sh][b][1] = 0 THEN <<>> ELSE << <<SysTab[s2].base[b], Shapes[sh][b][1], Shapes[sh][b][2]>> >> IN
  IF \E b \in 1..3 : Shapes[sh][b][1] # 0 /\ SysTab[s2].base[b] = 0 THEN <<>> ELSE f(1) \o f(2) \o f(3)
SrcEM(e) == IF EMN[e].from = 0 THEN <<>> ELSE << <<EMN[e].from, 1, 1>> >>
\* the systems whose length/mass/time units spell the compound sources of target s: mks, cgs and the next system
ShapeFrom(s) == {s2 \in DOMAIN Systems : Systems[s2].name \in {"mks", "cgs"}} \cup {(s % Len(Systems)) + 1}
Sources(s) == ({SrcBase(s2, b) : s2 \in DOMAIN Systems, b \in 1..8}
               \cup {SrcShape(s2, sh) : s2 \in ShapeFrom(s), sh \in DOMAIN Shapes}
               \cup {SrcEM(e) : e \in DOMAIN EMN}) \ {<<>>}
SrcNames(src) == {src[j][1] : j \in DOMAIN src}

\* dimension of a list of atoms <<name, n, d>> (sum of exponent x definitional dimension)
RECURSIVE SDimSum(_, _)
SDimSum(at, i) == IF i > Len(at) THEN <<>>
                  ELSE VAdd(VScale(FlatTab[TabNode[RowN(at[i][1])]].a, <<at[i][2], at[i][3]>>), SDimSum(at, i + 1))
SDim(at) == Dense(SDimSum(at, 1))

\* ---- which symbol is edited
SysOps == <<"modify", "addover", "readd">>
SysCoef(op) == IF op = "modify" THEN 1 ELSE IF op = "addover" THEN 3 ELSE 2
SysEditable(t) == TabNode[t] # 0 /\ SymKeyOf(t) # 0 /\ Table[t].sym # "dimensionless" /\ ~Logarithmic(t) /\ ~Table[t].off
IsBaseOf(s, n) == \E b \in DOMAIN SysTab[s].base : SysTab[s].base[b] = n
Touches(n, dim) == LET dn == DefDim(RowN(n)) IN \E k \in 1..NB : dn[k] # RZero /\ dim[k] # RZero
Relevant(s, src, t) ==
  LET dim == SDim(src) IN
  \/ \E n \in SrcNames(src) : RowN(n) = t
  \/ \E n \in SysTab[s].atoms : RowN(n) = t /\ (DefDim(t) = dim \/ (IsBaseOf(s, n) /\ Touches(n, dim)))
  \/ \E e \in DOMAIN EMN : EMN[e].from \in SrcNames(src) /\ EMN[e].to # 0 /\ RowN(EMN[e].to) = t
ASSUME TLCSet(143, {t \in DOMAIN Table : SysEditable(t)})
EditableSet == TLCGet(143)
EditedRows(s, src) == {t \in EditableSet : Relevant(s, src, t)}

\* the definition of t after the edit, and the names of the case that are spelled with t (prefix x t): their scale is anchored
SysDef(t, op) == VAdd(CoefVec(SysCoef(op)), ExpGens(0, t))
Pool(s, src) == SysTab[s].atoms \cup SrcNames(src) \cup EMNames
Anchors(s, src, t, op) == LET ns == {n \in Pool(s, src) : RowN(n) = t} IN
                          [n \in ns |-> VAdd(SysDef(t, op), Ten(PfxExp(PreN(n))))]

\* ---- call forms: the unit level first, then quantities and arrays
SysForms(s) == <<"unit.get_base_equivalent(str)", "unit.get_base_equivalent(system)", "array.in_base(str)", "quantity.in_base(system)",
                 "array.convert_to_base(str)">>
               \o (IF Systems[s].name = "cgs" THEN <<"unit.get_cgs_equivalent", "array.in_cgs", "array.convert_to_cgs">>
                   ELSE IF Systems[s].name = "mks" THEN <<"unit.get_mks_equivalent", "array.in_mks", "array.convert_to_mks">> ELSE <<>>)
\* with a registry created with unit_system = s the argument may be left out
SysFormsCtor == <<"unit.get_base_equivalent()", "array.in_base()", "array.convert_to_base()">>
FormsOf(s, ctor) == SysForms(s) \o (IF ctor THEN SysFormsCtor ELSE <<>>)

\* ---- property predicates
\* a name spelled with the edited symbol has prefix x the current definition (exact class: the edit sets an exact multiple)
C02_SysAtom(eu) == eu[1] <= 3
\* scale of the returned unit = product of its constituents' scales in the caller's registry; one unit of 4e-15 per atom and
\* one for the result, plus the float model of non-dyadic exponents (magu, as for expressions)
NonDyadicAt(at) == Cardinality({j \in DOMAIN at : at[j][3] \notin {1, 2, 4, 8}})
C02_SysScale(eu, at, magu) == eu[1] <= Len(at) + 1 + NonDyadicAt(at) * magu
\* x.in_base(S) = x * scale(u1) / scale(u2)
C02_SysConvert(eu, src, at, magu) == eu[1] <= Len(src) + Len(at) + 3 + (NonDyadicAt(at) + NonDyadicAt(src)) * magu
\* converting to the very expression the result carries is the identity
C02_SysSame(eu) == eu[1] <= 2
=============================================================================
