"""C19, decorator family: MC_C19_deco -> replay (impl_c19.observe_deco) -> Trace_C19_deco."""

import concurrent.futures as cf
import json

from common import MachineryFailure


def _key(r):
    return {
        "fam": "deco",
        "clause": r["clause"],
        "template": r["template"],
        "order": r["order"],
        "stacked": bool(r["stacked"]),
        "extra_positional": bool(r["extra_positional"]),
        "wrong_argument_given": r["wrong_argument_given"],
        "well_formed": bool(r["well_formed"]),
    }


def _case(c):
    return {"fam": "deco", "tpl": c["tpl"], "calls": c["calls"]}


def validate(ck, cases, obs, label, nchunks=1):
    recs = []
    for c, o in zip(cases, obs):
        if o.get("build"):
            raise MachineryFailure(f"could not build template {c['tpl']['id']}: {o['build']}")
        steps = [{"k": s["k"], "exc": s["exc"], "called": bool(s["called"]), "same": bool(s["same"])} for s in o["steps"]]
        recs.append({"tpl": c["tpl"], "calls": c["calls"], "obs": steps})
    size = max(1, -(-len(recs) // nchunks))
    offs = list(range(0, len(recs), size))

    def one(off):
        part = recs[off : off + size]
        path = ck.write_json(f"obs_deco_{label}_{off}.json", part)
        res = ck.tlc("Trace_C19_deco", env={"OBS": path}, workers=1, coverage=False, label=f"trace-validation decorators {label} [{off}:{off + len(part)}]", timeout=2400)
        if res.distinct != len(part) + 1:
            raise MachineryFailure(f"trace validation consumed {res.distinct} states, expected {len(part) + 1}")
        return off, len(part), res

    with cf.ThreadPoolExecutor(max_workers=max(1, min(len(offs), 4))) as ex:
        results = list(ex.map(one, offs))
    out = {"validated": 0, "drift": [], "viol": [], "classes": {}}
    for off, n, res in results:
        out["validated"] += n
        for r in res.by_tag("T-FAIL"):
            c = cases[off + r["i"] - 1]
            out["drift"].append(("deco:" + r["template"], {"step": r["step"], "call": c["calls"][r["step"] - 1], "model": r["model"], "observed": r["observed"]}))
        for r in res.by_tag("P-FAIL"):
            c = cases[off + r["i"] - 1]
            cls = f"{r['template']}|{r['clause']}|{r['wrong_argument_given']}|extra_positional={r['extra_positional']}"
            out["classes"][cls] = out["classes"].get(cls, 0) + 1
            out["viol"].append((_key(r), {"step": r["step"], "call": c["calls"][r["step"] - 1], "observed": r["observed"], "model": r["model"], "history_length": len(c["calls"])}, _case(c)))
    return out


def pipeline(ck):
    import c19

    cfg = ck.q("MC_C19_deco_quick", "MC_C19_deco_thorough")
    res = ck.tlc("MC_C19_deco", cfg, workers=1, coverage=False, label=f"decorator sweep + histories {cfg}", timeout=3000)
    cases = [r for r in res.by_tag("CASE")]
    if len(cases) < 1000:
        raise MachineryFailure(f"exported only {len(cases)} decorator cases")
    cases.sort(key=lambda c: json.dumps(_case(c), sort_keys=True))
    by, cex = {}, {}
    for c in cases:
        k = f"{c['tpl']['id']}:len{len(c['calls'])}"
        by[k] = by.get(k, 0) + 1
        for m in c["mp"]:
            if m:
                cex[f"{c['tpl']['id']}:{m}"] = cex.get(f"{c['tpl']['id']}:{m}", 0) + 1
    hist = [c for c in cases if len(c["calls"]) > 1]
    obs = c19.pmap(ck, [_case(c) for c in cases])
    out = validate(ck, cases, obs, "table", nchunks=ck.q(2, 5))
    samples = [{"template": hist[len(hist) // 2]["tpl"]["id"], "calls": hist[len(hist) // 2]["calls"]}] if hist else []
    out.update(cases=len(cases), nontrivial=len(cases), samples=samples,
               cov={"deco_cases_by_template": by, "deco_model_level_counterexamples": cex, "deco_cases": len(cases), "deco_histories": len(hist), "deco_calls": sum(len(c["calls"]) for c in cases)})
    return out
