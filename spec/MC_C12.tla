------------------------------ MODULE MC_C12 ------------------------------
(* Bounded instance of Registry for C12: all histories of registry calls up *)
(* to MaxLen.  Two uses, selected by the cfg:                                *)
(*   MC_C12_states : exhaustive state space (history hidden by VIEW), one    *)
(*                   witness history per explored transition is exported;    *)
(*                   the model-level verdict of C12_Fresh is exported too.   *)
(*   MC_C12_hist   : every history up to MaxLen (no VIEW), exported at       *)
(*                   terminal length; also used with -simulate.              *)
EXTENDS Registry
CONSTANTS MaxLen, ExportLen, ExplicitPrefixed

Next == /\ Len(hist) < MaxLen
        /\ \/ \E s \in Syms, sc \in Scales, px \in BOOLEAN, d \in Dims : Add(s, sc, px, d)
           \* a user symbol that is SPELLED like prefix + symbol (kfoo) defined in its own right
           \/ (ExplicitPrefixed /\ \E s \in Keys \ Syms, sc \in Scales, d \in Dims : Add(s, sc, FALSE, d))
           \/ \E s \in Keys, sc \in Scales : Modify(s, sc)
           \/ \E s \in Syms, sc \in Scales, d \in Dims : ModifyQ(s, sc, d)
           \/ \E s \in Keys : Remove(s)
           \/ \E s \in Keys : Contains(s)
           \/ \E s \in Syms, sc \in Scales, px \in BOOLEAN, d \in Dims : DefineUnit(s, sc, px, d)
           \/ \E p \in Probes : Construct(p)
Spec == Init /\ [][Next]_vars

View == <<user, lut, ucache, last>>

\* model-level verdict: which probes are stale in this state (empty on a correct design)
Stale == {p \in Probes : ~FreshOk(p, Peek(p))}
StaleClasses == {[layer |-> Layer(p), edit |-> LastEdit(p), probe |-> ProbeKind(p)] : p \in Stale}

\* transition cover: one witness history per explored transition
ExportTrans == PrintT(ToJson([tag |-> "HIST", h |-> hist', stale |-> {[layer |-> IF ucache'[p] # None THEN "ucache" ELSE "lutrow", probe |-> ProbeKind(p)] : p \in {q \in Probes : ~(LET pk == IF ucache'[q] # None THEN ucache'[q] ELSE LET e == Eval(lut', Atoms(q), 1, <<>>, <<>>) IN IF e.ok THEN [k |-> "unit", s |-> CombineS(q, e.s), d |-> CombineD(q, e.d)] ELSE Raise IN pk = RefResolve(user', q))}}]))
\* state cover: one (shortest) witness history per distinct state
ExportState == PrintT(ToJson([tag |-> "HIST", h |-> hist, stale |-> {[layer |-> c.layer, probe |-> c.probe] : c \in StaleClasses}]))
\* all histories of terminal length
ExportHist == Len(hist) = ExportLen => PrintT(ToJson([tag |-> "HIST", h |-> hist, stale |-> StaleClasses]))
\* model-level classes of staleness reachable (reported once per class by the harness)
ReportStale == Stale # {} => PrintT(ToJson([tag |-> "MODEL-STALE", classes |-> StaleClasses]))
=============================================================================
