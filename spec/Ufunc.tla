------------------------------- MODULE Ufunc -------------------------------
(* C01 - incommensurable quantities are never silently combined.             *)
(*                                                                           *)
(* Two layers:                                                               *)
(*  T  implementation-shaped outcome functions, transcribed in code order    *)
(*     from unyt/array.py (__array_ufunc__ binary branch, __setitem__,       *)
(*     in_units/convert_to_units), unyt/_array_functions.py (the handlers    *)
(*     that merge values from several arrays and their two validators) and   *)
(*     unyt/unit_object.py (Unit.__add__/__sub__, _get_conversion_factor).   *)
(*     Lifted from DESIGN Appendix C and extended (operand kinds, call forms,*)
(*     shapes, array functions, setitem, conversion).                        *)
(*  P  the property predicate C01: says only what the statement says, by the *)
(*     mathematics of the operation (NeedsComm/ArrClass), never by the       *)
(*     code's rule table.                                                    *)
(* A case is a record [fam, op, form, k0, n0, k1, n1]:                       *)
(*   fam  "ufunc" | "arrfn" | "setitem" | "conv" | "unitop"                  *)
(*   k0/k1 operand kinds, n0/n1 unit names of the model alphabet             *)
EXTENDS Rational, Sequences, FiniteSets, TLC
\* real units of the lookup table for the gamma sweep: a function name -> [name, dim, scale, off] (empty in the model instances)
CONSTANT TableUnits

(* ------------------------------------------------------------------------ *)
(* unit alphabet: dyadic units of a custom registry + real special units     *)
(* ------------------------------------------------------------------------ *)
\* em: dimensions this unit converts to through the CGS<->SI electromagnetic table (real table units only)
UnitRec(n, d, s, o) == [name |-> n, dim |-> d, scale |-> s, off |-> o, em |-> {}]
(* derived units: a dimension is a vector of RATIONAL exponents over the base dimensions, not an atom.  The units   *)
(* below are rational powers / quotients of the model base units (length: la scale 1, lb scale 1024; time: ta), the *)
(* way np.cbrt, np.sqrt, x**(1/3), 1/x, x/y produce them.  A derived unit is named by its exponents                 *)
(* "<length base>^p/q" or "<length base>^p/q.ta^r/s"; its dimension string is computed from the NORMALISED exponents, *)
(* so two units have the same dimension exactly when every exponent is equal as a rational number - no rounding,   *)
(* no truncation, no comparison of the symbols alone (L^1/3 is not 1, L^4/3 is not L, L^2/3 is not L^1/2,          *)
(* L^-1 and L^2 are not L, L/T is not T/L).                                                                        *)
RStr(r) == ToString(r[1]) \o "/" \o ToString(r[2])
\* 33/100 next to 1/3: exponents 1/300 apart (a comparison with a tolerance, or of rounded floats, cannot tell them apart)
DExpL == {<<-1,1>>, <<-1,3>>, <<0,1>>, <<1,5>>, <<33,100>>, <<1,3>>, <<1,2>>, <<2,3>>, <<1,1>>, <<4,3>>, <<3,2>>, <<2,1>>}
DExpT == {<<-1,1>>, <<0,1>>, <<1,1>>}
\* lb = 1024 la: a power p/q of lb has the rational scale 2^(10p/q) only when q divides 10p
DExps == {e \in (DExpL \X DExpT) \X {"la","lb"} :
            /\ ~(e[1][2] = RZero /\ e[1][1] \in {RZero, ROne}) /\ ~(e[1][1] = RZero /\ e[1][2] = ROne)
            /\ (e[2] = "lb" => e[1][1] # RZero /\ (10 * e[1][1][1]) % e[1][1][2] = 0 /\ e[1][2] = RZero
                                /\ (10 * e[1][1][1]) \div e[1][1][2] \in -10..15)}   \* scales 2^-10 .. 2^15: observed floats snap exactly
DName(e) == e[2] \o "^" \o RStr(e[1][1]) \o (IF e[1][2] = RZero THEN "" ELSE ".ta^" \o RStr(e[1][2]))
DTable == [n \in {DName(e) : e \in DExps} |-> CHOOSE e \in DExps : DName(e) = n]
DDim(el, et) == IF el = RZero /\ et = RZero THEN "1" ELSE IF el = ROne /\ et = RZero THEN "L" ELSE IF el = RZero /\ et = ROne THEN "T"
                ELSE "L^" \o RStr(el) \o ".T^" \o RStr(et)
DUnitRec(n, e) == UnitRec(n, DDim(Norm(e[1][1][1], e[1][1][2]), Norm(e[1][2][1], e[1][2][2])),
                          IF e[2] = "lb" THEN RPow(R(2), (10 * e[1][1][1]) \div e[1][1][2]) ELSE ROne, RZero)
U(n) ==
  CASE n = "la" -> UnitRec(n, "L", R(1), RZero)
    [] n = "lb" -> UnitRec(n, "L", R(1024), RZero)
    [] n = "ta" -> UnitRec(n, "T", R(1), RZero)
    [] n = "ma" -> UnitRec(n, "M", R(1), RZero)
    [] n = "nd" -> UnitRec(n, "1", R(1), RZero)
    [] n = "nq" -> UnitRec(n, "1", <<1,4>>, RZero)
    [] n = "pc" -> UnitRec(n, "1", <<1,100>>, RZero)
    [] n = "lr" -> UnitRec(n, "1", R(1024), RZero)        \* the ratio unit lb/la: dimensionless by cancellation, scale 1024
    [] n = "rad" -> UnitRec(n, "A", R(1), RZero)
    [] n = "K" -> UnitRec(n, "Th", R(1), RZero)
    [] n = "R" -> UnitRec(n, "Th", <<5,9>>, RZero)
    [] n = "degC" -> UnitRec(n, "Th", R(1), <<-27315,100>>)
    [] n = "degF" -> UnitRec(n, "Th", <<5,9>>, <<-45967,100>>)
    [] n = "delta_degC" -> UnitRec(n, "Th", R(1), RZero)
    [] n = "delta_degF" -> UnitRec(n, "Th", <<5,9>>, RZero)
    [] n = "C" -> UnitRec(n, "Qm", R(1), RZero)
    [] n = "statC" -> UnitRec(n, "Qc", R(1), RZero)
    [] n \in DOMAIN DTable -> DUnitRec(n, DTable[n])
    [] OTHER -> TableUnits[n]
AllUnitNames == {"la","lb","ta","ma","nd","nq","pc","lr","rad","K","R","degC","degF","delta_degC","delta_degF","C","statC"}
Dimless == U("nd")
UEq(a,b) == a.dim = b.dim /\ a.scale = b.scale /\ a.off = b.off   \* Unit.__eq__ (isclose is exact on this alphabet)
StartsDelta(n) == n \in {"delta_degC","delta_degF"}
\* python: a in b, on repr strings of this alphabet
SubStr(a,b) == a = b \/ (a = "degC" /\ b = "delta_degC") \/ (a = "degF" /\ b = "delta_degF")
                     \/ (a = "C" /\ b \in {"degC","delta_degC","statC"}) \/ (a = "R" /\ FALSE)
EMPair(a,b) == {a.dim, b.dim} = {"Qm","Qc"} \/ b.dim \in a.em \/ a.dim \in b.em

(* ------------------------------------------------------------------------ *)
(* operands                                                                  *)
(* ------------------------------------------------------------------------ *)
\* q quantity, a array(2), az zero-filled unyt array(2), c column (2,1) unyt array,
\* bs bare number, ba bare ndarray, bl bare list, z bare 0, za zeros(2), zl [0,0],
\* lq list of two quantities of one unit, lqm list of two quantities of different dimensions
\* value classes (class ids: TLC does not hold the floats; T and P only need "is every entry exactly zero?"):
\*   ts 1e-20, ds 5e-324 (denormal), ns NaN, is inf: bare numbers that are NOT zero;  nz -0.0: IS zero
\*   ta [1e-17,1e-20], tm [1e-17, 0.0] (some exact zeros, some tiny), t32 float32 [1e-8,1e-8] (below float32 eps),
\*   tl list [1e-20, 0.0], na [nan, inf]: bare sequences that are NOT all zero;  nza [-0.0, 0.0]: IS all zero
\*   tq 1.6e-19 <unit>, tqa [1.6e-19, 0.0] <unit>: unit-carrying operands with tiny values (never exempt)
\* size / shape classes (an operand without elements still has a dimension):
\*   e0 unyt_array of shape (0,), e02 of shape (0,2), e20 of shape (2,0), a1 of shape (1,), q0a a 0-d unyt_array (not a quantity);
\*   be a bare empty ndarray, bel the empty list (vacuously all zero: the documented exemption applies)
ShapeUnyt == {"e0","e02","e20","a1","q0a"}
ShapeKinds == ShapeUnyt \cup {"be","bel"}
UnytKinds == {"q","a","az","c","tq","tqa"} \cup ShapeUnyt
QKinds == {"q","tq"}
AKinds == {"a","az","c","tqa"} \cup ShapeUnyt
\* sequences of quantities: lq [3u, 5/2 u], lqm [3u, 5/2 u'] (two dimensions), tlq / tlqm the same as tuples,
\* lqm3 [3u, 5/2 u, 2u'] (the foreign dimension comes third)
ListQ == {"lq","lqm","tlq","tlqm","lqm3"}
MixedQ == {"lqm","tlqm","lqm3"}
\* heterogeneous sequences - bare numbers next to quantities: lzq [0.0, 5u], lbq [3.0, 5u], lqb [3u, 5/2]
HetList == {"lzq","lbq","lqb"}
BareNumber == {"bs","z","ts","ds","nz","ns","is"}
BareZero == {"z","za","zl","nz","nza","be","bel"}
BareKinds == {"bs","ba","bl","z","za","zl","ts","ds","nz","ns","is","ta","tm","t32","tl","nza","na","be","bel"}
SpecialKinds == {"ts","ds","nz","ns","is","ta","tm","t32","tl","nza","na","tq","tqa"}
OpaqueKinds == (SpecialKinds \ {"nz","nza"}) \cup ShapeKinds          \* numbers not held by the model: results are not compared
ZeroKinds == {"z","za","zl","az","nz","nza","be","bel"}          \* every entry is exactly zero (-0.0 is zero)
AllKinds == UnytKinds \cup ListQ \cup HetList \cup BareKinds
\* shapes: s (), v (2,), c (2,1), m (2,2), w (3,), o (1,), e (0,), e02 (0,2), e20 (2,0); x = not broadcastable
Shape(k) == IF k \in {"q","bs","z","ts","ds","nz","ns","is","tq","q0a"} THEN "s" ELSE IF k = "c" THEN "c" ELSE IF k = "lqm3" THEN "w"
            ELSE IF k = "a1" THEN "o" ELSE IF k \in {"e0","be","bel"} THEN "e" ELSE IF k \in {"e02","e20"} THEN k ELSE "v"
BaseVals(pos) == IF pos = 0 THEN <<R(3), <<5,2>>>> ELSE <<R(2), R(5)>>
Vals(k,pos) == IF k \in ShapeKinds \ {"a1","q0a"} THEN <<>> ELSE IF k \in {"a1","q0a"} THEN <<BaseVals(pos)[1]>>
               ELSE IF k \in ZeroKinds THEN (IF Shape(k) = "s" THEN <<RZero>> ELSE <<RZero,RZero>>)
               ELSE IF Shape(k) = "s" THEN <<BaseVals(pos)[1]>>
               ELSE IF k = "lqm3" THEN BaseVals(pos) \o <<R(2)>>
               ELSE IF k = "lzq" THEN <<RZero, BaseVals(pos)[2]>> ELSE BaseVals(pos)
\* hetfail: _coerce_iterable_units finds element units that differ (a bare number counts as the NULL unit) and calls
\* .in_units on every element - a bare number has no such method
Operand(k,n,pos) == [kind |-> k, unit |-> IF k \in UnytKinds \cup ListQ \cup HetList THEN U(n) ELSE Dimless,
                     isunyt |-> k \in UnytKinds, sh |-> Shape(k), vals |-> Vals(k,pos), mixed |-> k \in MixedQ, noadopt |-> FALSE,
                     zero |-> k \in ZeroKinds, opq |-> k \in OpaqueKinds,
                     hetfail |-> k \in HetList /\ ~UEq(U(n), Dimless)]
\* the repaired zero scan (fixes/C01-zero-unyt-array.patch): a unyt_array never adopts
OperandR(k,n,pos) == [Operand(k,n,pos) EXCEPT !.noadopt = k \in UnytKinds]
\* np.count_nonzero(operand) == 0: exact zeros only, however small the other entries are
AllZero(o) == ~o.noadopt /\ o.zero
\* the dimension the property sees: bare data is dimensionless, a mixed list has no single dimension
PDim(k,n) == IF k \in MixedQ THEN "mixed" ELSE IF k \in UnytKinds \cup ListQ \cup HetList \cup {"u"} THEN U(n).dim ELSE "1"
\* the second dimension of a mixed sequence (gamma builds it the same way)
OtherUnit(u) == U(IF u.dim = "L" THEN "ta" ELSE "la")
\* what an operand consists of, for the property: a set of element classes [dim, bz (an exactly-zero bare entry), b (bare)]
\* nul: a unit-carrying entry whose unit IS the null unit (no dimension, scale one, no offset) - the only unit-carrying
\* value that __setitem__ may store like a bare number (test_setitem); percent, a ratio lb/la, nq are NOT null
El(d, bz, b) == [dim |-> d, bz |-> bz, b |-> b, nul |-> FALSE]
ElU(u) == [dim |-> u.dim, bz |-> FALSE, b |-> FALSE, nul |-> (u.dim = "1" /\ u.scale = ROne /\ RIsZero(u.off))]
Elems(k,n) ==
  CASE k \in MixedQ -> {ElU(U(n)), ElU(OtherUnit(U(n)))}
    [] k \in UnytKinds \cup ListQ \cup {"u"} -> {ElU(U(n))}
    [] k = "lzq" -> {El("1", TRUE, TRUE), ElU(U(n))}
    [] k \in {"lbq","lqb"} -> {El("1", FALSE, TRUE), ElU(U(n))}
    [] k \in BareZero -> {El("1", TRUE, TRUE)}
    [] OTHER -> {El("1", FALSE, TRUE)}

(* shapes: s scalar, v (2,), c (2,1), m (2,2); flat C order *)
Bc(a,b) == IF a = "s" THEN b ELSE IF b = "s" THEN a ELSE IF a = b THEN a
           ELSE IF a = "o" THEN b ELSE IF b = "o" THEN a
           ELSE IF {a,b} = {"e02","v"} THEN "e02" ELSE IF {a,b} = {"e20","c"} THEN "e20"
           ELSE IF {a,b} = {"v","c"} THEN "m" ELSE "x"
Compat(a,b) == Bc(a,b) # "x"
NEl(sh) == IF sh \in {"s","o"} THEN 1 ELSE IF sh = "m" THEN 4 ELSE IF sh = "w" THEN 3 ELSE IF sh \in {"e","e02","e20"} THEN 0 ELSE 2
AtB(o, rsh, k) == IF o.sh = "s" THEN o.vals[1]
                  ELSE IF rsh = "m" THEN (IF o.sh = "c" THEN o.vals[((k-1) \div 2)+1] ELSE o.vals[((k-1) % 2)+1])
                  ELSE o.vals[k]
Map2B(F(_,_), o0, o1) == LET rsh == Bc(o0.sh, o1.sh) IN [k \in 1..NEl(rsh) |-> F(AtB(o0,rsh,k), AtB(o1,rsh,k))]
Map2O(F(_,_), o0, o1) == LET n1 == Len(o1.vals) IN
                         [k \in 1..(Len(o0.vals)*n1) |-> F(o0.vals[((k-1) \div n1)+1], o1.vals[((k-1) % n1)+1])]
Map2(F(_,_), form, o0, o1) == IF form = "outer" THEN Map2O(F, o0, o1) ELSE Map2B(F, o0, o1)

(* ------------------------------------------------------------------------ *)
(* outcomes                                                                  *)
(* ------------------------------------------------------------------------ *)
\* k: raise | val | bool | tuple | none ; unit: alphabet name, "" = bare, "*" = not modelled ; vk: exact | opaque
Raise(e) == [k |-> "raise", exc |-> e, unit |-> "", vk |-> "opaque", v |-> <<>>]
Val(u, v) == [k |-> "val", exc |-> "", unit |-> u, vk |-> "exact", v |-> v]
ValO(u) == [k |-> "val", exc |-> "", unit |-> u, vk |-> "opaque", v |-> <<>>]
Bool(v) == [k |-> "bool", exc |-> "", unit |-> "", vk |-> "exact", v |-> v]
BoolO == [k |-> "bool", exc |-> "", unit |-> "", vk |-> "opaque", v |-> <<>>]
Tuple(u) == [k |-> "tuple", exc |-> "", unit |-> u, vk |-> "opaque", v |-> <<>>]
None_(u) == [k |-> "none", exc |-> "", unit |-> u, vk |-> "opaque", v |-> <<>>]

(* ------------------------------------------------------------------------ *)
(* T, part 1: the binary branch of __array_ufunc__ (array.py:1843-1994)      *)
(* ------------------------------------------------------------------------ *)
\* the per-ufunc rule table as it stands in the tree (array.py:497-586), binary entries used here
Rule(op) == CASE op \in {"add","remainder","fmod","hypot","maximum","minimum","fmax","fmin","nextafter","heaviside"} -> "preserve"
              [] op = "subtract" -> "difference"
              [] op = "multiply" -> "multiply"
              [] op \in {"divide","floor_divide"} -> "divide"
              [] op \in {"less","less_equal","greater","greater_equal","equal","not_equal","logical_and","logical_or","logical_xor"} -> "comparison"
              [] op = "arctan2" -> "arctan2"
              [] op \in {"copysign","divmod"} -> "passthrough"
              [] op \in {"logaddexp","logaddexp2"} -> "nounit"
              [] OTHER -> "unknown"
KnownOps == {"add","remainder","fmod","hypot","maximum","minimum","fmax","fmin","nextafter","heaviside","subtract","multiply",
             "divide","floor_divide","less","less_equal","greater","greater_equal","equal","not_equal","logical_and","logical_or",
             "logical_xor","arctan2","copysign","divmod","logaddexp","logaddexp2"}
Checked(rule) == rule \in {"preserve","difference","comparison","arctan2"}
BoolOps == {"less","less_equal","greater","greater_equal","equal","not_equal","logical_and","logical_or","logical_xor"}

Preserve(u0,u1) == IF u0.dim # "Th" THEN u0 ELSE IF RIsZero(u0.off) /\ ~RIsZero(u1.off) THEN u1 ELSE u0
Difference(u0,u1) ==
   IF u0.dim # "Th" THEN [raise |-> FALSE, unit |-> Preserve(u0,u1)]
   ELSE IF ~UEq(u1,u0) THEN
        IF SubStr(u0.name,u1.name) /\ StartsDelta(u1.name) THEN [raise |-> FALSE, unit |-> u0]
        ELSE IF SubStr(u1.name,u0.name) /\ StartsDelta(u0.name) THEN [raise |-> FALSE, unit |-> u1]
        ELSE [raise |-> TRUE, unit |-> u0]
   ELSE IF RIsZero(u0.off) THEN [raise |-> FALSE, unit |-> u0]
   ELSE IF u0.name = "degF" THEN [raise |-> FALSE, unit |-> U("delta_degF")]
   ELSE [raise |-> FALSE, unit |-> U("delta_degC")]

B01(b) == IF b THEN ROne ELSE RZero
Apply(op, form, o0, o1) ==
   CASE op = "add" -> [vk |-> "exact", v |-> Map2(RAdd, form, o0, o1)]
     [] op = "subtract" -> [vk |-> "exact", v |-> Map2(RSub, form, o0, o1)]
     [] op \in {"maximum","fmax"} -> [vk |-> "exact", v |-> Map2(RMax, form, o0, o1)]
     [] op \in {"minimum","fmin"} -> [vk |-> "exact", v |-> Map2(RMin, form, o0, o1)]
     [] op = "less" -> [vk |-> "exact", v |-> Map2(LAMBDA x,y : B01(RLt(x,y)), form, o0, o1)]
     [] op = "less_equal" -> [vk |-> "exact", v |-> Map2(LAMBDA x,y : B01(RLe(x,y)), form, o0, o1)]
     [] op = "greater" -> [vk |-> "exact", v |-> Map2(LAMBDA x,y : B01(RLt(y,x)), form, o0, o1)]
     [] op = "greater_equal" -> [vk |-> "exact", v |-> Map2(LAMBDA x,y : B01(RLe(y,x)), form, o0, o1)]
     [] op = "equal" -> [vk |-> "exact", v |-> Map2(LAMBDA x,y : B01(x = y), form, o0, o1)]
     [] op = "not_equal" -> [vk |-> "exact", v |-> Map2(LAMBDA x,y : B01(x # y), form, o0, o1)]
     [] OTHER -> [vk |-> "opaque", v |-> <<>>]
ScaleVals(o, r) == [o EXCEPT !.vals = [i \in DOMAIN o.vals |-> RMul(o.vals[i], r)]]
Finish(op, form, unitname, o0, o1) ==
   LET r0 == Apply(op, form, o0, o1)
       r == IF o0.opq \/ o1.opq THEN [vk |-> "opaque", v |-> <<>>] ELSE r0 IN
   IF op \in BoolOps THEN [k |-> "bool", exc |-> "", unit |-> "", vk |-> r.vk, v |-> r.v]
   ELSE IF op = "divmod" THEN Tuple(unitname)
   ELSE [k |-> "val", exc |-> "", unit |-> unitname, vk |-> r.vk, v |-> r.v]

CoerceExc(o) == IF o.hetfail THEN "AttributeError" ELSE IF o.mixed THEN "IterableUnitCoercionError" ELSE ""
UfCore(op, form, o0, o1) ==
  LET u0 == o0.unit  u1 == o1.unit  rule == Rule(op) IN
  \* _coerce_iterable_units: a list of quantities of different dimensions cannot be coerced
  IF CoerceExc(o0) # "" THEN Raise(CoerceExc(o0))
  ELSE IF CoerceExc(o1) # "" THEN Raise(CoerceExc(o1))
  \* K/R guard
  ELSE IF rule = "preserve" /\ u0.dim = "Th" /\ ~RIsZero(u1.off) /\ RIsZero(u0.off) /\ u0.name \in {"K","R"}
  THEN Raise("UnitOperationError")
  ELSE IF Checked(rule) /\ ~UEq(u0,u1) THEN
     LET bothUnyt == o0.isunyt /\ o1.isunyt
         \* the zero exception: scanned whenever one operand is not a unyt_array; the first all-zero operand adopts
         a0 == IF ~bothUnyt /\ AllZero(o0) THEN u1 ELSE u0
         a1 == IF ~bothUnyt /\ ~AllZero(o0) /\ AllZero(o1) THEN a0 ELSE u1
         adopt == rule = "comparison" /\ a0.dim # a1.dim /\ (a0.dim = "1" \/ a1.dim = "1")
         b0 == IF adopt /\ a0.dim = "1" THEN a1 ELSE a0
         b1 == IF adopt /\ a0.dim # "1" /\ a1.dim = "1" THEN b0 ELSE a1
     IN IF b0.dim # b1.dim THEN
           IF op = "equal" THEN Bool([i \in DOMAIN o1.vals |-> RZero])
           ELSE IF op = "not_equal" THEN Bool([i \in DOMAIN o1.vals |-> ROne])
           ELSE Raise("UnitOperationError")
        ELSE
           LET ratio == RDiv(b1.scale, b0.scale)
               hasoff == ~(RIsZero(b1.off) /\ RIsZero(b0.off)) IN
           IF hasoff /\ ~RIsZero(b1.off) /\ ~StartsDelta(b0.name)
           THEN Raise("InvalidUnitOperation")
           ELSE LET \* a temperature difference + a reading of another scale: the difference is brought to the reading's
                    \* scale (the result is labelled with it), otherwise operand 1 is brought to operand 0's scale
                    swap == rule = "preserve" /\ b0.dim = "Th" /\ RIsZero(b0.off) /\ ~RIsZero(b1.off)
                    o0c == IF swap THEN ScaleVals(o0, RDiv(ROne, ratio)) ELSE o0
                    o1c == IF swap THEN o1 ELSE ScaleVals(o1, ratio)
                    ru == IF rule = "difference" THEN Difference(b0,b1)
                          ELSE [raise |-> FALSE, unit |-> IF rule = "preserve" THEN Preserve(b0,b1) ELSE b0]
                IN IF ru.raise THEN Raise("InvalidUnitOperation")
                   ELSE Finish(op, form, IF rule = "arctan2" THEN "nd" ELSE ru.unit.name, o0c, o1c)
  ELSE IF Checked(rule) THEN   \* equal units
     LET ru == IF rule = "difference" THEN Difference(u0,u1)
               ELSE [raise |-> FALSE, unit |-> IF rule = "preserve" THEN Preserve(u0,u1) ELSE u0] IN
     IF ru.raise THEN Raise("InvalidUnitOperation")
     ELSE Finish(op, form, IF rule = "arctan2" THEN "nd" ELSE ru.unit.name, o0, o1)
  ELSE IF rule = "passthrough" THEN Finish(op, form, u0.name, o0, o1)   \* no dimension check at all
  ELSE IF rule = "nounit" THEN ValO("")
  ELSE \* multiply / divide: the temperature guard; product unit not modelled
     IF (~RIsZero(u0.off) /\ u0.dim = "Th") \/ (~RIsZero(u1.off) /\ u1.dim = "Th")
     THEN Raise("InvalidUnitOperation")
     ELSE ValO("*")

\* unyt_array.__eq__/__ne__ turn a refusal into all-False / all-True of the left operand's shape
EqWrap(op, form, o0, o1) ==
  LET r == UfCore(op, form, o0, o1) IN
  IF form = "operator" /\ op \in {"equal","not_equal"} /\ o0.isunyt /\ r.k = "raise"
     /\ r.exc \in {"IterableUnitCoercionError","UnitOperationError"}
  THEN Bool([i \in DOMAIN o0.vals |-> IF op = "equal" THEN RZero ELSE ROne])
  ELSE r
Mirror(op) == CASE op = "less" -> "greater" [] op = "greater" -> "less" [] op = "less_equal" -> "greater_equal"
                [] op = "greater_equal" -> "less_equal" [] OTHER -> op
CompareOps == {"less","less_equal","greater","greater_equal","equal","not_equal"}
\* divmod builds both results with the binary return class: a quantity class with a non-scalar result cannot be built
RetQuantity(o0, o1) == (o0.kind \in QKinds /\ o1.kind \notin AKinds) \/ (o1.kind \in QKinds /\ o0.kind \notin AKinds)
\* call forms: call | outer | operator | iop | out | at | reduce_initial
UfOutcome(op, form, o0, o1) ==
  IF form = "at" THEN Raise("RuntimeError")                 \* three inputs
  ELSE IF form = "reduce_initial" THEN ValO(o0.unit.name)   \* unary branch: initial= is handed to NumPy unseen
  \* array <op> quantity: ndarray's rich comparison defers to the subclass instance on the right, which evaluates the mirrored ufunc
  ELSE IF form = "operator" /\ op \in CompareOps /\ o0.kind \in AKinds /\ o1.kind \in QKinds
  THEN EqWrap(Mirror(op), form, o1, o0)
  ELSE LET r == EqWrap(op, form, o0, o1) IN
       IF op = "divmod" /\ r.k = "tuple" /\ RetQuantity(o0, o1) /\ NEl(Bc(o0.sh, o1.sh)) > 1 THEN Raise("RuntimeError")
       ELSE r

(* ------------------------------------------------------------------------ *)
(* T, part 2: array functions (_array_functions.py)                          *)
(* ------------------------------------------------------------------------ *)
\* get_units(): ndarray -> its unit or NULL; Number -> NULL; other iterables recursively
GetUnits(o) == CASE o.kind \in {"lqm","tlqm"} -> <<o.unit, OtherUnit(o.unit)>>
                 [] o.kind = "lqm3" -> <<o.unit, o.unit, OtherUnit(o.unit)>>
                 [] o.kind \in {"lq","tlq"} -> <<o.unit, o.unit>>
                 [] o.kind \in {"lzq","lbq"} -> <<Dimless, o.unit>>
                 [] o.kind = "lqb" -> <<o.unit, Dimless>>
                 [] o.kind = "bel" -> <<>>                       \* an empty list has no member to ask
                 [] OTHER -> <<o.unit>>
\* _validate_units_consistency: every unit equals the first
Consistent(us) == \A i \in DOMAIN us : UEq(us[i], us[1])
IsNumber(o) == o.kind \in BareNumber

ListMerge == {"concatenate","stack","vstack","hstack","dstack","column_stack","block","append"}
PairCons == {"where","choose","intersect1d","union1d","setdiff1d","setxor1d","isin","interp","linspace","geomspace"}
V2Fns == {"insert","searchsorted","clip","select"}
V2InPlace == {"put","place","putmask","put_along_axis","fill_diagonal"}
CompFns == {"isclose","allclose"}
EqFns == {"array_equal","array_equiv"}
ArrOps == {"einsum"} \cup ListMerge \cup PairCons \cup V2Fns \cup V2InPlace \cup CompFns \cup EqFns \cup {"copyto","copyto_where","pad","histogram_range"}
BoolResult == {"isin","isclose","allclose"}
BareResult == {"searchsorted","interp"}

\* call forms of the array functions (the property is about the operation, never about the spelling of the call):
\*   call     every operand positional
\*   kw       the value slot (second operand; for the stacking functions the one sequence) by NumPy's keyword name
\*   kwall    every operand by keyword name
\*   out kwout        the same with an out= buffer
\*   lo hi kwlo kwhi  one-sided bounds (the other bound None / left out)                       [two-bound operations]
\*   alias aliaslo aliashi aliasout   the bounds by NumPy's newer alias keyword names (numpy >= 2.1: min= / max=)
\*   method methodkw methodlo methodhi  the method spelling a.clip(lo, hi) / a.clip(min=, max=) / a.clip(lo) / a.clip(max=hi): it
\*            reaches unyt through __array_ufunc__ (the three-input ufunc clip; one bound: maximum / minimum)
ArrFormsAll == {"call","kw","kwall","out","kwout","lo","hi","kwlo","kwhi","alias","aliaslo","aliashi","aliasout",
                "method","methodkw","methodlo","methodhi"}
TwoBound == {"clip"}
\* this tree: clip_impl hands the positional pair (a_min, a_max) to the validator, which iterates over a bound that was
\* left out (None / <no value>) -> TypeError, whatever the units are; min= / max= are unknown to it
BoundTypeErr == {"lo","hi","kwlo","kwhi","alias","aliaslo","aliashi","aliasout"}

ArrOutcome(op, o0, o1) ==
  LET u0 == o0.unit u1 == o1.unit IN
  CASE op \in ListMerge \cup PairCons ->
         LET us == GetUnits(o0) \o GetUnits(o1) IN
         IF Consistent(us)
         THEN (IF op \in BoolResult THEN BoolO ELSE IF op \in BareResult THEN ValO("") ELSE ValO(us[1].name))
         ELSE Raise("UnitInconsistencyError")
    [] op = "einsum" ->   \* a product (np.prod of the operands' units): only the offset-temperature guard of Unit.__mul__ refuses
         IF (~RIsZero(u0.off) /\ u0.dim = "Th") \/ (~RIsZero(u1.off) /\ u1.dim = "Th") THEN Raise("InvalidUnitOperation") ELSE ValO("*")
    [] op \in V2Fns \cup V2InPlace ->
         \* _validate_units_consistency_v2: pure numbers are taken to be in the array's unit
         \* (select always validates: its choicelist is not a Number; the default is given in the first choice's unit)
         IF (op # "select" /\ IsNumber(o1)) \/ Consistent(<<u0>> \o GetUnits(o1))
         THEN (IF op \in V2InPlace THEN None_(u0.name) ELSE IF op \in BareResult THEN ValO("") ELSE ValO(u0.name))
         ELSE Raise("UnitInconsistencyError")
    [] op \in CompFns ->
         \* _array_comp_helper: two different non-NULL units -> b.in_units(a.units); a NULL side adopts the other unit
         IF ~UEq(u0,u1) /\ ~UEq(u0,Dimless) /\ ~UEq(u1,Dimless)
         THEN (IF u0.dim # u1.dim /\ ~EMPair(u0,u1) THEN Raise("UnitConversionError") ELSE BoolO)
         ELSE BoolO
    [] op \in EqFns -> IF ~UEq(u0,u1) THEN Bool(<<RZero>>) ELSE BoolO
    [] op \in {"copyto","copyto_where"} -> None_(IF o1.isunyt THEN u1.name ELSE u0.name)   \* no check; relabels the target
    [] op = "pad" -> ValO(u0.name)                                                        \* constant_values handed to NumPy unseen
    [] op = "histogram_range" ->
         \* _sanitize_range: bare limits adopt the unit, then imin.to_value(units[i])
         IF o1.isunyt /\ u0.dim # u1.dim /\ ~EMPair(u0,u1) THEN Raise("UnitConversionError") ELSE Tuple(u0.name)

(* ------------------------------------------------------------------------ *)
(* T, part 3: __setitem__, conversion entry points, Unit + Unit              *)
(* ------------------------------------------------------------------------ *)
SetOutcome(o0, o1) ==
  \* hasattr(value, "units"): only unyt objects; a list of quantities goes to ndarray.__setitem__ unseen
  IF o1.isunyt /\ ~UEq(o1.unit, o0.unit) /\ ~UEq(o1.unit, Dimless)
  THEN (IF o1.unit.dim # o0.unit.dim /\ ~EMPair(o1.unit, o0.unit) THEN Raise("UnitConversionError") ELSE None_(o0.unit.name))
  ELSE None_(o0.unit.name)

\* new = ratio * (x - o_old) + o_new   (callers compute x*ratio - (ratio*o_old - o_new))
Convert(x, old, new) == RAdd(RMul(RDiv(old.scale, new.scale), RSub(x, old.off)), new.off)
ConvOutcome(entry, o0, new) ==
  LET old == o0.unit IN
  IF old.dim # new.dim THEN (IF EMPair(old, new) THEN (IF entry = "convert_to_units" THEN None_(new.name) ELSE ValO(IF entry = "to_value" THEN "" ELSE new.name))
                             ELSE Raise("UnitConversionError"))
  ELSE IF entry = "convert_to_units" THEN None_(new.name)
  ELSE Val(IF entry = "to_value" THEN "" ELSE new.name, [i \in DOMAIN o0.vals |-> Convert(o0.vals[i], old, new)])

OutcomeOf(c, o0, o1) ==
  CASE c.fam = "ufunc" -> UfOutcome(c.op, c.form, o0, o1)
    [] c.fam = "arrfn" -> IF c.op \in TwoBound /\ c.form \in BoundTypeErr THEN Raise("TypeError")
                          \* the method spelling: a ufunc with three inputs is not supported; with one bound it is maximum / minimum
                          ELSE IF c.op \in TwoBound /\ c.form \in {"method","methodkw"} THEN Raise("RuntimeError")
                          ELSE IF c.op \in TwoBound /\ c.form = "methodlo" THEN UfOutcome("maximum", "call", o0, o1)
                          ELSE IF c.op \in TwoBound /\ c.form = "methodhi" THEN UfOutcome("minimum", "call", o0, o1)
                          ELSE ArrOutcome(c.op, o0, o1)
    [] c.fam = "setitem" -> SetOutcome(o0, o1)
    [] c.fam = "conv" -> ConvOutcome(c.op, o0, U(c.n1))
    [] c.fam = "unitop" -> Raise("InvalidUnitOperation")       \* Unit.__add__/__sub__ always raise
Outcome(c) == OutcomeOf(c, Operand(c.k0, c.n0, 0), Operand(c.k1, c.n1, 1))
\* the same with the two proposed repairs applied (zero scan; __setitem__ coerces a list of quantities):
\* T accepts either, so the check is silent with and without fixes/C01-*.patch
OutcomeR(c) ==
  LET o0 == OperandR(c.k0, c.n0, 0)  o1 == OperandR(c.k1, c.n1, 1) IN
  IF c.fam = "setitem" /\ c.k1 \in ListQ \cup HetList
  THEN (IF CoerceExc(o1) # "" THEN Raise(CoerceExc(o1)) ELSE SetOutcome(o0, [o1 EXCEPT !.isunyt = TRUE]))
  ELSE OutcomeOf(c, o0, o1)

(* ------------------------------------------------------------------------ *)
(* P: the property C01, by the mathematics of the operation                  *)
(* ------------------------------------------------------------------------ *)
Ordering == {"less","less_equal","greater","greater_equal"}
EqNe == {"equal","not_equal"}
\* operations that only make sense for operands of one dimension (statement: adding, subtracting, ordering, min/max,
\* hypot, remainder, arctan2; divmod contains the remainder)
NeedsComm == {"add","subtract","maximum","minimum","fmax","fmin","hypot","remainder","fmod","arctan2","divmod"} \cup Ordering
\* array functions: "merge" values end up in one array; "compare" ordering/closeness of two arrays
ArrClass(op) == CASE op \in ListMerge \cup {"where","choose","select","clip","insert","put","place","putmask","put_along_axis",
                                             "fill_diagonal","copyto_where","pad","linspace","geomspace",
                                             "intersect1d","union1d","setdiff1d","setxor1d"} -> "merge"
                  [] op \in {"searchsorted","isin","interp","isclose","allclose","histogram_range"} -> "compare"
                  [] op \in EqFns -> "equal"
                  [] OTHER -> "none"    \* copyto without where= (the target is an out= buffer: asserted by the suite), einsum (a product)
DimsDiffer(c) == PDim(c.k0,c.n0) # PDim(c.k1,c.n1) \/ c.k0 \in MixedQ \/ c.k1 \in MixedQ
OneDimless(c) == PDim(c.k0,c.n0) = "1" \/ PDim(c.k1,c.n1) = "1"
\* a sequence that is incommensurable in itself: unit-carrying entries of two dimensions
Internal(c) == c.k0 \in MixedQ \/ c.k1 \in MixedQ
\* some entry of one operand meets an entry of the other of a different dimension; an exactly-zero bare entry never
\* conflicts (documented); with strict = TRUE a dimensionless entry never conflicts either (ordering / closeness)
Cross(c, strict) == \E e0 \in Elems(c.k0,c.n0), e1 \in Elems(c.k1,c.n1) :
                      /\ e0.dim # e1.dim /\ ~e0.bz /\ ~e1.bz
                      /\ (strict => e0.dim # "1" /\ e1.dim # "1")
\* is a refusal demanded for this case?
Demanded(c) ==
  CASE c.fam = "ufunc" ->
            /\ c.op \in NeedsComm /\ c.form # "at"
            \* documented: an all-zero bare number or bare sequence may be added or compared (bz entries);
            \* documented: ordering comparisons accept a dimensionless operand (strict)
            /\ (Internal(c) \/ Cross(c, c.op \in Ordering))
            \* reading rule: a bare initial= is taken to be in the array's unit
            /\ (c.form = "reduce_initial" => c.k1 \in UnytKinds)
    [] c.fam = "arrfn" ->
            \* not demanded: bare Python numbers and bare zeros in value slots (taken to be in the array's unit; suite asserts it)
            /\ c.k0 \notin BareNumber \cup BareZero /\ c.k1 \notin BareNumber \cup BareZero
            \* not demanded: the documented CGS<->SI electromagnetic conversions reached through .to() inside a handler
            /\ ~EMPair(U(c.n0), U(c.n1))
            /\ \/ ArrClass(c.op) = "merge" /\ (Internal(c) \/ Cross(c, FALSE))
               \/ ArrClass(c.op) = "compare" /\ (Internal(c) \/ Cross(c, TRUE))
    [] c.fam = "setitem" ->
            \* not demanded: bare values (also inside a sequence) and quantities in the NULL unit (no dimension AND scale
            \* one) are stored as given (test_setitem asserts both).  A scaled dimensionless value (percent, a ratio lb/la,
            \* nq) is neither a bare number nor of the target's dimension: the statement demands the refusal; so does a
            \* dimensional value offered to a dimensionless target.
            /\ c.k1 \in UnytKinds \cup ListQ \cup HetList /\ ~EMPair(U(c.n0), U(c.n1))
            /\ \/ c.k1 \in MixedQ
               \/ \E e1 \in Elems(c.k1,c.n1) : ~e1.b /\ ~e1.nul /\ e1.dim # U(c.n0).dim
    [] c.fam = "conv" -> DimsDiffer(c) /\ ~EMPair(U(c.n0), U(c.n1))        \* the CGS<->SI electromagnetic pairs are documented conversions
    [] c.fam = "unitop" -> DimsDiffer(c)
\* == / != between different dimensions answer all-False / all-True (or refuse); array_equal/array_equiv answer False
EqDemanded(c) ==
  /\ (Internal(c) \/ Cross(c, TRUE))
  /\ \/ c.fam = "ufunc" /\ c.op \in EqNe /\ c.form # "at"
     \/ c.fam = "arrfn" /\ ArrClass(c.op) = "equal"
AllAre(v, x) == \A i \in DOMAIN v : v[i] = x
\* obs = [k, exc, unit, vk, v, same]: same = numbers and unit of every operand are what they were before the call
P_C01(c, obs) ==
  /\ Demanded(c) => (obs.k = "raise" /\ obs.same)
  /\ EqDemanded(c) => \/ obs.k = "raise" /\ obs.same
                      \/ obs.k = "bool" /\ obs.vk = "exact" /\ obs.same
                         /\ AllAre(obs.v, IF c.op = "not_equal" THEN ROne ELSE RZero)
\* which clause of the statement a failing case belongs to (used in finding keys)
PClass(c) ==
  IF c.fam = "ufunc" /\ ((c.k0 = "az" /\ c.k1 \notin UnytKinds) \/ (c.k1 = "az" /\ c.k0 \notin UnytKinds)) THEN "zero_unyt_array_adopts"
  ELSE IF c.fam = "ufunc" /\ c.form = "reduce_initial" THEN "reduce_initial"
  ELSE IF c.fam = "setitem" /\ c.k1 \in ListQ THEN "list_of_quantities"
  ELSE "plain"
\* the model-level verdict (is today's transcription itself inside the property?)
ModelOk(c) == LET m == Outcome(c) IN P_C01(c, [k |-> m.k, exc |-> m.exc, unit |-> m.unit, vk |-> m.vk, v |-> m.v, same |-> TRUE])
\* T: does the observation agree with the transcription?
TMatch(m, obs) ==
  /\ obs.k = m.k
  /\ (m.k = "raise" => obs.exc = m.exc)
  /\ (m.k # "raise" /\ m.unit # "*" => obs.unit = m.unit)
  /\ (m.vk = "exact" => obs.vk = "exact" /\ obs.v = m.v)
T_C01(c, obs) == TMatch(Outcome(c), obs) \/ TMatch(OutcomeR(c), obs)
=============================================================================
