CONSTANTS
  Slice = 0
  NSlices = 1
  Ext = {0, 1, 2, 3}
  Ext3 = {0, 1, 2, 3}
  MaxRank = 3
  RootSet = "all"
  Layouts = {"C", "F", "col", "rev"}
  LayCtors = {"ctor_a", "ctor_am", "mul_unit", "rmul_unit", "mixlist"}
  MixQuick = FALSE
  MixRich = FALSE
  IntSet <- IntsA
  SliceSet = {"from1", "step2", "rev", "empty", "to1", "last"}
  FancySet = {"f0", "f00", "fl0", "fe", "f2d"}
  MaskSet = {"mnone", "mall", "malt", "mfirst"}
  IdxForms = {"plain", "elllast", "ellfirst", "newfirst", "newlast", "full"}
  MaxNonAll = 2
  MaxNonAll3 = 1
  TargetRank = 3
  LiteOthers = FALSE
  RedSet = {"sum", "max", "mean", "std", "np_ptp", "np_median", "np_sum", "np_max", "min"}
  Lite = FALSE
  Depth = 2
  Ctors = {"ctor_a", "ctor_am", "ctor_q", "mul_unit", "rmul_unit", "ctor_list", "mixlist"}
  RichCtors = {"ctor_a", "ctor_q"}
INIT Init
NEXT Next
INVARIANT Export
CHECK_DEADLOCK FALSE
