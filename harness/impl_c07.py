"""Replay of MC_C07 cases on the real library (C07).

catalogue(_) -> the functions that dispatch through __array_function__ in the installed NumPy
                (np, np.linalg, np.fft) with their class in the working tree (handled / unsupported /
                default) and the public ndarray methods as seen on unyt_array ("nd.<name>").
observe(case) -> {"b": run, "v": run, "cmp": [...]}   (base run, re-expressed run, per-output comparison)
   run = {"k": "ok"|"raise"|"inapplicable", "exc": name, "outs": [{"kind", "cls", "dk", "dims": [2*eL, 2*eT],
          "lg": 2*log2(scale), "odd": bool, "nd": ndim, "sz": size}]}
   cmp[j] = {"ex": physical values bit-for-bit equal, "tol": equal within RTOL (norm-wise), "shp": shapes equal}

Python only builds the operands (the same physical numbers stored in the units the case names), calls the
function through the template the case names, and projects the results: class, dtype kind, exponent vector
of the unit, log2 of its scale, and the two equality booleans.  Which boolean is demanded, what the unit
must be and whether the result may be bare is decided by TLC (spec/Trace_C07.tla)."""

import math
from fractions import Fraction

RTOL = 1e-9
_U = {}

REAL_UNITS = {"L": ["m", "km", "cm", "inch"], "T": ["s", "ms", "min", "hr"], "iL": ["1/m", "1/km", "1/cm", "1/inch"], "iT": ["Hz", "kHz", "1/min", "MHz"],
              "Th": ["K", "degC", "degF", "R"], "Tm": ["K", "mK", "R", "delta_degF", "delta_degC"]}
# registries in which one spelling has different values (MC_C07: QK, RegCase, RegDCase)
REG_SYMBOL = {1: {"L": "ql", "T": "qt"}, 2: {"L": "ql", "T": "qt"}, 3: {"L": "ft", "T": "min"}, 4: {"L": "ft", "T": "min"}}
REG_DYADIC = {1: {"ql": 3, "qt": -2}, 2: {"ql": 5, "qt": 1}}

VALS = {
    "sc": [2.5, 1.5, 4.0],
    "v1": [[2.5], [1.5], [4.0]],
    "e0": [[], [], []],
    "v3": [[3.0, 1.0, 4.0], [2.0, 5.0, 1.0], [0.5, 2.0, 6.0]],
    "v4": [[3.0, 1.0, 4.0, 1.5], [2.0, 5.0, 1.0, 3.5], [0.5, 2.0, 6.0, 1.0]],
    "m22": [[[4.0, 1.0], [1.0, 3.0]], [[1.0, 2.0], [3.0, 5.0]], [[2.0, 0.5], [1.0, 1.0]]],
    "m33": [
        [[4.0, 1.0, 2.0], [1.0, 5.0, 3.0], [2.0, 3.0, 6.0]],
        [[1.0, 2.0, 0.5], [0.5, 1.0, 3.0], [2.0, 1.0, 1.0]],
        [[2.0, 0.0, 1.0], [1.0, 1.0, 0.0], [0.0, 3.0, 1.0]],
    ],
    "m23": [[[1.0, 2.0, 3.0], [4.0, 5.0, 6.5]], [[2.0, 1.0, 0.5], [3.0, 1.0, 2.0]], [[1.0, 1.5, 2.0], [0.5, 3.0, 1.0]]],
    "s322": [
        [[[4.0, 1.0], [1.0, 3.0]], [[2.0, 1.0], [1.0, 2.0]], [[5.0, 2.0], [2.0, 1.0]]],
        [[[1.0, 2.0], [3.0, 5.0]], [[2.0, 0.5], [1.0, 1.0]], [[1.0, 0.0], [2.0, 3.0]]],
        [[[2.0, 0.5], [1.0, 1.0]], [[1.0, 2.0], [3.0, 5.0]], [[3.0, 1.0], [1.0, 2.0]]],
    ],
}


def _vals(ds, sh, i):
    """data set ds of operand i: 1 = VALS; 2 = A/2 + 1.5 I (matrices, still symmetric positive definite) / reversed * 1.25 + 0.5
    (vectors); 3 = A/4 + 2 I / alternating signs (vectors)"""
    import numpy as np

    a = np.array(VALS[sh][i], dtype=float)
    if ds == 1:
        return a
    if a.ndim >= 2:
        eye = np.zeros_like(a)
        n = min(a.shape[-2:])
        for k in range(n):
            eye[..., k, k] = 1.0
        return a * 0.5 + 1.5 * eye if ds == 2 else a * 0.25 + 2.0 * eye
    if ds == 2:
        return a[::-1] * 1.25 + 0.5 if a.ndim == 1 else a * 1.25 + 0.5
    if a.ndim == 1:
        sign = np.array([1.0 if k % 2 == 0 else -1.0 for k in range(a.shape[0])])
        return a * sign * 0.5
    return a * 0.5


def setup(common=None):
    import numpy as np
    import unyt
    from unyt import dimensions
    from unyt.unit_registry import UnitRegistry

    _U.update(np=np, unyt=unyt, ua=unyt.unyt_array, uq=unyt.unyt_quantity, reg=UnitRegistry(), names=_names(),
              dim={"L": dimensions.length, "T": dimensions.time, "iL": 1 / dimensions.length, "iT": 1 / dimensions.time})
    regs = {}
    for j, tab in REG_DYADIC.items():
        regs[j] = UnitRegistry()
        for sym, k in tab.items():
            regs[j].add(sym, float(2.0**k), dimensions.length if sym == "ql" else dimensions.time)
    regs[4] = UnitRegistry()
    regs[4].modify("ft", 0.25)
    regs[4].modify("min", 64.0)
    _U["regs"] = regs
    _U["lensym"] = dimensions.length
    _U["timesym"] = dimensions.time
    _U["tempsym"] = dimensions.temperature


# ------------------------------------------------------------------ catalogue
def _names():
    import numpy as np

    out = {}
    seen = {}
    for pfx, mod in (("np.", np), ("np.linalg.", np.linalg), ("np.fft.", np.fft)):
        for name in sorted(mod.__dict__):
            f = mod.__dict__[name]
            if name.startswith("_") or not callable(f) or not hasattr(f, "__wrapped__") or not hasattr(f, "_implementation"):
                continue
            if id(f) in seen:
                # alias of an already listed object: keep the spelling equal to the function's own name
                old = seen[id(f)]
                if name == getattr(f, "__name__", "") and old.split(".")[-1] != name:
                    del out[old]
                else:
                    continue
            seen[id(f)] = pfx + name
            out[pfx + name] = f
    return out


def catalogue(_=None):
    import numpy as np
    from unyt._array_functions import _HANDLED_FUNCTIONS, _UNSUPPORTED_FUNCTIONS

    cat = []
    for name, f in sorted(_U["names"].items()):
        cls = "handled" if f in _HANDLED_FUNCTIONS else "unsupported" if f in _UNSUPPORTED_FUNCTIONS else "default"
        cat.append([name, cls])
    ua = _U["ua"]
    for n in sorted(dir(np.ndarray)):
        if n.startswith("_") or not callable(getattr(np.ndarray, n)):
            continue
        cat.append(["nd." + n, "override" if n in vars(ua) else "method"])
    for n in ("T", "real", "imag", "flat"):
        cat.append(["nd." + n, "property"])
    return {"cat": cat}


# ------------------------------------------------------------------ operands
def _unit_reg(d, j):
    """the shared spelling of dimension d as registry j defines it (3 = the default registry)"""
    sym = REG_SYMBOL[j][d]
    if j == 3:
        return _U["unyt"].Unit(sym)
    return _U["unyt"].Unit(sym, registry=_U["regs"][j])


def _unit(u, real):
    d, k = u[0], int(u[1])
    if d == "N":  # a bare operand: no unit (only used to build out= buffers)
        return _U["unyt"].Unit("dimensionless")
    if real:
        return _U["unyt"].Unit(REAL_UNITS[d][k])
    name = {"L": "xl", "T": "xt", "iL": "xil", "iT": "xit"}[d] + ("p" if k >= 0 else "n") + str(abs(k))
    reg = _U["reg"]
    if name not in reg.lut:
        reg.add(name, float(2.0**k), _U["dim"][d])
    return _U["unyt"].Unit(name, registry=reg)


class Ctx:
    def __init__(self, case, units):
        self.case = case
        self.np = _U["np"]
        self.sh = case["sh"]
        self.units = units
        self.real = bool(case["real"])
        self.dt = case["dt"]
        self.ds = int(case.get("ds", 1))
        self.out = None

    def mk(self, i, phys, scalar=False):
        """operand i: the physical numbers `phys` (in the scale-1 unit of its dimension) stored in its unit"""
        np = self.np
        u = self.units[i]
        a = np.array(phys, dtype=float)
        bm = self.case.get("bm", "-")
        if bm != "-" and i < len(bm) and bm[i] == "b":
            # operand given bare: a constant of the call, the same numbers in both runs
            if self.case.get("bk") == "l":
                return a.tolist()
            return float(a) if a.ndim == 0 else a
        if self.dt == "i8":
            a = a * 2.0
        if self.real:
            stored = a / float(u.base_value) + float(getattr(u, "base_offset", 0.0) or 0.0)  # offset units (degC: -273.15): reading of the same temperature
        else:
            k = int(self.case["_k"][i])
            stored = a * (2.0 ** (-k))
        if self.dt == "i8":
            if not np.all(stored == np.round(stored)):
                raise ValueError("integer case with non-integral stored values")
            stored = stored.astype(np.int64)
        elif self.dt == "f4":
            stored = stored.astype(np.float32)  # multiples of 1/8 times a power of two: exact in float32
        elif self.dt == "c16":
            stored = stored + 1j * (stored * 0.5 + (2.0 ** (-int(self.case["_k"][i])) if not self.real else 1.0 / float(u.base_value)))
        if stored.ndim == 0 or scalar:
            return _U["uq"](stored.reshape(()) if stored.ndim else stored, u)
        return _U["ua"](stored, u)

    def vals(self, i, sh=None):
        return _vals(self.ds, sh or self.sh, i)

    def o(self, i, sh=None):
        return self.mk(i, self.vals(i, sh))

    def ops(self):
        return [self.o(i) for i in range(int(self.case["n"]))]


# ------------------------------------------------------------------ call templates
def _pos(c):
    """SPD / symmetric operand 0 by construction of VALS"""
    return c.o(0)


def _sorted(c, i):
    np = c.np
    return c.mk(i, np.sort(c.vals(i).reshape(-1)))


ARGS = {
    "np.partition": lambda c: ((1,), {}),
    "np.argpartition": lambda c: ((1,), {}),
    "np.pad": lambda c: ((1,), {}),
    "np.take": lambda c: (([0, 2],), {}),
    "np.delete": lambda c: ((1,), {}),
    "np.tile": lambda c: ((2,), {}),
    "np.repeat": lambda c: ((2,), {}),
    "np.resize": lambda c: (((5,),), {}),
    "np.roll": lambda c: ((1,), {}),
    "np.rollaxis": lambda c: ((1,), {}),
    "np.expand_dims": lambda c: ((0,), {}),
    "np.reshape": lambda c: (((-1, 2),), {}),
    "np.swapaxes": lambda c: ((0, 1), {}),
    "np.moveaxis": lambda c: ((0, 1), {}),
    "np.broadcast_to": lambda c: (((2,) + tuple(c.np.shape(c.vals(0))),), {}),
    "np.astype": lambda c: ((c.np.float64,), {}),
    "np.percentile": lambda c: ((50,), {}),
    "np.nanpercentile": lambda c: ((50,), {}),
    "np.quantile": lambda c: ((0.5,), {}),
    "np.nanquantile": lambda c: ((0.5,), {}),
    "np.split": lambda c: ((2,), {}),
    "np.array_split": lambda c: ((3,), {}),
    "np.hsplit": lambda c: ((2,), {}),
    "np.vsplit": lambda c: ((2,), {}),
    "np.dsplit": lambda c: ((2,), {}),
    "np.linalg.matrix_power": lambda c: ((3,), {}),
    "np.can_cast": lambda c: ((c.np.float64,), {}),
    "np.histogram_bin_edges": lambda c: ((), {"bins": 3}),
    "np.around": lambda c: ((), {}),
    "np.tensordot": lambda c: ((), {"axes": 1}),
    "np.linalg.tensordot": lambda c: ((), {"axes": 1}),
    "np.linalg.lstsq": lambda c: ((), {"rcond": None}),
    "nd.partition": lambda c: ((1,), {}),
    "nd.argpartition": lambda c: ((1,), {}),
    "nd.take": lambda c: (([0, 2],), {}),
    "nd.repeat": lambda c: ((2,), {}),
    "nd.reshape": lambda c: (((-1, 2),), {}),
    "nd.swapaxes": lambda c: ((0, 1), {}),
    "nd.astype": lambda c: ((c.np.float64,), {}),
    "nd.view": lambda c: ((), {}),
}


def _cond(c):
    np = c.np
    a = c.vals(0)
    return a > 1.25


def _lstsq_ops(c):
    a = c.mk(0, [[1.0, 1.0], [1.0, 2.0], [1.0, 4.0]])
    b = c.mk(1, [2.0, 3.5, 4.0])
    return a, b


def _inplace(fn):
    def run(c):
        tgt = c.o(0)
        fn(c, tgt)
        if not isinstance(tgt, _U["ua"]):  # the caller's plain target cannot carry a unit: nothing is demanded of it
            return (_Raw(tgt),)
        return (tgt,)

    return run


class _Raw:
    def __init__(self, x):
        self.x = x


def _tensor4(c, i):
    np = c.np
    base = np.eye(4) * 2.0 + np.arange(16.0).reshape(4, 4) * 0.125
    return base


# samples for the histogram family: no value on an interior bin edge for the bin counts used (counts are discontinuous there)
H0 = [0.75, 3.5, 1.25, 4.5]
H1 = [2.0, 5.0, 1.0, 3.5]

SPEC = {
    ("np.compress", "p"): lambda c: c.np.compress(_cond(c).reshape(-1), c.o(0).reshape(-1)),
    ("np.extract", "p"): lambda c: c.np.extract(_cond(c), c.o(0)),
    ("np.where", "p"): lambda c: c.np.where(_cond(c), c.o(0), c.o(1)),
    ("np.choose", "p"): lambda c: c.np.choose([0, 1, 1, 0], [c.o(0), c.o(1)]),
    ("np.choose", "out"): lambda c: c.np.choose([0, 1, 1, 0], [c.o(0), c.o(1)], out=c.out),
    ("np.select", "p"): lambda c: c.np.select([_cond(c), c.vals(0) < 1.25], [c.o(0), c.o(1)], default=c.mk(2, 0.5)),
    ("np.clip", "p"): lambda c: c.np.clip(c.o(0), c.mk(1, 1.25), c.mk(2, 3.5)),
    ("np.clip", "out"): lambda c: c.np.clip(c.o(0), c.mk(1, 1.25), c.mk(2, 3.5), out=c.out),
    ("nd.clip", "p"): lambda c: c.o(0).clip(c.mk(1, 1.25), c.mk(2, 3.5)),
    ("nd.clip", "out"): lambda c: c.o(0).clip(c.mk(1, 1.25), c.mk(2, 3.5), out=c.out),
    ("np.insert", "p"): lambda c: c.np.insert(c.o(0), 1, c.mk(1, [7.0, 8.5])),
    ("np.append", "p"): lambda c: c.np.append(c.o(0), c.o(1)),
    ("np.linspace", "p"): lambda c: c.np.linspace(c.mk(0, 1.5), c.mk(1, 4.0), 5),
    ("np.linspace", "retstep"): lambda c: c.np.linspace(c.mk(0, 1.5), c.mk(1, 4.0), 5, retstep=True),
    ("np.geomspace", "p"): lambda c: c.np.geomspace(c.mk(0, 1.5), c.mk(1, 4.0), 5),
    ("np.interp", "p"): lambda c: c.np.interp(c.mk(0, [1.25, 2.5, 3.75]), c.mk(1, [1.0, 2.0, 3.0, 4.0]), c.o(2, "v4")),
    ("np.searchsorted", "p"): lambda c: c.np.searchsorted(_sorted(c, 0), c.mk(1, [1.25, 3.5])),
    ("nd.searchsorted", "p"): lambda c: _sorted(c, 0).searchsorted(c.mk(1, [1.25, 3.5])),
    ("np.digitize", "p"): lambda c: c.np.digitize(c.o(0), c.mk(1, [1.25, 2.0, 3.5])),
    ("np.lexsort", "p"): lambda c: c.np.lexsort((c.o(0), c.o(1))),
    ("np.isclose", "p"): lambda c: c.np.isclose(c.o(0), c.mk(1, [3.0, 1.0, 5.0, 1.5])),
    ("np.allclose", "p"): lambda c: c.np.allclose(c.o(0), c.mk(1, [3.0, 1.0, 4.0, 1.5])),
    ("np.array_equal", "p"): lambda c: c.np.array_equal(c.o(0), c.mk(1, c.vals(0))),
    ("np.array_equiv", "p"): lambda c: c.np.array_equiv(c.o(0), c.mk(1, c.vals(0))),
    ("np.isin", "p"): lambda c: c.np.isin(c.o(0), c.mk(1, [1.0, 4.0, 9.0])),
    ("np.intersect1d", "p"): lambda c: c.np.intersect1d(c.o(0), c.mk(1, [1.0, 4.0, 9.0])),
    ("np.intersect1d", "idx"): lambda c: c.np.intersect1d(c.o(0), c.mk(1, [1.0, 4.0, 9.0]), return_indices=True),
    ("np.union1d", "p"): lambda c: c.np.union1d(c.o(0), c.mk(1, [1.0, 4.0, 9.0])),
    ("np.setdiff1d", "p"): lambda c: c.np.setdiff1d(c.o(0), c.mk(1, [1.0, 4.0, 9.0])),
    ("np.setxor1d", "p"): lambda c: c.np.setxor1d(c.o(0), c.mk(1, [1.0, 4.0, 9.0])),
    ("np.take_along_axis", "p"): lambda c: c.np.take_along_axis(c.o(0), c.np.argsort(c.vals(0), axis=-1), axis=-1),
    ("np.apply_along_axis", "p"): lambda c: c.np.apply_along_axis(c.np.sum, 0, c.o(0)),
    ("np.apply_over_axes", "p"): lambda c: c.np.apply_over_axes(c.np.sum, c.o(0), [0]),
    ("np.full_like", "p"): lambda c: c.np.full_like(c.o(0), c.mk(1, 2.5)),
    ("np.fill_diagonal", "p"): _inplace(lambda c, t: c.np.fill_diagonal(t, c.mk(1, 7.5))),
    ("np.put", "p"): _inplace(lambda c, t: c.np.put(t, [0, 2], c.mk(1, [7.5, 8.0]))),
    ("nd.put", "p"): _inplace(lambda c, t: t.put([0, 2], c.mk(1, [7.5, 8.0]))),
    ("np.place", "p"): _inplace(lambda c, t: c.np.place(t, _cond(c), c.mk(1, [7.5, 8.0]))),
    ("np.putmask", "p"): _inplace(lambda c, t: c.np.putmask(t, _cond(c), c.mk(1, c.vals(1)))),
    ("np.put_along_axis", "p"): _inplace(lambda c, t: c.np.put_along_axis(t, c.np.array([[0], [1]]), c.mk(1, [[7.5], [8.0]]), 1)),
    ("np.copyto", "p"): _inplace(lambda c, t: c.np.copyto(t, c.o(1))),
    ("nd.fill", "p"): _inplace(lambda c, t: t.fill(c.mk(1, 7.5))),
    ("nd.sort", "p"): _inplace(lambda c, t: t.sort()),
    ("nd.partition", "p"): _inplace(lambda c, t: t.partition(1)),
    ("np.gradient", "dx"): lambda c: c.np.gradient(c.o(0), c.mk(1, 0.5)),
    ("np.gradient", "x"): lambda c: c.np.gradient(c.o(0), c.mk(1, [0.0, 1.0, 3.0, 3.5])),
    ("np.trapezoid", "x"): lambda c: c.np.trapezoid(c.o(0), c.mk(1, [0.0, 1.0, 3.0, 3.5])),
    ("np.trapezoid", "xkw"): lambda c: c.np.trapezoid(c.o(0), x=c.mk(1, [0.0, 1.0, 3.0, 3.5])),
    ("np.trapezoid", "dx"): lambda c: c.np.trapezoid(c.o(0), dx=c.mk(1, 0.5)),
    ("np.average", "w"): lambda c: c.np.average(c.o(0), weights=c.o(1)),
    ("np.average", "wret"): lambda c: c.np.average(c.o(0), weights=c.o(1), returned=True),
    ("np.cov", "xy"): lambda c: c.np.cov(c.o(0), c.o(1)),
    ("np.corrcoef", "xy"): lambda c: c.np.corrcoef(c.o(0), c.o(1)),
    ("np.histogram", "p"): lambda c: c.np.histogram(c.mk(0, H0), bins=3),
    ("np.histogram", "w"): lambda c: c.np.histogram(c.mk(0, H0), bins=3, weights=c.o(1)),
    ("np.histogram", "dens"): lambda c: c.np.histogram(c.mk(0, H0), bins=3, density=True),
    ("np.histogram", "wdens"): lambda c: c.np.histogram(c.mk(0, H0), bins=3, weights=c.o(1), density=True),
    ("np.histogram", "range"): lambda c: c.np.histogram(c.mk(0, H0), bins=3, range=(c.mk(1, 0.25), c.mk(2, 5.5))),
    ("np.histogram", "bins"): lambda c: c.np.histogram(c.mk(0, H0), bins=c.mk(1, [0.5, 2.0, 3.75, 5.0])),
    ("np.histogram2d", "p"): lambda c: c.np.histogram2d(c.mk(0, H0), c.mk(1, H1), bins=2),
    ("np.histogram2d", "dens"): lambda c: c.np.histogram2d(c.mk(0, H0), c.mk(1, H1), bins=2, density=True),
    ("np.histogram2d", "wdens"): lambda c: c.np.histogram2d(c.mk(0, H0), c.mk(1, H1), bins=2, weights=c.o(2), density=True),
    ("np.linalg.solve", "vec"): lambda c: c.np.linalg.solve(c.o(0), c.mk(1, [1.0, 2.5])),
    ("np.max", "init"): lambda c: c.np.max(c.o(0), axis=0, initial=c.mk(1, 2.0)),
    ("np.amax", "init"): lambda c: c.np.amax(c.o(0), axis=0, initial=c.mk(1, 2.0)),
    ("np.min", "init"): lambda c: c.np.min(c.o(0), axis=0, initial=c.mk(1, 2.0)),
    ("np.sum", "init"): lambda c: c.np.sum(c.o(0), axis=0, initial=c.mk(1, 2.0)),
    ("nd.max", "init"): lambda c: c.o(0).max(axis=0, initial=c.mk(1, 2.0)),
    ("nd.sum", "init"): lambda c: c.o(0).sum(axis=0, initial=c.mk(1, 2.0)),
    ("np.histogram2d", "w"): lambda c: c.np.histogram2d(c.mk(0, H0), c.mk(1, H1), bins=2, weights=c.o(2)),
    ("np.histogramdd", "p"): lambda c: _flat2(c.np.histogramdd((c.mk(0, H0), c.mk(1, H1)), bins=2)),
    ("np.histogramdd", "dens"): lambda c: _flat2(c.np.histogramdd((c.mk(0, H0), c.mk(1, H1)), bins=2, density=True)),
    ("np.einsum", "ii"): lambda c: c.np.einsum("ii", c.o(0)),
    ("np.einsum", "diag"): lambda c: c.np.einsum("ii->i", c.o(0)),
    ("np.einsum", "mm"): lambda c: c.np.einsum("ij,jk->ik", c.o(0), c.o(1)),
    ("np.einsum", "mmout"): lambda c: c.np.einsum("ij,jk->ik", c.o(0), c.o(1), out=c.out),
    ("np.einsum", "tri"): lambda c: c.np.einsum("ij,jk,kl->il", c.o(0), c.o(1), c.o(2)),
    ("np.linalg.multi_dot", "lst3"): lambda c: c.np.linalg.multi_dot([c.o(0), c.o(1), c.o(2)]),
    ("np.linalg.solve", "p"): lambda c: c.np.linalg.solve(c.o(0), c.o(1)),
    ("np.linalg.lstsq", "p"): lambda c: c.np.linalg.lstsq(*_lstsq_ops(c), rcond=None),
    ("np.linalg.tensorinv", "p"): lambda c: c.np.linalg.tensorinv(c.mk(0, _tensor4(c, 0).reshape(4, 2, 2)), ind=1),
    ("np.linalg.tensorsolve", "p"): lambda c: c.np.linalg.tensorsolve(c.mk(0, _tensor4(c, 0).reshape(2, 2, 2, 2)), c.o(1, "m22")),
    ("np.linalg.svd", "nouv"): lambda c: c.np.linalg.svd(c.o(0), compute_uv=False),
    ("np.linalg.qr", "r"): lambda c: c.np.linalg.qr(c.o(0), mode="r"),
    ("np.linalg.norm", "fro"): lambda c: c.np.linalg.norm(c.o(0), "fro"),
    ("np.linalg.norm", "ax0"): lambda c: c.np.linalg.norm(c.o(0), axis=0),
    ("np.unique", "counts"): lambda c: c.np.unique(c.mk(0, [3.0, 1.0, 3.0, 1.5]), return_counts=True),
    ("np.meshgrid", "p"): lambda c: c.np.meshgrid(c.o(0), c.o(1)),
    ("np.broadcast_arrays", "subok"): lambda c: c.np.broadcast_arrays(c.o(0), c.mk(1, 2.5), subok=True),
    ("np.cross", "p"): lambda c: c.np.cross(c.o(0), c.o(1)),
    ("np.block", "lst"): lambda c: c.np.block([c.o(0), c.o(1)]),
    ("np.block", "nest"): lambda c: c.np.block([[c.o(0)], [c.o(1)]]),
    ("np.pad", "cv"): lambda c: c.np.pad(c.o(0), 1, constant_values=c.mk(1, 7.5)),
    ("np.unwrap", "period"): lambda c: c.np.unwrap(c.mk(0, [0.5, 6.5, 1.0, 7.5]), period=c.mk(1, 4.0)),
    ("np.percentile", "ax0out"): lambda c: c.np.percentile(c.o(0), 50, axis=0, out=c.out),
    ("np.may_share_memory", "p"): lambda c: c.np.may_share_memory(c.o(0), c.o(1)),
    ("np.shares_memory", "p"): lambda c: c.np.shares_memory(c.o(0), c.o(1)),
    ("np.common_type", "p"): lambda c: c.np.common_type(c.o(0)),
    ("np.result_type", "p"): lambda c: c.np.result_type(c.o(0)),
    ("np.min_scalar_type", "p"): lambda c: c.np.min_scalar_type(c.o(0)),
    ("np.nan_to_num", "nan"): lambda c: c.np.nan_to_num(c.mk(0, [3.0, float("nan"), 4.0, 1.5])),
    ("np.nanmax", "nan"): lambda c: c.np.nanmax(c.mk(0, [3.0, float("nan"), 4.0, 1.5])),
    ("np.nansum", "nan"): lambda c: c.np.nansum(c.mk(0, [3.0, float("nan"), 4.0, 1.5])),
    ("np.nanmean", "nan"): lambda c: c.np.nanmean(c.mk(0, [3.0, float("nan"), 4.0, 1.5])),
    ("np.nanstd", "nan"): lambda c: c.np.nanstd(c.mk(0, [3.0, float("nan"), 4.0, 1.5])),
    ("np.nanvar", "nan"): lambda c: c.np.nanvar(c.mk(0, [3.0, float("nan"), 4.0, 1.5])),
    ("np.nanprod", "nan"): lambda c: c.np.nanprod(c.mk(0, [3.0, float("nan"), 4.0, 1.5])),
    ("np.nanmedian", "nan"): lambda c: c.np.nanmedian(c.mk(0, [3.0, float("nan"), 4.0, 1.5])),
    ("np.nancumsum", "nan"): lambda c: c.np.nancumsum(c.mk(0, [3.0, float("nan"), 4.0, 1.5])),
    ("np.nanargmax", "nan"): lambda c: c.np.nanargmax(c.mk(0, [3.0, float("nan"), 4.0, 1.5])),
    ("np.nanpercentile", "nan"): lambda c: c.np.nanpercentile(c.mk(0, [3.0, float("nan"), 4.0, 1.5]), 50),
    ("nd.dot", "p"): lambda c: c.o(0).dot(c.o(1)),
    ("nd.dot", "out"): lambda c: c.o(0).dot(c.o(1), out=c.out),
    ("nd.choose", "p"): lambda c: c.np.array([0, 1, 1, 0]).choose([c.o(0), c.o(1)]),
    ("nd.compress", "p"): lambda c: c.o(0).reshape(-1).compress(_cond(c).reshape(-1)),
    ("nd.item", "p"): lambda c: c.o(0).item(0),
    ("nd.resize", "p"): _inplace(lambda c, t: t.resize((2, 2), refcheck=False)),
    ("nd.T", "p"): lambda c: c.o(0).T,
    ("nd.real", "p"): lambda c: c.o(0).real,
    ("nd.imag", "p"): lambda c: c.o(0).imag,
    ("nd.flat", "p"): lambda c: c.o(0).flat[1:3],
}


def _flat2(r):
    return (r[0],) + tuple(r[1])


def _fn(name):
    if name.startswith("nd."):
        return None
    return _U["names"][name]


# ------------------------------------------------------------------ optional-argument forms (ArrayFnUnit.OptRows)
# template "<tag>:<form>": one character per optional slot, "-" not given, "b" given bare, "q" given as a quantity in
# the slot's operand unit.  Bare values are the physical numbers in the scale-1 unit (constants of the call).
def _slot(c, ch, i, phys, scalar=False):
    np = c.np
    if ch == "q":
        return c.mk(i, phys)
    return float(phys) if np.ndim(phys) == 0 else np.array(phys, dtype=float)


def _opt_trapezoid(c, fm):
    kw = {}
    if fm[0] != "-":
        kw["x"] = _slot(c, fm[0], 1, [0.0, 1.0, 3.0, 3.5])
    if fm[1] != "-":
        kw["dx"] = _slot(c, fm[1], 2, 0.5)
    return c.np.trapezoid(c.o(0), **kw)


def _opt_histogram(density):
    def run(c, fm):
        kw = {"bins": 3}
        if density:
            kw["density"] = True
        if fm[0] != "-":
            kw["range"] = (_slot(c, fm[0], 1, 0.25), _slot(c, fm[0], 1, 5.5))
        if fm[1] != "-":
            kw["weights"] = _slot(c, fm[1], 2, VALS["v4"][2])
        return c.np.histogram(c.mk(0, H0), **kw)

    return run


def _opt_histogram_bins(c, fm):
    kw = {"bins": 3 if fm[0] == "-" else _slot(c, fm[0], 1, [0.5, 2.0, 3.75, 5.0])}
    if fm[1] != "-":
        kw["range"] = (_slot(c, fm[1], 2, 0.25), _slot(c, fm[1], 2, 5.5))
    return c.np.histogram(c.mk(0, H0), **kw)


def _opt_interp_lr(c, fm):
    # the first and the last point lie outside xp: left= and right= are used
    return c.np.interp(c.mk(0, [0.5, 2.5, 4.75]), c.mk(0, [1.0, 2.0, 3.0, 4.0]), c.o(1, "v4"), left=_slot(c, fm[0], 2, 7.5), right=_slot(c, fm[0], 2, 8.25))


def _opt_interp_period(c, fm):
    return c.np.interp(c.mk(0, [0.5, 2.5, 5.75]), c.mk(0, [1.0, 2.0, 3.0, 3.5]), c.o(1, "v4"), period=_slot(c, fm[0], 2, 4.0))


def _opt_clip(c, fm):
    lo = None if fm[0] == "-" else _slot(c, fm[0], 1, 1.25)
    hi = None if fm[1] == "-" else _slot(c, fm[1], 2, 3.5)
    return c.np.clip(c.o(0), lo, hi)


def _opt_pad_cv(c, fm):
    return c.np.pad(c.o(0), 1, constant_values=_slot(c, fm[0], 1, 7.5))


def _opt_pad_ev(c, fm):
    return c.np.pad(c.o(0), 2, mode="linear_ramp", end_values=_slot(c, fm[0], 1, 7.5))


def _opt_average(c, fm):
    return c.np.average(c.o(0), weights=_slot(c, fm[0], 1, VALS["v4"][1]))


def _opt_gradient(c, fm):
    return c.np.gradient(c.o(0), _slot(c, fm[0], 1, 0.5), _slot(c, fm[1], 2, [0.0, 1.0, 3.0]))


OPT = {
    ("np.trapezoid", "o"): _opt_trapezoid,
    ("np.histogram", "o"): _opt_histogram(False),
    ("np.histogram", "od"): _opt_histogram(True),
    ("np.histogram", "obr"): _opt_histogram_bins,
    ("np.interp", "olr"): _opt_interp_lr,
    ("np.interp", "oper"): _opt_interp_period,
    ("np.clip", "o"): _opt_clip,
    ("np.pad", "ocv"): _opt_pad_cv,
    ("np.pad", "oev"): _opt_pad_ev,
    ("np.average", "o"): _opt_average,
    ("np.gradient", "o"): _opt_gradient,
}


def _call(c):
    case = c.case
    name, t = case["f"], case["t"]
    if ":" in t:
        tag, fm = t.split(":", 1)
        return OPT[(name, tag)](c, fm)
    if (name, t) in SPEC:
        return SPEC[(name, t)](c)
    pos, kw = ARGS[name](c) if name in ARGS else ((), {})
    kw = dict(kw)
    ops = c.ops()
    if t in ("ax0", "ax0out", "kd"):
        kw["axis"] = 0
    elif t == "axN":
        kw["axis"] = None
    elif t in ("axm", "axmout"):
        kw["axis"] = -1
    elif t in ("ax1", "lstax1"):
        kw["axis"] = 1
    if t == "kd":
        kw["keepdims"] = True
    if t in ("out", "ax0out", "lstout", "axmout"):
        kw["out"] = c.out
    if t == "wh":
        kw["axis"] = 0
        kw["where"] = c.np.array([[True, False, True], [True, True, False]])
    if t == "subok":
        kw["subok"] = True
    if t == "dd1":
        kw["ddof"] = 1
    if name.startswith("nd."):
        m = getattr(ops[0], name[3:])
        return m(*ops[1:], *pos, **kw)
    f = _fn(name)
    if t in ("lst", "lstax1", "lstout"):
        return f(ops, *pos, **kw)
    return f(*ops, *pos, **kw)


# ------------------------------------------------------------------ projection
def _flatten(r, depth=0):
    np = _U["np"]
    if isinstance(r, (tuple, list)) and depth < 2 and not isinstance(r, _U["ua"]):
        out = []
        for x in r:
            out.extend(_flatten(x, depth + 1))
        return out
    return [r]


def _half(e):
    f = Fraction(e).limit_denominator(1000) * 2
    return int(f) if f.denominator == 1 else None


def _dims(units):
    """[2*exponent of length, 2*exponent of time], odd = anything else present / not a half-integer"""
    d = units.dimensions
    pw = d.as_powers_dict() if hasattr(d, "as_powers_dict") else {}
    l2 = t2 = 0
    odd = False
    for sym, e in pw.items():
        if getattr(sym, "is_number", False):
            continue
        h = _half(e) if getattr(e, "is_number", False) else None
        if sym in (_U["lensym"], _U["tempsym"]) and h is not None:  # temperature shares the first slot (never mixed with length)
            l2 = h
        elif sym == _U["timesym"] and h is not None:
            t2 = h
        else:
            odd = True
    return [l2, t2], odd


def _lg(units):
    bv = float(units.base_value)
    if not (bv > 0) or math.isinf(bv):
        return 0, True
    x = 2 * math.log2(bv)
    r = round(x)
    return int(r), abs(x - r) > 1e-9


def _proj(x):
    np = _U["np"]
    if isinstance(x, _Raw):
        return {"kind": "rawbuf", "cls": type(x.x).__name__[:30], "dk": "", "dims": [0, 0], "lg": 0, "odd": False, "nd": 0, "sz": 0}
    if x is None:
        return {"kind": "none", "cls": "NoneType", "dk": "", "dims": [0, 0], "lg": 0, "odd": False, "nd": 0, "sz": 0}
    if isinstance(x, _U["ua"]):
        dims, odd = _dims(x.units)
        lg, oddlg = _lg(x.units)
        return {"kind": "unyt", "cls": type(x).__name__, "dk": x.dtype.kind, "dims": dims, "lg": lg, "odd": bool(odd), "lgodd": bool(oddlg), "nd": int(x.ndim), "sz": int(x.size)}
    if isinstance(x, str):
        return {"kind": "text", "cls": "str", "dk": "", "dims": [0, 0], "lg": 0, "odd": False, "nd": 0, "sz": len(x)}
    if isinstance(x, (np.ndarray, np.generic, bool, int, float, complex)):
        a = np.asarray(x)
        if a.dtype.kind in "biufc":
            return {"kind": "bare", "cls": type(x).__name__ if not isinstance(x, np.generic) else "npscalar", "dk": a.dtype.kind, "dims": [0, 0], "lg": 0, "odd": False, "nd": int(a.ndim), "sz": int(a.size)}
    return {"kind": "other", "cls": type(x).__name__[:30], "dk": "", "dims": [0, 0], "lg": 0, "odd": False, "nd": 0, "sz": 0}


def _phys(x):
    np = _U["np"]
    if isinstance(x, _U["ua"]):
        a = np.asarray(x)
        a = a.astype(complex) if a.dtype.kind == "c" else a.astype(float)
        return (a - float(getattr(x.units, "base_offset", 0.0) or 0.0)) * float(x.units.base_value)  # absolute value (K for temperatures)
    a = np.asarray(x)
    return a.astype(complex) if a.dtype.kind == "c" else a.astype(float)


def _cmp(x, y, px, py, novals, unord=False):
    np = _U["np"]
    if px["kind"] in ("none",) and py["kind"] == "none":
        return {"ex": True, "tol": True, "shp": True}
    if px["kind"] == "rawbuf" or py["kind"] == "rawbuf":
        return {"ex": True, "tol": True, "shp": True}
    if px["kind"] == "text" or py["kind"] == "text" or px["kind"] == "other" or py["kind"] == "other":
        same = (px["kind"] == py["kind"]) and (str(x) == str(y))
        return {"ex": bool(same), "tol": bool(same), "shp": True}
    if px["kind"] == "none" or py["kind"] == "none":
        return {"ex": False, "tol": False, "shp": False}
    a, b = _phys(x), _phys(y)
    if a.shape != b.shape:
        return {"ex": False, "tol": False, "shp": False}
    if novals:
        return {"ex": True, "tol": True, "shp": True}
    if unord:  # the function's contract leaves the order open: compare as multisets
        a, b = np.sort(a.reshape(-1)), np.sort(b.reshape(-1))
    ex = bool(np.array_equal(a, b, equal_nan=True))
    with np.errstate(all="ignore"):
        fin = np.isfinite(a) & np.isfinite(b)
        same_nonfin = bool(np.array_equal(np.where(fin, 0, a), np.where(fin, 0, b), equal_nan=True))
        mag = max(float(np.max(np.abs(a[fin]))) if fin.any() else 0.0, float(np.max(np.abs(b[fin]))) if fin.any() else 0.0)
        tol = same_nonfin and bool(np.all(np.abs(np.where(fin, a - b, 0)) <= RTOL * mag))
    return {"ex": ex, "tol": bool(tol or ex), "shp": True}


# ------------------------------------------------------------------ one run
_HARNESS_EXC = (NameError, ImportError, KeyError)


def _out_unit(case, units_alt):
    """unit of an out= buffer: the signature's primary output in *other* commensurable units"""
    u = None
    for (deg2, ua) in zip(case["od"], units_alt):
        if deg2 == 0:
            continue
        p = ua ** Fraction(int(deg2), 2)
        u = p if u is None else u * p
    return u if u is not None else units_alt[0] / units_alt[0]


def _run(case, which):
    np = _U["np"]
    real = bool(case["real"])
    us = case[which]
    rg = case.get("rg") or [0] * len(us)
    units = [_unit_reg(u[0], int(j)) if which == "u" and int(j) else _unit(u, real) for u, j in zip(us, rg)]
    c = Ctx(dict(case, _k=[int(u[1]) for u in us]), units)
    t = case["t"]
    rawbuf = False
    import warnings

    with warnings.catch_warnings():
        warnings.simplefilter("ignore")
        try:
            if t in ("out", "ax0out", "lstout", "mmout", "axmout"):
                # dry run without out= to learn the result's shape and dtype
                c0 = Ctx(dict(case, t={"out": "p", "ax0out": "ax0", "lstout": "lst", "mmout": "mm", "axmout": "axm"}[t], _k=c.case["_k"]), units)
                r0x = _call(c0)
                r0 = np.asarray(r0x)
                alt = [_unit([u[0], 1 if not real else 2], real) for u in us]  # the same buffer unit in both runs
                ou = _out_unit(case, alt)
                dt = r0.dtype if r0.dtype.kind in "fc" else np.float64
                kind = case.get("ok", "u")
                if kind == "b":
                    c.out = np.zeros(r0.shape, dtype=dt)  # the caller's plain buffer
                elif kind == "r" and isinstance(r0x, _U["ua"]):
                    c.out = _U["ua"](np.zeros(r0.shape, dtype=dt), r0x.units)  # already in the unit of the result
                else:
                    c.out = _U["ua"](np.zeros(r0.shape, dtype=dt), ou)
                r = _call(c)
                outs = _flatten(r) + [c.out]
                rawbuf = kind == "b"
            else:
                r = _call(c)
                outs = _flatten(r)
        except TypeError as e:
            msg = str(e)
            if "required positional argument" in msg or "missing" in msg and "argument" in msg or "takes" in msg and "positional" in msg or "at least" in msg and "argument" in msg:
                return {"k": "inapplicable", "exc": "TypeError", "outs": []}, []
            return {"k": "raise", "exc": "TypeError", "outs": []}, []
        except _HARNESS_EXC:
            raise
        except Exception as e:  # noqa: BLE001 - a refusal is an observation
            return {"k": "raise", "exc": type(e).__name__, "outs": []}, []
    if len(outs) > 12:
        outs = outs[:12]
    pr = [_proj(x) for x in outs]
    if rawbuf and type(outs[-1]) is np.ndarray:
        pr[-1] = dict(pr[-1], kind="rawbuf")
    return {"k": "ok", "exc": "", "outs": pr}, outs


def observe(case):
    b, bo = _run(case, "u")
    v, vo = _run(case, "v")
    cmp = []
    if b["k"] == "ok" and v["k"] == "ok" and len(bo) == len(vo):
        novals = bool(case.get("novals"))
        for x, y, px, py in zip(bo, vo, b["outs"], v["outs"]):
            cmp.append(_cmp(x, y, px, py, novals, bool(case.get("unord"))))
    # out= templates: the returned object against the buffer it was written to, within each run
    oc = {}
    if case["t"] in ("out", "ax0out", "lstout", "mmout", "axmout"):
        for tag, run, outs in (("b", b, bo), ("v", v, vo)):
            if run["k"] == "ok" and len(outs) >= 2:
                oc[tag] = _cmp(outs[0], outs[-1], run["outs"][0], run["outs"][-1], False)
    nil = {"ex": True, "tol": True, "shp": True}
    return {"b": b, "v": v, "cmp": cmp, "ocb": oc.get("b", nil), "ocv": oc.get("v", nil)}
