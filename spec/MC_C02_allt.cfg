CONSTANTS
  Stride = 1
  Phase = 0
INIT Init
NEXT NextAllThorough
INVARIANT Export
CHECK_DEADLOCK FALSE
