CONSTANTS
  MaxChain = 1
  PathSet <- SvAll
  Combos <- SvFullCombos
  ClsSet <- ArrayOnly
  OrderSet <- OrigFirst
  PreSet <- PlainPre
INIT Init
NEXT Next
INVARIANT Export
CHECK_DEADLOCK FALSE
