CONSTANTS
  Stride = 1
  Phase = 0
INIT Init
NEXT NextAll
INVARIANT Export
CHECK_DEADLOCK FALSE
