"""C18 - non-mutating calls do not mutate; failed calls leave their operands intact.

Spec: spec/Frame.tla (+ MC_C18, Trace_C18).
  1. TLC enumerates object-graph configurations x the call catalogue (single step, exhaustive) and
     multi-step histories (exhaustive on a reduced alphabet in the thorough tier, -simulate beyond).
     Frame!Apply decides success or fault of every call; the model-level verdict of the C18 predicates
     on each exported step is exported too (the transcription reproduces today's evaluate-then-refuse
     ordering, so the model itself names the classes of calls that break C18).
  2. every history is replayed on real objects (harness/impl_c18.py): before/after projections of
     EVERY live object, the exception, the result, and the corresponding copying call on copies.
  3. TLC (Trace_C18) evaluates the C18 predicates on the observed steps (P) and compares them with
     Frame!Apply (T).
  4. the repository's own test-suite, recorded by the external tracer, is checked against the event
     predicate P18 of spec/SuiteTrace.tla."""

import json
import random

from common import NCPU, MachineryFailure

CHUNK = 9000
PAR = max(1, min(6, NCPU // 2))  # concurrent single-worker TLC processes (MC instances, trace-validation chunks)


def _key(r, s):
    key = {"clause": r["clause"], "op": r["op"], "f": r["f"], "exc": s["exc"], "offset_in": r["offin"]}
    if r["op"] == "gin":  # generic in-place family: the variant and the kind of target dtype belong to the call site
        key["variant"] = r["e"]
        key["target_int"] = bool(r["tint"])
    return key


def _short(s):
    c = s["c"]
    return {k: v for k, v in c.items() if v}


def _validate(ck, hists, obs, label):
    """flatten the observed steps, let TLC judge them; returns number of steps"""
    steps = []
    owner = []
    for hi, o in enumerate(obs):
        if "_error" in o:
            raise MachineryFailure("replay error: " + str(o))
        if o["trunc"]:
            ck.drift_step("history-truncated", {"history": hists[hi]["h"], "why": o["trunc"]})
        for s in o["steps"]:
            steps.append(s)
            owner.append(hi)
    stats = ck.cov.setdefault("steps_by_kind", {})
    for s in steps:
        kind = ("inplace-" if s["c"]["op"] in INPLACE else "copying-") + ("raised" if s["ex"] else "ok")
        stats[kind] = stats.get(kind, 0) + 1
    import os
    from concurrent.futures import ThreadPoolExecutor

    def judge(off):
        part = steps[off : off + CHUNK]  # noqa: F821 - CHUNK is bound below, before the pool starts
        path = ck.write_json(f"steps_{label}_{off}.json", part)
        res = ck.tlc("Trace_C18", env={"STEPS": path}, workers=1, coverage=False, label=f"trace validation {label} [{off}:{off + len(part)}]", timeout=1800)
        os.unlink(path)
        if res.distinct != len(part) + 1:
            raise MachineryFailure(f"trace validation consumed {res.distinct - 1} of {len(part)} steps")
        return off, part, res

    # one round of concurrent TLC processes where possible (chunking groups the steps, it does not affect verdicts)
    CHUNK = max(4000, min(12000, -(-len(steps) // PAR)))
    offs = list(range(0, len(steps), CHUNK))
    with ThreadPoolExecutor(max_workers=PAR) as ex:
        judged = list(ex.map(judge, offs))  # verdicts are processed in chunk order: deterministic
    for off, part, res in judged:
        for r in res.by_tag("T-FAIL"):
            s = part[r["idx"] - 1]
            c = s["c"]
            sig = "|".join([c["op"], c["f"], c["x"] + ":" + s["B"][c["x"]]["dt"] + ":" + s["B"][c["x"]]["u"]["s"], (c["y"] + ":" + s["B"][c["y"]]["dt"] + ":" + s["B"][c["y"]]["u"]["s"]) if c["y"] in s["B"] else c["y"], (c["o"] + ":" + s["B"][c["o"]]["dt"]) if c["o"] else "", c["u"], c["e"], "model-ex=%s" % r["model"]["ex"], "obs=" + (s["exc"] or "ok")])
            ds = ck.cov.setdefault("drift_signatures", {})
            ds[sig] = ds.get(sig, 0) + 1
            ck.drift_step(s["c"]["op"], {"call": _short(s), "cfg": hists[owner[off + r["idx"] - 1]]["cfg"], "model": r["model"], "observed": {"ex": s["ex"], "exc": s["exc"], "res": s["res"], "target": s["Af"].get(s["c"]["o"] or s["c"]["x"])}})
        for r in res.by_tag("P-FAIL"):
            s = part[r["idx"] - 1]
            h = hists[owner[off + r["idx"] - 1]]
            tgt = s["c"]["o"] or s["c"]["x"]
            changed = sorted(r.get("changed") or []) or [o for o in s["B"] if s["B"][o] != s["Af"][o]]
            detail = {"call": _short(s), "step": s["l"], "cfg": h["cfg"], "changed": {o: {"before": s["B"][o], "after": s["Af"][o]} for o in changed[:3]}, "twin": s["tw"] if r["clause"] == "P4_Twin" else None, "target": tgt}
            ck.violation(_key(r, s), detail, case={"cfg": h["cfg"], "h": h["h"][: s["l"]]})
    ck.validated(len(obs))
    return len(steps)


INPLACE = {"gin", "convert_to_units", "convert_to_base", "convert_to_cgs", "convert_to_mks", "convert_to_equivalent", "iop", "ufunc_out", "unary_out", "setitem0", "setitemall", "copyto", "put", "putmask", "fill_diagonal"}


CONV = ["in_units", "to", "to_value", "in_base", "in_cgs", "in_mks", "convert_to_units", "convert_to_base", "convert_to_cgs", "convert_to_mks", "copy"]
ORD = ["gorder"]  # sort / partition / quantile family (frame-only)
GEN = ["gufunc", "gunary", "garrfn", "gmethod"]  # generic copying families (frame-only)
GIN = ["gin"]  # generic in-place family (frame-only)
NONG = ["in_units", "to", "to_value", "in_base", "in_cgs", "in_mks", "to_equivalent", "binop", "ufunc", "unary", "copy", "concatenate", "dot", "clip", "aunit",
        "umul", "udiv", "upow", "ubase", "ucoeff", "ucopy", "usimplify", "units_simplify"] + sorted(INPLACE - {"gin"})


def _set(xs):
    return "{" + ", ".join('"%s"' % x for x in xs) + "}"


def _cfg(ck, name, maxlen, dtas, dtbs, uas, ubs, uqs, dtcs, ops=(), fan=0, ops2=(), focus=False, vals=("p2",)):
    txt = "CONSTANTS\n  MaxLen = %d\n  ExportLen = %d\n  DtAs = %s\n  DtBs = %s\n  UAs = %s\n  UBs = %s\n  UQs = %s\n  DtCs = %s\n  OpSet = %s\n  OpSet2 = %s\n  FocusR = %s\n  Fan = %d\n  Seed = %d\n  ValSet = %s\nINIT Init\nNEXT %s\nINVARIANT Export\nCHECK_DEADLOCK FALSE\n" % (
        maxlen, maxlen, _set(dtas), _set(dtbs), _set(uas), _set(ubs), _set(uqs), _set(dtcs), _set(ops), _set(ops2), "TRUE" if focus else "FALSE", fan or 1, ck.seed % 100000, _set(vals), "NextRnd" if fan else "Next")
    open(ck.spec + f"/{name}.cfg", "w").write(txt)
    return name


def _timed(ck, what, t0):
    import time

    tm = ck.cov.setdefault("timing_s", {})
    tm[what] = round(tm.get(what, 0) + time.time() - t0, 1)


def _run_instance(ck, name, label):
    # (-coverage costs 11 s on this module; vacuity is excluded by requiring exported histories instead)
    res = ck.tlc("MC_C18", name, workers=1, coverage=False, label=label, timeout=3000)
    # (the initial numbers chosen by the model travel with the configuration: replay files carry them too)
    # identical configurations share one dict (the thorough tier holds several 100 000 histories)
    seen = {}
    hists = [{"cfg": seen.setdefault(json.dumps([r["cfg"], r["iv"]], sort_keys=True), dict(r["cfg"], iv=r["iv"])), "h": r["h"], "mv": r["mv"]} for r in res.by_tag("HIST")]
    if not hists:
        raise MachineryFailure("no histories exported by " + name)
    return hists


def run(ck):
    ck.level = "model_checking"
    ck.assumptions += [
        "object graph: base array A[4], view V=A[1:3], array B[2], quantity Q, out buffer C[2], result slot R, Unit objects U1/U2; values are powers of two",
        "dyadic model registry (la=1 m, lb=8 m, ta=1 s, oc=offset scale K-4) on top of unyt's default symbols: conversions are exact in floating point, numbers are compared as exact rationals",
        "conversion routes are also run on numbers that do not fit the float type of their item size, among degC/degF/R/K/mile/km: the numbers of an in-place conversion and of its copying form are compared bit for bit (floats as interned tokens, equal token = same float)",
        "which objects share memory is taken from the model's object graph (V with A), not from observation",
        "a failed in-place call is compared on numbers and unit (integer out=/augmented targets are retyped to float before validation); an object sharing memory with a retyped target is exempt",
        "floats that are not small rationals (equivalence conversions) are compared as interned tokens; floats within 1e-15 relative share a token",
    ]
    if ck.replay:
        blob = json.load(open(ck.replay))
        case = blob["case"]
        if "suite_event" in case:
            raise MachineryFailure("suite events are replayed by re-running the check (the event comes from the repository's test-suite)")
        obs = ck.pmap("impl_c18", "observe", [case], nproc=1)
        _validate(ck, [case], obs, "replay")
        return

    model_classes = set()

    def account(hists):
        for h in hists:
            for cl in h["mv"]:
                c = h["h"][-1]
                model_classes.add((cl, c["op"], c["f"]))

    from concurrent.futures import ThreadPoolExecutor

    # 3 (started first, runs beside the rest). code -> spec: the repository's test-suite under the tracer, predicate P18
    import suite

    pool = ThreadPoolExecutor(max_workers=1)
    suite_job = pool.submit(suite.check, ck, ["P18"])

    # 1. single step: configurations x catalogue, exhaustive ("lr" = lb/la: a unit whose spelling cancels to a coefficient)
    if ck.tier == "quick":
        name = _cfg(ck, "MC_C18_q1", 1, ["f8", "i8", "i1"], ["f8"], ["la", "oc"], ["lb", "K"], ["la"], ["f8"], NONG)
        name2 = _cfg(ck, "MC_C18_q2", 1, ["f8"], ["i8"], ["lb", "lr"], ["la", "oc", "tl"], ["na"], ["i8"], NONG)
        # generic copying families (every binary ufunc family x call/operator/reduce/accumulate/outer, array functions,
        # methods): same dimension in different units on either side (A vs B, A vs Q, B vs Q), float64 and float32
        nameg = _cfg(ck, "MC_C18_qg", 1, ["f8", "f4"], ["f8"], ["la", "lb"], ["lb"], ["la"], ["f8"], GEN)
        nameg2 = _cfg(ck, "MC_C18_qg2", 1, ["f8"], ["f8"], ["oc"], ["K"], ["la"], ["f8"], GEN)
    else:
        name = _cfg(ck, "MC_C18_t1", 1, ["f8", "i8", "i1", "i4", "f4"], ["f8"], ["la", "oc", "K"], ["lb", "ta", "oc", "tl"], ["la", "na"], ["f8"], NONG)
        name2 = _cfg(ck, "MC_C18_t2", 1, ["f8", "i2"], ["i8", "i4"], ["lb", "lr"], ["la", "oc"], ["ta"], ["i4"], NONG)
        nameg2 = _cfg(ck, "MC_C18_tg2", 1, ["f8", "i8"], ["f8"], ["oc", "lr"], ["K", "oc"], ["na"], ["f8"], GEN)
        nameg = _cfg(ck, "MC_C18_tg", 1, ["f8", "f4", "i8"], ["f8", "f4"], ["la", "lb"], ["lb"], ["la"], ["f8"], GEN)
    # generic in-place family: array functions / methods / ufunc forms with out=, item assignment and the in-place array
    # functions, each with NumPy-level refusals (wrong-shaped or wrong-dtype target, out-of-bounds index, read-only target,
    # wrong number of outputs, casting="no", bad mask); the targets carry a unit different from the would-be result's
    if ck.tier == "quick":
        namei = _cfg(ck, "MC_C18_qi", 1, ["f8"], ["f8"], ["la"], ["lb"], ["la"], ["f8", "i8"], GIN)
        namei2 = _cfg(ck, "MC_C18_qi2", 1, ["f8"], ["f8"], ["oc"], ["lb"], ["la"], ["f8"], GIN)
    else:
        namei2 = _cfg(ck, "MC_C18_ti2", 1, ["i8"], ["f8"], ["lr"], ["la"], ["na"], ["i8"], GIN)
        namei = _cfg(ck, "MC_C18_ti", 1, ["f8", "i8"], ["f8"], ["la", "oc", "lb"], ["lb", "K"], ["la"], ["f8", "i8"], GIN)
    # conversion routes number by number: the "wide" value class (numbers that need more bits than the float type of their
    # own item size once scaled or shifted) on signed / unsigned integer and narrow float data, among the real (non-dyadic)
    # scales of the default table (degC, degF, R, K, mile, km) and the dyadic offset scale; every in-place conversion is
    # compared bit for bit with its copying form (P4_Twin), every copying one must leave its input alone (P1_NoMut)
    if ck.tier == "quick":
        namec = _cfg(ck, "MC_C18_qc", 1, ["i4", "i2", "f4"], ["u4"], ["dC", "dF", "oc"], ["K"], ["dF"], ["i8"], CONV, vals=["wide"])
    else:
        namec = _cfg(ck, "MC_C18_tc", 1, ["i2", "i4", "i8", "f4", "f2", "u2"], ["f4", "u4"], ["dC", "dF", "oc", "K", "Rk"], ["K", "mi"], ["mi", "dF"], ["i4"], CONV, vals=["wide"])
    # functions that sort / partition / select by rank, on data in no particular order (NumPy offers to use the input as
    # scratch space there): P1_NoMut
    nameo = _cfg(ck, "MC_C18_ord", 1, ck.q(["f8"], ["f8", "f4", "i4"]), ["u4"], ck.q(["dC"], ["dC", "la"]), ["K"], ["mi"], ["i8"], ORD, vals=["wide"])
    insts = [("step", nameo, f"single step: rank/order functions on unordered data ({nameo})"), ("step", namec, f"single step: wide values x conversion routes ({namec})"), ("step", name, f"single step: configurations x call catalogue ({name})"), ("step", namei, f"single step: configurations x generic in-place family ({namei})"),
             ("step", namei2, f"single step: configurations x generic in-place family ({namei2})"), ("step", name2, f"single step: configurations x call catalogue ({name2})"),
             ("step", nameg, f"single step: configurations x generic copying families ({nameg})"),
             ("step", nameg2, f"single step: configurations x generic copying families ({nameg2})")]
    # 2a. "new object" really new?  every copying call that returns an array, followed by every in-place call on the result R
    first = ["in_units", "to", "in_base", "in_mks", "in_cgs", "copy", "unary", "to_equivalent", "aunit"] + ck.q([], ["binop", "clip", "concatenate"])
    second = ["iop", "setitem0", "convert_to_units"] + ck.q([], ["unary_out", "put"])
    nm = _cfg(ck, "MC_C18_focus", 2, ["f8"] + ck.q([], ["i8"]), ["f8"], ["la"], ["lb"], ["na"], ["f8"], first, ops2=second, focus=True)
    insts.append(("focus", nm, "copying call, then every in-place call on its result R"))
    if ck.tier == "thorough":
        # 2b. exhaustive depth 2 on the in-place / copying alphabet that matters for sequences
        ops = ["in_units", "convert_to_units", "iop", "unary_out", "copy", "setitem0", "convert_to_equivalent", "units_simplify"]
        nm = _cfg(ck, "MC_C18_t3", 2, ["f8"], ["f8"], ["oc"], ["lb"], ["na"], ["f8"], ops)
        insts.append(("depth2", nm, "all histories of 2 calls (reduced alphabet)"))
    # 2c. deeper histories over the full alphabet: about Fan calls per state chosen by a deterministic hash of (call, history, configuration, VERIF_SEED)
    fan = ck.q(13, 11)
    depth = ck.q(3, 4)
    nm = _cfg(ck, "MC_C18_rnd", depth, ["f8", "i8"], ["f8"], ["la", "oc"], ["lb", "K"], ["na"], ["f8"], NONG, fan=fan, ops2=NONG)
    insts.append(("rnd", nm, f"hash-thinned histories: depth={depth} fan={fan}"))
    with ThreadPoolExecutor(max_workers=PAR) as ex:
        outs = list(ex.map(lambda i: _run_instance(ck, i[1], i[2]), insts))
    allh = []
    counts = {}
    rnd = random.Random(ck.seed)
    for (kind, nm, _), hists in zip(insts, outs):
        account(hists)
        if kind == "depth2" and len(hists) > 40000:
            hists = rnd.sample(hists, 40000)
            ck.cov["depth2_sampled"] = True
        counts[kind] = counts.get(kind, 0) + len(hists)
        if nm == name or kind == "rnd":
            ck.sample({"cfg": hists[len(hists) // 2]["cfg"], ("history" if kind == "step" else "thinned_history"): hists[len(hists) // 2]["h"]})
        allh += hists
    ck.cov["exhaustive"] = True
    ck.cov["single_step_cases"] = counts.get("step", 0)
    ck.cov["order_function_cases"] = len(outs[0])
    ck.cov["wide_value_conversion_cases"] = len(outs[1])
    ck.cov["result_then_inplace_histories"] = counts.get("focus", 0)
    if "depth2" in counts:
        ck.cov["depth2_histories"] = counts["depth2"]
    ck.cov["random_histories"] = counts.get("rnd", 0)
    ck.cov["random_histories_bound"] = {"depth": depth, "fan": fan}
    # replay + validate in slices to bound memory
    total_steps = 0
    SL = 60000
    for off in range(0, len(allh), SL):
        part = allh[off : off + SL]
        obs = ck.pmap("impl_c18", "observe", [{"cfg": h["cfg"], "h": h["h"]} for h in part], chunk_timeout=1500)
        total_steps += _validate(ck, part, obs, f"slice{off}")

    ck.cov["model_level_violation_classes"] = sorted(list(x) for x in model_classes)
    ck.cov["evaluations"] = total_steps
    sk = ck.cov.get("steps_by_kind", {})
    ck.cov["distinct_nontrivial"] = sk.get("inplace-raised", 0) + sk.get("inplace-ok", 0) + sk.get("copying-ok", 0)
    ck.cov["rule"] = "steps where a frame clause has something to constrain: every in-place call (failed: target intact; succeeded: only the target changed, numbers of the copying twin) and every copying call that returned"

    suite_job.result()
    pool.shutdown()
