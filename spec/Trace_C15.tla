----------------------------- MODULE Trace_C15 -----------------------------
(* Trace validation for C15: the observations of the real library (one per   *)
(* case of MC_C15) are consumed one by one.  For each, TLC evaluates the C15 *)
(* predicates on the observation (P -> P-FAIL records) and compares the      *)
(* observation with the transition (T -> T-FAIL records).  NOTE records say  *)
(* where a clause was not applicable (counted by the harness: non-vacuity).  *)
EXTENDS Constants
Obs == JsonDeserialize(IOEnv.OBS)
VARIABLE c
NoCase == [kind |-> "init", k |-> 0]
PFail(k, clause) == PrintT(ToJson([tag |-> "P-FAIL", k |-> k, clause |-> clause]))
TFail(k, what, m) == PrintT(ToJson([tag |-> "T-FAIL", k |-> k, what |-> what, model |-> m]))
Note(k, what) == PrintT(ToJson([tag |-> "NOTE", k |-> k, what |-> what]))

CheckGuise(k) ==
  LET o == Obs[k] cs == o.case n == cs.a cfg == cs.cfg g == cs.g route == cs.route ci == RowOf(n) cur == Cfgs[cfg].cur IN
  /\ (o.present # ExpPresent(ci, g) => TFail(k, "present", [present |-> ExpPresent(ci, g)]))
  /\ o.present =>
       /\ (~C15_GuiseDim(n, o) => PFail(k, "GuiseDim"))
       /\ (~C15_GuisesAgree(n, o) => PFail(k, "GuisesAgree"))
       /\ (~C15_EqualsDefault(n, cfg, o) => PFail(k, "EqualsDefault"))
       /\ (~C15_EqualsDocumented(n, cfg, o) => PFail(k, "EqualsDocumented"))
       /\ (~C15_Comparable(n, route, o) => PFail(k, "Comparable"))
       /\ (~C15_EqOp(n, cfg, o) => PFail(k, "EqOp"))
       /\ (~C15_Ratio(n, cfg, o) => PFail(k, "Ratio"))
       /\ (~C15_ShownNumber(route, o) => PFail(k, "ShownNumber"))
       /\ (~C15_DefaultInSystem(cfg, route, o) => PFail(k, "DefaultInSystem"))
       /\ ((o.r.o = "num" /\ route = "defbase" /\ ~o.r.su) => TFail(k, "unit-text-of-default-in-system", [su |-> TRUE]))
       /\ ((o.r.o = "dev" /\ ~DevApplicable(n, o)) => Note(k, "magnitude-not-in-SI-dimension"))
       /\ (AsDim(o.dv) # ExpDim(ci, g, cur) => TFail(k, "dimension", [gauss |-> ExpDim(ci, g, cur) # RowDim(ci)]))
       /\ ((ExpTabUnit(ci, g, cur) /\ ~o.tab) => TFail(k, "unit-left-as-tabulated", [tab |-> TRUE]))
       /\ (ObsRoute(o) # ExpRoute(ci, cfg, route, o) => TFail(k, "route", ExpRoute(ci, cfg, route, o)))
       /\ ((o.r.o = "bool" /\ ~o.offu /\ o.r.er # ExpEq(ci, cfg, o)) => TFail(k, "eq", [er |-> ExpEq(ci, cfg, o)]))
CheckRel(k) ==
  LET o == Obs[k] cs == o.case IN
  /\ (~C15_Relation(cs.a, cs.cfg, o) => PFail(k, "Relation"))
  /\ (~C15_RelationQuotient(cs.a, cs.cfg, o) => PFail(k, "RelationQuotient"))
  /\ ((RelApplicable(cs.a, cs.cfg, o) /\ ~TwoSided(cs.a)) => Note(k, "relation-has-no-quotient-form"))
  /\ (~RelApplicable(cs.a, cs.cfg, o) => Note(k, "relation-not-representable"))
CheckUnit(k) ==
  LET o == Obs[k] cs == o.case IN
  /\ (~C15_ConstEqualsUnit(cs.a, cs.cfg, o) => PFail(k, "ConstEqualsUnit"))
  /\ ((o.present /\ ~UnitDemanded(cs.a, cs.cfg) /\ Unmodified(cs.cfg) /\ ~UnitAgrees(o)) =>
        Note(k, IF Names[cs.a].n \in DiffByDesign THEN "different-by-design" ELSE "different-outside-enumeration"))
\* the constants of two configurations against each other
CheckPair(k) ==
  LET o == Obs[k] cs == o.case n == cs.a ci == RowOf(n) IN
  /\ (~C15_CrossAgree(n, cs.cfg, cs.cfg2, cs.route, o) => PFail(k, "CrossAgree"))
  /\ (~PairApplicable(n, cs.cfg, cs.cfg2, cs.route, o) => Note(k, "pair-not-demanded"))
  /\ ((o.pa # ExpPresent(ci, "plain") \/ o.pb # ExpPresent(ci, "plain")) => TFail(k, "present", [present |-> ExpPresent(ci, "plain")]))
  /\ ((o.pa /\ o.pb /\ o.da = o.db /\ o.o # (IF cs.route \in PairBoolForms THEN "bool" ELSE "num")
        /\ ~(cs.route = "sub" /\ PureTemp(DefDim(n)) /\ o.o = "exc")) => TFail(k, "outcome", [o |-> IF cs.route \in PairBoolForms THEN "bool" ELSE "num"]))
CheckLit(k) ==
  LET o == Obs[k] cs == o.case IN
  /\ (~C15_LitDim(cs.a, o) => PFail(k, "LitDim"))
  /\ (~C15_LitClass(cs.a, o) => PFail(k, "LitClass"))
  /\ (~o.present => Note(k, "not-exported"))

TraceInit == c = NoCase
TraceNext == c = NoCase /\ \E k \in 1..Len(Obs) : c' = [kind |-> Obs[k].case.kind, k |-> k]
Check == c # NoCase => CASE c.kind = "guise" -> CheckGuise(c.k)
                         [] c.kind = "rel" -> CheckRel(c.k)
                         [] c.kind = "unit" -> CheckUnit(c.k)
                         [] c.kind = "pair" -> CheckPair(c.k)
                         [] OTHER -> CheckLit(c.k)
=============================================================================
