"""Replay of DType.tla cases in real unyt (C17).

observe(case) -> observation for Trace_C17.tla.  A case is a record exported
by MC_C17 (family "conv" or "ufunc").  This module only
  * makes the abstract case concrete (dtype, value-class -> numbers, units of
    the dyadic model registry m = 1, la = 2^10 m, lc = 2^-3 m),
  * runs the real calls with warnings recorded,
  * projects the results: raised?, dtype kind/size, warnings, and per element
    the observed number as an exact rational (when 32-bit safe) plus the flags
    "observed == exact rational result rounded to float type X" computed with
    exact Fraction arithmetic (round-to-nearest-even, overflow to inf).
It decides nothing: the predicates are evaluated by TLC."""

import math
import warnings
from fractions import Fraction

_U = {}
UNITS = {1: "m", 2: "la", 3: "lc", 4: "km", 5: "mile", 6: "cm", 7: "mm", 8: "Mm", 9: "ym", 10: "Ym", 11: "lnd",
         12: "l_pl", 13: "Wh", 14: "J", 15: "dB", 16: "B",
         17: "N", 18: "kg*m/s**2", 19: "degC", 20: "degF", 21: "K", 22: "tc", 23: "tf", 24: "dyn", 25: "g*cm/s**2",
         26: "A", 27: "statA", 28: "mA", 29: "T", 30: "G", 31: "kV", 32: "V", 33: "uC", 34: "C"}
# exact scales (lengths in metres; mile = 1609.344 m by definition; decimal prefixes are the ideal powers of ten).
# 12..16 are table values: their definition is the number the registry holds (filled in by setup).
SCALE = {1: Fraction(1), 2: Fraction(1024), 3: Fraction(1, 8), 4: Fraction(1000), 5: Fraction(1609344, 1000),
         6: Fraction(1, 100), 7: Fraction(1, 1000), 8: Fraction(10**6), 9: Fraction(1, 10**24), 10: Fraction(10**24),
         11: Fraction(1024), 17: Fraction(1), 18: Fraction(1), 19: Fraction(1), 20: Fraction(5, 9), 21: Fraction(1),
         22: Fraction(1), 23: Fraction(1, 2), 24: Fraction(1, 10**5), 25: Fraction(1, 10**5),
         # E&M: 1 A = 2997924580 statA (c in cm/s over 10, exact), 1 T = 10^4 G
         26: Fraction(1), 27: Fraction(1, 2997924580), 28: Fraction(1, 1000), 29: Fraction(1), 30: Fraction(1, 10**4),
         31: Fraction(1000), 32: Fraction(1), 33: Fraction(1, 10**6), 34: Fraction(1)}
# units with an offset: reading v stands for (v - OFFSET) * SCALE kelvin (degC, degF by their defining relations;
# tc, tf are the dyadic model units of DType.UnitOff)
OFFSET = {19: Fraction(-27315, 100), 20: Fraction(-45967, 100), 22: Fraction(-33, 2), 23: Fraction(-17, 4)}
TABLE_UNITS = (12, 13, 14, 15, 16)
# float formats by component size: precision, emin, emax
FMT = {2: (11, -14, 15), 4: (24, -126, 127), 8: (53, -1022, 1023), 16: (64, -16382, 16383)}
INT_LIMIT = 2**31 - 1


def setup(common=None):
    import numpy as np
    import unyt
    from unyt import dimensions
    from unyt.unit_registry import UnitRegistry

    reg = UnitRegistry()
    reg.add("la", 1024.0, dimensions.length)
    reg.add("lc", 0.125, dimensions.length)
    # same scale as la, but held as a strongly typed NumPy scalar (as the bel family and the Planck units are)
    reg.add("lnd", np.float64(1024.0), dimensions.length)
    reg.add("tc", 1.0, dimensions.temperature, offset=-16.5)
    reg.add("tf", 0.5, dimensions.temperature, offset=-4.25)
    for i in TABLE_UNITS:
        SCALE[i] = Fraction(float(unyt.Unit(UNITS[i], registry=reg).base_value))
    assert type(reg.lut["l_pl"][0]) is np.float64 and type(reg.lut["dB"][0]) is np.float64, "table no longer holds NumPy scalars for l_pl/dB"
    _U.update(np=np, unyt=unyt, reg=reg, ua=unyt.unyt_array, uq=unyt.unyt_quantity, Unit=unyt.Unit)
    assert np.dtype("f16").itemsize == 16 and np.finfo("f16").nmant == 63, "long double is not x87 extended"


# ----------------------------------------------------------------- exact arithmetic
def rnd(x, cs):
    """Fraction (or 'inf'/'-inf'/'nan') rounded to the binary float with cs-byte components."""
    if not isinstance(x, Fraction):
        return x
    if x == 0:
        return x
    p, emin, emax = FMT[cs]
    s = -1 if x < 0 else 1
    a = -x if x < 0 else x
    e = a.numerator.bit_length() - a.denominator.bit_length()
    if Fraction(2) ** e > a:
        e -= 1
    elif Fraction(2) ** (e + 1) <= a:
        e += 1
    e = max(e, emin)
    q = Fraction(2) ** (e - p + 1)
    n = a / q
    fl = n.numerator // n.denominator
    rem = n - fl
    if rem > Fraction(1, 2) or (rem == Fraction(1, 2) and fl % 2 == 1):
        fl += 1
    r = fl * q
    if r >= Fraction(2) ** (emax + 1):
        return "inf" if s > 0 else "-inf"
    return s * r


def _sgn(v):
    return 1 if v == "inf" else -1


def x_add(a, b):
    if isinstance(a, Fraction) and isinstance(b, Fraction):
        return a + b
    if "nan" in (a, b):
        return "nan"
    if not isinstance(a, Fraction) and not isinstance(b, Fraction):
        return a if a == b else "nan"
    return a if not isinstance(a, Fraction) else b


def x_neg(a):
    if isinstance(a, Fraction):
        return -a
    return {"inf": "-inf", "-inf": "inf", "nan": "nan"}[a]


def x_key(a):
    if isinstance(a, Fraction):
        return (0, a)
    return (_sgn(a), 0)


def x_lt(a, b):
    if "nan" in (a, b):
        return False
    ka, kb = x_key(a), x_key(b)
    if ka[0] != kb[0]:
        return ka[0] < kb[0]
    return ka[1] < kb[1]


def x_max(a, b):
    if "nan" in (a, b):
        return "nan"
    return b if x_lt(a, b) else a


def x_min(a, b):
    if "nan" in (a, b):
        return "nan"
    return a if x_lt(a, b) else b


def exact_of(x):
    """numpy/python real scalar -> Fraction or 'inf'/'-inf'/'nan'."""
    np = _U["np"]
    if isinstance(x, (bool, np.bool_)):
        return Fraction(int(x))
    if isinstance(x, (int, np.integer)):
        return Fraction(int(x))
    if np.isnan(x):
        return "nan"
    if np.isinf(x):
        return "inf" if x > 0 else "-inf"
    n, d = x.as_integer_ratio()
    return Fraction(int(n), int(d))


def exact_c(x):
    """scalar -> (re, im) exact."""
    np = _U["np"]
    if isinstance(x, (complex, np.complexfloating)):
        return exact_of(x.real), exact_of(x.imag)
    return exact_of(x), Fraction(0)


def rat(v):
    if isinstance(v, Fraction) and abs(v.numerator) <= INT_LIMIT and v.denominator <= INT_LIMIT:
        return [v.numerator, v.denominator]
    return None


# ----------------------------------------------------------------- dtypes and values
def kind(d):
    return d[0]


def size(d):
    return int(d[1:])


def comp(d):
    if kind(d) in "iu":
        return max(2, size(d))
    return size(d) // 2 if kind(d) == "c" else size(d)


def want(d):
    """dtype the statement demands for converted data of dtype d."""
    if kind(d) in "iu":
        return "f" + str(max(2, size(d)))
    return d


def value_of(d, vc):
    """exact (re, im) of value class vc at dtype d."""
    np = _U["np"]
    if kind(d) in "iu":
        ii = np.iinfo(d)
        v = {"z0": 0, "s3": 3, "n5": -5, "e11": 2049, "e24": 2**24 + 1, "g24": 2**24 + 3, "e53": 2**53 + 1, "g53": 2**53 + 3,
             "max": int(ii.max), "min": int(ii.min), "nmax": -int(ii.max)}[vc]
        assert ii.min <= v <= ii.max
        return Fraction(v), Fraction(0)
    p = FMT[comp(d)][0]
    ulp1 = 1 + Fraction(1, 2 ** (p - 1))
    if kind(d) == "f":
        return {"h": Fraction(3, 2), "ng": Fraction(-11, 4), "ulp": ulp1}[vc], Fraction(0)
    return {"z": (Fraction(3, 2), Fraction(5, 2)), "zu": (ulp1, Fraction(-3))}[vc]


def _real_scalar(fr, cs):
    """exactly representable Fraction -> numpy real scalar with cs-byte components."""
    np = _U["np"]
    T = np.dtype("f" + str(cs)).type
    n, dd = fr.numerator, fr.denominator
    sh = dd.bit_length() - 1
    assert dd == 1 << sh
    # split the numerator so that every piece is exact in a double
    out = T(0)
    sign = -1 if n < 0 else 1
    n = abs(n)
    pos = 0
    while n:
        piece = n & ((1 << 48) - 1)
        out = out + np.ldexp(T(float(piece)), pos - sh)
        n >>= 48
        pos += 48
    return T(sign) * out


def make_array(d, vals):
    """vals: list of exact (re, im) -> ndarray of dtype d holding exactly these values."""
    np = _U["np"]
    if kind(d) in "iu":
        arr = np.array([int(v[0]) for v in vals], dtype=d)
    elif kind(d) == "f":
        arr = np.zeros(len(vals), dtype=d)
        for j, v in enumerate(vals):
            arr[j] = _real_scalar(v[0], comp(d))
    else:
        arr = np.zeros(len(vals), dtype=d)
        for j, v in enumerate(vals):
            arr.real[j] = _real_scalar(v[0], comp(d))
            arr.imag[j] = _real_scalar(v[1], comp(d))
    for j, v in enumerate(vals):
        got = exact_c(arr[j])
        assert got == (v[0], v[1]), ("value not exact", d, v, got)
    return arr


def make_obj(d, vals, shape_scalar, unit):
    arr = make_array(d, vals)
    if shape_scalar:
        return _U["uq"](arr[0], unit, registry=_U["reg"])
    return _U["ua"](arr, unit, registry=_U["reg"])


def dtype_of(x):
    """-> (kind, size, py)"""
    np = _U["np"]
    if isinstance(x, np.ndarray) or isinstance(x, np.generic):
        dt = x.dtype
        return dt.kind, int(dt.itemsize), False
    if isinstance(x, bool):
        return "b", 1, True
    if isinstance(x, float):
        return "f", 8, True
    if isinstance(x, complex):
        return "c", 16, True
    if isinstance(x, int):
        return "i", 8, True
    return "?", 0, True


def elements(x):
    np = _U["np"]
    if isinstance(x, np.ndarray):
        return [e for e in np.asarray(x).reshape(-1)]
    return [x]


def run(f):
    """-> (result or None, exception name or '', any RuntimeWarning, unyt LARGE_INPUT warning)"""
    with warnings.catch_warnings(record=True) as w:
        warnings.simplefilter("always")
        try:
            r = f()
            exc = ""
        except Exception as e:  # noqa: BLE001 - the observation is the exception
            r = None
            exc = type(e).__name__
    wr = any(issubclass(x.category, RuntimeWarning) for x in w)
    wu = any(issubclass(x.category, RuntimeWarning) and str(x.message).startswith("Overflow encountered while converting") for x in w)
    return r, exc, wr, wu


def eqx(a, b):
    """equality of exact values (nan equals nan: same class of outcome)."""
    return a == b


def match(obs, want_v, cs, is_complex):
    """observed (re, im) == exact (re, im) rounded to a float type with cs-byte components."""
    if cs not in FMT:
        return False
    wr, wi = rnd(want_v[0], cs), rnd(want_v[1], cs)
    if is_complex:
        return eqx(obs[0], wr) and eqx(obs[1], wi)
    return want_v[1] == 0 and obs[1] == 0 and eqx(obs[0], wr)


def ulp(x, cs):
    p, emin, _ = FMT[cs]
    a = abs(x)
    if a == 0:
        return Fraction(2) ** (emin - p + 1)
    e = a.numerator.bit_length() - a.denominator.bit_length()
    if Fraction(2) ** e > a:
        e -= 1
    elif Fraction(2) ** (e + 1) <= a:
        e += 1
    return Fraction(2) ** (max(e, emin) - p + 1)


def near1(ob, ex, cs, ulps=4, extra=0):
    """float-vs-rational matching on non-dyadic factors: `ulps` ulp of the type + 2^-50 relative (+ extra)."""
    if ob == "nan" or not isinstance(ex, Fraction):
        return False
    tol = Fraction(ulps) * ulp(ex, cs) + abs(ex) / 2**50 + extra
    if not isinstance(ob, Fraction):
        big = rnd(abs(ex) + tol, cs)
        return not isinstance(big, Fraction) and (ob == "inf") == (ex > 0)
    return abs(ob - ex) <= tol


def near(obs, want_v, cs, is_complex, ulps=4, extra=0):
    if cs not in FMT:
        return False
    if is_complex:
        return near1(obs[0], want_v[0], cs, ulps, extra) and near1(obs[1], want_v[1], cs, ulps)
    return want_v[1] == 0 and obs[1] == 0 and near1(obs[0], want_v[0], cs, ulps, extra)


def conv_ulps(d, cs):
    """how close a converted value must be to the exact one on non-dyadic factors: integer data are scaled in
    double precision and rounded once to the float of their width (half an ulp of it; 2 ulp when that float is
    the double itself: factor and product are each rounded); float data are scaled in their own precision."""
    if kind(d) in "iu":
        return Fraction(1, 2) if cs < 8 else 2
    return 4


def same_near(a, b, cs):
    if a == b:
        return True
    for x, y in zip(a, b):
        if x == y:
            continue
        if not (isinstance(x, Fraction) and isinstance(y, Fraction)) or cs not in FMT:
            return False
        m = max(abs(x), abs(y))
        if abs(x - y) > 4 * ulp(m, cs) + m / 2**50:
            return False
    return True


NOEL = {"has": False, "re": [0, 1], "im": [0, 1], "mR": False, "mW": False, "mS": False, "mP": False, "mT": False, "mX": False, "b": False}


def elem_record(obs):
    e = dict(NOEL)
    r0, r1 = rat(obs[0]), rat(obs[1])
    if r0 is not None and r1 is not None:
        e.update(has=True, re=r0, im=r1)
    return e


# ----------------------------------------------------------------- conversion routes
def call_route(route, x, to_unit):
    if route == "to":
        return x.to(to_unit)
    if route == "in_units":
        return x.in_units(to_unit)
    if route == "to_equivalent":
        return x.to_equivalent(to_unit, "spectral")
    if route == "to_value":
        return x.to_value(to_unit)
    if route == "in_base":
        return x.in_base("mks")
    if route == "in_mks":
        return x.in_mks()
    if route == "in_cgs":
        return x.in_cgs()
    if route == "convert_to_cgs":
        x.convert_to_cgs()
        return x
    if route == "convert_to_units":
        x.convert_to_units(to_unit)
        return x
    if route == "convert_to_equivalent":
        x.convert_to_equivalent(to_unit, "spectral")
        return x
    if route == "convert_to_base":
        x.convert_to_base("mks")
        return x
    if route == "convert_to_mks":
        x.convert_to_mks()
        return x
    raise ValueError(route)


def observe_route(route, d, vals, scalar, frm, to, k, real=False, sh=(0, 1)):
    x = make_obj(d, vals, scalar, UNITS[frm])
    r, exc, wr, wu = run(lambda: call_route(route, x, UNITS[to]))
    if exc:
        return {"raise": True, "exc": exc, "kind": "", "size": 0, "py": False, "warnR": wr, "warnU": wu, "els": [], "unit": str(x.units)}, None
    kd, sz, py = dtype_of(r)
    obs = [exact_c(e) for e in elements(r)]
    cs_r = 8 if py else (sz // 2 if kd == "c" else sz)
    cs_w = comp(d)
    f = SCALE[frm] / SCALE[to]
    # what the conversion adds after scaling (units with an offset)
    shift = OFFSET.get(to, Fraction(0)) - f * OFFSET.get(frm, Fraction(0))
    assert real or (f == Fraction(2) ** k and shift == Fraction(sh[0], sh[1]))
    if real:
        # with an offset the shift is rounded to the type too (one more ulp of it), and the library's shift
        # (ratio * old offset - new offset, in double precision) carries the cancellation error of its terms
        # and the scaled product is rounded to the type before the shift is subtracted (one more ulp of the larger
        # of product and result) - the two readings of "rounded to that float type" the dyadic family tells apart
        def mt(ob, ex, cs, isc, prod=0):
            extra = 0
            if shift and cs in FMT:
                extra = ulp(shift, cs) + Fraction(500, 2**48) + ulp(max(abs(prod), abs(ex[0])), cs)
            if near(ob, ex, cs, isc, conv_ulps(d, cs), extra):
                return True
            # the product legitimately overflows the type before the shift brings it back (65535 K -> degC in float16):
            # the second reading gives inf, as on the dyadic pairs (flag mP there)
            pr = rnd(prod, cs) if (shift and cs in FMT) else prod
            return bool(shift) and not isinstance(pr, Fraction) and ob[0] == pr and (not isc or near1(ob[1], ex[1], cs, conv_ulps(d, cs)))
    else:
        def mt(ob, ex, cs, isc, prod=0):
            return match(ob, ex, cs, isc)
    els = []
    for ob, v in zip(obs, vals):
        ex = (v[0] * f + shift, v[1] * f)
        e = dict(NOEL) if real else elem_record(ob)
        # identity conversions only: the input came back exactly (whatever the dtype)
        e["mX"] = frm == to and ob == v
        if shift and not real and kd in "fc" and cs_r in FMT:
            # second reading of "rounded to that float type": product rounded, then shifted in that type
            # (in the result type, or in Want(d) when a scalar came back as a Python number)
            for cs in {cs_r, cs_w}:
                st = (rnd(x_add(rnd(v[0] * f, cs), rnd(shift, cs)), cs), rnd(v[1] * f, cs))
                e["mP"] = e["mP"] or match(ob, st, cs_r, kd == "c")
        e["mR"] = kd in "fc" and mt(ob, ex, cs_r, kd == "c", v[0] * f)
        if kind(d) == "c":
            e["mW"] = kd == "c" and mt(ob, ex, cs_w, True, v[0] * f)
        else:
            e["mW"] = kd in "fc" and mt(ob, ex, cs_w, False, v[0] * f)
        tr = Fraction(math.floor(ex[0])), Fraction(math.trunc(ex[0]))
        e["mT"] = ex[0].denominator != 1 and ob[0] in tr
        els.append(e)
    unit = str(getattr(r, "units", ""))
    return {"raise": False, "exc": "", "kind": kd, "size": sz, "py": py, "warnR": wr, "warnU": wu, "els": els, "unit": unit}, (obs, min(cs_r, cs_w))


def observe_conv(c):
    d = c["d"]
    scalar = c["shape"] == "q"
    vals = [value_of(d, vc) for vc in c["vcs"]]
    real = bool(c.get("real"))
    sh = c.get("sh", (0, 1))
    oc, rc = observe_route(c["route"], d, vals, scalar, c["from"], c["to"], c["k"], real, sh)
    oi, ri = observe_route(c["twin"], d, vals, scalar, c["from"], c["to"], c["k"], real, sh)
    same = []
    if rc is not None and ri is not None:
        vc_, vi_ = rc[0], ri[0]
        if real:
            same = [same_near(a, b, min(rc[1], ri[1])) for a, b in zip(vc_, vi_)]
        else:
            same = [a == b for a, b in zip(vc_, vi_)]
        if len(vc_) != len(vi_):
            same.append(False)
    return {"c": oc, "i": oi, "same": same}


# ----------------------------------------------------------------- mixed-unit binary ufuncs
def observe_ufunc(c):
    np = _U["np"]
    d0, d1, op, out = c["d0"], c["d1"], c["op"], c["out"]
    scalar = c["shape"] == "qq"
    v0 = [value_of(d0, p[0]) for p in c["els"]]
    v1 = [value_of(d1, p[1]) for p in c["els"]]
    a = make_obj(d0, v0, scalar, UNITS[c["u0"]])
    b = make_obj(d1, v1, scalar, UNITS[c["u1"]])
    uf = getattr(np, op)
    if out == "none":
        call = lambda: uf(a, b)  # noqa: E731
    elif out == "inplace":
        def call():
            uf(a, b, out=a)
            return a
    else:
        buf = _U["ua"](np.zeros(() if scalar else len(v0), dtype=out), "s", registry=_U["reg"])

        def call():
            uf(a, b, out=buf)
            return buf
    r, exc, wr, wu = run(call)
    if exc:
        return {"raise": True, "exc": exc, "kind": "", "size": 0, "py": False, "warnR": wr, "warnU": wu, "els": []}
    kd, sz, py = dtype_of(r)
    obs = [exact_c(e) for e in elements(r)]
    f = Fraction(2) ** c["k"]
    cs_r = sz // 2 if kd == "c" else sz
    # the type in which NumPy evaluates (operand 0, operand 1 converted as the statement demands)
    d0eff = ("f" + str(size(d0))) if (out == "inplace" and kind(d0) in "iu" and size(d0) > 1) else d0
    try:
        mid = np.result_type(np.dtype(d0eff), np.dtype(want(d1)))
        cs_mid = mid.itemsize // 2 if mid.kind == "c" else mid.itemsize
    except TypeError:
        cs_mid = cs_r
    if cs_mid not in FMT:
        cs_mid = cs_r
    els = []
    for ob, a0, b0 in zip(obs, v0, v1):
        b1 = (b0[0] * f, b0[1] * f)
        e = elem_record(ob)
        if kind(d0eff) in "f" and d0eff != d0:
            a0 = (rnd(a0[0], size(d0eff)), a0[1])
        # statement pipeline: operand 1 converted and rounded to its own float type, then IEEE arithmetic
        x1 = (rnd(b1[0], comp(d1)), rnd(b1[1], comp(d1)))
        x0 = (rnd(a0[0], cs_mid), rnd(a0[1], cs_mid))
        if op in ("add", "subtract", "maximum", "minimum"):
            if op == "add":
                ex = (x_add(a0[0], b1[0]), x_add(a0[1], b1[1]))
                pp = (x_add(x0[0], x1[0]), x_add(x0[1], x1[1]))
            elif op == "subtract":
                ex = (x_add(a0[0], x_neg(b1[0])), x_add(a0[1], x_neg(b1[1])))
                pp = (x_add(x0[0], x_neg(x1[0])), x_add(x0[1], x_neg(x1[1])))
            elif op == "maximum":
                ex = (x_max(a0[0], b1[0]), Fraction(0))
                pp = (x_max(x0[0], x1[0]), Fraction(0))
            else:
                ex = (x_min(a0[0], b1[0]), Fraction(0))
                pp = (x_min(x0[0], x1[0]), Fraction(0))
            if kd in "fc" and cs_r in FMT:
                e["mS"] = match(ob, ex, cs_r, kd == "c")
                ppm = (rnd(pp[0], cs_mid), rnd(pp[1], cs_mid))
                e["mP"] = match(ob, ppm, cs_r, kd == "c")
        else:
            def cmp(p, q):
                if op == "less":
                    return x_lt(p[0], q[0])
                if op == "greater":
                    return x_lt(q[0], p[0])
                if op == "less_equal":
                    return not x_lt(q[0], p[0]) and "nan" not in (p[0], q[0])
                if op == "greater_equal":
                    return not x_lt(p[0], q[0]) and "nan" not in (p[0], q[0])
                eq = p[0] == q[0] and p[1] == q[1] and "nan" not in (p[0], q[0], p[1], q[1])
                return eq if op == "equal" else not eq
            if kd == "b":
                bv = bool(ob[0] != 0)
                e["b"] = bv
                e["mS"] = bv == cmp(a0, b1)
                e["mP"] = bv == cmp(x0, x1)
        els.append(e)
    return {"raise": False, "exc": "", "kind": kd, "size": sz, "py": py, "warnR": wr, "warnU": wu, "els": els}



# ----------------------------------------------------------------- combining data elsewhere (comb family)
def _x_close(a, b):
    """np.isclose with default tolerances on exact values."""
    if "nan" in (a, b):
        return False
    if not isinstance(a, Fraction) or not isinstance(b, Fraction):
        return a == b
    return abs(a - b) <= Fraction(1, 10**8) + Fraction(1, 10**5) * abs(b)


def _binop(op, p, q):
    if op == "add":
        return (x_add(p[0], q[0]), x_add(p[1], q[1]))
    if op == "subtract":
        return (x_add(p[0], x_neg(q[0])), x_add(p[1], x_neg(q[1])))
    if op == "maximum":
        return (x_max(p[0], q[0]), Fraction(0))
    if op == "minimum":
        return (x_min(p[0], q[0]), Fraction(0))
    raise ValueError(op)


def _cmpop(op, p, q):
    if op == "less":
        return x_lt(p[0], q[0])
    if op == "greater":
        return x_lt(q[0], p[0])
    if op == "less_equal":
        return not x_lt(q[0], p[0]) and "nan" not in (p[0], q[0])
    if op == "greater_equal":
        return not x_lt(p[0], q[0]) and "nan" not in (p[0], q[0])
    eq = p[0] == q[0] and p[1] == q[1] and "nan" not in (p[0], q[0], p[1], q[1])
    return eq if op == "equal" else not eq


def _mul(v, f):
    return tuple(x * f if isinstance(x, Fraction) else x for x in v)


def _rnd2(v, cs):
    return (rnd(v[0], cs), rnd(v[1], cs))


def _fcomp(d):
    """component size of d once it is held as a float by NumPy promotion."""
    if kind(d) in "iu":
        return {1: 2, 2: 4}.get(size(d), 8)
    return comp(d)


def observe_comb(c):
    np = _U["np"]
    form, op, da, de = c["form"], c["op"], c["d0"], c["d1"]
    uf, us, ua = c["uf"], c["us"], c["ua"]
    eu = (us, us) if form in ("setitem_arr", "isclose", "allclose", "clip", "where", "concatenate", "stack", "append", "insert") else (uf, us)
    base_e = "s3" if kind(de) in "iu" else ("h" if kind(de) == "f" else "z")
    base_a = "s3" if kind(da) in "iu" else ("h" if kind(da) == "f" else "z")
    vb = [value_of(de, base_e), value_of(de, c["vc1"])]
    # the listed / assigned / compared elements, exactly, in a unit
    def b_in(j, to):
        return _mul(vb[j], SCALE[eu[j]] / SCALE[to])
    va = []
    for j, cls in enumerate(c["va"]):
        if cls == "tr":
            va.append((Fraction(math.floor(b_in(j, ua)[0])), Fraction(0)))
        else:
            va.append(value_of(da, base_a))
    reg = _U["reg"]
    mk_q = lambda d, v, u: _U["uq"](make_array(d, [v])[0], UNITS[u], registry=reg)  # noqa: E731
    mk_a = lambda d, vs, u: _U["ua"](make_array(d, vs), UNITS[u], registry=reg)  # noqa: E731
    a = mk_a(da, va, ua)
    q = [mk_q(de, vb[0], eu[0]), mk_q(de, vb[1], eu[1])]
    if form == "ctor_list":
        call = lambda: _U["ua"](q, registry=reg)  # noqa: E731
    elif form == "ctor_tuple":
        call = lambda: _U["ua"](tuple(q), registry=reg)  # noqa: E731
    elif form == "ctor_arrays":
        call = lambda: _U["ua"]([mk_a(de, [vb[0]], eu[0]), mk_a(de, [vb[1]], eu[1])], registry=reg)  # noqa: E731
    elif form == "ufunc_rlist":
        call = lambda: getattr(np, op)(a, q)  # noqa: E731
    elif form == "ufunc_llist":
        call = lambda: getattr(np, op)(q, a)  # noqa: E731
    elif form == "setitem_q":
        def call():
            a[1] = q[1]
            return a
    elif form == "setitem_list":
        def call():
            a[0:2] = q
            return a
    elif form == "setitem_arr":
        def call():
            a[:] = mk_a(de, vb, us)
            return a
    elif form == "isclose":
        call = lambda: np.isclose(a, mk_a(de, vb, us))  # noqa: E731
    elif form == "allclose":
        call = lambda: np.allclose(a, mk_a(de, vb, us))  # noqa: E731
    elif form == "clip":
        call = lambda: np.clip(a, q[0], q[1])  # noqa: E731
    elif form == "where":
        call = lambda: np.where([True, False], a, mk_a(de, vb, us))  # noqa: E731
    elif form == "concatenate":
        call = lambda: np.concatenate([a, mk_a(de, vb, us)])  # noqa: E731
    elif form == "stack":
        call = lambda: np.stack([a, mk_a(de, vb, us)])  # noqa: E731
    elif form == "append":
        call = lambda: np.append(a, mk_a(de, vb, us))  # noqa: E731
    elif form == "insert":
        call = lambda: np.insert(a, 0, q[1])  # noqa: E731
    else:
        raise ValueError(form)
    r, exc, wr, wu = run(call)
    if exc:
        return {"raise": True, "exc": exc, "kind": "", "size": 0, "py": False, "warnR": wr, "warnU": wu, "els": []}
    kd, sz, py = dtype_of(r)
    obs = [exact_c(e) for e in elements(r)]
    cs_r = sz // 2 if kd == "c" else sz
    cs_e = comp(de)
    els = []
    if form in ("clip", "where", "concatenate", "stack", "append", "insert"):
        # a function that refuses mixed units returned: every element must be an exactly converted input
        ru = str(getattr(r, "units", ""))
        rsc = {v: SCALE[k] for k, v in UNITS.items()}.get(ru)
        for ob in obs:
            e = elem_record(ob)
            if rsc is not None and kd in "fc" and cs_r in FMT:
                cands = [_mul(va[j], SCALE[ua] / rsc) for j in range(2)] + [_mul(vb[j], SCALE[us] / rsc) for j in range(2)]
                e["mS"] = any(match(ob, x, cs_r, kd == "c") for x in cands)
                # ... possibly rounded to the float type of its own data first
                e["mP"] = any(match(ob, _rnd2(x, cs0), cs_r, kd == "c") for x in cands for cs0 in (comp(da), comp(de)))
            els.append(e)
        return {"raise": False, "exc": "", "kind": kd, "size": sz, "py": py, "warnR": wr, "warnU": wu, "els": els}
    # stage 1 of the list forms: every element converted to the first unit, rounded to the elements' float type
    listy = form in ("ctor_list", "ctor_tuple", "ctor_arrays", "ufunc_rlist", "ufunc_llist", "setitem_list")
    def staged_b(j, to):
        if listy:
            x = _rnd2(b_in(j, uf), cs_e)
            if to != uf:
                x = _rnd2(_mul(x, SCALE[uf] / SCALE[to]), cs_e)
            return x
        return _rnd2(b_in(j, to), cs_e)
    if form == "allclose":
        ex = all(_x_close(va[j][0], b_in(j, ua)[0]) for j in range(2))
        st = all(_x_close(va[j][0], staged_b(j, ua)[0]) for j in range(2))
        e = elem_record(obs[0])
        if kd == "b":
            bv = bool(obs[0][0] != 0)
            e.update(b=bv, mS=bv == ex, mP=bv == st)
        return {"raise": False, "exc": "", "kind": kd, "size": sz, "py": py, "warnR": wr, "warnU": wu, "els": [e]}
    try:
        mid = np.result_type(np.dtype(da), np.dtype(want(de)))
        cs_mid = mid.itemsize // 2 if mid.kind == "c" else mid.itemsize
    except TypeError:
        cs_mid = cs_r
    if cs_mid not in FMT:
        cs_mid = cs_r
    for j, ob in enumerate(obs):
        jj = min(j, 1)
        e = elem_record(ob)
        if form in ("ctor_list", "ctor_tuple", "ctor_arrays"):
            ex, st = b_in(jj, uf), staged_b(jj, uf)
        elif form == "ufunc_rlist":
            pa, pb, sa, sb = va[jj], b_in(jj, ua), _rnd2(va[jj], cs_mid), staged_b(jj, ua)
        elif form == "ufunc_llist":
            f = SCALE[ua] / SCALE[uf]
            pa, pb = b_in(jj, uf), _mul(va[jj], f)
            sa = staged_b(jj, uf)
            sb = _rnd2(_mul(va[jj], f), comp(da)) if ua != uf else _rnd2(va[jj], cs_mid)
        elif form.startswith("setitem"):
            if form == "setitem_q" and jj == 0:
                ex = st = va[0]
            else:
                ex, st = b_in(jj, ua), staged_b(jj, ua)
        elif form == "isclose":
            pa, pb, sa, sb = va[jj], b_in(jj, ua), va[jj], staged_b(jj, ua)
        if form in ("ufunc_rlist", "ufunc_llist"):
            if op in ("add", "subtract", "maximum", "minimum"):
                ex = _binop(op, pa, pb)
                st = _rnd2(_binop(op, _rnd2(sa, cs_mid), sb), cs_mid)
            else:
                if kd == "b":
                    bv = bool(ob[0] != 0)
                    e.update(b=bv, mS=bv == _cmpop(op, pa, pb), mP=bv == _cmpop(op, _rnd2(sa, cs_mid), sb))
                els.append(e)
                continue
        if form == "isclose":
            if kd == "b":
                bv = bool(ob[0] != 0)
                e.update(b=bv, mS=bv == _x_close(pa[0], pb[0]), mP=bv == _x_close(sa[0], sb[0]))
            els.append(e)
            continue
        if kd in "fc" and cs_r in FMT:
            e["mS"] = match(ob, ex, cs_r, kd == "c")
            e["mP"] = match(ob, st, cs_r, kd == "c")
        elif kd in "iu":
            e["mS"] = ob == ex
            e["mP"] = ob == st and isinstance(st[0], Fraction) and st[0].denominator == 1
        tr = (Fraction(math.floor(ex[0])), Fraction(math.trunc(ex[0]))) if isinstance(ex[0], Fraction) else ()
        e["mT"] = bool(tr) and ex[0].denominator != 1 and ob[0] in tr
        els.append(e)
    return {"raise": False, "exc": "", "kind": kd, "size": sz, "py": py, "warnR": wr, "warnU": wu, "els": els}


# ----------------------------------------------------------------- mixed-unit ufuncs on real units
def observe_ureal(c):
    np = _U["np"]
    d0, d1, op = c["d0"], c["d1"], c["op"]
    v0 = [value_of(d0, p[0]) for p in c["els"]]
    v1 = [value_of(d1, p[1]) for p in c["els"]]
    a = make_obj(d0, v0, False, UNITS[c["u0"]])
    b = make_obj(d1, v1, False, UNITS[c["u1"]])
    r, exc, wr, wu = run(lambda: getattr(np, op)(a, b))
    if exc:
        return {"raise": True, "exc": exc, "kind": "", "size": 0, "py": False, "warnR": wr, "warnU": wu, "els": []}
    kd, sz, py = dtype_of(r)
    obs = [exact_c(e) for e in elements(r)]
    cs_r = sz // 2 if kd == "c" else sz
    f = SCALE[c["u1"]] / SCALE[c["u0"]]
    cs1 = comp(d1)
    u1 = Fraction(1, 2) if (kind(d1) in "iu" and size(d1) < 8) else Fraction(2)
    els = []
    for ob, a0, b0 in zip(obs, v0, v1):
        e = dict(NOEL)
        x1 = b0[0] * f
        t1 = u1 * ulp(x1, cs1) + abs(x1) / 2**50
        # the statement's converted operand: x1 rounded to the float of operand 1's item size (may be inf)
        x1r = rnd(x1, cs1)
        legit = [x1] + ([x1r] if not isinstance(x1r, Fraction) else [])
        if op in ("add", "subtract", "maximum", "minimum"):
            ok = False
            for x in legit:
                ex = _binop(op, a0, (x, Fraction(0)))[0]
                if isinstance(ex, Fraction):
                    ok = ok or (kd == "f" and cs_r in FMT and ob[1] == 0 and near1(ob[0], ex, cs_r, Fraction(1, 2), t1))
                else:
                    ok = ok or (kd == "f" and ob[0] == ex)
            e["mS"] = ok
        elif kd == "b":
            bv = bool(ob[0] != 0)
            e["b"] = bv
            ok = False
            for x in legit:
                ok = ok or bv == _cmpop(op, a0, (x, Fraction(0)))
            if isinstance(a0[0], Fraction) and abs(a0[0] - x1) <= t1 + Fraction(1, 2) * ulp(a0[0], max(cs1, 4)):
                ok = True  # too close to call
            e["mS"] = ok
        els.append(e)
    return {"raise": False, "exc": "", "kind": kd, "size": sz, "py": py, "warnR": wr, "warnU": wu, "els": els}


def observe(case):
    if case["fam"] == "conv":
        o = observe_conv(case)
    elif case["fam"] == "comb":
        o = observe_comb(case)
    elif case["fam"] == "ureal":
        o = observe_ureal(case)
    else:
        o = observe_ufunc(case)
    return {"c": case, "o": o}
