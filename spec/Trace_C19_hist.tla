---------------------------- MODULE Trace_C19_hist ----------------------------
(* Trace validation for C19, histories of helper calls over reused operand    *)
(* objects: every record is a pool, a history of calls and, per call, the     *)
(* observed outcome and a snapshot of every pool object taken after it.  TLC  *)
(* evaluates on every step (1) Helpers!P for the quantities the operands are  *)
(* supposed to denote - the same predicate whatever was called before - and   *)
(* (2) the purity clause on the snapshot; and compares with T (pure helpers). *)
EXTENDS HelpersHist, IOUtils
Obs == JsonDeserialize(IOEnv.OBS)
VARIABLE i
TraceInit == i = 1
Describe(r, j, clause, what, role) ==
  LET st == r.steps[j]  cc == StepCase(r.pool, st) IN
  [i |-> i, step |-> j, clause |-> clause, changed |-> what, role |-> role, helper |-> st.helper,
   actual_kind |-> cc.ka, desired_kind |-> cc.kd, actual_dtype |-> r.pool[st.a].dt, desired_dtype |-> r.pool[st.d].dt,
   same_object |-> st.a = st.d, reexpressed |-> st.rea # "" \/ st.red # "",
   first_call |-> j = 1, observed |-> r.obs[j].o, model |-> T(cc)]
Step(r) ==
  /\ Len(r.obs) = Len(r.steps)
  /\ \A j \in DOMAIN r.steps :
       LET st == r.steps[j]
           cc == StepCase(r.pool, st)
           o == r.obs[j].o
           sn == r.obs[j].snap
           p == P(cc, o)
           pv == [k \in DOMAIN r.pool |-> IF j = 1 THEN StateOf(r.pool[k]) ELSE r.obs[j - 1].snap[k]]
           dirty == {k \in DOMAIN r.pool : ChangedFrom(pv[k], sn[k]) # ""} IN
       /\ (p # "" => PrintT(ToJson([tag |-> "P-FAIL"] @@ Describe(r, j, p, "", ""))))
       /\ \A k \in dirty : PrintT(ToJson([tag |-> "P-FAIL"] @@ Describe(r, j, "operand-changed-by-a-call", ChangedFrom(pv[k], sn[k]), Role(st, k))))
       /\ (p = "" /\ dirty = {} /\ ~TOk(cc, o) => PrintT(ToJson([tag |-> "T-FAIL"] @@ Describe(r, j, "", "", ""))))
TraceNext == i <= Len(Obs) /\ Step(Obs[i]) /\ i' = i + 1
=============================================================================
