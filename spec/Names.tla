------------------------------- MODULE Names -------------------------------
(* C14 - every documented unit name resolves to exactly one, correctly      *)
(* scaled unit.                                                              *)
(*                                                                           *)
(* Two layers over tables regenerated from the working tree (JSON, strings   *)
(* ASCII-escaped; TLC string operators Len, \o, SubSeq):                     *)
(*                                                                           *)
(*  property side   an independent reading relation Readings(n): every way   *)
(*                  of reading the string n as [prefix] + spelling of a      *)
(*                  table unit, with the SI prefix exponents stated here,    *)
(*                  and the predicates C14_* that say what the property says *)
(*                  about an observed resolution;                            *)
(*  transition side Resolve(n): the pipeline of the code, same branch order: *)
(*                  parse_unyt_expr ("" -> "1", % -> percent, degree sign -> *)
(*                  deg, textually), _auto_positive_symbol (alias table),    *)
(*                  _lookup_unit_symbol (table first), _split_prefix (one    *)
(*                  attempt: first character, or "da"; remainder must be a   *)
(*                  prefixable table KEY), derived-row write-back and the      *)
(*                  per-registry string memo (stateful part, NamesReg below).*)
(*                                                                           *)
(* A denotation is <<i, e>>: table symbol number i scaled by 10^e.  The      *)
(* harness projects an observed Unit onto the set of all <<i, e>> it equals  *)
(* (dimension, offset, scale within 2 ulp of 10^e x the observed canonical   *)
(* unit), so comparisons are never by spelling.                              *)
EXTENDS Integers, Sequences, FiniteSets, TLC, Json, IOUtils

D == JsonDeserialize(IOEnv.NAMES_DATA)

\* ------------------------------------------------------------------ tables
SymSeq == D.syms                  \* <<[s |-> symbol, pfx |-> prefixable]>>  (default_unit_symbol_lut, table order)
AltSeq == D.alts                  \* <<[a |-> listed alternative, si |-> symbol number]>> (default_unit_name_alternatives)
PrefSeq == D.prefixes             \* <<[p |-> symbol, w |-> word form, e |-> decimal exponent of the tree's value (99: not a power of ten)]>>
NameSeq == D.names                \* <<[n |-> string, gen, us, top, core]>>  every base string cases are built from
InvAlt == D.inv                   \* generated name -> canonical name (inv_name_alternatives): defines the attribute values
TokAlt == D.tok                   \* the alias table the tokenizer consults (token -> canonical)
TitleTbl == D.title               \* string -> Python str.title() of it (a pure string function; TLC has no character access)
TTailTbl == D.ttail               \* spelling -> its form inside a Title-cased compound: ("x" + s).title() without the "x"
DegSign == D.deg
PctSign == D.pct
GlobalNames == {D.globals[i] : i \in DOMAIN D.globals}

SymIdx == DOMAIN SymSeq
PrefIdx == DOMAIN PrefSeq
NameIdx == DOMAIN NameSeq
SymSet == {SymSeq[i].s : i \in SymIdx}
SymNo == [s \in SymSet |-> CHOOSE i \in SymIdx : SymSeq[i].s = s]
Prefixable(i) == SymSeq[i].pfx
PrefSymSet == {PrefSeq[j].p : j \in PrefIdx}
PrefNo == [p \in PrefSymSet |-> CHOOSE j \in PrefIdx : PrefSeq[j].p = p]
InvDom == DOMAIN InvAlt
TokDom == DOMAIN TokAlt
TitleDom == DOMAIN TitleTbl
Title(x) == IF x \in TitleDom THEN TitleTbl[x] ELSE x
TTailDom == DOMAIN TTailTbl
TTail(x) == IF x \in TTailDom THEN TTailTbl[x] ELSE x
NameSet == {NameSeq[b].n : b \in NameIdx}
NameNo == [x \in NameSet |-> CHOOSE b \in NameIdx : NameSeq[b].n = x]

\* ------------------------------------------------------------- string tools
Splits(n) == {<<SubSeq(n, 1, k), SubSeq(n, k + 1, Len(n))>> : k \in 0..Len(n)}
RECURSIVE Repl(_, _, _, _)
Repl(s, k, ch, by) == IF k > Len(s) THEN ""
                      ELSE (IF SubSeq(s, k, k) = ch THEN by ELSE SubSeq(s, k, k)) \o Repl(s, k + 1, ch, by)

\* =================================================================== cases
\* a case is a string built from a prefix part and a base string:
\*   pk = "none" | "sym" | "word" | "title" (prefix symbol / word form / Title-case word form), pi = prefix row (0 for none)
\*   b  = number of the base string in NameSeq
PrePart(pk, pi) == CASE pk = "none" -> ""
                     [] pk = "sym" -> PrefSeq[pi].p
                     [] pk = "word" -> PrefSeq[pi].w
                     [] pk = "title" -> Title(PrefSeq[pi].w)
CaseStr(c) == PrePart(c.pk, c.pi) \o NameSeq[c.b].n

\* ========================================================== PROPERTY SIDE
\* SI prefixes, stated independently of the tree: word form -> decimal exponent
\* ("mili" is the historical misspelling the table still carries for milli)
SIExp == [quetta |-> 30, ronna |-> 27, ronto |-> -27, quecto |-> -30, yotta |-> 24, zetta |-> 21, exa |-> 18, peta |-> 15, tera |-> 12, giga |-> 9, mega |-> 6,
          kilo |-> 3, hecto |-> 2, deca |-> 1, deci |-> -1, centi |-> -2, milli |-> -3, mili |-> -3,
          micro |-> -6, nano |-> -9, pico |-> -12, femto |-> -15, atto |-> -18, zepto |-> -21, yocto |-> -24]
\* SI symbol -> word form for the ASCII symbols; any other symbol (the two micro signs) must be "micro"
SISym == [Q |-> "quetta", R |-> "ronna", r |-> "ronto", q |-> "quecto", Y |-> "yotta", Z |-> "zetta", E |-> "exa", P |-> "peta", T |-> "tera", G |-> "giga", M |-> "mega",
          k |-> "kilo", h |-> "hecto", da |-> "deca", d |-> "deci", c |-> "centi", m |-> "milli",
          u |-> "micro", n |-> "nano", p |-> "pico", f |-> "femto", a |-> "atto", z |-> "zepto", y |-> "yocto"]
PrefixRowKnown(j) == /\ PrefSeq[j].w \in DOMAIN SIExp
                     /\ IF PrefSeq[j].p \in DOMAIN SISym THEN SIExp[SISym[PrefSeq[j].p]] = SIExp[PrefSeq[j].w]
                        ELSE PrefSeq[j].w = "micro"
\* 98: not an SI prefix word - matches no observation
PExp(j) == IF j = 0 THEN 0 ELSE IF PrefSeq[j].w \in DOMAIN SIExp THEN SIExp[PrefSeq[j].w] ELSE 98

\* spellings of table unit i: the symbol, its listed alternatives, and the Title-case variant of the word-like ones (>= 4 characters)
Listed(i) == {SymSeq[i].s} \cup {AltSeq[x].a : x \in {y \in DOMAIN AltSeq : AltSeq[y].si = i}}
\* (and the form the word-like ones take inside a Title-cased compound: "Kilodegree_Kelvin", "Microohm")
BaseSpellF == [i \in SymIdx |-> Listed(i) \cup {Title(x) : x \in {y \in Listed(i) : Len(y) >= 4}}
                                          \cup {TTail(x) : x \in {y \in Listed(i) : Len(y) >= 3}}]
AllBase == UNION {BaseSpellF[i] : i \in SymIdx}
SymsOfF == [x \in AllBase |-> {i \in SymIdx : x \in BaseSpellF[i]}]
SymsOf(x) == IF x \in AllBase THEN SymsOfF[x] ELSE {}
ListedAll == UNION {Listed(i) : i \in SymIdx}
AltsOfPrefixable == {AltSeq[x].a : x \in {y \in DOMAIN AltSeq : Prefixable(AltSeq[y].si)}}
PrefixableSyms == {SymSeq[i].s : i \in {k \in SymIdx : Prefixable(k)}}

\* prefix spellings: symbol, word form, Title-case word form
PrefSpellF == [j \in PrefIdx |-> {PrefSeq[j].p, PrefSeq[j].w, Title(PrefSeq[j].w)}]
AllPref == UNION {PrefSpellF[j] : j \in PrefIdx}
PrefsOfF == [x \in AllPref |-> {j \in PrefIdx : x \in PrefSpellF[j]}]
PrefsOf(x) == IF x \in AllPref THEN PrefsOfF[x] ELSE {}
PForm(j, p) == IF j = 0 THEN "none" ELSE IF p = PrefSeq[j].p THEN "symbol" ELSE IF p = PrefSeq[j].w THEN "word" ELSE "title"

\* every way of splitting n into [prefix spelling] + spelling of a table unit: <<j, i, p, r>>
AllSplits(n) == {<<0, i, "", n>> : i \in SymsOf(n)}
                \cup UNION {{<<j, i, sp[1], sp[2]>> : j \in PrefsOf(sp[1]), i \in SymsOf(sp[2])} : sp \in Splits(n)}
\* the readings: a split whose unit may carry the prefix
IsReading(r) == r[1] = 0 \/ Prefixable(r[2])
Readings(n) == {r \in AllSplits(n) : IsReading(r)}
Den(r) == <<r[2], PExp(r[1])>>
DenOfReadings(n) == {Den(r) : r \in Readings(n)}
TableReadings(n) == {r \in AllSplits(n) : r[1] = 0}

\* which strings does unyt document?  Independently: table symbols, listed alternatives, prefix symbol + prefixable
\* symbol, prefix word + listed alternative of a prefixable unit.  From the tree: generated names, unit_symbols
\* attributes, top-level unit attributes (flags of the base string; only for the unprefixed case).
DocIndependent(n) == \/ n \in ListedAll
                     \/ \E sp \in Splits(n) :
                          \/ sp[1] \in PrefSymSet /\ sp[2] \in PrefixableSyms
                          \/ (\E j \in PrefIdx : PrefSeq[j].w = sp[1]) /\ sp[2] \in AltsOfPrefixable
DocTree(c) == c.pk = "none" /\ (NameSeq[c.b].gen \/ NameSeq[c.b].us \/ NameSeq[c.b].top)
Documented(c) == DocTree(c) \/ DocIndependent(CaseStr(c))

\* --- observations: per route [present, ok, den]; den = tuple of <<i, e>>
DenSet(o) == {o.den[x] : x \in DOMAIN o.den}
Denotes(o, S) == o.ok /\ (DenSet(o) \cap S) # {}

\* C14_Accept: a documented name can be used as a unit string
C14_Accept(c, o) == Documented(c) => o.ok
\* C14_Denote: it denotes its canonical spelling scaled by exactly the prefix (some reading of the string)
C14_Denote(c, o) == (Documented(c) /\ o.ok) => Denotes(o, DenOfReadings(CaseStr(c)))
\* C14_TableWins: a string that is a table symbol or listed alternative resolves to it, whatever prefix splits it also admits
C14_TableWins(c, o) == LET n == CaseStr(c) IN (TableReadings(n) # {} /\ o.ok) => Denotes(o, {Den(r) : r \in TableReadings(n)})
\* C14_NonPrefixable: a string that splits as prefix + spelling of a non-prefixable unit is never resolved to that product
\* (unless the same denotation is also a legitimate reading of the string)
BadSplits(n) == {r \in AllSplits(n) : ~IsReading(r)}
C14_NonPrefixable(c, o) == LET n == CaseStr(c) IN
                           (o.ok /\ Denotes(o, {Den(r) : r \in BadSplits(n)})) => Denotes(o, DenOfReadings(n))
\* the same for a prefix on top of an already prefixed name (the derived unit is not prefixable): p + (q + unit)
DoubleDen(c) == IF c.pk = "none" THEN {} ELSE
                {<<r[2], PExp(c.pi) + PExp(r[1])>> : r \in {x \in Readings(NameSeq[c.b].n) : x[1] # 0}}
C14_NoDoublePrefix(c, o) == (o.ok /\ Denotes(o, DoubleDen(c))) => Denotes(o, DenOfReadings(CaseStr(c)))
\* C14_Unique (a property of the tables alone): no string has two different readings - over the exact spellings (table
\* symbols, listed alternatives, prefix symbols and word forms; case variants are left out: "T_Pl" would be the Title
\* form of both t_pl and T_pl, and unyt documents neither) the prefixed readings of a string agree, and so do its
\* table readings
Exact(r) == r[4] \in Listed(r[2]) /\ (r[1] = 0 \/ r[3] \in {PrefSeq[r[1]].p, PrefSeq[r[1]].w})
C14_Unique(c) == LET n == CaseStr(c)
                     E == {r \in Readings(n) : Exact(r)} IN
                 /\ Cardinality({Den(r) : r \in {x \in E : x[1] = 0}}) <= 1
                 /\ Cardinality({Den(r) : r \in {x \in E : x[1] # 0}}) <= 1
\* C14_Agree: attribute / namespace routes denote the same unit as the string
C14_Agree(c, o, a) == (a.present /\ o.ok) => (a.ok /\ DenSet(a) = DenSet(o))
C14_AttrDenote(c, a) == a.present => Denotes(a, DenOfReadings(CaseStr(c)))
\* C14_SameUnit: "denotes the same unit whether reached by string, by attribute or through a custom registry's
\* namespace" and "the same unit as its canonical spelling": the unit reached by another route (o = Unit(name), a = the
\* other route: attribute, namespace entry, quantity unit, custom registry, canonical spelling as a string) is not merely
\* equal by value but IS the same unit - built on the same symbol (sx: identical expressions, so products and ratios of
\* the two combine and cancel) and, within one registry, with the same hash (sh: found in each other's sets / dict keys).
\* WHICH symbol that is (the spelling, str()) is not demanded.  Not demanded either: the empty string - not a name; as a
\* unit string it is documented to be the bare number 1 (no symbol at all), while name_alternatives lists it as a
\* spelling of the symbol "dimensionless".
C14_SameUnit(c, o, a) == (CaseStr(c) # "" /\ a.present /\ a.ok /\ o.ok) => (a.sx /\ a.sh)

\* witness for reports: a reading (or split) of the string, as indices
Witness(c) == LET n == CaseStr(c)
                  S == IF Readings(n) # {} THEN Readings(n) ELSE AllSplits(n) IN
              IF S = {} THEN [pform |-> "none", pj |-> 0, si |-> 0, rb |-> 0]
              ELSE LET r == CHOOSE x \in S : \A y \in S : Len(x[3]) <= Len(y[3]) IN
                   [pform |-> PForm(r[1], r[3]), pj |-> r[1], si |-> r[2], rb |-> IF r[4] \in NameSet THEN NameNo[r[4]] ELSE 0]

\* ======================================================== TRANSITION SIDE
\* unyt/_parsing.py parse_unyt_expr: "" -> "1"; % -> percent, then degree sign -> deg (textual)
Rewrite(n) == IF n = "" THEN "1" ELSE Repl(Repl(n, 1, PctSign, "percent"), 1, DegSign, "deg")
\* _auto_positive_symbol: a NAME token found in the alias table is replaced by its canonical name
UsedName(t) == IF t \in TokDom THEN TokAlt[t] ELSE t
Raise == [ok |-> FALSE, i |-> 0, e |-> 0, j |-> 0]
Ok(j, i) == [ok |-> TRUE, i |-> i, e |-> IF j = 0 THEN 0 ELSE PrefSeq[j].e, j |-> j]
\* unyt/unit_systems.py _split_prefix: one attempt; first character, or "da" when the string starts with "da"
SplitPrefix(u, keys, pfxkeys) ==
  LET pp == IF Len(u) >= 2 /\ SubSeq(u, 1, 2) = "da" THEN "da" ELSE SubSeq(u, 1, 1) IN
  IF pp \in PrefSymSet
  THEN LET rest == SubSeq(u, Len(pp) + 1, Len(u)) IN
       IF rest \in keys /\ rest \in pfxkeys THEN <<pp, rest>> ELSE <<"", u>>
  ELSE <<"", u>>
\* unyt/unit_registry.py _lookup_unit_symbol on the pristine table: table first, then the single split
Lookup(u) == IF u \in SymSet THEN Ok(0, SymNo[u])
             ELSE IF u = "" THEN Raise
             ELSE LET sp == SplitPrefix(u, SymSet, PrefixableSyms) IN
                  IF sp[1] # "" THEN Ok(PrefNo[sp[1]], SymNo[sp[2]]) ELSE Raise
DimensionlessNo == IF "dimensionless" \in SymSet THEN SymNo["dimensionless"] ELSE 0
\* Unit(n): the whole pipeline for a string that is one NAME token after rewriting
Resolve(n) == LET t == Rewrite(n) IN
              IF t = "1" THEN [ok |-> TRUE, i |-> DimensionlessNo, e |-> 0, j |-> 0]
              ELSE IF t \in GlobalNames THEN Raise
              ELSE Lookup(UsedName(t))
\* attribute of unyt.unit_symbols / top level / add_symbols namespace: Unit(canonical name) resp. Unit(that.expr, registry)
ResolveAttr(n) == IF n \in InvDom THEN Lookup(InvAlt[n]) ELSE Raise
\* the symbol a string is filed under after tokenizing (the key handed to _lookup_unit_symbol; the unit's expression is
\* Symbol(that key)); attributes are Unit(canonical name) through the same parser, add_symbols copies unit.expr
SymOf(n) == UsedName(Rewrite(n))
SameSym(n) == n \in InvDom => SymOf(n) = SymOf(InvAlt[n])
\* does an observation agree with the transition's outcome?
TOk(m, o) == IF m.ok THEN Denotes(o, {<<m.i, m.e>>}) ELSE ~o.ok
\* the transition's outcome as an observation (to evaluate the predicates on the model itself)
AsObs(m) == [present |-> TRUE, ok |-> m.ok, den |-> IF m.ok THEN <<<<m.i, m.e>>>> ELSE <<>>]
\* model-level verdicts: which clauses does the transcription itself break on this case?  (TLC: transitions => properties)
ModelFails(c) == LET o == AsObs(Resolve(CaseStr(c))) IN
                 {cl \in {"Accept", "Denote", "TableWins", "NonPrefixable", "NoDoublePrefix", "SameUnit"} :
                    ~(CASE cl = "Accept" -> C14_Accept(c, o)
                        [] cl = "SameUnit" -> ((o.ok /\ CaseStr(c) # "") => SameSym(CaseStr(c)))
                        [] cl = "Denote" -> C14_Denote(c, o)
                        [] cl = "TableWins" -> C14_TableWins(c, o)
                        [] cl = "NonPrefixable" -> C14_NonPrefixable(c, o)
                        [] cl = "NoDoublePrefix" -> C14_NoDoublePrefix(c, o))}
=============================================================================
