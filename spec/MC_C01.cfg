CONSTANTS
  TableUnits <- NoTable
  Units = {"la","lb","ta","nd","pc","K","degC","delta_degC"}
  ConvUnits = {"la","lb","ta","nd","pc","K","degC","delta_degC","C","statC"}
  UKinds0 = {"q","a","az","bs","ba","z","za","lq","ts","tm","nz","tq"}
  UKinds1 = {"q","a","az","bs","ba","bl","z","za","lq","lqm","ts","tm","nz","tq"}
  UfOps = {"add","subtract","less","equal","maximum","hypot","divmod","multiply"}
  Forms = {"call","outer","operator","iop","out","at","reduce_initial"}
  ArrFns = {"concatenate","where","clip","copyto_where"}
  Fams = {"ufunc","arrfn","setitem","conv","unitop"}
  SpUnits = {"la","K"}
INIT Init
NEXT Next
INVARIANT Export
INVARIANT Uncovered
CHECK_DEADLOCK FALSE
