CONSTANT Domain = "core"
INIT Init
NEXT Next
INVARIANT Export
INVARIANT PrefixTable
CHECK_DEADLOCK FALSE
