"""Replay side of C14 (runs inside workers; imports unyt from the tree under test).

tables(_)      -> the name tables of the working tree for Names.tla (what harness/extract.py emits, plus the
                  alias table the tokenizer really consults, Python's str.title() of every spelling, the
                  decimal exponent of each prefix value, per-name attribute flags)
observe(case)  -> for the string of one TLC case: every route by which the name can be reached
                  (Unit(str), Unit(str, registry=custom), unyt_quantity(1, str).units, unit_symbols attribute,
                  top-level attribute, add_symbols namespace of a custom registry), each projected onto
                  {present, ok, den} where den = all [i, e] such that the unit equals 10^e x Unit(table symbol i)
                  (same dimensions, same offset, scale within 2 ulp of the exact product).
observe_hist(case) -> a short history of Unit(str) calls on ONE fresh registry (derived rows + string memo)."""

from fractions import Fraction
import math

_U = {}
TOL = Fraction(45, 10**17)  # 2 ulp of a double, relative


def _load():
    import unyt
    import unyt.unit_symbols as us
    from unyt import _parsing
    from unyt._unit_lookup_table import (
        default_unit_name_alternatives,
        default_unit_symbol_lut,
        inv_name_alternatives,
        unit_prefixes,
    )
    from unyt.array import unyt_quantity
    from unyt.unit_object import Unit
    from unyt.unit_registry import UnitRegistry
    from unyt.unit_systems import add_symbols

    _U.update(
        unyt=unyt,
        us=us,
        parsing=_parsing,
        alts=default_unit_name_alternatives,
        lut=default_unit_symbol_lut,
        inv=inv_name_alternatives,
        prefixes=unit_prefixes,
        uq=unyt_quantity,
        Unit=Unit,
        UnitRegistry=UnitRegistry,
        add_symbols=add_symbols,
    )


def _pow10_exp(x):
    """decimal exponent e with x within 2 ulp of 10^e, else 99"""
    try:
        x = float(x)
        if not (x > 0) or math.isinf(x):
            return 99
        e = round(math.log10(x))
        f = Fraction(x)
        t = Fraction(10) ** e
        return int(e) if abs(f - t) <= TOL * t and abs(e) <= 60 else 99
    except Exception:  # noqa: BLE001
        return 99


def _tokenizer_alias_table():
    """The str->str dict(s) that unyt._parsing._auto_positive_symbol consults (by the global names its code
    refers to).  On the pinned tree this is inv_name_alternatives."""
    f = _U["parsing"]._auto_positive_symbol
    g = f.__globals__
    out = {}
    found = []
    for name in f.__code__.co_names:
        v = g.get(name)
        if isinstance(v, dict) and v and all(isinstance(k, str) and isinstance(x, str) for k, x in v.items()):
            found.append(name)
            for k, x in v.items():
                out.setdefault(k, x)
    return out, found


def tables(_case=None):
    U = _U
    Unit = U["Unit"]
    syms = [{"s": s, "pfx": bool(row[4])} for s, row in U["lut"].items()]
    symno = {r["s"]: i + 1 for i, r in enumerate(syms)}
    alts = []
    alt_unknown = []
    for s, al in U["alts"].items():
        for a in al:
            if s in symno:
                alts.append({"a": a, "si": symno[s]})
            else:
                alt_unknown.append([s, a])
    prefixes = [{"p": p, "w": v[1], "e": _pow10_exp(v[0])} for p, v in U["prefixes"].items()]
    us_attrs = {k for k, v in vars(U["us"]).items() if isinstance(v, Unit)}
    top_attrs = {k for k, v in vars(U["unyt"]).items() if isinstance(v, Unit)}
    top_shadowed = sorted(k for k in us_attrs if k in vars(U["unyt"]) and not isinstance(vars(U["unyt"])[k], Unit))
    inv = dict(U["inv"])
    tok, tok_src = _tokenizer_alias_table()
    core = {r["s"] for r in syms} | {a["a"] for a in alts}
    core |= {x.title() for x in core if len(x) >= 4}
    allnames = sorted(core | set(inv) | us_attrs | top_attrs)
    names = [{"n": n, "gen": n in inv, "us": n in us_attrs, "top": n in top_attrs, "core": n in core} for n in allnames]
    words = {p["w"] for p in prefixes}
    title = {}
    for x in list(core) + list(words):
        if x.title() != x:
            title[x] = x.title()
    # Title-casing of a spelling that follows a letter (the tail of str.title() of prefix word + spelling)
    ttail = {}
    for x in core:
        t = ("x" + x).title()[1:]
        if t != x:
            ttail[x] = t
    gd = U["parsing"].global_dict
    return {
        "syms": syms,
        "alts": alts,
        "prefixes": prefixes,
        "names": names,
        "inv": inv,
        "tok": tok,
        "title": title if title else {"meter": "Meter"},
        "ttail": ttail if ttail else {"Ohm": "ohm"},
        "deg": "°",
        "pct": "%",
        "globals": sorted(k for k in gd if isinstance(k, str)),
        "_meta": {"tok_source": tok_src, "alts_of_unknown_symbol": alt_unknown, "top_shadowed_by_non_units": top_shadowed},
    }


def setup(common=None):
    _load()
    if not common:
        return
    U = _U
    U["common"] = common
    Unit = U["Unit"]
    canon = {}
    for i, s in enumerate(common["syms"]):
        try:
            u = Unit(s)
            bv = float(u.base_value)
            if bv != 0 and not math.isinf(bv) and not math.isnan(bv):
                canon.setdefault((u.dimensions, float(u.base_offset)), []).append((i + 1, Fraction(bv)))
        except Exception:  # noqa: BLE001
            pass
    U["canon"] = canon
    U["denmemo"] = {}
    reg = U["UnitRegistry"]()
    U["reg"] = reg
    ns = {}
    try:
        U["add_symbols"](ns, reg)
        U["ns_error"] = ""
    except Exception as e:  # noqa: BLE001
        # the namespace of a custom registry could not be built at all: every attribute is unreachable by this route
        ns = {}
        U["ns_error"] = "add_symbols: " + type(e).__name__
    U["ns"] = ns


def _den(u):
    U = _U
    try:
        bv = float(u.base_value)
        key = (u.dimensions, float(u.base_offset))
    except Exception:  # noqa: BLE001
        return []
    mk = (bv, key)
    memo = U["denmemo"]
    if mk in memo:
        return memo[mk]
    out = []
    if bv != 0 and not math.isinf(bv) and not math.isnan(bv):
        f = Fraction(bv)
        for i, c in U["canon"].get(key, ()):
            ratio = f / c
            if ratio <= 0:
                continue
            e = round(math.log10(float(ratio)))
            for ee in (e - 1, e, e + 1):
                t = Fraction(10) ** ee
                if abs(ee) <= 60 and abs(ratio - t) <= TOL * t:
                    out.append([i, int(ee)])
    out.sort()
    memo[mk] = out
    return out


ABSENT = {"present": False, "ok": False, "den": [], "exc": "", "sx": False, "sh": False}


def _route(f, ref=None, href=None):
    """one route; ref: the unit the same string gave as a unit string (Unit(n)), href: the unit whose hash must be
    equal (same registry as this route).  sx: the two are built on the SAME symbol expression (not merely equal by
    value), sh: equal hashes - what makes the two interchangeable in products, ratios, sets and dict keys."""
    _U["last"] = None
    try:
        u = f()
    except Exception as e:  # noqa: BLE001
        return {"present": True, "ok": False, "den": [], "exc": type(e).__name__, "sx": False, "sh": False}
    if not isinstance(u, _U["Unit"]):
        return {"present": True, "ok": False, "den": [], "exc": "not a Unit: " + type(u).__name__, "sx": False, "sh": False}
    sx = sh = True
    if ref is not None:
        try:
            sx = bool(u.expr == ref.expr)
            sh = bool(hash(u) == hash(href if href is not None else ref))
        except Exception:  # noqa: BLE001
            sx = sh = False
    _U["last"] = u
    return {"present": True, "ok": True, "den": _den(u), "exc": "", "sx": sx, "sh": sh}


def case_string(case, common=None):
    common = common or _U["common"]
    pk = case["pk"]
    if pk == "none":
        pre = ""
    else:
        p = common["prefixes"][case["pi"] - 1]
        pre = p["p"] if pk == "sym" else p["w"] if pk == "word" else p["w"].title()
    return pre + common["names"][case["b"] - 1]


def observe(case):
    U = _U
    Unit = U["Unit"]
    n = case_string(case)
    r = {}
    r["str"] = _route(lambda: Unit(n))
    ref = U["last"]
    r["reg"] = _route(lambda: Unit(n, registry=U["reg"]), ref)
    refreg = U["last"]
    r["reg"]["sh"] = r["reg"]["sx"]  # another registry: only the expression is compared
    r["qty"] = _route(lambda: U["uq"](1.0, n).units, ref)
    # the canonical spelling the tree files the name under (key of name_alternatives), used as a unit string
    cn = U["inv"].get(n)
    r["can"] = _route(lambda: Unit(cn), ref) if isinstance(cn, str) else ABSENT
    if case["pk"] == "none":
        v = vars(U["us"]).get(n)
        r["us"] = _route(lambda: v, ref) if isinstance(v, Unit) else ABSENT
        v2 = vars(U["unyt"]).get(n)
        r["top"] = _route(lambda: v2, ref) if isinstance(v2, Unit) else ABSENT
        v3 = U["ns"].get(n)
        if U["ns_error"] and isinstance(v, Unit) and not n.startswith("_"):
            r["ns"] = {"present": True, "ok": False, "den": [], "exc": U["ns_error"], "sx": False, "sh": False}
        else:
            r["ns"] = _route(lambda: v3, ref, refreg) if v3 is not None else ABSENT
    else:
        r["us"] = r["top"] = r["ns"] = ABSENT
    return {"pk": case["pk"], "pi": case["pi"], "b": case["b"], "r": r}


def observe_hist(case):
    """case = {"h": [case, ...]}: the strings are resolved one after the other in ONE fresh registry."""
    U = _U
    reg = U["UnitRegistry"]()
    ev = []
    for c in case["h"]:
        n = case_string(c)
        o = _route(lambda: U["Unit"](n, registry=reg))
        o["row"] = n in reg.lut
        o["memo"] = n in reg._unit_object_cache
        ev.append({"pk": c["pk"], "pi": c["pi"], "b": c["b"], "o": o})
    return {"ev": ev}


# ---------------------------------------------------------------------------------------------------------------
# edited custom registry (NamesEdit.tla)
EDIT_PROBES = ["pc", "parsec", "kpc", "kiloparsec", "Kiloparsec", "Mpc", "ft", "foot", "kft", "foo", "kfoo", "Mfoo", "quux", "pccm", "Mpccm", "a", "ka", "mcm", "kmcm"]
EDIT_DERIVED = ["kpc", "Mpc", "kft", "kfoo", "Mfoo", "Mpccm", "ka", "kmcm"]
EDIT_TOUCHED_DEFAULTS = ("pc", "ft")  # default symbols the histories edit: names built on them are judged by the probes, not by the sweep


def _edit_den(u):
    """project a length unit onto [mantissa name, decimal exponent]: Dpc / Dft = the default scale of pc / ft, 2 4 7 = metres"""
    U = _U
    if "edit_mant" not in U:
        from unyt import dimensions

        U["edit_len"] = dimensions.length
        U["edit_mant"] = [("Dpc", Fraction(float(U["lut"]["pc"][0]))), ("Dft", Fraction(float(U["lut"]["ft"][0]))), ("2", Fraction(2)), ("4", Fraction(4)), ("7", Fraction(7))]
    try:
        bv = float(u.base_value)
        if u.dimensions != U["edit_len"] or float(u.base_offset) != 0.0 or not (bv > 0) or math.isinf(bv):
            return []
    except Exception:  # noqa: BLE001
        return []
    f = Fraction(bv)
    out = []
    for name, m in U["edit_mant"]:
        ratio = f / m
        e = round(math.log10(float(ratio)))
        for ee in (e - 1, e, e + 1):
            t = Fraction(10) ** ee
            if -12 <= ee <= 30 and abs(ratio - t) <= TOL * t:
                out.append([name, int(ee)])
    return out


def _edit_unit(f):
    try:
        u = f()
    except Exception as e:  # noqa: BLE001
        return {"ok": False, "den": [], "exc": type(e).__name__}
    if not isinstance(u, _U["Unit"]):
        return {"ok": False, "den": [], "exc": "not a Unit"}
    return {"ok": True, "den": _edit_den(u), "exc": ""}


def _edit_rows(reg):
    return [k in reg.lut for k in EDIT_DERIVED]


def _edit_ns(reg):
    ns = {}
    try:
        _U["add_symbols"](ns, reg)
    except Exception as e:  # noqa: BLE001
        return False, type(e).__name__, [{"present": False, "ok": False, "den": []} for _ in EDIT_PROBES]
    out = []
    for p in EDIT_PROBES:
        v = ns.get(p)
        if v is None:
            out.append({"present": False, "ok": False, "den": []})
        else:
            o = _edit_unit(lambda: v)
            out.append({"present": True, "ok": o["ok"], "den": o["den"]})
    return True, "", out


def _edit_top():
    """the unyt top-level namespace as the 'namespace' of the default registry"""
    out = []
    d = vars(_U["unyt"])
    for p in EDIT_PROBES:
        v = d.get(p)
        if isinstance(v, _U["Unit"]):
            o = _edit_unit(lambda: v)
            out.append({"present": True, "ok": o["ok"], "den": o["den"]})
        else:
            out.append({"present": False, "ok": False, "den": []})
    return out


def _edit_prime():
    """Once per worker process: resolve every probe string in two throw-away registries with OPPOSITE contents (A: pc, ft,
    foo all prefixable - every prefixed probe resolves; B: pc not prefixable, foo absent - every prefixed probe is
    refused).  A process-wide memo of successful or failed prefix splits (state that leaks from one registry into
    another) is thereby primed both ways before the first history, whatever the partition of cases over workers."""
    U = _U
    if U.get("edit_primed"):
        return
    U["edit_primed"] = True
    from unyt import dimensions

    # reference for the sweep: what every documented symbol-level name denotes in the unedited default registry
    sweep = {}
    lut = U["lut"]
    names = [s for s in lut if s not in EDIT_TOUCHED_DEFAULTS]
    names += [p + s for s in lut if lut[s][4] and s not in EDIT_TOUCHED_DEFAULTS for p in U["prefixes"]]
    for n in names:
        try:
            u = U["Unit"](n)
            sweep[n] = (float(u.base_value), u.dimensions, float(u.base_offset))
        except Exception:  # noqa: BLE001
            pass
    U["edit_sweep"] = sweep

    ra = U["UnitRegistry"]()
    ra.remove("ft")
    ra.add("ft", 2.0, dimensions.length, prefixable=True)
    ra.add("foo", 2.0, dimensions.length, prefixable=True)
    rb = U["UnitRegistry"]()
    rb.remove("pc")
    rb.add("pc", 2.0, dimensions.length, prefixable=False)
    for reg in (ra, rb, ra):
        for s in EDIT_PROBES:
            try:
                U["Unit"](s, registry=reg)
            except Exception:  # noqa: BLE001
                pass
            try:
                s in reg
            except Exception:  # noqa: BLE001
                pass


def observe_edit(case):
    """case = {"kind": "custom"|"default", "h": [{op, k, m, pfx, p}, ...]} on one fresh UnitRegistry (custom) or on unyt's
    default registry (restored afterwards together with the unyt namespace: workers are reused); at the end every probe
    string is resolved from the same state (table, memo restored after each) and a fresh add_symbols namespace is built
    (custom) / the unyt top-level namespace is read (default)."""
    U = _U
    _edit_prime()
    kind = case.get("kind", "custom")
    if kind == "custom":
        return _observe_edit(case, U["UnitRegistry"](), None)
    from unyt.unit_registry import default_unit_registry as dreg

    snap = (dict(dreg.lut), dict(dreg._unit_object_cache), dreg._unit_system_id, dict(vars(U["unyt"])))
    try:
        return _observe_edit(case, dreg, "default")
    finally:
        dreg.lut.clear()
        dreg.lut.update(snap[0])
        dreg._unit_object_cache.clear()
        dreg._unit_object_cache.update(snap[1])
        dreg._unit_system_id = snap[2]
        d = vars(U["unyt"])
        for k in list(d):
            if k not in snap[3]:
                del d[k]
        for k, v in snap[3].items():
            if d.get(k) is not v:
                d[k] = v


def _observe_edit(case, reg, default):
    U = _U
    from unyt import dimensions
    from unyt.unit_object import define_unit

    def mkunit(s):
        return U["Unit"](s) if default else U["Unit"](s, registry=reg)

    def mkqty(s):
        # the other call form by which a string is used as a unit string
        return (U["uq"](1.0, s) if default else U["uq"](1.0, s, registry=reg)).units

    ev = []
    for e in case["h"]:
        rec = dict(e)
        rec["rowsbefore"] = _edit_rows(reg)
        rec["ns"] = []
        op = e["op"]
        try:
            if op == "add":
                reg.add(e["k"], float(e["m"]), dimensions.length, prefixable=bool(e["pfx"]))
                obs = {"k": "ok", "ok": True, "den": []}
            elif op == "remove":
                reg.remove(e["k"])
                obs = {"k": "ok", "ok": True, "den": []}
            elif op == "modify":
                reg.modify(e["k"], float(e["m"]))
                obs = {"k": "ok", "ok": True, "den": []}
            elif op == "define":
                define_unit(e["k"], (float(e["m"]), "m"), prefixable=bool(e["pfx"]), registry=reg)
                obs = {"k": "ok", "ok": True, "den": []}
            elif op == "unit":
                s = EDIT_PROBES[e["p"] - 1]
                o = _edit_unit(lambda: mkunit(s))
                obs = {"k": "unit" if o["ok"] else "raise", "ok": o["ok"], "den": o["den"], "exc": o["exc"]}
                oq = _edit_unit(lambda: mkqty(s))
                rec["obsq"] = {"ok": oq["ok"], "den": oq["den"], "exc": oq["exc"]}
            elif op == "addsymbols":
                ok, exc, nsobs = _edit_ns(reg)
                obs = {"k": "ns" if ok else "raise", "ok": ok, "den": [], "exc": exc}
                rec["ns"] = nsobs
            else:
                raise ValueError(op)
        except Exception as ex:  # noqa: BLE001
            obs = {"k": "raise", "ok": False, "den": [], "exc": type(ex).__name__}
        rec["obs"] = obs
        rec["rows"] = _edit_rows(reg)
        ev.append(rec)
    reg.unit_system_id  # memoise once
    snap = (dict(reg.lut), dict(reg._unit_object_cache), reg._unit_system_id)

    def restore():
        reg.lut.clear()
        reg.lut.update(snap[0])
        reg._unit_object_cache.clear()
        reg._unit_object_cache.update(snap[1])
        reg._unit_system_id = snap[2]

    final = {"rows": _edit_rows(reg), "probes": [], "probesq": []}
    for s in EDIT_PROBES:
        o = _edit_unit(lambda: mkunit(s))
        final["probes"].append({"ok": o["ok"], "den": o["den"], "exc": o["exc"]})
        restore()
        o = _edit_unit(lambda: mkqty(s))
        final["probesq"].append({"ok": o["ok"], "den": o["den"], "exc": o["exc"]})
        restore()
    if default:
        ok, exc, nsobs = True, "", _edit_top()
    else:
        ok, exc, nsobs = _edit_ns(reg)
    final["nsok"] = ok
    final["nsexc"] = exc
    final["ns"] = nsobs
    # sweep (last: it fills the table with derived rows): documented names on untouched base symbols
    bad = []
    # full sweep (every name parsed) when the history is short and changed the table on the model (flag exported by TLC);
    # otherwise (thorough tier's longer histories; table still the initial one) only the rows present in the table are compared
    full = len(case["h"]) <= 2 and bool(case.get("tch", True))
    for n, (bv, dm, off) in U["edit_sweep"].items():
        try:
            if full:
                u = mkunit(n)
                got = (float(u.base_value), u.dimensions, float(u.base_offset))
            else:
                row = reg.lut.get(n)
                if row is None:
                    continue
                got = (float(row[0]), row[1], float(row[2]))
            same = got[1] == dm and got[2] == off and abs(got[0] - bv) <= 4.5e-16 * abs(bv)
            gs = repr(got[0]) + " " + str(got[1])
        except Exception as e:  # noqa: BLE001
            same, gs = False, type(e).__name__
        if not same and len(bad) < 8:
            bad.append({"name": n, "got": gs, "want": repr(bv) + " " + str(dm)})
    final["sweepbad"] = bad
    final["sweepn"] = len(U["edit_sweep"])
    final["sweepfull"] = full
    return {"kind": "default" if default else "custom", "ev": ev, "final": final}
