"""C09 - equivalence conversions are mutually inverse, pure, and match their formulas.

Spec: spec/Equiv.tla (+ MC_C09, Trace_C09).
  1. MC_C09_laws: TLC checks, on the transcribed branch tables (register programs over one
     buffer), the model-level laws Total / Formula / Inv / Path / Twin / Value (Lorentz on
     Pythagorean rationals) / Gate for every (equivalence, a, b, c, keyword setting).
  2. MC_C09_single / _hist / _sim: TLC generates histories of conversion calls on one object
     (initial object x requests) with the model's outcome and the formula values of each step.
  3. every history is replayed in real unyt (impl_c09); observed floats are snapped to the
     specification's symbolic values (library's own constants, rtol 1e-12).
  4. Trace_C09: TLC evaluates P (Pure, Gate, Total, Formula, Unit, Twin, Inv/Path) on the
     observed steps and compares them with the transition (T).
"""

import json
import random

from common import MachineryFailure

_KEYF = ("clause", "eq", "from", "to", "form", "dt", "vsig")


def _validate(ck, cases, traces, label, stats):
    if not traces:
        return
    bad = [t for t in traces if "_error" in t]
    if bad:
        raise MachineryFailure("replay error: " + str(bad[0])[:2000])
    CH = 20000
    for off in range(0, len(traces), CH):
        part = traces[off : off + CH]
        path = ck.write_json(f"c09_obs_{label}_{off}.json", part)
        res = ck.tlc("Trace_C09", "Trace_C09", env={"C09_OBS": path}, workers=1, coverage=False, label=f"trace-validation {label}", timeout=3000)
        expect = 1 + sum(len(t["ev"]) + 1 for t in part)
        if res.distinct != expect:
            raise MachineryFailure(f"trace validation consumed {res.distinct} states, expected {expect}")
        ck.validated(len(part))
        pfail = {(r["tid"], r["l"]) for r in res.by_tag("P-FAIL")}
        for r in res.by_tag("T-FAIL"):
            if (r["tid"], r["l"]) in pfail:
                continue  # not P: a verdict already; drift is "P holds but the transition differs"
            ck.drift_step(f"{r['eq']}:{r['from']}->{r['to']}:{r['en']}", {"model": r["model"], "observed": r["observed"], "case": cases[off + r["tid"] - 1]["init"]["sh"]})
        for r in res.by_tag("P-FAIL"):
            key = {k: r[k] for k in _KEYF}
            c = cases[off + r["tid"] - 1]
            ck.violation(key, {"entry": r["en"], "step": r["l"], "k": r["k"], "uin": r["uin"], "uout": r["uout"], "sh": r["sh"], "detail": r["detail"]}, case=c)
    for t in traces:
        for e in t["ev"]:
            stats["steps"] += 1
            if e["obs"]["k"] == "ok":
                stats["ok"] += 1
            else:
                stats["raise"] += 1


def _cases(res):
    return [{"init": r["init"], "h": r["h"]} for r in res.by_tag("HIST")]


def _nontrivial(c, units):
    """a covered request (different member dimensions of the equivalence) somewhere in the history"""
    out = set()
    d = c["init"]["d"]
    for st in c["h"]:
        if st["cand"]:
            out.add((st["eq"], d, units[st["tu"] - 1]["d"], st["en"], c["init"]["u"], st["tu"], st["k"], c["init"]["dt"], c["init"]["sh"], c["init"]["pi"]))
        if st["fo"] and st["exp"]["k"] == "ok":
            d = units[st["tu"] - 1]["d"]
    return out


def _cfg(ck, src, name, **kv):
    txt = open(ck.spec + f"/{src}.cfg").read()
    out = []
    for line in txt.splitlines():
        s = line.strip()
        for k, v in kv.items():
            if s.startswith(k + " ="):
                line = f"  {k} = {v}"
        out.append(line)
    open(ck.spec + f"/{name}.cfg", "w").write("\n".join(out) + "\n")
    return name


def run(ck):
    ck.level = "model_checking"
    ck.assumptions += [
        "values are symbolic r * prod(const^(e/4)): r from a grid of exact fourth powers x decades 10^-8..10^8 (Lorentz: Pythagorean rationals), so every root is exact; floats never enter TLC",
        "observed floats are matched to the specification's symbolic values with the library's own constants (unyt.physical_constants, long names) at 40 digits, rtol 1e-12 (float64)",
        "54 unit spellings (SI, prefixed, CGS, compound, other) of 13 dimensions; no offset (degC/degF) units; dtypes float64 and int64 (int64 only in coherent SI units); shapes quantity / array / contiguous view / strided view",
        "keyword settings: defaults (mu=0.6, gamma=5/3 as documented), mu=3/4, gamma=4/3, mu=gamma=7/5; keywords are only passed to equivalences that take them",
        "known findings are matched on (clause, equivalence, from, to, form, dtype, numbers of the input)",
    ]
    stats = {"steps": 0, "ok": 0, "raise": 0}
    if ck.replay:
        blob = json.load(open(ck.replay))
        res = ck.tlc("MC_C09", "MC_C09_laws", workers=1, label="laws (for the tables)", timeout=1800)
        tables = res.by_tag("TABLES")[0]
        cases = [blob["case"]]
        traces = ck.pmap("impl_c09", "observe", cases, nproc=1, common={"tables": tables})
        _validate(ck, cases, traces, "replay", stats)
        return

    # 1. model-level laws of the transcribed branch tables
    res = ck.tlc("MC_C09", "MC_C09_laws", workers=1, label="laws: Total/Formula/Inv/Path/Twin/Value/Gate on the branch tables", timeout=1800)
    tables = res.by_tag("TABLES")[0]
    units = tables["units"]
    laws = res.by_tag("LAW")
    if {r["eq"] for r in laws} != set(tables["eqs"]):
        raise MachineryFailure("laws instance did not cover every equivalence")
    if any(r["nvals"] == 0 for r in laws):
        raise MachineryFailure("a covered request has no exactly representable value in the grid")
    ck.cov["law_instances"] = len(laws)
    ck.cov["law_value_checks"] = sum(r["nvals"] for r in laws)
    common = {"tables": tables}
    nontrivial = set()

    def replay(res, label, sample=None):
        cases = _cases(res)
        if sample is not None:
            cases = sample(cases)
        if len(cases) < 10:
            raise MachineryFailure(f"too few histories exported ({label})")
        ck.sample({"instance": label, "init": {k: cases[len(cases) // 2]["init"][k] for k in ("d", "u", "pi", "dt", "sh")},
                   "requests": [{k: st[k] for k in ("en", "eq", "k", "tu", "fo")} for st in cases[len(cases) // 2]["h"]]})
        for c in cases:
            nontrivial.update(_nontrivial(c, units))
        traces = ck.pmap("impl_c09", "observe", cases, common=common, chunk_timeout=3000)
        _validate(ck, cases, traces, label, stats)
        return len(cases)

    ck.cov["bound"] = {}
    # 2a. single step, wide alphabet
    nu = ck.q(3, 6)
    diag = ck.q(6, 2)
    cfg = _cfg(ck, "MC_C09_single", "MC_C09_single_run", NUin=nu, NUout=nu, Diag=diag)
    res = ck.tlc("MC_C09", cfg, workers=1, label=f"single step: all entry points, units rank<={nu} (diagonal {diag}), all values/dtypes/shapes", required_actions=["Next"], timeout=3000)
    n = replay(res, "single")
    ck.cov["bound"]["single"] = {"NUin": nu, "NUout": nu, "Diag": diag, "histories": n}
    # 2b. histories inside one equivalence
    ml = ck.q(2, 3)
    cfg = _cfg(ck, "MC_C09_hist", "MC_C09_hist_run", MaxLen=ml, ExportLen=ml, Diag=ck.q(2, 2))
    res = ck.tlc("MC_C09", cfg, workers=1, label=f"histories of {ml} calls inside one equivalence (copy/in-place/views/repeats)", required_actions=["Next"], timeout=6000)
    rnd = random.Random(ck.seed)

    def thin(cases):
        # thorough: the depth-3 space is large; keep a seeded sample (deterministic for a given VERIF_SEED)
        cap = ck.q(10**9, 60000)
        return cases if len(cases) <= cap else rnd.sample(cases, cap)

    n = replay(res, "hist", thin)
    ck.cov["bound"]["hist"] = {"MaxLen": ml, "histories_exported": len(res.by_tag("HIST")), "histories_replayed": n}
    # 2c. beyond the bound: random mixed chains from TLC's simulator
    depth = ck.q(4, 6)
    cfg = _cfg(ck, "MC_C09_sim", "MC_C09_sim_run", MaxLen=depth, ExportLen=depth)
    res = ck.tlc("MC_C09", cfg, workers=1, simulate=ck.q(8, 120), depth=depth + 1, label=f"simulation depth={depth}: mixed chains across equivalences", timeout=3000)

    def fam(cases):
        # the simulator evaluates the exporting invariant on every successor of the last state: keep a seeded sample per family
        f = {}
        for c in cases:
            f.setdefault(json.dumps([c["init"], [[st[k] for k in ("en", "eq", "k", "tu", "fo")] for st in c["h"][:-1]]], sort_keys=True), []).append(c)
        return [c for k in sorted(f) for c in rnd.sample(f[k], min(ck.q(12, 20), len(f[k])))]

    n = replay(res, "sim", fam)
    ck.cov["bound"]["sim"] = {"depth": depth, "histories": n}
    ck.cov["exhaustive"] = True
    ck.cov["steps_replayed"] = stats["steps"]
    ck.cov["steps_returned"] = stats["ok"]
    ck.cov["steps_raised"] = stats["raise"]
    ck.cov["evaluations"] = ck.cov["traces_validated_against_impl"]
    ck.cov["distinct_nontrivial"] = len(nontrivial)
    ck.cov["rule"] = "histories of conversion calls exported by TLC (single step exhaustive over the alphabet, two/three steps inside one equivalence, simulated mixed chains) replayed on real quantities; non-trivial = a distinct (equivalence, from, to, entry point, input unit, target unit, keyword setting, dtype, shape, value pair) whose request is covered (two different member dimensions), so that a formula value is computed and compared"
