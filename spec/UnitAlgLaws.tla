---------------------------- MODULE UnitAlgLaws ----------------------------
(* The exponent-vector core of UnitAlg over UNBOUNDED integers, for Apalache. *)
(* A unit is [a, b : exponents of two atoms, c : log-coefficient of the       *)
(* expression, l : log-scale, d : dimension exponent]; the registry gives the *)
(* two atoms arbitrary log-scales LA, LB and dimension exponents DA, DB.      *)
(* (All quantities are integers: think of them as 12x or 1200x the rational   *)
(* exponents; the laws are homogeneous, so the scaling does not matter.)      *)
(* UMul/UDiv/UPow are the plain-unit branches of UnitAlg!UMul/UDiv/UPow.      *)
(* LawsHold: commutativity, associativity, identity, inverse, the three power *)
(* laws, preservation of C05_Sync by every operator and by one cancellation   *)
(* step of simplify, and as_coeff_unit.  TLC checks the same on the bounded   *)
(* instance MC_C05; Apalache discharges them for all integers.                *)
EXTENDS Integers

\* @typeAlias: unit = { a: Int, b: Int, c: Int, l: Int, d: Int };
UnitAlgLaws_aliases == TRUE

VARIABLES
  \* @type: { a: Int, b: Int, c: Int, l: Int, d: Int };
  u,
  \* @type: { a: Int, b: Int, c: Int, l: Int, d: Int };
  v,
  \* @type: { a: Int, b: Int, c: Int, l: Int, d: Int };
  w,
  \* @type: Int;
  p,
  \* @type: Int;
  q,
  \* @type: Int;
  LA,
  \* @type: Int;
  LB,
  \* @type: Int;
  DA,
  \* @type: Int;
  DB,
  \* @type: Int;
  x,
  \* @type: Int;
  y

\* @type: (Int, Int, Int, Int, Int) => { a: Int, b: Int, c: Int, l: Int, d: Int };
U(a, b, c, l, d) == [a |-> a, b |-> b, c |-> c, l |-> l, d |-> d]
One == U(0, 0, 0, 0, 0)
\* @type: ($unit, $unit) => $unit;
UMul(s, t) == U(s.a + t.a, s.b + t.b, s.c + t.c, s.l + t.l, s.d + t.d)
\* @type: ($unit, $unit) => $unit;
UDiv(s, t) == U(s.a - t.a, s.b - t.b, s.c - t.c, s.l - t.l, s.d - t.d)
\* @type: ($unit, Int) => $unit;
UPow(s, n) == U(s.a * n, s.b * n, s.c * n, s.l * n, s.d * n)
\* expression, scale and dimension denote the same unit
\* @type: ($unit) => Bool;
Sync(s) == s.l = s.c + s.a * LA + s.b * LB /\ s.d = s.a * DA + s.b * DB
\* one step of _cancel_mul: factors A**x and B**y leave the expression, their scale goes into the coefficient
\* @type: ($unit) => $unit;
Cancel(s) == U(s.a - x, s.b - y, s.c + x * LA + y * LB, s.l, s.d)
\* as_coeff_unit: the coefficient leaves both the expression and the scale
\* @type: ($unit) => $unit;
Coeff(s) == U(s.a, s.b, 0, s.l - s.c, s.d)

Init ==
  /\ u \in [a : Int, b : Int, c : Int, l : Int, d : Int]
  /\ v \in [a : Int, b : Int, c : Int, l : Int, d : Int]
  /\ w \in [a : Int, b : Int, c : Int, l : Int, d : Int]
  /\ p \in Int /\ q \in Int /\ LA \in Int /\ LB \in Int /\ DA \in Int /\ DB \in Int /\ x \in Int /\ y \in Int
Next == UNCHANGED <<u, v, w, p, q, LA, LB, DA, DB, x, y>>

LawsHold ==
  /\ UMul(u, v) = UMul(v, u)
  /\ UMul(UMul(u, v), w) = UMul(u, UMul(v, w))
  /\ UDiv(UMul(u, v), w) = UMul(u, UDiv(v, w))
  /\ UDiv(UDiv(u, v), w) = UDiv(u, UMul(v, w))
  /\ UMul(u, One) = u /\ UMul(One, u) = u /\ UDiv(u, One) = u
  /\ UMul(u, UPow(u, -1)) = One /\ UDiv(u, u) = One /\ UPow(u, 0) = One
  /\ UDiv(u, v) = UMul(u, UPow(v, -1))
  /\ UPow(UPow(u, p), q) = UPow(u, p * q)
  /\ UPow(UMul(u, v), p) = UMul(UPow(u, p), UPow(v, p))
  /\ UMul(UPow(u, p), UPow(u, q)) = UPow(u, p + q)
  /\ (Sync(u) /\ Sync(v)) => (Sync(UMul(u, v)) /\ Sync(UDiv(u, v)) /\ Sync(UPow(u, p)))
  \* (a pair is cancelled only when its product is dimensionless: x*DA + y*DB = 0 - Apalache refutes the law without the guard)
  /\ (Sync(u) /\ x * DA + y * DB = 0) => (Sync(Cancel(u)) /\ Cancel(u).l = u.l /\ Cancel(u).d = u.d)
  /\ Sync(u) => (Sync(Coeff(u)) /\ Coeff(u).l + u.c = u.l)
\* sanity of the proof set-up: this one must be refuted (division is not commutative)
NotALaw == UDiv(u, v) = UDiv(v, u)
=============================================================================
