"""Replay of MultiReg.tla histories on real unyt registries (C13).

observe(case) -> trace record for Trace_C13.tla.  After EVERY step:
  obs     result of the call (ok / raise / bool / unit value / new registry with the identity
          of its table and memo dicts / registry of the result of a binary operation)
  live    which model registry ids exist
  rows    per registry: observed table rows of the 4 keys   [scale, prefixable]
  cache   per registry: is each probe string in the per-registry memo
  lutof / cacheof / kind   dict identity: smallest registry id holding the same dict object
  dig     per registry: the RESOLUTION DIGEST - what Unit(p, registry=r) gives for each probe
          (value, and whether the unit belongs to r); every dict is snapshotted and restored
  dkeep   every row the default registry's table had at import is still equal
  dlkeep  default_unit_symbol_lut is unchanged
  nsdig   digest of every Unit / quantity exported by the `unyt` namespace at import
          (value, offset, dimension identity, registry identity)
  nsnew   attributes of `unyt` that did not exist at import
  conv    conversions between built-in units through the default registry

After every case every module-level dict/list/set of the library (also state a changed library adds) is
restored, and the process-wide state (default registry dicts, default_unit_symbol_lut, unit_system_registry,
attributes of `unyt`, registry pointers of exported units, lru memos) is restored after every case
and verified pristine; a case can therefore never leak into a later one."""

import copy
import hashlib
import json
import os
import pickle
from fractions import Fraction

KEYS = ["foo", "kfoo", "m", "km"]
PROBES = ["foo", "kfoo", "m", "km", "foo*m", "kfoo/km"]

_U = {}


def setup(common=None):
    import numpy as np
    import unyt
    import unyt.array as ua
    import unyt.unit_object as uo
    import unyt.unit_registry as ur
    import unyt.unit_systems as us
    from unyt import dimensions
    from unyt._unit_lookup_table import default_unit_symbol_lut

    D = ur.default_unit_registry
    D.unit_system_id  # memoise the id once (a pure memo; hashing any default-registry unit would do the same)
    lrus = []
    for mod in (ua, uo, ur, us):
        for v in vars(mod).values():
            if hasattr(v, "cache_clear") and v not in lrus:
                lrus.append(v)
    ns_units = [(k, v) for k, v in sorted(vars(unyt).items()) if isinstance(v, uo.Unit)]
    ns_quants = [(k, v) for k, v in sorted(vars(unyt).items()) if isinstance(v, ua.unyt_quantity)]
    _U.update(
        np=np,
        unyt=unyt,
        dims=dimensions,
        Unit=uo.Unit,
        define_unit=uo.define_unit,
        UnitRegistry=ur.UnitRegistry,
        NonMod=ur._NonModifiableUnitRegistry,
        UnitSystem=us.UnitSystem,
        usr=us.unit_system_registry,
        add_symbols=us.add_symbols,
        add_constants=us.add_constants,
        uq=ua.unyt_quantity,
        uarr=ua.unyt_array,
        D=D,
        DL=default_unit_symbol_lut,
        lrus=lrus,
        ns_units=ns_units,
        ns_quants=ns_quants,
        ns_names=set(vars(unyt)),
        max_regs=int((common or {}).get("max_regs", 3)),
        # pristine process-wide state
        D_lut=dict(D.lut),
        D_cache=dict(D._unit_object_cache),
        D_sysid=D._unit_system_id,
        D_cache_regs={k: u.registry for k, u in D._unit_object_cache.items()},
        DL_copy=dict(default_unit_symbol_lut),
        usr_keys=dict(us.unit_system_registry),
        usr_maps={k: (dict(v.units_map), dict(v.base_units)) for k, v in us.unit_system_registry.items()},
        ns_regs=[v.registry for _, v in ns_units],
        nq_units=[v.units for _, v in ns_quants],
        nq_regs=[v.units.registry for _, v in ns_quants],
        nq_vals=[np.array(v.d, copy=True) for _, v in ns_quants],
        # the exported quantity handed to registry calls as an OBJECT (value class "ns"): a length that is not in MKS base units
        ns_arg="planck_length_cgs",
        ns_c=float(unyt.planck_length_cgs.in_base("mks").value),
        nusys=0,
    )
    # every module-level mutable container of the library (also ones a changed library adds, e.g. a memo of
    # restored registries): contents are restored after every case
    import sys as _sys

    conts = []
    seen_ids = set()

    def _isc(v):
        return type(v) in (dict, list, set) or type(v).__name__ == "OrderedDict"

    def _take(label, v):
        if _isc(v) and id(v) not in seen_ids:
            seen_ids.add(id(v))
            conts.append((label, v, v.copy()))

    def _own_class(o):
        return getattr(type(o), "__module__", "").split(".")[0] == "unyt"

    for name, mod in sorted(_sys.modules.items()):
        if not (name == "unyt" or name.startswith("unyt.")) or name.startswith("unyt.tests") or mod is None:
            continue
        for k, v in sorted(vars(mod).items(), key=lambda kv: kv[0]):
            if k.startswith("__"):
                continue
            if _isc(v):
                _take(name + "." + k, v)
                # objects of the library kept in module-level dicts (e.g. the built-in unit systems): their own containers
                if isinstance(v, dict) and len(v) < 200:
                    for k2, o in list(v.items()):
                        if _own_class(o) and hasattr(o, "__dict__"):
                            for k3, w in list(vars(o).items()):
                                _take(f"{name}.{k}[{k2!r}].{k3}", w)
            elif isinstance(v, type) and getattr(v, "__module__", "") == name:
                # class-level containers (a memo kept on a class is process-wide state too)
                for k2, w in list(vars(v).items()):
                    if not k2.startswith("__"):
                        _take(f"{name}.{k}.{k2}", w)
            elif _own_class(v) and hasattr(v, "__dict__") and not isinstance(v, np.ndarray):
                for k2, w in list(vars(v).items()):
                    _take(f"{name}.{k}.{k2}", w)
    _U["containers"] = conts
    _U["ns_parts"] = _nsparts()
    _U["ns_pristine"] = _nsdig()


def _globals_snapshot():
    """Current contents of every process-wide container of the library (cheap shallow copies)."""
    return [v.copy() for _n, v, _s in _U["containers"]]


def _globals_restore(snap):
    """Put every process-wide container back to `snap`: the observation must not be the one that seeds a memo."""
    for (_n, obj, _s), old in zip(_U["containers"], snap):
        try:
            # big tables (name alternatives, the default registry's dicts): length only - a memo grows
            same = len(obj) == len(old) and (len(old) >= 500 or obj == old)
        except Exception:  # noqa: BLE001
            same = False
        if not same:
            if isinstance(obj, list):
                obj[:] = old
            else:
                obj.clear()
                obj.update(old)


def _clear_lru():
    for f in _U["lrus"]:
        if getattr(f, "__name__", "") != "cached_sympify":  # text -> sympy expression: no registry state, expensive to refill
            f.cache_clear()


NS_SCALE = 8  # MultiReg!NsScale: stand-in for the MKS value of the exported quantity _U["ns_arg"]


def _proj_ns(x):
    """x = g * C**e for a small rational g and e in {1, 2, -1}, C the MKS value of the exported quantity used as
    argument (1.6e-35: no other number of the alphabet is near a small multiple of its powers) -> g * NsScale**e."""
    C = _U.get("ns_c")
    if not C or x == 0 or x != x or x in (float("inf"), float("-inf")):
        return None
    for e in (1, 2, -1):
        y = x / C**e
        if not 1e-7 < abs(y) < 2e9:
            continue
        g = Fraction(y).limit_denominator(10**6)
        if g != 0 and abs(float(g) / y - 1) < 1e-9:
            g = g * Fraction(NS_SCALE) ** e
            if abs(g.numerator) < 2**31 and g.denominator < 2**31:
                return g
    return None


def _rat(x):
    f = Fraction(float(x))
    if abs(f.numerator) >= 2**31 or f.denominator >= 2**31:
        g = _proj_ns(float(x))
        f = g if g is not None else f.limit_denominator(10**6)
    return [f.numerator, f.denominator]


def _rows(reg):
    out = []
    for k in KEYS:
        r = reg.lut.get(k)
        if r is None:
            out.append([0, False])
        else:
            sc = float(r[0])
            if sc == int(sc) and 0 < abs(sc) < 2**31:
                out.append([int(sc), bool(r[4])])
            else:
                g = _proj_ns(sc)
                out.append([int(g) if g is not None and g.denominator == 1 else -1, bool(r[4])])
    return out


NUM_SYS = ("mks", "cgs")
NUM_TO = ("km",)


def _digest(reg):
    """What `reg` resolves for each probe string, from the same state each (dicts restored), and NUMBERS computed
    through it: 1 km in the built-in unit systems, 1 m -> in_mks() -> to(name)."""
    Unit = _U["Unit"]
    uq = _U["uq"]
    lut, cache = reg.lut, reg._unit_object_cache
    s_lut, s_cache, s_id = dict(lut), dict(cache), reg._unit_system_id

    def back():
        if len(lut) != len(s_lut) or len(cache) != len(s_cache):
            lut.clear()
            lut.update(s_lut)
            cache.clear()
            cache.update(s_cache)

    out = []
    for p in PROBES:
        try:
            u = Unit(p, registry=reg)
            # "own": the resolved unit belongs to this registry (or to another registry OBJECT on the same table)
            out.append({"k": "unit", "s": _rat(u.base_value), "own": u.registry is reg or u.registry.lut is reg.lut})
        except Exception:  # noqa: BLE001
            out.append({"k": "raise"})
        back()
    num = []
    for sysn in NUM_SYS:
        try:
            x = uq(1.0, "km", registry=reg).in_base(sysn)
            # ref: what reg's OWN TABLE gives for the unit the result carries (expression path: no string memo involved)
            ref = Unit(x.units.expr, registry=reg).base_value
            num.append({"k": "num", "v": _rat(float(x.d)), "s": _rat(x.units.base_value), "ref": _rat(ref)})
        except Exception:  # noqa: BLE001
            num.append({"k": "raise"})
        back()
    for name in NUM_TO:
        try:
            x = uq(1.0, "m", registry=reg).in_mks().to(name)
            num.append({"k": "num", "v": _rat(float(x.d)), "s": _rat(x.units.base_value), "ref": _rat(x.units.base_value)})
        except Exception:  # noqa: BLE001
            num.append({"k": "raise"})
        back()
    reg._unit_system_id = s_id
    return out, num


def _nsparts():
    t = [(v.base_value, v.base_offset, v.dimensions, v.registry) for _, v in _U["ns_units"]]
    q = [(float(v.d), v.units, v.units.registry, v.units.base_value) for _, v in _U["ns_quants"]]
    return t, q


def _nsdig():
    """'pristine' when every exported object is as it was at import, else a digest of what differs."""
    p = _U.get("ns_parts")
    if p is None:
        return "pristine"
    diff = []
    for (n, v), (bv, bo, dim, reg) in zip(_U["ns_units"], p[0]):
        if v.registry is not reg or v.base_value != bv or v.dimensions is not dim or v.base_offset != bo:
            diff.append((n, v.base_value, v.base_offset, str(v.dimensions), v.registry is reg))
    for (n, v), (val, un, reg, bv) in zip(_U["ns_quants"], p[1]):
        u = v.units
        if u is not un or u.registry is not reg or u.base_value != bv or not (float(v.d) == val or val != val):
            diff.append((n, float(v.d), str(u), u.registry is reg, u.base_value))
    if not diff:
        return "pristine"
    return hashlib.md5(repr(diff).encode()).hexdigest()[:16]


def _inplace(q, u):
    q.convert_to_units(u)
    return q.d


def _conv():
    uq = _U["uq"]
    unyt = _U["unyt"]
    cache = _U["D"]._unit_object_cache
    saved = dict(cache)
    out = []
    for f in (
        lambda: uq(1.0, "km").to("m").d,
        lambda: uq(1.0, "m").in_cgs().d,
        lambda: (2.0 * unyt.km).in_base("mks").d,
        lambda: _inplace(uq(3.0, "km"), "m"),  # (no arithmetic here: hashing a unit costs an md5 of the whole table)
    ):
        try:
            out.append(_rat(float(f())))
        except Exception:  # noqa: BLE001
            out.append([0, 1])
    if len(cache) != len(saved):  # the observation itself must not seed the default registry's memo
        cache.clear()
        cache.update(saved)
    return out


def _global_obs():
    D, DL = _U["D"], _U["DL"]
    p = _U["D_lut"]
    lut = D.lut
    dkeep = all(k in lut and (lut[k] is v or lut[k] == v) for k, v in p.items())
    dnew = sorted(k for k in lut if k not in p)
    c = _U["DL_copy"]
    dlkeep = len(DL) == len(c) and all(k in DL and (DL[k] is v or DL[k] == v) for k, v in c.items())
    usr = _U["usr"]
    usyskeep = all(k in usr and usr[k] is v for k, v in _U["usr_keys"].items()) and all(
        dict(usr[k].base_units) == m[1] for k, m in _U["usr_maps"].items() if k in usr
    )
    nsnew = sorted(k for k in vars(_U["unyt"]) if k not in _U["ns_names"])
    return {
        "dkeep": bool(dkeep),
        "dnew": [k for k in dnew if k in KEYS],
        "dnewother": len([k for k in dnew if k not in KEYS]),
        "dlkeep": bool(dlkeep),
        "usyskeep": bool(usyskeep),
        "nsdig": _nsdig(),
        "nsnew": nsnew,
        "conv": _conv(),
    }


def _idof(R, reg):
    for i, r in enumerate(R):
        if r is not None and r is reg:
            return i
    return -1


def _regof(R, reg):
    """Registry id a result's registry stands for: the object itself, else a known registry on the same table
    (e.g. a restored shallow copy that travelled inside a pickled memo)."""
    k = _idof(R, reg)
    if k >= 0:
        return k
    for i, r in enumerate(R):
        if r is not None and r.lut is getattr(reg, "lut", None):
            return i
    return -1


def _snapshot_all(R):
    live = [r is not None for r in R]
    rows, cache, lutof, cacheof, kind, dig, num = [], [], [], [], [], [], []
    g = _globals_snapshot()
    for i, r in enumerate(R):
        if r is None:
            rows.append([])
            cache.append([])
            lutof.append(-1)
            cacheof.append(-1)
            kind.append("none")
            dig.append([])
            num.append([])
            continue
        rows.append(_rows(r))
        cache.append([p in r._unit_object_cache for p in PROBES])
        lutof.append(min(j for j, q in enumerate(R) if q is not None and q.lut is r.lut))
        cacheof.append(min(j for j, q in enumerate(R) if q is not None and q._unit_object_cache is r._unit_object_cache))
        kind.append("default" if isinstance(r, _U["NonMod"]) else "custom")
        d, n = _digest(r)
        dig.append(d)
        num.append(n)
        _globals_restore(g)
    out = {"live": live, "rows": rows, "cache": cache, "lutof": lutof, "cacheof": cacheof, "kind": kind, "dig": dig, "num": num}
    out.update(_global_obs())
    _globals_restore(g)
    return out


def _new(R, e, reg):
    """Register the registry a constructor returned under the id the history gave it.

    A constructor that hands out a registry object that already exists (instead of a new one) still gets the
    slot: the history goes on talking to it under the new id, so the frame predicate sees the sharing."""
    n = e["new"]
    known = _idof(R, reg)
    if known >= 0 and known == n:
        return {"k": "same", "r": known}
    if 0 < n < len(R) and R[n] is None:
        R[n] = reg
        return {"k": "new", "r": n}
    if known >= 0:
        return {"k": "same", "r": known}
    return {"k": "unexpected-registry"}


def step(R, e):
    U = _U
    L = U["dims"].length
    op = e["op"]
    exc = ""
    reg = R[e["r"]] if 0 <= e["r"] < len(R) else None
    try:
        if reg is None:
            raise LookupError("history names a registry that does not exist")
        if op == "add":
            reg.add(e["sym"], float(e["scale"]), L, prefixable=bool(e["pfx"]))
            obs = {"k": "ok"}
        elif op == "modify":
            via = e.get("via", "num")
            if via == "num":
                reg.modify(e["sym"], float(e["scale"]))
                obs = {"k": "ok"}
            else:
                # the value is a quantity OBJECT somebody else holds: the caller's own (default registry, km) or the
                # one exported by the namespace; it must be the same object with the same number and unit afterwards
                q = U["uq"](float(e["scale"]) / 1000.0, "km") if via == "qty" else getattr(U["unyt"], U["ns_arg"])
                held = (float(q.d), q.units, q.units.registry)
                reg.modify(e["sym"], q)
                obs = {"k": "ok"} if (float(q.d), q.units, q.units.registry) == held and q.units is held[1] else {"k": "arg-changed"}
        elif op == "remove":
            reg.remove(e["sym"])
            obs = {"k": "ok"}
        elif op == "contains":
            obs = {"k": "bool", "b": bool(e["sym"] in reg)}
        elif op == "unit":
            u = U["Unit"](e["str"], registry=reg)
            obs = {"k": "unit", "s": _rat(u.base_value)}
        elif op == "define":
            ns = e.get("via", "num") == "ns"
            q = getattr(U["unyt"], U["ns_arg"]) if ns else (float(e["scale"]), "m")
            held = (float(q.d), q.units, q.units.registry) if ns else None
            if e["r"] == 0:
                U["define_unit"](e["sym"], q, prefixable=bool(e["pfx"]))
            else:
                U["define_unit"](e["sym"], q, prefixable=bool(e["pfx"]), registry=reg)
            obs = {"k": "ok"} if not ns or ((float(q.d), q.units, q.units.registry) == held and q.units is held[1]) else {"k": "arg-changed"}
        elif op == "new":
            if e["defs"]:
                new = U["UnitRegistry"](unit_system=e["usys"]) if e["usys"] != "mks" else U["UnitRegistry"]()
            else:
                new = U["UnitRegistry"](add_default_symbols=False)
            obs = _new(R, e, new)
        elif op == "lutalias":
            new = U["UnitRegistry"](lut=reg.lut) if e["defs"] else U["UnitRegistry"](lut=reg.lut, add_default_symbols=False)
            obs = _new(R, e, new)
        elif op == "lutcopy":
            obs = _new(R, e, U["UnitRegistry"](lut=dict(reg.lut)))
        elif op == "json":
            obs = _new(R, e, U["UnitRegistry"].from_json(reg.to_json()))
        elif op == "deepcopy":
            obs = _new(R, e, copy.deepcopy(reg))
        elif op == "unpickle":
            q = U["uq"](3.0, e["str"], registry=reg)
            q2 = pickle.loads(pickle.dumps(q))
            obs = _new(R, e, q2.units.registry)
        elif op == "unitcopy":
            u = U["Unit"](e["str"], registry=reg)
            c = u.copy(deep=True) if e["deep"] else u.copy()
            obs = _new(R, e, c.registry)
        elif op == "handle":
            if e["how"] == "copyreg":
                new = copy.copy(reg)
            else:
                u = U["Unit"]("m", registry=reg)
                new = (u**5).copy().registry  # "m**5" is in no string memo (the default registry's holds m**2, m**3 ...)
            obs = _new(R, e, new)
        elif op == "picklereg":
            if e["how"] == "registry":
                new = pickle.loads(pickle.dumps(reg))
            else:
                new = pickle.loads(pickle.dumps(U["Unit"](e["str"], registry=reg))).registry
            obs = _new(R, e, new)
        elif op == "inbase":
            x = U["uq"](1.0, e["str"], registry=reg).in_base(e["sys"])
            if e["str2"]:
                x = x.to(e["str2"])
            rr = x.units.registry
            known = _idof(R, rr)
            # converted data may carry a shallow copy of reg (same table): report the registry it stands for
            obs = {"k": "res", "r": known if known >= 0 else (e["r"] if rr.lut is reg.lut else -1)}
        elif op == "usys":
            U["nusys"] += 1
            # obj: the length unit as the Unit OBJECT exported by the namespace instead of its name
            U["UnitSystem"]("c13_us_%d" % U["nusys"], getattr(U["unyt"], e["sym"]) if e.get("obj") else e["sym"], "kg", "s", registry=reg)
            obs = {"k": "ok"}
        elif op == "addsymbols":
            U["add_symbols"]({}, reg)
            obs = {"k": "ok"}
        elif op == "addconstants":
            U["add_constants"]({}, reg)
            obs = {"k": "ok"}
        elif op == "rebind":
            src = R[e["r2"]]
            u = getattr(U["unyt"], e["str"]) if e["r2"] == 0 else U["Unit"](e["str"], registry=src)
            a = U["uarr"](U["np"].array([1.0, 2.0]), u, registry=reg, bypass_validation=bool(e["bypass"]))
            obs = {"k": "res", "r": _regof(R, a.units.registry)}
        elif op == "convert":
            x = U["uarr"]([1.0, 2.0], e["str"], registry=reg)
            src = R[e["r2"]]
            u = getattr(U["unyt"], e["str2"]) if e["r2"] == 0 else U["Unit"](e["str2"], registry=src)
            how = e["how"]
            if how == "to":
                obs = {"k": "res", "r": _regof(R, x.to(u).units.registry)}
            elif how == "in_units":
                obs = {"k": "res", "r": _regof(R, x.in_units(u).units.registry)}
            elif how == "to_value":
                x.to_value(u)
                obs = {"k": "ok"}
            else:
                x.convert_to_units(u)
                obs = {"k": "res", "r": _regof(R, x.units.registry)}
        elif op == "binop":
            if not e["warm"]:
                _clear_lru()
            a = U["uq"](3.0, e["str"], registry=reg)
            b = U["uq"](2.0, e["str2"], registry=R[e["r2"]])
            res = a * b if e["fn"] == "mul" else a / b if e["fn"] == "div" else a + b
            # lreg / rreg: the registry objects the operands actually carry (a memoised unit belongs to the registry
            # object that first built it, which may be another handle on the same table)
            obs = {"k": "res", "r": _regof(R, res.units.registry), "lreg": _regof(R, a.units.registry), "rreg": _regof(R, b.units.registry)}
        else:
            raise ValueError("unknown op " + op)
    except Exception as ex:  # noqa: BLE001
        obs = {"k": "raise"}
        exc = type(ex).__name__
    out = dict(e)
    if op in ("modify", "define"):
        out.setdefault("via", "num")
    if op == "usys":
        out.setdefault("obj", False)
    out["obs"] = obs
    out["exc"] = exc
    out.update(_snapshot_all(R))
    return out


def _restore_process():
    U = _U
    D = U["D"]
    D.lut.clear()
    D.lut.update(U["D_lut"])
    D._unit_object_cache.clear()
    D._unit_object_cache.update(U["D_cache"])
    D._unit_system_id = U["D_sysid"]
    DL = U["DL"]
    DL.clear()
    DL.update(U["DL_copy"])
    usr = U["usr"]
    for k in list(usr):
        if k not in U["usr_keys"]:
            del usr[k]
    for k, v in U["usr_keys"].items():
        usr[k] = v
    for k in list(vars(U["unyt"])):
        if k not in U["ns_names"]:
            delattr(U["unyt"], k)
    for (_, v), r in zip(U["ns_units"], U["ns_regs"]):
        if v.registry is not r:
            v.registry = r
    for (_, v), un, r, val in zip(U["ns_quants"], U["nq_units"], U["nq_regs"], U["nq_vals"]):
        if v.units is not un:
            v.units = un
        if v.units.registry is not r:
            v.units.registry = r
        d = v.view(U["np"].ndarray)
        if not (d == val or val != val):  # a call that rescaled an exported quantity in place
            d[...] = val
    for k, u in D._unit_object_cache.items():
        if u.registry is not U["D_cache_regs"][k]:
            u.registry = U["D_cache_regs"][k]
    for _name, obj, snap in U.get("containers", ()):
        if obj is D.lut or obj is D._unit_object_cache or obj is DL or obj is usr:
            continue
        try:
            same = len(obj) == len(snap) and obj == snap
        except Exception:  # noqa: BLE001
            same = False
        if not same:
            if isinstance(obj, list):
                obj[:] = snap
            else:
                obj.clear()
                obj.update(snap)
    _clear_lru()


def _observe(case):
    U = _U
    _clear_lru()
    R = [U["D"]] + [None] * U["max_regs"]
    try:
        init = _snapshot_all(R)
        ev = [step(R, e) for e in case["h"]]
    finally:
        _restore_process()
    after = _global_obs()
    if not (after["nsdig"] == U["ns_pristine"] and after["dkeep"] and after["dlkeep"] and after["usyskeep"] and not after["nsnew"] and after["dnewother"] == 0 and not after["dnew"]):
        raise RuntimeError("process-wide state could not be restored: " + str({k: v for k, v in after.items() if k != "conv"}))
    return {"init": init, "ev": ev}


_WARM = [
    {"op": "new", "r": 0, "new": 1, "defs": True, "usys": "mks"},
    {"op": "add", "r": 1, "sym": "foo", "scale": 2, "pfx": True},
    {"op": "unit", "r": 1, "str": "kfoo/km"},
    {"op": "unit", "r": 1, "str": "foo*m"},
    {"op": "contains", "r": 1, "sym": "km"},
    {"op": "json", "r": 1, "new": 2},
    {"op": "unpickle", "r": 1, "new": 3, "str": "kfoo"},
    {"op": "binop", "fn": "mul", "r": 1, "str": "foo", "r2": 0, "str2": "m", "warm": False},
    {"op": "binop", "fn": "div", "r": 2, "str": "kfoo", "r2": 1, "str2": "m", "warm": False},
    {"op": "binop", "fn": "add", "r": 3, "str": "foo", "r2": 1, "str2": "m", "warm": False},
    {"op": "convert", "how": "to", "r": 1, "str": "m", "r2": 0, "str2": "km"},
    {"op": "rebind", "r": 1, "r2": 2, "str": "m", "bypass": False},
    {"op": "modify", "r": 2, "sym": "m", "scale": 4},
    {"op": "remove", "r": 3, "sym": "kfoo"},
]
_WARM2 = [
    {"op": "deepcopy", "r": 0, "new": 1},
    {"op": "unitcopy", "r": 1, "new": 2, "str": "m", "deep": True},
    {"op": "lutcopy", "r": 0, "new": 3},
    {"op": "add", "r": 0, "sym": "foo", "scale": 2, "pfx": True},
    {"op": "remove", "r": 0, "sym": "km"},
]


def _warm():
    """Run two representative histories in the parent so that the forked children inherit warm parsing caches
    (the parent is restored and verified pristine afterwards, like after any case)."""
    _observe({"h": _WARM})
    _observe({"h": _WARM2})


def observe(case):
    """Run one history.  With C13_FORK=1 in a forked child of the (pristine) worker process (perfect isolation,
    about +15 ms per case); by default in-process, where the default registry, the exported namespace, every
    module-level dict/list/set of the library (also ones a changed library adds) and every lru memo are restored
    after each case."""
    if not os.environ.get("C13_FORK") or not hasattr(os, "fork"):
        return _observe(case)  # default: in-process; restore + verification after every case (see _restore_process)
    if not _U.get("warm"):
        _warm()
        _U["warm"] = True
    rfd, wfd = os.pipe()
    pid = os.fork()
    if pid == 0:
        code = 0
        try:
            os.close(rfd)
            try:
                data = json.dumps(_observe(case))
            except BaseException as ex:  # noqa: BLE001
                data = json.dumps({"_error": type(ex).__name__ + ": " + str(ex)[:300]})
            with os.fdopen(wfd, "w") as f:
                f.write(data)
        except BaseException:  # noqa: BLE001
            code = 1
        finally:
            os._exit(code)
    os.close(wfd)
    with os.fdopen(rfd) as f:
        data = f.read()
    os.waitpid(pid, 0)
    if not data:
        return {"_error": "replay child died without a result"}
    return json.loads(data)
