CONSTANTS
  TableUnits <- NoTable
  Units = {"la","lb","ta","nd","pc","K","degC","delta_degC"}
  ConvUnits = {"la","lb","ta","nd","pc","K","degC","delta_degC","C","statC"}
  UKinds0 = {"q","a","az","bs","ba","z","za","lq","ts","tm","nz","tq","lzq","lbq","lqb","tlqm","lqm3"}
  UKinds1 = {"q","a","az","bs","ba","bl","z","za","lq","lqm","ts","tm","nz","tq","lzq","lbq","lqb","tlqm","lqm3"}
  UfOps = {"add","subtract","less","equal","maximum","hypot","divmod","multiply"}
  Forms = {"call","outer","operator","iop","out","at","reduce_initial"}
  ArrFns = {"concatenate","where","clip","copyto_where"}
  Fams = {"ufunc","arrfn","setitem","conv","unitop","hist"}
  SpUnits = {"la","K"}
  Hists = {"modify","readd","tworeg"}
  HUnits = {"la","lb","ta"}
  ArrForms = {"call","kw","kwall","out","kwout","lo","hi","kwlo","kwhi","alias","aliaslo","aliashi","aliasout","method","methodkw","methodlo","methodhi"}
  AliasOps = {"clip"}
  DlUnits = {"pc","nq","lr"}
INIT Init
NEXT NextAll
INVARIANT Export
INVARIANT Uncovered
CHECK_DEADLOCK FALSE
