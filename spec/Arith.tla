------------------------------- MODULE Arith -------------------------------
(* C04 - arithmetic on quantities as a register machine.                      *)
(*                                                                            *)
(* A register holds an array of exact rationals with a unit (a vector of      *)
(* exponents over a fixed alphabet of atomic units).  One step applies one    *)
(* arithmetic operation (ufunc / operator / in-place / out= / reduce /        *)
(* accumulate / outer / dot / power / root / comparison / trig of an angle)   *)
(* to earlier registers.                                                      *)
(*                                                                            *)
(* Two layers:                                                                *)
(*  - property side  (Ref.., P..) : the result is the same mathematics on the   *)
(*    SI magnitudes, dimension by dimensional analysis; sums and differences  *)
(*    in the unit of the left operand.  Nothing else is demanded.             *)
(*  - implementation side (Impl.., T..): transcription of                      *)
(*    unyt_array.__array_ufunc__ (array.py): operand 1 is rescaled into       *)
(*    operand 0's unit for the preserve/difference/comparison rules; for the  *)
(*    multiply/divide rules the ufunc runs on the raw numbers and the result  *)
(*    is post-multiplied by the coefficient that Unit.simplify cancelled out  *)
(*    of the unit expression (_cancel_mul, as_coeff_unit; plus the            *)
(*    dimensionless-with-scale-not-1 reset); divmod is a pass-through rule    *)
(*    (no rescale at all); power/sqrt/... apply the exponent to the unit.     *)
(*                                                                            *)
(* Scales never become floats: the scale of an atom is a vector of exponents  *)
(* of the primes <<2,3,5,127>>, so ratios of commensurable scales are exact   *)
(* and 32-bit safe.  All value arithmetic is *checked* ([ok, v] records): an  *)
(* operation whose intermediate products would leave the 32-bit range is not  *)
(* ok - the generator does not emit such steps, the trace side reports them   *)
(* as undecided instead of crashing.                                          *)
EXTENDS Rational, Sequences, FiniteSets, TLC, Json

(* ------------------------------------------------------------------------ *)
(* atoms                                                                     *)
(* ------------------------------------------------------------------------ *)
NA == 31
NG == 4
NP == 4
Primes == <<2, 3, 5, 127>>
PBits == <<1, 2, 3, 7>>          \* ceil(log2 p)
AtomName == <<"xla", "xlb", "xlc", "xta", "xtb", "xnq", "km", "cm", "ft", "min", "percent", "degree", "arcmin", "xst", "radian", "xls", "xlt", "xlh", "xli", "fm", "pm", "fs", "ps", "Zm", "Ym", "eV", "keV", "MeV", "lat", "lon", "xva">>
\* dimension group: 1 length, 2 time, 3 angle, 4 energy, 0 dimensionless, 5 compound (no pairwise-cancellation model)
AtomGrp == <<1, 1, 1, 2, 2, 0, 1, 1, 1, 2, 0, 3, 3, 3, 3, 1, 1, 1, 1, 1, 1, 2, 2, 1, 1, 4, 4, 4, 3, 3, 5>>
\* dimension of each atom as exponents of <<length, time, angle, energy>> (xva is a velocity: the only compound atom)
AtomDim == << <<1, 0, 0, 0>>, <<1, 0, 0, 0>>, <<1, 0, 0, 0>>, <<0, 1, 0, 0>>, <<0, 1, 0, 0>>, <<0, 0, 0, 0>>, <<1, 0, 0, 0>>, <<1, 0, 0, 0>>, <<1, 0, 0, 0>>, <<0, 1, 0, 0>>, <<0, 0, 0, 0>>, <<0, 0, 1, 0>>, <<0, 0, 1, 0>>, <<0, 0, 1, 0>>, <<0, 0, 1, 0>>, <<1, 0, 0, 0>>, <<1, 0, 0, 0>>, <<1, 0, 0, 0>>, <<1, 0, 0, 0>>, <<1, 0, 0, 0>>, <<1, 0, 0, 0>>, <<0, 1, 0, 0>>, <<0, 1, 0, 0>>, <<1, 0, 0, 0>>, <<1, 0, 0, 0>>, <<0, 0, 0, 1>>, <<0, 0, 0, 1>>, <<0, 0, 0, 1>>, <<0, 0, 1, 0>>, <<0, 0, 1, 0>>, <<1, -1, 0, 0>> >>
\* scale = prod Primes[p]^AtomPV[i][p].  The x.. atoms live in a custom registry with power-of-two scales (float
\* arithmetic is exact; names chosen so that unyt does not resolve them by itself).  Angles are measured in degrees in
\* the model; xst is a custom unit of 15 degrees; a number in radian is carried in the model as a multiple of pi/12 (the
\* harness multiplies/divides by (pi/12)^exponent-of-radian).
\* Magnitude classes: xls/xlt (2^-60, 2^-55) and fm/pm, fs/ps have SI scales far below 1e-12; xlh/xli (2^70, 2^75) and
\* Zm/Ym far above 1e20; eV/keV/MeV (energy, ~1e-19..1e-13 J) are carried RELATIVE to eV - only ratios of commensurable
\* scales ever enter the predicates, and no other atom of the alphabet is commensurable with a monomial holding an energy.
AtomPV == << <<0, 0, 0, 0>>,
             <<5, 0, 0, 0>>,
             <<-3, 0, 0, 0>>,
             <<0, 0, 0, 0>>,
             <<4, 0, 0, 0>>,
             <<-2, 0, 0, 0>>,
             <<3, 0, 3, 0>>,
             <<-2, 0, -2, 0>>,
             <<-1, 1, -4, 1>>,
             <<2, 1, 1, 0>>,
             <<-2, 0, -2, 0>>,
             <<0, 0, 0, 0>>,
             <<-2, -1, -1, 0>>,
             <<0, 1, 1, 0>>,
             <<0, 1, 1, 0>>,
             <<-60, 0, 0, 0>>,
             <<-55, 0, 0, 0>>,
             <<70, 0, 0, 0>>,
             <<75, 0, 0, 0>>,
             <<-15, 0, -15, 0>>,
             <<-12, 0, -12, 0>>,
             <<-15, 0, -15, 0>>,
             <<-12, 0, -12, 0>>,
             <<21, 0, 21, 0>>,
             <<24, 0, 24, 0>>,
             <<0, 0, 0, 0>>,
             <<3, 0, 3, 0>>,
             <<6, 0, 6, 0>>,
             <<0, 0, 0, 0>>,
             <<0, 0, 0, 0>>,
             <<3, 0, 0, 0>> >>
AtomDyadic == <<TRUE, TRUE, TRUE, TRUE, TRUE, TRUE, FALSE, FALSE, FALSE, FALSE, FALSE, FALSE, FALSE, FALSE, FALSE, TRUE, TRUE, TRUE, TRUE, FALSE, FALSE, FALSE, FALSE, FALSE, FALSE, FALSE, FALSE, FALSE, FALSE, FALSE, TRUE>>
StAtom == 14
\* angle units with a zero point: angle in degrees = 90 - x (lat), x + 180 (lon).  They take part in trig only (what a sum
\* of a point and a difference means is affine-space semantics, which C04 does not state)
LatAtom == 29
LonAtom == 30
CompAtom == 31

(* a unit = exponents x6 over the atoms (x6 keeps 1/2 and 1/3 integral) *)
UOne == [i \in 1..NA |-> 0]
UAtom(i) == [j \in 1..NA |-> IF j = i THEN 6 ELSE 0]
UMul(a, b) == [i \in 1..NA |-> a[i] + b[i]]
UDiv(a, b) == [i \in 1..NA |-> a[i] - b[i]]
UPowOk(a, n, d) == \A i \in 1..NA : (a[i] * n) % d = 0
UPow(a, n, d) == [i \in 1..NA |-> (a[i] * n) \div d]
UIntegral(a) == \A i \in 1..NA : a[i] % 6 = 0
HasOffset(a) == a[LatAtom] # 0 \/ a[LonAtom] # 0
\* units whose pairwise cancellation (_cancel_mul) is transcribed: integral exponents, no compound atom
Simple(a) == UIntegral(a) /\ a[CompAtom] = 0
UDyadic(a) == \A i \in 1..NA : a[i] # 0 => AtomDyadic[i]
RECURSIVE SumF(_, _)
SumF(f, n) == IF n = 0 THEN 0 ELSE f[n] + SumF(f, n - 1)
IAbs(x) == IF x < 0 THEN -x ELSE x
\* scale of a unit: prime exponents x6
\* (unrolled from AtomPV / AtomGrp for speed, as balanced sums to keep TLC's evaluation stack shallow; ASSUME below checks it)
SV(u) == <<((((5 * u[2] + (-3) * u[3]) + (4 * u[5] + ((-2) * u[6] + 3 * u[7]))) + (((-2) * u[8] + ((-1) * u[9] + 2 * u[10])) + ((-2) * u[11] + ((-2) * u[13] + (-60) * u[16])))) + ((((-55) * u[17] + (70 * u[18] + 75 * u[19])) + ((-15) * u[20] + ((-12) * u[21] + (-15) * u[22]))) + (((-12) * u[23] + (21 * u[24] + 24 * u[25])) + (3 * u[27] + (6 * u[28] + 3 * u[31]))))), ((u[9] + u[10]) + ((-1) * u[13] + (u[14] + u[15]))), ((((3 * u[7] + (-2) * u[8]) + ((-4) * u[9] + u[10])) + (((-2) * u[11] + (-1) * u[13]) + (u[14] + u[15]))) + ((((-15) * u[20] + (-12) * u[21]) + ((-15) * u[22] + (-12) * u[23])) + ((21 * u[24] + 24 * u[25]) + (3 * u[27] + 6 * u[28])))), u[9]>>
\* dimension of a unit: exponents x6 of <<length, time, angle, energy>>
DV(u) == <<(((u[1] + (u[2] + u[3])) + ((u[7] + u[8]) + (u[9] + u[16]))) + (((u[17] + u[18]) + (u[19] + u[20])) + ((u[21] + u[24]) + (u[25] + u[31])))), ((u[4] + (u[5] + u[10])) + (u[22] + (u[23] + (-1) * u[31]))), ((u[12] + (u[13] + u[14])) + (u[15] + (u[29] + u[30]))), (u[26] + (u[27] + u[28]))>>
SVdef(u) == [p \in 1..NP |-> SumF([i \in 1..NA |-> u[i] * AtomPV[i][p]], NA)]
DVdef(u) == [g \in 1..NG |-> SumF([i \in 1..NA |-> u[i] * AtomDim[i][g]], NA)]
ASSUME \A i \in 1..NA : SV(UAtom(i)) = SVdef(UAtom(i)) /\ DV(UAtom(i)) = DVdef(UAtom(i))

DZero3 == <<0, 0, 0, 0>>     \* (the name predates the energy group)
DAngle1 == <<0, 0, 6, 0>>
VAdd(a, b) == [p \in DOMAIN a |-> a[p] + b[p]]
VSub(a, b) == [p \in DOMAIN a |-> a[p] - b[p]]
VScale(a, n) == [p \in DOMAIN a |-> a[p] * n]
VDivOk(a, d) == \A p \in DOMAIN a : a[p] % d = 0
VDiv(a, d) == [p \in DOMAIN a |-> a[p] \div d]

(* ------------------------------------------------------------------------ *)
(* checked rational arithmetic                                               *)
(* ------------------------------------------------------------------------ *)
Lim == 536870912        \* 2^29
Bad == [ok |-> FALSE, v |-> RZero]
G(x) == [ok |-> TRUE, v |-> x]
MulOk(x, y) == x = 0 \/ y = 0 \/ IAbs(x) <= Lim \div IAbs(y)
CMul(x, y) == IF x.ok /\ y.ok /\ MulOk(x.v[1], y.v[1]) /\ MulOk(x.v[2], y.v[2]) THEN G(RMul(x.v, y.v)) ELSE Bad
\* (Rational!Norm needs a positive denominator: the sign of the divisor is moved to the numerator first)
CDiv(x, y) == IF x.ok /\ y.ok /\ y.v[1] # 0 /\ MulOk(x.v[1], y.v[2]) /\ MulOk(x.v[2], y.v[1])
              THEN G(IF y.v[1] < 0 THEN Norm(-(x.v[1] * y.v[2]), x.v[2] * (-y.v[1])) ELSE Norm(x.v[1] * y.v[2], x.v[2] * y.v[1]))
              ELSE Bad
CrossOk(x, y) == MulOk(x.v[1], y.v[2]) /\ MulOk(y.v[1], x.v[2]) /\ MulOk(x.v[2], y.v[2])
CAdd(x, y) == IF x.ok /\ y.ok /\ CrossOk(x, y) THEN G(RAdd(x.v, y.v)) ELSE Bad
CNeg(x) == IF x.ok THEN G(RNeg(x.v)) ELSE Bad
CSub(x, y) == CAdd(x, CNeg(y))
CAbs(x) == IF x.ok THEN G(RAbs(x.v)) ELSE Bad
\* comparisons: [ok, b]
CLt(x, y) == IF x.ok /\ y.ok /\ CrossOk(x, y) THEN [ok |-> TRUE, b |-> RLt(x.v, y.v)] ELSE [ok |-> FALSE, b |-> FALSE]
CEq(x, y) == IF x.ok /\ y.ok THEN [ok |-> TRUE, b |-> x.v = y.v] ELSE [ok |-> FALSE, b |-> FALSE]
BoolR(c) == IF c.ok THEN G(IF c.b THEN ROne ELSE RZero) ELSE Bad
NotB(c) == [ok |-> c.ok, b |-> ~c.b]
CMax(x, y) == LET c == CLt(x, y) IN IF c.ok THEN (IF c.b THEN y ELSE x) ELSE Bad
CMin(x, y) == LET c == CLt(y, x) IN IF c.ok THEN (IF c.b THEN y ELSE x) ELSE Bad
CFloor(x) == IF x.ok THEN G(R(x.v[1] \div x.v[2])) ELSE Bad          \* denominators are positive: \div floors
CTrunc(x) == IF ~x.ok THEN Bad ELSE IF x.v[1] < 0 THEN G(R(-((-x.v[1]) \div x.v[2]))) ELSE G(R(x.v[1] \div x.v[2]))
CFloorDiv(x, y) == CFloor(CDiv(x, y))
CMod(x, y) == CSub(x, CMul(y, CFloorDiv(x, y)))                      \* sign of the divisor (np.remainder, %)
CFmod(x, y) == CSub(x, CMul(y, CTrunc(CDiv(x, y))))                  \* sign of the dividend (np.fmod)
CSign(x) == IF x.ok THEN G(R(RSign(x.v))) ELSE Bad
RECURSIVE CPowNat(_, _)
CPowNat(x, n) == IF n = 0 THEN G(ROne) ELSE CMul(x, CPowNat(x, n - 1))
CPowInt(x, n) == IF n >= 0 THEN CPowNat(x, n) ELSE CDiv(G(ROne), CPowNat(x, -n))
\* exact integer roots of small numbers
RECURSIVE IRootBS(_, _, _, _)
IPowD(k, d) == IF d = 2 THEN k * k ELSE k * k * k
\* smallest k in lo..hi with k^d >= n (bisection: the recursion depth stays small)
IRootBS(n, d, lo, hi) == IF lo >= hi THEN lo
                         ELSE LET mid == (lo + hi) \div 2 IN
                              IF IPowD(mid, d) >= n THEN IRootBS(n, d, lo, mid) ELSE IRootBS(n, d, mid + 1, hi)
IRootFrom(n, d, k) == IRootBS(n, d, 0, 1000)
IRootOk(n, d) == n >= 0 /\ n <= 1000000 /\ LET k == IRootFrom(n, d, 0) IN (IF d = 2 THEN k * k ELSE k * k * k) = n
CRoot(x, d) ==     \* d in {1,2,3}; real root; even root of a negative is not ok
  IF ~x.ok THEN Bad
  ELSE IF d = 1 THEN x
  ELSE LET neg == x.v[1] < 0  n == IAbs(x.v[1])  m == x.v[2] IN
       IF (neg /\ d = 2) \/ ~IRootOk(n, d) \/ ~IRootOk(m, d) THEN Bad
       ELSE G(<<(IF neg THEN -1 ELSE 1) * IRootFrom(n, d, 0), IRootFrom(m, d, 0)>>)
\* a ratio of scales given as prime exponents x6 -> checked rational
RECURSIVE IPow(_, _)
IPow(b, e) == IF e = 0 THEN 1 ELSE b * IPow(b, e - 1)
PosBits(v) == SumF([p \in 1..NP |-> IF v[p] > 0 THEN (v[p] \div 6) * PBits[p] ELSE 0], NP)
NegBits(v) == SumF([p \in 1..NP |-> IF v[p] < 0 THEN ((-v[p]) \div 6) * PBits[p] ELSE 0], NP)
PVRat(v) ==
  IF ~VDivOk(v, 6) \/ PosBits(v) > 28 \/ NegBits(v) > 28 THEN Bad
  ELSE G(<< IPow(2, IF v[1] > 0 THEN v[1] \div 6 ELSE 0) * IPow(3, IF v[2] > 0 THEN v[2] \div 6 ELSE 0)
              * IPow(5, IF v[3] > 0 THEN v[3] \div 6 ELSE 0) * IPow(127, IF v[4] > 0 THEN v[4] \div 6 ELSE 0),
            IPow(2, IF v[1] < 0 THEN (-v[1]) \div 6 ELSE 0) * IPow(3, IF v[2] < 0 THEN (-v[2]) \div 6 ELSE 0)
              * IPow(5, IF v[3] < 0 THEN (-v[3]) \div 6 ELSE 0) * IPow(127, IF v[4] < 0 THEN (-v[4]) \div 6 ELSE 0) >>)

(* checked vectors: tuples of checked rationals *)
GV(t) == [i \in DOMAIN t |-> G(t[i])]
AllOk(t) == \A i \in DOMAIN t : t[i].ok
Strip(t) == [i \in DOMAIN t |-> t[i].v]
At(t, i) == IF Len(t) = 1 THEN t[1] ELSE t[i]
MaxLen2(a, b) == IF Len(a) > Len(b) THEN Len(a) ELSE Len(b)
Map1(F(_), a) == [i \in 1..Len(a) |-> F(a[i])]
Map2(F(_, _), a, b) == [i \in 1..MaxLen2(a, b) |-> F(At(a, i), At(b, i))]
Outer2(F(_, _), a, b) == <<F(a[1], b[1]), F(a[1], b[2]), F(a[2], b[1]), F(a[2], b[2])>>     \* (2,) x (2,) -> (2,2) row-major
RECURSIVE FoldL(_, _, _)
FoldL(F(_, _), a, n) == IF n = 1 THEN a[1] ELSE F(FoldL(F, a, n - 1), a[n])
Accum(F(_, _), a) == [i \in 1..Len(a) |-> FoldL(F, a, i)]

(* ------------------------------------------------------------------------ *)
(* operations                                                                *)
(* ------------------------------------------------------------------------ *)
HomBin == {"add", "subtract", "remainder", "fmod", "maximum", "minimum", "fmax", "fmin", "hypot", "copysign"}
CmpBin == {"less", "less_equal", "greater", "greater_equal", "equal", "not_equal"}
MulBin == {"multiply", "divide", "floor_divide"}
DivMod == {"divmod_q", "divmod_r"}
HomUn == {"negative", "positive", "absolute", "fabs"}
PowUn == {"sqrt", "cbrt", "square", "reciprocal"}
Trig == {"sin", "cos", "tan"}
\* discontinuous in their operands: decided only on exact operands or away from the jump
Discontinuous == {"remainder", "fmod", "floor_divide", "divmod_q", "divmod_r", "sign"} \cup CmpBin
LeftUnitOps == {"add", "subtract"}
PowOf(op, p) == CASE op = "sqrt" -> <<1, 2>> [] op = "cbrt" -> <<1, 3>> [] op = "square" -> <<2, 1>>
                  [] op = "reciprocal" -> <<-1, 1>> [] OTHER -> p

\* elementwise mathematics on two numbers expressed on a common scale
Elem(op, a, b) ==
  CASE op = "add" -> CAdd(a, b)
    [] op = "subtract" -> CSub(a, b)
    [] op \in {"remainder", "divmod_r"} -> CMod(a, b)
    [] op = "fmod" -> CFmod(a, b)
    [] op \in {"maximum", "fmax"} -> CMax(a, b)
    [] op \in {"minimum", "fmin"} -> CMin(a, b)
    [] op = "hypot" -> CRoot(CAdd(CMul(a, a), CMul(b, b)), 2)
    [] op = "copysign" -> IF ~(a.ok /\ b.ok) THEN Bad ELSE IF b.v[1] < 0 THEN CNeg(CAbs(a)) ELSE CAbs(a)
    [] op = "less" -> BoolR(CLt(a, b))
    [] op = "greater" -> BoolR(CLt(b, a))
    [] op = "less_equal" -> BoolR(NotB(CLt(b, a)))
    [] op = "greater_equal" -> BoolR(NotB(CLt(a, b)))
    [] op = "equal" -> BoolR(CEq(a, b))
    [] op = "not_equal" -> BoolR(NotB(CEq(a, b)))
    [] op = "multiply" -> CMul(a, b)
    [] op = "divide" -> CDiv(a, b)
    [] op \in {"floor_divide", "divmod_q"} -> CFloorDiv(a, b)
Elem1(op, a) ==
  CASE op = "negative" -> CNeg(a)
    [] op = "positive" -> a
    [] op \in {"absolute", "fabs"} -> CAbs(a)
    [] op = "sign" -> CSign(a)
\* trig at multiples of 15 degrees where the value is rational; n = angle / 15 degrees
SinSet == {0, 2, 6, 10, 12, 14, 18, 22}
SinVal(m) == CASE m \in {0, 12} -> RZero [] m \in {2, 10} -> <<1, 2>> [] m = 6 -> ROne
               [] m \in {14, 22} -> <<-1, 2>> [] m = 18 -> <<-1, 1>>
TanSet == {0, 3, 9, 12, 15, 21}
TanVal(m) == CASE m \in {0, 12} -> RZero [] m \in {3, 15} -> ROne [] m \in {9, 21} -> <<-1, 1>>
TrigVal(op, x) ==     \* x = checked rational number of 15-degree steps
  IF ~x.ok \/ x.v[2] # 1 \/ IAbs(x.v[1]) > 1000 THEN Bad
  ELSE LET m == x.v[1] % 24  c == (x.v[1] + 6) % 24 IN
       CASE op = "sin" -> IF m \in SinSet THEN G(SinVal(m)) ELSE Bad
         [] op = "cos" -> IF c \in SinSet THEN G(SinVal(c)) ELSE Bad
         [] op = "tan" -> IF m \in TanSet THEN G(TanVal(m)) ELSE Bad

\* combine two value tuples according to the ufunc method
Comb(F(_, _), meth, a, b) ==
  CASE meth = "call" -> Map2(F, a, b)
    [] meth = "outer" -> Outer2(F, a, b)
\* the method applied to ONE operand: reduce / accumulate of a binary op over a 1-d register
RedOps == {"add", "multiply", "maximum", "minimum", "divide"}

(* ------------------------------------------------------------------------ *)
(* registries, carried scales, complex numbers                               *)
(* ------------------------------------------------------------------------ *)
\* A register carries the SI scale of its unit (sv, prime exponents x6) next to the symbol exponents (u): in unyt a Unit
\* carries its own base_value, and two registries may give one symbol different sizes (yt: every dataset has its own
\* code_length).  The predicates read the scale the object carries (result.units.base_value), never the symbol table.
\* Registry 1 = unyt's default symbols + the custom atoms as in AtomPV; registry 2 = the same symbols, but
\* xla = 2^2 (1 in registry 1), xlb = 2^-1 (2^5), xta = 2^3 (1); registry 3 = a plain UnitRegistry() (default symbols only).
SZero == <<0, 0, 0, 0>>
\* <<atom, log2 of its size in registry 2>> (exported to the harness; SV2 below is the same table, unrolled)
Reg2Atoms == << <<1, 2>>, <<2, -1>>, <<4, 3>> >>
SV2(u) == LET t == SV(u) IN <<t[1] + 2 * u[1] + (-6) * u[2] + 3 * u[4], t[2], t[3], t[4]>>
ASSUME \A k \in DOMAIN Reg2Atoms : SV2(UAtom(Reg2Atoms[k][1])) = <<6 * Reg2Atoms[k][2], 0, 0, 0>>
SVr(rg, u) == IF rg = 2 THEN SV2(u) ELSE SV(u)
\* the registry the result unit of a binary operation is bound to: the left operand's (a bare left operand borrows the right one's)
LeftRg(A, B) == IF A.k = "q" THEN A.rg ELSE B.rg
\* complex data: a register with cx = TRUE holds n complex numbers as 2n rationals (real parts, then imaginary parts).
\* add / subtract / negative act on the two halves separately; equal / not_equal combine the halves.
ZeroV(n) == [i \in 1..n |-> RZero]
Emb(X) == IF X.cx THEN X.v ELSE X.v \o ZeroV(Len(X.v))
EmbR(X) == IF X.k = "x" THEN X ELSE [X EXCEPT !.v = Emb(X), !.cx = TRUE]
CxCase(A, B) == A.cx \/ B.cx
CxOps == {"add", "subtract", "equal", "not_equal", "negative", "positive"}
ELen(X) == IF X.cx THEN Len(X.v) ELSE 2 * Len(X.v)

(* ------------------------------------------------------------------------ *)
(* property side: the reference result, expressed in a given unit `ur`       *)
(* A, B : [k, u, sv, rg, cx, v]  k = "q" quantity with unit u | "n" bare number(s) *)
(*                    (u = UOne) | "b" bare result (bool / sign / trig)      *)
(* returns [ok, v] : tuple of checked rationals, and the reference dimension *)
(* ------------------------------------------------------------------------ *)
SameDim(A, B) == DV(A.u) = DV(B.u)
RefDim(op, meth, A, B, p) ==     \* [bare, d]
  CASE op \in CmpBin \cup Trig \cup {"sign"} -> [bare |-> TRUE, d |-> DZero3]
    [] op \in HomBin \cup HomUn \cup {"divmod_r"} ->
         [bare |-> FALSE, d |-> DV(A.u)]
    [] op = "multiply" -> [bare |-> FALSE, d |-> IF meth = "reduce" THEN VScale(DV(A.u), Len(A.v)) ELSE VAdd(DV(A.u), DV(B.u))]
    [] op = "dot" -> [bare |-> FALSE, d |-> VAdd(DV(A.u), DV(B.u))]
    [] op = "divide" -> [bare |-> FALSE, d |-> IF meth = "reduce" THEN VScale(DV(A.u), 2 - Len(A.v)) ELSE VSub(DV(A.u), DV(B.u))]
    [] op \in {"floor_divide", "divmod_q"} -> [bare |-> FALSE, d |-> VSub(DV(A.u), DV(B.u))]
    [] op \in PowUn \cup {"power"} -> LET q == PowOf(op, p) IN [bare |-> FALSE, d |-> VDiv(VScale(DV(A.u), q[1]), q[2])]

RefVals(op, meth, A, B, p, ur) ==
  LET s0 == A.sv  s1 == B.sv  sr == ur.sv  a == GV(A.v)  b == GV(B.v) IN
  CASE op \in HomBin \cup {"divmod_r"} /\ meth \in {"call", "outer"} ->
         \* r * sr = f(a * s0, b * s1)   <=>   r = f(a, b * s1/s0) / (sr/s0)     (f homogeneous of degree 1)
         LET c1 == PVRat(VSub(s1, s0))  cr == PVRat(VSub(sr, s0)) IN
         Comb(LAMBDA x, y : CDiv(Elem(op, x, CMul(y, c1)), cr), meth, a, b)
    [] op \in {"add", "maximum", "minimum"} /\ meth = "reduce" ->
         LET cr == PVRat(VSub(sr, s0)) IN <<CDiv(FoldL(LAMBDA x, y : Elem(op, x, y), a, Len(a)), cr)>>
    [] op \in {"add", "maximum", "minimum"} /\ meth = "accumulate" ->
         LET cr == PVRat(VSub(sr, s0)) IN Map1(LAMBDA x : CDiv(x, cr), Accum(LAMBDA x, y : Elem(op, x, y), a))
    [] op \in CmpBin ->
         LET c1 == PVRat(VSub(s1, s0)) IN Comb(LAMBDA x, y : Elem(op, x, CMul(y, c1)), meth, a, b)
    [] op = "multiply" /\ meth \in {"call", "outer"} ->
         LET c == PVRat(VSub(VAdd(s0, s1), sr)) IN Comb(LAMBDA x, y : CMul(CMul(x, y), c), meth, a, b)
    [] op = "multiply" /\ meth = "reduce" ->
         LET c == PVRat(VSub(VScale(s0, Len(a)), sr)) IN <<CMul(FoldL(CMul, a, Len(a)), c)>>
    [] op = "divide" /\ meth \in {"call", "outer"} ->
         LET c == PVRat(VSub(VSub(s0, s1), sr)) IN Comb(LAMBDA x, y : CMul(CDiv(x, y), c), meth, a, b)
    [] op = "divide" /\ meth = "reduce" ->
         LET c == PVRat(VSub(VScale(s0, 2 - Len(a)), sr)) IN <<CMul(FoldL(CDiv, a, Len(a)), c)>>
    [] op \in {"floor_divide", "divmod_q"} ->
         \* r * sr = floor(a*s0 / (b*s1))
         LET q == PVRat(VSub(s0, s1))  cr == PVRat(sr) IN
         Comb(LAMBDA x, y : CDiv(CFloor(CMul(CDiv(x, y), q)), cr), meth, a, b)
    [] op = "dot" ->
         LET c == PVRat(VSub(VAdd(s0, s1), sr)) IN
         <<CMul(FoldL(CAdd, Map2(CMul, a, b), Len(a)), c)>>
    [] op \in HomUn -> LET cr == PVRat(VSub(sr, s0)) IN Map1(LAMBDA x : CDiv(Elem1(op, x), cr), a)
    [] op = "sign" -> Map1(LAMBDA x : Elem1(op, x), a)
    [] op \in PowUn \cup {"power"} ->
         \* (r*sr)^d = (a*s0)^n   <=>   r = root_d( a^n * s0^n / sr^d )
         LET q == PowOf(op, p)  c == PVRat(VSub(VScale(s0, q[1]), VScale(sr, q[2]))) IN
         Map1(LAMBDA x : CRoot(CMul(CPowInt(x, q[1]), c), q[2]), a)
    [] op \in Trig ->
         \* the angle itself (for lat/lon: through the zero point), in steps of 15 degrees
         LET c == PVRat(VSub(s0, SV(UAtom(StAtom))))
             ang(x) == IF A.u = UAtom(LatAtom) THEN CSub(G(R(90)), x) ELSE IF A.u = UAtom(LonAtom) THEN CAdd(x, G(R(180))) ELSE x IN
         Map1(LAMBDA x : TrigVal(op, CMul(ang(x), c)), a)

FoldCmp(op, t) ==
  LET n == Len(t) \div 2 IN
  [i \in 1..n |-> IF ~(t[i].ok /\ t[n + i].ok) THEN Bad
                  ELSE IF op = "equal" THEN G(IF t[i].v = ROne /\ t[n + i].v = ROne THEN ROne ELSE RZero)
                  ELSE G(IF t[i].v = ROne \/ t[n + i].v = ROne THEN ROne ELSE RZero)]
RefValsC(op, meth, A, B, p, ur) ==
  IF ~CxCase(A, B) THEN RefVals(op, meth, A, B, p, ur)
  ELSE LET t == RefVals(op, meth, EmbR(A), EmbR(B), p, ur) IN IF op \in CmpBin THEN FoldCmp(op, t) ELSE t
\* is the step inside the claim?  (commensurable operands where the mathematics needs them)
InClaim(op, meth, A, B) ==
  /\ op \in HomBin \cup CmpBin \cup DivMod \cup {"floor_divide"} => (B.k # "x" /\ SameDim(A, B))
  /\ op \in Trig => DV(A.u) = DAngle1 /\ (HasOffset(A.u) => A.u \in {UAtom(LatAtom), UAtom(LonAtom)})
  /\ op \notin Trig => ~(HasOffset(A.u) \/ HasOffset(B.u))
  \* complex data: the operations that act on real and imaginary parts separately (ordering, remainders ... of complex
  \* numbers are NumPy's business or undefined)
  /\ CxCase(A, B) => (op \in CxOps /\ meth = "call" /\ (B.k = "x" \/ ELen(A) = ELen(B)))

\* integer data.  NumPy evaluates a ufunc whose operands are all integer-typed (a bare whole number adopts the other
\* operand's type) in that integer type and wraps around silently beyond its range: that is NumPy's arithmetic on the
\* numbers the user wrote, not something the units bookkeeping adds - a step whose RAW result (the ufunc on the operands'
\* own numbers) leaves the range of the narrowest integer type involved is outside the claim.  Everything the bookkeeping
\* adds on top (rescaling an operand, multiplying by a cancellation coefficient) is inside: the SI mathematics does not
\* depend on the numeric type the operands are written in.  dt: "i1" "u1" "i2" "u2" "i4" "i8" (anything else: not integer);
\* the range of the wide types is beyond the checked 32-bit arithmetic anyway.
IntKind(dt) == dt \in {"i1", "u1", "i2", "u2", "i4", "i8"}
IntHi(dt) == CASE dt = "i1" -> 127 [] dt = "u1" -> 255 [] dt = "i2" -> 32767 [] dt = "u2" -> 65535 [] OTHER -> Lim
IntLo(dt) == CASE dt = "i1" -> -128 [] dt \in {"u1", "u2"} -> 0 [] dt = "i2" -> -32768 [] OTHER -> -Lim
RawInt(A, B) == /\ IntKind(A.dt) \/ A.k = "n"
                /\ IntKind(B.dt) \/ B.k \in {"n", "x"}
                /\ IntKind(A.dt) \/ IntKind(B.dt)
RawHi(A, B) == IF ~IntKind(A.dt) THEN IntHi(B.dt) ELSE IF ~IntKind(B.dt) THEN IntHi(A.dt)
               ELSE IF IntHi(A.dt) < IntHi(B.dt) THEN IntHi(A.dt) ELSE IntHi(B.dt)
RawLo(A, B) == IF ~IntKind(A.dt) THEN IntLo(B.dt) ELSE IF ~IntKind(B.dt) THEN IntLo(A.dt)
               ELSE IF IntLo(A.dt) > IntLo(B.dt) THEN IntLo(A.dt) ELSE IntLo(B.dt)
\* the numbers NumPy computes in the integer type (operations that cannot leave the range, or that produce floats, have none;
\* in a sum of products only the total matters: wrap-around is arithmetic modulo 2^n)
RawVals(op, meth, A, B) ==
  LET a == GV(A.v)  b == GV(B.v) IN
  CASE op \in {"add", "subtract", "multiply", "floor_divide"} /\ meth \in {"call", "outer"} -> Comb(LAMBDA x, y : Elem(op, x, y), meth, a, b)
    [] op = "dot" -> <<FoldL(CAdd, Map2(CMul, a, b), Len(a))>>
    [] op \in {"add", "multiply"} /\ meth = "reduce" -> <<FoldL(LAMBDA x, y : Elem(op, x, y), a, Len(a))>>
    [] op = "add" /\ meth = "accumulate" -> Accum(LAMBDA x, y : Elem(op, x, y), a)
    [] op = "square" -> Map1(LAMBDA x : CMul(x, x), a)
    [] op \in {"negative", "absolute"} -> Map1(LAMBDA x : Elem1(op, x), a)
    [] OTHER -> <<>>
IntFits(op, meth, A, B, p) ==
  RawInt(A, B) =>
    /\ op # "reciprocal"            \* (the reciprocal of an integer is truncated by NumPy)
    /\ LET r == RawVals(op, meth, A, B)  hi == RawHi(A, B)  lo == RawLo(A, B) IN
       AllOk(r) /\ \A i \in DOMAIN r : r[i].v[2] # 1 \/ (r[i].v[1] <= hi /\ r[i].v[1] >= lo)

\* a number in radian is carried as a multiple of pi/12: an operation that floors RAW numbers of operands in different
\* units (what the transcription of floor_divide / divmod does) cannot be followed through that change of variable
RadianAtom == 15
RadianRaw(op, A, B) == /\ A.u[RadianAtom] # 0 \/ B.u[RadianAtom] # 0
                       /\ \/ op \in {"floor_divide", "divmod_q", "divmod_r"} /\ A.u # B.u
                          \/ op = "divmod_q"        \* the raw quotient comes back labelled with operand 0's unit
\* rationals have no signed zero: copysign(a, -0.0) cannot be told from copysign(a, 0.0)
SignedZeroFree(op, A, B) == op = "copysign" => \A i \in DOMAIN B.v : B.v[i][1] # 0
\* away from the jump of a discontinuous operation (needed when an operand is only known to tolerance)
Robust(op, meth, A, B) ==
  LET c1 == PVRat(VSub(B.sv, A.sv))  a == GV(A.v)  b == GV(B.v) IN
  IF CxCase(A, B) THEN FALSE ELSE
  CASE op \in {"remainder", "fmod", "floor_divide", "divmod_q", "divmod_r"} ->
         \* neither the quotient of the quantities nor (what the transcription floors) the quotient of the raw numbers is integral
         LET t == Comb(LAMBDA x, y : CDiv(x, CMul(y, c1)), meth, a, b)
             w == Comb(LAMBDA x, y : CDiv(x, y), meth, a, b) IN
         AllOk(t) /\ AllOk(w) /\ \A i \in DOMAIN t : t[i].v[2] # 1 /\ w[i].v[2] # 1
    [] op \in CmpBin ->
         LET t == Comb(LAMBDA x, y : CSub(x, CMul(y, c1)), meth, a, b) IN
         AllOk(t) /\ \A i \in DOMAIN t : t[i].v[1] # 0
    [] op = "sign" -> \A i \in DOMAIN A.v : A.v[i][1] # 0
    [] OTHER -> TRUE

(* P on one observed step.  R = [k, u, v, rep]: observed result; rep[i] = value i could be encoded *)
\* result: "ok" | "value" | "dim" | "leftunit" | "undecided"
PVerdict(op, meth, A, B, p, Rs) ==
  \* a bare result is read as a dimensionless number of scale 1 (whether a pure number comes back as ndarray or as a
  \* dimensionless quantity is not C04's business; T is strict about it)
  LET rd == RefDim(op, meth, A, B, p)
      R0 == IF Rs.k = "b" THEN [u |-> UOne, sv |-> SZero] ELSE [u |-> Rs.u, sv |-> Rs.sv]
      ue == R0.u IN
  IF rd.bare /\ ue # UOne THEN "dim"
  ELSE IF ~rd.bare /\ DV(ue) # rd.d THEN "dim"
  ELSE IF op \in LeftUnitOps /\ (ue # A.u \/ R0.sv # A.sv) THEN "leftunit"
  ELSE LET want == RefValsC(op, meth, A, B, p, R0) IN
       IF ~AllOk(want) THEN "undecided"
       ELSE IF Len(want) # Len(Rs.v) THEN "value"
       ELSE IF \A i \in DOMAIN want : Rs.v[i] = want[i].v THEN "ok" ELSE "value"

(* ------------------------------------------------------------------------ *)
(* implementation side                                                       *)
(* ------------------------------------------------------------------------ *)
\* Unit.simplify (_cancel_mul): pairs of factors with a dimensionless product are cancelled until none
\* is left; which of several equivalent pairs goes first is sympy's business, so the relation admits
\* every outcome: within a dimension group only factors of the sign of the net exponent survive, each
\* at most as often as it occurred; dimensionless atoms cancel pairwise whatever their sign.
GrpNet(u, g) == SumF([i \in 1..NA |-> IF AtomGrp[i] = g THEN u[i] ELSE 0], NA)
GrpCount(u, g) == SumF([i \in 1..NA |-> IF AtomGrp[i] = g THEN IAbs(u[i]) ELSE 0], NA)
ValidCancel(uin, ur) ==
  /\ \A g \in 1..NG : LET net == GrpNet(uin, g) IN
        /\ GrpNet(ur, g) = net
        /\ \A i \in 1..NA : AtomGrp[i] = g =>
             IF net > 0 THEN ur[i] >= 0 /\ ur[i] <= (IF uin[i] > 0 THEN uin[i] ELSE 0)
             ELSE IF net < 0 THEN ur[i] <= 0 /\ ur[i] >= (IF uin[i] < 0 THEN uin[i] ELSE 0)
             ELSE ur[i] = 0
  \* (the explicit unit `dimensionless` is itself a symbol that pairs with a dimensionless atom, so the parity of the
  \* number of survivors is not fixed by the exponent vector: at most one dimensionless atom survives)
  /\ GrpCount(ur, 0) <= 6
  /\ \A i \in 1..NA : (AtomGrp[i] = 0 /\ ur[i] # 0) => (uin[i] # 0 /\ (ur[i] > 0) = (uin[i] > 0))
\* one canonical outcome for the generator: survivors are taken in atom order
RECURSIVE KeepGrp(_, _, _, _, _)
KeepGrp(u, g, i, left, acc) ==      \* left = signed number (x6) of exponents still to keep
  IF i > NA THEN acc
  ELSE IF AtomGrp[i] # g \/ left = 0 \/ (u[i] > 0) # (left > 0) \/ u[i] = 0 THEN KeepGrp(u, g, i + 1, left, acc)
  ELSE LET take == IF IAbs(u[i]) <= IAbs(left) THEN u[i] ELSE left IN
       KeepGrp(u, g, i + 1, left - take, [acc EXCEPT ![i] = take])
FirstDimless(u) == CHOOSE i \in 1..NA : AtomGrp[i] = 0 /\ u[i] # 0 /\ \A j \in 1..(i - 1) : ~(AtomGrp[j] = 0 /\ u[j] # 0)
Cancel(u) ==
  LET a1 == KeepGrp(u, 1, 1, GrpNet(u, 1), UOne)
      a2 == KeepGrp(u, 2, 1, GrpNet(u, 2), a1)
      a3x == KeepGrp(u, 3, 1, GrpNet(u, 3), a2)
      a3 == KeepGrp(u, 4, 1, GrpNet(u, 4), a3x) IN
  IF (GrpCount(u, 0) \div 6) % 2 = 1
  THEN LET i == FirstDimless(u) IN [a3 EXCEPT ![i] = IF u[i] > 0 THEN 6 ELSE -6]
  ELSE a3
\* groups in which something can cancel
Cancellable(u) == (\E g \in 1..NG : GrpCount(u, g) # IAbs(GrpNet(u, g))) \/ GrpCount(u, 0) >= 12
\* array.py:1977-1984 : a dimensionless result with scale != 1 of commensurable dimensioned operands is
\* multiplied out and relabelled dimensionless
Step6(u0, u1, u, sv) == DV(u) = DZero3 /\ DV(u0) # DZero3 /\ DV(u0) = DV(u1) /\ sv # SZero
MulUnitIn(op, meth, A, B) ==
  CASE op \in {"multiply", "dot"} /\ meth # "reduce" -> UMul(A.u, B.u)
    [] op = "multiply" -> UPow(A.u, Len(A.v), 1)
    [] op \in {"divide", "floor_divide"} /\ meth # "reduce" -> UDiv(A.u, B.u)
    [] op = "divide" -> UPow(A.u, 2 - Len(A.v), 1)
\* scale of the un-simplified result unit: the product / quotient / power of the scales the operands carry
SVin(op, meth, A, B) ==
  CASE op \in {"multiply", "dot"} /\ meth # "reduce" -> VAdd(A.sv, B.sv)
    [] op = "multiply" -> VScale(A.sv, Len(A.v))
    [] op \in {"divide", "floor_divide"} /\ meth # "reduce" -> VSub(A.sv, B.sv)
    [] op = "divide" -> VScale(A.sv, 2 - Len(A.v))
\* canonical result unit of the transcription and the scale it carries: [u, sv].  The coefficient that simplification
\* takes out is valued by the symbol table of the registry the result unit is bound to (_cancel_mul(expr, registry));
\* as_coeff_unit divides exactly that coefficient out of the CARRIED scale.
ImplRes(op, meth, A, B, p) ==
  CASE op \in MulBin \cup {"dot"} /\ meth # "reduce" ->
         LET uin == MulUnitIn(op, meth, A, B)
             c == IF Simple(uin) THEN Cancel(uin) ELSE uin
             rg == LeftRg(A, B)
             svc == VSub(SVin(op, meth, A, B), VSub(SVr(rg, uin), SVr(rg, c))) IN
         IF Step6(A.u, B.u, c, svc) THEN [u |-> UOne, sv |-> SZero] ELSE [u |-> c, sv |-> svc]
    [] op \in MulBin -> [u |-> MulUnitIn(op, meth, A, B), sv |-> SVin(op, meth, A, B)]         \* reduce: unit ** n, no simplification
    [] op \in PowUn \cup {"power"} -> LET q == PowOf(op, p) IN [u |-> UPow(A.u, q[1], q[2]), sv |-> VDiv(VScale(A.sv, q[1]), q[2])]
    [] OTHER -> [u |-> A.u, sv |-> A.sv]
ImplUnit(op, meth, A, B, p) == ImplRes(op, meth, A, B, p).u
ImplBare(op) == op \in CmpBin \cup Trig \cup {"sign"}
\* the numbers the implementation computes, given the unit `ur` it labels them with
ImplVals(op, meth, A, B, p, ur) ==
  LET a == GV(A.v)  b == GV(B.v)  s0 == A.sv  s1 == B.sv IN
  CASE op \in HomBin \cup CmpBin /\ meth \in {"call", "outer"} ->
         \* operand 1 is multiplied by conv = scale(u1)/scale(u0); copysign is a pass-through rule (no rescale)
         LET c1 == IF op = "copysign" THEN G(ROne) ELSE PVRat(VSub(s1, s0)) IN
         Comb(LAMBDA x, y : Elem(op, x, CMul(y, c1)), meth, a, b)
    [] op \in DivMod -> Comb(LAMBDA x, y : Elem(op, x, y), meth, a, b)        \* pass-through: raw numbers, unit of operand 0
    [] op \in {"add", "maximum", "minimum"} /\ meth = "reduce" -> <<FoldL(LAMBDA x, y : Elem(op, x, y), a, Len(a))>>
    [] op \in {"add", "maximum", "minimum"} /\ meth = "accumulate" -> Accum(LAMBDA x, y : Elem(op, x, y), a)
    [] op \in MulBin /\ meth \in {"call", "outer"} ->
         \* raw ufunc, then post-multiplication by the coefficient cancelled out of the unit
         LET c == PVRat(VSub(SVin(op, meth, A, B), ur.sv)) IN
         Comb(LAMBDA x, y : CMul(Elem(op, x, y), c), meth, a, b)
    [] op = "dot" ->
         LET c == PVRat(VSub(SVin(op, meth, A, B), ur.sv)) IN
         <<CMul(FoldL(CAdd, Map2(CMul, a, b), Len(a)), c)>>
    [] op \in {"multiply", "divide"} /\ meth = "reduce" ->
         <<FoldL(LAMBDA x, y : Elem(op, x, y), a, Len(a))>>
    [] op \in HomUn \cup {"sign"} -> Map1(LAMBDA x : Elem1(op, x), a)
    [] op \in PowUn \cup {"power"} -> LET q == PowOf(op, p) IN Map1(LAMBDA x : CRoot(CPowInt(x, q[1]), q[2]), a)
    [] op \in Trig -> RefVals(op, meth, A, B, p, [u |-> UOne, sv |-> SZero])       \* converts to radian first: same mathematics
ImplValsC(op, meth, A, B, p, ur) ==
  IF ~CxCase(A, B) THEN ImplVals(op, meth, A, B, p, ur)
  ELSE LET t == ImplVals(op, meth, EmbR(A), EmbR(B), p, ur) IN IF op \in CmpBin THEN FoldCmp(op, t) ELSE t

\* T on one observed step: "ok" | "unit" | "value" | "undecided"
TVerdict(op, meth, A, B, p, Rs) ==
  \* floor_divide: the transcription also admits the repaired order of operations (fixes/C04-floor-divide-common-scale.patch:
  \* commensurable operands are brought to one unit BEFORE flooring; the result is dimensionless with scale 1)
  IF op = "floor_divide" /\ A.k = "q" /\ B.k = "q" /\ SameDim(A, B) /\ (A.u # B.u \/ A.sv # B.sv) /\ Rs.k = "q" /\ Rs.u = UOne /\ Rs.sv = SZero
     /\ PVerdict(op, meth, A, B, p, Rs) = "ok" THEN "ok"
  ELSE IF ImplBare(op) # (Rs.k = "b") THEN "unit"
  ELSE LET unitok ==
             IF ImplBare(op) THEN TRUE
             ELSE IF op \in MulBin \cup {"dot"} /\ meth # "reduce" THEN
                    LET uin == MulUnitIn(op, meth, A, B) IN
                    IF ~Simple(uin) THEN DV(Rs.u) = DV(uin)
                    ELSE \/ ValidCancel(uin, Rs.u)
                         \/ (Rs.u = UOne /\ DV(uin) = DZero3 /\ DV(A.u) # DZero3 /\ DV(A.u) = DV(B.u))
                         \* unyt_array.dot / np.dot / vdot / inner multiply the units without simplifying
                         \/ (op = "dot" /\ Rs.u = uin)
                  ELSE Rs.u = ImplUnit(op, meth, A, B, p)
           \* the scale the result unit carries
           scaleok ==
             IF ImplBare(op) THEN TRUE
             ELSE IF op \in MulBin \cup {"dot"} /\ meth # "reduce" THEN
                    LET uin == MulUnitIn(op, meth, A, B)  rg == LeftRg(A, B) IN
                    IF ~Simple(uin) THEN TRUE
                    ELSE \/ Rs.sv = VSub(SVin(op, meth, A, B), VSub(SVr(rg, uin), SVr(rg, Rs.u)))
                         \/ (Rs.u = UOne /\ Rs.sv = SZero)
                  ELSE Rs.sv = ImplRes(op, meth, A, B, p).sv IN
       IF ~unitok THEN "unit"
       ELSE IF ~scaleok THEN "scale"
       ELSE LET want == ImplValsC(op, meth, A, B, p, IF ImplBare(op) THEN [u |-> UOne, sv |-> SZero] ELSE [u |-> Rs.u, sv |-> Rs.sv]) IN
            IF ~AllOk(want) THEN "undecided"
            ELSE IF Len(want) # Len(Rs.v) THEN "value"
            ELSE IF \A i \in DOMAIN want : Rs.v[i] = want[i].v THEN "ok" ELSE "value"

(* ------------------------------------------------------------------------ *)
(* powers with a general rational exponent ("powerx"): exponent space        *)
(* ------------------------------------------------------------------------ *)
\* x ** p for an exponent p = n/d that is NOT a ratio of small integers (1.4142 = 7071/5000, 0.3333, 1/7 ...) has
\* irrational numbers and a unit whose exponents do not fit the x6 grid.  Such a step is judged in exponent space:
\* a positive number whose numerator and denominator factor over <<2,3,5,127>> IS its vector of prime exponents, a scale
\* is one already, and raising to p multiplies every exponent by p - all exact rationals.  The observed result
\* (harness projection, register kind "l") carries
\*   ue : exponent of every atom in the result unit (NA rationals)        dq : result.units.dimensions (NG rationals)
\*   sv : prime exponents of result.units.base_value (NP rationals)       lv : prime exponents of each number
\*   si : prime exponents of each SI magnitude result.d * result.units.base_value   (the property's observation point)
\* floats are matched by the harness to the vectors the specification expects (else the sentinel <<0,0>>).
RECURSIVE PExp(_, _)
PExp(n, q) == IF n % q = 0 THEN 1 + PExp(n \div q, q) ELSE 0
RECURSIVE PStrip(_, _)
PStrip(n, q) == IF n % q = 0 THEN PStrip(n \div q, q) ELSE n
FactInt(n) == n > 0 /\ PStrip(PStrip(PStrip(PStrip(n, 2), 3), 5), 127) = 1
FactOk(x) == FactInt(x[1]) /\ FactInt(x[2])
FactV(x) == [j \in 1..NP |-> PExp(x[1], Primes[j]) - PExp(x[2], Primes[j])]
\* (n/6) * p as a normalised rational; vectors given x6
QInt6(n, p) == Norm(n * p[1], 6 * p[2])
QVec6(v, p) == [j \in DOMAIN v |-> QInt6(v[j], p)]
QVecOk(v, p) == p[2] > 0 /\ p[2] <= 50000000 /\ \A j \in DOMAIN v : MulOk(v[j], p[1])
\* SI magnitude of element i of a register: prime exponents x6
SIx6(A, i) == LET f == FactV(A.v[i]) IN [j \in 1..NP |-> 6 * f[j] + A.sv[j]]
LVx6(A, i) == LET f == FactV(A.v[i]) IN [j \in 1..NP |-> 6 * f[j]]
\* inside the claim: a quantity with positive real numbers (a non-integral power of a negative number is not a real
\* number), no zero point; decidable in exponent space when every number factors over the primes
InClaimX(A, p) == A.k = "q" /\ ~A.cx /\ ~HasOffset(A.u)
DecidableX(A, p) == /\ \A i \in DOMAIN A.v : FactOk(A.v[i])
                    /\ QVecOk(A.u, p) /\ QVecOk(A.sv, p) /\ QVecOk(DV(A.u), p)
                    /\ \A i \in DOMAIN A.v : QVecOk(SIx6(A, i), p) /\ QVecOk(LVx6(A, i), p)
\* property side: dimension by dimensional analysis, SI magnitude = (SI magnitude of the operand) ** p
RefX(A, p) == [dq |-> QVec6(DV(A.u), p), si |-> [i \in DOMAIN A.v |-> QVec6(SIx6(A, i), p)]]
PVerdictX(A, p, Rs) ==
  LET ref == RefX(A, p) IN
  IF Rs.dq # ref.dq THEN "dim"
  ELSE IF Len(Rs.si) # Len(ref.si) THEN "value"
  ELSE IF \A i \in DOMAIN ref.si : Rs.si[i] = ref.si[i] THEN "ok" ELSE "value"
\* implementation side (unit_object.py Unit.__pow__, array.py power branch): the float exponent is rationalised by
\* Rational(str(p)).limit_denominator() - the identity for denominators up to 10^6 -, the unit expression, its base_value
\* and its dimensions are raised to that rational, the numbers to the float
ImplX(A, p) == [ue |-> QVec6(A.u, p), sv |-> QVec6(A.sv, p), lv |-> [i \in DOMAIN A.v |-> QVec6(LVx6(A, i), p)]]
TVerdictX(A, p, Rs) ==
  LET r == ImplX(A, p) IN
  IF p[2] > 1000000 THEN "undecided"
  ELSE IF Rs.bare \/ Rs.ue # r.ue THEN "unit"
  ELSE IF Rs.sv # r.sv THEN "scale"
  ELSE IF Len(Rs.lv) # Len(r.lv) THEN "value"
  ELSE IF \A i \in DOMAIN r.lv : Rs.lv[i] = r.lv[i] THEN "ok" ELSE "value"

\* the transcription's own result (generator side): [ok, k, u, sv, rg, cx, v]
ImplStep(op, meth, A, B, p) ==
  LET r == IF ImplBare(op) THEN [u |-> UOne, sv |-> SZero] ELSE ImplRes(op, meth, A, B, p)
      v == ImplValsC(op, meth, A, B, p, r) IN
  [ok |-> AllOk(v), k |-> IF ImplBare(op) THEN "b" ELSE "q", u |-> r.u, sv |-> r.sv,
   rg |-> IF ImplBare(op) THEN 0 ELSE LeftRg(A, B), cx |-> CxCase(A, B) /\ ~ImplBare(op),
   v |-> IF AllOk(v) THEN Strip(v) ELSE <<>>]
=============================================================================
