CONSTANTS
  MaxLen = 1
  ExportLen = 1
  LeafSet = {1, 2, 4, 5}
  XShapes = {"v"}
  YShapes = {"v"}
  ValSets = {1}
  ReexAll = FALSE
  InitPairs = {}
  ClassPairs = FALSE
  RegPairs = {11, 12}
  ReexReg = FALSE
  DTX = {"f8"}
  DTY = {"f8", "c16"}
  MixedShapes = FALSE
  ResBound = 8192
  OpSet = {"add", "subtract", "remainder", "fmod", "maximum", "minimum", "fmax", "fmin", "hypot", "copysign", "less", "less_equal", "greater", "greater_equal", "equal", "not_equal", "multiply", "divide", "floor_divide", "divmod_q", "divmod_r", "negative", "positive", "absolute", "fabs", "sqrt", "cbrt", "square", "reciprocal", "sin", "cos", "tan", "sign", "power", "dot"}
INIT Init
NEXT Next
INVARIANT Export
CHECK_DEADLOCK FALSE
