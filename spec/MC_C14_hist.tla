---------------------------- MODULE MC_C14_hist ----------------------------
(* All histories of at most MaxLen Unit(str, registry=reg) calls on one      *)
(* registry over a small alphabet of strings (plain, prefixed, doubly        *)
(* prefixed, alias, prefix on a non-prefixable unit, the "da" prefix, the    *)
(* degree-sign alias).  TLC checks on the transcription that resolution is   *)
(* history-free (HistoryFree) and exports every maximal history for replay.  *)
EXTENDS NamesReg
CONSTANT MaxLen
Alpha == JsonDeserialize(IOEnv.ALPHABET)
AlphaCase(a) == [pk |-> Alpha[a].pk, pi |-> Alpha[a].pi, b |-> Alpha[a].b]
Next == /\ Len(hist) < MaxLen
        /\ \E a \in DOMAIN Alpha : Construct(CaseStr(AlphaCase(a))) /\ hist' = Append(hist, a)
Spec == RegInit /\ [][Next]_rvars
\* model level: the outcome of a call does not depend on the calls before it
HistoryFree == hist # <<>> =>
  LET n == CaseStr(AlphaCase(hist[Len(hist)]))
      m == Resolve(n) IN
  (last.m.ok = m.ok /\ last.m.i = m.i /\ last.m.e = m.e)
    \/ PrintT(ToJson([tag |-> "MODEL-HISTORY-DEPENDENT", h |-> hist, stateless |-> m, stateful |-> last.m]))
Export == Len(hist) = MaxLen => PrintT(ToJson([tag |-> "HIST", h |-> hist]))
=============================================================================
