--------------------------- MODULE ConstantsUse ---------------------------
(* C15, stateful part: the exported constants stay one quantity in all their *)
(* guises while a program USES them.                                         *)
(*                                                                           *)
(* A history takes one guise of a constant (a module-level singleton, or an  *)
(* entry of a namespace built by add_constants for a registry), applies 1-3  *)
(* calls that are documented to return a NEW object (in_base / in_mks /      *)
(* in_cgs / to / in_units / copy / arithmetic / to_equivalent), each on the  *)
(* previous result, and then ONE in-place call on the last result            *)
(* (y *= k, convert_to_mks or cgs, y[...] = v, np.copyto, ufunc out=, fill). *)
(*                                                                           *)
(* transition side: the documented heap discipline - the constant owns       *)
(*   buffer 0, the i-th call returns an object with the fresh buffer i, the  *)
(*   in-place call writes buffer Len(ops); buffer 0 is never written.        *)
(* property side: after the history every exported constant of the namespace *)
(*   (and of the module) still is what it was - no guise, alias or copy      *)
(*   changed number or unit - and all guises of the used constant still read *)
(*   the tabulated value.                                                    *)
EXTENDS Constants
Ops == {"in_base", "in_mks", "in_cgs", "to_same", "in_units_same", "to_tab", "copy", "mul1", "equiv"}
InPlace == {"imul", "convert", "setitem", "copyto", "ufunc_out", "fill"}
OpSeqs(lo, hi) == UNION {[1..k -> Ops] : k \in lo..hi}
\* to_equivalent is offered to mass rows (mass_energy) and temperature rows (thermal), as the first call
EquivRow(ci) == RowDim(ci) = DMass \/ RowDim(ci) = DTemperature
WellFormed(ci, ops) == \A i \in DOMAIN ops : ops[i] = "equiv" => (i = 1 /\ EquivRow(ci))

\* ---- transition side: buffers
ConstBuf == 0
BufOf(ops) == [i \in DOMAIN ops |-> i]                 \* every call creates a copy: a fresh buffer per result
WrittenBuf(ops) == IF Len(ops) = 0 THEN ConstBuf ELSE BufOf(ops)[Len(ops)]
ExpShares(ops, i) == BufOf(ops)[i] = ConstBuf          \* never
ExpConstantWritten(ops) == WrittenBuf(ops) = ConstBuf   \* never, for a non-empty history

\* ---- property side
C15_UseKeeps(o) == o.present => (o.nchanged = 0 /\ o.rowdev <= Same)
=============================================================================
