"""C19, decorator family: MC_C19_deco -> replay (impl_c19.observe_deco) -> Trace_C19_deco."""

import json

from common import MachineryFailure

CHUNK = 30000


def _key(r):
    return {
        "fam": "deco",
        "clause": r["clause"],
        "template": r["template"],
        "order": r["order"],
        "stacked": bool(r["stacked"]),
        "extra_positional": bool(r["extra_positional"]),
        "wrong_argument_given": r["wrong_argument_given"],
        "well_formed": bool(r["well_formed"]),
    }


def _case(c):
    return {"fam": "deco", "tpl": c["tpl"], "calls": c["calls"]}


def validate(ck, cases, obs, label):
    recs = []
    for c, o in zip(cases, obs):
        if o.get("build"):
            raise MachineryFailure(f"could not build template {c['tpl']['id']}: {o['build']}")
        steps = [{"k": s["k"], "exc": s["exc"], "called": bool(s["called"]), "same": bool(s["same"])} for s in o["steps"]]
        recs.append({"tpl": c["tpl"], "calls": c["calls"], "obs": steps})
    npf = 0
    for off in range(0, len(recs), CHUNK):
        part = recs[off : off + CHUNK]
        path = ck.write_json(f"obs_deco_{label}_{off}.json", part)
        res = ck.tlc("Trace_C19_deco", env={"OBS": path}, workers=1, coverage=False, label=f"trace-validation decorators {label} [{off}:{off + len(part)}]", timeout=2400)
        if res.distinct != len(part) + 1:
            raise MachineryFailure(f"trace validation consumed {res.distinct} states, expected {len(part) + 1}")
        ck.validated(len(part))
        for r in res.by_tag("T-FAIL"):
            c = cases[off + r["i"] - 1]
            ck.drift_step("deco:" + r["template"], {"step": r["step"], "call": c["calls"][r["step"] - 1], "model": r["model"], "observed": r["observed"]})
        for r in res.by_tag("P-FAIL"):
            npf += 1
            c = cases[off + r["i"] - 1]
            cls = f"{r['template']}|{r['clause']}|{r['wrong_argument_given']}|extra_positional={r['extra_positional']}"
            ck.cov.setdefault("deco_p_fail_classes", {})
            ck.cov["deco_p_fail_classes"][cls] = ck.cov["deco_p_fail_classes"].get(cls, 0) + 1
            ck.violation(_key(r), {"step": r["step"], "call": c["calls"][r["step"] - 1], "observed": r["observed"], "model": r["model"], "history_length": len(c["calls"])}, case=_case(c))
    return npf


def run(ck):
    cfg = ck.q("MC_C19_deco_quick", "MC_C19_deco_thorough")
    res = ck.tlc("MC_C19_deco", cfg, workers=1, coverage=False, label=f"decorator sweep + histories {cfg}", timeout=3000)
    cases = [r for r in res.by_tag("CASE")]
    if len(cases) < 1000:
        raise MachineryFailure(f"exported only {len(cases)} decorator cases")
    cases.sort(key=lambda c: json.dumps(_case(c), sort_keys=True))
    by, cex = {}, {}
    for c in cases:
        k = f"{c['tpl']['id']}:len{len(c['calls'])}"
        by[k] = by.get(k, 0) + 1
        for m in c["mp"]:
            if m:
                cex[f"{c['tpl']['id']}:{m}"] = cex.get(f"{c['tpl']['id']}:{m}", 0) + 1
    ck.cov["deco_cases_by_template"] = by
    ck.cov["deco_model_level_counterexamples"] = cex
    hist = [c for c in cases if len(c["calls"]) > 1]
    if hist:
        ck.sample({"template": hist[len(hist) // 2]["tpl"]["id"], "calls": hist[len(hist) // 2]["calls"]})
    pc = [_case(c) for c in cases]
    obs = ck.pmap("impl_c19", "observe", pc)
    bad = [o for o in obs if "_error" in o]
    if bad:
        raise MachineryFailure("replay error: " + str(bad[0]))
    npf = validate(ck, cases, obs, "table")
    ck.cov["deco_cases"] = len(cases)
    ck.cov["deco_histories"] = len(hist)
    ck.cov["deco_calls"] = sum(len(c["calls"]) for c in cases)
    ck.cov["deco_observed_p_fail"] = npf
    return len(cases), len(cases)
