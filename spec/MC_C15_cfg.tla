---------------------------- MODULE MC_C15_cfg ----------------------------
(* Configuration generator for the thorough tier of C15: TLC enumerates the  *)
(* registries "unit system s, symbols rescaled by powers of two before the   *)
(* constants are requested" over the alphabet of symbols that the constants' *)
(* unit strings mention (read from the tree) plus symbols they do not        *)
(* mention:                                                                  *)
(*   every system x every single symbol, rescaled by 2;                      *)
(*   the systems listed in Deep x every single symbol, rescaled by 1/4;      *)
(*   the systems listed in Deep x every pair of symbols, by 2 and 8.         *)
(* One CFG record per configuration; the harness turns them into rows of the *)
(* configuration table that MC_C15 / Trace_C15 read.                         *)
EXTENDS Integers, Sequences, FiniteSets, TLC, Json, IOUtils
G == JsonDeserialize(IOEnv.CFG_DATA)     \* [systems |-> <<id>>, deep |-> <<id>>, syms |-> <<symbol>>]
VARIABLE c
Sys == DOMAIN G.systems
Syms == DOMAIN G.syms
DeepSys == {s \in Sys : \E d \in DOMAIN G.deep : G.deep[d] = G.systems[s]}
NoCfg == [s |-> 0, x |-> 0, lx |-> 0, y |-> 0, ly |-> 0]
Space == {[s |-> s, x |-> x, lx |-> 1, y |-> 0, ly |-> 0] : s \in Sys, x \in Syms}
         \cup {[s |-> s, x |-> x, lx |-> -2, y |-> 0, ly |-> 0] : s \in DeepSys, x \in Syms}
         \cup {k \in {[s |-> s, x |-> x, lx |-> 1, y |-> y, ly |-> 3] : s \in DeepSys, x \in Syms, y \in Syms} : k.x < k.y}
Init == c = NoCfg
Next == c = NoCfg /\ \E k \in Space : c' = k
Export == c # NoCfg => PrintT(ToJson([tag |-> "CFG", s |-> c.s, x |-> c.x, lx |-> c.lx, y |-> c.y, ly |-> c.ly]))
=============================================================================
