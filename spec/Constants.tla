----------------------------- MODULE Constants -----------------------------
(* C15 - physical constants are coherent across unit systems and with the    *)
(* unit table.                                                               *)
(*                                                                           *)
(* Data (JSON, regenerated on every run, strings ASCII-escaped):             *)
(*   Rows    the physical_constants table of the working tree: primary name, *)
(*           unit string, dimension vector of the unit string (12x), its     *)
(*           atoms [symbol without prefix, prefix, 12x exponent, z = the     *)
(*           atom is a dimensionless scale such as mol], em = the unit is an *)
(*           atomic unit of the CGS<->SI route table (em_conversions)        *)
(*   Names   every exported name: row ci, alias number ai, qi = the          *)
(*           reference quantity that documents the name (0: none), unit      *)
(*           flags (the name is also a unit name)                            *)
(*   Quants  INDEPENDENT reference (data/C15_reference.json): quantity,      *)
(*           dimension its definition implies, uncertainty class (a rung of  *)
(*           the deviation ladder), unit_enum = the property's enumeration   *)
(*           of names that are both constant and unit                        *)
(*   Rels    defining relations as monomial identities                       *)
(*              rat * pi^pik * prod(quantity^e) = 1                          *)
(*           in SI form (SI-dimension guises) or Gaussian form (_cgs guises) *)
(*   Cfgs    configurations: the module, the top-level namespace, a fresh    *)
(*           registry per built-in unit system, user-defined unit systems    *)
(*           with/without a current unit, registries edited before the       *)
(*           constants are requested (mods = <<[s, l]>>: symbol s scaled by  *)
(*           2^l; additions/removals)                                        *)
(*                                                                           *)
(* property side   C15_* predicates: what the statement says about an        *)
(*                 observed guise / relation / unit / literature comparison  *)
(* transition side Exp* operators: add_constants as coded (in_base with the  *)
(*                 UnitsNotReducible fallback, _mks as tabulated, _cgs only  *)
(*                 when in_cgs succeeds, the CGS<->SI route for atomic EM    *)
(*                 units) and the effect of edited symbols (exponent         *)
(*                 arithmetic over the atoms of the table's unit string)     *)
(*                                                                           *)
(* Deviations are ladder flags (0: bit-equal, 1: <= 4e-15, 2: <= 1e-13,      *)
(* 3: <= 1e-12, 4: <= 1e-9, 5: <= 1e-7, 6: <= 1e-6, 7: <= 1e-4, 8: <= 1e-3,  *)
(* 9: <= 1e-2, 10: beyond), 99 = not a deviation.  Floats never enter TLC.   *)
EXTENDS Integers, Sequences, FiniteSets, TLC, Json, IOUtils, Dim

D == JsonDeserialize(IOEnv.CONST_DATA)
Rows == D.rows
Names == D.names
Quants == D.quantities
Rels == D.relations
Cfgs == D.configs
Cls == D.classes                  \* class name -> ladder rung
DiffByDesign == {D.diffdesign[i] : i \in DOMAIN D.diffdesign}
RowIdx == DOMAIN Rows
NameIdx == DOMAIN Names
QIdx == DOMAIN Quants
RelIdx == DOMAIN Rels
CfgIdx == DOMAIN Cfgs
NOFLAG == 99
Guises == {"plain", "mks", "cgs"}
\* routes that end in an SI magnitude.  "shown" reads the guise the way a user does: the number shown, re-entered with the
\* unit text shown in the same registry (the other routes go through the Unit object the quantity carries)
DevRoutes == {"raw", "to", "base", "cgsmks", "shown"}
\* routes that compare two shown numbers: "tosys" the configuration's tabulated guise converted to the unit the guise shows,
\* "idem" the guise converted to the unit it already shows, "defbase" the DEFAULT constant expressed in the configuration's
\* unit system (number and unit text)
NumRoutes == {"tosys", "idem", "defbase"}
Same == Cls.same
Derived == Cls.derived

\* ------------------------------------------------------ dimension arithmetic
HasCurrent(d) == d[6] # 0
\* Gaussian reading of an SI dimension: every power of the ampere becomes M^1/2 L^3/2 T^-2
GaussDim(d) == [i \in 1..NDim |-> CASE i = 1 -> d[1] + d[6] \div 2
                                    [] i = 2 -> d[2] + (3 * d[6]) \div 2
                                    [] i = 3 -> d[3] - 2 * d[6]
                                    [] i = 6 -> 0
                                    [] OTHER -> d[i]]
DScale(d, e) == [i \in 1..NDim |-> d[i] * e]
AsDim(t) == [i \in 1..NDim |-> t[i]]
RECURSIVE RelDimF(_, _, _)
\* dimension of prod(quantity^e) with the dimension of each quantity given by the function f
RelDimF(terms, f, k) == IF k > Len(terms) THEN DZero ELSE DMul(DScale(f[terms[k][1]], terms[k][2]), RelDimF(terms, f, k + 1))
RefDim(q) == AsDim(Quants[q].dim)
RowDim(ci) == AsDim(Rows[ci].dim)
FormDim(form, d) == IF form = "gauss" THEN GaussDim(d) ELSE d
RefDimF(form) == [q \in QIdx |-> FormDim(form, RefDim(q))]
\* the tree's dimension of the quantity: that of the row which carries the quantity's primary name (0: not exported)
TreeDimF(form) == [q \in QIdx |-> IF Quants[q].ci = 0 THEN DZero ELSE FormDim(form, RowDim(Quants[q].ci))]
Homogeneous(rel, f) == DIsZero(RelDimF(rel.terms, f, 1))
RelExported(rel) == \A k \in DOMAIN rel.terms : Quants[rel.terms[k][1]].ci # 0

\* ---------------------------------------------------------------- helpers
QOf(n) == Names[n].qi
RowOf(n) == Names[n].ci
\* the dimension the definition of name n implies (reference when documented, else the row's own)
DefDim(n) == IF QOf(n) > 0 THEN RefDim(QOf(n)) ELSE RowDim(RowOf(n))
PrimaryName(ci) == CHOOSE n \in NameIdx : Names[n].ci = ci /\ Names[n].ai = 0
ModSyms(cfg) == {Cfgs[cfg].mods[i].s : i \in DOMAIN Cfgs[cfg].mods}
Mentions(ci, cfg) == \E a \in DOMAIN Rows[ci].atoms : Rows[ci].atoms[a].s \in ModSyms(cfg)
Unmodified(cfg) == Cfgs[cfg].mods = <<>>
HasScaleAtom(ci) == \E a \in DOMAIN Rows[ci].atoms : Rows[ci].atoms[a].z

\* ============================================================ PROPERTY SIDE
\* ---- table level (no observation needed)
\* the unit string of the row has the dimension the definition of each of its documented names implies
C15_RowDim(n) == QOf(n) > 0 => RowDim(RowOf(n)) = RefDim(QOf(n))
\* alias sets denote one quantity: a documented alias sits in the row of the quantity that documents it
C15_AliasRow(n) == (QOf(n) > 0 /\ QOf(PrimaryName(RowOf(n))) > 0) => QOf(n) = QOf(PrimaryName(RowOf(n)))
\* names are unique (alias sets are disjoint)
C15_NameUnique(n) == \A m \in NameIdx : Names[m].n = Names[n].n => m = n
\* each defining relation is dimensionally homogeneous over the dimensions of the tree's unit strings
C15_RelHomog(r) == RelExported(Rels[r]) => Homogeneous(Rels[r], TreeDimF(Rels[r].form))
\* (sanity of the reference itself: a failure here is a defect of the reference data, not of the library)
RefRelHomog(r) == Homogeneous(Rels[r], RefDimF(Rels[r].form))

\* ---- a guise: name n, guise g, configuration cfg, comparison route
\* the object's dimension is the defined one, or its Gaussian reading for electromagnetic constants
C15_GuiseDim(n, o) == LET d == DefDim(n) IN AsDim(o.dv) = d \/ (HasCurrent(d) /\ AsDim(o.dv) = GaussDim(d))
\* magnitude routes: the SI magnitude reached by the route, where the route ends in the SI dimension
DevApplicable(n, o) == o.r.o = "dev" /\ AsDim(o.r.rv) = DefDim(n)
\* all guises of one configuration denote one quantity (X, aliases, X_mks, X_cgs) - also in an edited registry
C15_GuisesAgree(n, o) == DevApplicable(n, o) => o.r.fc <= Same
\* ... and, unless the configuration rescaled a symbol that the constant's unit string mentions, the default one
C15_EqualsDefault(n, cfg, o) == (DevApplicable(n, o) /\ ~Mentions(RowOf(n), cfg)) => o.r.fr <= Same
\* ... and the quantity that documents the name (an alias bound to another row fails here)
C15_EqualsDocumented(n, cfg, o) == (DevApplicable(n, o) /\ ~Mentions(RowOf(n), cfg) /\ QOf(n) > 0 /\ o.r.fq # NOFLAG) => o.r.fq <= Same
\* conversions must be possible: raw/to/base always; the cgs round trip for everything without a current dimension
C15_Comparable(n, route, o) == (o.r.o = "exc" /\ route \in DevRoutes \cup NumRoutes) => (route \in {"cgsmks", "defbase"} /\ HasCurrent(DefDim(n)))
\* the number a guise shows is the number of the same quantity in the unit it shows (offset, prefixed, scaled base units included)
C15_ShownNumber(route, o) == (o.r.o = "num" /\ route \in {"tosys", "idem"}) => o.r.fs <= Same
\* a constant built for a registry/unit system shows what the default constant shows when expressed in that unit system
C15_DefaultInSystem(cfg, route, o) == (o.r.o = "num" /\ route = "defbase" /\ Unmodified(cfg) /\ o.r.su) => o.r.fs <= Same
\* ==: demanded where both sides carry the same dimension (a Gaussian and an SI guise are different dimensions by design)
\* (== compares floats exactly after conversion; a guise shown in a unit with a zero offset (degC, degF) goes through a
\* cancellation and is compared by the magnitude routes instead)
C15_EqOp(n, cfg, o) == (o.r.o = "bool" /\ AsDim(o.dv) = AsDim(o.r.rv) /\ ~Mentions(RowOf(n), cfg) /\ ~o.offu) => (o.r.er /\ o.r.eq)
\* value ratio X_cgs / X_mks = 10^(3a + 2b + n) * c^n for SI dimension M^a L^b ... A^n (exponent arithmetic)
RatioApplicable(n, cfg) == LET d == DefDim(n) IN Unmodified(cfg) /\ ~HasScaleAtom(RowOf(n)) /\ (3 * d[1] + 2 * d[2] + d[6]) % 12 = 0 /\ d[6] % 12 = 0
ExpRatio(n) == LET d == DefDim(n) IN <<(3 * d[1] + 2 * d[2] + d[6]) \div 12, d[6] \div 12>>
C15_Ratio(n, cfg, o) == (o.r.o = "ratio" /\ RatioApplicable(n, cfg)) => <<o.r.pr[1], o.r.pr[2]>> = ExpRatio(n)

\* ---- a defining relation evaluated on the constants of a configuration
\* (unyt refuses by design to multiply or raise quantities in offset temperature units: such a configuration does not
\* represent the relations that involve a pure temperature)
RelApplicable(r, cfg, o) == /\ o.present /\ Unmodified(cfg) /\ ~o.off
                            /\ \A k \in DOMAIN Rels[r].terms : AsDim(o.pd[k]) = FormDim(Rels[r].form, RefDim(Rels[r].terms[k][1]))
C15_Relation(r, cfg, o) == RelApplicable(r, cfg, o) => (o.exc = "" /\ o.homog /\ o.fu <= Derived /\ o.fm <= Derived)

\* the same identity read as ONE quotient of two commensurable quantities: (product of the factors with positive exponent) /
\* (product of the others), and the pure number consumed the way programs do (float(), .value, a ufunc of a pure number).
\* Demanded where both sides exist; the participants may wear different guises (X_mks against Y_cgs) as long as every one has
\* the dimension of the relation's form.
TwoSided(r) == (\E k \in DOMAIN Rels[r].terms : Rels[r].terms[k][2] > 0) /\ (\E k \in DOMAIN Rels[r].terms : Rels[r].terms[k][2] < 0)
C15_RelationQuotient(r, cfg, o) == (RelApplicable(r, cfg, o) /\ TwoSided(r)) => (o.qexc = "" /\ o.fqv <= Derived)

\* ---- a name that is both a constant and a unit
UnitDemanded(n, cfg) == QOf(n) > 0 /\ Quants[QOf(n)].unit_enum /\ Unmodified(cfg)
\* (a Gaussian guise is compared with the SI unit through the CGS<->SI route; the harness reports that deviation)
UnitAgrees(o) == (o.ud = o.cd \/ AsDim(o.cd) = GaussDim(AsDim(o.ud)) \/ AsDim(o.ud) = GaussDim(AsDim(o.cd))) /\ o.f <= Same
C15_ConstEqualsUnit(n, cfg, o) == (o.present /\ UnitDemanded(n, cfg)) => UnitAgrees(o)

\* ---- the constants of two configurations against each other (round 7)
\* X built for configuration A and X built for configuration B are both the default X, hence one quantity: expressed in
\* the unit B's constant shows (the Unit OBJECT it carries, bound to B's registry), A's constant shows B's number - whatever
\* call form does the conversion (to / in_units / to_value / convert_to_units on a copy / coercion into one array), their
\* quotient is the pure number 1, their difference vanishes, allclose_units / np.isclose accept.  Demanded where neither
\* registry rescaled a symbol the constant's unit string mentions and both objects carry one dimension (an SI and a
\* Gaussian guise are different dimensions by design).  unyt refuses to subtract temperatures given in different units.
PureTemp(d) == d[4] # 0 /\ \A i \in 1..NDim : i # 4 => d[i] = 0
PairNumForms == {"to", "in_units", "to_value", "convert", "arr", "div", "sub"}
PairBoolForms == {"allclose", "isclose"}
PairForms == PairNumForms \cup PairBoolForms
PairApplicable(n, A, B, form, o) == /\ o.pa /\ o.pb /\ ~Mentions(RowOf(n), A) /\ ~Mentions(RowOf(n), B)
                                    /\ o.da = o.db /\ ~(form = "sub" /\ PureTemp(DefDim(n)))
C15_CrossAgree(n, A, B, form, o) == PairApplicable(n, A, B, form, o) => ((o.o = "num" /\ o.f <= Same) \/ (o.o = "bool" /\ o.b))

\* ---- literature
C15_LitDim(q, o) == o.present => AsDim(o.dv) = RefDim(q)
C15_LitClass(q, o) == o.present => o.f <= Cls[Quants[q].cls]

\* ========================================================== TRANSITION SIDE
\* add_constants(namespace, registry), per name:  quan = unyt_quantity(value, unit, registry)
\*   ns[name]        = quan.in_base(registry.unit_system)   except UnitsNotReducible: quan        (fallback)
\*   ns[name+"_mks"] = unyt_quantity(value, unit, registry)
\*   ns[name+"_cgs"] = quan.in_cgs()                          except UnitsNotReducible: (not set)
\* get_base_equivalent: an atomic unit of the route table whose system has no current unit goes the CGS<->SI route
\* (Gaussian dimension); any other unit with a current dimension in such a system raises UnitsNotReducible.
EmRoute(ci, cur) == HasCurrent(RowDim(ci)) /\ ~cur /\ Rows[ci].em
Fallback(ci, cur) == HasCurrent(RowDim(ci)) /\ ~cur /\ ~Rows[ci].em
ExpPresent(ci, g) == g # "cgs" \/ ~Fallback(ci, FALSE)
\* legacy bare names (hmks, hcgs) are copies without suffixed variants
Bare(n) == Names[n].bare
ExpDim(ci, g, cur) == CASE g = "mks" -> RowDim(ci)
                        [] g = "cgs" -> GaussDim(RowDim(ci))
                        [] OTHER -> IF EmRoute(ci, cur) THEN GaussDim(RowDim(ci)) ELSE RowDim(ci)
ExpTabUnit(ci, g, cur) == g = "mks" \/ (g = "plain" /\ Fallback(ci, cur))
\* a registry whose symbol s was rescaled by 2^l before the constants were requested: the constant follows by the
\* exponent of s in the table's unit string (prefixed atoms included: kg follows g)
RECURSIVE L2From(_, _, _)
L2From(atoms, cfg, k) == IF k > Len(atoms) THEN 0
                         ELSE (LET hit == {i \in DOMAIN Cfgs[cfg].mods : Cfgs[cfg].mods[i].s = atoms[k].s} IN
                               IF hit = {} THEN 0 ELSE (atoms[k].e * Cfgs[cfg].mods[CHOOSE i \in hit : TRUE].l)) + L2From(atoms, cfg, k + 1)
ExpL2(ci, cfg) == L2From(Rows[ci].atoms, cfg, 1) \div 12
\* outcome of a comparison route on the observed object (its dimension and unit class are the pre-state)
ExpRoute(ci, cfg, route, o) ==
  CASE route = "raw" -> [o |-> "dev", l2 |-> IF AsDim(o.dv) = RowDim(ci) THEN ExpL2(ci, cfg) ELSE NOFLAG, exc |-> ""]
    [] route \in {"to", "base", "shown"} -> [o |-> "dev", l2 |-> ExpL2(ci, cfg), exc |-> ""]
    [] route \in {"tosys", "idem"} -> [o |-> "num", l2 |-> NOFLAG, exc |-> ""]
    [] route = "defbase" -> IF Fallback(ci, Cfgs[cfg].cur) THEN [o |-> "exc", l2 |-> NOFLAG, exc |-> "UnitsNotReducible"]
                            ELSE [o |-> "num", l2 |-> NOFLAG, exc |-> ""]
    [] route = "cgsmks" -> IF HasCurrent(AsDim(o.dv)) /\ ~o.uem THEN [o |-> "exc", l2 |-> NOFLAG, exc |-> "UnitsNotReducible"]
                           ELSE [o |-> "dev", l2 |-> ExpL2(ci, cfg), exc |-> ""]
    [] route = "eq" -> [o |-> "bool", l2 |-> NOFLAG, exc |-> ""]
    [] OTHER -> [o |-> "ratio", l2 |-> NOFLAG, exc |-> ""]
ObsRoute(o) == [o |-> o.r.o, l2 |-> o.r.l2, exc |-> IF o.r.o = "exc" THEN o.r.exc ELSE ""]
ExpEq(ci, cfg, o) == AsDim(o.dv) = AsDim(o.r.rv) /\ ExpL2(ci, cfg) = 0
=============================================================================
