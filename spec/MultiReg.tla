----------------------------- MODULE MultiReg -----------------------------
(* Several unit registries with DICT IDENTITY explicit (C13).                 *)
(*                                                                            *)
(* A registry object is [d: table id, c: string-memo id, kind, grp].  Tables  *)
(* (`tabs`) and memos (`memo`) live in their own maps, so that a constructor  *)
(* either ALIASES the table it was handed or COPIES it, exactly as coded:     *)
(*   UnitRegistry()                     new table = copy of the defaults      *)
(*   UnitRegistry(add_default_symbols=False)      new empty table             *)
(*   UnitRegistry(lut=r.lut[, add_default_symbols=False])                     *)
(*                                      ALIAS of r's table (an empty dict is  *)
(*                                      falsy: new table), defaults written   *)
(*                                      over the shared table                 *)
(*   UnitRegistry(lut=dict(r.lut))      copy + defaults                       *)
(*   UnitRegistry.from_json(r.to_json())   copy, missing defaults filled in   *)
(*   pickle.loads(pickle.dumps(quantity))  copy, missing defaults filled in   *)
(*   copy.deepcopy(r), Unit.copy(deep=True) plain copy (since fix 24fb26f),    *)
(*                                      class of the registry preserved       *)
(*   pickle round trip of a registry / Unit object: copy of table and memo     *)
(*   Unit.copy()  (shallow)             shares table AND memo: returns the    *)
(*                                      memoised original, no new registry    *)
(* and every look-up of a prefixed name writes the derived row into whichever *)
(* table it was handed (unit_registry.py:333).  Registry 0 is the library's   *)
(* default registry (class _NonModifiableUnitRegistry).                       *)
(*                                                                            *)
(* Transitions are transcribed from unyt/unit_registry.py, unit_object.py     *)
(* (Unit.__new__, copy, simplify/_cancel_mul, define_unit), unit_systems.py   *)
(* (UnitSystem.__init__, add_symbols, add_constants) and array.py             *)
(* (__new__, __reduce__/__setstate__, _multiply_units/_divide_units).         *)
(* The C13 predicates are at the bottom and only say what the property says.  *)
(*                                                                            *)
(* Alphabet: the custom symbol foo and the built-in symbol m with their kilo  *)
(* forms; six probe strings.  All dimensions are length (C12 varies them).    *)
EXTENDS Rational, Sequences, FiniteSets, TLC, Json
CONSTANTS MaxRegs      \* custom registries are 1..MaxRegs

RegIds == 0..MaxRegs
Syms == {"foo", "m"}
Keys == {"foo", "kfoo", "m", "km"}
KeySeq == <<"foo", "kfoo", "m", "km">>
Base(k) == IF k = "kfoo" THEN "foo" ELSE IF k = "km" THEN "m" ELSE k
IsPrefixed(k) == k \in {"kfoo", "km"}
Scales == {2, 4}
ProbeSeq == <<"foo", "kfoo", "m", "km", "foo*m", "kfoo/km">>
Probes == {ProbeSeq[i] : i \in DOMAIN ProbeSeq}
BinProbes == {"foo", "kfoo", "m"}
BinOps == {"mul", "div", "add"}
Atoms(p) == CASE p = "foo*m" -> <<"foo", "m">>
              [] p = "kfoo/km" -> <<"kfoo", "km">>
              [] OTHER -> <<p>>
Combine(p, v) == CASE p = "foo*m" -> RMul(v[1], v[2])
                   [] p = "kfoo/km" -> RDiv(v[1], v[2])
                   [] OTHER -> v[1]
Absent == [scale |-> 0, pfx |-> FALSE]
DefRow(k) == IF k = "m" THEN [scale |-> 1, pfx |-> TRUE] ELSE Absent   \* default_unit_symbol_lut on the alphabet
EmptyTab == [k \in Keys |-> Absent]
DefTab == [k \in Keys |-> DefRow(k)]
\* default_unit_registry.lut after `import unyt` (the namespace was built from it: km already derived)
DefaultRegTab == [DefTab EXCEPT !["km"] = [scale |-> 1000, pfx |-> FALSE]]
Overlay(t) == [k \in Keys |-> IF DefRow(k).scale # 0 THEN DefRow(k) ELSE t[k]]    \* lut.update(defaults)
FillIn(t) == [k \in Keys |-> IF t[k].scale = 0 THEN DefRow(k) ELSE t[k]]          \* _correct_old_unit_registry
None == [k |-> "none"]
Ok == [k |-> "ok"]
Raise == [k |-> "raise"]
NoCache == [p \in Probes |-> None]
DefaultRegCache == [NoCache EXCEPT !["m"] = [k |-> "unit", s |-> R(1)], !["km"] = [k |-> "unit", s |-> R(1000)]]

VARIABLES regs,   \* registry id -> [live, d (table id), c (memo id), kind, grp, route]
          tabs,   \* table id -> [key -> row]      (table id = id of the registry that created the dict)
          tflag,  \* table id -> [def: the dict holds unyt's other built-in symbols, ident: dimensions are the singletons]
          memo,   \* memo id -> [probe -> unit | None]    (registry._unit_object_cache)
          hist,   \* observation only: the calls made so far
          last    \* result of the last call
vars == <<regs, tabs, tflag, memo, hist, last>>

Dead == [live |-> FALSE, d |-> 0, c |-> 0, kind |-> "none", grp |-> 0, route |-> "none"]
Live == {r \in RegIds : regs[r].live}
HasFresh == \E n \in 1..MaxRegs : ~regs[n].live
Fresh == CHOOSE n \in 1..MaxRegs : ~regs[n].live /\ \A j \in 1..(n - 1) : regs[j].live
TabOf(r) == tabs[regs[r].d]
MemoOf(r) == memo[regs[r].c]

Init == /\ regs = [r \in RegIds |-> IF r = 0 THEN [live |-> TRUE, d |-> 0, c |-> 0, kind |-> "default", grp |-> 0, route |-> "default"] ELSE Dead]
        /\ tabs = [r \in RegIds |-> IF r = 0 THEN DefaultRegTab ELSE EmptyTab]
        /\ tflag = [r \in RegIds |-> [def |-> r = 0, ident |-> r = 0]]
        /\ memo = [r \in RegIds |-> IF r = 0 THEN DefaultRegCache ELSE NoCache]
        /\ hist = <<>>
        /\ last = None
Log(e) == hist' = Append(hist, e)

(* ---- look-up with write-back (_lookup_unit_symbol, UnitRegistry.__getitem__/__contains__) ---- *)
ImplAtomOk(l, a) == l[a].scale # 0 \/ (IsPrefixed(a) /\ l[Base(a)].scale # 0 /\ l[Base(a)].pfx)
ImplRow(l, a) == IF l[a].scale # 0 THEN l[a] ELSE [scale |-> 1000 * l[Base(a)].scale, pfx |-> FALSE]
WriteBack(l, a) == IF l[a].scale = 0 /\ ImplAtomOk(l, a) THEN [l EXCEPT ![a] = ImplRow(l, a)] ELSE l
RECURSIVE Eval(_, _, _, _)
Eval(l, as, i, acc) ==
  IF i > Len(as) THEN [ok |-> TRUE, l |-> l, v |-> acc]
  ELSE IF ~ImplAtomOk(l, as[i]) THEN [ok |-> FALSE, l |-> l, v |-> acc]
  ELSE Eval(WriteBack(l, as[i]), as, i + 1, Append(acc, R(ImplRow(l, as[i]).scale)))
\* Unit(p, registry=r): memo hit first, else evaluate the atoms with write-back, then memoise
ConstructR(tab, mem, p) ==
  IF mem[p] # None THEN [ok |-> TRUE, tab |-> tab, mem |-> mem, u |-> mem[p]]
  ELSE LET e == Eval(tab, Atoms(p), 1, <<>>) IN
       IF e.ok THEN LET u == [k |-> "unit", s |-> Combine(p, e.v)] IN
                    [ok |-> TRUE, tab |-> e.l, mem |-> [mem EXCEPT ![p] = u], u |-> u]
       ELSE [ok |-> FALSE, tab |-> e.l, mem |-> mem, u |-> Raise]
\* a sequence of registry[k] look-ups (stops at the first miss: SymbolNotFoundError)
RECURSIVE GetItems(_, _, _)
GetItems(l, ks, i) ==
  IF i > Len(ks) THEN [ok |-> TRUE, l |-> l]
  ELSE IF ~ImplAtomOk(l, ks[i]) THEN [ok |-> FALSE, l |-> l]
  ELSE GetItems(WriteBack(l, ks[i]), ks, i + 1)

(* ---- what a registry resolves right now (no state change): the digest ---- *)
PeekIn(rg, tb, mm, r, p) == ConstructR(tb[rg[r].d], mm[rg[r].c], p).u
DigestIn(rg, tb, mm, r) == [i \in DOMAIN ProbeSeq |-> PeekIn(rg, tb, mm, r, ProbeSeq[i])]
Peek(r, p) == PeekIn(regs, tabs, memo, r, p)
Digest(r) == DigestIn(regs, tabs, memo, r)

(* ---- edits through one registry object ---- *)
Add(r, s, sc, px) ==
  /\ regs[r].live /\ (regs[r].d = 0 => s = "foo")     \* built-in symbols of the default TABLE are never re-added here
  /\ Log([op |-> "add", r |-> r, sym |-> s, scale |-> sc, pfx |-> px])
  /\ tabs' = [tabs EXCEPT ![regs[r].d][s] = [scale |-> sc, pfx |-> px]]
  /\ memo' = [memo EXCEPT ![regs[r].c] = NoCache]
  /\ last' = Ok /\ UNCHANGED <<regs, tflag>>
\* VALUE CLASSES of a quantity-valued argument (registry.modify(symbol, value), define_unit(symbol, value)):
\*   "num"  a plain number (define_unit: a (number, "m") tuple)
\*   "qty"  a quantity OBJECT the caller keeps, in units that are not the MKS base units:
\*          q = unyt_quantity(sc/1000, "km") (default registry: the km row exists since import; Unit("km") is memoised
\*          there again when an add through the default registry dropped its memo)
\*   "ns"   an OBJECT EXPORTED BY THE unyt NAMESPACE that is not in MKS base units (unyt.planck_length_cgs, cm);
\*          its MKS value is the scale NsScale (a stand-in: the harness projects multiples of the real number onto it)
\* As transcribed the argument is only READ (value.in_base("mks") makes a converted copy): the table gets the MKS number,
\* the object handed in is the same afterwards (obs.arg = "kept").
Vias == {"num", "qty", "ns"}
NsScale == 8
Modify(r, k, sc, via) ==
  /\ regs[r].live /\ (via = "ns" <=> sc = NsScale)
  /\ Log([op |-> "modify", r |-> r, sym |-> k, scale |-> sc, via |-> via])
  /\ LET \* the caller's quantity is built first: Unit("km") through the DEFAULT registry (memo hit unless an add dropped the memo)
         x == IF via = "qty" THEN ConstructR(tabs[0], memo[0], "km") ELSE [tab |-> tabs[0], mem |-> memo[0]]
         t1 == [tabs EXCEPT ![0] = x.tab]
         m1 == [memo EXCEPT ![0] = x.mem] IN
     IF regs[r].kind = "default" \/ TabOf(r)[k].scale = 0
     THEN last' = Raise /\ tabs' = t1 /\ memo' = m1
     ELSE /\ tabs' = [t1 EXCEPT ![regs[r].d][k].scale = sc]
          /\ memo' = [m1 EXCEPT ![regs[r].c] = NoCache]
          /\ last' = Ok
  /\ UNCHANGED <<regs, tflag>>
Remove(r, k) ==
  /\ regs[r].live
  /\ Log([op |-> "remove", r |-> r, sym |-> k])
  /\ IF regs[r].kind = "default" \/ TabOf(r)[k].scale = 0
     THEN last' = Raise /\ UNCHANGED <<tabs, memo>>
     ELSE /\ tabs' = [tabs EXCEPT ![regs[r].d][k] = Absent]
          /\ memo' = [memo EXCEPT ![regs[r].c] = NoCache]
          /\ last' = Ok
  /\ UNCHANGED <<regs, tflag>>
Contains(r, k) ==
  /\ regs[r].live
  /\ Log([op |-> "contains", r |-> r, sym |-> k])
  /\ last' = [k |-> "bool", b |-> ImplAtomOk(TabOf(r), k)]
  /\ tabs' = [tabs EXCEPT ![regs[r].d] = WriteBack(TabOf(r), k)]
  /\ UNCHANGED <<regs, tflag, memo>>
Construct(r, p) ==
  /\ regs[r].live
  /\ Log([op |-> "unit", r |-> r, str |-> p])
  /\ LET x == ConstructR(TabOf(r), MemoOf(r), p) IN
     /\ tabs' = [tabs EXCEPT ![regs[r].d] = x.tab]
     /\ memo' = [memo EXCEPT ![regs[r].c] = x.mem]
     /\ last' = x.u
  /\ UNCHANGED <<regs, tflag>>
\* define_unit("foo", (sc, "m"), prefixable=px[, registry=h]) on the default TABLE: without registry argument (r = 0:
\* the default registry + an attribute of `unyt`) or through another registry object h on the same table
\* via = "ns": define_unit("foo", unyt.planck_length_cgs, ...) - the value is an exported quantity object (only read)
DefineUnit(r, sc, px, via) ==
  /\ regs[r].live /\ regs[r].d = 0 /\ via \in {"num", "ns"} /\ (via = "ns" <=> sc = NsScale)
  /\ Log([op |-> "define", r |-> r, sym |-> "foo", scale |-> sc, pfx |-> px, via |-> via])
  /\ IF ImplAtomOk(tabs[0], "foo")
     THEN /\ last' = Raise /\ tabs' = [tabs EXCEPT ![0] = WriteBack(tabs[0], "foo")] /\ UNCHANGED memo
     ELSE /\ tabs' = [tabs EXCEPT ![0]["foo"] = [scale |-> sc, pfx |-> px]]
          \* add() drops the (shared) memo; only the call without registry argument then builds Unit("foo")
          /\ memo' = [memo EXCEPT ![regs[r].c] = IF r = 0 THEN [NoCache EXCEPT !["foo"] = [k |-> "unit", s |-> R(sc)]] ELSE NoCache]
          /\ last' = Ok
  /\ UNCHANGED <<regs, tflag>>
DefineDefault(sc, px) == DefineUnit(0, sc, px, "num")

(* ---- constructors: which alias, which copy ---- *)
NewRec(n, d, c, kind, grp) == [k |-> "new", r |-> n, d |-> d, c |-> c, kind |-> kind, grp |-> grp]
\* the route by which a registry was created is part of the state: C13 quantifies over the routes
Create(n, d, c, kind, grp) ==
  /\ regs' = [regs EXCEPT ![n] = [live |-> TRUE, d |-> d, c |-> c, kind |-> kind, grp |-> grp,
                                  route |-> LET e == hist'[Len(hist')] IN IF e.op = "new" THEN e.usys ELSE e.op]]
  /\ last' = NewRec(n, d, c, kind, grp)
\* UnitRegistry(unit_system=usys) / UnitRegistry(add_default_symbols=False)
NewPlain(defs, usys) ==
  /\ HasFresh
  /\ LET n == Fresh IN
     /\ Log([op |-> "new", r |-> 0, new |-> n, defs |-> defs, usys |-> usys])
     /\ tabs' = [tabs EXCEPT ![n] = IF defs THEN DefTab ELSE EmptyTab]
     /\ tflag' = [tflag EXCEPT ![n] = [def |-> defs, ident |-> TRUE]]
     /\ memo' = [memo EXCEPT ![n] = NoCache]
     /\ Create(n, n, n, "custom", n)
IsEmptyDict(d) == ~tflag[d].def /\ \A k \in Keys : tabs[d][k].scale = 0
\* UnitRegistry(lut=src.lut, add_default_symbols=defs) : the caller hands over src's own dict
NewLutAlias(src, defs) ==
  /\ HasFresh /\ regs[src].live /\ regs[src].d # 0    \* the default TABLE is never handed to lut= (not generated)
  /\ LET n == Fresh sd == regs[src].d IN
     /\ Log([op |-> "lutalias", r |-> src, new |-> n, defs |-> defs])
     /\ memo' = [memo EXCEPT ![n] = NoCache]
     /\ IF IsEmptyDict(sd)
        THEN \* `if lut:` - an empty dict is falsy: a new dict after all
             /\ tabs' = [tabs EXCEPT ![n] = IF defs THEN DefTab ELSE EmptyTab]
             /\ tflag' = [tflag EXCEPT ![n] = [def |-> defs, ident |-> TRUE]]
             /\ Create(n, n, n, "custom", regs[src].grp)
        ELSE /\ tabs' = IF defs THEN [tabs EXCEPT ![sd] = Overlay(tabs[sd])] ELSE tabs
             /\ tflag' = IF defs THEN [tflag EXCEPT ![sd].def = TRUE] ELSE tflag
             /\ Create(n, sd, n, "custom", regs[src].grp)
\* UnitRegistry(lut=dict(src.lut)) : the caller copies first
NewLutCopy(src) ==
  /\ HasFresh /\ regs[src].live
  /\ LET n == Fresh sd == regs[src].d IN
     /\ Log([op |-> "lutcopy", r |-> src, new |-> n])
     /\ tabs' = [tabs EXCEPT ![n] = Overlay(tabs[sd])]
     /\ tflag' = [tflag EXCEPT ![n] = [def |-> TRUE, ident |-> tflag[sd].ident]]
     /\ memo' = [memo EXCEPT ![n] = NoCache]
     /\ Create(n, n, n, "custom", n)
\* UnitRegistry.from_json(src.to_json())
FromJson(src) ==
  /\ HasFresh /\ regs[src].live
  /\ LET n == Fresh sd == regs[src].d IN
     /\ Log([op |-> "json", r |-> src, new |-> n])
     /\ tabs' = [tabs EXCEPT ![n] = FillIn(tabs[sd])]
     /\ tflag' = [tflag EXCEPT ![n] = [def |-> TRUE, ident |-> TRUE]]
     /\ memo' = [memo EXCEPT ![n] = NoCache]
     /\ Create(n, n, n, "custom", n)
\* copy.deepcopy(src) : type(self)(lut=deepcopy(lut), add_default_symbols=False, unit_system=...) - a plain copy
\* (since 24fb26f the defaults are no longer written over it: modified built-in symbols survive)
DeepCopyReg(src) ==
  /\ HasFresh /\ regs[src].live
  /\ LET n == Fresh sd == regs[src].d IN
     /\ Log([op |-> "deepcopy", r |-> src, new |-> n])
     /\ tabs' = [tabs EXCEPT ![n] = tabs[sd]]
     /\ tflag' = [tflag EXCEPT ![n] = [def |-> tflag[sd].def, ident |-> FALSE]]
     /\ memo' = [memo EXCEPT ![n] = NoCache]
     /\ Create(n, n, n, regs[src].kind, n)
\* pickle.loads(pickle.dumps(unyt_quantity(3.0, p, registry=src))).units.registry
Unpickle(src, p) ==
  /\ HasFresh /\ regs[src].live
  /\ LET n == Fresh sd == regs[src].d sc == regs[src].c
         x == ConstructR(tabs[sd], memo[sc], p) IN
     /\ Log([op |-> "unpickle", r |-> src, new |-> n, str |-> p])
     /\ IF ~x.ok
        THEN /\ tabs' = [tabs EXCEPT ![sd] = x.tab] /\ memo' = [memo EXCEPT ![sc] = x.mem]
             /\ last' = Raise /\ UNCHANGED <<regs, tflag>>
        ELSE LET y == ConstructR(FillIn(x.tab), NoCache, p) IN
             /\ tabs' = [tabs EXCEPT ![sd] = x.tab, ![n] = y.tab]
             /\ memo' = [memo EXCEPT ![sc] = x.mem, ![n] = y.mem]
             /\ tflag' = [tflag EXCEPT ![n] = [def |-> TRUE, ident |-> FALSE]]
             /\ Create(n, n, n, "custom", n)
\* Unit(p, registry=src).copy(deep=deep)
UnitCopy(src, p, deep) ==
  /\ (deep => HasFresh) /\ regs[src].live
  /\ LET sd == regs[src].d sc == regs[src].c
         x == ConstructR(tabs[sd], memo[sc], p) IN
     /\ Log([op |-> "unitcopy", r |-> src, new |-> IF deep /\ x.ok THEN Fresh ELSE src, str |-> p, deep |-> deep])
     /\ IF ~x.ok
        THEN /\ tabs' = [tabs EXCEPT ![sd] = x.tab] /\ memo' = [memo EXCEPT ![sc] = x.mem]
             /\ last' = Raise /\ UNCHANGED <<regs, tflag>>
        ELSE IF ~deep
        THEN \* copy.copy(registry) shares lut and memo; Unit(str, ..., registry) hits the memo: the original comes back
             /\ tabs' = [tabs EXCEPT ![sd] = x.tab] /\ memo' = [memo EXCEPT ![sc] = x.mem]
             /\ last' = [k |-> "same", r |-> src] /\ UNCHANGED <<regs, tflag>>
        ELSE LET n == Fresh IN
             /\ tabs' = [tabs EXCEPT ![sd] = x.tab, ![n] = x.tab]
             \* the copy is built from the original's numbers (no look-up); since fix 852a543 such a unit is NOT memoised
             /\ memo' = [memo EXCEPT ![sc] = x.mem, ![n] = NoCache]
             /\ tflag' = [tflag EXCEPT ![n] = [def |-> tflag[sd].def, ident |-> FALSE]]
             /\ Create(n, n, n, regs[src].kind, n)

\* A second registry OBJECT on the same table and the same memo (same class):
\*   how = "copyreg"  : copy.copy(src)
\*   how = "unitcopy" : (Unit("m", registry=src)**5).copy().registry  - Unit.copy() of a unit whose
\*                      text is not in the string memo is bound to copy.copy(registry)
\* Whatever is done through the handle is done to src's table; for src = 0 it is a handle on the DEFAULT table.
HandleHows == {"copyreg", "unitcopy"}
ShallowHandle(src, how) ==
  /\ HasFresh /\ regs[src].live
  /\ LET n == Fresh sd == regs[src].d sc == regs[src].c
         x == IF how = "copyreg" THEN [ok |-> TRUE, tab |-> tabs[sd], mem |-> memo[sc]] ELSE ConstructR(tabs[sd], memo[sc], "m") IN
     /\ Log([op |-> "handle", r |-> src, new |-> n, how |-> how])
     /\ tabs' = [tabs EXCEPT ![sd] = x.tab] /\ memo' = [memo EXCEPT ![sc] = x.mem]
     /\ UNCHANGED tflag
     /\ IF x.ok THEN Create(n, sd, sc, regs[src].kind, regs[src].grp) ELSE (last' = Raise /\ UNCHANGED regs)

\* pickle.loads(pickle.dumps(src))  |  pickle.loads(pickle.dumps(Unit(p, registry=src))).registry :
\* the registry OBJECT itself goes through pickle: an independent registry with a copy of the table AND of the memo
\* (the memoised units travel with it, bound to the restored registry), same class
PickleReg(src, how, p) ==
  /\ HasFresh /\ regs[src].live
  /\ LET n == Fresh sd == regs[src].d sc == regs[src].c
         x == IF how = "registry" THEN [ok |-> TRUE, tab |-> tabs[sd], mem |-> memo[sc]] ELSE ConstructR(tabs[sd], memo[sc], p) IN
     /\ Log([op |-> "picklereg", r |-> src, new |-> n, how |-> how, str |-> p])
     /\ IF ~x.ok
        THEN /\ tabs' = [tabs EXCEPT ![sd] = x.tab] /\ memo' = [memo EXCEPT ![sc] = x.mem]
             /\ last' = Raise /\ UNCHANGED <<regs, tflag>>
        ELSE /\ tabs' = [tabs EXCEPT ![sd] = x.tab, ![n] = x.tab]
             /\ memo' = [memo EXCEPT ![sc] = x.mem, ![n] = x.mem]
             /\ tflag' = [tflag EXCEPT ![n] = [def |-> tflag[sd].def, ident |-> FALSE]]
             /\ Create(n, n, n, regs[src].kind, n)

\* unyt_quantity(1.0, q, registry=r).in_base(sys)[.to(p)], sys one of the process-wide built-in unit systems
\* "mks" / "cgs": the system's length unit (m / cm) is looked up in r's own table (generated only while m is prefixable
\* in r, so that cm can be derived); the optional .to(p) parses p through the registry the converted data carries (r, or
\* a shallow copy sharing r's table and memo).  Nothing of the alphabet is written beyond these two constructions.
Systems == {"mks", "cgs"}
InBase(r, q, sys, to) ==
  /\ regs[r].live /\ TabOf(r)["m"].scale # 0 /\ TabOf(r)["m"].pfx
  /\ Log([op |-> "inbase", r |-> r, str |-> q, sys |-> sys, str2 |-> to])
  /\ LET x == ConstructR(TabOf(r), MemoOf(r), q)
         y == IF to = "" \/ ~x.ok THEN x ELSE ConstructR(x.tab, x.mem, to) IN
     /\ tabs' = [tabs EXCEPT ![regs[r].d] = y.tab]
     /\ memo' = [memo EXCEPT ![regs[r].c] = y.mem]
     /\ last' = IF x.ok /\ y.ok THEN [k |-> "res", r |-> r] ELSE Raise
  /\ UNCHANGED <<regs, tflag>>

(* ---- unit systems and namespaces created from a registry ---- *)
\* the regime in which the namespace helpers are transcribed: all built-in symbols present, m as shipped
Stock(r) == tflag[regs[r].d].def /\ TabOf(r)["m"] = DefRow("m")
\* UnitSystem(name, lu, "kg", "s", registry=r) : validation reads registry[unit] (write-back)
\* obj: the length unit is handed in as the Unit OBJECT exported by the namespace (unyt.km) instead of its name:
\* only its text is read (str(v)), the object is the same afterwards
MkUnitSystem(r, lu, obj) ==
  /\ regs[r].live /\ Stock(r) /\ tflag[regs[r].d].ident /\ (obj => lu = "km")
  /\ Log([op |-> "usys", r |-> r, sym |-> lu, obj |-> obj])
  /\ LET g == GetItems(TabOf(r), <<lu>>, 1) IN
     /\ tabs' = [tabs EXCEPT ![regs[r].d] = g.l]
     /\ last' = IF g.ok THEN Ok ELSE Raise
  /\ UNCHANGED <<regs, tflag, memo>>
\* add_symbols(namespace, r) : every unit_symbols name (km among them), then every other key of the table
AddSymbols(r) ==
  /\ regs[r].live /\ Stock(r)
  /\ Log([op |-> "addsymbols", r |-> r])
  /\ LET t1 == WriteBack(TabOf(r), "km")
         m1 == MemoOf(r)
         m2 == IF t1["foo"].scale # 0 THEN ConstructR(t1, m1, "foo").mem ELSE m1
         m3 == IF t1["kfoo"].scale # 0 THEN ConstructR(t1, m2, "kfoo").mem ELSE m2 IN
     /\ tabs' = [tabs EXCEPT ![regs[r].d] = t1]
     /\ memo' = [memo EXCEPT ![regs[r].c] = m3]
     /\ last' = Ok
  /\ UNCHANGED <<regs, tflag>>
\* add_constants(namespace, r) : quantities in built-in units ("m" among the unit strings)
AddConstants(r) ==
  /\ regs[r].live /\ Stock(r)
  /\ Log([op |-> "addconstants", r |-> r])
  /\ memo' = [memo EXCEPT ![regs[r].c] = ConstructR(TabOf(r), MemoOf(r), "m").mem]
  /\ last' = Ok
  /\ UNCHANGED <<regs, tflag, tabs>>

(* ---- data of one registry handed to another ---- *)
\* unyt_array(ndarray, u, registry=r, bypass_validation=bv), u = Unit(p, registry=src)
\* (for src = 0 the exported object unyt.<p>)
Rebind(r, src, p, bv) ==
  /\ regs[r].live /\ regs[src].live /\ r # src
  /\ (src = 0 => p \in {"m", "km"})
  /\ Log([op |-> "rebind", r |-> r, r2 |-> src, str |-> p, bypass |-> bv])
  /\ LET sd == regs[src].d sc == regs[src].c rd == regs[r].d rc == regs[r].c
         x == IF src = 0 THEN [ok |-> TRUE, tab |-> tabs[0], mem |-> memo[0]] ELSE ConstructR(tabs[sd], memo[sc], p)
         t1 == [tabs EXCEPT ![sd] = x.tab]
         m1 == [memo EXCEPT ![sc] = x.mem]
         \* without bypass_validation the unit is re-created from its string in r
         y == ConstructR(t1[rd], m1[rc], p) IN
     IF ~x.ok THEN /\ tabs' = t1 /\ memo' = m1 /\ last' = Raise
     ELSE IF bv THEN /\ tabs' = t1 /\ memo' = m1 /\ last' = [k |-> "res", r |-> r]
     ELSE /\ tabs' = [t1 EXCEPT ![rd] = y.tab] /\ memo' = [m1 EXCEPT ![rc] = y.mem]
          /\ last' = IF y.ok THEN [k |-> "res", r |-> r] ELSE Raise
  /\ UNCHANGED <<regs, tflag>>

\* x = unyt_array([1.0, 2.0], q, registry=r);  x.to(u) | x.in_units(u) | x.to_value(u) | x.convert_to_units(u)
\* where u is a Unit OBJECT owned by another registry: Unit(p, registry=src), for src = 0 the exported unyt.<p>.
\* No registry and no unit object changes owner, nothing is written beyond the two constructions; the converted
\* data carries u itself (so it lives in src afterwards).
Hows == {"to", "in_units", "to_value", "convert_to_units"}
Convert(r, q, src, p, how) ==
  /\ regs[r].live /\ regs[src].live /\ r # src
  /\ (src = 0 => p \in {"m", "km"})
  /\ Log([op |-> "convert", r |-> r, str |-> q, r2 |-> src, str2 |-> p, how |-> how])
  /\ LET d1 == regs[r].d c1 == regs[r].c sd == regs[src].d sc == regs[src].c
         x == ConstructR(tabs[d1], memo[c1], q)
         t1 == [tabs EXCEPT ![d1] = x.tab]
         m1 == [memo EXCEPT ![c1] = x.mem]
         y == IF src = 0 THEN [ok |-> TRUE, tab |-> t1[sd], mem |-> m1[sc]] ELSE ConstructR(t1[sd], m1[sc], p)
         t2 == [t1 EXCEPT ![sd] = y.tab]
         m2 == [m1 EXCEPT ![sc] = y.mem] IN
     IF ~x.ok THEN /\ tabs' = t1 /\ memo' = m1 /\ last' = Raise
     ELSE /\ tabs' = t2 /\ memo' = m2
          /\ last' = IF ~y.ok THEN Raise ELSE IF how = "to_value" THEN Ok ELSE [k |-> "res", r |-> src]
  /\ UNCHANGED <<regs, tflag>>

(* ---- binary operations on quantities of two registries ---- *)
\* which table keys simplify() looks up, in order (_cancel_mul over the ordered factors)
NameLt(a, b) == \E i, j \in DOMAIN KeySeq : KeySeq[i] = a /\ KeySeq[j] = b /\ i < j
Lookups(op, p1, p2) ==
  IF op = "add" THEN <<>>
  ELSE IF p1 = p2 THEN (IF op = "mul" THEN <<p1, p1>> ELSE <<>>)
  ELSE IF NameLt(p1, p2) THEN <<p1, p2>> ELSE <<p2, p1>>
\* unyt_quantity(3.0, p1, registry=r1) <op> unyt_quantity(2.0, p2, registry=r2)
\* warm = the process-wide lru memos of the unit operators were not cleared before the call
BinOp(op, r1, p1, r2, p2, warm) ==
  /\ regs[r1].live /\ regs[r2].live
  /\ Log([op |-> "binop", fn |-> op, r |-> r1, str |-> p1, r2 |-> r2, str2 |-> p2, warm |-> warm])
  /\ LET d1 == regs[r1].d c1 == regs[r1].c d2 == regs[r2].d c2 == regs[r2].c
         x == ConstructR(tabs[d1], memo[c1], p1)
         t1 == [tabs EXCEPT ![d1] = x.tab]
         m1 == [memo EXCEPT ![c1] = x.mem]
         y == ConstructR(t1[d2], m1[c2], p2)
         t2 == [t1 EXCEPT ![d2] = y.tab]
         m2 == [m1 EXCEPT ![c2] = y.mem]
         ks == Lookups(op, p1, p2)
         g1 == GetItems(t2[d1], ks, 1)               \* left registry first
         t3 == [t2 EXCEPT ![d1] = g1.l]
         g2 == GetItems(t3[d2], ks, 1)               \* SymbolNotFoundError: the operands are swapped
         t4 == [t3 EXCEPT ![d2] = g2.l] IN
     IF ~x.ok THEN /\ tabs' = t1 /\ memo' = m1 /\ last' = Raise
     ELSE IF ~y.ok THEN /\ tabs' = t2 /\ memo' = m2 /\ last' = Raise
     ELSE IF g1.ok THEN /\ tabs' = t3 /\ memo' = m2 /\ last' = [k |-> "res", r |-> r1]
     ELSE IF g2.ok THEN /\ tabs' = t4 /\ memo' = m2 /\ last' = [k |-> "res", r |-> r2]
     ELSE /\ tabs' = t4 /\ memo' = m2 /\ last' = Raise
  /\ UNCHANGED <<regs, tflag>>

(* ====================== C13 on the abstract state ====================== *)
\* registries that were NOT created independently of each other share a group: lut= aliases (the caller
\* handed over the same dict on purpose) and shallow handles (copy.copy of a registry).  Everything else is independent.
SameGroup(a, b) == regs[a].grp = regs[b].grp
\* C13_NoSharing: independently created registries never share a table or a memo
C13_NoSharing == \A a, b \in Live : ~SameGroup(a, b) => (regs[a].d # regs[b].d /\ regs[a].c # regs[b].c)
\* which groups a call may change: an edit (add/modify/remove/define) its own registry's group, the defaults
\* written by lut= the group that was handed over; every other call (construction of units, unit systems,
\* namespaces, persistence, copies, mixed arithmetic) none - C13 does not speak about a call's own registry,
\* except for mixed arithmetic ("never write to either") and modify/remove through ANY registry object on the
\* default table ("modify and remove on the default registry always refuse")
MayChange(e) == IF e.op \in {"binop", "rebind", "convert", "new"} \/ (regs[e.r].d = 0 /\ e.op \in {"modify", "remove"}) THEN {}
                ELSE {regs[e.r].grp}
\* C13_Frame (action): the digest of every registry outside MayChange is the same before and after
FrameBroken(e) == {r \in Live : regs[r].grp \notin MayChange(e) /\ DigestIn(regs', tabs', memo', r) # Digest(r)}
=============================================================================
