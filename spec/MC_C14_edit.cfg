CONSTANT MaxLen = 2
INIT EditInit
NEXT Next
INVARIANT Export
CHECK_DEADLOCK FALSE
