"""C14 - every documented unit name resolves to exactly one, correctly scaled unit.

Spec: spec/Names.tla (+ MC_C14, Trace_C14; stateful part NamesReg / MC_C14_hist / Trace_C14_hist).
  1. the name tables are regenerated from the working tree (impl_c14.tables, same data as harness/extract.py
     plus the tokenizer's alias table, str.title() of every spelling and per-name attribute flags);
  2. TLC (MC_C14) enumerates every case of the domain (prefix part x base string), evaluates the transcribed
     pipeline (Resolve) and the C14 predicates on the transcription's own outcome, checks the table-level
     clause C14_Unique and the SI prefix table, and exports the cases;
  3. every case is replayed in the real library through every route (string in the default registry, in a
     custom registry, as a quantity's unit; unit_symbols attribute, top-level attribute, add_symbols
     namespace) and projected onto denotations [table symbol, decimal exponent];
  4. TLC (Trace_C14) evaluates the C14 predicates on the observations (P) and compares them with the
     transition (T);
  5. stateful part: TLC explores all short histories of Unit(str) calls on one registry (derived rows and
     the string memo are state), the histories are replayed on a fresh registry and validated step by step.
"""

import json

from common import MachineryFailure

CHUNK = 10000


class _Part:
    """One concurrently running part of the check (case table / Unit(str) histories / edited registries).  TLC runs and
    replays go straight to the Check object (ck.tlc / ck.pmap may be called from several threads); verdicts, counters and
    coverage entries are recorded here and applied by the main thread in a fixed order, so the report is deterministic."""

    def __init__(self, ck):
        self._ck = ck
        self._calls = []
        self.cov = {}

    def __getattr__(self, name):
        return getattr(self._ck, name)

    def violation(self, *a, **k):
        self._calls.append(("violation", a, k))

    def drift_step(self, *a, **k):
        self._calls.append(("drift_step", a, k))

    def validated(self, *a, **k):
        self._calls.append(("validated", a, k))

    def sample(self, *a, **k):
        self._calls.append(("sample", a, k))

    def note(self, *a, **k):
        self._calls.append(("note", a, k))

    def apply(self):
        for name, a, k in self._calls:
            getattr(self._ck, name)(*a, **k)
        self._ck.cov.update(self.cov)


def _tlc_chunks(ck, jobs):
    """run independent trace-validation chunks concurrently; results in job order.  jobs: list of kwargs for ck.tlc"""
    import concurrent.futures as cf
    from common import NCPU

    with cf.ThreadPoolExecutor(max_workers=max(1, min(len(jobs), NCPU))) as ex:
        futs = [ex.submit(lambda kw=kw: ck.tlc(**kw)) for kw in jobs]
        return [f.result() for f in futs]


def _name(common, case):
    import impl_c14

    return impl_c14.case_string(case, common)


def _key(common, data, rec, case):
    """stable, specific key of a failing case: clause, route, the form of the prefix part and the base spelling /
    canonical symbol of a reading of the string (or the string itself when it has no reading at all)"""
    w = rec["w"]
    key = {"clause": rec["clause"], "route": rec.get("route", "table"), "pform": w["pform"]}
    key["prefix"] = data["prefixes"][w["pj"] - 1]["w"] if w["pj"] else ""
    key["base"] = common["names"][w["rb"] - 1] if w["rb"] else ""
    key["canonical"] = common["syms"][w["si"] - 1] if w["si"] else ""
    key["name"] = _name(common, case)
    return key


def _validate(ck, common, data, data_path, obs, label):
    """TLC evaluates P and T on the observations; returns (#P-FAIL records, #T-FAIL records)."""
    np_, nt = 0, 0
    parts = [obs[off : off + CHUNK] for off in range(0, len(obs), CHUNK)]
    jobs = []
    for n, part in enumerate(parts):
        path = ck.write_json(f"obs_{label}_{n}.json", part)
        jobs.append(dict(module="Trace_C14", env={"OBS": path, "NAMES_DATA": data_path}, workers=1, coverage=False, label=f"trace validation {label}[{n * CHUNK}:{n * CHUNK + len(part)}]", timeout=3000))
    for part, res in zip(parts, _tlc_chunks(ck, jobs)):
        if res.distinct != len(part) + 1:
            raise MachineryFailure(f"trace validation consumed {res.distinct} states, expected {len(part) + 1}")
        ck.validated(len(part))
        for r in res.by_tag("T-FAIL"):
            o = part[r["k"] - 1]
            nt += 1
            ck.drift_step("resolve:" + r["route"], {"name": _name(common, o), "model": r["model"], "observed": r["observed"]})
        for r in res.by_tag("P-FAIL"):
            o = part[r["k"] - 1]
            np_ += 1
            case = {"pk": o["pk"], "pi": o["pi"], "b": o["b"], "name": _name(common, o)}
            key = _key(common, data, r, o)
            ck.violation(key, {"observed": o["r"].get(r["route"]), "string_route": o["r"]["str"], "documented": r["doc"]}, case=case)
    return np_, nt


def _tables(ck):
    t = ck.pmap("impl_c14", "tables", [{}], nproc=1)[0]
    if "_error" in t:
        raise MachineryFailure("table extraction failed: " + str(t))
    meta = t.pop("_meta")
    # cross-check with the shared extraction (same tree): the generated names must be the same table
    ex = ck.extract()
    if ex["inv_name_alternatives"] != t["inv"]:
        raise MachineryFailure("impl_c14.tables and harness/extract.py disagree on inv_name_alternatives")
    if [r["sym"] for r in ex["lut"]] != [r["s"] for r in t["syms"]]:
        raise MachineryFailure("impl_c14.tables and harness/extract.py disagree on the symbol table")
    common = {"syms": [r["s"] for r in t["syms"]], "prefixes": [{"p": p["p"], "w": p["w"]} for p in t["prefixes"]], "names": [r["n"] for r in t["names"]]}
    return t, meta, common


def _validate_hist(ck, common, data, data_path, traces):
    nfail = 0
    HC = 2000
    parts = [traces[off : off + HC] for off in range(0, len(traces), HC)]
    jobs = []
    for n, part in enumerate(parts):
        path = ck.write_json(f"hist_{n}.json", part)
        jobs.append(dict(module="Trace_C14_hist", env={"TRACES": path, "NAMES_DATA": data_path}, workers=1, coverage=False, label=f"trace validation histories[{n * HC}:{n * HC + len(part)}]", timeout=3000))
    for part, res in zip(parts, _tlc_chunks(ck, jobs)):
        expect = 1 + sum(len(t["ev"]) + 1 for t in part)  # initial state + per trace: selection state + one per call
        if res.distinct != expect:
            raise MachineryFailure(f"history validation consumed {res.distinct} states, expected {expect}")
        ck.validated(len(part))
        for r in res.by_tag("T-FAIL"):
            t = part[r["tid"] - 1]
            ck.drift_step("history:" + r["what"], {"history": [_name(common, e) for e in t["ev"][: r["l"]]], "model": r["model"], "observed": t["ev"][r["l"] - 1]["o"]})
        for r in res.by_tag("P-FAIL"):
            t = part[r["tid"] - 1]
            e = t["ev"][r["l"] - 1]
            nfail += 1
            key = _key(common, data, r, e)
            key["route"] = "history"
            key["after"] = [_name(common, x) for x in t["ev"][: r["l"] - 1]]
            ck.violation(key, {"observed": e["o"], "history": [_name(common, x) for x in t["ev"]]}, case={"h": [{"pk": x["pk"], "pi": x["pi"], "b": x["b"]} for x in t["ev"]], "names": [_name(common, x) for x in t["ev"]]})
    return nfail


def _short_edit(e):
    import impl_c14

    if e["op"] == "unit":
        return "Unit(" + impl_c14.EDIT_PROBES[e["p"] - 1] + ")"
    if e["op"] == "addsymbols":
        return "add_symbols"
    if e["op"] == "add":
        return f"add({e['k']},{e['m']},prefixable={e['pfx']})"
    if e["op"] == "define":
        return f"define_unit({e['k']},({e['m']},'m'),prefixable={e['pfx']})"
    if e["op"] == "modify":
        return f"modify({e['k']},{e['m']})"
    return f"remove({e['k']})"


def _strip_edit(e):
    return {k: e[k] for k in ("op", "k", "m", "pfx", "p")}


def _validate_edit(ck, traces, label):
    """Trace_C14_edit: P (EditStr / EditNs / EditAgree under the caller's view of the registry) and T on replayed edit histories"""
    nfail = 0
    EC = 1500
    parts = [traces[off : off + EC] for off in range(0, len(traces), EC)]
    jobs = []
    for n, part in enumerate(parts):
        path = ck.write_json(f"edit_{label}_{n}.json", part)
        jobs.append(dict(module="Trace_C14_edit", env={"TRACES": path}, workers=1, coverage=False, label=f"trace validation edited registry {label}[{n * EC}:{n * EC + len(part)}]", timeout=3000))
    for part, res in zip(parts, _tlc_chunks(ck, jobs)):
        expect = 1 + sum(len(t["ev"]) + 2 for t in part)  # initial + per trace: selection, one per call, final observation
        if res.distinct != expect:
            raise MachineryFailure(f"edit-history validation consumed {res.distinct} states, expected {expect}")
        ck.validated(len(part))
        for r in res.by_tag("T-FAIL"):
            t = part[r["tid"] - 1]
            ck.drift_step("edited-registry:" + r["what"], {"history": [_short_edit(e) for e in t["ev"]], "at": r["l"], "model": r["model"]})
        for r in res.by_tag("P-FAIL"):
            t = part[r["tid"] - 1]
            nfail += 1
            at_final = r["l"] > len(t["ev"])
            edits = [e["op"] for e in t["ev"][: len(t["ev"]) if at_final else r["l"]] if e["op"] in ("add", "remove", "modify", "define")]
            key = {"clause": r["clause"], "route": "edited-registry" if t["kind"] == "custom" else "default-registry", "probe": r["probe"], "layer": r["layer"], "last_edit": edits[-1] if edits else "none", "form": r.get("form", "Unit")}
            ck.violation(key, {"history": [_short_edit(e) for e in t["ev"]], "at": "final observation" if at_final else r["l"], "observed": r["observed"], "expected": r["expected"]}, case={"edit": [_strip_edit(e) for e in t["ev"]], "kind": t["kind"]})
    return nfail


def _edit(ck):
    """custom registry with edited contents: TLC generates every history of <= MaxLen calls (NamesEdit / MC_C14_edit)"""
    maxlen = 2
    cfg = open(ck.spec + "/MC_C14_edit.cfg").read().replace("MaxLen = 2", f"MaxLen = {maxlen}")
    open(ck.spec + "/MC_C14_edit_run.cfg", "w").write(cfg)
    res = ck.tlc("MC_C14_edit", "MC_C14_edit_run", workers=1, label=f"edited registries: every history of define_unit/add/remove/modify/Unit(str)/add_symbols, MaxLen={maxlen}", required_actions=["Next"], timeout=3000)
    hs = res.by_tag("HIST")
    if len(hs) != res.distinct or len(hs) < 20:
        raise MachineryFailure(f"exported {len(hs)} edit histories for {res.distinct} states")
    deep = 0
    if ck.tier == "thorough":
        # one step deeper: state cover (VIEW hides the history; one witness history per distinct registry state)
        res2 = ck.tlc("MC_C14_edit", "MC_C14_edit_cover", workers=1, label="edited registries: state cover at depth 3 (VIEW hides the history)", required_actions=["Next"], timeout=3000)
        deeper = res2.by_tag("HIST")
        if not deeper:
            raise MachineryFailure("no depth-3 witnesses exported")
        deep = len(deeper)
        hs += deeper
    hs.sort(key=lambda r: (r["kind"], json.dumps(r["h"], sort_keys=True)))
    model_classes = sorted({(c["layer"]) for r in hs for c in r["stale"]})
    cases = [{"kind": r["kind"], "h": r["h"], "tch": bool(r["tch"])} for r in hs]
    traces = ck.pmap("impl_c14", "observe_edit", cases, chunk_timeout=ck.q(600, 3000))
    bad = [t for t in traces if "_error" in t]
    if bad:
        raise MachineryFailure("edit-history replay error: " + str(bad[0]))
    nfail = _validate_edit(ck, traces, "hist")
    ck.sample({"edit_history": [_short_edit(e) for e in cases[len(cases) // 2]["h"]]})
    ck.cov["edited_registry"] = {"max_len_all_histories": maxlen, "depth3_state_cover_witnesses": deep, "histories": len(cases), "on_default_registry": sum(1 for c in cases if c["kind"] == "default"), "model_level_stale_layers": model_classes, "p_fail_records": nfail,
                                 "namespace_built": sum(1 for t in traces if t["final"]["nsok"]), "namespace_refused": sum(1 for t in traces if not t["final"]["nsok"])}


def _hist(ck, common, data, data_path):
    """stateful part: all histories of <= MaxLen Unit(str) calls on one registry over a small alphabet of strings"""
    alphabet = ["m", "km", "kkm", "mkm", "meter", "kilometer", "kmeter", "Mm", "kMm", "ft", "kft", "dam", "ddam", "g", "kg", "mkg", "degC", "kdegC", "°C", "k°C"]
    # cases of the alphabet in terms of (prefix part, base string): the shortest prefix-symbol split whose base is a known name
    nameno = {n: i + 1 for i, n in enumerate(common["names"])}
    pno = {p["p"]: j + 1 for j, p in enumerate(common["prefixes"])}
    alpha = []
    for s in alphabet:
        if s in nameno:
            alpha.append({"pk": "none", "pi": 0, "b": nameno[s]})
            continue
        for cut in (1, 2):
            if s[:cut] in pno and s[cut:] in nameno:
                alpha.append({"pk": "sym", "pi": pno[s[:cut]], "b": nameno[s[cut:]]})
                break
    maxlen = ck.q(2, 3)
    apath = ck.write_json("alphabet.json", alpha)
    cfg = open(ck.spec + "/MC_C14_hist.cfg").read().replace("MaxLen = 2", f"MaxLen = {maxlen}")
    open(ck.spec + "/MC_C14_hist_run.cfg", "w").write(cfg)
    res = ck.tlc("MC_C14_hist", "MC_C14_hist_run", env={"NAMES_DATA": data_path, "ALPHABET": apath}, workers=1, label=f"registry histories of Unit(str), alphabet {len(alpha)}, MaxLen={maxlen}", required_actions=["Next"], timeout=3000)
    hs = res.by_tag("HIST")
    if len(hs) < len(alpha):
        raise MachineryFailure("too few histories exported")
    cases = [{"h": [alpha[x - 1] for x in r["h"]]} for r in hs]
    traces = ck.pmap("impl_c14", "observe_hist", cases, common=common)
    bad = [t for t in traces if "_error" in t]
    if bad:
        raise MachineryFailure("history replay error: " + str(bad[0]))
    nfail = _validate_hist(ck, common, data, data_path, traces)
    ck.cov["histories"] = {"alphabet": [_name(common, a) for a in alpha], "max_len": maxlen, "replayed": len(traces), "p_fail_records": nfail}


def _cases(ck, common, data, data_path):
    """the single-step case table: TLC enumerates, the library is replayed through every route, TLC validates"""
    domain = ck.q("core", "wide")
    slices = ["names", "sym", "word", "title"] + ck.q([], ["wsym", "wword"])
    jobs = []
    for d in slices:
        cfg = open(ck.spec + "/MC_C14.cfg").read().replace('Domain = "core"', f'Domain = "{d}"')
        open(ck.spec + f"/MC_C14_run_{d}.cfg", "w").write(cfg)
        jobs.append(dict(module="MC_C14", cfg=f"MC_C14_run_{d}", env={"NAMES_DATA": data_path}, workers=1, label=f"case table, domain={domain}, slice={d}", required_actions=["Next"], timeout=3000))
    cases = []
    table_fail = []
    for d, res in zip(slices, _tlc_chunks(ck, jobs)):
        part = res.by_tag("CASE")
        if len(part) != res.distinct - 1 or not part:
            raise MachineryFailure(f"slice {d}: exported {len(part)} cases for {res.distinct} states")
        cases += part
        table_fail += [r for r in res.by_tag("TABLE-FAIL") if r["clause"] != "PrefixTable" or d == "names"]
    if len(cases) < len(common["names"]):
        raise MachineryFailure(f"exported only {len(cases)} cases")
    cases.sort(key=lambda r: (r["pk"], r["pi"], r["b"]))
    # table-level clauses (no observation needed): decided by TLC in the instance itself
    for r in table_fail:
        case = {"pk": r["pk"], "pi": r["pi"], "b": r["b"]}
        key = _key(common, data, r, case) if r["b"] else {"clause": r["clause"], "route": "table", "prefix": data["prefixes"][r["pi"] - 1]["p"]}
        ck.violation(key, {"denotations": r.get("dens")}, case=dict(case, name=_name(common, case) if r["b"] else ""))
    model_fail = [r for r in cases if r["fails"]]
    ck.cov["exhaustive"] = True
    ck.cov["bound"] = {"domain": domain, "names": len(common["names"]), "symbols": len(common["syms"]), "prefix_rows": len(common["prefixes"])}
    ck.cov["evaluations"] = len(cases)
    ck.cov["distinct_nontrivial"] = sum(1 for r in cases if r["doc"] or r["ns"] > 0)
    ck.cov["rule"] = "cases whose string is a documented name or admits at least one split into [prefix spelling] + spelling of a table unit (the others only check that nothing unexpected is accepted)"
    ck.cov["documented_names"] = sum(1 for r in cases if r["doc"])
    ck.cov["strings_with_more_than_one_split"] = sum(1 for r in cases if r["ns"] > 1)
    ck.cov["model_level_failures"] = len(model_fail)
    ck.sample({"case": cases[len(cases) // 2], "string": _name(common, cases[len(cases) // 2])})
    amb = [r for r in cases if r["ns"] > 1]
    if amb:
        ck.sample({"string_with_several_splits": _name(common, amb[len(amb) // 2]), "case": amb[len(amb) // 2]})

    obs = ck.pmap("impl_c14", "observe", [{"pk": r["pk"], "pi": r["pi"], "b": r["b"]} for r in cases], common=common)
    bad = [o for o in obs if "_error" in o]
    if bad:
        raise MachineryFailure("replay error: " + str(bad[0]))
    np_, nt = _validate(ck, common, data, data_path, obs, "cases")
    ck.cov["p_fail_records"] = np_
    ck.cov["t_fail_records"] = nt
    ck.cov["routes_observed"] = {k: sum(1 for o in obs if o["r"][k]["present"]) for k in ("str", "reg", "qty", "can", "us", "top", "ns")}



def run(ck):
    ck.level = "model_checking"
    ck.assumptions += [
        "the documented names are: table symbols, listed alternatives, prefix symbol + prefixable symbol, prefix word + listed alternative of a prefixable unit (stated in Names.tla), plus every generated name / unit_symbols attribute / top-level unit attribute found in the tree",
        "units are compared by denotation: [table symbol i, decimal exponent e] such that the observed unit has the dimensions and offset of Unit(symbol i) and a scale within 2 ulp (4.5e-16 relative) of 10^e times its scale; the SI exponents are stated in Names.tla, not read from the tree",
        "Title-case variants are Python's str.title() (supplied as a table: TLC has no character access); the reading relation admits them for spellings of >= 4 characters",
        "top-level attributes that are physical constants shadowing a unit name are C15's business (not unit attributes)",
        "TLC never sees floats; strings travel as ASCII-escaped JSON and cases refer to them by index",
    ]
    data, meta, common = _tables(ck)
    data_path = ck.write_json("names_data.json", data)
    ck.note({"tokenizer_alias_table": meta["tok_source"], "top_level_names_shadowed_by_constants": len(meta["top_shadowed_by_non_units"])})
    if meta["alts_of_unknown_symbol"]:
        ck.cov["uncovered"].append({"alternatives_listed_for_symbols_not_in_the_table": meta["alts_of_unknown_symbol"]})

    if ck.replay:
        blob = json.load(open(ck.replay))
        case = blob["case"]
        if "edit" in case:
            traces = ck.pmap("impl_c14", "observe_edit", [{"kind": case.get("kind", "custom"), "h": case["edit"]}], nproc=1)
            _validate_edit(ck, traces, "replay")
            return
        if "h" in case:
            traces = ck.pmap("impl_c14", "observe_hist", [{"h": case["h"]}], nproc=1, common=common)
            _validate_hist(ck, common, data, data_path, traces)
            return
        # the case is (prefix part, base string number); re-locate the base string in the current tables by its text
        if case["pk"] == "none" and "name" in case:
            nameno = {n: i + 1 for i, n in enumerate(common["names"])}
            case["b"] = nameno.get(case["name"], case["b"])
        case = {"pk": case["pk"], "pi": case["pi"], "b": case["b"]}
        obs = ck.pmap("impl_c14", "observe", [case], nproc=1, common=common)
        _validate(ck, common, data, data_path, obs, "replay")
        return

    import concurrent.futures as cf

    import os

    only = set(filter(None, os.environ.get("VERIF_C14_PARTS", "").split(",")))  # development knob: cases,hist,edit (default: all)
    pa, pb, pc = _Part(ck), _Part(ck), _Part(ck)
    with cf.ThreadPoolExecutor(max_workers=3) as ex:
        fs = []
        if not only or "cases" in only:
            fs.append(ex.submit(_cases, pa, common, data, data_path))
        if not only or "hist" in only:
            fs.append(ex.submit(_hist, pb, common, data, data_path))
        if not only or "edit" in only:
            fs.append(ex.submit(_edit, pc))
        for f in fs:
            f.result()
    for part in (pa, pb, pc):
        part.apply()
    # the TLC counters were updated from several threads: recompute them from the list of runs
    ck.cov["states"] = sum(r.distinct for r in ck.tlc_runs)
    ck.cov["transitions"] = sum(r.generated for r in ck.tlc_runs)
    ck.cov["tlc_runs"].sort(key=lambda r: r["label"])
