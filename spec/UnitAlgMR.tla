----------------------------- MODULE UnitAlgMR -----------------------------
(* The dyadic model registry of C05 (atoms, leaves), the registry as a STATE   *)
(* (table rows changed by modify / add / remove+add) and the model run of a    *)
(* law program on a table.  Shared by MC_C05 (case and history generation,     *)
(* model-level check) and Trace_C05 (the table a history has reached is the    *)
(* reference for "what the current definitions imply").                        *)
EXTENDS UnitAlg

(* ------------------------- the model registry ---------------------------- *)
DV(m, l, t, th, an, lo) == <<R(m), R(l), R(t), R(th), R(an), RZero, RZero, R(lo)>>
\* pfx: the symbol is registered as SI-prefixable (kla, Mtb, ... resolve on demand; _lookup_unit_symbol then writes the
\* derived row into the registry's table) - none of the leaves is a prefixed form (1000 is not a power of two), the
\* prefixed names only occur in the read-only QUERIES of the registry histories
At(n, lg, dim, off) == [n |-> n, lg |-> R(lg), dim |-> dim, off |-> R(off), neg |-> n = "an", pfx |-> n \in {"la", "tb", "ma"}]
\* scales are 2**lg ; registries 1 and 3 hold all but xb (two objects in the same state), registry 2 holds all
RS(reg) == IF reg = 3 THEN 1 ELSE reg   \* registry 4 (edited by histories) is a class of its own
MRAtoms == <<
  At("la", 0, DV(0,1,0,0,0,0), 0),   At("lb", 10, DV(0,1,0,0,0,0), 0),  At("lc", -3, DV(0,1,0,0,0,0), 0),
  At("ta", 0, DV(0,0,1,0,0,0), 0),   At("tb", 6, DV(0,0,1,0,0,0), 0),
  At("ma", 0, DV(1,0,0,0,0,0), 0),   At("mb", -5, DV(1,0,0,0,0,0), 0),
  At("na", 0, DV(0,0,0,0,0,0), 0),   At("nq", -2, DV(0,0,0,0,0,0), 0),
  At("fo", 3, DV(1,1,-2,0,0,0), 0),  At("en", 3, DV(1,2,-2,0,0,0), 0),
  At("ka", 0, DV(0,0,0,1,0,0), 0),   At("oc", 0, DV(0,0,0,1,0,0), -256), At("od", -1, DV(0,0,0,1,0,0), -32),
  At("ag", 0, DV(0,0,0,0,1,0), 0),   At("ao", -6, DV(0,0,0,0,1,0), 90),
  At("an", -6, DV(0,0,0,0,1,0), 90), At("np", 0, DV(0,0,0,0,0,1), 0),
  At("xb", 2, DV(0,1,0,0,0,0), 0) >>
NA == Len(MRAtoms)
ALG == [i \in 1..NA |-> MRAtoms[i].lg]
ADIM == [i \in 1..NA |-> MRAtoms[i].dim]
AIdx(n) == CHOOSE i \in 1..NA : MRAtoms[i].n = n
\* exponent vector from a set of <<atom, n, d>>
EV(S) == [i \in 1..NA |-> IF \E t \in S : t[1] = MRAtoms[i].n THEN (LET tt == CHOOSE t2 \in S : t2[1] = MRAtoms[i].n IN Norm(tt[2], tt[3])) ELSE RZero]
\* a leaf = a unit string: exponent vector + log2 of a leading numeric coefficient ("8*la" has clg 3)
\* xs: the leaf is GIVEN with the scale 2**xlg (Unit(expr, base_value=2.0**xlg, dimensions=..., registry=...)) instead of
\* the scale its expression resolves to
LfC(s, reg, S, c) == [s |-> s, reg |-> reg, ex |-> EV(S), clg |-> R(c), xs |-> FALSE, xlg |-> RZero]
LfX(s, reg, S, x) == [s |-> s, reg |-> reg, ex |-> EV(S), clg |-> RZero, xs |-> TRUE, xlg |-> R(x)]
Lf(s, reg, S) == LfC(s, reg, S, 0)
Atom(n) == Lf(n, 1, {<<n, 1, 1>>})
MRLeaves == <<
  Atom("la"), Atom("lb"), Atom("lc"), Atom("ta"), Atom("tb"), Atom("ma"), Atom("mb"), Atom("na"), Atom("nq"),
  Atom("fo"), Atom("en"), Atom("ka"), Atom("oc"), Atom("od"), Atom("ag"), Atom("ao"), Atom("an"), Atom("np"),
  Lf("la/ta", 1, {<<"la", 1, 1>>, <<"ta", -1, 1>>}),
  Lf("fo*la", 1, {<<"fo", 1, 1>>, <<"la", 1, 1>>}),
  Lf("ma*la**2/ta**2", 1, {<<"ma", 1, 1>>, <<"la", 2, 1>>, <<"ta", -2, 1>>}),
  Lf("lb**2/lc", 1, {<<"lb", 2, 1>>, <<"lc", -1, 1>>}),
  Lf("nq*ma", 1, {<<"nq", 1, 1>>, <<"ma", 1, 1>>}),
  Lf("lb", 2, {<<"lb", 1, 1>>}),
  Lf("xb", 2, {<<"xb", 1, 1>>}),
  Lf("la", 3, {<<"la", 1, 1>>}),
  Lf("fo*la", 3, {<<"fo", 1, 1>>, <<"la", 1, 1>>}),
  \* strings that carry a numeric coefficient (also a bare number)
  LfC("8*la", 1, {<<"la", 1, 1>>}, 3),
  LfC("0.25*ta", 1, {<<"ta", 1, 1>>}, -2),
  LfC("4*la/ta", 1, {<<"la", 1, 1>>, <<"ta", -1, 1>>}, 2),
  LfC("16", 1, {}, 4),
  LfC("2*ma*lb", 1, {<<"ma", 1, 1>>, <<"lb", 1, 1>>}, 1),
  \* registry 5 defines la, ta, ma, nq DIFFERENTLY (two datasets with their own code units): the ratio of the same-named
  \* symbols of registries 1 and 5 has expression 1 and a scale that is not 1
  Lf("la", 5, {<<"la", 1, 1>>}), Lf("ta", 5, {<<"ta", 1, 1>>}), Lf("ma*la/ta", 5, {<<"ma", 1, 1>>, <<"la", 1, 1>>, <<"ta", -1, 1>>}),
  Lf("nq", 5, {<<"nq", 1, 1>>}),
  \* units given with an explicit scale: expression and scale disagree with the naive reading
  LfX("1", 1, {}, -1), LfX("1", 1, {}, 3), LfX("la", 1, {<<"la", 1, 1>>}, 3),
  LfX("la/lb", 1, {<<"la", 1, 1>>, <<"lb", -1, 1>>}, 0), LfX("ma*la**2/ta**2", 1, {<<"ma", 1, 1>>, <<"la", 2, 1>>, <<"ta", -2, 1>>}, -4) >>
PlainLeaf(x) == RIsZero(MRLeaves[x].clg)
NMR == Len(MRLeaves)

(* ---- the registry as a state: table rows that registry edits change ---- *)
\* registry 4 of the harness starts like registry 1 and is EDITED by the histories of law "state";
\* a table is a tuple over the atoms of [lg, dim, neg, off]
Table0 == [i \in 1..NA |-> [lg |-> MRAtoms[i].lg, dim |-> MRAtoms[i].dim, neg |-> MRAtoms[i].neg, off |-> MRAtoms[i].off]]
\* registry 5: the same symbols, four of them with other scales
Lg5(n, d) == CASE n = "la" -> R(1) [] n = "ta" -> R(3) [] n = "ma" -> R(-1) [] n = "nq" -> R(0) [] OTHER -> d
Table5 == [i \in 1..NA |-> [Table0[i] EXCEPT !.lg = Lg5(MRAtoms[i].n, @)]]
TableOf(reg) == IF reg = 5 THEN Table5 ELSE Table0
\* an edit: [k, sym, lg, d] ; k = "modify" (UnitRegistry.modify(sym, 2.0**lg): scale replaced, dimension/offset kept)
\*          | "add" (add over the existing row) | "readd" (remove, then add): scale 2**lg, dimension of atom d, offset 0
\*          (add / readd keep the symbol's prefixable flag)
Ed(k, sym, lg, d) == [k |-> k, sym |-> sym, lg |-> lg, d |-> d]
\* A history may also contain read-only QUERIES of the registry.  They ask, they do not define: the registry state (the
\* table of definitions) after a query is the state before it, whatever the implementation memoises on the way.
\*   has    `sym in registry`                 get     `registry[sym]` (SymbolNotFoundError for an unknown name)
\*   unit   `Unit(sym, registry=registry)`    define  `define_unit(sym, ..., registry=registry)` for a name that already
\*                                                    resolves (RuntimeError: nothing is defined)
\*   keys / pfx / samedim / json / id         registry.keys(), .prefixable_units, .list_same_dimensions(u), .to_json(),
\*                                            .unit_system_id
\*   lutcopy / dcopy                          a second registry made from a copy of the table / copy.deepcopy(registry)
\*   pickle / baseq / latex                   pickle.dumps(u), u.get_base_equivalent(), u.latex_repr  (u = Unit(sym))
\* sym: a model atom ("la"), an SI-prefixed form of a prefixable model atom ("kla", "Mtb", "uma") or of a built-in
\* symbol ("Merg", "km": every real registry starts from the built-in table), or a name that does not resolve ("zzq").
QueryKinds == {"has", "get", "unit", "define", "keys", "pfx", "samedim", "json", "id", "lutcopy", "dcopy", "pickle", "baseq", "latex"}
IsQuery(e) == e.k \in QueryKinds
Qy(k, sym) == [k |-> k, sym |-> sym, lg |-> 0, d |-> "-"]
\* (T) which queries make _lookup_unit_symbol derive a prefixed row and write it into the table's dict: the first
\* resolution of a prefixed name ("cold"); afterwards the row is found directly ("warm")
PrefixedNames == {"kla", "Mtb", "uma", "mla", "Merg", "km", "kpc"}
Resolves(e) == e.k \in {"has", "get", "unit", "define"} /\ e.sym \in PrefixedNames
ApplyEdit(T, e) ==
  IF IsQuery(e) THEN T ELSE
  LET i == AIdx(e.sym) IN
  IF e.k = "modify" THEN [T EXCEPT ![i].lg = R(e.lg), ![i].neg = FALSE]
  ELSE [T EXCEPT ![i] = [lg |-> R(e.lg), dim |-> MRAtoms[AIdx(e.d)].dim, neg |-> FALSE, off |-> RZero]]
RECURSIVE TableAfter(_, _, _)
TableAfter(T, edits, n) == IF n = 0 THEN T ELSE ApplyEdit(TableAfter(T, edits, n - 1), edits[n])
\* the table in phase ph (0 = before any edit) of a history
TableAt(edits, ph) == TableAfter(Table0, edits, ph)
\* "the same registry state": phases ph-d and ph of one history are compared when their tables are equal and
\*   (a) nothing but queries happened in between (no add / remove / modify: the plainest reading of "same state"), or
\*   (b) the history up to ph contains no query at all (edits that were undone: the same definitions are back).
\* Edits undone AFTER a query are deliberately left out: a prefixed row derived by the query stays in the table's dict
\* (and goes stale under modify: C12's known finding "lutrow"), so whether that registry is "in the same state" again is
\* open to interpretation - the statement is not stretched over it.
SameState(edits, ph, d) ==
  /\ TableAt(edits, ph) = TableAt(edits, ph - d)
  /\ \/ \A x \in (ph - d + 1)..ph : IsQuery(edits[x])
     \/ \A x \in 1..ph : ~IsQuery(edits[x])

Obsify(u) == IF IsUnit(u) THEN [k |-> "unit", ex |-> u.ex, clg |-> u.clg, c1 |-> u.c1, lg |-> u.lg, neg |-> u.neg, dim |-> u.dim,
                                  off |-> u.off, reg |-> u.reg, rs |-> RS(u.reg), alien |-> FALSE, syncerr |-> 0, lgok |-> TRUE]
             ELSE u
SingleAtom(ex) == Cardinality({i \in 1..NA : ~RIsZero(ex[i])}) = 1 /\ \E i \in 1..NA : ex[i] = ROne
\* Unit(string, registry) on table T: scale and dimension from the rows, the offset only for a bare symbol
LeafRecT(l, T, reg) ==
  IF l.xs THEN Obsify(MkUnit(l.ex, RZero, l.xlg, FALSE, DotV(l.ex, [i \in 1..NA |-> T[i].dim]), RZero, reg, TRUE, TRUE)) ELSE
  LET one == CHOOSE i \in 1..NA : l.ex[i] = ROne
      off == IF SingleAtom(l.ex) /\ RIsZero(l.clg) THEN T[one].off ELSE RZero IN
  Obsify(MkUnit(l.ex, l.clg, QAdd(l.clg, Dot(l.ex, [i \in 1..NA |-> T[i].lg])), SingleAtom(l.ex) /\ RIsZero(l.clg) /\ T[one].neg,
                DotV(l.ex, [i \in 1..NA |-> T[i].dim]), off, reg, TRUE, TRUE))
LeafRec(l) == LeafRecT(l, TableOf(l.reg), l.reg)
OneRec(reg) == Obsify(MkUnit([i \in 1..NA |-> RZero], RZero, RZero, FALSE, VZero(ND), RZero, reg, TRUE, TRUE))

\* one step of the model run
ModelSimplify(u, alg, adim, ain) ==
  IF ~IsUnit(u) \/ SimplifyRaises(u, ain) \/ SimplifyMayRaise(u, adim) THEN Raise
  ELSE LET st == CHOOSE s \in SimplifySet(u, alg, adim) : TRUE IN
       [u EXCEPT !.ex = st.ex, !.clg = st.clg, !.c1 = RIsZero(st.clg)]
ModelCoeff(u) ==
  IF ~IsUnit(u) THEN Raise
  ELSE LET r == AsCoeffUnit(u) IN
       [k |-> "unit", ex |-> r.ex, clg |-> r.clg, c1 |-> r.c1, lg |-> r.lg, neg |-> r.neg, dim |-> r.dim, off |-> r.off,
        reg |-> r.reg, rs |-> RS(r.reg), alien |-> FALSE, syncerr |-> 0, lgok |-> TRUE, cf |-> r.cf]
ModelExec(ins0, regs, alg, adim, ain) ==
  LET ins == Sem(ins0) IN
  CASE ins.op = "mulrule" ->
         LET m1 == Obsify(UMul(regs[ins.a], regs[ins.b], TRUE))
             m == IF IsUnit(m1) /\ SimplifyRaises(m1, ain) THEN Obsify(UMul(regs[ins.b], regs[ins.a], TRUE)) ELSE m1 IN
         ModelCoeff(ModelSimplify(m, alg, adim, ain))
    [] ins.op = "divrule" -> ModelCoeff(ModelSimplify(Obsify(UDiv(regs[ins.a], regs[ins.b], TRUE)), alg, adim, ain))
    [] ins.op = "mul" -> Obsify(UMul(regs[ins.a], regs[ins.b], TRUE))
    [] ins.op = "div" -> Obsify(UDiv(regs[ins.a], regs[ins.b], TRUE))
    [] ins.op = "pow" -> Obsify(UPow(regs[ins.a], ins.e, TRUE))
    [] ins.op = "simplify" -> ModelSimplify(regs[ins.a], alg, adim, ain)
    [] ins.op = "coeff" -> ModelCoeff(regs[ins.a])
RECURSIVE RunFrom(_, _, _, _, _, _, _)
RunFrom(prog, regs, alg, adim, ain, olds, k) ==
  IF k > Len(prog) THEN regs
  ELSE RunFrom(prog, Append(regs, IF prog[k].op = "old" THEN olds[prog[k].a] ELSE ModelExec(prog[k], regs, alg, adim, ain)), alg, adim, ain, olds, k + 1)
ModelPair(regs, pr) ==
  LET a == regs[pr.i] b == regs[pr.j] both == IsUnit(a) /\ IsUnit(b) IN
  [i |-> pr.i, j |-> pr.j, kind |-> pr.kind, eq |-> UEq(a, b), eqr |-> UEq(b, a), ne |-> ~UEq(a, b), ner |-> ~UEq(b, a),
   heq |-> both /\ UHashEq(a, b), same |-> both /\ SameExpr(a, b),
   serr |-> IF both /\ a.lg = b.lg /\ a.neg = b.neg THEN 0 ELSE FarTol]
\* the atom universe of a case = the atoms of its leaves (keeps the vectors short)
\* hreg = 0: leaves in their own registries on Table0 ; hreg = 4: all leaves in the edited registry 4 on table T
ModelRunT(c, T, hreg) ==
  LET prog == Prog(c.law, c.p, c.q)
      lf == [r \in 1..3 |-> MRLeaves[c.lv[r]]]
      used == {a \in 1..NA : \E r \in 1..3 : ~RIsZero(lf[r].ex[a])}
      au == SelectSeq([a \in 1..NA |-> a], LAMBDA a : a \in used)
      cut(u) == [u EXCEPT !.ex = [x \in 1..Len(au) |-> u.ex[au[x]]]]
      rg(r) == IF hreg = 0 THEN lf[r].reg ELSE hreg
      tb(r) == IF hreg = 0 THEN TableOf(lf[r].reg) ELSE T
      \* the reference table of the run is the one of the first leaf's registry (what simplify of its results looks up)
      alg == [x \in 1..Len(au) |-> tb(1)[au[x]].lg]
      adim == [x \in 1..Len(au) |-> tb(1)[au[x]].dim]
      regs0 == <<cut(LeafRecT(lf[1], tb(1), rg(1))), cut(LeafRecT(lf[2], tb(2), rg(2))), cut(LeafRecT(lf[3], tb(3), rg(3))), cut(OneRec(rg(1)))>>
      olds == <<cut(LeafRecT(lf[1], Table0, rg(1))), cut(LeafRecT(lf[2], Table0, rg(2))), cut(LeafRecT(lf[3], Table0, rg(3)))>>
      ain == [x \in 1..Len(au) |-> IF MRAtoms[au[x]].n = "xb" THEN <<2>> ELSE <<1, 2, 3, 4, 5>>]
      regs == RunFrom(prog, regs0, alg, adim, ain, olds, 1)
      prs == Pairs(c.law) IN
  [law |-> c.law, exact |-> TRUE, alg |-> alg, adim |-> adim, regs |-> regs, prog |-> prog,
   pairs |-> [x \in DOMAIN prs |-> ModelPair(regs, prs[x])], herr |-> [x \in DOMAIN prog |-> 0], hcond |-> [x \in DOMAIN prog |-> 0], ain |-> ain, hist |-> hreg # 0]
ModelRun(c) == ModelRunT(c, Table0, 0)
\* law "state": the same program in every phase of the history, on the table of that phase
\* (queries do not change the table: the set of tables of a history, each judged once)
ModelFails(c) ==
  IF c.law = "state" THEN UNION {Fails(ModelRunT(c, T, 4)) : T \in {TableAt(c.edits, ph) : ph \in 0..Len(c.edits)}}
  ELSE Fails(ModelRun(c))

=============================================================================
