----------------------------- MODULE Trace_C18 -----------------------------
(* Trace validation for C18.  STEPS is the flattened list of observed steps  *)
(* of replayed TLC histories: for each call the projection of EVERY live     *)
(* object before (B) and after (Af) it, whether it raised, the result, and   *)
(* the outcome of the corresponding copying call on copies (tw).             *)
(*   P : the C18 predicates of Frame evaluated on the observation            *)
(*   T : the observation compared with Frame!Apply(B, c)  (diagnostic)       *)
EXTENDS Frame, Json, IOUtils
Steps == JsonDeserialize(IOEnv.STEPS)
VARIABLE i
TraceInit == i = 1

NumOk(m, o) == IsOpq(m) \/ IsOpq(o) \/ m = o
SeqOk(ms, os) == Len(ms) = Len(os) /\ \A j \in DOMAIN ms : NumOk(ms[j], os[j])
UnitOk(mu, ou) == mu.s = "??" \/ (mu.dim = ou.dim /\ NumOk(mu.sc, ou.sc) /\ NumOk(mu.off, ou.off))
\* multiply/divide: _multiply_units/_divide_units simplify the product and move the cancelled ratio (e.g. lb/la = 8)
\* from the unit into the numbers; which atoms cancel depends on the spelling, so T compares numbers x scale there
PhysSeqOk(mn, msc, on, osc) ==
  Len(mn) = Len(on) /\ \A j \in DOMAIN mn : LET a == NMul(mn[j], msc) b == NMul(on[j], osc) IN IsOpq(a) \/ IsOpq(b) \/ a = b
Scaled(c) == c.f \in {"mul", "div", "rmul", "rdiv"} \/ c.op = "dot"
ObjOk(c, m, o) ==
  IF Scaled(c) THEN m.u.s = "??" \/ (m.u.dim = o.u.dim /\ NumOk(m.u.off, o.u.off) /\ PhysSeqOk(m.n, m.u.sc, o.n, o.u.sc))
  ELSE SeqOk(m.n, o.n) /\ UnitOk(m.u, o.u)
\* the model does not predict a power whose exponent it cannot read (huge / non-dyadic floats)
TSkip(s) == \/ s.c.op \in GOps \cup {"gin"}      \* generic copying families: frame only (P1_NoMut), results are not transcribed
            \/ s.c.f = "pow" /\ s.c.y \in Slots /\ \E j \in DOMAIN s.B[s.c.y].n : IsOpq(s.B[s.c.y].n[j])
            \* ... nor the coefficient path of multiply/divide when the out= object's OWN unit is spelled with a cancellable
            \* ratio (lb/la): `multiply(out, mul, out=out)` consults that unit again
            \/ IsInplace(s.c) /\ s.c.f \in {"mul", "div"} /\ s.B[Target(s.c)].u.s = "lb/la"
\* T on one step
TOk(s) ==
  LET r == Apply(s.B, s.c) t == Target(s.c) IN
  \/ TSkip(s)
  \/ /\ r.ex = s.ex
     /\ ~s.ex =>
          /\ \A o \in ArrSlots : (s.B[o].k # "-") =>
                (IF IsInplace(s.c) /\ o = t THEN ObjOk(s.c, r.S[o], s.Af[o])
                 ELSE IF IsInplace(s.c) /\ Scaled(s.c) /\ o \in Alias(t) THEN UnitOk(r.S[o].u, s.Af[o].u)
                 ELSE SeqOk(r.S[o].n, s.Af[o].n) /\ UnitOk(r.S[o].u, s.Af[o].u))
          /\ IsInplace(s.c) => r.S[t].dt = s.Af[t].dt
          /\ (r.res.k \in {"A", "Q"}) = (s.res.k \in {"A", "Q"})
          /\ r.res.k \in {"A", "Q"} => ObjOk(s.c, r.res, s.res)
          /\ r.res.k = "U" => (s.res.k = "U" /\ UnitOk(r.res.u, s.res.u))
TDetail(s) == LET r == Apply(s.B, s.c) IN [ex |-> r.ex, res |-> r.res, tgt |-> IF IsInplace(s.c) THEN r.S[Target(s.c)] ELSE Dead]

TraceNext ==
  /\ i <= Len(Steps)
  /\ LET s == Steps[i]
         bad == FailedClauses(s.B, s.Af, s.c, s.ex, s.tw) IN
       /\ \A cl \in bad :
            PrintT(ToJson([tag |-> "P-FAIL", idx |-> i, clause |-> cl, op |-> s.c.op, f |-> s.c.f, offin |-> OffIn(s.B, s.c), e |-> s.c.e, tint |-> IsInt(s.B[Target(s.c)].dt),
                           changed |-> IF cl = "P1_NoMut" THEN P1_Bad(s.B, s.Af, s.c) ELSE {}]))
       /\ (bad = {} /\ ~TOk(s)) => PrintT(ToJson([tag |-> "T-FAIL", idx |-> i, op |-> s.c.op, model |-> TDetail(s)]))
  /\ i' = i + 1
=============================================================================
