CONSTANTS
  MaxLen = 2
  ExportLen = 2
  NUin = 1
  NUout = 1
  Diag = 0
  Part = 0
  Profile = "hist"
INIT Init
NEXT Next
INVARIANT ModelFormula
INVARIANT ExportHist
CHECK_DEADLOCK FALSE
