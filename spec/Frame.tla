------------------------------- MODULE Frame -------------------------------
(* C18 - frame conditions of unyt calls.                                      *)
(*                                                                            *)
(* A small object graph is the state: a base array A (4 numbers), a view V of *)
(* A (elements 2..3, shares A's memory), an array B, a quantity Q, an out     *)
(* buffer C, the result R of the last copying call (a fresh object that later *)
(* calls may use as operand or target), and two Unit objects U1, U2.          *)
(* Every object is projected to  [k, dt, u, n]:                               *)
(*   k   class: "A" array, "Q" quantity (0-d), "U" Unit object, "-" no object *)
(*   dt  dtype string ("f8","i8","i1",...), "" for units                      *)
(*   u   unit  [dim (5 exponents L,T,Th,M,I), sc, off, s (string)]            *)
(*   n   numbers: sequence of exact rationals <<n,d>>; <<k,0>> is an opaque   *)
(*       number (k = 0: the model does not know it; k > 0: interned float     *)
(*       that is not a small rational - equality of tokens = equality of      *)
(*       floats)                                                              *)
(*                                                                            *)
(* Part 1 (implementation-shaped, T): Apply(S, c) = outcome of call c in      *)
(* state S, transcribed from array.py / unit_object.py / _array_functions.py  *)
(* (branch order kept where it decides raise-vs-mutate ordering).             *)
(* Part 2 (property, P): the C18 predicates over (before, after, call,        *)
(* raised, twin) - they only say what the property statement says.            *)
EXTENDS Rational, Sequences, FiniteSets, TLC

Slots == {"A", "V", "B", "Q", "C", "R", "U1", "U2"}
ArrSlots == {"A", "V", "B", "Q", "C", "R"}

(* ---------------- numbers (opaque-aware, 32-bit safe) ---------------- *)
Opaque == <<0, 0>>
IsOpq(a) == a[2] = 0
Sm(a) == a[2] # 0 /\ a[1] <= 16384 /\ a[1] >= -16384 /\ a[2] <= 16384
NMul(a, b) == IF Sm(a) /\ Sm(b) THEN RMul(a, b) ELSE Opaque
NDiv(a, b) == IF Sm(a) /\ Sm(b) /\ b[1] # 0 THEN (IF b[1] < 0 THEN RDiv(RNeg(a), RNeg(b)) ELSE RDiv(a, b)) ELSE Opaque
NAdd(a, b) == IF Sm(a) /\ Sm(b) THEN RAdd(a, b) ELSE Opaque
NSub(a, b) == IF Sm(a) /\ Sm(b) THEN RSub(a, b) ELSE Opaque
NNeg(a) == IF IsOpq(a) THEN Opaque ELSE RNeg(a)
NIsZero(a) == ~IsOpq(a) /\ a[1] = 0
NLt(a, b) == IF Sm(a) /\ Sm(b) THEN (IF RLt(a, b) THEN ROne ELSE RZero) ELSE Opaque
NEq(a, b) == IF Sm(a) /\ Sm(b) THEN (IF a = b THEN ROne ELSE RZero) ELSE Opaque
MapN(f(_), s) == [i \in DOMAIN s |-> f(s[i])]

(* ---------------- units ---------------- *)
Dim0 == <<0, 0, 0, 0, 0>>
DimL == <<1, 0, 0, 0, 0>>
DimT == <<0, 1, 0, 0, 0>>
DimTh == <<0, 0, 1, 0, 0>>
DimE == <<2, -2, 0, 1, 0>>      \* energy
DimF == <<0, -1, 0, 0, 0>>      \* rate
DimTL == <<1, -2, 0, 1, -1>>    \* tesla * length
U(dim, sc, off, s) == [dim |-> dim, sc |-> sc, off |-> off, s |-> s]
NoU == U(Dim0, ROne, RZero, "-")
Dless == U(Dim0, ROne, RZero, "dimensionless")
\* the dyadic model registry (harness/impl_c18.py builds exactly this) + a few default symbols
UnitNames == {"la", "lb", "ta", "K", "oc", "tl", "na", "lr", "dC", "dF", "Rk", "km", "mi"}
\* scales of the default table that are not dyadic (5/9, 1609.344): the model does not compute with them - an opaque
\* token per distinct float (equal tokens = equal scales, so Unit.__eq__ is still decided)
Sc59 == <<901, 0>>
ScMi == <<902, 0>>
UnitOf(nm) ==
  CASE nm = "la" -> U(DimL, ROne, RZero, "la")
    [] nm = "lb" -> U(DimL, R(8), RZero, "lb")
    [] nm = "ta" -> U(DimT, ROne, RZero, "ta")
    [] nm = "K" -> U(DimTh, ROne, RZero, "K")
    [] nm = "oc" -> U(DimTh, ROne, R(-4), "oc")       \* offset scale: K = oc + 4
    [] nm = "tl" -> U(DimTL, ROne, RZero, "T*la")      \* not reducible in cgs
    [] nm = "na" -> Dless
    [] nm = "lr" -> U(Dim0, R(8), RZero, "lb/la")       \* dimensionless ratio whose spelling cancels to a coefficient
    \* real (non-dyadic) scales of the default table: conversions between them round in every floating point type, so
    \* the ORDER of the floating point operations of a conversion route is visible in the numbers
    [] nm = "dC" -> U(DimTh, ROne, <<-27315, 100>>, "degC")
    [] nm = "dF" -> U(DimTh, Sc59, <<-45967, 100>>, "degF")
    [] nm = "Rk" -> U(DimTh, Sc59, RZero, "R")
    [] nm = "km" -> U(DimL, R(1000), RZero, "km")
    [] nm = "mi" -> U(DimL, ScMi, RZero, "mile")
    [] nm = "J" -> U(DimE, ROne, RZero, "J")
    [] nm = "Hz" -> U(DimF, ROne, RZero, "Hz")
    [] OTHER -> NoU
KnownName(nm) == nm \in UnitNames \cup {"J", "Hz"}
DAdd(a, b) == [i \in 1..5 |-> a[i] + b[i]]
DSub(a, b) == [i \in 1..5 |-> a[i] - b[i]]
DScale(a, k) == [i \in 1..5 |-> a[i] * k]
IsDless(u) == u.dim = Dim0
IsTemp(u) == u.dim = DimTh
HasOff(u) == ~NIsZero(u.off)
\* Unit.__eq__: base value, offset, dimensions
UEq(a, b) == a.dim = b.dim /\ a.sc = b.sc /\ a.off = b.off
UCoreEq(a, b) == a.dim = b.dim /\ a.sc = b.sc /\ a.off = b.off
\* Unit.__mul__ / __truediv__ / __pow__ : [ok, u]
UMul(a, b) ==
  IF HasOff(a) \/ HasOff(b)
  THEN IF IsTemp(b) /\ IsDless(a) THEN [ok |-> TRUE, u |-> U(b.dim, NMul(a.sc, b.sc), b.off, "?")]
       ELSE IF IsTemp(a) /\ IsDless(b) THEN [ok |-> TRUE, u |-> U(a.dim, NMul(a.sc, b.sc), a.off, "?")]
       ELSE [ok |-> FALSE, u |-> NoU]
  ELSE [ok |-> TRUE, u |-> U(DAdd(a.dim, b.dim), NMul(a.sc, b.sc), RZero, "?")]
UDiv(a, b) ==
  IF HasOff(a) \/ HasOff(b)
  THEN IF IsTemp(a) /\ IsDless(b) THEN [ok |-> TRUE, u |-> U(a.dim, NDiv(a.sc, b.sc), a.off, "?")]
       ELSE [ok |-> FALSE, u |-> NoU]
  ELSE [ok |-> TRUE, u |-> U(DSub(a.dim, b.dim), NDiv(a.sc, b.sc), RZero, "?")]
USq(a) == U(DScale(a.dim, 2), NMul(a.sc, a.sc), RZero, "?")     \* Unit.__pow__ drops the offset
\* u ** e for a small integer e; otherwise the model does not predict the unit (s = "??" is a wildcard for T)
UPowN(a, e) == IF e[2] = 1 /\ e[1] \in 0..3 THEN U(DScale(a.dim, e[1]), IF Sm(a.sc) /\ a.sc[1] <= 32 /\ a.sc[2] <= 32 THEN RPow(a.sc, e[1]) ELSE Opaque, RZero, "?")
               ELSE U(a.dim, Opaque, RZero, "??")
NPow(a, b) == IF b = R(2) THEN NMul(a, a) ELSE IF b = ROne THEN a ELSE IF b = RZero /\ ~IsOpq(a) THEN ROne ELSE Opaque
\* base-unit equivalent in mks / cgs (get_base_equivalent): [ok, u]
CgsScale(dim) == \* cm^L * g^M : scale of the cgs base unit in mks
  LET l == dim[1] m == dim[4] IN NMul(RPow(<<1, 100>>, l), RPow(<<1, 1000>>, m))
UBase(u, sys) ==
  IF sys = "cgs" /\ u.dim[5] # 0 THEN [ok |-> FALSE, u |-> NoU]
  ELSE [ok |-> TRUE, u |-> U(u.dim, IF sys = "cgs" /\ u.dim[1] \in -2..2 /\ u.dim[4] \in -1..1 THEN CgsScale(u.dim)
                                     ELSE IF sys = "cgs" THEN Opaque ELSE ROne, RZero, "?")]

(* ---------------- objects and states ---------------- *)
Obj(k, dt, u, n) == [k |-> k, dt |-> dt, u |-> u, n |-> n]
Dead == Obj("-", "", NoU, <<>>)
Live(S, o) == S[o].k # "-"
IsArr(S, o) == S[o].k \in {"A", "Q"}
LenOf(S, o) == Len(S[o].n)
IsInt(dt) == dt \in {"i8", "i4", "i2", "i1", "u8", "u4", "u2", "u1"}
FloatOfInplace(dt) == CASE dt \in {"i8", "u8"} -> "f8" [] dt \in {"i4", "u4"} -> "f4" [] dt \in {"i2", "u2"} -> "f2" [] OTHER -> dt
FloatOfCopy(dt) == CASE dt \in {"i8", "u8"} -> "f8" [] dt \in {"i4", "u4"} -> "f4" [] dt \in {"i2", "i1", "u2", "u1"} -> "f2" [] OTHER -> dt
SizeOf(dt) == CASE dt \in {"f8", "i8", "u8"} -> 8 [] dt \in {"f4", "i4", "u4"} -> 4 [] dt \in {"f2", "i2", "u2"} -> 2 [] OTHER -> 1
\* a number held in floating point type dt: itself when it certainly fits the significand (float16: 11 bits, float32: 24
\* bits; the denominator a power of two), otherwise the model does not predict the rounding (opaque)
Pow2(d) == d \in {1, 2, 4, 8, 16, 32, 64, 128, 256, 512, 1024, 2048, 4096, 8192, 16384}
Fl(dt, a) == IF SizeOf(dt) = 8 \/ IsOpq(a) THEN a
             ELSE IF Sm(a) /\ Pow2(a[2]) /\ (SizeOf(dt) = 4 \/ (a[1] < 2048 /\ a[1] > -2048)) THEN a ELSE Opaque
\* NumPy "safe" casting (np.putmask)
SafeCast(from, to) ==
  IF IsInt(from) = IsInt(to) THEN SizeOf(from) <= SizeOf(to)
  ELSE IsInt(from) /\ (SizeOf(from) < SizeOf(to) \/ (from = "i8" /\ to = "f8"))
\* objects that share memory with o BY CONSTRUCTION (the model's object graph, not an observation)
Alias(o) == IF o \in {"A", "V"} THEN {"A", "V"} ELSE {o}
\* write numbers/unit/dtype of target t; the other object on the same buffer sees the new numbers
\* when it reads them with the same kind of dtype, garbage (opaque) otherwise
SameKind(d1, d2) == IsInt(d1) = IsInt(d2)
Put(S, t, n, u, dt) ==
  LET S1 == [S EXCEPT ![t].n = n, ![t].u = u, ![t].dt = dt] IN
  IF t = "V" /\ Live(S, "A")
  THEN [S1 EXCEPT !["A"].n = [i \in 1..4 |-> IF i \in {2, 3} THEN (IF SameKind(dt, S["A"].dt) THEN n[i - 1] ELSE Opaque) ELSE S["A"].n[i]]]
  ELSE IF t = "A" /\ Live(S, "V")
  THEN [S1 EXCEPT !["V"].n = [i \in 1..2 |-> IF SameKind(dt, S["V"].dt) THEN n[i + 1] ELSE Opaque]]
  ELSE S1
\* dtype only (retyping of an integer out= buffer before validation: numbers stay, bytes change)
Retype(S, t) == IF IsInt(S[t].dt) THEN Put(S, t, S[t].n, S[t].u, FloatOfInplace(S[t].dt)) ELSE S

(* ---------------- calls ---------------- *)
\* c = [op, f, x, y, o, u, e] (all strings, "" when unused)
Call(op, f, x, y, o, u, e) == [op |-> op, f |-> f, x |-> x, y |-> y, o |-> o, u |-> u, e |-> e]
\* generic copying families (frame-only: T does not transcribe their results, P1_NoMut is evaluated on every live object):
\*   gufunc  f = any binary ufunc, e = form: "call" np.f(x, y) | "op" the Python operator | "reduce" | "accumulate" | "outer"
\*   gunary  f = unary ufunc np.f(x)        garrfn f = array function of (x, y)        gmethod f = ndarray method / reduction of x
\*   After a generic copying call the harness OVERWRITES every element of the returned object(s): an input that changes
\*   then shared its memory with a result that is documented to be new.
\*   gorder  f = a function that sorts / partitions / selects by rank (sort, partition, median, percentile, quantile and
\*           their nan-aware forms, unique, argsort ...) of x: NumPy offers to use the input as scratch space there
GOps == {"gufunc", "gunary", "garrfn", "gmethod", "gorder"}
CopyOps == GOps \cup {"in_units", "to", "to_value", "in_base", "in_cgs", "in_mks", "to_equivalent", "binop", "ufunc", "unary", "copy",
            "concatenate", "dot", "clip", "aunit", "umul", "udiv", "upow", "ubase", "ucoeff", "ucopy", "usimplify", "units_simplify"}
InplaceOps == {"convert_to_units", "convert_to_base", "convert_to_cgs", "convert_to_mks", "convert_to_equivalent",
               "iop", "ufunc_out", "unary_out", "setitem0", "setitemall", "copyto", "put", "putmask", "fill_diagonal", "gin"}
\* gin = generic in-place family (frame-only: T does not transcribe it; P2/P3/P4 are evaluated on the observation):
\*   f = the call form (array functions and methods with out=, ufunc call/reduce/accumulate/outer with out=, item assignment,
\*       np.put/place/putmask/put_along_axis/fill_diagonal/copyto, ndarray.fill/sort/put, np.add.at)
\*   e = variant: "ok" | "ro" read-only target | NumPy-level refusals named by the form itself (out-of-bounds index, wrong
\*       number of outputs, casting="no", mask of the wrong size, ...); wrong-shaped and wrong-dtype targets arise from the
\*       choice of the target object.  The target is c.o when given (out= forms), otherwise c.x.
GPartial == {"uf_mul_reduce_k", "uf_div_reduce_k", "uf_add_reduce_k", "m_prod_k", "m_sum_k"}
IsInplace(c) == c.op \in InplaceOps
\* the target of an in-place call
Target(c) == IF c.op \in {"ufunc_out", "unary_out"} \/ (c.op = "gin" /\ c.o # "") THEN c.o ELSE c.x
\* the corresponding copying call ("" = the statement names none)
TwinOp(c) ==
  CASE c.op = "convert_to_units" -> "in_units" [] c.op = "convert_to_base" -> "in_base"
    [] c.op = "convert_to_cgs" -> "in_cgs" [] c.op = "convert_to_mks" -> "in_mks"
    [] c.op = "convert_to_equivalent" -> "to_equivalent" [] c.op = "iop" -> "binop" [] c.op = "ufunc_out" -> "ufunc"
    [] c.op = "unary_out" -> "unary" [] c.op \in {"setitem0", "setitemall"} -> "to_target_unit"
    [] c.op = "copyto" -> "copy_src"
    \* out= forms of the generic family: the same call without out= (only for the plain variant)
    \* (forms that write one slot of the target - a reduction with keepdims into out=o[:1] - have no copying call that
    \*  yields the numbers of the whole target: P2 / P3 only)
    [] c.op = "gin" /\ c.o # "" /\ c.e = "ok" /\ c.f \notin GPartial -> "gcopy" [] OTHER -> ""

\* operand y may be an object or the bare number 2
YLive(S, y) == y = "two" \/ (y \in ArrSlots /\ Live(S, y) /\ IsArr(S, y))
YNums(S, y) == IF y = "two" THEN <<R(2)>> ELSE S[y].n
YUnit(S, y) == IF y = "two" THEN Dless ELSE S[y].u
YBare(y) == y = "two"
YDt(S, y) == IF y = "two" THEN "i8" ELSE S[y].dt
YScalar(S, y) == y = "two" \/ S[y].k = "Q"

BcOk(l1, l2) == l1 = l2 \/ l1 = 1 \/ l2 = 1
BcLen(l1, l2) == IF l1 >= l2 THEN l1 ELSE l2
Bc(ns, L) == IF Len(ns) = L THEN ns ELSE [i \in 1..L |-> ns[1]]

\* outcome records
Raise(S) == [ex |-> TRUE, S |-> S, res |-> Dead]
Ok(S, res) == [ex |-> FALSE, S |-> S, res |-> res]

(* ---- conversion (array.py in_units / convert_to_units) ---- *)
\* ConvNumsIn(dt, ...): the route of in_units and convert_to_units alike - scale (integers: in double precision), hold
\* the product in the float type dt of the result, then subtract the offset of the target scale in that type
ConvNumsIn(dt, ns, uo, un) ==
  LET ratio == NDiv(uo.sc, un.sc)
      offset == IF NIsZero(uo.off) /\ NIsZero(un.off) THEN RZero ELSE NSub(NMul(ratio, uo.off), un.off) IN
  [i \in DOMAIN ns |-> LET sc == Fl(dt, NMul(ns[i], ratio)) IN IF offset = RZero THEN sc ELSE Fl(dt, NSub(sc, offset))]
ConvNums(ns, uo, un) == ConvNumsIn("f8", ns, uo, un)
\* target unit from a name: [ok, u]
Target_(nm) == IF KnownName(nm) THEN [ok |-> TRUE, u |-> UnitOf(nm)] ELSE [ok |-> FALSE, u |-> NoU]
ConvCopy(S, x, tu) == \* tu = [ok, u]
  IF ~tu.ok \/ tu.u.dim # S[x].u.dim THEN Raise(S)
  ELSE Ok(S, Obj(S[x].k, FloatOfCopy(S[x].dt), tu.u, ConvNumsIn(FloatOfCopy(S[x].dt), S[x].n, S[x].u, tu.u)))
ConvInplace(S, x, tu) ==
  IF ~tu.ok \/ tu.u.dim # S[x].u.dim THEN Raise(S)
  ELSE IF S[x].dt \in {"i1", "u1"} THEN Raise(S)   \* validate -> (retype) -> assign unit -> mutate data
  ELSE Ok(Put(S, x, ConvNumsIn(FloatOfInplace(S[x].dt), S[x].n, S[x].u, tu.u), tu.u, FloatOfInplace(S[x].dt)), Dead)

(* ---- equivalences (to_equivalent / convert_to_equivalent) ---- *)
EquivDims(e) == CASE e = "thermal" -> {DimTh, DimE} [] e = "spectral" -> {DimL, DimF, DimE, <<-1, 0, 0, 0, 0>>} [] OTHER -> {}
KnownEquiv(e) == e \in {"thermal", "spectral"}
\* [route: "same" | "equiv" | "raise"]
EquivRoute(ux, tu, e) ==
  IF ~tu.ok THEN "raise"
  ELSE IF tu.u.dim = ux.dim THEN "same"
  ELSE IF ~KnownEquiv(e) THEN "raise"
  ELSE IF ux.dim \notin EquivDims(e) \/ tu.u.dim \notin EquivDims(e) THEN "raise"
  ELSE IF HasOff(ux) THEN "raise"                  \* Unit.__mul__ refuses offset units before evaluation
  ELSE "equiv"
OpqSeq(L) == [i \in 1..L |-> Opaque]

(* ---- binary ufuncs (array.py __array_ufunc__, binary branch) ---- *)
\* result of the unit decision: [ex, late, n (numbers), u, bare]
\*   late = TRUE : the code raises AFTER the ufunc was evaluated into out= (was the case for the temperature guard of
\*   multiply/divide and for unary unit rules until 8abeb06; kept as a field, FALSE everywhere on the repaired tree)
BinRes(ex, late, n, u, bare) == [ex |-> ex, late |-> late, n |-> n, u |-> u, bare |-> bare, early |-> FALSE]
BinFail == BinRes(TRUE, FALSE, <<>>, NoU, FALSE)
Elem(f, a, b) == CASE f = "add" -> NAdd(a, b) [] f = "sub" -> NSub(a, b) [] f = "mul" -> NMul(a, b) [] f = "div" -> NDiv(a, b)
                   [] f = "lt" -> NLt(a, b) [] f = "eq" -> NEq(a, b) [] f = "pow" -> NPow(a, b) [] OTHER -> Opaque
Zip(f, xs, ys, L) == LET a == Bc(xs, L) b == Bc(ys, L) IN [i \in 1..L |-> Elem(f, a[i], b[i])]
Binary(f, xn, ux, xdt, yn, uy, ydt, ybare, yscalar) ==
  LET lx == Len(xn) ly == Len(yn) L == BcLen(lx, ly) shapeok == BcOk(lx, ly) IN
  IF f = "pow" THEN
     \* the exponent must be dimensionless; the unit exponent is the scalar exponent, the first element of an
     \* equal-shape array exponent (all equal if the base has dimensions), or 1.0 when only the base is 0-d
     IF ~ybare /\ ~IsDless(uy) THEN BinFail
     ELSE IF ~(yscalar \/ lx = 1 \/ lx = ly) THEN BinFail
     ELSE IF ~yscalar /\ lx # 1 /\ ~IsDless(ux) /\ (\E j \in DOMAIN yn : yn[j] # yn[1]) THEN BinFail
     ELSE LET e == IF yscalar \/ lx # 1 THEN yn[1] ELSE ROne IN
          \* Unit.__pow__ refuses a unit with an offset for every exponent other than 1 (8822ad9)
          IF HasOff(ux) /\ e # ROne THEN BinFail
          ELSE BinRes(FALSE, FALSE, Zip("pow", xn, yn, L), UPowN(ux, e), FALSE)
  ELSE IF f \in {"add", "sub", "lt", "eq"} THEN
     \* K/R guard (rule _preserve_units only)
     IF f = "add" /\ IsTemp(ux) /\ HasOff(uy) /\ ~HasOff(ux) /\ ux.s \in {"K", "R"} THEN BinFail
     ELSE IF UEq(ux, uy) THEN
        IF f = "sub" /\ IsTemp(ux) /\ HasOff(ux) THEN BinFail    \* _difference_units: no delta unit known for a custom offset scale
        ELSE IF ~shapeok THEN BinFail
        ELSE BinRes(FALSE, FALSE, Zip(f, xn, yn, L), IF f \in {"lt", "eq"} THEN NoU ELSE ux, f \in {"lt", "eq"})
     ELSE
        \* (bare 2 is not zero and only a BARE all-zero operand may adopt a unit (6892f1e): no bare-zero exception here) a comparison lets a dimensionless side adopt the other unit,
        \* then falls through to the conversion below
        LET adopt == f \in {"lt", "eq"} /\ ux.dim # uy.dim /\ (IsDless(ux) \/ IsDless(uy))
            ux2 == IF adopt /\ IsDless(ux) THEN uy ELSE ux
            uy2 == IF adopt /\ ~IsDless(ux) THEN ux ELSE uy IN
        IF ux2.dim # uy2.dim THEN
           IF f = "eq" THEN [BinRes(FALSE, FALSE, [i \in 1..ly |-> RZero], NoU, TRUE) EXCEPT !.early = TRUE]   \* early return: all False, shape of operand 1
           ELSE BinFail
        ELSE \* same dimension, different unit: operand 1 is rescaled; offsets are refused
           IF (HasOff(ux2) \/ HasOff(uy2)) /\ HasOff(uy2) THEN BinFail
           ELSE IF ydt = "i1" THEN BinFail                           \* np.dtype("f1")
           ELSE IF f = "sub" /\ IsTemp(ux2) THEN BinFail             \* _difference_units on distinct temperature units
           ELSE IF ~shapeok THEN BinFail
           ELSE LET y2 == [i \in DOMAIN yn |-> NMul(yn[i], NDiv(uy2.sc, ux2.sc))] IN
                BinRes(FALSE, FALSE, Zip(f, xn, y2, L), IF f \in {"lt", "eq"} THEN NoU ELSE ux2, f \in {"lt", "eq"})
  ELSE \* mul / div
     LET ur == IF f = "mul" THEN UMul(ux, uy) ELSE UDiv(ux, uy) IN
     IF ~ur.ok THEN BinFail
     ELSE IF ~shapeok THEN BinFail
     ELSE LET raw == Zip(f, xn, yn, L)
              post == IsDless(ur.u) /\ ur.u.sc # ROne /\ ~IsDless(ux) /\ ux.dim = uy.dim
              nums == IF post THEN [i \in 1..L |-> NMul(raw[i], ur.u.sc)] ELSE raw
              uu == IF post THEN Dless ELSE ur.u
              guard == (HasOff(ux) /\ IsTemp(ux)) \/ (HasOff(uy) /\ IsTemp(uy)) IN
          BinRes(guard, FALSE, nums, uu, FALSE)                   \* the guard is asked before the evaluation (8abeb06)

(* ---- unary ufuncs: unit rule first (8abeb06), then the evaluation ---- *)
Unary(f, xn, ux) ==
  IF f = "negative" THEN BinRes(FALSE, FALSE, MapN(NNeg, xn), ux, FALSE)
  ELSE \* square: _square_unit = u * u (Unit.__mul__ refuses offset units)
       LET bad == HasOff(ux) IN
       BinRes(bad, FALSE, [i \in DOMAIN xn |-> NMul(xn[i], xn[i])], IF bad THEN NoU ELSE USq(ux), FALSE)

ResObj(r) == IF r.bare THEN Dead ELSE Obj(IF Len(r.n) = 1 THEN "Q" ELSE "A", "f8", r.u, r.n)

\* a ufunc result written into out= object t (shape must admit the result)
IntoOut(S, t, r, yscalar) ==
  LET S1 == Retype(S, t) IN
  IF S[t].dt = "i1" THEN Raise(S)                               \* out.astype("f1")
  ELSE IF r.ex /\ ~r.late THEN Raise(S1)
  ELSE IF r.early /\ yscalar THEN Raise(S1)                     \* early return of ==: out[:] = ret[:] on a 0-d ret (IndexError)
  ELSE IF ~(Len(r.n) = LenOf(S, t) \/ (Len(r.n) = 1 /\ S[t].k = "A") \/ (Len(r.n) = 1 /\ LenOf(S, t) = 1)) THEN Raise(S1)
  ELSE LET S2 == Put(S1, t, Bc(r.n, LenOf(S, t)), IF r.ex THEN S1[t].u ELSE IF r.bare THEN Dless ELSE r.u, S1[t].dt) IN
       IF r.ex THEN Raise(S2)                                    \* (late refusal: evaluated into out=, then refused)
       ELSE Ok(S2, Dead)

\* operator forms go through ndarray.__pow__, whose fast path turns x ** 2 into np.square(x)
BinaryOf(S, c) ==
  IF c.op \in {"binop", "iop"} /\ c.f = "pow" /\ c.y = "two" THEN Unary("square", S[c.x].n, S[c.x].u)
  ELSE Binary(c.f, S[c.x].n, S[c.x].u, S[c.x].dt, YNums(S, c.y), YUnit(S, c.y), YDt(S, c.y), YBare(c.y), YScalar(S, c.y))

(* ---- the transition ---- *)
Apply(S, c) ==
  LET x == c.x y == c.y IN
  CASE c.op \in {"in_units", "to", "to_value"} ->
         LET r == ConvCopy(S, x, Target_(c.u)) IN
         IF r.ex \/ c.op # "to_value" THEN r ELSE Ok(S, Dead)
    [] c.op \in {"in_base", "in_mks", "in_cgs"} ->
         LET b == UBase(S[x].u, IF c.op = "in_cgs" THEN "cgs" ELSE "mks") IN
         IF ~b.ok THEN Raise(S) ELSE Ok(S, Obj(S[x].k, FloatOfCopy(S[x].dt), b.u, ConvNumsIn(FloatOfCopy(S[x].dt), S[x].n, S[x].u, b.u)))   \* via in_units (36aece9)
    [] c.op = "convert_to_units" -> ConvInplace(S, x, Target_(c.u))
    [] c.op \in {"convert_to_base", "convert_to_mks", "convert_to_cgs"} ->
         LET b == UBase(S[x].u, IF c.op = "convert_to_cgs" THEN "cgs" ELSE "mks") IN
         IF ~b.ok THEN Raise(S) ELSE ConvInplace(S, x, b)
    [] c.op = "to_equivalent" ->
         LET tu == Target_(c.u) rt == EquivRoute(S[x].u, tu, c.e) IN
         IF rt = "raise" THEN Raise(S) ELSE IF rt = "same" THEN ConvCopy(S, x, tu)
         ELSE Ok(S, Obj(S[x].k, "f8", tu.u, OpqSeq(LenOf(S, x))))
    [] c.op = "convert_to_equivalent" ->
         LET tu == Target_(c.u) rt == EquivRoute(S[x].u, tu, c.e) IN
         IF rt = "raise" THEN Raise(S) ELSE IF rt = "same" THEN ConvInplace(S, x, tu)
         ELSE IF S[x].dt = "i1" THEN Raise(S)
         ELSE Ok(Put(S, x, OpqSeq(LenOf(S, x)), tu.u, FloatOfInplace(S[x].dt)), Dead)
    [] c.op \in {"binop", "ufunc"} ->
         LET r == BinaryOf(S, c) IN
         IF r.ex THEN Raise(S) ELSE Ok(S, ResObj(r))
    [] c.op = "unary" ->
         LET r == Unary(c.f, S[x].n, S[x].u) IN IF r.ex THEN Raise(S) ELSE Ok(S, ResObj(r))
    [] c.op = "iop" -> IntoOut(S, x, BinaryOf(S, c), YScalar(S, y))
    [] c.op = "ufunc_out" -> IntoOut(S, c.o, BinaryOf(S, c), YScalar(S, y))
    [] c.op = "unary_out" -> IntoOut(S, c.o, Unary(c.f, S[x].n, S[x].u), FALSE)
    [] c.op = "copy" -> Ok(S, S[x])
    [] c.op \in {"setitem0", "setitemall"} ->
         \* __setitem__: a value with other units is converted (may refuse), then ndarray.__setitem__
         LET uy == YUnit(S, y)
             conv == ~YBare(y) /\ ~UEq(uy, S[x].u) /\ ~(IsDless(uy) /\ uy.sc = ROne)
             vals == IF conv THEN ConvNums(YNums(S, y), uy, S[x].u) ELSE YNums(S, y) IN
         IF conv /\ uy.dim # S[x].u.dim THEN Raise(S)
         ELSE IF c.op = "setitem0" THEN
              IF Len(vals) # 1 THEN Raise(S)
              ELSE Ok(Put(S, x, [S[x].n EXCEPT ![1] = IF IsInt(S[x].dt) THEN Opaque ELSE vals[1]], S[x].u, S[x].dt), Dead)
         ELSE IF ~(Len(vals) = 1 \/ Len(vals) = LenOf(S, x)) THEN Raise(S)
              ELSE Ok(Put(S, x, IF IsInt(S[x].dt) THEN OpqSeq(LenOf(S, x)) ELSE Bc(vals, LenOf(S, x)), S[x].u, S[x].dt), Dead)
    [] c.op = "copyto" ->
         \* np.copyto(dst, src): raw copy (same_kind casting), then dst takes src's unit
         IF ~(LenOf(S, y) = 1 \/ LenOf(S, y) = LenOf(S, x)) THEN Raise(S)
         ELSE IF IsInt(S[x].dt) /\ ~IsInt(S[y].dt) THEN Raise(S)
         ELSE Ok(Put(S, x, Bc(S[y].n, LenOf(S, x)), S[y].u, S[x].dt), Dead)
    [] c.op \in {"put", "putmask"} ->
         \* units must be EQUAL (bare numbers adopt the unit); first element is written
         IF ~YBare(y) /\ ~UEq(YUnit(S, y), S[x].u) THEN Raise(S)
         ELSE IF c.op = "putmask" /\ ~SafeCast(YDt(S, y), S[x].dt) THEN Raise(S)
         ELSE Ok(Put(S, x, [S[x].n EXCEPT ![1] = IF IsInt(S[x].dt) /\ ~IsInt(YDt(S, y)) THEN Opaque ELSE YNums(S, y)[1]], S[x].u, S[x].dt), Dead)
    [] c.op = "fill_diagonal" ->
         \* on x.reshape(2,2) (a view): elements 1 and 4
         IF ~YBare(y) /\ ~UEq(YUnit(S, y), S[x].u) THEN Raise(S)
         ELSE LET yn == YNums(S, y) IN  \* a.flat[::3] = val : the values are cycled
              Ok(Put(S, x, [i \in 1..4 |-> IF i \in {1, 4} THEN (IF IsInt(S[x].dt) /\ ~IsInt(YDt(S, y)) THEN Opaque
                                                                  ELSE IF i = 1 \/ Len(yn) = 1 THEN yn[1] ELSE yn[2]) ELSE S[x].n[i]], S[x].u, S[x].dt), Dead)
    [] c.op = "concatenate" ->
         IF ~UEq(S[x].u, S[y].u) THEN Raise(S) ELSE Ok(S, Obj("A", "f8", S[x].u, S[x].n \o S[y].n))
    [] c.op = "dot" ->
         LET ur == UMul(S[x].u, S[y].u) IN
         IF ~ur.ok \/ LenOf(S, x) # LenOf(S, y) THEN Raise(S)
         ELSE Ok(S, Obj("Q", "f8", ur.u, <<Opaque>>))
    [] c.op = "clip" ->
         \* np.clip(x, y, y): all units equal (bare numbers adopt x's)
         IF ~YBare(y) /\ ~UEq(YUnit(S, y), S[x].u) THEN Raise(S)
         ELSE IF ~BcOk(LenOf(S, x), Len(YNums(S, y))) THEN Raise(S)
         ELSE LET L == BcLen(LenOf(S, x), Len(YNums(S, y))) IN
              Ok(S, Obj(IF L = 1 /\ S[x].k = "Q" /\ YScalar(S, y) THEN "Q" ELSE "A", S[x].dt, S[x].u, Bc(YNums(S, y), L)))
    \* arithmetic of an array / quantity with a Unit OBJECT (f: "mul" x * U, "rmul" U * x, "div" x / U, "rdiv" U / x):
    \* Unit.__mul__ / __rtruediv__ copy the data and attach the product unit; U / x is quantity(1, U) / x through the ufunc
    [] c.op = "aunit" ->
         LET uu == S[y].u IN
         IF c.f \in {"mul", "rmul"} THEN
            LET ur == UMul(S[x].u, uu) IN
            IF ~ur.ok THEN Raise(S) ELSE Ok(S, Obj(S[x].k, S[x].dt, ur.u, S[x].n))
         ELSE IF c.f = "div" THEN
            \* x * U**-1 : Unit.__pow__ refuses an offset unit
            IF HasOff(uu) THEN Raise(S)
            ELSE LET ur == UMul(S[x].u, U(DScale(uu.dim, -1), NDiv(ROne, uu.sc), RZero, "?")) IN
                 IF ~ur.ok THEN Raise(S) ELSE Ok(S, Obj(S[x].k, S[x].dt, ur.u, S[x].n))
         ELSE LET r == Binary("div", <<ROne>>, uu, "f8", S[x].n, S[x].u, S[x].dt, FALSE, S[x].k = "Q") IN
              IF r.ex THEN Raise(S) ELSE Ok(S, ResObj(r))
    [] c.op \in {"umul", "udiv"} ->
         LET r == IF c.op = "umul" THEN UMul(S[x].u, S[y].u) ELSE UDiv(S[x].u, S[y].u) IN
         IF ~r.ok THEN Raise(S) ELSE Ok(S, Obj("U", "", r.u, <<>>))
    [] c.op = "upow" -> IF y = "two" THEN Ok(S, Obj("U", "", USq(S[x].u), <<>>)) ELSE Raise(S)
    [] c.op = "ubase" -> Ok(S, Obj("U", "", UBase(S[x].u, "mks").u, <<>>))
    [] c.op = "ucoeff" -> Ok(S, Obj("U", "", U(S[x].u.dim, Opaque, S[x].u.off, "?"), <<>>))
    [] c.op = "ucopy" -> Ok(S, Obj("U", "", S[x].u, <<>>))
    \* simplify() returns a new unit of the same value (8c7dbb1); the spelling is not modelled by T
    [] c.op = "usimplify" -> Ok(S, Obj("U", "", S[x].u, <<>>))
    [] c.op = "units_simplify" -> Ok(S, Obj("U", "", S[x].u, <<>>))
    \* generic copying families: whatever they return or refuse, the state is what it was (the result is not kept)
    [] c.op \in GOps -> Ok(S, Dead)
    \* generic in-place family: outcome not transcribed (offered in single-step instances only)
    [] c.op = "gin" -> Ok(S, Dead)
    [] OTHER -> Raise(S)

\* a call is offered when its operands exist
Enabled(S, c) ==
  /\ Live(S, c.x)
  /\ (c.op \in {"umul", "udiv", "upow", "ubase", "ucoeff", "ucopy", "usimplify"}) = (S[c.x].k = "U")
  /\ c.y # "" => (IF c.op \in {"umul", "udiv", "aunit"} THEN c.y \in {"U1", "U2"} /\ Live(S, c.y) ELSE YLive(S, c.y))
  /\ c.o # "" => (Live(S, c.o) /\ S[c.o].k = "A")
  /\ c.op = "fill_diagonal" => (LenOf(S, c.x) = 4 /\ S[c.x].k = "A")
  /\ c.op \in {"copyto", "concatenate", "dot"} => c.y # "two"
  /\ c.op \in {"setitem0", "setitemall", "put", "putmask", "copyto"} => S[c.x].k = "A"
  /\ c.op \in {"concatenate", "dot"} => (S[c.x].k = "A" /\ S[c.y].k = "A")
  /\ c.op \in GOps => IsArr(S, c.x)
  /\ c.op = "gin" => (IsArr(S, c.x) /\ (c.o = "" => S[c.x].k = "A"))
  \* (a one-slot view of an INTEGER buffer is retyped to float like every integer out= object, after which the integer
  \*  base reads garbage in that slot - the exemption for objects sharing memory with a retyped target; not offered)
  /\ (c.op = "gin" /\ c.f \in GPartial) => ~IsInt(S[c.o].dt)

(* ======================= property side (P) ======================= *)
(* B, Af : projections of every slot before / after the call (R = the object that was R before the call);  *)
(* ex : the call raised;  tw = [ex, n, npw] : the corresponding copying call on copies of the operands; npw = the   *)
(* same spelling on BARE ndarray copies raised after NumPy itself had written into the target (generic family only) *)
Same(B, Af, o) == B[o] = Af[o]
SameNumbersUnit(B, Af, o) == B[o].n = Af[o].n /\ B[o].u = Af[o].u /\ B[o].k = Af[o].k
LiveSet(B) == {o \in Slots : B[o].k # "-"}

\* C18 clause 1: a call documented to return a new object leaves numbers, unit and dtype of every input (every live object) as they were
P1_NoMut(B, Af, c) == ~IsInplace(c) => \A o \in LiveSet(B) : Same(B, Af, o)
P1_Bad(B, Af, c) == IF IsInplace(c) THEN {} ELSE {o \in LiveSet(B) : ~Same(B, Af, o)}

\* C18 clause 2: an in-place call that raises leaves numbers and unit of its target unchanged (dtype/bytes are free:
\* integer out= buffers are retyped before validation); objects that do not share its memory are untouched; an object
\* sharing its memory keeps unit and dtype, and its numbers unless the target was retyped
\* (where plain NumPy, called the same way on bare arrays, writes part of the data before it refuses - e.g. concatenate into
\*  an integer out= copies the integer chunks and then rejects the float chunk - the numbers are NumPy's doing; the unit
\*  still must not change)
P2_Target(B, Af, c, ex, tw) ==
  (IsInplace(c) /\ ex) =>
     IF c.op = "gin" /\ tw.npw THEN Af[Target(c)].u = B[Target(c)].u /\ Af[Target(c)].k = B[Target(c)].k
     ELSE SameNumbersUnit(B, Af, Target(c))
P2_Others(B, Af, c, ex, tw) ==
  (IsInplace(c) /\ ex) =>
     LET t == Target(c) IN
     /\ \A o \in LiveSet(B) \ Alias(t) : Same(B, Af, o)
     /\ \A o \in (Alias(t) \ {t}) \cap LiveSet(B) :
          Af[o].u = B[o].u /\ Af[o].dt = B[o].dt /\ ((Af[t].dt = B[t].dt /\ ~(c.op = "gin" /\ tw.npw)) => Af[o].n = B[o].n)

\* C18 clause 3a: an in-place call that succeeds changes only its target
OutsideOverlap(t, o) == IF t = "V" /\ o = "A" THEN {1, 4} ELSE {}
P3_OnlyTarget(B, Af, c, ex) ==
  (IsInplace(c) /\ ~ex) =>
     LET t == Target(c) IN
     /\ \A o \in LiveSet(B) \ Alias(t) : Same(B, Af, o)
     /\ \A o \in (Alias(t) \ {t}) \cap LiveSet(B) :
          /\ Af[o].u = B[o].u /\ Af[o].dt = B[o].dt /\ Len(Af[o].n) = Len(B[o].n)
          /\ \A i \in OutsideOverlap(t, o) : Af[o].n[i] = B[o].n[i]

\* C18 clause 3b: ... and yields exactly the numbers of the corresponding copying call
TwinNums(c, an, bn, tn) ==
  CASE c.op = "setitem0" -> Len(tn) = 1 /\ an[1] = tn[1] /\ \A i \in 2..Len(an) : an[i] = bn[i]
    [] c.op \in {"setitemall", "copyto", "ufunc_out", "unary_out", "gin"} -> (Len(tn) = Len(an) \/ Len(tn) = 1) /\ an = Bc(tn, Len(an))
    [] OTHER -> an = tn
\* (item assignment into an integer array truncates like NumPy does: not a C18 matter)
\* (integers too large to be projected exactly - the garbage an integer base array reads after its view was retyped -
\*  overflow in the copying call but not in the retyped in-place one: integer overflow is not a C18 matter either)
Sane(B, o) == o \notin Slots \/ ~(IsInt(B[o].dt) /\ \E j \in DOMAIN B[o].n : IsOpq(B[o].n[j]))
\* (an in-place equivalence conversion computes in the target's own item size, the copying one in float64: on 4-byte
\*  and smaller data the two differ by rounding - a precision matter (C17), not a frame condition)
TwinApplies(B, c) == /\ TwinOp(c) # "" /\ ~(c.op \in {"setitem0", "setitemall", "copyto"} /\ IsInt(B[Target(c)].dt))
                     /\ ~(c.op = "convert_to_equivalent" /\ SizeOf(B[Target(c)].dt) # 8)
                     \* (generic out= forms: NumPy does not promise copy semantics when out= overlaps an operand)
                     /\ ~(c.op = "gin" /\ (c.x \in Alias(Target(c)) \/ c.y \in Alias(Target(c))))
                     /\ Sane(B, c.x) /\ Sane(B, c.y) /\ Sane(B, Target(c))
\* (an in-place call computes in the target's own item size, the copying call possibly wider: where a result is not a
\*  small exact number - overflow to inf in float16/float32, wrap-around of int16 - the two differ by range/precision,
\*  which is C17's subject; on 8-byte data the comparison is always made)
\* (a plain unit conversion is different: convert_to_units/_base/_cgs/_mks and in_units/in_base/in_cgs/in_mks are the
\*  same arithmetic on the same item size - documented as "the in-place form of" each other - so their numbers are
\*  compared bit for bit in EVERY dtype: a route that rounds in another order or another type shows up here)
PlainConv(c) == c.op \in {"convert_to_units", "convert_to_base", "convert_to_cgs", "convert_to_mks"}
Narrow(B, Af, c, tw) == ~PlainConv(c) /\ SizeOf(B[Target(c)].dt) # 8 /\ ((\E j \in DOMAIN Af[Target(c)].n : IsOpq(Af[Target(c)].n[j])) \/ (\E j \in DOMAIN tw.n : IsOpq(tw.n[j])))
P4_Twin(B, Af, c, ex, tw) ==
  (IsInplace(c) /\ ~ex /\ TwinApplies(B, c) /\ ~Narrow(B, Af, c, tw)) => (~tw.ex /\ TwinNums(c, Af[Target(c)].n, B[Target(c)].n, tw.n))

\* where does an offset unit sit in this call? (part of the finding key: tells a refusal caused by an operand from one
\* caused by the out= object's own old unit)
OffIn(B, c) ==
  LET opnd == {o \in {c.x, c.y} \cap Slots : HasOff(B[o].u)} IN
  IF opnd # {} THEN "operand" ELSE IF Target(c) \in Slots /\ HasOff(B[Target(c)].u) THEN "target-only" ELSE "none"

FailedClauses(B, Af, c, ex, tw) ==
  (IF P1_NoMut(B, Af, c) THEN {} ELSE {"P1_NoMut"}) \cup (IF P2_Target(B, Af, c, ex, tw) THEN {} ELSE {"P2_FailIntact"})
  \cup (IF P2_Others(B, Af, c, ex, tw) THEN {} ELSE {"P2_FailOthers"}) \cup (IF P3_OnlyTarget(B, Af, c, ex) THEN {} ELSE {"P3_OnlyTarget"})
  \cup (IF P4_Twin(B, Af, c, ex, tw) THEN {} ELSE {"P4_Twin"})

(* ---- model-level: what the transcription itself says (the model reproduces today's code) ---- *)
ModelTwin(S, c) ==
  LET t == Target(c) IN
  CASE TwinOp(c) \in {"in_units", "in_base", "in_cgs", "in_mks", "to_equivalent", "unary"} ->
         LET r == Apply(S, [c EXCEPT !.op = TwinOp(c), !.o = ""]) IN [ex |-> r.ex, n |-> r.res.n, npw |-> FALSE]
    [] TwinOp(c) \in {"binop", "ufunc"} ->
         LET r == BinaryOf(S, c) IN [ex |-> r.ex, n |-> r.n, npw |-> FALSE]
    [] TwinOp(c) = "to_target_unit" ->
         LET uy == YUnit(S, c.y) IN
         IF YBare(c.y) \/ (IsDless(uy) /\ uy.sc = ROne) THEN [ex |-> FALSE, n |-> YNums(S, c.y), npw |-> FALSE]
         ELSE IF uy.dim # S[t].u.dim THEN [ex |-> TRUE, n |-> <<>>, npw |-> FALSE] ELSE [ex |-> FALSE, n |-> ConvNums(YNums(S, c.y), uy, S[t].u), npw |-> FALSE]
    [] TwinOp(c) = "copy_src" -> [ex |-> FALSE, n |-> S[c.y].n, npw |-> FALSE]
    [] TwinOp(c) = "gcopy" -> [ex |-> FALSE, n |-> S[t].n, npw |-> FALSE]      \* (not transcribed: consistent with Apply leaving the state as it is)
    [] OTHER -> [ex |-> FALSE, n |-> <<>>, npw |-> FALSE]
=============================================================================
