"""Shared machinery for the unyt TLA+ model-based checks.

One `Check` object per invocation of `./check <id>`:

    extract  -> JSON model data regenerated from the working tree of unyt
    tlc      -> run a TLC instance (model checking / case export / trace validation)
    pmap     -> replay cases in the real library in deterministic worker processes
    verdict  -> classify observed steps (VIOLATION / KNOWN-FINDING / DRIFT)
    finish   -> write /verif/evidence/<id>.json and compute the exit code

Exit codes: 0 held (possibly with KNOWN-FINDING / DRIFT lines), 1 violation,
2 machinery failure (never reported as a violation).
"""

from __future__ import annotations

import concurrent.futures as cf
import hashlib
import importlib
import json
import os
import re
import shutil
import subprocess
import sys
import tempfile
import time
import traceback
from fractions import Fraction

VERIF = os.path.dirname(os.path.dirname(os.path.abspath(__file__)))
REPO = os.environ.get("UNYT_VERIF_REPO", "/repo")
SPEC_DIR = os.path.join(VERIF, "spec")
EVIDENCE_DIR = os.environ.get("VERIF_EVIDENCE_DIR") or os.path.join(VERIF, "evidence")  # override: seeded-change experiments
REPLAY_DIR = os.path.join(EVIDENCE_DIR, "replay")
NCPU = int(os.environ.get("VERIF_NCPU", "16"))
TLC_JAR_CP = "/opt/veriftools/tla/tla2tools.jar:/opt/veriftools/tla/CommunityModules-deps.jar"


class MachineryFailure(Exception):
    pass


# --------------------------------------------------------------------------
# rationals <-> JSON ([n, d] pairs of 32-bit safe integers)
# --------------------------------------------------------------------------

INT_LIMIT = 2**31 - 1


def rat(x):
    """Fraction -> [n, d] (raises if not 32-bit safe)."""
    f = Fraction(x)
    if abs(f.numerator) > INT_LIMIT or f.denominator > INT_LIMIT:
        raise OverflowError(f"rational {f} not 32-bit safe")
    return [f.numerator, f.denominator]


def unrat(p):
    return Fraction(int(p[0]), int(p[1]))


def float_to_rat(x, candidates=(), rtol=0.0, atol=0.0):
    """Encode a float observed in the implementation as an exact rational for TLC.

    If the float is exactly a 32-bit safe rational it is returned as such
    (dyadic model registry: bit-for-bit comparison).  Otherwise, if it is within
    tolerance of one of `candidates` (Fractions the specification computed), the
    candidate is returned ("snap").  Otherwise the closest small rational is
    returned, or None if there is none (inf/nan/huge)."""
    import math

    try:
        x = float(x)
    except (TypeError, ValueError):
        return None
    if math.isnan(x) or math.isinf(x):
        return None
    f = Fraction(x)
    if abs(f.numerator) <= INT_LIMIT and f.denominator <= INT_LIMIT:
        if not candidates or f in candidates or (rtol == 0 and atol == 0):
            return [f.numerator, f.denominator]
    for c in candidates:
        c = Fraction(c)
        if abs(f - c) <= atol + rtol * abs(c):
            return rat(c)
    if abs(f.numerator) <= INT_LIMIT and f.denominator <= INT_LIMIT:
        return [f.numerator, f.denominator]
    g = f.limit_denominator(10**6)
    if abs(g.numerator) <= INT_LIMIT and abs(f - g) <= 1e-9 * max(1, abs(f)):
        # not exact: perturb so that it can never equal a candidate by accident
        return [g.numerator, g.denominator] if g not in [Fraction(c) for c in candidates] else None
    return None


# --------------------------------------------------------------------------
# known findings
# --------------------------------------------------------------------------


def load_findings(pid):
    """Entries of /verif/known_findings.jsonl for property `pid`.

    Each line: {"property": "Cxx", "status": "known"|"fixed", "match": {...},
    "what": "..."}.  Only status=known suppresses; matching is on the specific
    case fields in "match" (all must be equal; a list value means 'one of')."""
    out = []
    import glob

    paths = [os.path.join(VERIF, "known_findings.jsonl")] + sorted(glob.glob(os.path.join(VERIF, "known_findings.d", "*.jsonl")))
    for path in paths:
        if not os.path.exists(path):
            continue
        for line in open(path, encoding="utf-8"):
            line = line.strip()
            if not line or line.startswith("#"):
                continue
            e = json.loads(line)
            if e.get("property") == pid:
                out.append(e)
    return out


def _match_value(pat, val):
    if isinstance(pat, dict) and "any_of" in pat:
        return any(_match_value(p, val) for p in pat["any_of"])
    if isinstance(pat, dict) and "prefix" in pat:
        return isinstance(val, str) and val.startswith(pat["prefix"])
    if isinstance(pat, dict) and "contains" in pat:
        return isinstance(val, (str, list)) and pat["contains"] in val
    return pat == val


def finding_for(findings, key):
    for e in findings:
        if e.get("status", "known") != "known":
            continue
        m = e.get("match", {})
        if all(k in key and _match_value(v, key[k]) for k, v in m.items()):
            return e
    return None


# --------------------------------------------------------------------------
# TLC
# --------------------------------------------------------------------------


class TLCResult:
    def __init__(self):
        self.generated = 0
        self.distinct = 0
        self.depth = 0
        self.ok = False
        self.error = None
        self.violated = None
        self.records = []  # parsed JSON records printed by the spec
        self.coverage = {}  # action name -> (distinct, generated)
        self.wall = 0.0
        self.raw_tail = ""
        self.cmd = ""

    def by_tag(self, tag):
        return [r for r in self.records if r.get("tag") == tag]


_COV = re.compile(r"^<(\w+) line \d+, col \d+ to line \d+, col \d+ of module (\w+)>: (\d+):(\d+)")
_STATES = re.compile(r"^(\d+) states generated, (\d+) distinct states found")
_DEPTH = re.compile(r"^The depth of the complete state graph search is (\d+)")
_SIMSTATES = re.compile(r"^The number of states generated: (\d+)")
_INV = re.compile(r"^Error: Invariant (\w+) is violated")
_PROP = re.compile(r"^Error: (Action|Temporal) propert(y|ies) (\w+)?")


def parse_tlc_output(text, res):
    errors = []
    for line in text.splitlines():
        if line.startswith('"{'):
            try:
                res.records.append(json.loads(json.loads(line)))
            except Exception:  # interleaved or truncated line
                errors.append("unparsable export line: " + line[:120])
            continue
        m = _STATES.match(line)
        if m:
            res.generated, res.distinct = int(m.group(1)), int(m.group(2))
            continue
        m = _DEPTH.match(line)
        if m:
            res.depth = int(m.group(1))
            continue
        m = _SIMSTATES.match(line)
        if m:
            res.generated = int(m.group(1))
            res.distinct = max(res.distinct, 1)
            continue
        m = _COV.match(line)
        if m:
            res.coverage[m.group(1)] = (int(m.group(3)), int(m.group(4)))
            continue
        m = _INV.match(line)
        if m:
            res.violated = m.group(1)
            continue
        if line.startswith("Error:") and res.error is None and not _INV.match(line):
            res.error = line
        if "Model checking completed. No error has been found." in line:
            res.ok = True
    if errors:
        res.error = (res.error or "") + "; ".join(errors[:3])
    return res


# ---- machine-wide bound on concurrently running TLC JVMs ----
# Several checks (or several developers' runs) on one machine would otherwise start dozens of JVMs at once and
# exhaust memory.  A slot is an flock'ed file; waiting for a slot happens outside the TLC timeout.
_TLC_SLOTS = int(os.environ.get("VERIF_TLC_SLOTS", "20"))
_TLC_SLOT_DIR = os.path.join(tempfile.gettempdir(), "unytverif_tlc_slots")


def _tlc_slot_acquire():
    if _TLC_SLOTS <= 0:
        return None
    import fcntl

    os.makedirs(_TLC_SLOT_DIR, exist_ok=True)
    while True:
        for i in range(_TLC_SLOTS):
            f = open(os.path.join(_TLC_SLOT_DIR, f"slot{i}"), "w")
            try:
                fcntl.flock(f, fcntl.LOCK_EX | fcntl.LOCK_NB)
                return f
            except OSError:
                f.close()
        time.sleep(0.5)


def _tlc_slot_release(f):
    if f is not None:
        f.close()



class Check:
    def __init__(self, pid, tier="quick", seed=0, replay=None):
        self.pid = pid
        self.tier = tier
        self.seed = int(seed)
        self.replay = replay
        self.t0 = time.time()
        self.scratch = tempfile.mkdtemp(prefix=f"unytverif_{pid}_")
        self.spec = os.path.join(self.scratch, "spec")
        shutil.copytree(SPEC_DIR, self.spec)
        self.findings = load_findings(pid)
        self.tlc_runs = []
        self.violations = []
        self.known_hits = {}
        self.drift = {}
        self.notes = []
        self.cov = {
            "states": 0,
            "transitions": 0,
            "traces_validated_against_impl": 0,
            "samples": [],
            "exhaustive": False,
            "tlc_runs": [],
            "drift": {},
            "known_findings_hit": [],
            "uncovered": [],
        }
        self.assumptions = []
        self.level = "model_checking"
        self._data = None
        self._replay_n = 0

    # ---- tiers ----
    def q(self, quick, thorough):
        return quick if self.tier == "quick" else thorough

    # ---- files ----
    def path(self, name):
        return os.path.join(self.scratch, name)

    def write_json(self, name, obj):
        p = self.path(name)
        with open(p, "w") as f:
            json.dump(obj, f, ensure_ascii=True)
        return p

    # ---- model data from the working tree ----
    def extract(self):
        if self._data is None:
            out = self.path("extract.json")
            r = subprocess.run(
                [sys.executable, os.path.join(VERIF, "harness", "extract.py"), out],
                env=self.env(),
                capture_output=True,
                text=True,
            )
            if r.returncode != 0:
                raise MachineryFailure("extract failed: " + r.stderr[-2000:])
            self._data = json.load(open(out))
        return self._data

    def env(self, extra=None):
        e = dict(os.environ)
        e["PYTHONPATH"] = REPO + os.pathsep + os.path.join(VERIF, "harness")
        e["PYTHONHASHSEED"] = "0"
        e["PYTHONWARNINGS"] = "default"
        e.pop("UNYT_VERIF_TRACE", None)
        if extra:
            e.update({k: str(v) for k, v in extra.items()})
        return e

    # ---- TLC ----
    def tlc(
        self,
        module,
        cfg=None,
        env=None,
        workers=None,
        timeout=900,
        simulate=None,
        depth=None,
        expect_violation=False,
        coverage=True,
        label=None,
        required_actions=(),
        dfs=False,
    ):
        """Run TLC on spec/<module>.tla with spec/<cfg or module>.cfg.

        Returns a TLCResult; raises MachineryFailure on tool errors.  An
        invariant violation is a *result* (res.violated), not a failure, when
        expect_violation is True."""
        cfg = cfg or module
        import uuid

        meta = self.path("meta_" + uuid.uuid4().hex[:12])  # unique per call: ck.tlc may be called from several threads
        cmd = [
            "java",
            "-XX:+UseParallelGC",
            "-Xmx" + os.environ.get("VERIF_XMX", "8g"),
        ]
        if dfs:
            cmd.append("-Dtlc2.tool.queue.IStateQueue=StateDeque")
        cmd += [
            "-cp",
            TLC_JAR_CP,
            "tlc2.TLC",
            "-workers",
            str(workers or NCPU),
            "-metadir",
            meta,
            "-noGenerateSpecTE",
            "-seed",
            str(self.seed),
        ]
        if coverage and not simulate:
            cmd += ["-coverage", "1"]
        if simulate:
            cmd += ["-simulate", f"num={simulate}"]
        if depth:
            cmd += ["-depth", str(depth)]
        cmd += ["-config", cfg + ".cfg", module + ".tla"]
        slot = _tlc_slot_acquire()
        t = time.time()
        try:
            p = subprocess.run(
                cmd,
                cwd=self.spec,
                env=self.env(env),
                capture_output=True,
                text=True,
                timeout=timeout,
            )
        except subprocess.TimeoutExpired:
            subprocess.run(["pkill", "-f", meta], check=False)
            raise MachineryFailure(f"TLC timeout after {timeout}s on {module}/{cfg}")
        finally:
            _tlc_slot_release(slot)
        res = TLCResult()
        res.wall = time.time() - t
        res.cmd = " ".join(cmd[cmd.index("tlc2.TLC") :])
        out = p.stdout
        parse_tlc_output(out, res)
        res.raw_tail = out[-3000:]
        shutil.rmtree(meta, ignore_errors=True)
        if simulate and res.error is None and res.violated is None and p.returncode == 0:
            res.ok = True
        bad = (res.error is not None) or (not res.ok and res.violated is None)
        if res.violated and not expect_violation:
            bad = True
        if bad:
            raise MachineryFailure(
                f"TLC failed on {module}/{cfg}: {res.error or res.violated or 'no completion'}\n"
                + res.raw_tail[-1500:]
            )
        for a in required_actions:
            if res.coverage.get(a, (0, 0))[1] == 0:
                raise MachineryFailure(f"TLC action {a} of {module} never taken (vacuous instance)")
        self.tlc_runs.append(res)
        self.cov["states"] += res.distinct
        self.cov["transitions"] += res.generated
        self.cov["tlc_runs"].append(
            {
                "label": label or f"{module}/{cfg}",
                "cmd": res.cmd,
                "generated": res.generated,
                "distinct": res.distinct,
                "depth": res.depth,
                "wall_s": round(res.wall, 2),
                "actions": {k: list(v) for k, v in res.coverage.items()},
                "exported_records": len(res.records),
                "mode": "simulate" if simulate else "exhaustive",
            }
        )
        return res

    # ---- replay in the real library ----
    def pmap(self, impl_module, func, cases, nproc=None, chunk_timeout=600, common=None):
        """Run impl_module.func(case) for every case in worker processes.

        Deterministic static partition (case k goes to worker k mod n); results
        are returned in case order.  A crashing/hanging worker is a machinery
        failure, except that per-case exceptions are caught inside the worker
        and returned as {"_error": ...}."""
        import uuid

        nproc = min(nproc or NCPU, max(1, len(cases)))
        parts = [cases[i::nproc] for i in range(nproc)]
        rid = uuid.uuid4().hex[:10]  # unique per call: pmap may be called from several threads
        files = []
        procs = []
        for i, part in enumerate(parts):
            fin = self.path(f"w_in_{rid}_{i}.json")
            fout = self.path(f"w_out_{rid}_{i}.json")
            with open(fin, "w") as f:
                json.dump({"cases": part, "common": common}, f)
            files.append((fin, fout))
            procs.append(
                subprocess.Popen(
                    [
                        sys.executable,
                        os.path.join(VERIF, "harness", "worker.py"),
                        impl_module,
                        func,
                        fin,
                        fout,
                    ],
                    env=self.env({"VERIF_SEED": self.seed}),
                    stdout=subprocess.PIPE,
                    stderr=subprocess.PIPE,
                    text=True,
                )
            )
        self._replay_n += 1
        outs = []
        deadline = time.time() + chunk_timeout
        for p, (fin, fout) in zip(procs, files):
            try:
                so, se = p.communicate(timeout=max(1, deadline - time.time()))
            except subprocess.TimeoutExpired:
                for q in procs:
                    q.kill()
                raise MachineryFailure(f"replay worker timeout ({impl_module}.{func})")
            if p.returncode != 0 or not os.path.exists(fout):
                for q in procs:
                    q.kill()
                raise MachineryFailure(f"replay worker failed ({impl_module}.{func}): {se[-3000:]}")
            outs.append(json.load(open(fout)))
            os.unlink(fin)
            os.unlink(fout)
        res = [None] * len(cases)
        for i, o in enumerate(outs):
            res[i::nproc] = o
        return res

    # ---- verdicts ----
    def violation(self, key, detail, case=None):
        """An observed step broke the property predicate.  `key` = the specific
        input/call site/history (dict of stable fields) used for matching known
        findings."""
        e = finding_for(self.findings, key)
        if e is not None:
            k = e["what"]
            self.known_hits[k] = self.known_hits.get(k, 0) + 1
            return "known"
        os.makedirs(REPLAY_DIR, exist_ok=True)
        blob = json.dumps({"property": self.pid, "key": key, "detail": detail, "case": case, "seed": self.seed}, sort_keys=True, ensure_ascii=True, default=str)
        h = hashlib.sha1(blob.encode()).hexdigest()[:12]
        path = os.path.join(REPLAY_DIR, f"{self.pid}-{h}.json")
        if len(self.violations) < 50:
            with open(path, "w") as f:
                f.write(blob)
        self.violations.append((path, key, detail))
        return "violation"

    def drift_step(self, action, detail=None):
        self.drift[action] = self.drift.get(action, 0) + 1
        if detail is not None and len(self.notes) < 40:
            self.notes.append({"drift": action, "detail": detail})

    def validated(self, n=1):
        self.cov["traces_validated_against_impl"] += n

    def sample(self, s):
        if len(self.cov["samples"]) < 6:
            self.cov["samples"].append(s)

    def note(self, s):
        if len(self.notes) < 60:
            self.notes.append(s)

    # ---- wrap up ----
    def finish(self):
        for k, n in sorted(self.known_hits.items()):
            print(f"KNOWN-FINDING: property={self.pid} {k} (x{n})")
        for a, n in sorted(self.drift.items()):
            print(f"DRIFT property={self.pid} action={a} steps={n}")
        shown = set()
        for path, key, detail in self.violations:
            sig = json.dumps(key, sort_keys=True, default=str)
            if sig in shown:
                continue
            shown.add(sig)
            if len(shown) <= 25:
                print(f"VIOLATION property={self.pid} replay={path}")
                print(f"  key={sig} detail={json.dumps(detail, default=str)[:600]}")
        self.cov["drift"] = self.drift
        self.cov["known_findings_hit"] = [{"what": k, "count": n} for k, n in sorted(self.known_hits.items())]
        self.cov["notes"] = self.notes
        if not self.cov["samples"]:
            self.cov["samples"] = ["(no case exported)"]
        ev = {
            "property_id": self.pid,
            "tier": self.tier,
            "seed": self.seed,
            "level": self.level,
            "coverage": self.cov,
            "assumptions": self.assumptions,
            "wall_s": round(time.time() - self.t0, 2),
            "violations": len(self.violations),
        }
        if not self.replay:
            os.makedirs(EVIDENCE_DIR, exist_ok=True)
            with open(os.path.join(EVIDENCE_DIR, f"{self.pid}.json"), "w") as f:
                json.dump(ev, f, indent=1, ensure_ascii=True, default=str)
        print(
            f"{self.pid} tier={self.tier} seed={self.seed} states={self.cov['states']} transitions={self.cov['transitions']} "
            f"replayed={self.cov['traces_validated_against_impl']} violations={len(self.violations)} "
            f"known={sum(self.known_hits.values())} drift={sum(self.drift.values())} wall={ev['wall_s']}s"
        )
        return 1 if self.violations else 0

    def cleanup(self):
        shutil.rmtree(self.scratch, ignore_errors=True)


def main(argv):
    import argparse

    ap = argparse.ArgumentParser()
    ap.add_argument("pid", nargs="?")
    ap.add_argument("--tier", default=os.environ.get("VERIF_TIER") or "quick")
    ap.add_argument("--replay")
    ap.add_argument("--setup", action="store_true")
    ap.add_argument("--selftest", action="store_true")
    a = ap.parse_args(argv)
    if a.setup:
        from setup_check import setup

        return setup()
    if not a.pid:
        ap.error("property id required")
    pid = a.pid.upper()
    seed = int(os.environ.get("VERIF_SEED") or 0)
    tier = a.tier if a.tier in ("quick", "thorough") else "quick"
    ck = None
    try:
        ck = Check(pid, tier, seed, a.replay)
        mod = importlib.import_module(pid.lower())
        mod.run(ck)
        return ck.finish()
    except MachineryFailure as e:
        print(f"MACHINERY-FAILURE property={pid}: {e}", file=sys.stderr)
        return 2
    except Exception:
        traceback.print_exc()
        print(f"MACHINERY-FAILURE property={pid}: unexpected exception", file=sys.stderr)
        return 2
    finally:
        if ck is not None and not os.environ.get("VERIF_KEEP"):
            ck.cleanup()
