---------------------------- MODULE ArrayFnUnit ----------------------------
(* Units through NumPy array functions and ndarray methods (C07).             *)
(*                                                                            *)
(* Every function F of the catalogue (all functions dispatching through       *)
(* __array_function__, the ndarray methods of unyt_array) has TWO independent *)
(* descriptions here:                                                         *)
(*                                                                            *)
(*  property side  (field sig of a row; DESIGN.md Appendix E): the            *)
(*     homogeneity signature of the MATHEMATICAL function - for every output  *)
(*     either "bare and invariant" or its degree in each dimensioned operand  *)
(*     (det of an n x n matrix: n in the LAST two axes; einsum: 1 in every    *)
(*     operand; var 2; cholesky 1/2; inv -1; lstsq residuals 2 in b; ...);    *)
(*     the class "same" (result has the dimension of its main input:          *)
(*     selection, reshaping, sorting, rounding, interpolation, statistics of  *)
(*     location and spread), the marking ExactHomogeneous (ex) and the "not   *)
(*     scale-covariant by definition" marking (nocov: rounding family,        *)
(*     ones_like, ...).                                                       *)
(*  transition side (field io of a row): the unit formula the HANDLER applies *)
(*     as transcribed from unyt/_array_functions.py and unyt/array.py (det    *)
(*     uses shape[0]; einsum checks equality and takes the first operand's    *)
(*     unit; lstsq residuals bu/au; the merging family refuses unequal        *)
(*     units; ...), including the scale of the unit.  Default-path functions  *)
(*     have no transcription (io = NA).                                       *)
(*                                                                            *)
(* Degrees and exponents are DOUBLED integers (1/2 -> 1).  A unit of the      *)
(* model registry is <<d, k>>: dimension "L" or "T", scale 2^k.               *)
(*                                                                            *)
(* Predicates (evaluated by TLC on the observed outcome of the real library,  *)
(* Trace_C07): C07_Cov (product machine: F on x and on the same physical x    *)
(* re-expressed denote the same quantity; bare results unchanged), C07_Sig    *)
(* (unit exponent vector of every output = signature applied to the input     *)
(* units), C07_Keep (class "same": a unyt object in commensurable units).     *)
EXTENDS Integers, Sequences, FiniteSets, TLC, Json

\* ---------------------------------------------------------------- shapes
Shapes == {"sc", "e0", "v1", "v3", "v4", "m22", "m33", "m23", "s322"}
Size(sh) == CASE sh = "sc" -> 1 [] sh = "e0" -> 0 [] sh = "v1" -> 1 [] sh = "v3" -> 3 [] sh = "v4" -> 4 [] sh = "m22" -> 4 [] sh = "m33" -> 9 [] sh = "m23" -> 6 [] sh = "s322" -> 12
Dim0(sh) == CASE sh = "sc" -> 1 [] sh = "e0" -> 0 [] sh = "v1" -> 1 [] sh = "v3" -> 3 [] sh = "v4" -> 4 [] sh = "m22" -> 2 [] sh = "m33" -> 3 [] sh = "m23" -> 2 [] sh = "s322" -> 3
Order(sh) == CASE sh = "sc" -> 1 [] sh = "e0" -> 0 [] sh = "v1" -> 1 [] sh = "v3" -> 3 [] sh = "v4" -> 4 [] sh = "m22" -> 2 [] sh = "m33" -> 3 [] sh = "m23" -> 3 [] sh = "s322" -> 2

\* symbolic degrees resolved with the shape of the case
SIZE == 1000   \* number of factors of a full product
DIM0 == 1001   \* length of axis 0
ORDER == 1002  \* order of the matrices in the last two axes
Res(code, sh) == CASE code = SIZE -> 2 * Size(sh) [] code = DIM0 -> 2 * Dim0(sh) [] code = ORDER -> 2 * Order(sh) [] OTHER -> code

\* ---------------------------------------------------------------- signatures
Dg(a, b, c) == [bare |-> FALSE, deg |-> <<a, b, c>>]
D1 == Dg(2, 0, 0)
Bare == [bare |-> TRUE, deg |-> <<0, 0, 0>>]
SeqS(s) == [k |-> "seq", o |-> s]
EachS(s) == [k |-> "each", o |-> <<s>>]
Unknown == [k |-> "unknown", o |-> <<>>]
NA == [chk |-> "na", o |-> <<>>]
Impl(chk, s) == [chk |-> chk, o |-> s]
ResSig(sig, sh) == [sig EXCEPT !.o = [j \in DOMAIN sig.o |-> [sig.o[j] EXCEPT !.deg = [i \in 1..3 |-> Res(sig.o[j].deg[i], sh)]]]]

LL == <<"L", "L">>
LT == <<"L", "T">>
LLL == <<"L", "L", "L">>
LLT == <<"L", "L", "T">>
LTL == <<"L", "T", "L">>

\* ---------------------------------------------------------------- the table
Row(f, t, n, shs, das, cls, sig, io, ex, fl) ==
  [f |-> f, t |-> t, n |-> n, shs |-> shs, das |-> das, cls |-> cls, sig |-> sig, io |-> io, ex |-> ex, fl |-> fl]
Rws(fs, ts, n, shs, das, cls, sig, io, ex, fl) == {Row(f, t, n, shs, das, cls, sig, io, ex, fl) : f \in fs, t \in ts}
One == {<<"L">>}
VM == {"v4", "m23"}
U1 == Impl("none", <<D1>>)
U1Each == [chk |-> "none", o |-> <<D1>>]

\* -- class "same": statistics of location and spread (default path except ptp)
RedSameDefault == {"np.amax", "np.amin", "np.max", "np.min", "np.nanmax", "np.nanmin", "np.mean", "np.median", "np.nanmean",
                   "np.nanmedian", "np.sum", "np.nansum", "np.std", "np.nanstd", "np.average"}
RedSameMethods == {"nd.max", "nd.min", "nd.mean", "nd.sum", "nd.std"}
RedOut == {"np.sum", "np.mean", "np.max", "np.min", "np.amax", "np.amin", "np.std", "np.nansum", "np.median", "np.cumsum",
           "nd.sum", "nd.mean", "nd.max", "nd.std", "nd.cumsum"}
RowsRed ==
  Rws(RedSameDefault, {"p", "ax0", "axN", "kd"}, 1, VM, One, "same", EachS(D1), U1, TRUE, {"int"})
  \cup Rws(RedSameMethods, {"p", "ax0", "kd"}, 1, VM, One, "same", EachS(D1), U1, TRUE, {"int"})
  \cup Rws({"np.ptp"}, {"p", "ax0", "axN", "kd"}, 1, VM, One, "same", EachS(D1), U1, TRUE, {})
  \* 0-d quantities
  \cup Rws(RedSameDefault \cup RedSameMethods \cup {"np.ptp"}, {"p"}, 1, {"sc"}, One, "same", EachS(D1), U1, TRUE, {})
  \* size-1 arrays
  \cup Rws(RedSameDefault \cup RedSameMethods \cup {"np.ptp"}, {"p", "kd"}, 1, {"v1"}, One, "same", EachS(D1), U1, TRUE, {})
  \* empty arrays (length 0): nothing to compare, but the unit must still be there
  \cup Rws({"np.sum", "np.nansum", "np.mean", "np.cumsum", "np.sort", "np.ravel", "np.flip", "np.unique", "np.zeros_like", "np.diff",
            "np.transpose", "np.squeeze", "np.tile", "nd.sum", "nd.copy", "nd.cumsum", "nd.flatten"}, {"p"}, 1, {"e0"}, One, "same", EachS(D1), U1, TRUE, {})
  \cup Rws({"np.prod", "nd.prod"}, {"p"}, 1, {"e0"}, One, "power", EachS(Dg(SIZE, 0, 0)), NA, TRUE, {})
  \cup Rws({"np.concatenate", "np.hstack"}, {"lst"}, 2, {"e0"}, {LL}, "same", SeqS(<<Dg(2, 0, 0)>>), Impl("eq", <<D1>>), TRUE, {})
  \cup Rws({"np.argsort", "np.nonzero", "np.count_nonzero", "np.all"}, {"p"}, 1, {"e0"}, One, "bare", EachS(Bare), NA, TRUE, {})
  \* where= masks and initial= values (the initial value is an operand of the array's dimension)
  \cup Rws({"np.sum", "np.mean", "np.max", "nd.sum"}, {"wh"}, 1, {"m23"}, One, "same", EachS(D1), NA, TRUE, {})
  \cup Rws({"np.max", "np.amax", "np.min", "np.sum", "nd.max", "nd.sum"}, {"init"}, 2, {"m23"}, {LL}, "same", SeqS(<<Dg(2, 0, 0)>>), NA, TRUE, {})
  \cup Rws({"np.percentile", "np.quantile", "np.nanpercentile", "np.nanquantile"}, {"ax0", "kd"}, 1, {"m23"}, One, "same", EachS(D1), U1, TRUE, {})
  \cup Rws(RedOut, {"ax0out"}, 1, {"m23"}, One, "same", EachS(D1), NA, TRUE, {})
  \cup Rws({"np.cumsum", "np.nancumsum", "nd.cumsum"}, {"p", "ax0"}, 1, VM, One, "same", EachS(D1), U1, TRUE, {"int"})
  \cup Rws({"np.cumulative_sum"}, {"p"}, 1, {"v4"}, One, "same", EachS(D1), NA, TRUE, {})
  \cup Rws({"np.cumulative_sum"}, {"ax0"}, 1, {"m23"}, One, "same", EachS(D1), NA, TRUE, {})
  \cup Rws({"np.nanmax", "np.nansum", "np.nanmean", "np.nanstd", "np.nanmedian", "np.nancumsum", "np.nan_to_num"}, {"nan"}, 1, {"v4"}, One, "same", EachS(D1), NA, TRUE, {})
  \cup Rws({"np.nanpercentile"}, {"nan"}, 1, {"v4"}, One, "same", EachS(D1), U1, TRUE, {})

\* -- class "same": selection, reshaping, sorting (default path: views and copies)
Same12Default == {"np.sort", "np.unique", "np.real", "np.imag", "np.real_if_close", "np.nan_to_num", "np.diagflat",
                  "np.tile", "np.repeat", "np.resize", "np.roll", "np.flip", "np.squeeze", "np.expand_dims", "np.reshape", "np.ravel",
                  "np.transpose", "np.atleast_1d", "np.atleast_2d", "np.atleast_3d", "np.astype",
                  "np.zeros_like", "np.flipud", "np.delete", "np.array_split", "np.unstack", "np.partition", "np.gradient",
                  "np.linalg.vector_norm",
                  "nd.astype", "nd.conj", "nd.conjugate", "nd.copy", "nd.flatten", "nd.ravel", "nd.repeat", "nd.reshape", "nd.squeeze",
                  "nd.transpose", "nd.sort", "nd.partition", "nd.T", "nd.real", "nd.imag", "nd.flat"}
Same12Handled == {"np.pad", "np.sort_complex", "np.fft.fftshift", "np.fft.ifftshift", "np.diff", "np.percentile", "np.quantile",
                  "np.nanpercentile", "np.nanquantile", "np.linalg.norm", "np.histogram_bin_edges"}
Same1Default == {"np.trim_zeros", "np.compress", "np.extract", "np.split", "nd.compress"}
Same1Handled == {"np.take", "np.ediff1d", "nd.take"}
Same2Default == {"np.diagonal", "np.linalg.diagonal", "np.rollaxis", "np.rot90", "np.fliplr", "np.matrix_transpose",
                 "np.linalg.matrix_transpose", "np.swapaxes", "np.moveaxis", "np.linalg.trace", "np.take_along_axis",
                 "np.linalg.matrix_norm", "np.linalg.svdvals", "np.apply_along_axis", "nd.diagonal", "nd.swapaxes"}
Same2Handled == {"np.triu", "np.tril", "np.trace", "np.apply_over_axes"}
Fft1 == {"np.fft.fft", "np.fft.ifft", "np.fft.rfft", "np.fft.irfft", "np.fft.hfft", "np.fft.ihfft"}
Fft2 == {"np.fft.fft2", "np.fft.ifft2", "np.fft.rfft2", "np.fft.irfft2", "np.fft.fftn", "np.fft.ifftn", "np.fft.rfftn", "np.fft.irfftn"}
\* a list of results (one per section): the number of outputs depends on the data, no per-output transcription
MultiOut == {"np.array_split", "np.unstack", "np.gradient", "np.split"}
Inexact == {"np.linalg.norm", "np.linalg.vector_norm", "np.linalg.matrix_norm", "np.linalg.svdvals"}
RowsShape ==
  UNION {Rws({f}, {"p"}, 1, VM, One, "same", EachS(D1), IF f \in MultiOut THEN NA ELSE U1, f \notin Inexact, {"int"}) : f \in Same12Default}
  \cup UNION {Rws({f}, {"p"}, 1, VM, One, "same", EachS(D1), U1Each, f \notin Inexact, {"int"}) : f \in Same12Handled}
  \cup UNION {Rws({f}, {"p"}, 1, {"v4"}, One, "same", EachS(D1), IF f \in MultiOut THEN NA ELSE U1, TRUE, {"int"}) : f \in Same1Default}
  \cup Rws({"np.ravel", "np.atleast_1d", "np.atleast_2d", "np.atleast_3d", "np.squeeze", "np.real", "np.imag", "np.expand_dims", "np.tile",
            "np.repeat", "np.nan_to_num", "np.zeros_like", "np.transpose", "nd.copy", "nd.ravel", "nd.flatten", "nd.squeeze", "nd.conj",
            "nd.real", "nd.T"}, {"p"}, 1, {"sc"}, One, "same", EachS(D1), NA, TRUE, {})
  \cup Rws({"np.sort", "np.ravel", "np.squeeze", "np.transpose", "np.flip", "np.unique", "np.cumsum", "np.diff", "np.tile", "np.repeat",
            "np.atleast_2d", "np.expand_dims", "np.zeros_like", "nd.copy", "nd.flatten", "nd.squeeze", "nd.cumsum"}, {"p"}, 1, {"v1"}, One, "same", EachS(D1), NA, TRUE, {})
  \cup Rws({"np.prod", "nd.prod"}, {"p", "kd"}, 1, {"v1"}, One, "power", EachS(D1), NA, TRUE, {})
  \cup Rws({"np.var", "nd.var"}, {"p", "kd"}, 1, {"v1"}, One, "power", EachS(Dg(4, 0, 0)), NA, TRUE, {})
  \cup Rws({"np.argmax", "np.argsort", "np.nonzero", "np.count_nonzero", "np.all", "nd.argmax", "nd.argsort"}, {"p"}, 1, {"v1"}, One, "bare", EachS(Bare), NA, TRUE, {})
  \* unique_values returns the distinct values in no guaranteed order (NumPy's contract): compared as a multiset
  \cup Rws({"np.unique_values"}, {"p"}, 1, VM, One, "same", EachS(D1), NA, TRUE, {"int", "unordered"})
  \* np.copy / broadcast_to / broadcast_arrays default to subok=False and return plain ndarrays by NumPy's documented
  \* contract (asserted by the repository's tests): only the subok=True call is demanded
  \cup Rws({"np.copy", "np.broadcast_to"}, {"subok"}, 1, VM, One, "same", EachS(D1), NA, TRUE, {"int"})
  \cup Rws(Same1Handled, {"p"}, 1, {"v4"}, One, "same", EachS(D1), U1, TRUE, {"int"})
  \cup UNION {Rws({f}, {"p"}, 1, {"m22", "m23"}, One, "same", EachS(D1), IF f \in MultiOut THEN NA ELSE U1, f \notin Inexact, {}) : f \in Same2Default}
  \cup Rws(Same2Handled, {"p"}, 1, {"m22", "m23"}, One, "same", EachS(D1), U1, TRUE, {})
  \* np.diag: a 2-d input gives a view (unit handed on); a 1-d input is written into a fresh plain matrix (bare).
  \* x.trace(): ndarray's C method, the sum comes back as a bare scalar (the repair adds unyt_array.trace)
  \cup Rws({"np.diag"}, {"p"}, 1, {"m23"}, One, "same", EachS(D1), U1, TRUE, {"int"})
  \cup Rws({"np.diag"}, {"p"}, 1, {"v4"}, One, "same", EachS(D1), Impl("none", <<Bare>>), TRUE, {"int"})
  \cup Rws({"nd.trace"}, {"p"}, 1, {"m22", "m23"}, One, "same", EachS(D1), Impl("none", <<Bare>>), TRUE, {})
  \cup Rws({"np.hsplit", "np.vsplit"}, {"p"}, 1, {"m22"}, One, "same", EachS(D1), NA, TRUE, {})
  \cup Rws({"np.dsplit"}, {"p"}, 1, {"s322"}, One, "same", EachS(D1), NA, TRUE, {})
  \cup Rws({"np.linalg.eigvals", "np.linalg.eigvalsh"}, {"p"}, 1, {"m22", "m33"}, One, "same", EachS(D1), U1, FALSE, {})
  \cup Rws(Fft1, {"p"}, 1, {"v4"}, One, "same", EachS(D1), U1, FALSE, {})
  \cup Rws(Fft2, {"p"}, 1, {"m22"}, One, "same", EachS(D1), U1, FALSE, {})
  \cup Rws({"np.linalg.norm"}, {"fro", "ax0"}, 1, {"m22", "m23"}, One, "same", EachS(D1), U1, FALSE, {})
  \cup Rws({"np.sort", "np.partition", "np.diff", "np.flip", "np.take", "np.percentile", "np.quantile", "nd.take"}, {"axm"}, 1, {"m23"}, One, "same", EachS(D1), NA, TRUE, {})
  \cup Rws({"np.take", "nd.take"}, {"out"}, 1, {"v4"}, One, "same", EachS(D1), U1, TRUE, {})
  \cup Rws({"np.percentile"}, {"ax0out"}, 1, {"m23"}, One, "same", EachS(D1), NA, TRUE, {})
  \* rounding family, ones_like, empty_like, unwrap (default period 2 pi): not scale-covariant by definition -
  \* the numbers are not compared, the unit is still demanded
  \cup Rws({"np.round", "np.fix", "nd.round", "np.ones_like"}, {"p"}, 1, VM, One, "same", EachS(D1), NA, TRUE, {"nocov"})
  \cup Rws({"np.around"}, {"p", "out"}, 1, VM, One, "same", EachS(D1), U1, TRUE, {"nocov"})
  \cup Rws({"np.unwrap"}, {"p"}, 1, {"v4"}, One, "same", EachS(D1), U1, TRUE, {"nocov"})
  \cup Rws({"np.empty_like"}, {"p"}, 1, VM, One, "same", EachS(D1), NA, TRUE, {"nocov", "novals"})
  \cup Rws({"np.full_like"}, {"p"}, 2, VM, {LL, LT}, "same", SeqS(<<Dg(0, 2, 0)>>), NA, TRUE, {})
  \cup Rws({"np.unique_all"}, {"p"}, 1, {"v4"}, One, "same", SeqS(<<D1, Bare, Bare, Bare>>), NA, TRUE, {})
  \cup Rws({"np.unique_counts", "np.unique_inverse"}, {"p"}, 1, {"v4"}, One, "same", SeqS(<<D1, Bare>>), NA, TRUE, {})
  \cup Rws({"np.unique"}, {"counts"}, 1, {"v4"}, One, "same", SeqS(<<D1, Bare>>), NA, TRUE, {})
  \cup Rws({"np.meshgrid"}, {"p"}, 2, {"v4"}, {LL, LT}, "same", SeqS(<<Dg(2, 0, 0), Dg(0, 2, 0)>>), NA, TRUE, {})
  \cup Rws({"np.broadcast_arrays"}, {"subok"}, 2, {"v4"}, {LL, LT}, "same", SeqS(<<Dg(2, 0, 0), Dg(0, 2, 0)>>), NA, TRUE, {})

\* -- class "same": merging positions (operands must be commensurable; the handlers demand EQUAL units)
MergeLst == {"np.concatenate", "np.stack", "np.vstack", "np.hstack", "np.dstack", "np.column_stack", "np.block"}
MergeP == {"np.where", "np.choose", "np.insert", "np.intersect1d", "np.union1d", "np.setdiff1d"}
InPlaceChecked == {"np.put", "np.place", "np.putmask"}
MergeSig == SeqS(<<Dg(2, 0, 0)>>)
MergeIo == Impl("eq", <<D1>>)
RowsMerge ==
  Rws(MergeLst, {"lst"}, 2, {"v4", "m22"}, {LL}, "same", MergeSig, MergeIo, TRUE, {"int"})
  \cup Rws({"np.concatenate", "np.stack"}, {"lstax1"}, 2, {"m22"}, {LL}, "same", MergeSig, MergeIo, TRUE, {})
  \cup Rws({"np.concatenate", "np.stack"}, {"lstout"}, 2, {"v4"}, {LL}, "same", MergeSig, MergeIo, TRUE, {})
  \cup Rws({"np.block"}, {"nest"}, 2, {"v4"}, {LL}, "same", MergeSig, MergeIo, TRUE, {})
  \cup Rws(MergeP, {"p"}, 2, {"v4"}, {LL}, "same", MergeSig, MergeIo, TRUE, {})
  \cup Rws({"np.select"}, {"p"}, 3, {"v4"}, {LLL}, "same", MergeSig, MergeIo, TRUE, {})
  \cup Rws({"np.choose"}, {"out"}, 2, {"v4"}, {LL}, "same", MergeSig, MergeIo, TRUE, {})
  \cup Rws({"np.append", "np.setxor1d"}, {"p"}, 2, {"v4"}, {LL}, "same", MergeSig, NA, TRUE, {})
  \cup Rws({"np.linspace"}, {"p"}, 2, {"sc"}, {LL}, "same", MergeSig, MergeIo, TRUE, {})
  \cup Rws({"np.linspace"}, {"retstep"}, 2, {"sc"}, {LL}, "same", SeqS(<<D1, D1>>), Impl("eq", <<D1, D1>>), TRUE, {})
  \cup Rws({"np.geomspace"}, {"p"}, 2, {"sc"}, {LL}, "same", MergeSig, MergeIo, FALSE, {})
  \cup Rws({"np.intersect1d"}, {"idx"}, 2, {"v4"}, {LL}, "same", SeqS(<<D1, Bare, Bare>>), Impl("eq", <<Bare, Bare, Bare>>), TRUE, {})
  \cup Rws({"np.clip"}, {"p", "out"}, 3, VM, {LLL}, "same", MergeSig, MergeIo, TRUE, {})
  \cup Rws({"nd.clip"}, {"p", "out"}, 3, VM, {LLL}, "same", MergeSig, NA, TRUE, {})
  \cup Rws({"np.interp"}, {"p"}, 3, {"v4"}, {LLT, LLL}, "same", SeqS(<<Dg(0, 0, 2)>>), Impl("eq12", <<Dg(0, 0, 2)>>), TRUE, {})
  \cup Rws({"np.pad"}, {"cv"}, 2, {"v4"}, {LL}, "same", MergeSig, NA, TRUE, {})
  \* in-place writers: the target (reported as the only output) keeps its dimension
  \cup Rws(InPlaceChecked, {"p"}, 2, {"v4"}, {LL}, "same", MergeSig, MergeIo, TRUE, {})
  \cup Rws({"np.fill_diagonal"}, {"p"}, 2, {"m22", "m33"}, {LL}, "same", MergeSig, MergeIo, TRUE, {})
  \cup Rws({"np.put_along_axis"}, {"p"}, 2, {"m23"}, {LL}, "same", MergeSig, MergeIo, TRUE, {})
  \cup Rws({"np.copyto"}, {"p"}, 2, VM, {LL}, "same", MergeSig, Impl("none", <<Dg(0, 2, 0)>>), TRUE, {})
  \cup Rws({"nd.put", "nd.fill"}, {"p"}, 2, {"v4"}, {LL}, "same", MergeSig, NA, TRUE, {})

\* -- powers
RowsPower ==
  Rws({"np.prod", "np.nanprod", "nd.prod"}, {"p"}, 1, VM, One, "power", EachS(Dg(SIZE, 0, 0)), NA, TRUE, {"int"})
  \cup Rws({"np.prod", "np.nanprod"}, {"axN"}, 1, VM, One, "power", EachS(Dg(SIZE, 0, 0)), NA, TRUE, {})
  \cup Rws({"np.prod", "np.nanprod", "nd.prod"}, {"ax0", "kd"}, 1, VM, One, "power", EachS(Dg(DIM0, 0, 0)), NA, TRUE, {})
  \cup Rws({"np.prod"}, {"ax0out"}, 1, {"m23"}, One, "power", EachS(Dg(DIM0, 0, 0)), NA, TRUE, {})
  \cup Rws({"np.nanprod"}, {"nan"}, 1, {"v4"}, One, "power", Unknown, NA, TRUE, {})
  \cup Rws({"np.var", "np.nanvar", "nd.var"}, {"p", "ax0", "kd", "dd1"}, 1, VM, One, "power", EachS(Dg(4, 0, 0)), NA, TRUE, {"int"})
  \cup Rws({"np.var"}, {"ax0out"}, 1, {"m23"}, One, "power", EachS(Dg(4, 0, 0)), NA, TRUE, {})
  \cup Rws({"np.nanvar"}, {"nan"}, 1, {"v4"}, One, "power", EachS(Dg(4, 0, 0)), NA, TRUE, {})
  \cup Rws({"np.cov"}, {"p"}, 1, {"m23"}, One, "power", EachS(Dg(4, 0, 0)), NA, TRUE, {})
  \cup Rws({"np.cov"}, {"xy"}, 2, {"v4"}, {LL, LT}, "power", EachS(Dg(2, 2, 0)), NA, TRUE, {})
  \cup Rws({"np.linalg.det"}, {"p"}, 1, {"m22", "m33", "s322"}, One, "power", EachS(Dg(ORDER, 0, 0)), Impl("none", <<Dg(DIM0, 0, 0)>>), FALSE, {})
  \cup Rws({"np.linalg.inv"}, {"p"}, 1, {"m22", "m33", "s322"}, One, "power", EachS(Dg(-2, 0, 0)), Impl("none", <<Dg(-2, 0, 0)>>), FALSE, {})
  \cup Rws({"np.linalg.pinv"}, {"p"}, 1, {"m22", "m23"}, One, "power", EachS(Dg(-2, 0, 0)), Impl("none", <<Dg(-2, 0, 0)>>), FALSE, {})
  \cup Rws({"np.linalg.tensorinv"}, {"p"}, 1, {"m22"}, One, "power", EachS(Dg(-2, 0, 0)), Impl("none", <<Dg(-2, 0, 0)>>), FALSE, {})
  \cup Rws({"np.linalg.matrix_power"}, {"p"}, 1, {"m22", "m33"}, One, "power", EachS(Dg(6, 0, 0)), NA, TRUE, {})
  \cup Rws({"np.linalg.cholesky"}, {"p"}, 1, {"m22", "m33", "s322"}, One, "power", EachS(Dg(1, 0, 0)), NA, FALSE, {})
  \* cumulative products have no single unit: refusal expected, nothing demanded beyond covariance
  \cup Rws({"np.cumprod", "np.nancumprod", "np.cumulative_prod", "nd.cumprod"}, {"p"}, 1, {"v4"}, One, "refuse", Unknown, NA, TRUE, {})

\* -- products of operands
Prod2 == SeqS(<<Dg(2, 2, 0)>>)
RowsProduct ==
  Rws({"np.dot", "np.inner", "np.kron"}, {"p"}, 2, {"v4", "m22"}, {LL, LT}, "product", Prod2, Impl("none", <<Dg(2, 2, 0)>>), TRUE, {"int"})
  \cup Rws({"np.outer"}, {"out"}, 2, {"v4"}, {LL, LT}, "product", Prod2, Impl("none", <<Dg(2, 2, 0)>>), TRUE, {})
  \cup Rws({"np.dot"}, {"out"}, 2, {"m22"}, {LL, LT}, "product", Prod2, Impl("none", <<Dg(2, 2, 0)>>), TRUE, {})
  \cup Rws({"np.vdot", "np.outer", "np.linalg.outer", "np.convolve", "np.correlate"}, {"p"}, 2, {"v4"}, {LL, LT}, "product", Prod2, Impl("none", <<Dg(2, 2, 0)>>), TRUE, {})
  \cup Rws({"np.cross"}, {"p"}, 2, {"v3"}, {LL, LT}, "product", Prod2, Impl("none", <<Dg(2, 2, 0)>>), TRUE, {})
  \cup Rws({"np.linalg.cross"}, {"p"}, 2, {"v3"}, {LL, LT}, "product", Prod2, NA, TRUE, {})
  \cup Rws({"np.tensordot"}, {"p"}, 2, {"m22"}, {LL, LT}, "product", Prod2, Impl("none", <<Dg(2, 2, 0)>>), TRUE, {})
  \cup Rws({"np.linalg.tensordot", "np.linalg.matmul"}, {"p"}, 2, {"m22"}, {LL, LT}, "product", Prod2, NA, TRUE, {})
  \cup Rws({"np.linalg.vecdot"}, {"p"}, 2, {"v4"}, {LL, LT}, "product", Prod2, NA, TRUE, {})
  \cup Rws({"np.linalg.multi_dot"}, {"lst"}, 2, {"m22"}, {LL, LT}, "product", Prod2, NA, TRUE, {})
  \cup Rws({"np.linalg.multi_dot"}, {"lst3"}, 3, {"m22"}, {LLL, LTL}, "product", SeqS(<<Dg(2, 2, 2)>>), NA, TRUE, {})
  \cup Rws({"nd.dot"}, {"p"}, 2, {"v4", "m22"}, {LL, LT}, "product", Prod2, Impl("none", <<Dg(2, 2, 0)>>), TRUE, {})
  \cup Rws({"nd.dot"}, {"out"}, 2, {"m22"}, {LL, LT}, "product", Prod2, NA, TRUE, {})
  \cup Rws({"np.einsum"}, {"ii", "diag"}, 1, {"m22", "m33"}, One, "product", SeqS(<<D1>>), Impl("eq", <<D1>>), TRUE, {})
  \cup Rws({"np.einsum"}, {"mm", "mmout"}, 2, {"m22"}, {LL, LT}, "product", Prod2, Impl("eq", <<D1>>), TRUE, {})
  \cup Rws({"np.einsum"}, {"tri"}, 3, {"m22"}, {LLL, LTL}, "product", SeqS(<<Dg(2, 2, 2)>>), Impl("eq", <<D1>>), TRUE, {})
  \cup Rws({"np.trapezoid"}, {"p"}, 1, VM, One, "product", SeqS(<<D1>>), U1, TRUE, {})
  \cup Rws({"np.trapezoid"}, {"x", "xkw", "dx"}, 2, {"v4"}, {LL, LT}, "product", Prod2, Impl("none", <<Dg(2, 2, 0)>>), TRUE, {})
  \cup Rws({"np.gradient"}, {"dx", "x"}, 2, {"v4"}, {LL, LT}, "product", SeqS(<<Dg(2, -2, 0)>>), NA, TRUE, {})
  \cup Rws({"np.average"}, {"w"}, 2, {"v4"}, {LL, LT}, "same", SeqS(<<Dg(2, 0, 0)>>), NA, TRUE, {})
  \cup Rws({"np.average"}, {"wret"}, 2, {"v4"}, {LL, LT}, "product", SeqS(<<Dg(2, 0, 0), Dg(0, 2, 0)>>), NA, TRUE, {})
  \* histograms: counts carry the weights' unit and, with density, the inverse of each sample unit; edges the sample's
  \cup Rws({"np.histogram"}, {"p"}, 1, {"v4"}, One, "product", SeqS(<<Bare, D1>>), Impl("none", <<Bare, D1>>), TRUE, {})
  \cup Rws({"np.histogram"}, {"w"}, 2, {"v4"}, {LL, LT}, "product", SeqS(<<Dg(0, 2, 0), D1>>), Impl("none", <<Dg(0, 2, 0), D1>>), TRUE, {})
  \cup Rws({"np.histogram"}, {"dens"}, 1, {"v4"}, One, "product", SeqS(<<Dg(-2, 0, 0), D1>>), Impl("none", <<Dg(-2, 0, 0), D1>>), TRUE, {})
  \cup Rws({"np.histogram"}, {"wdens"}, 2, {"v4"}, {LL, LT}, "product", SeqS(<<Dg(-2, 0, 0), D1>>), Impl("none", <<Dg(-2, 2, 0), D1>>), TRUE, {})
  \cup Rws({"np.histogram"}, {"range"}, 3, {"v4"}, {LLL}, "product", SeqS(<<Bare, D1>>), Impl("none", <<Bare, D1>>), TRUE, {})
  \cup Rws({"np.histogram"}, {"bins"}, 2, {"v4"}, {LL}, "product", SeqS(<<Bare, D1>>), NA, TRUE, {})
  \cup Rws({"np.histogram2d", "np.histogramdd"}, {"p"}, 2, {"v4"}, {LL, LT}, "product", SeqS(<<Bare, Dg(2, 0, 0), Dg(0, 2, 0)>>), Impl("none", <<Bare, Dg(2, 0, 0), Dg(0, 2, 0)>>), TRUE, {})
  \cup Rws({"np.histogram2d"}, {"dens"}, 2, {"v4"}, {LL, LT}, "product", SeqS(<<Dg(-2, -2, 0), Dg(2, 0, 0), Dg(0, 2, 0)>>), Impl("none", <<Dg(-2, -2, 0), Dg(2, 0, 0), Dg(0, 2, 0)>>), TRUE, {})
  \cup Rws({"np.histogramdd"}, {"dens"}, 2, {"v4"}, {LL, LT}, "product", SeqS(<<Dg(-2, -2, 0), Dg(2, 0, 0), Dg(0, 2, 0)>>), NA, TRUE, {})
  \cup Rws({"np.histogram2d"}, {"wdens"}, 3, {"v4"}, {LTL, LLT}, "product", SeqS(<<Dg(-2, -2, 0), Dg(2, 0, 0), Dg(0, 2, 0)>>), Impl("none", <<Dg(-2, -2, 2), Dg(2, 0, 0), Dg(0, 2, 0)>>), TRUE, {})
  \cup Rws({"np.histogram2d"}, {"w"}, 3, {"v4"}, {LTL, LLT}, "product", SeqS(<<Dg(0, 0, 2), Dg(2, 0, 0), Dg(0, 2, 0)>>), Impl("none", <<Dg(0, 0, 2), Dg(2, 0, 0), Dg(0, 2, 0)>>), TRUE, {})

\* -- quotients and factorisations
RowsQuot ==
  Rws({"np.linalg.solve"}, {"p"}, 2, {"m22", "m33"}, {LL, LT}, "quotient", SeqS(<<Dg(-2, 2, 0)>>), Impl("none", <<Dg(-2, 2, 0)>>), FALSE, {})
  \cup Rws({"np.linalg.solve"}, {"vec"}, 2, {"m22"}, {LL, LT}, "quotient", SeqS(<<Dg(-2, 2, 0)>>), Impl("none", <<Dg(-2, 2, 0)>>), FALSE, {})
  \cup Rws({"np.linalg.tensorsolve"}, {"p"}, 2, {"m22"}, {LL, LT}, "quotient", SeqS(<<Dg(-2, 2, 0)>>), Impl("none", <<Dg(-2, 2, 0)>>), FALSE, {})
  \cup Rws({"np.linalg.lstsq"}, {"p"}, 2, {"m22"}, {LL, LT}, "quotient", SeqS(<<Dg(-2, 2, 0), Dg(0, 4, 0), Bare, Dg(2, 0, 0)>>),
           Impl("none", <<Dg(-2, 2, 0), Dg(-2, 2, 0), Bare, Dg(2, 0, 0)>>), FALSE, {})
  \cup Rws({"np.linalg.eig", "np.linalg.eigh"}, {"p"}, 1, {"m22", "m33"}, One, "same", SeqS(<<D1, Bare>>), Impl("none", <<D1, Bare>>), FALSE, {})
  \cup Rws({"np.linalg.svd"}, {"p"}, 1, {"m22", "m23"}, One, "same", SeqS(<<Bare, D1, Bare>>), Impl("none", <<Bare, D1, Bare>>), FALSE, {})
  \cup Rws({"np.linalg.svd"}, {"nouv"}, 1, {"m22", "m23"}, One, "same", SeqS(<<D1>>), U1, FALSE, {})
  \cup Rws({"np.linalg.qr"}, {"p"}, 1, {"m22", "m33"}, One, "same", SeqS(<<Bare, D1>>), NA, FALSE, {})
  \cup Rws({"np.linalg.qr"}, {"r"}, 1, {"m22", "m33"}, One, "same", SeqS(<<D1>>), NA, FALSE, {})

\* -- bare and invariant: indices, counts, booleans, correlation coefficients
Bare1 == {"np.all", "np.any", "np.argmax", "np.argmin", "np.nanargmax", "np.nanargmin", "np.argsort", "np.argpartition", "np.argwhere",
          "np.nonzero", "np.flatnonzero", "np.count_nonzero", "np.iscomplex", "np.iscomplexobj", "np.isreal", "np.isrealobj",
          "np.isneginf", "np.isposinf", "np.shape", "np.size", "np.ndim", "np.angle",
          "nd.all", "nd.any", "nd.argmax", "nd.argmin", "nd.argsort", "nd.argpartition", "nd.nonzero"}
Bare2d == {"np.linalg.matrix_rank", "np.linalg.cond", "np.tril_indices_from", "np.triu_indices_from", "np.corrcoef"}
Bare2ops == {"np.searchsorted", "np.digitize", "np.lexsort", "np.isclose", "np.allclose", "np.array_equal", "np.array_equiv", "np.isin",
             "np.may_share_memory", "np.shares_memory", "nd.searchsorted"}
\* index arrays that come back through __array_wrap__ / __array_finalize__ carry the input's unit (np.argsort falls back to
\* NumPy's _wrapit because the argsort override has no `stable` parameter; reductions with an axis wrap their array result)
LabelledP == {"np.argsort", "np.argpartition", "nd.argpartition"}
LabelledAx == {"np.argmax", "np.argmin", "np.argsort", "nd.argmax", "np.count_nonzero"}
MultiBare == {"np.nonzero", "nd.nonzero", "np.shape"}   \* tuples whose length follows the rank
BareIo == Impl("none", <<Bare>>)
RowsBare ==
  UNION {Rws({f}, {"p"}, 1, VM, One, "bare", EachS(Bare), IF f \in LabelledP THEN U1 ELSE IF f \in MultiBare THEN NA
                 ELSE IF f = "np.angle" THEN Impl("none", <<Dg(0, 0, 0)>>)   \* arctan2 ufunc: a dimensionless unyt_array
                 ELSE BareIo, TRUE, {"int"}) : f \in Bare1}
  \cup UNION {Rws({f}, {"ax0"}, 1, {"m23"}, One, "bare", EachS(Bare), IF f \in LabelledAx THEN U1 ELSE BareIo, TRUE, {}) :
               f \in {"np.argmax", "np.argmin", "np.argsort", "nd.argmax", "nd.argsort", "np.all", "np.any", "np.count_nonzero"}}
  \cup Rws({"np.nanargmax"}, {"nan"}, 1, {"v4"}, One, "bare", EachS(Bare), NA, TRUE, {})
  \cup Rws(Bare2d, {"p"}, 1, {"m22", "m23"}, One, "bare", EachS(Bare), NA, FALSE, {})
  \cup Rws({"np.diag_indices_from"}, {"p"}, 1, {"m22"}, One, "bare", EachS(Bare), NA, TRUE, {})
  \cup Rws({"np.corrcoef"}, {"xy"}, 2, {"v4"}, {LL, LT}, "bare", EachS(Bare), NA, FALSE, {})
  \cup Rws(Bare2ops, {"p"}, 2, {"v4"}, {LL}, "bare", EachS(Bare), NA, TRUE, {})

\* -- text and type queries: results mention the unit or are dtypes; only recorded
RowsText ==
  Rws({"np.array_str", "np.array_repr", "np.array2string", "np.einsum_path", "np.can_cast", "np.common_type", "np.result_type",
       "np.min_scalar_type"}, {"p"}, 1, {"v4"}, One, "free", Unknown, NA, TRUE, {})

\* ---------------------------------------------------------------- optional unit-carrying arguments
\* For functions with several optional arguments that may carry units the instance enumerates the FORM of the call: for
\* every optional slot "-" (not given), "b" (given bare) or "q" (given as a quantity) - including the combinations NumPy
\* ignores or resolves by precedence (trapezoid: dx is ignored whenever x is given; histogram: range is ignored when
\* bins is an array; density normalises the weights away).  Operands 1..nreq are required quantities, operand nreq + j is
\* slot j.  Property side OptSig: the degree of a slot is zero unless it is a quantity AND NumPy uses it; a bare slot
\* that the handler reads in the array's unit (deliberate: bare numbers adopt the unit) makes the call not
\* scale-covariant by definition (OptNoCov) - the unit is still demanded.  Transition side OptIo: what the handler does.
OptRow(f, tag, nreq, nslots, shs, das, cls) == [f |-> f, tag |-> tag, nreq |-> nreq, ns |-> nslots, shs |-> shs, das |-> das, cls |-> cls]
LTT == <<"L", "T", "T">>
OptRows == {
  OptRow("np.trapezoid", "o", 1, 2, {"v4"}, {LTT, LTL, LLT}, "product"),             \* x, dx
  OptRow("np.histogram", "o", 1, 2, {"v4"}, {LLT, LLL}, "product"),                  \* range, weights
  OptRow("np.histogram", "od", 1, 2, {"v4"}, {LLT, LLL}, "product"),                 \* range, weights with density=True
  OptRow("np.histogram", "obr", 1, 2, {"v4"}, {LLL}, "product"),                     \* bins (array), range
  OptRow("np.interp", "olr", 2, 1, {"v4"}, {LTT}, "same"),                           \* (x, xp), fp; left= and right=
  OptRow("np.interp", "oper", 2, 1, {"v4"}, {LTL}, "same"),                          \* (x, xp), fp; period=
  OptRow("np.clip", "o", 1, 2, {"v4"}, {LLL}, "same"),                               \* a_min, a_max
  OptRow("np.pad", "ocv", 1, 1, {"v4"}, {LL}, "same"),                               \* constant_values
  OptRow("np.pad", "oev", 1, 1, {"v4"}, {LL}, "same"),                               \* mode="linear_ramp", end_values
  OptRow("np.average", "o", 1, 1, {"v4"}, {LL, LT}, "same"),                         \* weights
  OptRow("np.gradient", "o", 1, 2, {"m23"}, {LTT, LTL, LLT}, "product") }            \* spacing of axis 0, of axis 1
SlotStates == {"-", "b", "q"}
AllForms(ns) == IF ns = 1 THEN {<<a>> : a \in SlotStates} ELSE {<<a, b>> : a \in SlotStates, b \in SlotStates}
IsQ(fm, j) == j <= Len(fm) /\ fm[j] = "q"
IsB(fm, j) == j <= Len(fm) /\ fm[j] = "b"
Given(fm, j) == j <= Len(fm) /\ fm[j] # "-"
Q2(b) == IF b THEN 2 ELSE 0
\* forms that are the plain call (nothing given) or that NumPy itself rejects are not generated
OptOK(r, fm) ==
  CASE r.f = "np.clip" -> Given(fm, 1) \/ Given(fm, 2)
    [] r.f = "np.pad" \/ r.f = "np.average" \/ r.f = "np.interp" -> Given(fm, 1)
    [] r.f = "np.histogram" /\ r.tag = "obr" -> fm[1] # "b" /\ fm[2] # "b"
    [] r.f = "np.gradient" -> Given(fm, 1) /\ Given(fm, 2)
    [] OTHER -> TRUE
OptSig(r, fm) ==
  CASE r.f = "np.trapezoid" -> SeqS(<<Dg(2, Q2(IsQ(fm, 1)), Q2(~Given(fm, 1) /\ IsQ(fm, 2)))>>)
    [] r.f = "np.histogram" /\ r.tag = "o" -> SeqS(<<Dg(0, 0, Q2(IsQ(fm, 2))), D1>>)
    [] r.f = "np.histogram" /\ r.tag = "od" -> SeqS(<<Dg(-2, 0, 0), D1>>)
    [] r.f = "np.histogram" /\ r.tag = "obr" -> SeqS(<<Dg(0, 0, 0), D1>>)
    [] r.f = "np.interp" -> SeqS(<<Dg(0, 2, 0)>>)
    [] r.f = "np.gradient" -> SeqS(<<Dg(2, -Q2(IsQ(fm, 1)), 0), Dg(2, 0, -Q2(IsQ(fm, 2)))>>)
    [] OTHER -> SeqS(<<Dg(2, 0, 0)>>)
OptIo(r, fm) ==
  CASE r.f = "np.trapezoid" -> Impl("none", <<Dg(2, Q2(IsQ(fm, 1)), Q2(~Given(fm, 1) /\ IsQ(fm, 2)))>>)
    [] r.f = "np.histogram" /\ r.tag = "o" -> Impl("none", <<IF IsQ(fm, 2) THEN Dg(0, 0, 2) ELSE Bare, D1>>)
    [] r.f = "np.histogram" /\ r.tag = "od" -> Impl("none", <<Dg(-2, 0, Q2(IsQ(fm, 2))), D1>>)
    [] r.f = "np.pad" -> U1
    [] OTHER -> NA
\* a bare value read in the array's unit: clip bounds, pad values, histogram range, interp left/right/period
OptNoCov(r, fm) ==
  CASE r.f = "np.clip" -> IsB(fm, 1) \/ IsB(fm, 2)
    [] r.f = "np.pad" \/ r.f = "np.interp" -> IsB(fm, 1)
    [] r.f = "np.histogram" /\ r.tag \in {"o", "od"} -> IsB(fm, 1)
    [] OTHER -> FALSE
FormStr(fm) == IF Len(fm) = 1 THEN fm[1] ELSE fm[1] \o fm[2]
OptAsRow(r, fm) ==
  [f |-> r.f, t |-> r.tag \o ":" \o FormStr(fm), n |-> r.nreq + r.ns, shs |-> r.shs, das |-> r.das, cls |-> r.cls,
   sig |-> OptSig(r, fm), io |-> OptIo(r, fm), ex |-> TRUE, fl |-> IF OptNoCov(r, fm) THEN {"nocov"} ELSE {},
   q |-> [i \in 1..3 |-> i <= r.nreq \/ IsQ(fm, i - r.nreq)]]
OptAllRows == UNION {{OptAsRow(r, fm) : fm \in {x \in AllForms(r.ns) : OptOK(r, x)}} : r \in OptRows}

Rows == RowsRed \cup RowsShape \cup RowsMerge \cup RowsPower \cup RowsProduct \cup RowsQuot \cup RowsBare \cup RowsText
RowNames == {r.f : r \in Rows}

\* unit-free by documentation / undefined units / IO / byte-level or Python-object views: nothing is demanded (no case)
NotDemanded == {"np.sinc", "np.i0", "np.logspace", "np.linalg.slogdet", "np.save", "np.savez", "np.savez_compressed", "np.savetxt",
                "np.bincount", "np.ravel_multi_index", "np.unravel_index",
                "nd.byteswap", "nd.dump", "nd.dumps", "nd.getfield", "nd.setfield", "nd.setflags", "nd.to_device", "nd.tobytes",
                "nd.tofile", "nd.tolist", "nd.item", "nd.view", "nd.resize", "nd.choose"}

\* functions of the catalogue the table does not know: still run through the product machine with the plain call F(x)
GenericRows(names) == Rws(names, {"p"}, 1, {"v4", "m22"}, One, "unknown", Unknown, NA, FALSE, {})

\* ---------------------------------------------------------------- units of a case
\* base: every operand of dimension L in 2^KL, T in 2^KT; variant: pattern "all" shifts every operand of the
\* re-expressed dimension by r, pattern "o<i>" only operand i (the other operands of that dimension keep their unit)
\* dimensions "iL" = 1/length and "iT" = 1/time: operands whose units cancel against an L / T operand, leaving a
\* dimensionless unit whose SCALE is not one (s x kHz = 1000); their base scale: 0 on ordinary units (index of 1/m, Hz),
\* -1 where all scales must stay <= 0 (integer data), 1 otherwise
KInv(kl, kt) == IF kl = 0 /\ kt = 0 THEN 0 ELSE IF kl <= 0 /\ kt <= 0 THEN -1 ELSE 1
KOf(d, kl, kt) == CASE d = "L" -> kl [] d = "T" -> kt [] OTHER -> KInv(kl, kt)
\* the reciprocal companion of a dimension assignment with two different dimensions: every T operand becomes 1/length
HasBoth(da) == (\E i \in DOMAIN da : da[i] = "L") /\ (\E i \in DOMAIN da : da[i] = "T")
Recip(da) == [i \in DOMAIN da |-> IF da[i] = "T" THEN "iL" ELSE da[i]]
RecipT(da) == [i \in DOMAIN da |-> IF da[i] = "L" THEN "iT" ELSE da[i]]
BaseUnits(da, kl, kt) == [i \in DOMAIN da |-> <<da[i], KOf(da[i], kl, kt)>>]
Patterns(da) == {"all"} \cup (IF Len(da) >= 2 THEN {"o1", "o2"} ELSE {}) \cup (IF Len(da) >= 3 THEN {"o3"} ELSE {})
PatIdx(p) == CASE p = "o1" -> 1 [] p = "o2" -> 2 [] p = "o3" -> 3 [] OTHER -> 0
\* which dimension is re-expressed: for "all" the dimension rd; for "o<i>" the dimension of operand i
VarUnits(da, base, p, rd, r) ==
  [i \in DOMAIN da |->
     IF (p = "all" /\ da[i] = rd) \/ (p # "all" /\ PatIdx(p) = i) THEN <<da[i], base[i][2] + r>> ELSE base[i]]

\* ---------------------------------------------------------------- applying a signature to units
\* "Th" = temperature (offset-unit family K, degC, degF, R).  No case mixes temperature with length, so its exponent
\* is carried in the first component of the vector (the harness projects it there)
\* "Tm" = temperature again, in its MULTIPLICATIVE units (K, mK, R, delta_degF, delta_degC: degrees of different width, no
\* zero point) - a third dimension through the whole table, so that a unit formula that treats one dimension specially
\* is seen; "N" = an operand given BARE (plain ndarray / list / float): it carries no dimension
DimOf(d) == CASE d = "L" -> <<1, 0>> [] d = "T" -> <<0, 1>> [] d = "iL" -> <<-1, 0>> [] d = "iT" -> <<0, -1>> [] d = "Th" -> <<1, 0>>
              [] d = "Tm" -> <<1, 0>> [] d = "N" -> <<0, 0>>
DegAt(deg, i, n) == IF i <= n THEN deg[i] ELSE 0
\* doubled exponent vector <<2 eL, 2 eT>> of  prod_i u_i^(deg_i/2)
ExpDims(deg, us) ==
  LET n == Len(us)
      term(i, j) == IF i <= n THEN deg[i] * DimOf(us[i][1])[j] ELSE 0 IN
  <<term(1, 1) + term(2, 1) + term(3, 1), term(1, 2) + term(2, 2) + term(3, 2)>>
\* doubled log2 of the scale of that unit
ExpLg(deg, us) ==
  LET n == Len(us)
      term(i) == IF i <= n THEN deg[i] * us[i][2] ELSE 0 IN
  term(1) + term(2) + term(3)

IsOutT(t) == t \in {"out", "ax0out", "lstout", "mmout", "axmout"}
\* the signature of output j of a case (out= templates report the buffer as an extra last output)
SigAt(c, j, nouts) ==
  IF c.sig.k = "each" THEN c.sig.o[1]
  ELSE IF j <= Len(c.sig.o) THEN c.sig.o[j]
  ELSE IF IsOutT(c.t) /\ j = nouts /\ Len(c.sig.o) >= 1 THEN c.sig.o[1]
  ELSE [bare |-> TRUE, deg |-> <<0, 0, 0>>, extra |-> TRUE]
SigCount(c, nouts) ==
  c.sig.k = "each" \/ nouts = Len(c.sig.o) + (IF IsOutT(c.t) THEN 1 ELSE 0)

\* ---------------------------------------------------------------- property predicates
Unitless(o) == o.kind = "bare" \/ (o.kind = "unyt" /\ o.dims = <<0, 0>> /\ ~o.odd)
\* "rawbuf": a plain ndarray the CALLER supplied as out= - it cannot carry a unit, nothing is demanded of it (the
\* returned object is still judged in full)
NotCompared(o) == o.kind \in {"text", "other", "rawbuf"}

\* C07_Cov, one output: same kind of object, commensurable units, same physical numbers
NeedExact(c, ob) == ob.dk \in {"b", "i", "u"} \/ (c.exact /\ ~c.real)
CovOut(c, ob, ov, cm) ==
  \/ NotCompared(ob) \/ NotCompared(ov)
  \/ /\ (ob.kind = ov.kind \/ (Unitless(ob) /\ Unitless(ov)))   \* a dimensionless unyt object and a bare array are both unit-free
     /\ ((ob.kind = "unyt" /\ ov.kind = "unyt") => (ob.dims = ov.dims /\ ob.odd = ov.odd))
     /\ cm.shp
     /\ (c.nocov \/ (IF NeedExact(c, ob) THEN cm.ex ELSE cm.tol))
Both(o) == o.b.k = "ok" /\ o.v.k = "ok"
CovFails(c, o) ==
  IF ~Both(o) THEN {}
  ELSE IF Len(o.b.outs) # Len(o.v.outs) THEN {0}
  ELSE {j \in DOMAIN o.b.outs : ~CovOut(c, o.b.outs[j], o.v.outs[j], o.cmp[j])}
C07_Cov(c, o) == CovFails(c, o) = {}

\* C07_Sig, one output of one run: exponent vector of the unit = signature applied to the operand units
SigOut(s, ob, us) ==
  \/ NotCompared(ob)
  \/ IF s.bare THEN Unitless(ob) \/ ob.kind = "none"
     ELSE LET e == ExpDims(s.deg, us) IN
          \/ (ob.kind = "unyt" /\ ~ob.odd /\ ob.dims = e)
          \/ (e = <<0, 0>> /\ ob.kind = "bare")
SigFailsRun(c, run, us) ==
  IF run.k # "ok" \/ c.sig.k = "unknown" THEN {}
  ELSE IF ~SigCount(c, Len(run.outs)) THEN {0}
  ELSE {j \in DOMAIN run.outs : ~SigOut(SigAt(c, j, Len(run.outs)), run.outs[j], us)}
SigFails(c, o) == SigFailsRun(c, o.b, c.u) \cup SigFailsRun(c, o.v, c.v)
C07_Sig(c, o) == SigFails(c, o) = {}

\* C07_Keep (class "same"): every output whose signature is a dimension of an input is a unyt object
\* (unyt_array / unyt_quantity or a subclass reported as such) in commensurable units
KeepOut(s, ob, us) ==
  \/ NotCompared(ob) \/ s.bare
  \/ ExpDims(s.deg, us) = <<0, 0>>
  \/ (ob.kind = "unyt" /\ ob.cls \in {"unyt_array", "unyt_quantity"} /\ ~ob.odd /\ ob.dims = ExpDims(s.deg, us))
KeepFailsRun(c, run, us) ==
  IF run.k # "ok" \/ c.sig.k = "unknown" \/ c.cls # "same" \/ ~SigCount(c, Len(run.outs)) THEN {}
  ELSE {j \in DOMAIN run.outs : ~KeepOut(SigAt(c, j, Len(run.outs)), run.outs[j], us)}
KeepFails(c, o) == KeepFailsRun(c, o.b, c.u) \cup KeepFailsRun(c, o.v, c.v)
C07_Keep(c, o) == KeepFails(c, o) = {}

\* C07_Out (out= templates): within one run the returned object and the buffer that was written are two renderings of
\* the same result - same kind of object, commensurable units, the same physical numbers (holds whether or not the
\* function is scale-covariant, so it also binds the rounding family)
OutRunOK(c, run, oc) ==
  \/ run.k # "ok" \/ ~IsOutT(c.t) \/ Len(run.outs) < 2
  \/ LET a == run.outs[1]
         b == run.outs[Len(run.outs)] IN
     \/ b.kind = "rawbuf"
     \/ /\ a.kind = b.kind
        /\ (a.kind = "unyt" => (a.dims = b.dims /\ a.odd = b.odd))
        /\ oc.shp /\ (IF c.real THEN oc.tol ELSE oc.ex)
OutFails(c, o) == (IF OutRunOK(c, o.b, o.ocb) THEN {} ELSE {1}) \cup (IF OutRunOK(c, o.v, o.ocv) THEN {} ELSE {2})
C07_Out(c, o) == OutFails(c, o) = {}

\* ---------------------------------------------------------------- transition side
AllEqual(us, m) == \A i \in 1..m : us[i] = us[1]
ImplRaises(io, us) == CASE io.chk = "eq" -> ~AllEqual(us, Len(us)) [] io.chk = "eq12" -> ~AllEqual(us, 2) [] OTHER -> FALSE
\* predicted outcome of one run: "na", "raise" or the sequence of [kind, dims, lg]
ImplRun(c, us) ==
  IF c.io.chk = "na" THEN [k |-> "na", outs |-> <<>>]
  ELSE IF ImplRaises(c.io, us) THEN [k |-> "raise", outs |-> <<>>]
  ELSE [k |-> "ok", outs |-> [j \in DOMAIN c.io.o |->
          IF c.io.o[j].bare THEN [kind |-> "bare", dims |-> <<0, 0>>, lg |-> 0]
          ELSE [kind |-> "unyt", dims |-> ExpDims(c.io.o[j].deg, us), lg |-> ExpLg(c.io.o[j].deg, us)]]]
\* observed run against predicted run (out= buffers: relabelled with the unit of the first output)
\* a predicted dimensionless unit: the handlers may fold its scale into the numbers or hand the result out bare when the
\* scale is one - only "carries no dimension" is compared (the numbers are P's matter)
TOutOK(m, ob, real) == IF m.kind = "unyt" /\ m.dims = <<0, 0>> THEN Unitless(ob)
                       ELSE /\ m.kind = ob.kind
                            /\ (m.kind = "unyt" => (m.dims = ob.dims /\ (real \/ m.lg = ob.lg)))
TRunOK(c, m, run) ==
  \/ m.k = "na" \/ run.k = "inapplicable"
  \/ (m.k = "raise" /\ run.k = "raise")
  \/ (c.dt = "c16" /\ run.k = "raise" /\ run.exc = "TypeError")   \* NumPy refuses complex data (percentile family)
  \/ /\ m.k = "ok" /\ run.k = "ok"
     /\ Len(run.outs) = Len(m.outs) + (IF IsOutT(c.t) THEN 1 ELSE 0)
     /\ \A j \in DOMAIN run.outs :
          IF j <= Len(m.outs) THEN TOutOK(m.outs[j], run.outs[j], c.real)
          ELSE run.outs[j].kind = "rawbuf" \/ TOutOK(m.outs[1], run.outs[j], c.real)
=============================================================================
