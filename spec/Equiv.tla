------------------------------- MODULE Equiv -------------------------------
(* C09 - the nine built-in equivalences of unyt/equivalencies.py.            *)
(*                                                                           *)
(* Values are symbolic: r * prod(gen_j ^ (e_j/4)) with r an exact rational   *)
(* and gen_j named constants (physical constants of the library, the numbers *)
(* 2 and 10, the numeric settings of the keywords mu and gamma, and the      *)
(* indeterminate x).  Every branch of every `_convert` is a monomial map in  *)
(* this free abelian group; the two Lorentz maps are evaluated exactly on    *)
(* Pythagorean rationals.  Floats never enter TLC: the harness binds the     *)
(* generators to the library's own constants and snaps observed floats to    *)
(* the symbolic values the specification computed.                           *)
(*                                                                           *)
(* Two layers:                                                               *)
(*   T  (implementation-shaped)  Prog: the branch tables of `_convert`, in   *)
(*      the code's branch order, as register programs (chains of ufunc calls *)
(*      with out=; operands X = the input object, R = the previous result,   *)
(*      K = a constant; in the in-place form X and R are one buffer);        *)
(*      Outcome: same-dimension shortcut, has_equivalent gate, membership    *)
(*      check of Equivalence.convert, program, final unit conversion.        *)
(*   P  (property side)  Phi: the defining physical formula of each          *)
(*      equivalence written once (every member dimension expressed through   *)
(*      one canonical member), FormulaVals, Covered/Uncovered.               *)
EXTENDS Rational, Sequences, FiniteSets, TLC, Json

\* ------------------------------------------------------------------ values
NG == 15
GenName == <<"c", "h", "kB", "G", "mH", "sigma", "two", "ten", "mu_a", "mu_b", "mu_c", "ga_a", "ga_b", "ga_c", "x">>
\* numeric generators (the physical ones, index 1..6, are bound by the harness to unyt.physical_constants)
GenNum == <<<<0,1>>, <<0,1>>, <<0,1>>, <<0,1>>, <<0,1>>, <<0,1>>, <<2,1>>, <<10,1>>, <<3,5>>, <<3,4>>, <<7,5>>, <<5,3>>, <<4,3>>, <<7,5>>, <<0,1>>>>
Q == 4                                 \* exponents are stored times 4 (1/2 and 1/4 are exact)
GI == 1..NG
ZE == [j \in GI |-> 0]
SV(r, e) == [r |-> r, e |-> e]
Num(r) == SV(r, ZE)
One == Num(ROne)
GenP(i, k) == SV(ROne, [j \in GI |-> IF j = i THEN k ELSE 0])
Gen(i) == GenP(i, Q)
SMul(a, b) == SV(RMul(a.r, b.r), [j \in GI |-> a.e[j] + b.e[j]])
SInv(a) == SV(RInv(a.r), [j \in GI |-> -a.e[j]])
SDiv(a, b) == SMul(a, SInv(b))
IsPure(a) == \A j \in GI : a.e[j] = 0
\* special values (round 7): exact zero and +infinity (the marker r = <<1, 0>>); the group operations above are never
\* applied to them - Apply (T) and FormulaVal (P) treat them first
Zero == Num(RZero)
Inf == SV(<<1, 0>>, ZE)
IsZ(a) == a.r[1] = 0 /\ a.r[2] # 0
IsI(a) == a.r[2] = 0
Special(a) == a.r[1] = 0 \/ a.r[2] = 0
Recip(a) == IF IsZ(a) THEN Inf ELSE Zero

\* integer square root by bisection (32-bit safe): least k with k*k >= n
RECURSIVE ISqrtB(_, _, _)
ISqrtB(n, lo, hi) == IF lo >= hi THEN lo
                     ELSE LET mid == (lo + hi) \div 2 IN
                          IF mid * mid >= n THEN ISqrtB(n, lo, mid) ELSE ISqrtB(n, mid + 1, hi)
ISqrt(n) == ISqrtB(n, 0, IF n < 46340 THEN n ELSE 46340)
IsSq(n) == n >= 0 /\ ISqrt(n) * ISqrt(n) = n
RIsSq(r) == r[1] > 0 /\ IsSq(r[1]) /\ IsSq(r[2])
RSq(r) == <<ISqrt(r[1]), ISqrt(r[2])>>
RIs4(r) == RIsSq(r) /\ RIsSq(RSq(r))
MaxND(r) == LET n == IF r[1] < 0 THEN -r[1] ELSE r[1] IN IF n > r[2] THEN n ELSE r[2]
Small(r) == MaxND(r) <= 40000
MulSafe(r, s) == (Small(r) /\ Small(s)) \/ r = ROne \/ s = ROne
\* r ^ (P/4)
RPowQOk(r, P) == /\ r[1] > 0
                 /\ CASE P % 4 = 0 -> LET n == IF P < 0 THEN -(P \div 4) ELSE P \div 4 IN
                                      n <= 1 \/ (n = 2 /\ Small(r)) \/ (n = 4 /\ MaxND(r) <= 180)
                      [] P % 4 = 2 -> RIsSq(r) /\ P \in {2, -2}
                      [] OTHER -> RIs4(r) /\ P \in {1, -1}
RPowQ(r, P) == CASE P % 4 = 0 -> RPow(r, P \div 4)
                 [] P % 4 = 2 -> RPow(RSq(r), P \div 2)
                 [] OTHER -> RPow(RSq(RSq(r)), P)
SPowOk(a, P) == RPowQOk(a.r, P) /\ \A j \in GI : (a.e[j] * P) % 4 = 0
SPow(a, P) == SV(RPowQ(a.r, P), [j \in GI |-> (a.e[j] * P) \div 4])

\* named constants
cC == Gen(1)
cH == Gen(2)
cKB == Gen(3)
cG == Gen(4)
cMH == Gen(5)
cSIG == Gen(6)
cTWO == Gen(7)
cTEN == Gen(8)
Xg == Gen(15)
\* keyword settings: 1 = defaults (mu = 0.6, gamma = 5/3 as documented), 2 = mu=3/4, 3 = gamma=4/3, 4 = mu=7/5 and gamma=7/5
KwAll == 1..4
MuIdx(k) == CASE k = 1 -> 9 [] k = 2 -> 10 [] k = 3 -> 9 [] k = 4 -> 11
GaIdx(k) == CASE k = 1 -> 12 [] k = 2 -> 12 [] k = 3 -> 13 [] k = 4 -> 14
cMu(k) == Gen(MuIdx(k))
cGa(k) == Gen(GaIdx(k))
KwPass(k) == CASE k = 1 -> <<>> [] k = 2 -> <<"mu">> [] k = 3 -> <<"gamma">> [] k = 4 -> <<"mu", "gamma">>
KwRec(k) == [pass |-> KwPass(k), mu |-> GenNum[MuIdx(k)], gamma |-> GenNum[GaIdx(k)]]

\* ------------------------------------------------------- equivalence tables
EqNames == <<"thermal", "spectral", "mass_energy", "lorentz", "schwarzschild", "compton", "number_density", "sound_speed", "effective_temperature">>
EqSet == {EqNames[i] : i \in DOMAIN EqNames}
\* member dimensions (`_dims` of each class)
EqDims(eq) ==
  CASE eq = "thermal" -> {"temperature", "energy"}
    [] eq = "spectral" -> {"length", "rate", "energy", "spatial_frequency"}
    [] eq = "mass_energy" -> {"mass", "energy"}
    [] eq = "lorentz" -> {"dimensionless", "velocity"}
    [] eq = "schwarzschild" -> {"mass", "length"}
    [] eq = "compton" -> {"mass", "length"}
    [] eq = "number_density" -> {"density", "number_density"}
    [] eq = "sound_speed" -> {"velocity", "temperature", "energy"}
    [] eq = "effective_temperature" -> {"flux", "temperature"}
KwOk(eq) == CASE eq = "number_density" -> {1, 2} [] eq = "sound_speed" -> {1, 2, 3, 4} [] OTHER -> {1}
MemberDims == UNION {EqDims(eq) : eq \in EqSet}
OutsideDims == {"time", "pressure"}
AllDims == MemberDims \cup OutsideDims

\* ------------------------------------------------- T: register programs
oX == [t |-> "X"]
oR == [t |-> "R"]
oK(v) == [t |-> "K", v |-> v]
Mul(a, b) == [f |-> "mul", a |-> a, b |-> b, n |-> 0]
Div(a, b) == [f |-> "div", a |-> a, b |-> b, n |-> 0]
Sub(a, b) == [f |-> "sub", a |-> a, b |-> b, n |-> 0]
Pow(a, n) == [f |-> "pow", a |-> a, b |-> a, n |-> n]     \* n = 4 x exponent; np.sqrt = Pow(., 2)
NoBranch == <<[f |-> "none", a |-> oX, b |-> oX, n |-> 0]>>   \* the if/elif chain falls through and returns None

\* transcription of the `_convert` methods, same branch order (xd = x.units.dimensions, nd = new_dims, k = keyword setting)
Prog(eq, xd, nd, k) ==
  CASE eq = "number_density" -> (
         IF nd = "number_density" THEN <<Div(oX, oK(SMul(cMu(k), cMH)))>>
         ELSE IF nd = "density" THEN <<Mul(oX, oK(SMul(cMu(k), cMH)))>>
         ELSE NoBranch)
    [] eq = "thermal" -> (
         IF nd = "energy" THEN <<Mul(oX, oK(cKB))>>
         ELSE IF nd = "temperature" THEN <<Div(oX, oK(cKB))>>
         ELSE NoBranch)
    [] eq = "mass_energy" -> (
         IF nd = "energy" THEN <<Mul(oX, oK(SMul(cC, cC)))>>
         ELSE IF nd = "mass" THEN <<Div(oX, oK(SMul(cC, cC)))>>
         ELSE NoBranch)
    [] eq = "spectral" -> (
         IF nd = "energy" THEN
           IF xd = "length" THEN <<Div(oK(SMul(cC, cH)), oX)>>
           ELSE IF xd = "rate" THEN <<Mul(oX, oK(cH))>>
           ELSE IF xd = "spatial_frequency" THEN <<Mul(oX, oK(SMul(cH, cC)))>>
           ELSE NoBranch
         ELSE IF nd = "length" THEN
           IF xd = "rate" THEN <<Div(oK(cC), oX)>>
           ELSE IF xd = "energy" THEN <<Div(oK(SMul(cH, cC)), oX)>>
           ELSE IF xd = "spatial_frequency" THEN <<Div(oK(One), oX)>>
           ELSE NoBranch
         ELSE IF nd = "rate" THEN
           IF xd = "length" THEN <<Div(oK(cC), oX)>>
           ELSE IF xd = "energy" THEN <<Div(oX, oK(cH))>>
           ELSE IF xd = "spatial_frequency" THEN <<Mul(oX, oK(cC))>>
           ELSE NoBranch
         ELSE IF nd = "spatial_frequency" THEN
           IF xd = "length" THEN <<Div(oK(One), oX)>>
           ELSE IF xd = "energy" THEN <<Div(oX, oK(SMul(cC, cH)))>>
           ELSE IF xd = "rate" THEN <<Div(oX, oK(cC))>>
           ELSE NoBranch
         ELSE NoBranch)
    [] eq = "sound_speed" -> (
         IF nd = "velocity" THEN
           IF xd = "temperature" THEN <<Mul(oK(SDiv(SMul(cKB, cGa(k)), SMul(cMu(k), cMH))), oX), Pow(oR, 2)>>
           ELSE IF xd = "energy" THEN <<Mul(oK(SDiv(cGa(k), SMul(cMu(k), cMH))), oX), Pow(oR, 2)>>
           ELSE NoBranch            \* v2 unbound: UnboundLocalError in the code
         ELSE IF nd = "temperature" THEN
           IF xd = "velocity" THEN <<Mul(oX, oX), Mul(oR, oK(SDiv(SMul(cMu(k), cMH), cGa(k)))), Div(oR, oK(cKB))>>
           ELSE <<Div(oX, oK(cKB))>>
         ELSE
           IF xd = "velocity" THEN <<Mul(oX, oX), Mul(oK(SDiv(SMul(cMu(k), cMH), cGa(k))), oR)>>
           ELSE <<Mul(oX, oK(cKB))>>)
    [] eq = "lorentz" -> (
         IF nd = "dimensionless" THEN <<Div(oX, oK(cC)), Mul(oR, oR), Sub(oK(One), oR), Pow(oR, 2), Div(oK(One), oR)>>
         ELSE IF nd = "velocity" THEN <<Mul(oX, oX), Div(oK(One), oR), Sub(oK(One), oR), Pow(oR, 2), Mul(oK(cC), oR)>>
         ELSE NoBranch)
    [] eq = "schwarzschild" -> (
         IF nd = "length" THEN <<Mul(oK(SDiv(SMul(cTWO, cG), SMul(cC, cC))), oX)>>
         ELSE IF nd = "mass" THEN <<Mul(oK(SDiv(SMul(cC, cC), SMul(cTWO, cG))), oX)>>
         ELSE NoBranch)
    [] eq = "compton" -> ( <<Div(oK(SDiv(cH, cC)), oX)>>)
    [] eq = "effective_temperature" -> (
         IF nd = "flux" THEN <<Pow(oX, 16), Mul(oK(cSIG), oR)>>
         ELSE IF nd = "temperature" THEN <<Div(oX, oK(cSIG)), Pow(oR, 1)>>
         ELSE NoBranch)

Opnd(o, xv, rv) == CASE o.t = "X" -> xv [] o.t = "R" -> rv [] o.t = "K" -> o.v
\* IEEE arithmetic of the ufuncs on 0 and +inf (all constants and grid values are positive): 0*inf, 0/0, inf/inf are nan
\* (no step is generated), subtraction is left to the finite values
ApplyOkS(op, a, b) ==
  CASE op.f = "mul" -> ~(IsZ(a) /\ IsI(b)) /\ ~(IsI(a) /\ IsZ(b))
    [] op.f = "div" -> ~(IsZ(a) /\ IsZ(b)) /\ ~(IsI(a) /\ IsI(b))
    [] op.f = "pow" -> op.n > 0
    [] OTHER -> FALSE
ApplyS(op, a, b) ==
  CASE op.f = "mul" -> IF IsZ(a) \/ IsZ(b) THEN Zero ELSE Inf
    [] op.f = "div" -> IF IsZ(a) \/ IsI(b) THEN Zero ELSE Inf
    [] OTHER -> a
ApplyOk(op, a, b) ==
  IF Special(a) \/ Special(b) THEN ApplyOkS(op, a, b) ELSE
  CASE op.f \in {"mul", "div"} -> MulSafe(a.r, b.r) /\ (op.f = "div" => b.r[1] # 0)
    [] op.f = "sub" -> a.e = b.e /\ Small(a.r) /\ Small(b.r)
    [] op.f = "pow" -> SPowOk(a, op.n)
    [] OTHER -> FALSE
Apply(op, a, b) ==
  IF Special(a) \/ Special(b) THEN ApplyS(op, a, b) ELSE
  CASE op.f = "mul" -> SMul(a, b)
    [] op.f = "div" -> SDiv(a, b)
    [] op.f = "sub" -> SV(RSub(a.r, b.r), a.e)
    [] op.f = "pow" -> SPow(a, op.n)
\* one buffer in the in-place form: every out= write is visible through X
RECURSIVE Run(_, _, _, _, _)
Run(prog, i, xv, rv, ip) ==
  IF i > Len(prog) THEN [ok |-> TRUE, v |-> rv, x |-> xv]
  ELSE LET op == prog[i]
           a == Opnd(op.a, xv, rv)
           b == Opnd(op.b, xv, rv) IN
       IF ~ApplyOk(op, a, b) THEN [ok |-> FALSE, v |-> rv, x |-> xv]
       ELSE LET val == Apply(op, a, b) IN Run(prog, i + 1, IF ip THEN val ELSE xv, val, ip)
RunProg(eq, xd, nd, k, x, ip) == Run(Prog(eq, xd, nd, k), 1, x, x, ip)

\* ------------------------------------------------- P: defining formulas
\* Each equivalence is ONE physical relation; every member dimension is expressed through one canonical member:
\*   thermal                E = kB T                         (canonical: energy)
\*   mass_energy            E = m c^2                        (energy)
\*   spectral               E = h nu = h c / lambda = h c nubar   (energy)
\*   number_density         rho = mu mH n                    (density)
\*   sound_speed            E = cs^2 mu mH / gamma = kB T    (energy)
\*   schwarzschild          R = 2 G M / c^2                  (length)
\*   compton                lambda = h / (m c)               (length)
\*   effective_temperature  F = sigma T^4                    (flux)
\*   lorentz                gamma = 1 / sqrt(1 - v^2/c^2)    (dimensionless; not a monomial, see below)
Phi(eq, d, k) ==
  CASE eq = "thermal" -> IF d = "temperature" THEN SMul(cKB, Xg) ELSE Xg
    [] eq = "mass_energy" -> IF d = "mass" THEN SMul(SMul(cC, cC), Xg) ELSE Xg
    [] eq = "spectral" -> (CASE d = "rate" -> SMul(cH, Xg)
                            [] d = "length" -> SDiv(SMul(cH, cC), Xg)
                            [] d = "spatial_frequency" -> SMul(SMul(cH, cC), Xg)
                            [] OTHER -> Xg)
    [] eq = "number_density" -> IF d = "number_density" THEN SMul(SMul(cMu(k), cMH), Xg) ELSE Xg
    [] eq = "sound_speed" -> (CASE d = "velocity" -> SMul(SDiv(SMul(cMu(k), cMH), cGa(k)), SMul(Xg, Xg))
                               [] d = "temperature" -> SMul(cKB, Xg)
                               [] OTHER -> Xg)
    [] eq = "schwarzschild" -> IF d = "mass" THEN SMul(SDiv(SMul(cTWO, cG), SMul(cC, cC)), Xg) ELSE Xg
    [] eq = "compton" -> IF d = "mass" THEN SDiv(SDiv(cH, cC), Xg) ELSE Xg
    [] eq = "effective_temperature" -> IF d = "temperature" THEN SMul(cSIG, SPow(Xg, 16)) ELSE Xg
    [] OTHER -> Xg
\* a monomial m = K x^p applied to a value; its inverse; composition
MExp(m) == m.e[15]
MCoef(m) == SV(m.r, [j \in GI |-> IF j = 15 THEN 0 ELSE m.e[j]])
MApplyOk(m, v) == SPowOk(v, MExp(m))
MApply(m, v) == SMul(MCoef(m), SPow(v, MExp(m)))
MInv(m) == SPow(SDiv(Xg, MCoef(m)), 16 \div MExp(m))       \* MExp in {4,-4,8,16}
MCompose(m2, m1) == MApply(m2, m1)
FormulaMono(eq, a, b, k) == MCompose(MInv(Phi(eq, b, k)), Phi(eq, a, k))
\* Lorentz, exactly, on rationals
LorentzGOk(v) == LET be == SDiv(v, cC) IN
                 /\ IsPure(be) /\ Small(be.r) /\ RLt(RZero, be.r) /\ RLt(be.r, ROne)
                 /\ RIsSq(RSub(ROne, RMul(be.r, be.r)))
LorentzG(v) == LET be == SDiv(v, cC).r IN Num(RInv(RSq(RSub(ROne, RMul(be, be)))))
LorentzVOk(g) == /\ IsPure(g) /\ Small(g.r) /\ RLt(ROne, g.r)
                 /\ RIsSq(RSub(ROne, RInv(RMul(g.r, g.r))))
LorentzV(g) == SMul(Num(RSq(RSub(ROne, RInv(RMul(g.r, g.r))))), cC)
\* a monomial K x^p (K > 0) at x = 0 / +inf: the same special value when p > 0, the other one when p < 0 (the formula's
\* limit: a photon of zero wavelength has infinite frequency and energy, a massless particle an infinite Compton length)
FormulaOk(eq, a, b, k, v) ==
  IF eq = "lorentz" THEN ~Special(v) /\ (IF a = "velocity" THEN LorentzGOk(v) ELSE LorentzVOk(v))
  ELSE IF Special(v) THEN TRUE
  ELSE MApplyOk(FormulaMono(eq, a, b, k), v)
FormulaVal(eq, a, b, k, v) ==
  IF eq = "lorentz" THEN (IF a = "velocity" THEN LorentzG(v) ELSE LorentzV(v))
  ELSE IF Special(v) THEN (IF MExp(FormulaMono(eq, a, b, k)) > 0 THEN v ELSE Recip(v))
  ELSE MApply(FormulaMono(eq, a, b, k), v)

Covered(eq, a, b) == a # b /\ a \in EqDims(eq) /\ b \in EqDims(eq)
Uncovered(eq, a, b) == a # b /\ ~(a \in EqDims(eq) /\ b \in EqDims(eq))

\* ---------------------------------------------------------------- units
\* spellings per dimension: n = rank inside the dimension, c = class (si: coherent SI, scale 1)
Units == <<
  [s |-> "m", d |-> "length", n |-> 1, c |-> "si"],
  [s |-> "angstrom", d |-> "length", n |-> 2, c |-> "other"],
  [s |-> "cm", d |-> "length", n |-> 3, c |-> "cgs"],
  [s |-> "km", d |-> "length", n |-> 4, c |-> "prefixed"],
  [s |-> "J/N", d |-> "length", n |-> 5, c |-> "si"],
  [s |-> "AU", d |-> "length", n |-> 6, c |-> "reval"],
  [s |-> "Hz", d |-> "rate", n |-> 1, c |-> "si"],
  [s |-> "MHz", d |-> "rate", n |-> 2, c |-> "prefixed"],
  [s |-> "1/s", d |-> "rate", n |-> 3, c |-> "si"],
  [s |-> "1/min", d |-> "rate", n |-> 4, c |-> "compound"],
  [s |-> "J", d |-> "energy", n |-> 1, c |-> "si"],
  [s |-> "keV", d |-> "energy", n |-> 2, c |-> "reval"],
  [s |-> "erg", d |-> "energy", n |-> 3, c |-> "cgs"],
  [s |-> "kg*m**2/s**2", d |-> "energy", n |-> 4, c |-> "si"],
  [s |-> "g*cm**2/s**2", d |-> "energy", n |-> 5, c |-> "cgs"],
  [s |-> "kW*hr", d |-> "energy", n |-> 6, c |-> "compound"],
  [s |-> "1/m", d |-> "spatial_frequency", n |-> 1, c |-> "si"],
  [s |-> "1/cm", d |-> "spatial_frequency", n |-> 2, c |-> "cgs"],
  [s |-> "1/angstrom", d |-> "spatial_frequency", n |-> 3, c |-> "other"],
  [s |-> "km**-1", d |-> "spatial_frequency", n |-> 4, c |-> "prefixed"],
  [s |-> "kg", d |-> "mass", n |-> 1, c |-> "si"],
  [s |-> "g", d |-> "mass", n |-> 2, c |-> "cgs"],
  [s |-> "Msun", d |-> "mass", n |-> 3, c |-> "reval"],
  [s |-> "me", d |-> "mass", n |-> 4, c |-> "reval"],
  [s |-> "lb", d |-> "mass", n |-> 5, c |-> "other"],
  [s |-> "J*s**2/m**2", d |-> "mass", n |-> 6, c |-> "si"],
  [s |-> "K", d |-> "temperature", n |-> 1, c |-> "si"],
  [s |-> "mK", d |-> "temperature", n |-> 2, c |-> "prefixed"],
  [s |-> "R", d |-> "temperature", n |-> 3, c |-> "other"],
  [s |-> "MK", d |-> "temperature", n |-> 4, c |-> "prefixed"],
  \* temperature scales with an offset (class "offset": a reading y means (y + off) * scale kelvin, see Offsets)
  [s |-> "degC", d |-> "temperature", n |-> 5, c |-> "offset"],
  [s |-> "degF", d |-> "temperature", n |-> 6, c |-> "offset"],
  [s |-> "m/s", d |-> "velocity", n |-> 1, c |-> "si"],
  [s |-> "km/s", d |-> "velocity", n |-> 2, c |-> "prefixed"],
  [s |-> "cm/s", d |-> "velocity", n |-> 3, c |-> "cgs"],
  [s |-> "c", d |-> "velocity", n |-> 4, c |-> "other"],
  [s |-> "mile/hr", d |-> "velocity", n |-> 5, c |-> "compound"],
  [s |-> "dimensionless", d |-> "dimensionless", n |-> 1, c |-> "si"],
  [s |-> "", d |-> "dimensionless", n |-> 2, c |-> "si"],
  [s |-> "percent", d |-> "dimensionless", n |-> 3, c |-> "other"],
  [s |-> "kg/m**3", d |-> "density", n |-> 1, c |-> "si"],
  [s |-> "g/cm**3", d |-> "density", n |-> 2, c |-> "cgs"],
  [s |-> "Msun/pc**3", d |-> "density", n |-> 3, c |-> "reval"],
  [s |-> "mg/L", d |-> "density", n |-> 4, c |-> "prefixed"],
  [s |-> "m**-3", d |-> "number_density", n |-> 1, c |-> "si"],
  [s |-> "cm**-3", d |-> "number_density", n |-> 2, c |-> "cgs"],
  [s |-> "1/pc**3", d |-> "number_density", n |-> 3, c |-> "reval"],
  [s |-> "1/L", d |-> "number_density", n |-> 4, c |-> "other"],
  [s |-> "W/m**2", d |-> "flux", n |-> 1, c |-> "si"],
  [s |-> "erg/s/cm**2", d |-> "flux", n |-> 2, c |-> "cgs"],
  [s |-> "kg/s**3", d |-> "flux", n |-> 3, c |-> "si"],
  [s |-> "mW/cm**2", d |-> "flux", n |-> 4, c |-> "prefixed"],
  [s |-> "s", d |-> "time", n |-> 1, c |-> "si"],
  [s |-> "hr", d |-> "time", n |-> 2, c |-> "other"],
  [s |-> "Pa", d |-> "pressure", n |-> 1, c |-> "si"],
  [s |-> "dyne/cm**2", d |-> "pressure", n |-> 2, c |-> "cgs"],
  \* code units: symbols that exist only in the custom registry of the input
  [s |-> "code_length", d |-> "length", n |-> 7, c |-> "code"],
  [s |-> "1/code_time", d |-> "rate", n |-> 7, c |-> "code"],
  [s |-> "code_mass*code_length**2/code_time**2", d |-> "energy", n |-> 7, c |-> "code"],
  [s |-> "1/code_length", d |-> "spatial_frequency", n |-> 7, c |-> "code"],
  [s |-> "code_mass", d |-> "mass", n |-> 7, c |-> "code"],
  [s |-> "code_temperature", d |-> "temperature", n |-> 7, c |-> "code"],
  [s |-> "code_length/code_time", d |-> "velocity", n |-> 7, c |-> "code"],
  [s |-> "code_mass/code_length**3", d |-> "density", n |-> 7, c |-> "code"],
  [s |-> "code_length**-3", d |-> "number_density", n |-> 7, c |-> "code"],
  [s |-> "code_mass/code_time**3", d |-> "flux", n |-> 7, c |-> "code"]
>>
\* registry of the input: the default registry, or a custom one in which the standard symbols Msun, AU, eV, me, pc have
\* other values (class "reval": spellings containing them) and which defines code units (class "code").  A string target
\* is read in the input's registry.  Forms of a target: a string, a Unit object of the input's registry, a Unit object of
\* the default registry.
\* offset scales: a reading y in the unit means the absolute temperature (y + off) * scale (scale: the unit's size in
\* kelvin); both offsets are exact by definition (0 degC = 273.15 K, 0 degF = 459.67 R).  The symbolic values of the
\* specification are always absolute (SI); the offset only enters where a number is written in / read from the unit.
Offsets == <<[s |-> "degC", off |-> <<27315, 100>>], [s |-> "degF", off |-> <<45967, 100>>]>>
IsOffset(i) == Units[i].c = "offset"
Regs == {"default", "custom"}
TForms == {"str", "uin", "udef"}
UnitInReg(i, reg) == IF reg = "default" THEN Units[i].c # "code" ELSE TRUE
UI == DOMAIN Units
UnitsOfDim(d) == {i \in UI : Units[i].d = d}

\* ---------------------------------------------------------------- value grid
\* pairs of values (SI): a quantity holds the first, an array both.  r are fourth powers, decades are
\* multiples of 10^8, so that every root the formulas take stays exact.
T10(k) == GenP(8, Q * k)
GenericPairs == <<
  <<One, SMul(Num(<<16, 1>>), T10(8))>>,
  <<SMul(Num(<<1, 16>>), T10(-8)), Num(<<81, 16>>)>>,
  <<SMul(Num(<<81, 1>>), T10(8)), Num(<<16, 1>>)>>,
  <<SMul(Num(<<16, 1>>), T10(-8)), SMul(Num(<<1, 16>>), T10(8))>>,
  <<Num(<<16, 1>>), Num(<<81, 1>>)>>            \* moderate integers: exact in every dtype from int8/float16 up
>>
BetaPairs == <<
  <<SMul(Num(<<3, 5>>), cC), SMul(Num(<<12, 13>>), cC)>>,
  <<SMul(Num(<<8, 17>>), cC), SMul(Num(<<4, 5>>), cC)>>
>>
GammaPairs == <<
  <<Num(<<5, 4>>), Num(<<13, 5>>)>>,
  <<Num(<<17, 15>>), Num(<<5, 3>>)>>,
  <<Num(<<25, 7>>), Num(<<29, 21>>)>>
>>
\* the value class "exact zero" (round 7): a quantity holds 0, an array 0 next to an ordinary number; +inf enters objects
\* as the result of a step (0 -> inf -> 0 there and back).  Always the LAST pair of a dimension.
SpecialPairs == <<
  <<Zero, SMul(Num(<<16, 1>>), T10(8))>>
>>
ValPairs(d) == CASE d = "velocity" -> GenericPairs \o BetaPairs \o SpecialPairs
                 [] d = "dimensionless" -> GammaPairs
                 [] OTHER -> GenericPairs \o SpecialPairs
IsSpecPair(d, pi) == d # "dimensionless" /\ pi = Len(ValPairs(d))
IntOk(v) == RIsInt(v.r) /\ \A j \in GI : IF j = 8 THEN v.e[j] >= 0 ELSE v.e[j] = 0

\* ---------------------------------------------------------------- objects, requests, outcomes
CopyEntries == {"to", "in_units", "to_equivalent", "to_value"}
InPlaceEntries == {"convert_to_units", "convert_to_equivalent"}
AllEntries == CopyEntries \cup InPlaceEntries
\* shapes: q = unyt_quantity, a = 1-d unyt_array, v1 = contiguous slice of a larger array, v2 = strided slice
Shapes == {"q", "a", "v1", "v2"}
NElem(sh) == IF sh = "q" THEN 1 ELSE 2
MkObj(d, u, pair, dt, sh) == [d |-> d, u |-> u, v |-> IF sh = "q" THEN <<pair[1]>> ELSE pair, dt |-> dt, sh |-> sh, reg |-> "default"]

\* dtypes: numpy kind + item size (c8 = complex64, c16 = complex128)
AllDts == {"i1", "u1", "i2", "u2", "i4", "u4", "i8", "u8", "f2", "f4", "f8", "c8", "c16"}
IntDts == {"i1", "u1", "i2", "u2", "i4", "u4", "i8", "u8"}
IsCx(dt) == dt \in {"c8", "c16"}
\* bytes of one real component
Bytes(dt) == CASE dt \in {"i1", "u1"} -> 1 [] dt \in {"i2", "u2", "f2"} -> 2 [] dt \in {"i4", "u4", "f4", "c8"} -> 4 [] OTHER -> 8
FloatOf(b, cx) == IF cx THEN (IF b <= 4 THEN "c8" ELSE "c16") ELSE (IF b <= 2 THEN "f2" ELSE IF b = 4 THEN "f4" ELSE "f8")
\* the three dtype rules as coded: the copying equivalence route evaluates in double precision; the plain copying
\* conversion returns the float of the same size (at least 2 bytes); the in-place routes keep the item size (1-byte
\* integers cannot be converted in place); to_value of a quantity is a Python float/complex
ResDt(dt, ip, path, en, sh) ==
  IF en = "to_value" /\ sh = "q" THEN FloatOf(8, IsCx(dt))
  ELSE IF ip THEN FloatOf(Bytes(dt), IsCx(dt))
  ELSE IF path = "same" THEN FloatOf(IF Bytes(dt) < 2 THEN 2 ELSE Bytes(dt), IsCx(dt))
  ELSE FloatOf(8, IsCx(dt))
ResCls(en, sh, dt) == IF en = "to_value" THEN (IF sh = "q" THEN (IF IsCx(dt) THEN "complex" ELSE "float") ELSE "ndarray")
                      ELSE IF sh = "q" THEN "unyt_quantity" ELSE "unyt_array"
Raise(exc) == [k |-> "raise", exc |-> exc, path |-> "", v |-> <<>>, u |-> 0, cls |-> "", dt |-> ""]

\* to_equivalent / convert_to_equivalent (array.py) + Equivalence.convert (equivalencies.py)
Outcome(o, q) ==
  LET ta == o.d
      tb == Units[q.tu].d
      ip == q.en \in InPlaceEntries IN
  IF ta = tb THEN            \* same-dimension shortcut: plain unit conversion, the equivalence is not consulted
    IF ip /\ Bytes(o.dt) = 1 THEN Raise("ValueError")      \* "Can't convert memory buffer in place"
    ELSE [k |-> "ok", exc |-> "", path |-> "same", v |-> o.v, u |-> q.tu, cls |-> ResCls(q.en, o.sh, o.dt), dt |-> ResDt(o.dt, ip, "same", q.en, o.sh)]
  ELSE IF ta \notin EqDims(q.eq) THEN Raise("InvalidUnitEquivalence")       \* has_equivalent gate
  ELSE IF tb \notin EqDims(q.eq) THEN Raise("InvalidUnitEquivalence")       \* Equivalence.convert membership check
  ELSE IF ip /\ Bytes(o.dt) = 1 THEN Raise("TypeError")    \* no 1-byte float to retype the buffer to
  ELSE IF IsOffset(o.u) THEN Raise("InvalidUnitOperation")  \* every chain starts with mul/div/pow of the input: refused for a reading on an offset scale
  ELSE LET rs == [i \in DOMAIN o.v |-> RunProg(q.eq, ta, tb, q.k, o.v[i], ip)] IN
       IF \A i \in DOMAIN o.v : rs[i].ok
       THEN [k |-> "ok", exc |-> "", path |-> "equiv", v |-> [i \in DOMAIN o.v |-> rs[i].v], u |-> q.tu,
             cls |-> ResCls(q.en, o.sh, o.dt), dt |-> ResDt(o.dt, ip, "equiv", q.en, o.sh)]
       ELSE [k |-> "undef", exc |-> "", path |-> "", v |-> <<>>, u |-> 0, cls |-> "", dt |-> ""]

\* the object a later step sees
After(o, q, out) ==
  IF out.k # "ok" \/ ~q.fo THEN o
  ELSE [d |-> Units[q.tu].d, u |-> q.tu, v |-> out.v, dt |-> out.dt, reg |-> o.reg,     \* the result stays in the input's registry
        sh |-> IF q.en \in InPlaceEntries THEN o.sh ELSE IF o.sh = "q" THEN "q" ELSE "a"]

\* property side: the values the defining formula gives for a covered request (<<>> when not exactly representable)
FormulaVals(eq, a, b, k, vs) ==
  IF \A i \in DOMAIN vs : FormulaOk(eq, a, b, k, vs[i]) THEN [i \in DOMAIN vs |-> FormulaVal(eq, a, b, k, vs[i])] ELSE <<>>

\* ---------------------------------------------------------------- model-level laws (checked by MC_C09_laws)
MonoEqs == EqSet \ {"lorentz"}
BranchRun(eq, a, b, k, ip) == RunProg(eq, a, b, k, Xg, ip)
BranchMono(eq, a, b, k) == BranchRun(eq, a, b, k, FALSE).v
LawTotal(eq, a, b, k) == Covered(eq, a, b) => Prog(eq, a, b, k) # NoBranch
LawFormula(eq, a, b, k) == (Covered(eq, a, b) /\ eq \in MonoEqs) =>
                              BranchRun(eq, a, b, k, FALSE).ok /\ BranchMono(eq, a, b, k) = FormulaMono(eq, a, b, k)
LawInv(eq, a, b, k) == (Covered(eq, a, b) /\ eq \in MonoEqs) =>
                          MCompose(BranchMono(eq, b, a, k), BranchMono(eq, a, b, k)) = Xg
LawPath(eq, a, b, c, k) == (Covered(eq, a, b) /\ Covered(eq, b, c) /\ Covered(eq, a, c) /\ eq \in MonoEqs) =>
                              MCompose(BranchMono(eq, b, c, k), BranchMono(eq, a, b, k)) = BranchMono(eq, a, c, k)
LawTwin(eq, a, b, k) == (Covered(eq, a, b) /\ eq \in MonoEqs) =>
                           LET c == BranchRun(eq, a, b, k, FALSE)
                               i == BranchRun(eq, a, b, k, TRUE) IN
                           c.ok /\ i.ok /\ c.v = i.v /\ i.x = i.v /\ c.x = Xg
\* the same laws for a concrete value (used for Lorentz and as a cross-check of the monomial algebra)
LawValue(eq, a, b, k, v) ==
  (Covered(eq, a, b) /\ FormulaOk(eq, a, b, k, v)) =>
     LET c == RunProg(eq, a, b, k, v, FALSE)
         i == RunProg(eq, a, b, k, v, TRUE)
         w == FormulaVal(eq, a, b, k, v) IN
     /\ c.ok /\ i.ok /\ c.v = w /\ i.v = w /\ c.x = v /\ i.x = w
     /\ FormulaOk(eq, b, a, k, w) /\ FormulaVal(eq, b, a, k, w) = v
     /\ LET back == RunProg(eq, b, a, k, w, FALSE) IN back.ok /\ back.v = v
LawGate(eq, a, b) == Uncovered(eq, a, b) =>
                       \A u \in UnitsOfDim(b) :
                         Outcome(MkObj(a, 1, <<One, One>>, "f8", "a"), [en |-> "to", eq |-> eq, k |-> 1, tu |-> u, fo |-> FALSE]).k = "raise"
=============================================================================
