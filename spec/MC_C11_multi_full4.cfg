CONSTANTS
  MaxSteps = 4
  Pairs <- QuickPairs
  ClsSet <- ArrayOnly
  HowSet <- QuickHow
INIT MInit
NEXT MNext
INVARIANT ExportM
CHECK_DEADLOCK FALSE
