"""Replay of Frame.tla histories on real unyt objects (C18).

observe(case) -> {"steps": [...], "trunc": reason or ""}
  case = {"cfg": {dtA,uA,dtB,uB,uQ,dtC}, "h": [call, ...]}   (exported by MC_C18)
Every step records, for EVERY live object of the graph (A, its view V, B, Q, the out buffer C, the
result R of the last copying call, the Unit objects U1/U2), its projection before and after the call:
class, dtype, unit (dimension exponents, scale, offset, spelling) and numbers (exact rationals; floats
that are not small rationals are interned per step as tokens [k, 0]).  For in-place calls the
corresponding copying call is run on copies of the operands first ("tw").  No verdict is taken here."""

import math
import operator
from fractions import Fraction

_U = {}
LIM = 2**31 - 1


def setup(common=None):
    import numpy as np
    import unyt
    from unyt import dimensions
    from unyt.unit_object import Unit
    from unyt.unit_registry import UnitRegistry

    _U.update(np=np, unyt=unyt, dims=dimensions, Unit=Unit, UnitRegistry=UnitRegistry, ua=unyt.unyt_array, uq=unyt.unyt_quantity)
    d = dimensions
    _U["basedims"] = [d.length, d.time, d.temperature, d.mass, d.current_mks]


UNAME = {"la": "la", "lb": "lb", "ta": "ta", "K": "K", "oc": "oc", "tl": "T*la", "na": "dimensionless", "lr": "lb/la", "dC": "degC", "dF": "degF", "Rk": "R", "km": "km", "mi": "mile", "J": "J", "Hz": "Hz", "bad": "nosuchunit"}
DT = {"f8": "float64", "f4": "float32", "f2": "float16", "i8": "int64", "i4": "int32", "i2": "int16", "i1": "int8", "u8": "uint64", "u4": "uint32", "u2": "uint16", "u1": "uint8"}


class Tokens:
    """floats that are not 32-bit safe rationals -> [k, 0]; equal (within 4 ulp) floats share k"""

    def __init__(self, rtol=1e-15):
        self.vals = []
        self.rtol = rtol  # 0: floats share a token only when they are the same number (plain unit conversions)

    def num(self, x):
        if isinstance(x, (bool, int)) or (hasattr(x, "dtype") and x.dtype.kind in "biu"):
            v = int(x)
            if abs(v) <= LIM:
                return [v, 1]
            x = float(v)
        if isinstance(x, complex) or (hasattr(x, "dtype") and x.dtype.kind == "c"):
            x = complex(x)
            if x.imag == 0:
                x = x.real
            else:
                return self.tok(("c", x.real, x.imag))
        x = float(x)
        if math.isnan(x) or math.isinf(x):
            return self.tok(("s", repr(x)))
        f = Fraction(x)
        if abs(f.numerator) <= LIM and f.denominator <= LIM:
            return [f.numerator, f.denominator]
        return self.tok(x)

    def tok(self, x):
        for k, v in enumerate(self.vals):
            if type(v) is type(x):
                if isinstance(x, float):
                    if x == v or abs(x - v) <= self.rtol * abs(v):
                        return [k + 1, 0]
                elif v == x:
                    return [k + 1, 0]
        self.vals.append(x)
        return [len(self.vals), 0]


_ucache = {}


def _dimvec(dim):
    import sympy

    if dim == 1:
        return [0, 0, 0, 0, 0]
    pd = sympy.sympify(dim).as_powers_dict()
    out = [0, 0, 0, 0, 0]
    for b, e in pd.items():
        hit = False
        for j, bd in enumerate(_U["basedims"]):
            if b == bd:
                out[j] = int(e) if sympy.Rational(e).q == 1 else 77
                hit = True
        if not hit and not getattr(b, "is_Number", False):
            out[4] += 99  # a base dimension outside the modelled five
    return out


def proj_unit(u, tk):
    key = (id(u.expr), id(u.dimensions))
    hit = _ucache.get(key)
    if hit is None or hit[0] is not u.expr or hit[1] is not u.dimensions:
        hit = (u.expr, u.dimensions, str(u.expr), _dimvec(u.dimensions))
        if len(_ucache) > 5000:
            _ucache.clear()
        _ucache[key] = hit
    return {"dim": hit[3], "sc": tk.num(u.base_value), "off": tk.num(u.base_offset), "s": hit[2]}


NOU = {"dim": [0, 0, 0, 0, 0], "sc": [1, 1], "off": [0, 1], "s": "-"}
DEAD = {"k": "-", "dt": "", "u": NOU, "n": []}


def proj(o, tk):
    np = _U["np"]
    if o is None:
        return DEAD
    if isinstance(o, _U["Unit"]):
        return {"k": "U", "dt": "", "u": proj_unit(o, tk), "n": []}
    if isinstance(o, _U["ua"]):
        a = np.asarray(o)
        dt = a.dtype.str.lstrip("<>|=")
        return {"k": "Q" if a.ndim == 0 else "A", "dt": dt, "u": proj_unit(o.units, tk), "n": [tk.num(v) for v in a.ravel()]}
    return DEAD


def nums_of(o, tk):
    np = _U["np"]
    if o is None:
        return []
    return [tk.num(v) for v in np.asarray(o).ravel()]


def build(cfg):
    np = _U["np"]
    d = _U["dims"]
    reg = _U["UnitRegistry"]()
    reg.add("la", 1.0, d.length)
    reg.add("lb", 8.0, d.length)
    reg.add("ta", 1.0, d.time)
    reg.add("oc", 1.0, d.temperature, offset=-4.0)
    # the registry id (a digest of the table, used to hash Units) costs 4 ms to compute and is reset by add():
    # identical tables have identical ids, so it is computed once per worker
    if "regid" not in _U:
        _U["regid"] = reg.unit_system_id
    elif hasattr(reg, "_unit_system_id"):
        reg._unit_system_id = _U["regid"]
    ua, uq, Unit = _U["ua"], _U["uq"], _U["Unit"]
    # the initial numbers are the model's (MC_C18!InitNums, exported with every history)
    iv = cfg.get("iv") or {"A": [1, 2, 4, 8], "B": [2, 4], "Q": [2], "C": [16, 32]}
    A = ua(np.array(iv["A"], dtype=DT[cfg["dtA"]]), UNAME[cfg["uA"]], registry=reg)
    V = A[1:3]
    B = ua(np.array(iv["B"], dtype=DT[cfg["dtB"]]), UNAME[cfg["uB"]], registry=reg)
    Q = uq(float(iv["Q"][0]), UNAME[cfg["uQ"]], registry=reg)
    C = ua(np.array(iv["C"], dtype=DT[cfg["dtC"]]), "ta", registry=reg)
    U1 = Unit("lb", registry=reg)
    U2 = Unit("la", registry=reg) ** 2 / U1
    return {"A": A, "V": V, "B": B, "Q": Q, "C": C, "R": None, "U1": U1, "U2": U2}


SLOTS = ["A", "V", "B", "Q", "C", "R", "U1", "U2"]
BIN = {"add": operator.add, "sub": operator.sub, "mul": operator.mul, "div": operator.truediv, "pow": operator.pow, "lt": operator.lt, "eq": operator.eq}
IBIN = {"add": operator.iadd, "sub": operator.isub, "mul": operator.imul, "div": operator.itruediv, "pow": operator.ipow}
UF = {"add": "add", "sub": "subtract", "mul": "multiply", "div": "true_divide", "pow": "power", "lt": "less", "eq": "equal", "negative": "negative", "square": "square"}
BASE = {"in_base": None, "in_mks": "mks", "in_cgs": "cgs", "convert_to_base": None, "convert_to_mks": "mks", "convert_to_cgs": "cgs"}


PLAINCONV = ("convert_to_units", "convert_to_base", "convert_to_cgs", "convert_to_mks")


class Missing(Exception):
    pass


def operand(O, name):
    if name == "two":
        return 2
    o = O.get(name)
    if o is None:
        raise Missing(name)
    return o


def do_call(c, O):
    """perform call c on the object graph O; returns the result (None for in-place calls)"""
    np = _U["np"]
    op = c["op"]
    x = operand(O, c["x"])
    y = operand(O, c["y"]) if c["y"] else None
    o = operand(O, c["o"]) if c["o"] else None
    if op in ("in_units", "to", "to_value"):
        return getattr(x, op)(UNAME[c["u"]])
    if op == "convert_to_units":
        return x.convert_to_units(UNAME[c["u"]])
    if op in ("in_base", "in_mks", "in_cgs"):
        return x.in_base() if op == "in_base" else getattr(x, op)()
    if op in ("convert_to_base", "convert_to_mks", "convert_to_cgs"):
        return x.convert_to_base() if op == "convert_to_base" else getattr(x, op)()
    if op == "to_equivalent":
        return x.to_equivalent(UNAME[c["u"]], c["e"])
    if op == "convert_to_equivalent":
        return x.convert_to_equivalent(UNAME[c["u"]], c["e"])
    if op == "binop":
        return BIN[c["f"]](x, y)
    if op == "iop":
        r = IBIN[c["f"]](x, y)
        # `x op= y` rebinds the name: unyt returns a new wrapper around the same memory
        if r is not x:
            if not (isinstance(r, _U["ua"]) and np.shares_memory(r, x)):
                raise AssertionError("augmented assignment returned an unrelated object")
        return None
    if op == "ufunc":
        return getattr(np, UF[c["f"]])(x, y)
    if op == "ufunc_out":
        getattr(np, UF[c["f"]])(x, y, out=o)
        return None
    if op == "unary":
        return getattr(np, UF[c["f"]])(x)
    if op == "unary_out":
        getattr(np, UF[c["f"]])(x, out=o)
        return None
    if op == "copy":
        return x.copy()
    if op == "setitem0":
        x[0] = y
        return None
    if op == "setitemall":
        x[:] = y
        return None
    if op == "copyto":
        np.copyto(x, y)
        return None
    if op == "put":
        np.put(x, [0], y)
        return None
    if op == "putmask":
        np.putmask(x, [True] + [False] * (x.size - 1), y)
        return None
    if op == "fill_diagonal":
        np.fill_diagonal(x.reshape(2, 2), y)
        return None
    if op == "concatenate":
        return np.concatenate([x, y])
    if op == "dot":
        return np.dot(x, y)
    if op == "clip":
        return np.clip(x, y, y)
    if op == "umul":
        return x * y
    if op == "udiv":
        return x / y
    if op == "upow":
        return x**y
    if op == "ubase":
        return x.get_base_equivalent()
    if op == "ucoeff":
        return x.as_coeff_unit()[1]
    if op == "ucopy":
        return x.copy()
    if op == "usimplify":
        return x.simplify()
    if op == "units_simplify":
        return x.units.simplify()
    if op in ("gufunc", "gunary", "garrfn", "gmethod", "gorder"):
        scribble(generic_call(c, x, y))
        return None
    if op == "aunit":
        f = c["f"]
        return x * y if f == "mul" else y * x if f == "rmul" else x / y if f == "div" else y / x
    if op == "gin":
        gin_call(c, x, y, o, out_given=True)
        return None
    raise ValueError("unknown op " + op)


GOPER = {
    "add": operator.add, "subtract": operator.sub, "multiply": operator.mul, "true_divide": operator.truediv,
    "floor_divide": operator.floordiv, "remainder": operator.mod, "divmod": divmod, "power": operator.pow,
    "less": operator.lt, "less_equal": operator.le, "greater": operator.gt, "greater_equal": operator.ge,
    "equal": operator.eq, "not_equal": operator.ne,
}


def scribble(res):
    """overwrite every element of the object(s) a generic copying call returned: a result documented to be new shares
    no memory with an input, so no live object may change"""
    np = _U["np"]
    for r in res if isinstance(res, (tuple, list)) else (res,):
        if isinstance(r, (tuple, list)):
            scribble(r)
            continue
        if isinstance(r, np.ndarray) and r.size and r.dtype.kind in "biufc":
            try:
                b = np.asarray(r)
                if b.flags.writeable:
                    b[...] = 77
            except Exception:  # noqa: BLE001 - a result that cannot be written cannot leak writes either
                pass


def generic_call(c, x, y):
    """generic copying families of Frame.tla (frame-only): perform the call and return its result"""
    np = _U["np"]
    res = []
    op, f = c["op"], c["f"]
    if op == "gufunc":
        form = c["e"]
        uf = getattr(np, f)
        if form == "call":
            res.append(uf(x, y))
        elif form == "op":
            res.append(GOPER[f](x, y))
        elif form == "outer":
            res.append(uf.outer(x, y))
        elif form == "reduce":
            res.append(uf.reduce(x))
        elif form == "accumulate":
            res.append(uf.accumulate(x))
        else:
            raise ValueError(form)
    elif op == "gunary":
        res.append(getattr(np, f)(x))
    elif op == "gorder":
        # functions that sort / partition / select by rank: plain calls, no out=, no overwrite_input
        if f in ("sort", "argsort", "median", "nanmedian", "unique", "nanmax", "nansum"):
            res.append(getattr(np, f)(x))
        elif f in ("partition", "argpartition"):
            res.append(getattr(np, f)(x, 1))
        elif f in ("percentile", "nanpercentile"):
            res.append(getattr(np, f)(x, 40))
        elif f in ("quantile", "nanquantile"):
            res.append(getattr(np, f)(x, 0.4))
        elif f == "m_argsort":
            res.append(x.argsort())
        else:
            raise ValueError(f)
    elif op == "gmethod":
        if f in ("sum", "mean", "std", "var", "min", "max", "prod", "cumsum", "cumprod", "argsort", "tolist", "flatten", "to_ndarray"):
            res.append(getattr(x, f)())
        elif f == "round":
            res.append(np.round(x, 1))
        elif f in ("sort", "ptp", "diff", "median"):
            res.append(getattr(np, f)(x))
        elif f == "astype":
            res.append(x.astype("float32"))
        elif f == "unit_array":
            res.append(x.unit_array)
            res.append(x.unit_quantity)
        elif f == "str":
            res.append(str(x))
            res.append(repr(x))
        else:
            raise ValueError(f)
    else:
        if f in ("concatenate", "stack", "vstack", "hstack"):
            res.append(getattr(np, f)([x, y]))
        elif f == "where":
            res.append(np.where(np.asarray(x) > 2, x, y))
        elif f == "select":
            res.append(np.select([np.asarray(x) > 2], [x], default=y))
        elif f == "clip":
            res.append(np.clip(x, y, y))
        elif f in ("isclose", "allclose", "array_equal", "array_equiv", "intersect1d", "union1d", "setdiff1d", "isin", "searchsorted", "append", "dot", "inner", "outer", "kron"):
            res.append(getattr(np, f)(x, y))
        elif f == "insert":
            res.append(np.insert(x, 0, y))
        elif f == "interp":
            res.append(np.interp(y, x, x))
        elif f == "allclose_units":
            res.append(_U["unyt"].array.allclose_units(x, y))
        elif f == "linspace":
            res.append(np.linspace(x, y, 3))
        elif f == "copyto_new":
            res.append(np.copy(x))
            res.append(np.array(x))
        else:
            raise ValueError(f)
    return res


def gin_call(c, x, y, o, out_given):
    """generic in-place family of Frame.tla; out_given=False performs the same call without out= and returns the result
    (the corresponding copying call, used as twin for the plain variant)"""
    np = _U["np"]
    f, e = c["f"], c["e"]
    tgt = o if o is not None else x
    ro = e == "ro" and out_given
    if ro:
        tgt.flags.writeable = False
    try:
        return _gin(np, f, e, x, y, o if out_given else None, tgt)
    finally:
        if ro:
            tgt.flags.writeable = True


def _gin(np, f, e, x, y, o, tgt):
    kw = {} if o is None else {"out": o}
    n = tgt.size
    mask = [True] + [False] * (n - 1)
    # ---- out= forms, two operands
    if f in ("dot", "outer"):
        if e == "kw":
            return np.dot(x, y, **kw, nosuchkeyword=1)
        return getattr(np, f)(x, y, **kw)
    if f in ("concatenate", "stack"):
        return getattr(np, f)([x, y], **kw)
    if f == "choose":
        return np.choose([0, 5] if e == "oob" else [0, 1], [x, y], **kw)
    if f == "clip":
        return np.clip(x, y, y, **kw)
    if f == "einsum":
        return np.einsum("i,i->i", x, y, **kw)
    if f == "m_dot":
        return x.dot(y, **kw)
    if f == "m_clip":
        return x.clip(y, y, **kw)
    if f in ("uf_add", "uf_mul", "uf_hypot"):
        uf = {"uf_add": np.add, "uf_mul": np.multiply, "uf_hypot": np.hypot}[f]
        if e == "castno":
            return uf(x, y, casting="no", dtype="float32", **kw)
        if e == "where":
            return uf(x, y, where=mask, **kw)
        if e == "tuple2":
            return uf(x, y, out=(o, o))
        return uf(x, y, **kw)
    if f == "uf_outer":
        return np.multiply.outer(x, y, **kw)
    # ---- out= forms, one operand
    if f in ("uf_mul_reduce_k", "uf_div_reduce_k", "uf_add_reduce_k", "m_prod_k", "m_sum_k"):
        # a reduction into the first slot of the target buffer
        k1 = {} if o is None else {"out": o[:1]}
        if f.startswith("uf_"):
            return {"uf_mul_reduce_k": np.multiply, "uf_div_reduce_k": np.divide, "uf_add_reduce_k": np.add}[f].reduce(x, keepdims=True, **k1)
        return getattr(x, f[2:-2])(axis=0, keepdims=True, **k1)
    if f == "uf_mul_accumulate":
        return np.multiply.accumulate(x, **kw)
    if f == "m_cumprod":
        return x.cumprod(**kw)
    if f == "around":
        return np.around(x, **kw)
    if f == "take":
        return np.take(x, [0, 9] if e == "oob" else [0, 1], **kw)
    if f == "m_take":
        return x.take([0, 9] if e == "oob" else [0, 1], **kw)
    if f in ("cumsum", "sum", "mean", "prod", "cumprod", "max"):
        if e == "axis9":
            return getattr(np, f)(x, axis=9, **kw)
        return getattr(np, f)(x, **kw)
    if f in ("m_cumsum", "m_sum", "m_round"):
        return getattr(x, f[2:])(**kw)
    if f == "uf_reduce":
        return np.add.reduce(x, axis=9, **kw) if e == "axis9" else np.add.reduce(x, **kw)
    if f == "uf_accumulate":
        return np.add.accumulate(x, **kw)
    if f in ("uf_negative", "uf_sqrt"):
        uf = np.negative if f == "uf_negative" else np.sqrt
        if e == "tuple2":
            return uf(x, out=(o, o))
        return uf(x, **kw)
    # ---- forms whose target is x (a NumPy-level refusal never comes after a partial write in these spellings)
    if f == "setitem_oob":
        x[9] = y
    elif f == "setitem_fancy_oob":
        x[[5]] = y
    elif f == "setitem_fancy":
        x[[0]] = y
    elif f == "setitem_mask_bad":
        x[np.array([True] * (x.size + 1))] = y
    elif f == "setitem_slice_shape":
        x[0:1] = y
    elif f == "put_oob":
        np.put(x, [9], y)
    elif f == "m_put":
        x.put([0], y)
    elif f == "m_put_oob":
        x.put([9], y)
    elif f == "place":
        np.place(x, mask, y)
    elif f == "place_badmask":
        np.place(x, [True] * (x.size + 1), y)
    elif f == "putmask_badmask":
        np.putmask(x, [True] * (x.size + 1), y)
    elif f == "put_along_axis":
        np.put_along_axis(x, np.array([0]), y, 0)
    elif f == "put_along_axis_oob":
        np.put_along_axis(x, np.array([9]), y, 0)
    elif f == "fill_diagonal_1d":
        np.fill_diagonal(x, y)
    elif f == "copyto_castno":
        np.copyto(x, y, casting="no")
    elif f == "copyto_where":
        np.copyto(x, y, where=mask)
    elif f == "copyto_where_bad":
        np.copyto(x, y, where=[True] * (x.size + 1))
    elif f == "m_fill":
        x.fill(y)
    elif f == "uf_at":
        np.add.at(x, [0], y)
    elif f == "uf_at_oob":
        np.add.at(x, [9], y)
    elif f == "convert_to_base":
        x.convert_to_base()
    elif f == "convert_to_cgs":
        x.convert_to_cgs()
    elif f == "m_sort":
        x.sort()
    elif f == "m_sort_axis9":
        x.sort(axis=9)
    else:
        raise AssertionError("unmapped generic in-place form " + f)
    return None


TWIN = {
    "convert_to_units": "in_units",
    "convert_to_base": "in_base",
    "convert_to_cgs": "in_cgs",
    "convert_to_mks": "in_mks",
    "convert_to_equivalent": "to_equivalent",
    "iop": "binop",
    "ufunc_out": "ufunc",
    "unary_out": "unary",
}


def _cp(o):
    """independent copy of an operand (same class, dtype, unit)"""
    if isinstance(o, _U["ua"]):
        return o.copy()
    return o


def numpy_partial_write(c, O):
    """generic in-place family only: the same spelling on BARE ndarray copies of the graph (V stays a view of A).
    True iff plain NumPy raises AFTER having changed the target's numbers - then those numbers are NumPy's doing."""
    np = _U["np"]
    if c["op"] != "gin":
        return False
    A = np.array(np.asarray(O["A"]))
    bare = {"A": A, "V": A[1:3]}
    for s in ("B", "Q", "C", "R"):
        if O.get(s) is not None:
            bare[s] = np.array(np.asarray(O[s]))
    try:
        x = bare[c["x"]]
        y = (2 if c["y"] == "two" else bare[c["y"]]) if c["y"] else None
        o = bare[c["o"]] if c["o"] else None
    except KeyError:
        return False
    tgt = o if o is not None else x
    before = tgt.tobytes()
    try:
        gin_call(c, x, y, o, out_given=True)
    except Exception:  # noqa: BLE001
        return tgt.tobytes() != before
    return False


def twin(c, O, tk):
    r = _twin(c, O, tk)
    r["npw"] = numpy_partial_write(c, O)
    return r


def _twin(c, O, tk):
    """the corresponding copying call on copies of the operands -> {"ex", "n"}"""
    np = _U["np"]
    op = c["op"]
    try:
        if op in TWIN:
            O2 = {"X": _cp(operand(O, c["x"]))}
            c2 = dict(c, op=TWIN[op], x="X", o="")
            if c["y"]:
                O2["Y"] = _cp(operand(O, c["y"]))
                c2["y"] = "Y" if c["y"] != "two" else "two"
            r = do_call(c2, O2)
            return {"ex": False, "n": nums_of(r, tk)}
        if op in ("setitem0", "setitemall"):
            x = operand(O, c["x"])
            y = operand(O, c["y"])
            if isinstance(y, _U["ua"]) and not y.units.is_dimensionless:
                r = _cp(y).to(x.units)
            else:
                r = np.array(y)
            return {"ex": False, "n": nums_of(r, tk)}
        if op == "copyto":
            return {"ex": False, "n": nums_of(_cp(operand(O, c["y"])), tk)}
        if op == "gin" and c["o"] and c["e"] == "ok":
            r = gin_call(c, _cp(operand(O, c["x"])), _cp(operand(O, c["y"])) if c["y"] else None, operand(O, c["o"]), out_given=False)
            return {"ex": False, "n": nums_of(r, tk)}
    except Missing:
        raise
    except Exception:  # noqa: BLE001 - the copying call refused
        return {"ex": True, "n": []}
    return {"ex": False, "n": []}


def observe(case):
    O = build(case["cfg"])
    steps = []
    trunc = ""
    for l, c in enumerate(case["h"]):
        tk = Tokens(0.0 if c["op"] in PLAINCONV else 1e-15)
        try:
            for nm in (c["x"], c["y"], c["o"]):
                if nm:
                    operand(O, nm)
            xo = O[c["x"]]
            isunit = isinstance(xo, _U["Unit"])
            if isunit != (c["op"] in ("umul", "udiv", "upow", "ubase", "ucoeff", "ucopy", "usimplify")):
                raise Missing("kind")
            if c["op"] in ("setitem0", "setitemall", "put", "putmask", "copyto", "fill_diagonal", "concatenate", "dot") and xo.ndim == 0:
                raise Missing("kind")
            if c["op"] == "fill_diagonal" and xo.size != 4:
                raise Missing("kind")
            if c["op"] in ("concatenate", "dot") and O[c["y"]].ndim == 0:
                raise Missing("kind")
            if c["o"] and O[c["o"]].ndim == 0:
                raise Missing("kind")
        except Missing as m:
            trunc = f"step {l}: operand {m} not available"
            break
        before = {s: proj(O[s], tk) for s in SLOTS}
        tw = twin(c, O, tk)
        ex = False
        exc = ""
        res = None
        try:
            res = do_call(c, O)
        except Exception as e:  # noqa: BLE001 - the observation is the exception
            ex = True
            exc = type(e).__name__
        after = {s: proj(O[s], tk) for s in SLOTS}
        rp = proj(res, tk) if res is not None else DEAD
        steps.append({"c": c, "B": before, "Af": after, "ex": ex, "exc": exc, "tw": tw, "res": rp, "l": l + 1})
        if not ex and rp["k"] in ("A", "Q"):
            O["R"] = res
    return {"steps": steps, "trunc": trunc}
