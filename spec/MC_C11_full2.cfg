CONSTANTS
  MaxChain = 2
  PathSet <- RepPaths
  Combos <- AllCombos
  ClsSet <- Classes
  OrderSet <- BothOrders
  PreSet <- PlainPre
INIT Init
NEXT Next
INVARIANT Export
CHECK_DEADLOCK FALSE
