------------------------------- MODULE MC_C07 -------------------------------
(* Bounded instance of ArrayFnUnit for C07: the case table.                  *)
(* One state per case: function x call template x shape x dimension          *)
(* assignment of the operands x re-expression pattern (all operands of a     *)
(* dimension / one operand only) x power-of-two factor, for float and        *)
(* integer data on the dyadic model registry and for ordinary units.         *)
(* The catalogue of functions (IOEnv.CAT) is extracted from the working tree *)
(* by the harness; functions the table does not know get the plain call F(x) *)
(* with an unknown signature.  Every case carries the property-side          *)
(* signature resolved for its shape (sig), the transcribed unit formula      *)
(* (io), the outcome the transcription predicts for both runs (tb, tv) and   *)
(* mp: the outputs on which the transcription itself contradicts the         *)
(* signature (model-level counterexamples).                                  *)
EXTENDS ArrayFnUnit, IOUtils
CONSTANTS Factors,     \* exponents r of the power-of-two re-expression factor 2^r (dyadic float cases)
          IntFactors,  \* the same for integer data (negative: stored numbers stay integers)
          RealIdx,     \* indices of the ordinary units a dimension is re-expressed in (0 = m / s)
          Bases,       \* <<KL, KT>>: log2 scales of the units of the base run
          Fams,        \* which families to generate: "dy", "int", "real"
          DTypes,      \* further dtypes of the data ("f4", "c16") for the rows that also take integers
          DataSets,    \* which of the fixed data sets (1..3) the operands hold
          Fixes        \* proposed repairs (fixes/C07-*.patch) present in the tree: the transcription follows them

F2 == {2, -4}
F5 == {2, -4, 6, -2, 3}
FI1 == {-2}
FI2 == {-2, -5}
R1 == {1}
R3 == {1, 2, 3}
B1 == {<<3, -2>>}
B2 == {<<3, -2>>, <<0, 1>>}
FamsAll == {"dy", "int", "real"}
DT0 == {}
DT2 == {"f4", "c16"}
DS1 == {1}
DS3 == {1, 2, 3}

Cat == JsonDeserialize(IOEnv.CAT)
CatNames == {Cat[i][1] : i \in DOMAIN Cat}
HCls(f) == Cat[CHOOSE i \in DOMAIN Cat : Cat[i][1] = f][2]
\* The transitions transcribe /repo HEAD.  Each proposed repair of a handler's unit formula has its transcription
\* behind a switch so that T stays exact once the repair is committed (harness/c07.py TREE_FIXES):
\* "det": a.units ** a.shape[-1]; "einsum": product of the operands' units, no equality check;
\* "intersect1d": return_indices=True multiplies the values by ar1.units; "methods": unyt_array.trace keeps the unit
NoFixes == {}
FixIo(row) ==
  CASE row.f = "np.linalg.det" /\ "det" \in Fixes -> Impl("none", <<Dg(ORDER, 0, 0)>>)
    [] row.f = "np.einsum" /\ "einsum" \in Fixes -> Impl("none", row.sig.o)
    [] row.f = "np.intersect1d" /\ row.t = "idx" /\ "intersect1d" \in Fixes -> Impl("eq", <<D1, Bare, Bare>>)
    [] row.f = "nd.trace" /\ "methods" \in Fixes -> Impl("none", <<D1>>)
    [] OTHER -> row.io
Active == {[r EXCEPT !.io = FixIo(r)] : r \in {r \in Rows : r.f \in CatNames}} \cup GenericRows(CatNames \ (RowNames \cup NotDemanded))

VARIABLE c
vars == <<c>>
Init == c = <<>>

DimsIn(da) == {da[i] : i \in DOMAIN da}
\* "o<i>" is a different case from "all" only when another operand shares operand i's dimension
PatOK(da, p) == IF p = "all" THEN TRUE ELSE (PatIdx(p) <= Len(da) /\ \E j \in DOMAIN da : j # PatIdx(p) /\ da[j] = da[PatIdx(p)])
PrimaryDeg(sig) == IF sig.k = "unknown" \/ sig.o[1].bare THEN <<2, 0, 0>> ELSE sig.o[1].deg

\* outputs on which the transcribed formula contradicts the property-side signature
ModelFails(c0, us) ==
  IF c0.io.chk = "na" \/ c0.sig.k = "unknown" \/ ImplRaises(c0.io, us) THEN {}
  ELSE {j \in DOMAIN c0.io.o :
          LET s == SigAt(c0, j, Len(c0.io.o))
              m == c0.io.o[j] IN
          IF s.bare THEN ~(m.bare \/ ExpDims(m.deg, us) = <<0, 0>>)
          ELSE IF m.bare THEN ExpDims(s.deg, us) # <<0, 0>>
          ELSE ExpDims(m.deg, us) # ExpDims(s.deg, us)}

Case(row, sh, da, p, rd, r, dt, real, kl, kt, ds) ==
  LET u == BaseUnits(da, kl, kt)
      v == VarUnits(da, u, p, rd, r)
      sig == ResSig(row.sig, sh)
      io == IF row.io.chk = "na" THEN row.io ELSE ResSig(row.io, sh)
      c0 == [f |-> row.f, t |-> row.t, sh |-> sh, n |-> row.n, da |-> da, u |-> u, v |-> v, pat |-> p, rd |-> rd, r |-> r,
             dt |-> dt, real |-> real, ds |-> ds, cls |-> row.cls, hcls |-> HCls(row.f), sig |-> sig, io |-> io,
             exact |-> row.ex, nocov |-> "nocov" \in row.fl, novals |-> "novals" \in row.fl, unord |-> "unordered" \in row.fl, od |-> PrimaryDeg(sig)] IN
  [c0 EXCEPT !.od = PrimaryDeg(sig)] @@ [tb |-> ImplRun(c0, u), tv |-> ImplRun(c0, v), mp |-> ModelFails(c0, u) \cup ModelFails(c0, v)]

Next ==
  /\ c = <<>>
  /\ \E row \in Active : \E sh \in row.shs, da \in row.das : \E p \in Patterns(da), rd \in {"L", "T"} :
       /\ Len(da) = row.n
       /\ PatOK(da, p)
       /\ IF p = "all" THEN rd \in DimsIn(da) ELSE rd = da[PatIdx(p)]
       /\ \/ /\ "dy" \in Fams
             /\ \E r \in Factors, b \in Bases, ds \in DataSets : c' = Case(row, sh, da, p, rd, r, "f8", FALSE, b[1], b[2], ds)
          \/ /\ "int" \in Fams /\ "int" \in row.fl /\ p = "all"
             /\ \E r \in IntFactors : c' = Case(row, sh, da, p, rd, r, "i8", FALSE, 0, -1, 1)
          \/ /\ "int" \in Fams /\ "int" \in row.fl /\ p = "all"
             /\ \E r \in Factors, dt \in DTypes : c' = Case(row, sh, da, p, rd, r, dt, FALSE, 3, -2, 1)
          \/ /\ "real" \in Fams
             /\ \E r \in RealIdx, ds \in DataSets : c' = Case(row, sh, da, p, rd, r, "f8", TRUE, 0, 0, ds)
Spec == Init /\ [][Next]_vars

Export == c # <<>> => PrintT(ToJson(c))

\* Model-level theorems about the table, checked on every case (plain invariants):
\* a signature never has more degrees than operands; class "same" has a non-bare primary output of total degree 1;
\* integer cases never produce fractional stored numbers (all scales <= 0)
WellFormed == c # <<>> =>
  /\ \A j \in DOMAIN c.sig.o : \A i \in 1..3 : (i > c.n => c.sig.o[j].deg[i] = 0)
  /\ (c.cls = "same" /\ c.sig.k # "unknown") => \E j \in DOMAIN c.sig.o : ~c.sig.o[j].bare /\ c.sig.o[j].deg[1] + c.sig.o[j].deg[2] + c.sig.o[j].deg[3] = 2
  /\ (c.dt = "i8" => \A i \in DOMAIN c.u : c.u[i][2] <= 0 /\ c.v[i][2] <= 0)
\* the re-expression changes at least one unit and never a dimension
ReexpressionProper == c # <<>> =>
  /\ \E i \in DOMAIN c.u : c.u[i] # c.v[i]
  /\ \A i \in DOMAIN c.u : c.u[i][1] = c.v[i][1]
\* covariance of the signature itself: re-expression never changes the expected exponent vector
SigCovariant == c # <<>> => \A j \in DOMAIN c.sig.o : ExpDims(c.sig.o[j].deg, c.u) = ExpDims(c.sig.o[j].deg, c.v)
=============================================================================
