CONSTANTS
  TableUnits <- MCTable
  Strides = {1, 7}
  AllPairs = FALSE
  XStride = 6
  ArrForms = {"kw","alias"}
  AliasOps = {"clip"}
  DlUnits = {}
  Units = {}
  ConvUnits = {}
  UKinds0 = {}
  UKinds1 = {}
  Forms = {}
  Fams = {}
  ArrFns = {"concatenate","where","clip","copyto_where"}
  UfOps = {"add","subtract","less","equal","maximum","hypot","divmod"}
  SpUnits = {}
  Hists = {}
  HUnits = {}
  DerUnits = {}
  DHists = {}
  DArrFns = {}
  DepthForms = {}
INIT Init
NEXT TNextAll
INVARIANT Export
CHECK_DEADLOCK FALSE
