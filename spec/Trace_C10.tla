----------------------------- MODULE Trace_C10 -----------------------------
(* Trace validation for the single-step cases of C10.  OBS is the list of    *)
(* replayed cases with the observation of the real library.  For every       *)
(* record TLC evaluates the C10 clauses on the observation (P, operator      *)
(* Clauses of UnitSystem) and compares the observation with the transcribed  *)
(* transition (T, operator Target; TargetFixed = the behaviour after the     *)
(* proposed repair of the EM route is accepted as well).                     *)
EXTENDS UnitSystem
Obs == JsonDeserialize(IOEnv.C10OBS)
VARIABLE i
Init == i = 1
Rec == Obs[i]
SpecOf(r) == IF r.sys = 0 THEN [base |-> r.base, bcoef |-> r.bcoef, decl |-> r.decl, reg |-> r.reg, coef |-> FALSE, short |-> ""] ELSE Systems[r.sys]
\* the EM counterpart route hands back the bare counterpart atom (coefficient 1) whatever the base units are
TMatch(S, x, t, o) == \/ t.k = "raise" /\ o.k = "raise"
                      \/ /\ t.k = "ok" /\ o.k = "ok" /\ ToSet(o.x) = t.x
                         /\ IF Route(S, x) = "em_counter" /\ t.x = EMCounter(x) THEN o.coefr = ROne /\ o.cpow = 1
                            ELSE ScaleOk(S, t.x, XDim(t.x), o.coefr, o.cpow)
\* user systems: a consistent specification must have been accepted (usable immediately), an inconsistent one rejected
MadeClauses(r) == IF r.sys # 0 \/ r.o.k = "noinput" THEN {}
                  ELSE IF Consistent(r.base) THEN (IF r.o.k # "nosystem" /\ r.o.made.registered THEN {} ELSE {"UsableImmediately"})
                  ELSE (IF r.o.k = "nosystem" /\ ~r.o.made.registered THEN {} ELSE {"RejectsInconsistent"})
Step ==
  LET r == Rec
      S == SpecOf(r)
      x == ToSet(r.x)
      o == r.o
      bad == Clauses(S, x, o) \cup MadeClauses(r)
      t == Target(S, x)
      tf == TargetFixed(S, x)
      asis == o.k \in {"noinput", "nosystem"} \/ TMatch(S, x, t, o)
      fixed == o.k \in {"noinput", "nosystem"} \/ TMatch(S, x, tf, o) IN
  /\ \A cl \in bad : PrintT(ToJson([tag |-> "P-FAIL", i |-> i, clause |-> cl, route |-> Route(S, x), astranscribed |-> asis]))
  /\ (~asis /\ ~fixed) => PrintT(ToJson([tag |-> "T-FAIL", i |-> i, route |-> Route(S, x), model |-> t, fixedmodel |-> tf]))
  /\ (~asis /\ fixed) => PrintT(ToJson([tag |-> "T-FIXED", i |-> i, route |-> Route(S, x)]))
Next == i <= Len(Obs) /\ Step /\ i' = i + 1
=============================================================================
