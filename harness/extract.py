"""Regenerate model data from the working tree of unyt (PYTHONPATH decides which).

python extract.py out.json

Everything is ASCII-escaped JSON of ints/strings/bools/lists/dicts so that TLC's
JsonDeserialize can read it; floats are written as decimal strings
(`repr(float)`), and additionally as exact [n, d] rationals when 32-bit safe.
Dimensions are vectors of 12x the exponent over the base dimensions in
unyt.dimensions.base_dimensions order."""

import json
import sys
from fractions import Fraction

BASE = None


def dim_vec(dim):
    """sympy dimension expression -> list of 12*exponent over base dimensions, or None."""
    import sympy
    from unyt import dimensions as D

    global BASE
    if BASE is None:
        BASE = list(D.base_dimensions)
    vec = [0] * len(BASE)
    if dim == 1 or dim is sympy.S.One:
        return vec
    try:
        pd = sympy.sympify(dim).as_powers_dict()
    except Exception:
        return None
    for b, e in pd.items():
        hit = False
        for i, bd in enumerate(BASE):
            if b == bd:
                e12 = Fraction(str(sympy.Rational(e))) * 12
                if e12.denominator != 1:
                    return None
                vec[i] += int(e12)
                hit = True
                break
        if not hit:
            if b.is_Number:
                continue
            return None
    return vec


def fl(x):
    x = float(x)
    f = None
    try:
        fr = Fraction(x)
        if abs(fr.numerator) < 2**31 and fr.denominator < 2**31:
            f = [fr.numerator, fr.denominator]
    except (OverflowError, ValueError):
        pass
    return {"repr": repr(x), "rat": f}


def main(out):
    import numpy as np
    import unyt
    from unyt import dimensions as D
    from unyt import unit_systems
    from unyt._unit_lookup_table import (
        default_unit_name_alternatives,
        default_unit_symbol_lut,
        inv_name_alternatives,
        name_alternatives,
        physical_constants,
        unit_prefixes,
    )
    from unyt.array import unyt_array
    from unyt.unit_object import em_conversions

    data = {}
    data["base_dimensions"] = [str(b) for b in D.base_dimensions]
    data["named_dimensions"] = {
        k: dim_vec(v) for k, v in vars(D).items() if not k.startswith("_") and dim_vec(v) is not None and k not in ("base_dimensions", "derived_dimensions", "dimensions", "em_dimensions")
        and not callable(v) and not isinstance(v, (list, tuple, dict))
    }
    lut = []
    for sym, row in default_unit_symbol_lut.items():
        lut.append(
            {
                "sym": sym,
                "scale": fl(row[0]),
                "dim": dim_vec(row[1]),
                "dimstr": str(row[1]),
                "offset": fl(row[2]),
                "tex": row[3],
                "prefixable": bool(row[4]),
            }
        )
    data["lut"] = lut
    data["prefixes"] = [{"p": p, "value": fl(v[0]), "tex": v[1]} for p, v in unit_prefixes.items()]
    data["default_name_alternatives"] = {k: list(v) for k, v in default_unit_name_alternatives.items()}
    data["name_alternatives"] = {k: list(v) for k, v in name_alternatives.items()}
    data["inv_name_alternatives"] = dict(inv_name_alternatives)
    import unyt.unit_symbols as us

    data["unit_symbols_attrs"] = sorted(k for k in vars(us) if not k.startswith("_") and getattr(vars(us)[k], "is_Unit", False))
    top_units, top_quants, top_other = [], [], []
    for k, v in vars(unyt).items():
        if k.startswith("_"):
            continue
        if getattr(v, "is_Unit", False):
            top_units.append(k)
        elif isinstance(v, unyt_array):
            top_quants.append(k)
        else:
            top_other.append(k)
    data["top_unit_attrs"] = sorted(top_units)
    data["top_quantity_attrs"] = sorted(top_quants)
    data["physical_constants"] = {k: {"value": repr(float(v[0])), "unit": v[1], "aliases": list(v[2])} for k, v in physical_constants.items()}
    systems = {}
    for name, s in unit_systems.unit_system_registry.items():
        try:
            um = {}
            for k, v in s.units_map.items():
                um[str(k)] = None if v is None else str(v)
            systems[str(name)] = {"units_map": um, "base_units": {str(k): (None if v is None else str(v)) for k, v in s.base_units.items()}}
        except Exception as e:  # pragma: no cover
            systems[str(name)] = {"error": repr(e)}
    data["unit_systems"] = systems
    data["em_conversions"] = [
        {"from": k[0], "from_dim": dim_vec(k[1]), "to_dim": dim_vec(v[0]), "to": v[1], "factor": repr(float(v[2]))} for k, v in em_conversions.items()
    ]
    rules = {}
    for uf, rule in unyt_array._ufunc_registry.items():
        rules[uf.__name__] = {"rule": getattr(rule, "__name__", None) or getattr(getattr(rule, "__wrapped__", None), "__name__", str(rule)), "nin": getattr(uf, "nin", -1), "nout": getattr(uf, "nout", -1)}
    data["ufunc_registry"] = rules
    data["numpy_ufuncs"] = sorted(k for k, v in vars(np).items() if isinstance(v, np.ufunc))
    from unyt._array_functions import _HANDLED_FUNCTIONS, _UNSUPPORTED_FUNCTIONS

    def fname(f):
        mod = getattr(f, "__module__", "") or ""
        return (mod + "." + f.__name__).replace("numpy.", "np.", 1)

    data["handled_functions"] = sorted(fname(f) for f in _HANDLED_FUNCTIONS)
    data["unsupported_functions"] = sorted(fname(f) for f in _UNSUPPORTED_FUNCTIONS)
    disp = []
    for ns, modobj in (("np", np), ("np.linalg", np.linalg), ("np.fft", np.fft)):
        for k, v in vars(modobj).items():
            if callable(v) and hasattr(v, "_implementation") and not k.startswith("_"):
                disp.append(ns + "." + k)
    data["dispatching_functions"] = sorted(set(disp))
    from unyt.equivalencies import equivalence_registry

    eq = {}
    for k, cls in equivalence_registry.items():
        eq[k] = [dim_vec(d) for d in cls._dims]
    data["equivalences"] = eq
    data["numpy_version"] = np.__version__
    data["unyt_file"] = unyt.__file__
    with open(out, "w") as f:
        json.dump(data, f, ensure_ascii=True)


if __name__ == "__main__":
    main(sys.argv[1])
