--------------------------- MODULE PersistMulti ---------------------------
(* C11, several objects and several restores in ONE process.                  *)
(*                                                                            *)
(* Two originals live in two different registries that hold the same          *)
(* user-defined symbols (one of them may have RE-VALUED a default symbol);    *)
(* a history then interleaves                                                 *)
(*   Restore(x, how)   pickle (dump now and load), reload (load the bytes     *)
(*                     dumped earlier for x once more), deepcopy, json        *)
(*                     (registry to_json/from_json + unit string)             *)
(*   Edit(t, sym)      modify / add a symbol in the registry of ANY object,   *)
(*                     original or restored, between the restores             *)
(* in every order.  The reference semantics is the statement's: a restored    *)
(* object is what was persisted - numbers, unit, registry rows of ITS         *)
(* original at the moment of dumping - whatever else was restored or edited   *)
(* in the process before or after; an edit changes the registry it is applied *)
(* to and nothing else (restored registries are independent of each other     *)
(* and of the originals).  The implementation does exactly that today (every  *)
(* __setstate__ / __deepcopy__ / from_json builds a registry of its own:      *)
(* array.py __setstate__, unit_registry.py __deepcopy__, from_json), so the   *)
(* transition (T) and the property (P) coincide on contents; T additionally   *)
(* says that no two objects share a registry OBJECT.                          *)
(*                                                                            *)
(* Scales are integers (1000 x the scale in m).  Unit objects keep the scale  *)
(* they were created with when their registry is edited later (C12: existing  *)
(* units keep their value), so `uval` of an object never changes; an edit of  *)
(* an ORIGINAL's registry may not touch the symbol of the original's own unit *)
(* (its pickle would re-parse the edited symbol: a registry edit, not a       *)
(* persistence question).                                                     *)
EXTENDS Integers, Sequences, FiniteSets, TLC, Json

StockMile == 1609344
ModMile == 2048000
EditMile == 4096000
FooVal == 2000
EditFoo == 8000
Kinds == {"stock", "modmile", "foo", "foomod"}
HasFoo(k) == k \in {"foo", "foomod"}
KindTab(k) == [mile |-> IF k \in {"modmile", "foomod"} THEN ModMile ELSE StockMile, foo |-> IF HasFoo(k) THEN FooVal ELSE 0]
NewVal(sym) == IF sym = "mile" THEN EditMile ELSE EditFoo

CONSTANTS Pairs,      \* set of <<kind1, unit1, kind2, unit2>>
          ClsSet,     \* {"array", "quantity", "unit"}
          HowSet,     \* subset of {"pickle", "reload", "deepcopy", "json"}
          MaxSteps

VARIABLES cls, objs, blob, hist
mvars == <<cls, objs, blob, hist>>
None == [tab |-> [mile |-> 0, foo |-> 0], uval |-> 0]

MInit == cls = "" /\ objs = <<>> /\ blob = <<None, None>> /\ hist = <<>>

Setup(p, c) ==
  /\ objs = <<>>
  /\ (p[2] = "foo" => HasFoo(p[1])) /\ (p[4] = "foo" => HasFoo(p[3]))
  /\ cls' = c
  /\ objs' = << [orig |-> TRUE, src |-> 1, kind |-> p[1], sym |-> p[2], tab |-> KindTab(p[1]), uval |-> KindTab(p[1])[p[2]]],
                [orig |-> TRUE, src |-> 2, kind |-> p[3], sym |-> p[4], tab |-> KindTab(p[3]), uval |-> KindTab(p[3])[p[4]]] >>
  /\ blob' = <<None, None>>
  /\ hist' = <<[op |-> "setup", k1 |-> p[1], u1 |-> p[2], k2 |-> p[3], u2 |-> p[4], cls |-> c]>>

Steps == Len(hist) - 1

\* what Restore(x, how) yields; x is an original (1 or 2)
Snap(x) == [tab |-> objs[x].tab, uval |-> objs[x].uval]
Restored(x, s) == [orig |-> FALSE, src |-> x, kind |-> objs[x].kind, sym |-> objs[x].sym, tab |-> s.tab, uval |-> s.uval]
Restore(x, how) ==
  /\ objs # <<>> /\ Steps < MaxSteps /\ x \in {1, 2}
  /\ (how = "reload" => blob[x] # None)
  /\ (how = "json" => cls # "unit" \/ TRUE)
  /\ LET s == IF how = "reload" THEN blob[x] ELSE Snap(x) IN
     /\ objs' = Append(objs, Restored(x, s))
     /\ blob' = IF how = "pickle" THEN [blob EXCEPT ![x] = s] ELSE blob
  /\ hist' = Append(hist, [op |-> "restore", x |-> x, how |-> how])
  /\ UNCHANGED cls

\* registry.modify(sym, v) when present, registry.add(sym, v, length) when absent - in the registry of object t only
Edit(t, sym) ==
  /\ objs # <<>> /\ Steps < MaxSteps /\ t \in DOMAIN objs
  /\ (objs[t].orig => sym # objs[t].sym)
  /\ objs[t].tab[sym] # NewVal(sym)
  /\ objs' = [objs EXCEPT ![t].tab[sym] = NewVal(sym)]
  /\ hist' = Append(hist, [op |-> "edit", t |-> t, sym |-> sym])
  /\ UNCHANGED <<cls, blob>>

MNext == \/ \E p \in Pairs, c \in ClsSet : Setup(p, c)
         \/ \E x \in {1, 2}, how \in HowSet : Restore(x, how)
         \/ \E t \in 1..(2 + MaxSteps), sym \in {"mile", "foo"} : Edit(t, sym)

(* ---- C11 for several objects, on an observation: every live object shows the contents the reference says ---- *)
\* o = observed [mile, foo, uval, nums]; r = reference object
C11_SameRows(o, r) == o.mile = r.tab.mile /\ o.foo = r.tab.foo
C11_SameUnit(o, r) == o.uval = r.uval
C11_SameNums(o) == o.nums
=============================================================================
