CONSTANTS
  Alias = FALSE
  ExplicitPrefixed = FALSE
  MaxLen = 4
  ExportLen = 4
INIT Init
NEXT Next
VIEW View
INVARIANT ExportState
CHECK_DEADLOCK FALSE
