----------------------------- MODULE MC_C19_deco -----------------------------
(* Bounded instance of HelpersDeco for C19.                                   *)
(*   sweep  single calls of  @accepts(x=<dim>) f(x)  and  @returns(<dim>) f(x)*)
(*          for every named dimension of unyt.dimensions (and compound        *)
(*          dimension expressions) x every unit of the table (and compound    *)
(*          unit expressions), argument positional or by keyword              *)
(*   hist   a catalogue of 11 decorated functions (positional / default /        *)
(*          keyword-only / *args / **kwargs parameters, one or several return *)
(*          values, both stacking orders); each is decorated once and called  *)
(*          HistLen times with every sequence of calls over its call alphabet *)
(*          (well-formed, ill-formed, right and wrong dimensions)             *)
EXTENDS HelpersDeco
CONSTANTS Tier, HistLen
VARIABLES tpl, calls
Thorough == Tier = "thorough"

P3(n, k, dv) == [n |-> n, k |-> k, dv |-> dv]
Pos(n) == P3(n, "pos", NoVal)
A2(n, dim) == [n |-> n, dim |-> dim]
DN(name) == <<"n", name>>
U(sym) == <<"u", sym>>
Echo(n) == [src |-> "param", n |-> n, val |-> NoVal]
Const(v) == [src |-> "const", n |-> "", val |-> v]
Tpl(id, params, locals, acc, ret, order, result, single) ==
  [id |-> id, params |-> params, locals |-> locals, acc |-> acc, hasAcc |-> acc # <<>>, ret |-> ret, hasRet |-> ret # <<>>,
   order |-> order, result |-> result, single |-> single]
Call(pos, kw) == [pos |-> pos, kw |-> kw]
KW(n, v) == [n |-> n, v |-> v]

(* ---------------- sweep ---------------- *)
SweepTpl(kind, dim) ==
  IF kind = "accepts" THEN Tpl("sweep-accepts", <<Pos("x")>>, <<>>, <<A2("x", dim)>>, <<>>, "acc_inner", <<Echo("x")>>, TRUE)
  ELSE Tpl("sweep-returns", <<Pos("x")>>, <<>>, <<>>, <<dim>>, "acc_inner", <<Echo("x")>>, TRUE)
SmallDims == IF Thorough THEN {"length", "time", "mass", "energy", "area", "charge_mks"} ELSE {"length", "time", "mass"}
SmallUnits == IF Thorough THEN {"m", "s", "kg", "J", "hr", "erg", "C", "inch"} ELSE {"m", "s", "g"}
SweepKinds == IF Thorough THEN {"accepts", "returns"} ELSE {"accepts"}
CompoundDims == {<<op, DN(a), DN(b)>> : op \in {"mul", "div"}, a \in SmallDims, b \in SmallDims}
                \cup {<<"pow", DN(a), n, 1>> : a \in SmallDims, n \in {2, -1}}
                \cup {<<"pow", DN(a), 1, 2>> : a \in {"area", "energy", "charge_cgs"}}
                \cup {<<"pow", <<"mul", DN("energy"), DN("length")>>, 1, 2>>, <<"div", <<"mul", DN("mass"), DN("area")>>, <<"pow", DN("time"), 2, 1>>>>}
CompoundUnits == {<<op, U(a), U(b)>> : op \in {"mul", "div"}, a \in SmallUnits, b \in SmallUnits}
                 \cup {<<"pow", U(a), 2, 1>> : a \in SmallUnits}
                 \cup {<<"pow", <<"mul", U("erg"), U("cm")>>, 1, 2>>, <<"div", <<"mul", U("g"), <<"pow", U("cm"), 2, 1>>>>, <<"pow", U("s"), 2, 1>>>>}
SweepAtomic == \E kind \in {"accepts", "returns"}, d \in DimNames, u \in UnitSyms, how \in {"pos", "kw"} :
                 /\ (how = "kw" => Thorough /\ kind = "accepts")
                 /\ tpl' = SweepTpl(kind, DN(d))
                 /\ calls' = <<IF how = "pos" THEN Call(<<Q(u)>>, <<>>) ELSE Call(<<>>, <<KW("x", Q(u))>>)>>
SweepBare == \E kind \in {"accepts", "returns"}, d \in DimNames, v \in {Bare, IntV, Arr("km"), Arr("erg")} :
                 /\ tpl' = SweepTpl(kind, DN(d)) /\ calls' = <<Call(<<v>>, <<>>)>>
\* compound dimension against atomic units, named dimension against compound units, and (thorough) compound against compound
SweepCompound ==
  \/ \E kind \in SweepKinds, d \in CompoundDims, u \in UnitSyms : tpl' = SweepTpl(kind, d) /\ calls' = <<Call(<<Q(u)>>, <<>>)>>
  \/ \E kind \in SweepKinds, d \in DimNames, u \in CompoundUnits : tpl' = SweepTpl(kind, DN(d)) /\ calls' = <<Call(<<QE(u)>>, <<>>)>>
  \/ /\ Thorough
     /\ \E kind \in {"accepts"}, d \in CompoundDims, u \in CompoundUnits : tpl' = SweepTpl(kind, d) /\ calls' = <<Call(<<QE(u)>>, <<>>)>>

(* ---------------- catalogue of decorated functions ---------------- *)
Vel == <<"div", DN("length"), DN("time")>>
MpS == <<"div", U("m"), U("s")>>
KmH == <<"div", U("km"), U("hr")>>
Templates == <<
  \* 1: the docstring example shape, plus an unchecked default
  Tpl("acc-two-positional", <<Pos("a"), Pos("b"), P3("c", "def", Q("kg"))>>, <<>>, <<A2("a", DN("length")), A2("b", DN("time"))>>, <<>>, "acc_inner", <<Echo("a")>>, TRUE),
  \* 2: compound dimension and a checked default
  Tpl("acc-compound-default", <<Pos("v"), P3("e", "def", Q("J"))>>, <<"tmp">>, <<A2("v", Vel), A2("e", DN("energy"))>>, <<>>, "acc_inner", <<Echo("v"), Echo("e")>>, FALSE),
  \* 3: *args followed by a checked keyword-only parameter
  Tpl("acc-varargs-kwonly", <<Pos("a"), P3("rest", "var", NoVal), P3("b", "kwd", Q("m"))>>, <<>>, <<A2("b", DN("length"))>>, <<>>, "acc_inner", <<Echo("b")>>, TRUE),
  \* 4: a checked name that arrives through **kw
  Tpl("acc-varkw", <<Pos("a"), P3("kw", "varkw", NoVal)>>, <<>>, <<A2("a", DN("length")), A2("c", DN("time"))>>, <<>>, "acc_inner", <<Echo("a")>>, TRUE),
  \* 5: one return value
  Tpl("ret-one", <<Pos("a")>>, <<>>, <<>>, <<DN("length")>>, "acc_inner", <<Echo("a")>>, TRUE),
  \* 6: two return values
  Tpl("ret-two", <<Pos("a"), Pos("v")>>, <<>>, <<>>, <<DN("time"), Vel>>, "acc_inner", <<Echo("a"), Echo("v")>>, FALSE),
  \* 7: the documented stacking, returns over accepts
  Tpl("returns-over-accepts", <<Pos("a"), Pos("v"), Pos("r")>>, <<>>, <<A2("a", DN("time")), A2("v", Vel)>>, <<DN("length")>>, "acc_inner", <<Echo("r")>>, TRUE),
  \* 8: the other stacking, accepts over returns
  Tpl("accepts-over-returns", <<Pos("a"), Pos("r")>>, <<>>, <<A2("a", DN("time"))>>, <<DN("length")>>, "acc_outer", <<Echo("r")>>, TRUE),
  \* 9: dimensionless and bare numbers
  Tpl("acc-dimensionless", <<Pos("x"), P3("y", "def", Q("m"))>>, <<>>, <<A2("x", DN("dimensionless")), A2("y", DN("length"))>>, <<>>, "acc_inner", <<Const(Q("s"))>>, TRUE),
  \* 10: keyword-only required parameter and a constant tuple result checked by returns
  Tpl("kwonly-required-ret", <<Pos("a"), P3("k", "kwo", NoVal)>>, <<>>, <<A2("k", DN("mass"))>>, <<DN("mass"), DN("energy")>>, "acc_inner", <<Echo("k"), Const(Q("erg"))>>, FALSE),
  \* 11: one value returned as a 1-tuple
  Tpl("ret-one-tuple", <<Pos("a")>>, <<>>, <<>>, <<DN("length")>>, "acc_inner", <<Echo("a")>>, FALSE)
>>
Cand(id, n) ==
  CASE id = "acc-two-positional" -> (CASE n = "a" -> <<Q("m"), Q("s"), Q("km"), Bare, Q("inch")>> [] n = "b" -> <<Q("s"), Q("m"), Q("hr")>> [] n = "c" -> <<Q("s"), Q("kg")>> [] OTHER -> <<Q("m")>>)
    [] id = "acc-compound-default" -> (CASE n = "v" -> <<QE(MpS), Q("m"), QE(KmH), QE(<<"mul", U("cm"), U("Hz")>>)>> [] n = "e" -> <<Q("erg"), Q("N"), QE(<<"mul", U("N"), U("m")>>), Q("eV")>> [] OTHER -> <<Q("m")>>)
    [] id = "acc-varargs-kwonly" -> (CASE n = "b" -> <<Q("km"), Q("s")>> [] OTHER -> <<Q("s"), Q("m")>>)
    [] id = "acc-varkw" -> (CASE n = "a" -> <<Q("m"), Q("s")>> [] n = "c" -> <<Q("s"), Q("m"), Q("ms")>> [] OTHER -> <<Q("kg")>>)
    [] id \in {"ret-one", "ret-one-tuple"} -> <<Q("m"), Q("s"), Q("km"), Bare, Arr("inch")>>
    [] id = "ret-two" -> (CASE n = "a" -> <<Q("s"), Q("m"), Q("hr")>> [] OTHER -> <<QE(MpS), Q("m"), QE(KmH)>>)
    [] id = "returns-over-accepts" -> (CASE n = "a" -> <<Q("s"), Q("m")>> [] n = "v" -> <<QE(KmH), Q("s")>> [] OTHER -> <<Q("m"), Q("s"), Q("AU")>>)
    [] id = "accepts-over-returns" -> (CASE n = "a" -> <<Q("s"), Q("m"), Q("hr")>> [] OTHER -> <<Q("m"), Q("s")>>)
    [] id = "acc-dimensionless" -> (CASE n = "x" -> <<Bare, Q("m"), IntV, Q("dimensionless"), Q("percent"), Q("rad")>> [] OTHER -> <<Q("km"), Q("s")>>)
    [] id = "kwonly-required-ret" -> (CASE n = "k" -> <<Q("g"), Q("m"), Q("Msun")>> [] OTHER -> <<Q("s")>>)
\* call shapes: names filled positionally, names filled by keyword (well-formed and ill-formed: missing, twice, too many, unexpected)
Sh(p, k) == [p |-> p, k |-> k]
Shapes(id) ==
  CASE id = "acc-two-positional" -> {Sh(<<"a", "b">>, <<>>), Sh(<<"a">>, <<"b">>), Sh(<<>>, <<"b", "a">>), Sh(<<"a", "b", "c">>, <<>>), Sh(<<"a">>, <<>>),
                                      Sh(<<"a">>, <<"a">>), Sh(<<"a", "b", "zz", "zz">>, <<>>), Sh(<<"a", "b">>, <<"zz">>)}
    [] id = "acc-compound-default" -> {Sh(<<"v">>, <<>>), Sh(<<"v", "e">>, <<>>), Sh(<<"v">>, <<"e">>), Sh(<<>>, <<"e", "v">>), Sh(<<>>, <<"e">>)}
    [] id = "acc-varargs-kwonly" -> {Sh(<<"a">>, <<>>), Sh(<<"a", "r1">>, <<>>), Sh(<<"a">>, <<"b">>), Sh(<<"a", "r1">>, <<"b">>), Sh(<<"a", "r1", "r2">>, <<>>), Sh(<<>>, <<"b">>)}
    [] id = "acc-varkw" -> {Sh(<<"a">>, <<>>), Sh(<<"a">>, <<"c">>), Sh(<<>>, <<"c", "a">>), Sh(<<"a">>, <<"c", "zz">>), Sh(<<"a", "zz">>, <<>>)}
    [] id \in {"ret-one", "ret-one-tuple"} -> {Sh(<<"a">>, <<>>), Sh(<<>>, <<"a">>), Sh(<<>>, <<>>)}
    [] id = "ret-two" -> {Sh(<<"a", "v">>, <<>>), Sh(<<"a">>, <<"v">>), Sh(<<>>, <<"v", "a">>)}
    [] id = "returns-over-accepts" -> {Sh(<<"a", "v", "r">>, <<>>), Sh(<<"a">>, <<"r", "v">>), Sh(<<>>, <<"a", "v", "r">>), Sh(<<"a", "v">>, <<>>)}
    [] id = "accepts-over-returns" -> {Sh(<<"a", "r">>, <<>>), Sh(<<>>, <<"a", "r">>), Sh(<<"a">>, <<"r">>), Sh(<<"a">>, <<>>)}
    [] id = "acc-dimensionless" -> {Sh(<<"x">>, <<>>), Sh(<<"x", "y">>, <<>>), Sh(<<>>, <<"x">>)}
    [] id = "kwonly-required-ret" -> {Sh(<<"a">>, <<"k">>), Sh(<<"a">>, <<>>), Sh(<<"a", "k">>, <<>>), Sh(<<>>, <<"k", "a">>)}
\* all calls of a shape: every slot ranges over the first `width` candidates of its name
Pick(id, n, width) == LET cs == Cand(id, n) IN {cs[i] : i \in 1..Min(width, Len(cs))}
CallsOfShape(id, sh, width) ==
  {Call(ps, [i \in DOMAIN sh.k |-> KW(sh.k[i], ks[i])]) :
     ps \in {f \in [DOMAIN sh.p -> UNION {Pick(id, sh.p[i], width) : i \in DOMAIN sh.p}] : \A i \in DOMAIN sh.p : f[i] \in Pick(id, sh.p[i], width)},
     ks \in {f \in [DOMAIN sh.k -> UNION {Pick(id, sh.k[i], width) : i \in DOMAIN sh.k}] : \A i \in DOMAIN sh.k : f[i] \in Pick(id, sh.k[i], width)}}
CallsOf(id, width) == UNION {CallsOfShape(id, sh, width) : sh \in Shapes(id)}

\* single calls over the full candidate lists
SingleCall == \E i \in DOMAIN Templates : \E cl \in CallsOf(Templates[i].id, 9) : tpl' = Templates[i] /\ calls' = <<cl>>
\* histories: the call alphabet uses the first two candidates of every slot (one of the stated dimension, one not)
HistStart == \E i \in DOMAIN Templates : \E cl \in CallsOf(Templates[i].id, 2) : tpl' = Templates[i] /\ calls' = <<cl>>
HistMore == /\ tpl # <<>> /\ tpl.id \notin {"sweep-accepts", "sweep-returns"} /\ Len(calls) < HistLen
            /\ \A j \in DOMAIN calls : calls[j] \in CallsOf(tpl.id, 2)
            /\ \E cl \in CallsOf(tpl.id, 2) : calls' = Append(calls, cl) /\ tpl' = tpl

Init == tpl = <<>> /\ calls = <<>>
Next == \/ tpl = <<>> /\ (SweepAtomic \/ SweepBare \/ SweepCompound \/ SingleCall \/ HistStart)
        \/ HistMore
\* export: every single call; of the histories only the complete ones (shorter ones are their prefixes)
Exported == tpl # <<>> /\ (Len(calls) = 1 \/ Len(calls) = HistLen)
Export == Exported =>
  PrintT(ToJson([tag |-> "CASE", tpl |-> tpl, calls |-> calls,
                 t |-> [j \in DOMAIN calls |-> TStep(tpl, calls[j])],
                 mp |-> [j \in DOMAIN calls |-> PStep(tpl, calls[j], TStep(tpl, calls[j]))]]))
=============================================================================
