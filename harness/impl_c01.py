"""Replay of Ufunc.tla cases in the real library (C01).

observe(case) -> {"k": raise|val|bool|tuple|none, "exc": class name, "unit": alphabet name | "" (bare) | "?" ,
                  "vals": [repr(float)...] | None, "same": bool}
case = {fam, op, form, k0, n0, k1, n1}; unit names are those of spec/Ufunc.tla (model registry: dyadic units la/lb/
ta/ma/nq in a custom registry plus real special units) or "#<i>" = row i of the lookup table of the tree under test.
Python only builds the operands, makes the call and projects the result; no verdict is computed here."""

import operator
import re

_G = {}

MODEL_UNITS = {
    "la": ("la", None),
    "lb": ("lb", None),
    "ta": ("ta", None),
    "ma": ("ma", None),
    "nq": ("nq", None),
    "nd": ("dimensionless", None),
    "pc": ("percent", None),
    "lr": ("lb/la", None),  # a ratio unit: dimensionless by cancellation, scale 1024
    "rad": ("radian", None),
    "K": ("K", None),
    "R": ("R", None),
    "degC": ("degC", None),
    "degF": ("degF", None),
    "delta_degC": ("delta_degC", None),
    "delta_degF": ("delta_degF", None),
    "C": ("C", None),
    "statC": ("statC", None),
}


def setup(common=None):
    import numpy as np
    import unyt
    from unyt import dimensions as D
    from unyt.unit_object import Unit
    from unyt.unit_registry import UnitRegistry

    reg = UnitRegistry()
    reg.add("la", 1.0, D.length)
    reg.add("lb", 1024.0, D.length)
    reg.add("ta", 1.0, D.time)
    reg.add("ma", 1.0, D.mass)
    reg.add("nq", 0.25, D.dimensionless)
    units = {}
    syms = {}
    for name, (sym, _) in MODEL_UNITS.items():
        units[name] = Unit(sym, registry=reg)
        syms[name] = sym
    table = (common or {}).get("table", [])
    for row in table:  # real units of the tree's lookup table, by symbol
        units[row["name"]] = Unit(row["sym"], registry=reg)
        syms[row["name"]] = row["sym"]
    byexpr = {}
    for name in MODEL_UNITS:
        byexpr[str(units[name].expr)] = name
    for row in table:
        byexpr[str(units[row["name"]].expr)] = row["name"]  # in a table run the table's names win
    _G.update(syms=syms, np=np, unyt=unyt, reg=reg, units=units, byexpr=byexpr, ua=unyt.unyt_array, uq=unyt.unyt_quantity, Unit=Unit)


BASE = {0: (3.0, 2.5), 1: (2.0, 5.0)}

_DER = re.compile(r"^(la|lb)\^(-?\d+)/(\d+)(?:\.ta\^(-?\d+)/(\d+))?$")


def _der_exps(name):
    """Exponents of a derived unit name of Ufunc.tla (DName): '<la|lb>^p/q[.ta^r/s]' -> (base, p, q, r, s) or None."""
    m = _DER.match(name)
    if not m:
        return None
    base, p, q, r, s = m.group(1), int(m.group(2)), int(m.group(3)), int(m.group(4) or 0), int(m.group(5) or 1)
    return base, p, q, r, s


def _unit(name):
    """The unit object for a name of the alphabet; derived units (rational powers of the model base units) are built by
    unit algebra on first use and registered for the projection of results."""
    units = _G["units"]
    if name in units:
        return units[name]
    e = _der_exps(name)
    if e is None:
        raise KeyError(name)
    base, p, q, r, s = e
    u = units[base] ** (p / q) if p else None
    if r:
        t = units["ta"] ** (r / s)
        u = t if u is None else u * t
    units[name] = u
    _G["syms"][name] = str(u.expr)
    _G["byexpr"][str(u.expr)] = name
    return u


def _computed_unit(name):
    """h = 'computed': the unit object a computation on QUANTITIES of the base units leaves behind - np.cbrt / np.sqrt /
    a float power for roots, 1/x, x*x, x/y, x*y - instead of one built by unit algebra.  Base names keep their object."""
    np = _G["np"]
    e = _der_exps(name)
    if e is None:
        return _G["units"][name]
    _unit(name)  # registers the spelling for the projection of results
    base, p, q, r, s = e
    x = _G["ua"](np.array([1.0, 1.0]), _G["units"][base])
    res = None
    if p:
        if p == -1:
            res = 1.0 / x
        elif p == 2:
            res = x * x
        elif p != 1:
            res = x**p
        else:
            res = x
        if q == 2:
            res = np.sqrt(res)
        elif q == 3:
            res = np.cbrt(res)
        elif q != 1:
            res = res ** (1.0 / q)
    if r:
        y = _G["ua"](np.array([1.0, 1.0]), _G["units"]["ta"])
        if s != 1:
            y = y ** (1.0 / s)
        if res is None:
            res = 1.0 / y if r < 0 else y
        else:
            res = res / y if r < 0 else res * y
        if abs(r) != 1:
            raise ValueError(name)
    return res.units


def _other_unit(n):
    u = _G["units"][n]
    return _G["units"]["ta"] if u.dimensions == _G["units"]["la"].dimensions else _G["units"]["la"]


def mk(kind, n, pos, unit=None):
    """Build the operand of kind `kind` (see Ufunc.tla) with unit name n."""
    np = _G["np"]
    ua, uq = _G["ua"], _G["uq"]
    a, b = BASE[pos]
    if unit is not None:
        u = unit
    elif kind in ("q", "a", "az", "c", "lq", "lqm", "tq", "tqa", "tlq", "tlqm", "lqm3", "lzq", "lbq", "lqb", "e0", "e02", "e20", "a1", "q0a"):
        u = _unit(n)
    # size / shape classes (Ufunc.tla: ShapeKinds)
    if kind == "e0":
        return ua(np.array([], dtype=float), u)
    if kind == "e02":
        return ua(np.zeros((0, 2)), u)
    if kind == "e20":
        return ua(np.zeros((2, 0)), u)
    if kind == "a1":
        return ua(np.array([a]), u)
    if kind == "q0a":
        return ua(np.array(a), u)
    if kind == "be":
        return np.array([], dtype=float)
    if kind == "bel":
        return []
    # sequences mixing bare numbers and quantities, tuples, a three-element mixed list (Ufunc.tla: HetList, ListQ)
    if kind == "lzq":
        return [0.0, uq(b, u)]
    if kind == "lbq":
        return [a, uq(b, u)]
    if kind == "lqb":
        return [uq(a, u), b]
    if kind == "tlq":
        return (uq(a, u), uq(b, u))
    if kind == "tlqm":
        return (uq(a, u), uq(b, _other_unit(n)))
    if kind == "lqm3":
        return [uq(a, u), uq(b, u), uq(2.0, _other_unit(n))]
    # value classes (Ufunc.tla): tiny / denormal / NaN / inf are NOT zero; -0.0 IS zero
    if kind == "ts":
        return 1.0e-20
    if kind == "ds":
        return 5e-324
    if kind == "nz":
        return -0.0
    if kind == "ns":
        return float("nan")
    if kind == "is":
        return float("inf")
    if kind == "ta":
        return np.array([1.0e-17, 1.0e-20])
    if kind == "tm":
        return np.array([1.0e-17, 0.0])
    if kind == "t32":
        return np.array([1.0e-8, 1.0e-8], dtype=np.float32)
    if kind == "tl":
        return [1.0e-20, 0.0]
    if kind == "nza":
        return np.array([-0.0, 0.0])
    if kind == "na":
        return np.array([float("nan"), float("inf")])
    if kind == "tq":
        return uq(1.6e-19, u)
    if kind == "tqa":
        return ua(np.array([1.6e-19, 0.0]), u)
    if kind == "q":
        return uq(a, u)
    if kind == "a":
        return ua(np.array([a, b]), u)
    if kind == "az":
        return ua(np.zeros(2), u)
    if kind == "c":
        return ua(np.array([[a], [b]]), u)
    if kind == "bs":
        return a
    if kind == "ba":
        return np.array([a, b])
    if kind == "bl":
        return [a, b]
    if kind == "z":
        return 0.0
    if kind == "za":
        return np.zeros(2)
    if kind == "zl":
        return [0.0, 0.0]
    if kind == "lq":
        return [uq(a, u), uq(b, u)]
    if kind == "lqm":
        return [uq(a, u), uq(b, _other_unit(n))]
    raise ValueError(kind)


def snap(x):
    """numbers + unit of an operand (for the frame condition)."""
    np = _G["np"]
    if isinstance(x, (list, tuple)):
        return ("list", tuple(snap(e) for e in x))
    if isinstance(x, np.ndarray):
        # repr of the numbers: NaN must compare equal to itself, -0.0 must differ from 0.0
        return ("arr", x.shape, tuple(repr(v) for v in np.asarray(x, dtype=float).ravel().tolist()), str(getattr(x, "units", "")), type(x).__name__)
    return ("num", repr(x))


def uname(u):
    if u is None:
        return ""
    if u.is_dimensionless and float(u.base_value) == 1.0:
        return "nd"
    if _G.get("hnames") and str(u.expr) == "hx":
        # history cases: both operands' units are spelled hx; tell them apart by what they are
        for hu, name in _G["hnames"]:
            if hu.dimensions == u.dimensions and float(hu.base_value) == float(u.base_value):
                return name
        return "?"
    return _G["byexpr"].get(str(u.expr), "?")


def project(res):
    np = _G["np"]
    if res is None:
        return {"k": "none", "unit": "", "vals": None}
    if isinstance(res, tuple):
        last = res[-1]
        return {"k": "tuple", "unit": uname(getattr(last, "units", None)), "vals": None}
    if isinstance(res, (bool, np.bool_)):
        return {"k": "bool", "unit": "", "vals": [repr(float(res))]}
    arr = np.asarray(res)
    unit = uname(getattr(res, "units", None))
    if arr.dtype.kind == "b":
        return {"k": "bool", "unit": unit, "vals": [repr(float(v)) for v in arr.ravel().tolist()]}
    if arr.dtype.kind in "fiu":
        return {"k": "val", "unit": unit, "vals": [repr(float(v)) for v in arr.ravel().tolist()]}
    return {"k": "val", "unit": unit, "vals": None}


OPER = {
    "add": operator.add,
    "subtract": operator.sub,
    "remainder": operator.mod,
    "divmod": divmod,
    "multiply": operator.mul,
    "divide": operator.truediv,
    "floor_divide": operator.floordiv,
    "less": operator.lt,
    "less_equal": operator.le,
    "greater": operator.gt,
    "greater_equal": operator.ge,
    "equal": operator.eq,
    "not_equal": operator.ne,
}
IOPER = {
    "add": operator.iadd,
    "subtract": operator.isub,
    "remainder": operator.imod,
    "multiply": operator.imul,
    "divide": operator.itruediv,
    "floor_divide": operator.ifloordiv,
}
BSHAPE = {"s": (), "v": (2,), "c": (2, 1), "m": (2, 2), "w": (3,), "o": (1,), "e": (0,), "e02": (0, 2), "e20": (2, 0)}


def _shape(kind):
    if kind in ("q", "bs", "z", "ts", "ds", "nz", "ns", "is", "tq", "q0a"):
        return "s"
    return {"c": "c", "lqm3": "w", "a1": "o", "e0": "e", "be": "e", "bel": "e", "e02": "e02", "e20": "e20"}.get(kind, "v")


def _bc(a, b):
    """Broadcast shape class (same table as Ufunc.tla Bc)."""
    if a == "s":
        return b
    if b == "s" or a == b:
        return a
    if a == "o":
        return b
    if b == "o":
        return a
    if {a, b} == {"e02", "v"}:
        return "e02"
    if {a, b} == {"e20", "c"}:
        return "e20"
    if {a, b} == {"v", "c"}:
        return "m"
    return "x"


def _mask(case, alt=False):
    """A boolean mask / index array of the broadcast shape of the two operands (2 entries for the usual kinds)."""
    np = _G["np"]
    sh = BSHAPE.get(_bc(_shape(case["k0"]), _shape(case["k1"])), (2,))
    if sh in ((), (2,), (3,)):
        sh = (2,)
    n = int(np.prod(sh))
    base = [False, True] if alt else [True, False]
    return np.array([base[i % 2] for i in range(n)], dtype=bool).reshape(sh)


def call_ufunc(case, x0, x1):
    np = _G["np"]
    uf = getattr(np, case["op"])
    form = case["form"]
    if form == "call":
        return uf(x0, x1), None
    if form == "outer":
        return uf.outer(x0, x1), None
    if form == "operator":
        return OPER[case["op"]](x0, x1), None
    if form == "iop":
        return IOPER[case["op"]](x0, x1), None
    if form == "out":
        sh = BSHAPE[_bc(_shape(case["k0"]), _shape(case["k1"]))]
        out = _G["ua"](np.zeros(sh), _G["units"]["ma"])
        return uf(x0, x1, out=out), out
    if form == "at":
        return uf.at(x0, [0], x1), None
    if form == "reduce_initial":
        return uf.reduce(x0, initial=x1), None
    raise ValueError(form)


def _arr_args(case, x0, x1):
    """The call of one array function as (function, [(parameter name, value), ...], index of the first value slot,
    extra keyword arguments).  A parameter name None = positional-only in NumPy."""
    np = _G["np"]
    op = case["op"]
    f = getattr(np, {"copyto_where": "copyto", "histogram_range": "histogram"}.get(op, op))
    if op == "concatenate":
        return f, [(None, [x0, x1])], 0, {}
    if op in ("stack", "block"):
        return f, [("arrays", [x0, x1])], 0, {}
    if op in ("vstack", "hstack", "dstack", "column_stack"):
        return f, [("tup", [x0, x1])], 0, {}
    if op == "append":
        return f, [("arr", x0), ("values", x1)], 1, {}
    if op == "where":
        return f, [(None, _mask(case)), (None, x0), (None, x1)], 1, {}
    if op == "choose":
        return f, [("a", _mask(case, alt=True).astype(int)), ("choices", [x0, x1])], 1, {}
    if op == "select":
        default = _G["uq"](7.0, x0.units)
        return f, [("condlist", [_mask(case), _mask(case, alt=True)]), ("choicelist", [x0, x1])], 1, {"default": default}
    if op in ("intersect1d", "union1d", "setdiff1d", "setxor1d"):
        return f, [("ar1", x0), ("ar2", x1)], 1, {}
    if op == "isin":
        return f, [("element", x0), ("test_elements", x1)], 1, {}
    if op == "interp":
        return f, [("x", x0), ("xp", x1), ("fp", np.array([1.0, 2.0]))], 1, {}
    if op in ("linspace", "geomspace"):
        return f, [("start", x0), ("stop", x1), ("num", 3)], 1, {}
    if op == "einsum":
        return f, [(None, "i,i->i"), (None, x0), (None, x1)], 1, {}
    if op == "insert":
        return f, [("arr", x0), ("obj", 0), ("values", x1)], 2, {}
    if op == "searchsorted":
        return f, [("a", x0), ("v", x1)], 1, {}
    if op == "clip":
        return f, [("a", x0), ("a_min", x1), ("a_max", x1)], 1, {}
    if op == "put":
        return f, [("a", x0), ("ind", [0]), ("v", x1)], 2, {}
    if op == "place":
        return f, [("arr", x0), ("mask", np.array([True, False])), ("vals", x1)], 2, {}
    if op == "putmask":
        return f, [("a", x0), ("mask", np.array([True, False])), ("values", x1)], 2, {}
    if op == "put_along_axis":
        return f, [("arr", x0), ("indices", np.array([0])), ("values", x1), ("axis", 0)], 2, {}
    if op == "fill_diagonal":
        return f, [("a", x0), ("val", x1)], 1, {}
    if op in ("isclose", "allclose"):
        return f, [("a", x0), ("b", x1)], 1, {}
    if op in ("array_equal", "array_equiv"):
        return f, [("a1", x0), ("a2", x1)], 1, {}
    if op == "copyto":
        return f, [("dst", x0), ("src", x1)], 1, {}
    if op == "copyto_where":
        return f, [("dst", x0), ("src", x1)], 1, {"where": np.array([True, False])}
    if op == "pad":
        return f, [("array", x0), ("pad_width", 1)], 2, {"constant_values": x1}
    if op == "histogram_range":
        hi = _G["uq"](4.0, x1.units) if hasattr(x1, "units") else 4.0
        return f, [("a", x0)], 1, {"bins": 2, "range": (x1, hi)}
    raise ValueError(op)


ALIAS = {"clip": {"a_min": "min", "a_max": "max"}}  # NumPy >= 2.1 alias keyword names of value slots
OUTSHAPE = {"concatenate": (4,), "stack": (2, 2), "choose": (2,), "clip": (2,)}


def call_arrfn(case, x0, x1):
    """Make the call in the requested form (Ufunc.tla: ArrFormsAll); returns (result, out buffer or None)."""
    np = _G["np"]
    form = case.get("form", "call")
    f, args, first, extra = _arr_args(case, x0, x1)
    out = None
    if form in ("out", "kwout", "aliasout"):
        # a legal destination: the first operand's unit, the result's shape
        out = _G["ua"](np.full(OUTSHAPE[case["op"]], 9.0), x0.units)
        extra = dict(extra, out=out)
    if form in ("call", "out"):
        return f(*[v for _, v in args], **extra), out
    if form in ("kw", "kwout"):
        return f(*[v for _, v in args[:first]], **{n: v for n, v in args[first:]}, **extra), out
    if form == "kwall":
        return f(**{n: v for n, v in args}, **extra), out
    # two-bound operations: one-sided bounds and the alias names of the bounds
    head = [v for _, v in args[:first]]
    (nlo, lo), (nhi, hi) = args[first], args[first + 1]
    if form == "lo":
        return f(*head, lo, None, **extra), out
    if form == "hi":
        return f(*head, None, hi, **extra), out
    if form == "kwlo":
        return f(*head, **{nlo: lo}, **extra), out
    if form == "kwhi":
        return f(*head, **{nhi: hi}, **extra), out
    if form.startswith("method"):
        # the method spelling of a two-bound operation (a.clip): reaches unyt through __array_ufunc__
        m = getattr(head[0], case["op"])
        if form == "method":
            return m(lo, hi), out
        if form == "methodkw":
            return m(min=lo, max=hi), out
        if form == "methodlo":
            return m(lo), out
        return m(max=hi), out
    al = ALIAS[case["op"]]
    if form in ("alias", "aliasout"):
        return f(*head, **{al[nlo]: lo, al[nhi]: hi}, **extra), out
    if form == "aliaslo":
        return f(*head, **{al[nlo]: lo}, **extra), out
    if form == "aliashi":
        return f(*head, **{al[nhi]: hi}, **extra), out
    raise ValueError(form)


def alias_ops(_case=None):
    """Operations of the matrix whose value slots have alias keyword names in the NumPy at hand."""
    import inspect

    import numpy as np

    return sorted(op for op, al in ALIAS.items() if all(a in inspect.signature(getattr(np, op)).parameters for a in al.values()))


HDEF = {"la": (1.0, "length"), "lb": (1024.0, "length"), "ta": (1.0, "time"), "ma": (1.0, "mass"), "nq": (0.25, "dimensionless")}


def _history_units(case):
    """Registry history (Ufunc/MC_C01 `h`): the symbol hx is defined as n0, the first unit object is taken, hx is
    re-defined as n1 (modify by a quantity / remove + add / a second registry), the second unit object is taken."""
    from unyt import dimensions as D
    from unyt.unit_registry import UnitRegistry

    s0, d0 = HDEF[case["n0"]]
    s1, d1 = HDEF[case["n1"]]
    reg = UnitRegistry()
    reg.add("hx", s0, getattr(D, d0))
    u0 = _G["Unit"]("hx", registry=reg)
    h = case["h"]
    if h == "modify":
        reg.modify("hx", _G["uq"](1.0, _G["units"][case["n1"]]))
    elif h == "readd":
        reg.remove("hx")
        reg.add("hx", s1, getattr(D, d1))
    elif h == "tworeg":
        reg = UnitRegistry()
        reg.add("hx", s1, getattr(D, d1))
    else:
        raise ValueError(h)
    u1 = _G["Unit"]("hx", registry=reg)
    return u0, u1


BARE = ("bs", "ba", "bl", "z", "za", "zl", "ts", "ds", "nz", "ns", "is", "ta", "tm", "t32", "tl", "nza", "na", "be", "bel")


def observe(case):
    hist = case.get("h", "none") != "none"
    _G["hnames"] = None
    if case.get("h") == "computed":
        # derived units: the unit objects come out of computations on quantities (Ufunc.tla / MC_C01 DNext)
        hu0 = _computed_unit(case["n0"]) if case["k0"] not in BARE else None
        hu1 = _computed_unit(case["n1"]) if case["k1"] not in BARE else None
    elif hist:
        hu0, hu1 = _history_units(case)
        _G["hnames"] = [(hu0, case["n0"]), (hu1, case["n1"])]
    else:
        hu0 = hu1 = None
    try:
        return _observe(case, hu0, hu1)
    finally:
        _G["hnames"] = None


def _observe(case, hu0, hu1):
    np = _G["np"]
    fam = case["fam"]
    units = _G["units"]
    inplace_target = False
    if fam in ("ufunc", "arrfn", "setitem"):
        x0 = mk(case["k0"], case["n0"], 0, hu0)
        if fam == "arrfn" and case["op"] == "fill_diagonal":
            x0 = _G["ua"](np.array([[3.0, 2.5], [2.5, 3.0]]), hu0 if hu0 is not None else _unit(case["n0"]))
        x1 = mk(case["k1"], case["n1"], 1, hu1)
        ops = [x0, x1]
    elif fam == "conv":
        x0 = mk(case["k0"], case["n0"], 0, hu0)
        tgt = hu1 if hu1 is not None else _unit(case["n1"])
        x1 = tgt if case["form"] == "obj" else _G["syms"][case["n1"]]  # the symbol, not str(unit): str(delta_degC) does not parse back (C20)
        ops = [x0]
    else:  # unitop
        x0 = hu0 if hu0 is not None else _unit(case["n0"])
        x1 = hu1 if hu1 is not None else _unit(case["n1"])
        ops = []
    before = [snap(o) for o in ops]
    ubefore = (str(x0), str(x1)) if fam == "unitop" else None
    res = None
    out = None
    exc = ""
    target_unit = None
    try:
        if fam == "ufunc":
            res, out = call_ufunc(case, x0, x1)
        elif fam == "arrfn":
            res, out = call_arrfn(case, x0, x1)
            if res is None:
                inplace_target = True
        elif fam == "setitem":
            if case["form"] == "index":
                x0[0] = x1
            else:
                x0[:] = x1
            inplace_target = True
        elif fam == "conv":
            if case["op"] == "convert_to_units":
                res = x0.convert_to_units(x1)
                inplace_target = True
            else:
                res = getattr(x0, case["op"])(x1)
        else:
            res = OPER[case["op"]](x0, x1)
    except Exception as e:  # noqa: BLE001 - the exception is the observation
        exc = type(e).__name__
    after = [snap(o) for o in ops]
    same = before == after
    if fam == "arrfn" and exc and out is not None:
        # a refused call must not have written its out= buffer either
        same = same and snap(out) == snap(_G["ua"](np.full(out.shape, 9.0), x0.units))
    if fam == "unitop":
        same = ubefore == (str(x0), str(x1))
    if exc:
        return {"k": "raise", "exc": exc, "unit": "", "vals": None, "same": same}
    if inplace_target:
        # in-place call that returned: report the target's unit afterwards; the frame condition applies to the other operands
        return {"k": "none", "exc": "", "unit": uname(getattr(x0, "units", None)), "vals": None, "same": before[1:] == after[1:]}
    p = project(res)
    if fam == "ufunc" and case["form"] == "iop":
        same = before[1:] == after[1:]
    p.update(exc="", same=same)
    return p
