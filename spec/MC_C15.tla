------------------------------ MODULE MC_C15 ------------------------------
(* Bounded instance of Constants for C15: a single-step case table.  TLC     *)
(* enumerates every case                                                     *)
(*   guise : exported name x guise (plain, _mks, _cgs) x configuration x     *)
(*           comparison route (raw magnitude, .to(), in_base, cgs round      *)
(*           trip, ==, value ratio _cgs/_mks, the shown number re-entered    *)
(*           with the shown unit text, the tabulated guise / the guise       *)
(*           itself converted to the shown unit, the default constant        *)
(*           expressed in the configuration's unit system)                   *)
(*   rel   : defining relation x configuration x guise family                *)
(*   unit  : name that is also a unit name x configuration                   *)
(*   lit   : reference quantity (literature value, uncertainty class)        *)
(* evaluates the table-level clauses (dimension of each unit string,         *)
(* homogeneity of each relation by exponent-vector arithmetic, alias sets)   *)
(* and the transition's prediction, and exports one CASE record per case.    *)
EXTENDS Constants
CONSTANTS PairAll,         \* TRUE: every ordered pair of pair members (thorough); FALSE: neighbours in the ring of ranks
          CodeInTable      \* TRUE: the code-unit registries also go through the single-configuration case table (thorough)
CONSTANT CfgSel           \* "all" | "core": which configurations (quick tier drops nothing unless told to)
VARIABLE c

NoCase == [kind |-> "init", a |-> 0, g |-> "", cfg |-> 0, route |-> "", cfg2 |-> 0]
SelCfg == IF CfgSel = "all" THEN CfgIdx ELSE {k \in CfgIdx : Cfgs[k].core}
AllRoutes == {"raw", "to", "base", "cgsmks", "eq", "ratio", "shown", "tosys", "idem", "defbase"}
RoutesOf(g) == CASE g = "cgs" -> AllRoutes \ {"defbase"}
                 [] g = "mks" -> AllRoutes \ {"defbase", "ratio"}
                 [] OTHER -> AllRoutes \ {"ratio"}
\* the _mks / _cgs guises are built without the unit system: in the TLC-generated unit-system configurations only the
\* plain guise depends on the system (the other guises are covered by the registry configurations)
GuisesOf(k) == IF Cfgs[k].gensys THEN {"plain"} ELSE Guises
UnitNames == {n \in NameIdx : Names[n].isunit}
\* mix1 / mix2: the participants of a relation wear alternating guises (k-th term _mks / _cgs, or the reverse)
RelGuises(r) == IF Rels[r].form = "gauss" THEN {"cgs"} ELSE {"plain", "mks", "mix1", "mix2"}
RelGuisesOf(k) == IF Cfgs[k].gensys THEN {"plain"} ELSE IF Cfgs[k].genmod THEN Guises ELSE Guises \cup {"mix1", "mix2"}
\* constant against the unit of the same name: "unit" compares the scales, "quot" / "quotinv" read the quotient
\* (0.75 X-as-unit) / (X-as-constant) and its inverse as a pure number
UnitRoutes == {"unit", "quot", "quotinv"}
\* pairs of configurations (round 7): the members carry a rank > 0; quick tier: neighbours in the ring of ranks, thorough: all
PairMembers == {k \in SelCfg : Cfgs[k].pair > 0}
NPair == Cardinality(PairMembers)
Neighbours(A, B) == LET d == Cfgs[A].pair - Cfgs[B].pair IN d \in {1, -1, NPair - 1, 1 - NPair}
PairSel == {p \in PairMembers \X PairMembers : p[1] # p[2] /\ (PairAll \/ Neighbours(p[1], p[2]))}
\* every call form for the primary name of a row, the plain conversion for its aliases
PairFormsOf(n) == IF Names[n].ai = 0 THEN PairForms ELSE {"to"}
\* the top-level namespace holds the module's objects (identity is checked by the harness): two routes suffice;
\* registries with code units (thorough tier only in the case table) go through the routes that read the shown number
CfgRoutes(k) == CASE Cfgs[k].genmod -> {"raw", "to", "cgsmks", "eq", "shown", "tosys"}
                  [] Cfgs[k].kind = "top" -> {"raw", "eq"}
                  [] Cfgs[k].kind = "codereg" -> IF CodeInTable THEN {"raw", "to", "shown", "tosys", "idem"} ELSE {}
                  [] OTHER -> AllRoutes
\* The candidate cases, one set per kind (never united: TLC's union of large un-normalised sets is quadratic); the routes and
\* guises a configuration goes through are selected before the records are built
GuiseCasesOf(g, k) == {[kind |-> "guise", a |-> n, g |-> g, cfg |-> k, route |-> rt, cfg2 |-> 0] : n \in NameIdx, rt \in RoutesOf(g) \cap CfgRoutes(k)}
RelCases == {[kind |-> "rel", a |-> r, g |-> g, cfg |-> k, route |-> "rel", cfg2 |-> 0] : r \in RelIdx, g \in Guises \cup {"mix1", "mix2"}, k \in SelCfg}
UnitCases == {[kind |-> "unit", a |-> n, g |-> "plain", cfg |-> k, route |-> "unit", cfg2 |-> 0] : n \in UnitNames, k \in SelCfg}
QuotCases == {[kind |-> "unit", a |-> n, g |-> g, cfg |-> k, route |-> rt, cfg2 |-> 0] : n \in UnitNames, g \in Guises, k \in {x \in SelCfg : ~Cfgs[x].genmod}, rt \in {"quot", "quotinv"}}
PairCasesOf(p) == {[kind |-> "pair", a |-> n, g |-> "plain", cfg |-> p[1], route |-> f, cfg2 |-> p[2]] : n \in NameIdx, f \in PairForms}
LitCases == {[kind |-> "lit", a |-> q, g |-> "plain", cfg |-> 1, route |-> "lit", cfg2 |-> 0] : q \in QIdx}
\* the TLC-generated edited registries (thorough tier) are compared through a representative subset of the routes
Wanted(k) == CASE k.kind = "guise" -> k.route \in RoutesOf(k.g) \cap CfgRoutes(k.cfg) /\ (Bare(k.a) => (k.g = "plain" /\ k.route # "defbase")) /\ k.g \in GuisesOf(k.cfg)
               [] k.kind = "rel" -> k.g \in RelGuises(k.a) /\ k.g \in RelGuisesOf(k.cfg) /\ Cfgs[k.cfg].kind # "codereg"
               [] k.kind = "unit" -> /\ Cfgs[k.cfg].kind # "codereg" /\ (k.route = "unit" => k.g = "plain")
                                     /\ (k.g # "plain" => (~Cfgs[k.cfg].gensys /\ Unmodified(k.cfg)))
               [] k.kind = "pair" -> k.route \in PairFormsOf(k.a) /\ ~Bare(k.a)
               [] OTHER -> TRUE

Init == c = NoCase
Next == /\ c = NoCase
        /\ \/ \E g \in Guises, cf \in SelCfg : g \in GuisesOf(cf) /\ \E k \in GuiseCasesOf(g, cf) : Wanted(k) /\ c' = k
           \/ \E k \in RelCases : Wanted(k) /\ c' = k
           \/ \E k \in UnitCases : Wanted(k) /\ c' = k
           \/ \E k \in QuotCases : Wanted(k) /\ c' = k
           \/ \E p \in PairSel : \E k \in PairCasesOf(p) : Wanted(k) /\ c' = k
           \/ \E k \in LitCases : Wanted(k) /\ c' = k
Spec == Init /\ [][Next]_c

\* the transition's prediction for a guise case (exported for the evidence; Trace_C15 recomputes it)
Model(k) == IF k.kind # "guise" THEN [present |-> TRUE, l2 |-> 0, gauss |-> FALSE]
            ELSE LET ci == RowOf(k.a) cur == Cfgs[k.cfg].cur IN
                 [present |-> ExpPresent(ci, k.g), l2 |-> ExpL2(ci, k.cfg), gauss |-> ExpDim(ci, k.g, cur) # RowDim(ci)]
Export == c # NoCase => PrintT(ToJson([tag |-> "CASE", kind |-> c.kind, a |-> c.a, g |-> c.g, cfg |-> c.cfg, route |-> c.route, cfg2 |-> c.cfg2, m |-> Model(c)]))

TFail(clause, a) == PrintT(ToJson([tag |-> "TABLE-FAIL", clause |-> clause, a |-> a]))
\* table-level clauses, decided here (no observation needed)
Tables ==
  c = NoCase =>
    /\ \A n \in NameIdx : /\ (C15_RowDim(n) \/ TFail("RowDim", n))
                          /\ (C15_AliasRow(n) \/ TFail("AliasRow", n))
                          /\ (C15_NameUnique(n) \/ TFail("NameUnique", n))
    /\ \A r \in RelIdx : /\ (C15_RelHomog(r) \/ TFail("RelHomog", r))
                         /\ (RefRelHomog(r) \/ TFail("RefRelHomog", r))
                         /\ (RelExported(Rels[r]) \/ TFail("RelNotExported", r))
=============================================================================
