----------------------------- MODULE Trace_C09 -----------------------------
(* Trace validation for C09: the histories exported by MC_C09 were replayed  *)
(* in the real library; every step's observation comes back here.  An        *)
(* observed number is either a symbolic value of the specification (the      *)
(* harness matched the float within rounding: k = "sv") or a foreign cluster *)
(* (k = "other", equal ids = equal floats within the same tolerance).        *)
(*                                                                            *)
(* P (what the statement demands, evaluated on the OBSERVED object, which is  *)
(* tracked from the observations, never from the model):                      *)
(*   Pure     a copying entry point leaves bytes/unit/dtype/shape/name of its *)
(*            input unchanged (returning or raising)                          *)
(*   Gate     different dimensions, not both members -> InvalidUnitEquivalence*)
(*   Total    a covered request on 8-byte data returns (narrower data may be   *)
(*            refused: there may be no float type to hold the result), whatever *)
(*            unit the TARGET is expressed in - incl. the offset scales degC,   *)
(*            degF.  Not demanded of an INPUT that is a reading on an offset    *)
(*            scale (the library refuses arithmetic on such readings, loudly,   *)
(*            and documents that; but if it returns, Formula applies)           *)
(*   Formula  its numbers are the defining formula (Equiv!Phi) of the input,  *)
(*            wherever that number lies in the normal range of the RESULT's   *)
(*            float type (rep; matched by the harness at the coarser of the   *)
(*            input's and the result's precision): never inf/nan/garbage      *)
(*            where the formula value is representable.  The specification's  *)
(*            numbers are absolute; a result on an offset scale is read as    *)
(*            (y + off) * scale with the exact offsets of Equiv!Offsets, and   *)
(*            rep also requires that the absolute value is not much smaller    *)
(*            than the offset (else the reading cannot carry it)               *)
(*   Width    the result's float type is at least as wide as the input's item *)
(*            size (a narrower one could not hold "the formula's value" of    *)
(*            that input; C17 demands the same of plain conversions)          *)
(*   Unit     ... expressed in the requested unit: a string target is read in  *)
(*            the INPUT's registry (re-valued standard symbols, code units), a *)
(*            Unit object means itself; the numbers are converted to SI with   *)
(*            that unit's value, so "whatever units input and target are       *)
(*            expressed in" covers units whose value comes from the registry   *)
(*   Twin     the in-place form gives the numbers the copying form gave for   *)
(*            the same request on the same object                             *)
(*   TwinUnit ... and the unit the copying form gave: the same spelling and the *)
(*            same registry (the harness projects the result's unit to its    *)
(*            text and to whether it belongs to the registry the history's    *)
(*            object was created in / the default registry / another one);    *)
(*            compared between requests whose target was given as a string or *)
(*            a Unit of the input's registry, or in the same form             *)
(*   Inv/Path inside one equivalence (same keywords) all numbers observed for *)
(*            one member dimension are equal: there-and-back, via an          *)
(*            intermediate, repeated calls                                    *)
(* Not demanded: same-dimension requests (plain conversion, C03; the          *)
(* equivalence is ignored there - asserted by the repository's tests), what a *)
(* failed in-place call leaves behind (C18), result class/dtype (C16/C17),    *)
(* keyword arguments an equivalence does not take, that a covered request on  *)
(* an input in degC/degF returns.                                             *)
(* T: the observation equals Equiv!Outcome on the observed object.            *)
EXTENDS Equiv, IOUtils
Traces == JsonDeserialize(IOEnv.C09_OBS)
VARIABLES tid, l, cur, ctx, seen, direct
tvars == <<tid, l, cur, ctx, seen, direct>>

Known(vs) == \A i \in DOMAIN vs : vs[i].k = "sv"
ToSVs(vs) == [i \in DOMAIN vs |-> SV(vs[i].r, vs[i].e)]
NoSeen == [d \in AllDims |-> <<>>]
NoCtx == [eq |-> "", k |-> 0, od |-> ""]
CurOf(t) == [d |-> t.init.d, u |-> t.init.u, v |-> t.init.v, dt |-> t.init.dt, sh |-> t.init.sh, reg |-> t.init.reg]
TraceInit == /\ tid = 1 /\ l = 1
             /\ cur = IF Len(Traces) > 0 THEN CurOf(Traces[1]) ELSE [d |-> "", u |-> 0, v |-> <<>>, dt |-> "", sh |-> "", reg |-> ""]
             /\ ctx = NoCtx /\ seen = NoSeen /\ direct = {}

\* diagnostics: the numbers of the current object as text (keys of known findings use it)
VSig(vs) == IF ~Known(vs) THEN "foreign"
            ELSE LET f(i) == IF IsPure([r |-> vs[i].r, e |-> [j \in GI |-> IF j = 8 THEN 0 ELSE vs[i].e[j]]])
                             THEN ToString(vs[i].r[1]) \o "/" \o ToString(vs[i].r[2]) \o "e" \o ToString(vs[i].e[8] \div 4)
                             ELSE "sym" IN
                 IF Len(vs) = 1 THEN f(1) ELSE f(1) \o "," \o f(2)

Fail(clause, e, detail) ==
  PrintT(ToJson([tag |-> "P-FAIL", tid |-> tid, l |-> l, clause |-> clause, eq |-> e.eq, from |-> cur.d, to |-> Units[e.tu].d,
                 en |-> e.en, form |-> IF e.en \in CopyEntries THEN "copy" ELSE "inplace", dt |-> cur.dt, rdt |-> e.obs.dt, sh |-> cur.sh,
                 reg |-> Traces[tid].init.reg, tf |-> e.tf, k |-> e.k, uin |-> Units[cur.u].s, uout |-> Units[e.tu].s, vsig |-> VSig(cur.v), detail |-> detail]))

StepP(e) ==
  LET o == e.obs
      ta == cur.d
      tb == Units[e.tu].d
      copy == e.en \in CopyEntries
      cov == Covered(e.eq, ta, tb) /\ e.k \in KwOk(e.eq)
      unc == Uncovered(e.eq, ta, tb)
      fv == IF cov /\ Known(cur.v) THEN FormulaVals(e.eq, ta, tb, e.k, ToSVs(cur.v)) ELSE <<>>
      same == ctx.eq = e.eq /\ ctx.k = e.k
      seen0 == IF same THEN seen ELSE [d \in AllDims |-> IF d = ta THEN cur.v ELSE <<>>]
      od == IF same THEN ctx.od ELSE ta
      \* element-wise, where the formula value is representable in the result's float type
      RepIdx == {i \in DOMAIN o.v : i \in DOMAIN o.rep /\ o.rep[i]}
      allRep == \A i \in DOMAIN o.v : i \in RepIdx
      formulaBad == cov /\ o.k = "ok" /\ fv # <<>> /\
                    (Len(o.v) # Len(fv) \/ \E i \in RepIdx : ~(o.v[i].k = "sv" /\ SV(o.v[i].r, o.v[i].e) = fv[i]))
      \* claims about numbers are made for objects holding numbers of the specification's grid (the formulas' domain);
      \* an object that holds foreign numbers got them from a step that was already reported (e.g. an overflowed,
      \* negative flux whose fourth root is nan)
      consBad == cov /\ o.k = "ok" /\ Known(cur.v) /\ allRep /\ seen0[tb] # <<>> /\ o.v # seen0[tb]
      twins == {p \in direct : p.eq = e.eq /\ p.k = e.k /\ p.tu = e.tu} IN
  /\ (copy /\ o.pre # o.post) => Fail("Pure", e, [pre |-> o.pre, post |-> o.post])
  /\ (unc /\ ~(o.k = "raise" /\ o.exc = "InvalidUnitEquivalence")) => Fail("Gate", e, [k |-> o.k, exc |-> o.exc])
  /\ (cov /\ o.k # "ok" /\ Bytes(cur.dt) = 8 /\ ~IsOffset(cur.u)) => Fail("Total", e, [k |-> o.k, exc |-> o.exc])
  /\ (cov /\ o.k = "ok" /\ Bytes(o.dt) < Bytes(cur.dt)) => Fail("Width", e, [input |-> cur.dt, result |-> o.dt])
  /\ formulaBad => Fail("Formula", e, [observed |-> o.approx, expected |-> fv])
  /\ (cov /\ o.k = "ok" /\ ~o.ueq) => Fail("Unit", e, [unit |-> o.unit])
  /\ (~copy /\ o.k = "ok" /\ \E p \in twins : Len(p.v) # Len(o.v) \/ \E i \in RepIdx : p.rep[i] /\ p.v[i] # o.v[i])
        => Fail("Twin", e, [inplace |-> o.approx, copy |-> {p.approx : p \in twins}])
  /\ (~copy /\ o.k = "ok" /\ \E p \in twins : p.un # "" /\ (p.tf = e.tf \/ {p.tf, e.tf} \subseteq {"str", "uin"}) /\ (p.un # o.uname \/ p.ur # o.ureg))
        => Fail("TwinUnit", e, [inplace |-> <<o.uname, o.ureg>>, copy |-> {<<p.un, p.ur>> : p \in twins}])
  /\ (consBad /\ ~formulaBad) => Fail(IF tb = od THEN "Inv" ELSE "Path", e, [observed |-> o.approx, earlier |-> seen0[tb]])
  \* bookkeeping of the observed object
  /\ LET moved == o.k = "ok" /\ e.fo /\ e.en # "to_value"
         good == cov /\ o.k = "ok" /\ ~formulaBad /\ ~consBad /\ allRep IN
     /\ cur' = IF moved THEN [d |-> tb, u |-> e.tu, v |-> o.v, dt |-> o.dt, reg |-> cur.reg,
                              sh |-> IF e.en \in InPlaceEntries THEN cur.sh ELSE IF cur.sh = "q" THEN "q" ELSE "a"]
               ELSE cur
     /\ ctx' = IF cov /\ o.k = "ok" THEN (IF good \/ ~moved THEN [eq |-> e.eq, k |-> e.k, od |-> od] ELSE [eq |-> e.eq, k |-> e.k, od |-> tb])
               ELSE ctx
     /\ seen' = IF cov /\ o.k = "ok"
                THEN (IF good THEN [seen0 EXCEPT ![tb] = o.v]
                      ELSE IF moved THEN [d \in AllDims |-> IF d = tb THEN o.v ELSE <<>>]   \* the object now holds the odd numbers: new chain
                      ELSE seen0)
                ELSE seen
     /\ direct' = IF moved THEN {}
                  ELSE IF copy /\ o.k = "ok" /\ ta # tb THEN direct \cup {[eq |-> e.eq, k |-> e.k, tu |-> e.tu, v |-> o.v, rep |-> o.rep, approx |-> o.approx, un |-> o.uname, ur |-> o.ureg, tf |-> e.tf]}
                  ELSE direct

\* T: the transcription's prediction on the observed object
StepT(e) ==
  LET o == e.obs IN
  Known(cur.v) =>
    LET m == Outcome([d |-> cur.d, u |-> cur.u, v |-> ToSVs(cur.v), dt |-> cur.dt, sh |-> cur.sh, reg |-> cur.reg], e)
        ok == \/ m.k = "undef"
              \/ /\ m.k = o.k /\ m.exc = o.exc /\ o.frame
                 /\ m.k = "ok" => (/\ Len(o.v) = Len(m.v)
                                   /\ \A i \in DOMAIN o.v : (i \in DOMAIN o.rep /\ o.rep[i]) => (o.v[i].k = "sv" /\ SV(o.v[i].r, o.v[i].e) = m.v[i])
                                   /\ o.ueq /\ m.cls = o.cls /\ m.dt = o.dt)
                 /\ m.k = "raise" => o.pre = o.post IN
    ~ok => PrintT(ToJson([tag |-> "T-FAIL", tid |-> tid, l |-> l, en |-> e.en, eq |-> e.eq, from |-> cur.d, to |-> Units[e.tu].d,
                          model |-> [k |-> m.k, exc |-> m.exc, cls |-> m.cls, dt |-> m.dt],
                          observed |-> [k |-> o.k, exc |-> o.exc, cls |-> o.cls, dt |-> o.dt, ueq |-> o.ueq, frame |-> o.frame, approx |-> o.approx]]))

TraceNext ==
  \/ /\ tid <= Len(Traces) /\ l <= Len(Traces[tid].ev)
     /\ StepT(Traces[tid].ev[l])
     /\ StepP(Traces[tid].ev[l])
     /\ l' = l + 1 /\ tid' = tid
  \/ /\ tid <= Len(Traces) /\ l > Len(Traces[tid].ev)
     /\ tid' = tid + 1 /\ l' = 1
     /\ cur' = IF tid + 1 <= Len(Traces) THEN CurOf(Traces[tid + 1]) ELSE [d |-> "", u |-> 0, v |-> <<>>, dt |-> "", sh |-> "", reg |-> ""]
     /\ ctx' = NoCtx /\ seen' = NoSeen /\ direct' = {}
=============================================================================
