--------------------------- MODULE MC_C12_session ---------------------------
(* Bounded instance of Session (registry + quantities labelled from it).      *)
(* Every behaviour starts with the same three calls (a prefixable length      *)
(* symbol foo, a time symbol qux, one quantity 3 foo) and is free afterwards. *)
(*   MC_C12_session_trans : exhaustive to MaxLen with the history hidden by a *)
(*        VIEW; one witness history per explored TRANSITION is exported       *)
(*        (calls that only report - times, ==, <, copy, pickle, in_base - do  *)
(*        not change the state, so a state cover would never show them);      *)
(*        invariant ModelKeep = the model-level verdict on pickling.          *)
(*   MC_C12_session_sim   : -simulate beyond the bound, export at ExportLen.  *)
EXTENDS Session
CONSTANTS MaxLen, ExportLen,
          PreKind   \* 1: three fixed calls (add foo, add qux, make 3 foo), every call free afterwards
                    \* 2: five fixed calls (... then modify foo through the OTHER handle, make 5 foo: an old and a new
                    \*    quantity under one spelling), afterwards only calls on quantities and string reads (no edits)
NPre == IF PreKind = 1 THEN 3 ELSE 5

Pre(n) == CASE n = 1 -> RegCall(0, Add("foo", 2, TRUE, "L"))
            [] n = 2 -> RegCall(0, Add("qux", 2, FALSE, "T"))
            [] n = 3 -> Make(0, "foo")
            [] n = 4 -> RegCall(1, Modify("foo", 4))
            [] n = 5 -> Make(0, "foo")
Free ==
  \/ \E h \in Handles :
       \/ (PreKind = 1 /\ \E s \in Syms, sc \in Scales, px \in BOOLEAN, d \in Dims : RegCall(h, Add(s, sc, px, d)))
       \/ (PreKind = 1 /\ \E s \in Keys, sc \in Scales : RegCall(h, Modify(s, sc)))
       \/ (PreKind = 1 /\ \E s \in Keys : RegCall(h, Remove(s)))
       \/ (PreKind = 1 /\ \E s \in Keys : RegCall(h, Contains(s)))
       \/ \E p \in Probes : RegCall(h, Construct(p))
       \/ \E p \in Probes : Make(h, p)
  \/ \E i \in DOMAIN objs, p \in Probes : To(i, p) \/ ConvIn(i, p)
  \/ \E i \in DOMAIN objs, j \in DOMAIN objs : Plus(i, j) \/ Times(i, j) \/ Over(i, j) \/ ToU(i, j) \/ ConvInU(i, j) \/ Cmp("eq", i, j) \/ Cmp("lt", i, j)
  \/ \E i \in DOMAIN objs : Dup("copy", i) \/ Dup("deepcopy", i) \/ Pickle(i) \/ InBase(i)
SNext == /\ Len(hist) < MaxLen
         /\ IF Len(hist) < NPre THEN Pre(Len(hist) + 1) ELSE Free
SSpec == SInit /\ [][SNext]_svars

SView == <<user, lut, ucache, objs>>
Events(h, a) == [n \in DOMAIN h |-> [e |-> h[n], h |-> a[n].h]]
\* transition cover: one witness per explored transition, with the model's own result of the last call
ExportTrans == Len(hist') > NPre => PrintT(ToJson([tag |-> "HIST", ev |-> Events(hist', aux'), res |-> sres', objs |-> [n \in DOMAIN objs' |-> Proj(objs'[n])]]))
ExportHist == Len(hist) = ExportLen => PrintT(ToJson([tag |-> "HIST", ev |-> Events(hist, aux), res |-> sres, objs |-> [n \in DOMAIN objs |-> Proj(objs[n])]]))
\* model-level verdict (expected to be violated by the transcription of today's pickling: reported, not fatal)
ModelKeep == \A i \in DOMAIN objs : PickleKeeps(i)
ReportKeep == ~ModelKeep => PrintT(ToJson([tag |-> "MODEL-PICKLE", stale |-> {i \in DOMAIN objs : ~PickleKeeps(i)} # {}]))
=============================================================================
