----------------------------- MODULE Trace_C13 -----------------------------
(* Trace validation for C13: executions recorded from the real library       *)
(* (replayed TLC histories) are stepped through the MultiReg actions.        *)
(*   T  every step: result, table rows, memo keys, dict identity and class   *)
(*      of every registry are compared with the transition.                  *)
(*   P  every step: the C13 predicates are evaluated ON THE OBSERVATION      *)
(*      (digests of all registries before/after, default tables, exported    *)
(*      namespace, built-in conversions, refusal, registry of the result).   *)
(* P uses only the history (which call, through which registry, how each     *)
(* registry was created) and the observed outcomes - never the model state.  *)
EXTENDS MultiReg, IOUtils
Traces == JsonDeserialize(IOEnv.TRACES)
VARIABLES tid, l, pgrp, proute, pdef, dfoo, ddef, sync
tvars == <<vars, tid, l, pgrp, proute, pdef, dfoo, ddef, sync>>
KeyIdx(k) == CHOOSE i \in DOMAIN KeySeq : KeySeq[i] = k
ProbeIdx(p) == CHOOSE i \in DOMAIN ProbeSeq : ProbeSeq[i] = p

PInit == /\ pgrp = [r \in RegIds |-> r] /\ proute = [r \in RegIds |-> IF r = 0 THEN "default" ELSE "none"]
         /\ pdef = [r \in RegIds |-> r = 0]
         /\ dfoo = FALSE /\ ddef = FALSE /\ sync = TRUE
TraceInit == Init /\ tid = 1 /\ l = 1 /\ PInit

Ev == Traces[tid].ev[l]
Prev == IF l = 1 THEN Traces[tid].init ELSE Traces[tid].ev[l - 1]
StepAction(e) ==
  CASE e.op = "add" -> Add(e.r, e.sym, e.scale, e.pfx)
    [] e.op = "modify" -> Modify(e.r, e.sym, e.scale, e.via)
    [] e.op = "remove" -> Remove(e.r, e.sym)
    [] e.op = "contains" -> Contains(e.r, e.sym)
    [] e.op = "unit" -> Construct(e.r, e.str)
    [] e.op = "define" -> DefineUnit(e.r, e.scale, e.pfx, e.via)
    [] e.op = "handle" -> ShallowHandle(e.r, e.how)
    [] e.op = "picklereg" -> PickleReg(e.r, e.how, e.str)
    [] e.op = "inbase" -> InBase(e.r, e.str, e.sys, e.str2)
    [] e.op = "new" -> NewPlain(e.defs, e.usys)
    [] e.op = "lutalias" -> NewLutAlias(e.r, e.defs)
    [] e.op = "lutcopy" -> NewLutCopy(e.r)
    [] e.op = "json" -> FromJson(e.r)
    [] e.op = "deepcopy" -> DeepCopyReg(e.r)
    [] e.op = "unpickle" -> Unpickle(e.r, e.str)
    [] e.op = "unitcopy" -> UnitCopy(e.r, e.str, e.deep)
    [] e.op = "usys" -> MkUnitSystem(e.r, e.sym, e.obj)
    [] e.op = "addsymbols" -> AddSymbols(e.r)
    [] e.op = "addconstants" -> AddConstants(e.r)
    [] e.op = "rebind" -> Rebind(e.r, e.r2, e.str, e.bypass)
    [] e.op = "convert" -> Convert(e.r, e.str, e.r2, e.str2, e.how)
    [] e.op = "binop" -> BinOp(e.fn, e.r, e.str, e.r2, e.str2, e.warm)

(* ------------------------------- T ------------------------------- *)
ModelRows(r) == [i \in DOMAIN KeySeq |-> <<tabs'[regs'[r].d][KeySeq[i]].scale, tabs'[regs'[r].d][KeySeq[i]].pfx>>]
ModelCache(r) == [i \in DOMAIN ProbeSeq |-> memo'[regs'[r].c][ProbeSeq[i]] # None]
MinWith(S) == CHOOSE x \in S : \A y \in S : x <= y
ModelLutOf(r) == MinWith({q \in RegIds : regs'[q].live /\ regs'[q].d = regs'[r].d})
ModelCacheOf(r) == MinWith({q \in RegIds : regs'[q].live /\ regs'[q].c = regs'[r].c})
ResOk(e) ==
  CASE last'.k = "new" -> e.obs.k = "new" /\ e.obs.r = last'.r
    \* the result carries a registry object on the predicted TABLE (a memoised unit belongs to whichever handle built it)
    [] last'.k = "res" -> e.obs.k = "res" /\ ((e.op = "binop" /\ e.warm) \/
                           (e.obs.r \in RegIds /\ regs'[e.obs.r].live /\ regs'[e.obs.r].d = regs'[last'.r].d))
    [] last'.k = "same" -> e.obs.k = "same" /\ e.obs.r \in RegIds /\ regs'[e.obs.r].live /\ regs'[e.obs.r].d = regs'[last'.r].d
    [] OTHER -> last' = e.obs
TOk(e) == /\ ResOk(e)
          /\ \A r \in RegIds : regs'[r].live = e.live[r + 1]
          /\ \A r \in RegIds : regs'[r].live =>
               /\ ModelRows(r) = e.rows[r + 1]
               /\ ModelCache(r) = e.cache[r + 1]
               /\ ModelLutOf(r) = e.lutof[r + 1]
               /\ ModelCacheOf(r) = e.cacheof[r + 1]
               /\ regs'[r].kind = e.kind[r + 1]

(* ------------------------------- P ------------------------------- *)
Edit(e) == e.op \in {"add", "modify", "remove", "define"}
Creation(e) == e.op \in {"new", "lutalias", "lutcopy", "json", "deepcopy", "unpickle", "unitcopy", "handle", "picklereg"}
\* groups of registries NOT independently created: lut= (the caller handed over the same dict) and shallow handles
PGrp(e) == IF Creation(e) /\ e.obs.k = "new" THEN [pgrp EXCEPT ![e.obs.r] = IF e.op \in {"lutalias", "handle"} THEN pgrp[e.r] ELSE e.obs.r] ELSE pgrp
\* which registry objects are the default registry: registry 0 and every shallow handle (copy.copy) on it
PDef(e) == IF e.op = "handle" /\ e.obs.k = "new" THEN [pdef EXCEPT ![e.obs.r] = pdef[e.r]] ELSE pdef
PRoute(e) == IF Creation(e) /\ e.obs.k = "new" THEN [proute EXCEPT ![e.obs.r] = e.op] ELSE proute
PMayChange(e) == IF e.op \in {"binop", "rebind", "convert", "new"} \/ (pdef[e.r] /\ e.op \in {"modify", "remove"}) THEN {}
                 ELSE {pgrp[e.r]}
\* C13_Frame on the observation: which registries resolve something else than before the call
\* (dig = what Unit(p, registry=r) gives; num = NUMBERS computed through r: conversions into the built-in unit systems
\*  and through in_mks().to(name) - both observed from the same process-wide memo state, which the observation restores)
Victims(e) == {r \in RegIds : Prev.live[r + 1] /\ e.live[r + 1] /\ pgrp[r] \notin PMayChange(e)
                               /\ (e.dig[r + 1] # Prev.dig[r + 1] \/ e.num[r + 1] # Prev.num[r + 1])}
\* C13_Frame on the TABLES: the registries a call goes through are e.r (and e.r2 of a mixed call; the default registry when
\* the caller's quantity is built through it).  The table rows and memo keys of every registry of ANOTHER group are the same
\* before and after - a derived (prefixed) row or a memoised unit that appears in a registry nobody went through was written
\* through a dict that is shared behind the caller's back; it decides what that registry resolves once its base symbol is
\* re-valued (the row goes stale), although that registry never resolved it.
Participants(e) == {e.r} \cup (IF e.op \in {"binop", "rebind", "convert"} THEN {e.r2} ELSE {})
                         \cup (IF e.op = "modify" /\ e.via = "qty" THEN {0} ELSE {})
TableVictims(e) == {r \in RegIds : Prev.live[r + 1] /\ e.live[r + 1] /\ pgrp[r] \notin PMayChange(e)
                                    /\ (\A q \in Participants(e) : pgrp[q] # pgrp[r])
                                    /\ (e.rows[r + 1] # Prev.rows[r + 1] \/ e.cache[r + 1] # Prev.cache[r + 1])}
DFoo(e) == dfoo \/ (pdef[e.r] /\ e.op \in {"add", "define"})
DDef(e) == ddef \/ (e.r = 0 /\ e.op = "define")
\* classification of a binary operation whose result does not carry the left operand's registry
\* does registry[k] succeed on the observed table rows (a row, or a prefixable base row)?  This is the documented
\* look-up rule, evaluated on the observation; the left operand's registry "lacks" a symbol of the operation when not
RowOk(rows, k) == rows[KeyIdx(k)][1] # 0 \/ (IsPrefixed(k) /\ rows[KeyIdx(Base(k))][1] # 0 /\ rows[KeyIdx(Base(k))][2])
LeftLacks(e) == ~RowOk(Prev.rows[e.r + 1], e.str2) \/ ~RowOk(Prev.rows[e.r + 1], e.str)
\* the operands' registries are the registry objects the operands actually carry (obs.lreg / obs.rreg)
MixCls(e) == IF e.obs.lreg = e.obs.rreg THEN (IF e.warm THEN "same-registry-lru" ELSE "same-registry-cold")
             ELSE IF e.obs.r = e.obs.rreg THEN (IF LeftLacks(e) THEN "right-fallback" ELSE IF e.warm THEN "right-lru" ELSE "right-cold")
             ELSE (IF e.warm THEN "other-lru" ELSE "other-cold")
Fail(e, clause, victim, cls) ==
  PrintT(ToJson([tag |-> "P-FAIL", tid |-> tid, l |-> l, clause |-> clause, op |-> e.op,
                 actor |-> proute[e.r], victim |-> victim, cls |-> cls]))
Detail(e) == CASE e.op = "binop" -> e.fn
               [] e.op = "rebind" -> IF e.bypass THEN "bypass_validation" ELSE "validated"
               [] e.op \in {"convert", "handle", "picklereg"} -> e.how
               [] e.op = "inbase" -> e.sys
               [] e.op \in {"unitcopy"} -> IF e.deep THEN "deep" ELSE "shallow"
               [] e.op \in {"modify", "define"} -> IF e.via = "num" THEN "" ELSE e.via     \* value class of the argument
               [] e.op = "usys" -> IF e.obj THEN "unit-object" ELSE ""
               [] OTHER -> ""
PReport(e) ==
  /\ \A r \in Victims(e) : Fail(e, "Frame", IF r = 0 THEN "default" ELSE proute[r], Detail(e))
  /\ \A r \in TableVictims(e) : Fail(e, "FrameTable", IF r = 0 THEN "default" ELSE proute[r], Detail(e))
  \* keys outside the alphabet (derived rows such as uHz) appear in the default table only through a registry object on it
  /\ (e.dnewother > Prev.dnewother /\ ~(\E q \in Participants(e) : pdef[q])) => Fail(e, "DefaultTable", "new-symbol-other", Detail(e))
  /\ (pdef[e.r] /\ e.op \in {"modify", "remove"} /\ e.obs.k # "raise") => Fail(e, "DefaultRefuses", "default", e.sym)
  /\ (~e.dkeep) => Fail(e, "DefaultTable", "default_unit_registry.lut", Detail(e))
  /\ (~e.dlkeep) => Fail(e, "DefaultTable", "default_unit_symbol_lut", Detail(e))
  /\ (~e.usyskeep) => Fail(e, "DefaultTable", "unit_system_registry", Detail(e))
  /\ (\E i \in DOMAIN e.dnew : ~DFoo(e)) => Fail(e, "DefaultTable", "new-symbol", Detail(e))
  /\ (e.nsdig # Prev.nsdig) => Fail(e, "Namespace", "exported-objects", Detail(e))
  /\ (\E i \in DOMAIN e.nsnew : ~(DDef(e) /\ e.nsnew[i] = "foo")) => Fail(e, "Namespace", "new-attribute", Detail(e))
  /\ (e.conv # Prev.conv) => Fail(e, "BuiltinConversions", "default", Detail(e))
  /\ (e.op = "binop" /\ e.obs.k = "res" /\ e.obs.r # e.obs.lreg) => Fail(e, "MixedLeft", e.fn, MixCls(e))
  \* OwnTable: the unit that a conversion of r's data into a built-in unit system carries has the value r's OWN table
  \* gives it (otherwise something outside r - another registry's earlier request, the default registry - decided it)
  /\ \A r \in RegIds : e.live[r + 1] =>
       \A i \in DOMAIN e.num[r + 1] :
          (e.num[r + 1][i].k = "num" /\ e.num[r + 1][i].s # e.num[r + 1][i].ref) =>
             Fail(e, "OwnTable", IF r = 0 THEN "default" ELSE proute[r], Detail(e))

TraceNext ==
  \/ /\ tid <= Len(Traces) /\ l <= Len(Traces[tid].ev)
     /\ StepAction(Ev)
     /\ PReport(Ev)
     /\ pgrp' = PGrp(Ev) /\ proute' = PRoute(Ev) /\ pdef' = PDef(Ev) /\ dfoo' = DFoo(Ev) /\ ddef' = DDef(Ev)
     /\ sync' = (sync /\ TOk(Ev))
     /\ (sync /\ ~TOk(Ev)) => PrintT(ToJson([tag |-> "T-FAIL", tid |-> tid, l |-> l, op |-> Ev.op, model |-> last', observed |-> Ev.obs,
                                               rows |-> [r \in RegIds |-> IF regs'[r].live THEN ModelRows(r) ELSE <<>>],
                                               cache |-> [r \in RegIds |-> IF regs'[r].live THEN ModelCache(r) ELSE <<>>],
                                               lutof |-> [r \in RegIds |-> IF regs'[r].live THEN ModelLutOf(r) ELSE -1]]))
     /\ l' = l + 1 /\ tid' = tid
  \/ /\ tid <= Len(Traces) /\ l > Len(Traces[tid].ev)
     /\ tid' = tid + 1 /\ l' = 1
     /\ regs' = [r \in RegIds |-> IF r = 0 THEN [live |-> TRUE, d |-> 0, c |-> 0, kind |-> "default", grp |-> 0, route |-> "default"] ELSE Dead]
     /\ tabs' = [r \in RegIds |-> IF r = 0 THEN DefaultRegTab ELSE EmptyTab]
     /\ tflag' = [r \in RegIds |-> [def |-> r = 0, ident |-> r = 0]]
     /\ memo' = [r \in RegIds |-> IF r = 0 THEN DefaultRegCache ELSE NoCache]
     /\ hist' = <<>> /\ last' = None
     /\ pgrp' = [r \in RegIds |-> r] /\ proute' = [r \in RegIds |-> IF r = 0 THEN "default" ELSE "none"]
     /\ pdef' = [r \in RegIds |-> r = 0]
     /\ dfoo' = FALSE /\ ddef' = FALSE /\ sync' = TRUE
TraceSpec == TraceInit /\ [][TraceNext]_tvars
=============================================================================
