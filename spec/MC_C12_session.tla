--------------------------- MODULE MC_C12_session ---------------------------
(* Bounded instance of Session (registry + quantities labelled from it).      *)
(* Every behaviour starts with the same three calls (a prefixable length      *)
(* symbol foo, a time symbol qux, one quantity 3 foo) and is free afterwards. *)
(*   MC_C12_session_trans : exhaustive to MaxLen with the history hidden by a *)
(*        VIEW; one witness history per explored TRANSITION is exported       *)
(*        (calls that only report - times, ==, <, copy, pickle, in_base - do  *)
(*        not change the state, so a state cover would never show them);      *)
(*        invariant ModelKeep = the model-level verdict on pickling.          *)
(*   MC_C12_session_sim   : -simulate beyond the bound, export at ExportLen.  *)
EXTENDS Session
CONSTANTS MaxLen, ExportLen,
          PreKind   \* 1: three fixed calls (add foo, add qux, make 3 foo), every call free afterwards
                    \* 2: five fixed calls (... then modify foo through the OTHER handle, make 5 foo: an old and a new
                    \*    quantity under one spelling), afterwards only calls on quantities and string reads (no edits)
                    \* 3: five fixed calls (... the unit system, make 3 m, reduce it to the system once), every call free afterwards
NPre == CASE PreKind = 1 -> 4 [] PreKind = 2 -> 6 [] PreKind = 3 -> 5

Pre(n) == CASE n = 1 -> RegCall(0, Add("foo", 2, TRUE, "L"))
            [] n = 2 -> RegCall(0, Add("qux", 2, FALSE, "T"))
            [] n = 3 -> NewSys
            [] n = 4 /\ PreKind # 3 -> Make(0, "foo")
            [] n = 5 /\ PreKind = 2 -> RegCall(1, Modify("foo", 4))
            [] n = 6 /\ PreKind = 2 -> Make(0, "foo")
            [] n = 4 /\ PreKind = 3 -> MakeM(0)
            [] n = 5 /\ PreKind = 3 -> InSys(1)
Free ==
  \/ \E h \in Handles :
       \/ (PreKind = 1 /\ \E s \in Syms, sc \in Scales, px \in BOOLEAN, d \in Dims : RegCall(h, Add(s, sc, px, d)))
       \/ (PreKind # 2 /\ \E s \in Keys, sc \in Scales : RegCall(h, Modify(s, sc)))
       \/ (PreKind # 2 /\ \E s \in Keys : RegCall(h, Remove(s)))
       \/ (PreKind # 2 /\ \E s \in Keys : RegCall(h, Contains(s)))
       \/ (PreKind # 3 /\ \E p \in Probes : RegCall(h, Construct(p)))
       \/ (PreKind # 3 /\ \E p \in Probes : Make(h, p))
       \/ MakeM(h)
  \/ \E i \in DOMAIN objs, p \in Probes : To(i, p) \/ ConvIn(i, p)
  \/ \E i \in DOMAIN objs, j \in DOMAIN objs : Plus(i, j) \/ Times(i, j) \/ Over(i, j) \/ ToU(i, j) \/ ConvInU(i, j) \/ Cmp("eq", i, j) \/ Cmp("lt", i, j)
  \/ \E i \in DOMAIN objs : Dup("copy", i) \/ Dup("deepcopy", i) \/ Pickle(i) \/ InBase(i) \/ InSys(i) \/ ConvInSys(i)
SNext == /\ Len(hist) < MaxLen
         /\ IF Len(hist) < NPre THEN Pre(Len(hist) + 1) ELSE Free
SSpec == SInit /\ [][SNext]_svars

\* (the fixed calls that only report - the unit system, the first reduction - would otherwise look like stuttering)
SView == <<user, lut, ucache, objs, IF Len(hist) <= NPre THEN Len(hist) ELSE 0>>
Events(h, a) == [n \in DOMAIN h |-> [e |-> h[n], h |-> a[n].h]]
\* transition cover: one witness per explored transition, with the model's own result of the last call
ExportTrans == Len(hist') > NPre => PrintT(ToJson([tag |-> "HIST", ev |-> Events(hist', aux'), res |-> sres', objs |-> [n \in DOMAIN objs' |-> Proj(objs'[n])]]))
ExportHist == Len(hist) = ExportLen => PrintT(ToJson([tag |-> "HIST", ev |-> Events(hist, aux), res |-> sres, objs |-> [n \in DOMAIN objs |-> Proj(objs[n])]]))
\* ---- what TLC checks on the transcription itself (transitions => properties, exhaustively within the bound) ----
\* the last call, read back from the history
LastE == hist'[Len(hist')]
\* C12_Keep, frame: whatever the call, every quantity that existed before is still there, and only the target of an
\* in-place conversion may differ
FrameStep == /\ Len(objs') >= Len(objs)
             /\ \A n \in DOMAIN objs : objs'[n] = objs[n] \/ (LastE.op \in {"convin", "convinu", "convinsys"} /\ LastE.i = n)
\* C12_Keep, denotation: a conversion (copying or in place, to a string or to a Unit object) changes how a quantity is
\* written, never what it denotes - also for quantities labelled before an edit
DenoteStep ==
  /\ (LastE.op \in {"to", "tou"} /\ sres'.k = "obj") => SI(objs'[Len(objs')]) = SI(objs[LastE.i])
  /\ (LastE.op \in {"convin", "convinu", "convinsys"} /\ sres'.k = "obj") => SI(objs'[LastE.i]) = SI(objs[LastE.i])
  /\ (LastE.op = "insys") => RMul(sres'.o.v, sres'.o.s) = SI(objs[LastE.i])
  /\ (LastE.op = "plus" /\ sres'.k = "obj") => SI(objs'[Len(objs')]) = RAdd(SI(objs[LastE.i]), SI(objs[LastE.j]))
\* C12_Fresh at the moment of labelling: a new quantity, and the target of a string conversion, carry the scale the caller's
\* view of the registry gives the string NOW - unless a derived prefixed row that outlived an edit of its base symbol is
\* involved (the recorded finding `layer: lutrow`, which the transcription reproduces)
DerivedStale(p) == \E i \in DOMAIN Atoms(p) : LET a == Atoms(p)[i] IN IsPrefixed(a) /\ user[a].scale = 0 /\ lut[a].scale # 0
FreshStep == (LastE.op \in {"make", "to", "convin"} /\ sres'.k = "obj" /\ ~DerivedStale(LastE.str)) =>
               LET w == RefResolve(user', LastE.str) IN w.k = "unit" /\ sres'.o.s = w.s /\ sres'.o.d = w.d
ModelStep == Len(hist') > Len(hist) => (FrameStep /\ DenoteStep /\ FreshStep)
ModelProps == [][ModelStep]_svars
\* model-level verdict on pickling (violated by the transcription of today's __reduce__/__setstate__: reported, not fatal)
ModelKeep == \A i \in DOMAIN objs : PickleKeeps(i)
ReportKeep == ~ModelKeep => PrintT(ToJson([tag |-> "MODEL-PICKLE", n |-> Cardinality({i \in DOMAIN objs : ~PickleKeeps(i)})]))
=============================================================================
