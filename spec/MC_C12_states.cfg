CONSTANTS
  Alias = FALSE
  ExplicitPrefixed = FALSE
  MaxLen = 5
  ExportLen = 5
INIT Init
NEXT Next
VIEW View
ACTION_CONSTRAINT ExportTrans
CHECK_DEADLOCK FALSE
