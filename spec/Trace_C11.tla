----------------------------- MODULE Trace_C11 -----------------------------
(* Trace validation for C11.  Every case exported by MC_C11 was replayed on   *)
(* real unyt objects (harness/impl_c11.py); the observations come back here.  *)
(* For every step of every history:                                           *)
(*   T  the observation is compared with the implementation-shaped transition *)
(*      (PathEffect / RestSame / OrigSame of Persist.tla)       -> T-FAIL     *)
(*   P  the C11 predicates are evaluated ON THE OBSERVATION      -> P-FAIL    *)
(* After a T mismatch the model state is re-synchronised from the observed    *)
(* state, so later steps stay checkable.  P never looks at the model state.   *)
EXTENDS Persist, IOUtils
Traces == JsonDeserialize(IOEnv.TRACES)
VARIABLES tid, l
tvars == <<vars, tid, l>>
NoCombos == {}
NoOrders == {}

TraceInit == Init /\ tid = 1 /\ l = 0
Tr == Traces[tid]
NP == Len(Tr.chain)
NF == Len(Tr.fo)

RegSame(s) == s.rows = Tr.orig.rows /\ s.lutdig = Tr.orig.lutdig
OkIdx == {i \in 1..NP : Tr.steps[i].k = "ok"}
Min(S) == CHOOSE x \in S : \A y \in S : x <= y
Max(S) == CHOOSE x \in S : \A y \in S : x >= y
LastOk == IF OkIdx = {} THEN 0 ELSE Max(OkIdx)
\* class of the first path (up to step `upto`) after which Bad holds, "-" when none
FirstBad(Bad(_), upto) == LET B == {i \in OkIdx : i <= upto /\ Bad(Tr.steps[i])} IN IF B = {} THEN "-" ELSE PClass(Tr.chain[Min(B)])
IdentLost(s) == s.ident = "copy"
RegChanged(s) == ~RegSame(s)
UsysChanged(s) == s.usys # Tr.orig.usys
IdChanged(s) == ~s.idsame
ShareLost(s) == ~s.dimshared
NumsChanged(s) == s.cls # "unit" /\ ~C11_Numbers(s, Tr.orig)
UnitChanged(s) == ~C11_Units(s, Tr.orig)
\* why the final restored object may differ: the first path that lost each thing, if it is still lost at the end
Cause(Bad(_)) == IF LastOk > 0 /\ Bad(Tr.steps[LastOk]) THEN FirstBad(Bad, LastOk) ELSE "-"
RowDiff(s) == LET D == {i \in DOMAIN s.rows : s.rows[i] # Tr.orig.rows[i]} IN IF D = {} THEN 0 ELSE Min(D)

PFail(clause, path, f, extra) ==
  PrintT(ToJson([tag |-> "P-FAIL", tid |-> tid, l |-> l, clause |-> clause, path |-> path, followup |-> f, extra |-> extra,
                 ident |-> IF LastOk > 0 THEN Tr.steps[LastOk].ident ELSE "-",
                 identloss |-> Cause(IdentLost), regchg |-> Cause(RegChanged), usyschg |-> Cause(UsysChanged), idchg |-> Cause(IdChanged), sharechg |-> Cause(ShareLost), unitchg |-> Cause(UnitChanged)]))

(* ---- a persistence step ---- *)
PathStep ==
  LET p == Tr.chain[l]
      s == Tr.steps[l]
      model == PathEffect(p, st, obj)
      \* not transcribed (taken from the observation): which dimension object a re-parse finds in a table that mixes
      \* singletons and copies, and whether deep-copied COMPOUND dimensions are shared with the table
      \* (out-of-sync unit, .copy() after a path that rebuilt the registry: whether the travelling memo holds the name is not transcribed)
      loose2 == obj.sync # "insync" /\ p = "dot_copy" /\ st.regnew
      loose == \/ PClass(p) \in {"strrt", "string"} /\ st.lutmixed
               \/ loose2
               \/ PClass(p) \in {"deepcopy", "unitdeep"} /\ ~Atomic(obj.unit)
               \/ st.lutmixed /\ ~Atomic(obj.unit)
               \/ PClass(p) = "copy" /\ ~Atomic(obj.unit)
      tok == IF s.k = "ok"
             THEN /\ model.alive /\ model.cls = s.cls /\ model.usys = s.usys
                  /\ loose \/ (model.ident = s.ident /\ model.dimshared = s.dimshared)
                  /\ model.lutkept = RegSame(s) /\ model.idkept = s.idsame /\ (loose2 \/ model.unitkept = ~UnitChanged(s))
             ELSE ~model.alive
      synced == IF s.k = "ok"
                THEN [model EXCEPT !.alive = TRUE, !.cls = s.cls, !.ident = s.ident, !.usys = s.usys, !.lutkept = RegSame(s), !.idkept = s.idsame, !.dimshared = s.dimshared, !.unitkept = ~UnitChanged(s)]
                ELSE Dead(st) IN
  /\ chain' = Append(chain, p)
  /\ IF s.k = "skipped" THEN st' = st
     ELSE /\ st' = synced
          /\ (~tok) => PrintT(ToJson([tag |-> "T-FAIL", tid |-> tid, l |-> l, op |-> PClass(p), model |-> model,
                                    observed |-> [k |-> s.k, cls |-> s.cls, ident |-> s.ident, usys |-> s.usys, lutkept |-> RegSame(s), idkept |-> s.idsame, dimshared |-> s.dimshared, unitkept |-> ~UnitChanged(s)]]))
          \* P on the observation
          /\ IF s.k = "raise"
             THEN \* the object did not come back at all (to_string/from_string is not one of the statement's paths: not demanded)
                  (PClass(p) # "string") => PFail("restore", PClass(p), "", s.exc)
             ELSE /\ NumsChanged(s) => PFail("numbers", FirstBad(NumsChanged, l), "", "")
                  /\ UnitChanged(s) => PFail("units", FirstBad(UnitChanged, l), "", IF s.unit # Tr.orig.unit THEN "descriptor" ELSE "eq")
                  /\ (~C11_Registry(s, Tr.orig)) => PFail("registry", FirstBad(RegChanged, l), "", IF RowDiff(s) = 0 THEN "other-row" ELSE Tr.watch[RowDiff(s)])
  /\ UNCHANGED <<phase, obj, fups, order>>

(* ---- a follow-up step ---- *)
\* not demanded (and not transcribed): WHICH of the two units of the same name - the one the object carries or the table's - a
\* conversion of an out-of-sync object into the registry's code unit system is expressed in.  Both results describe the same
\* physical quantity; which one comes out depends on whether the registry's string memo holds the name (Unit.copy()), and a
\* rebuilt registry starts with an empty memo
StaleCode(f) == obj.sync # "insync" /\ f \in {"in_code", "base_equiv_code"}
FollowStep ==
  LET j == l - NP - 1
      f == Tr.fups[j]
      fo == Tr.fo[j]
      rs == SameOutcome(fo.rest, fo.base)
      os == SameOutcome(fo.orig, fo.base)
      part(a) == IF a.k # fo.base.k THEN (IF a.k = "raise" THEN "refuses" ELSE "returns") ELSE IF a.vals # fo.base.vals THEN "value" ELSE "unit" IN
  /\ fups' = Append(fups, [f |-> f, rest |-> rs, orig |-> os])
  \* not transcribed: x*x on a restored LOGARITHMIC array goes through _multiply_units -> simplify -> _cancel_mul, which rebuilds
  \* the factors with sympy operations; sympy's process-wide cache hands back whichever of the equal dimension symbols
  \* (singleton or copy) it saw first, so whether the guard fires depends on what ran before
  \* (also not transcribed: list_same_dimensions of an angle unit in a registry that got the removed rad back - the list is
  \* built by identity and by presence at once)
  \* (objects out of sync with their registry: not transcribed once the unit changed scale - refusals of offset units hide the
  \* change - nor for the conversions into the code system, see StaleCode)
  /\ (~(f = "mul_self" /\ UnitRow(obj.unit).dim = "logarithmic") /\ ~(f = "list_same" /\ obj.reg = "customrm" /\ UnitRow(obj.unit).dim = "angle")
        /\ ~(obj.sync # "insync" /\ (~st.unitkept \/ StaleCode(f)))
        /\ ~(RestSame(f, obj, st, order) = rs /\ OrigSame(f, obj, st, order) = os))
       => PrintT(ToJson([tag |-> "T-FAIL", tid |-> tid, l |-> l, op |-> "follow:" \o f,
                         model |-> [rest |-> RestSame(f, obj, st, order), orig |-> OrigSame(f, obj, st, order)], observed |-> [rest |-> rs, orig |-> os]]))
  /\ (f \notin NotDemanded /\ ~StaleCode(f) /\ ~rs) => PFail("follow_rest", "", f, part(fo.rest))
  /\ (f \notin NotDemanded /\ ~StaleCode(f) /\ ~os) => PFail("follow_orig", "", f, part(fo.orig))
  /\ UNCHANGED <<phase, obj, chain, st, order>>

TraceNext ==
  /\ tid <= Len(Traces)
  /\ \/ /\ l = 0 /\ Build(Tr.cls, Tr.reg, Tr.unit, Tr.pre, Tr.memo, Tr.sync) /\ l' = 1 /\ tid' = tid
     \/ /\ l >= 1 /\ l <= NP /\ PathStep /\ l' = l + 1 /\ tid' = tid
     \/ /\ l = NP + 1 /\ phase' = "follow" /\ order' = Tr.order /\ UNCHANGED <<obj, chain, st, fups>> /\ l' = l + 1 /\ tid' = tid
     \/ /\ l >= NP + 2 /\ l <= NP + 1 + NF /\ FollowStep /\ l' = l + 1 /\ tid' = tid
     \/ /\ l = NP + 2 + NF /\ tid' = tid + 1 /\ l' = 0
        /\ phase' = "new" /\ obj' = NoObj /\ chain' = <<>> /\ st' = NoSt /\ fups' = <<>> /\ order' = ""
=============================================================================
