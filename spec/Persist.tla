------------------------------ MODULE Persist ------------------------------
(* C11 - persisted quantities and units come back meaning and behaving the    *)
(* same.                                                                      *)
(*                                                                            *)
(* A HISTORY is: build an object (quantity / array / unit over a unit of the  *)
(* alphabet, in the default registry or in a custom registry with added,      *)
(* modified, prefixable, offset, logarithmic and angle symbols and its own    *)
(* unit system), send it through a CHAIN of persistence paths, then apply the *)
(* follow-up battery to the original and to the restored object, in either    *)
(* order.                                                                     *)
(*                                                                            *)
(* Transitions (T) are implementation-shaped: the abstract object carries     *)
(*   ident   in {singleton, copy, na}: is the (bare) base-dimension symbol of *)
(*           its unit the library's own object of unyt.dimensions - the code  *)
(*           branches on identity (`is angle`, `is temperature`,              *)
(*           `is logarithmic`), array.py:203/212/1830/1897/1987,              *)
(*           unit_object.py:382/397/434/469, _array_functions.py:865          *)
(*   regnew  a new registry object was built on the way                       *)
(*   usys    the registry's default unit system (UnitRegistry.unit_system)    *)
(*   lutkept the registry table still holds what the caller put in            *)
(*           (UnitRegistry.__deepcopy__ writes the defaults over it)          *)
(*   idkept  registry.unit_system_id (md5 of repr of the rows) is the         *)
(*           original's (JSON turns np.float64 into float: other repr)        *)
(*   dimshared  unit.dimensions is the object held by the registry's rows     *)
(*   lutmixed   the table holds singletons and copies side by side            *)
(*   key        spelling under which the registry's string memo holds the unit*)
(* and every path says what it rebuilds:                                      *)
(*   pickle*        array.py:2168-2192  str(units) + registry.lut ->          *)
(*                  UnitRegistry(lut=..., add_default_symbols=False), Unit    *)
(*                  re-parsed; dimension symbols as unpickled (copies)        *)
(*   deepcopy*, Unit.copy(deep=True)   unit_object.py:493-505,                *)
(*                  unit_registry.py:271  deep-copied dimensions, registry    *)
(*                  type(self)(lut=deepcopy(lut)) - defaults written over it  *)
(*   copy.copy / .copy()               same unit object / same registry       *)
(*   str round trip                    re-parse in the object's registry      *)
(*   registry to_json/from_json        cached_sympify -> library singletons   *)
(*   savetxt/loadtxt                   re-parse in the default registry       *)
(*   to_string/from_string             re-parse (regexp does not take the     *)
(*                                     degree sign: refused for degC, degF,   *)
(*                                     delta_degC - not demanded)             *)
(*   unitkept   the unit still has the original's scale (re-parsing "mile" in *)
(*              a deep-copied registry that lost the modification changes it) *)
(* The property side (C11_* at the bottom) only says what the statement says: *)
(* the restored object has the same numbers, an equal unit, the same registry *)
(* contents, and every follow-up gives the same outcome as on the pristine    *)
(* original.                                                                  *)
EXTENDS Integers, Sequences, FiniteSets, TLC, Json

(* ---- alphabet ---- *)
\* dim: which base dimension (bare symbol) or "one" / "compound"; off: offset scale; deg: str() carries a degree sign;
\* delta: a temperature-difference unit (its str() was not re-readable before repository fix 66fb0f8; the flag is no longer
\* used by the transitions); cust: exists only in the custom registries
UnitTable == <<
  [name |-> "m",            dim |-> "length",      off |-> FALSE, deg |-> FALSE, delta |-> FALSE, cust |-> FALSE],
  [name |-> "km",           dim |-> "length",      off |-> FALSE, deg |-> FALSE, delta |-> FALSE, cust |-> FALSE],
  [name |-> "mile",         dim |-> "length",      off |-> FALSE, deg |-> FALSE, delta |-> FALSE, cust |-> FALSE],
  [name |-> "km/hr",        dim |-> "compound",    off |-> FALSE, deg |-> FALSE, delta |-> FALSE, cust |-> FALSE],
  [name |-> "erg",          dim |-> "compound",    off |-> FALSE, deg |-> FALSE, delta |-> FALSE, cust |-> FALSE],
  [name |-> "T",            dim |-> "compound",    off |-> FALSE, deg |-> FALSE, delta |-> FALSE, cust |-> FALSE],
  [name |-> "dimensionless", dim |-> "one",        off |-> FALSE, deg |-> FALSE, delta |-> FALSE, cust |-> FALSE],
  [name |-> "degree",       dim |-> "angle",       off |-> FALSE, deg |-> FALSE, delta |-> FALSE, cust |-> FALSE],
  [name |-> "rad",          dim |-> "angle",       off |-> FALSE, deg |-> FALSE, delta |-> FALSE, cust |-> FALSE],
  [name |-> "K",            dim |-> "temperature", off |-> FALSE, deg |-> FALSE, delta |-> FALSE, cust |-> FALSE],
  [name |-> "degC",         dim |-> "temperature", off |-> TRUE,  deg |-> TRUE,  delta |-> FALSE, cust |-> FALSE],
  [name |-> "degF",         dim |-> "temperature", off |-> TRUE,  deg |-> TRUE,  delta |-> FALSE, cust |-> FALSE],
  [name |-> "delta_degC",   dim |-> "temperature", off |-> FALSE, deg |-> TRUE,  delta |-> TRUE,  cust |-> FALSE],
  [name |-> "dB",           dim |-> "logarithmic", off |-> FALSE, deg |-> FALSE, delta |-> FALSE, cust |-> FALSE],
  [name |-> "Np",           dim |-> "logarithmic", off |-> FALSE, deg |-> FALSE, delta |-> FALSE, cust |-> FALSE],
  [name |-> "foo",          dim |-> "length",      off |-> FALSE, deg |-> FALSE, delta |-> FALSE, cust |-> TRUE],
  [name |-> "kpfoo",        dim |-> "time",        off |-> FALSE, deg |-> FALSE, delta |-> FALSE, cust |-> TRUE],
  [name |-> "ofoo",         dim |-> "temperature", off |-> TRUE,  deg |-> FALSE, delta |-> FALSE, cust |-> TRUE],
  [name |-> "afoo",         dim |-> "angle",       off |-> FALSE, deg |-> FALSE, delta |-> FALSE, cust |-> TRUE],
  [name |-> "lfoo",         dim |-> "logarithmic", off |-> FALSE, deg |-> FALSE, delta |-> FALSE, cust |-> TRUE],
  [name |-> "foo/pfoo",     dim |-> "compound",    off |-> FALSE, deg |-> FALSE, delta |-> FALSE, cust |-> TRUE] >>
UnitNames == {UnitTable[i].name : i \in DOMAIN UnitTable}
UnitRow(n) == UnitTable[CHOOSE i \in DOMAIN UnitTable : UnitTable[i].name = n]
Atomic(n) == UnitRow(n).dim \notin {"one", "compound"}

\* customrm: the custom registry from which built-in symbols were REMOVED (t; rad, which has alias spellings and prefixed
\* forms) and one was removed and re-added with another dimension and prefixability (bar)
Regs == {"default", "custom", "customcgs", "customrm"}
Classes == {"quantity", "array", "unit"}

PickleProtocols == {"pickle2", "pickle3", "pickle4", "pickle5"}
(* ---- the savetxt / loadtxt call form (every documented savetxt parameter that shapes the file) ---- *)
\* columns  c1 the object alone; c2 a km/hr column first, the object last; c3 a km/hr column, the object, a bare ndarray last
\* header   h0 none; h2 two lines of words; hm a user header that contains the marker line "Units" and a unit word; hu one
\*          line with as many unit-like words as there are columns
\* footer   f0 none; fw one word ("end"); fu as many unit-like words as columns ("s kg K"...); fm the marker line "Units"
\*          followed by a line of unit-like words; fn a bare number
\* delimiter dt tab (default); dc comma; ds blank       usecols  u0 none; u1 only the object's column;
\*          ur every column in REVERSED order; un the object's column by its NEGATIVE index
\* The unit line savetxt writes is the comment line right before the first data row: that and nothing else names the units.
SvC == {"c1", "c2", "c3"}   SvH == {"h0", "h2", "hm", "hu"}   SvF == {"f0", "fw", "fu", "fm", "fn"}   SvD == {"dt", "dc", "ds"}   SvU == {"u0", "u1", "ur", "un"}
SvName(c, h, f, d, u) == "savetxt_" \o c \o "_" \o h \o "_" \o f \o "_" \o d \o "_" \o u
SvDev(c, h, f, d, u) == (IF c = "c1" THEN 0 ELSE 1) + (IF h = "h0" THEN 0 ELSE 1) + (IF f = "f0" THEN 0 ELSE 1) + (IF d = "dt" THEN 0 ELSE 1) + (IF u = "u0" THEN 0 ELSE 1)
SvAll == {SvName(c, h, f, d, u) : c \in SvC, h \in SvH, f \in SvF, d \in SvD, u \in SvU}
\* every form that leaves the defaults in at most two parameters
SvPairwise == {SvName(x[1], x[2], x[3], x[4], x[5]) : x \in {y \in SvC \X SvH \X SvF \X SvD \X SvU : SvDev(y[1], y[2], y[3], y[4], y[5]) <= 2}}
SvLegacy == {"savetxt", "savetxt2"}      \* = c1 h0 f0 dt u0 and c2 h2 f0 dt u0
AllPaths == PickleProtocols \cup {"pickle_nested", "pickle_withunit", "copy_copy", "deepcopy", "deepcopy_nested", "dot_copy",
             "unit_copy_deep", "str_roundtrip", "json_registry", "string_roundtrip"} \cup SvLegacy
PClass(p) == CASE p \in PickleProtocols \cup {"pickle_nested", "pickle_withunit"} -> "pickle"
               [] p \in {"deepcopy", "deepcopy_nested"} -> "deepcopy"
               [] p = "unit_copy_deep" -> "unitdeep"
               [] p \in {"copy_copy", "dot_copy"} -> "copy"
               [] p = "str_roundtrip" -> "strrt"
               [] p = "json_registry" -> "json"
               [] p = "string_roundtrip" -> "string"
               [] OTHER -> "savetxt"

\* the follow-up battery, in the (fixed) order it is applied; each follow-up pair starts from empty process-wide memos
FupSeq == << "sin", "cos", "tan", "mul_self", "div_self", "square", "mul_scalar", "div_scalar", "add_self", "sub_self",
             "add_orig", "radd_orig", "sub_orig", "rsub_orig", "mul_orig", "eq_orig", "lt_orig", "ueq_orig", "hash_orig",
             "diff", "ptp", "in_base", "in_cgs", "in_mks", "in_code", "base_equiv_code", "construct_t", "construct_rad",
             "construct_radian", "construct_mrad", "construct_bar", "construct_mbar", "contains_removed", "to_radian", "to_custom", "convert_custom", "to_value",
             "prefix_construct", "custom_construct", "umul_self", "upow2", "umul_m", "udiv_orig", "is_dimensionless",
             "same_dims", "base_equiv", "cgs_equiv", "conv_factor", "list_same", "num_times_unit", "qty_times_unit",
             "str_unit", "latex" >>
Fups == {FupSeq[i] : i \in DOMAIN FupSeq}
\* follow-ups that are observed and transcribed but not demanded (none at present: the hash of the unit against the hash
\* of the original's unit is demanded - equal units must be usable as the same dictionary key)
NotDemanded == {}

CONSTANTS MaxChain,     \* longest chain of persistence paths
          PathSet,      \* paths enabled in this instance
          Combos,       \* <<registry, unit name>> pairs enabled
          ClsSet, OrderSet,
          PreSet        \* <<pre, memo, sync>> triples: what happened to the registry BEFORE the object was persisted
\* pre   "idlast"  every prefixed symbol the history uses was resolved (derived rows written back) BEFORE the registry's id
\*                 (unit_system_id, an md5 of the table memoised in _unit_system_id) was computed and the "code" unit
\*                 system was registered under it
\*       "idfirst" the code unit system was registered first; prefixed symbols are first used afterwards: the look-up
\*                 writes derived rows into the table but does not reset the memoised id (unit_registry.py:333)
\* memo  "warm"    the object's unit was built from the spelling str(unit): the registry's string memo holds it
\*       "cold"    it was built from another spelling ("1*km"): Unit.copy() does not find it in the memo
\* sync  "insync"   the unit the object carries is what its name means in its registry
\*       "revalued" AFTER the object was created every symbol its unit names was re-valued with registry.modify (documented:
\*                  "useful for adjusting code units after parsing parameters"); the existing object keeps the scale it was
\*                  created with (the library's rule, C12) and differs from the table entry of the same name
\*       "shadow"   the unit was built with the public constructor Unit(name, base_value=4*v, base_offset, dimensions):
\*                  explicit values under a name the registry also holds
\*       for the last two "warm" means: the name was looked up again afterwards, the string memo holds the TABLE's unit

VARIABLES phase, obj, chain, st, fups, order
vars == <<phase, obj, chain, st, fups, order>>

NoObj == [cls |-> "", reg |-> "", unit |-> "", pre |-> "", memo |-> "", sync |-> ""]
NoSt == [alive |-> FALSE, cls |-> "", ident |-> "na", regnew |-> FALSE, usys |-> "", lutkept |-> TRUE, idkept |-> TRUE, dimshared |-> TRUE, lutmixed |-> FALSE, key |-> "", unitkept |-> TRUE]
Init == phase = "new" /\ obj = NoObj /\ chain = <<>> /\ st = NoSt /\ fups = <<>> /\ order = ""

Available(r, u) == (UnitRow(u).cust => r # "default") /\ (r = "customrm" => u # "rad")
OrigUsys(r) == IF r = "customcgs" THEN "cgs" ELSE "mks"

Build(c, r, u, pre, memo, sync) ==
  /\ phase = "new" /\ Available(r, u)
  /\ (sync # "insync" => u # "dimensionless")   \* (names no symbol)
  /\ (sync = "revalued" => r # "default")        \* (the default registry refuses modify)
  /\ (r = "default" => pre = "idlast")      \* the default registry's id is computed at import
  /\ obj' = [cls |-> c, reg |-> r, unit |-> u, pre |-> pre, memo |-> memo, sync |-> sync]
  /\ st' = [alive |-> TRUE, cls |-> c, ident |-> IF UnitRow(u).dim = "compound" THEN "na" ELSE "singleton", regnew |-> FALSE,
            usys |-> OrigUsys(r), lutkept |-> TRUE, idkept |-> TRUE, dimshared |-> TRUE, lutmixed |-> FALSE, key |-> IF memo = "warm" \/ r = "default" THEN "expr" ELSE "cold", unitkept |-> TRUE]   \* (the default registry's memo is warm from import)
  /\ phase' = "paths" /\ UNCHANGED <<chain, fups, order>>

(* ---- which path applies to which object ---- *)
UnitPaths == PickleProtocols \cup {"pickle_nested", "copy_copy", "deepcopy", "deepcopy_nested", "dot_copy", "unit_copy_deep", "str_roundtrip", "json_registry"}
ArrayPaths == PickleProtocols \cup {"pickle_nested", "pickle_withunit", "copy_copy", "deepcopy", "deepcopy_nested", "dot_copy", "str_roundtrip", "json_registry"}
\* savetxt/loadtxt has no registry argument: only demanded for objects of the default registry
\* paths that carry the unit OBJECT (value, offset, dimensions) rather than its name: object copies, and the pickle of a Unit
\* (default object protocol).  The other routes (pickle of arrays/quantities = str(units) + table, str(units), JSON, savetxt)
\* carry the NAME: the statement itself lists "rebuilt from str(units)" as a route, so it speaks of units that are what their
\* name means; an object that is out of sync with its registry is only demanded to survive the object-carrying routes
Carrying(p, s) == \/ p \in {"copy_copy", "dot_copy", "deepcopy", "deepcopy_nested", "unit_copy_deep"}
                  \/ s.cls = "unit" /\ p \in PickleProtocols \cup {"pickle_nested"}
Applicable(p, s, o) ==
  /\ CASE s.cls = "unit" -> p \in UnitPaths
        [] s.cls = "array" -> p \in ArrayPaths \cup (IF o.reg = "default" THEN SvLegacy \cup SvAll ELSE {})
        [] OTHER -> p \in ArrayPaths \cup {"string_roundtrip"}
  /\ (o.sync # "insync" => Carrying(p, s))

(* ---- what each path rebuilds ---- *)
\* sympy's One is a true singleton and survives everything; compound dimensions are not compared by identity anywhere
Lose(i, u) == IF i = "na" \/ UnitRow(u).dim = "one" THEN i ELSE "copy"
Regain(i) == IF i = "na" THEN "na" ELSE "singleton"
Dead(s) == [s EXCEPT !.alive = FALSE]
\* rows the prefix look-up derived and wrote back (they are not in the library's default table)
DerivedRow == {"km", "kpfoo", "dB"}
\* re-parsing the unit string in the object's current registry: the dimension object is the row's.  After a deep copy of
\* the registry (lutmixed) the rows of the library's own symbols were overwritten with the defaults (singletons), user
\* rows and derived rows are copies
\* (before repository fix 24fb26f a deep copy lost the re-valued mile and a later re-parse changed the unit's scale; no
\* path loses a modification today, so re-parsing keeps the scale)
Rescale(s, o) == s
Reparse(s, u) == IF s.lutmixed /\ s.ident # "na"
                 THEN [s EXCEPT !.ident = IF UnitRow(u).cust \/ u \in DerivedRow THEN "copy" ELSE "singleton", !.dimshared = FALSE]
                 ELSE [s EXCEPT !.dimshared = IF s.lutmixed THEN s.dimshared ELSE TRUE]
\* the new registry's string memo holds the unit under str(expr) (Unit.copy put it there); str(unit) is that spelling
\* unless it carries a degree sign
MemoHit(s, row) == FALSE    \* (before fix 852a543 Unit.copy() memoised the unit it re-created; nothing does today)
PathEffect(p, s, o) ==
  LET row == UnitRow(o.unit)
      u == o.unit
      c == PClass(p) IN
  CASE c = "pickle" ->
         \* a Unit object is pickled with the default object protocol (registry object and all); arrays go through
         \* __reduce__/__setstate__: the unit string is re-parsed in UnitRegistry(lut=pickled table).  Every dimension
         \* symbol comes back as (one and the same) copy
         IF s.cls = "unit" THEN [s EXCEPT !.ident = Lose(s.ident, u), !.regnew = TRUE, !.dimshared = TRUE, !.lutmixed = FALSE, !.key = "none"]
         ELSE IF p = "pickle_withunit" /\ s.unitkept /\ ~Rescale(s, o).unitkept
              THEN Dead(s)   \* the pickled Unit object keeps its scale, the array's unit string is re-parsed in the reverted table: they disagree
         ELSE \* the new registry computes its id from the table as it is now: not the original's memoised one when that went stale
              \* _correct_old_unit_registry fills in every built-in symbol the pickled table lacks: removed symbols reappear
              [Rescale(s, o) EXCEPT !.ident = Lose(s.ident, u), !.regnew = TRUE, !.usys = "mks", !.key = "none",
                                    !.idkept = s.idkept /\ o.pre = "idlast" /\ o.reg # "customrm", !.lutkept = s.lutkept /\ o.reg # "customrm",
                                    \* (the filled-in rows hold the library's singletons, the unpickled ones copies)
                                    !.dimshared = ~(o.reg = "customrm" /\ row.dim = "angle" /\ s.lutkept), !.lutmixed = (o.reg = "customrm" /\ s.lutkept)]
    [] c \in {"deepcopy", "unitdeep"} ->
         \* Unit.copy(deep=True): deepcopy(dimensions) + deepcopy(registry) = type(registry)(lut=deepcopy(lut),
         \* add_default_symbols=False, unit_system=registry.unit_system) (since repository fix 24fb26f: table and unit system
         \* kept); the id is recomputed from the table
         [s EXCEPT !.ident = Lose(s.ident, u), !.regnew = TRUE, !.dimshared = TRUE, !.lutmixed = FALSE, !.key = "expr",
                   !.idkept = s.idkept /\ o.pre = "idlast"]
    [] c = "copy" ->
         \* copy.copy / ndarray-level copies keep the unit object; Unit.copy() re-creates Unit(str(expr), ..., deepcopy(dimensions),
         \* copy(registry)) and only gets the memoised original back when the string memo holds that spelling
         IF p = "dot_copy" /\ s.cls = "unit" /\ (s.key = "cold" \/ (s.key = "str" /\ row.deg))
         THEN \* (since repository fix 852a543 the re-created unit is NOT put into the string memo: later look-ups of the
              \* same string are parsed from the table again)
              [s EXCEPT !.ident = Lose(s.ident, u), !.dimshared = IF s.ident \in {"copy", "na"} THEN s.dimshared ELSE FALSE]
         ELSE IF p = "dot_copy" /\ s.cls = "unit" /\ o.sync # "insync"
         THEN \* Unit.copy() = Unit(str(expr), value, offset, dimensions, copy(registry)): Unit.__new__ consults the string memo
              \* BEFORE it looks at the explicit values (unit_object.py:211) and hands back the memoised unit - the table's
              [s EXCEPT !.unitkept = FALSE, !.ident = Regain(s.ident), !.dimshared = TRUE]
         ELSE s
    [] c = "strrt" -> IF MemoHit(s, row) THEN s ELSE [Reparse(Rescale(s, o), u) EXCEPT !.key = IF s.key = "expr" THEN "expr" ELSE "str"]
    [] c = "json" -> [Rescale([s EXCEPT !.lutkept = s.lutkept /\ o.reg # "customrm"], o) EXCEPT !.ident = Regain(s.ident), !.regnew = TRUE, !.usys = "mks", !.idkept = FALSE, !.dimshared = TRUE, !.lutmixed = FALSE, !.key = "str"]
    [] c = "string" -> IF row.deg THEN Dead(s) ELSE IF MemoHit(s, row) THEN s ELSE [Reparse(Rescale(s, o), u) EXCEPT !.key = "str"]
    [] OTHER -> \* savetxt/loadtxt: re-parse in the default registry
                [s EXCEPT !.ident = Regain(s.ident), !.regnew = TRUE, !.cls = "array", !.usys = "mks", !.dimshared = TRUE, !.lutmixed = FALSE,
                          !.lutkept = TRUE, !.idkept = TRUE, !.key = "str"]

Persist(p) ==
  /\ phase = "paths" /\ st.alive /\ Len(chain) < MaxChain /\ Applicable(p, st, obj)
  /\ chain' = Append(chain, p)
  /\ st' = PathEffect(p, st, obj)
  /\ UNCHANGED <<phase, obj, fups, order>>

StartFollow(o) ==
  /\ phase = "paths" /\ Len(chain) >= 1 /\ st.alive
  /\ phase' = "follow" /\ order' = o
  /\ UNCHANGED <<obj, chain, st, fups>>

(* ---- the follow-up battery: does the restored object (the original, applied second) still behave like the ---- *)
(* ---- pristine original?  Transcription of the identity-keyed guards and of the registry-dependent look-ups ---- *)
AngleGuard == {"sin", "cos"}                                            \* array.py:1830
TempGuard == {"tan", "mul_scalar", "div_scalar", "diff", "ptp",         \* array.py:1987 (multiply/divide), _array_functions.py:865
              "sub_self", "sub_orig"}                                   \* array.py:212 _difference_units
LogGuard == {"mul_self", "div_self", "square", "umul_self", "upow2",    \* unit_object.py:397/434/469
             "umul_m", "qty_times_unit"}                                \* unit_object.py:382
IdentGuard(f, u) ==
  LET row == UnitRow(u) IN
  \/ row.dim = "angle" /\ u # "rad" /\ f \in AngleGuard       \* (rad has scale 1: angle-unaware sin gives the same number)
  \/ row.dim = "temperature" /\ row.off /\ f \in TempGuard
  \/ row.dim = "logarithmic" /\ f \in LogGuard
\* verdicts memoised process-wide (lru_cache keyed on unit hash/equality): the first caller's verdict is served to the
\* second when their hashes agree (same registry id).  A raised refusal is not memoised, a returned unit is.
MemoValue(f, u) == u \in {"degC", "degF"} /\ f \in {"sub_self", "sub_orig"}                                \* _difference_units
MemoRaise(f, u) == \/ UnitRow(u).dim = "logarithmic" /\ f \in {"mul_self", "div_self", "square"}            \* _multiply_units, ...
                   \/ u = "ofoo" /\ f \in {"sub_self", "sub_orig"}     \* a custom offset unit: the original hits the "unreachable" RuntimeError
\* follow-ups whose numbers depend on the scale of the unit
ScaleFups == {"add_orig", "add_self", "convert_custom", "diff", "div_scalar", "eq_orig", "in_base", "in_cgs", "in_mks", "mul_orig", "mul_scalar",
              "mul_self", "num_times_unit", "ptp", "qty_times_unit", "radd_orig", "rsub_orig", "square", "sub_orig", "sub_self", "to_custom",
              "to_value", "udiv_orig", "ueq_orig", "umul_m", "umul_self", "upow2"}

\* follow-ups that name a removed symbol (directly, through an alias, a prefixed form, or as the base unit of a system)
RmFups == {"construct_t", "construct_rad", "construct_radian", "construct_mrad", "contains_removed"}
\* ... and, for angles, everything that needs rad (the base unit of the angle dimension in every unit system; the target of
\* the angle-aware trigonometry): the original refuses, an object whose registry got rad back returns
AngleRmFups == {"sin", "cos", "tan", "to_radian", "in_base", "in_cgs", "in_mks", "base_equiv", "cgs_equiv"}
RestSame(f, o, s, ord) ==
  ~ \/ s.ident = "copy" /\ IdentGuard(f, o.unit) /\ ~(MemoValue(f, o.unit) /\ ord = "of" /\ s.idkept)
                        /\ ~(f = "diff" /\ s.cls = "quantity")          \* np.diff of a 0-d quantity is refused either way
    \/ ~s.lutkept /\ o.reg # "customrm" /\ f \in {"custom_construct"}
    \/ ~s.lutkept /\ o.reg = "customrm" /\ f \in RmFups
    \/ ~s.lutkept /\ o.reg = "customrm" /\ UnitRow(o.unit).dim = "angle" /\ f \in AngleRmFups
    \/ ~s.unitkept /\ f \in ScaleFups /\ ~(f = "diff" /\ s.cls = "quantity")
    \/ s.usys # OrigUsys(o.reg) /\ f \in {"in_base", "base_equiv"} /\ UnitRow(o.unit).dim \in {"length", "compound"}
    \/ o.reg # "default" /\ ~s.idkept /\ f \in {"in_code", "base_equiv_code", "hash_orig"}
    \/ o.reg = "default" /\ ~s.idkept /\ f = "hash_orig"
    \/ ~s.dimshared /\ f = "list_same"
OrigSame(f, o, s, ord) ==
  ~ (ord = "rf" /\ s.ident = "copy" /\ s.idkept /\ (MemoValue(f, o.unit) \/ MemoRaise(f, o.unit)))

Follow(f) ==
  /\ phase = "follow" /\ st.alive /\ Len(fups) < Len(FupSeq) /\ f = FupSeq[Len(fups) + 1]
  /\ fups' = Append(fups, [f |-> f, rest |-> RestSame(f, obj, st, order), orig |-> OrigSame(f, obj, st, order)])
  /\ UNCHANGED <<phase, obj, chain, st, order>>

Terminal == \/ phase = "follow" /\ (Len(fups) = Len(FupSeq) \/ ~st.alive)
            \/ phase = "paths" /\ ~st.alive

Next == \/ \E c \in ClsSet, ru \in Combos, pm \in PreSet : Build(c, ru[1], ru[2], pm[1], pm[2], pm[3])
        \/ \E p \in PathSet : Persist(p)
        \/ \E o \in OrderSet : StartFollow(o)
        \/ \E f \in Fups : Follow(f)
Spec == Init /\ [][Next]_vars

(* ---- C11 on the abstract state: what the transcription says about today's design ---- *)
\* (reported by MC_C11 as MODEL classes; on a correct design both sets are empty)
ModelRestoreFails == phase # "new" /\ ~st.alive /\ PClass(chain[Len(chain)]) # "string"
ModelDiverging == {i \in DOMAIN fups : fups[i].f \notin NotDemanded /\ ~(fups[i].rest /\ fups[i].orig)}

(* ---- C11 on an observation (used by Trace_C11) ---- *)
\* an outcome is [k, vals, unit]: same value, same unit, or same refusal
SameOutcome(a, b) == a.k = b.k /\ (a.k = "val" => a.vals = b.vals /\ a.unit = b.unit)
\* a restored object (observed state s) against the original (observed state o)
C11_Numbers(s, o) == s.nums = o.nums
C11_Units(s, o) == s.unit = o.unit /\ s.eq_fwd /\ s.eq_bwd
C11_Registry(s, o) == s.rows = o.rows /\ s.lutdig = o.lutdig
=============================================================================
