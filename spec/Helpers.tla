------------------------------- MODULE Helpers -------------------------------
(* Unit-checking helpers of unyt (property C19), closeness/equality family.   *)
(*                                                                            *)
(*   allclose_units, assert_allclose_units        unyt/array.py, testing.py   *)
(*   np.allclose, np.isclose                      unyt/_array_functions.py    *)
(*   np.array_equal, np.array_equiv, assert_array_equal_units                 *)
(*                                                                            *)
(* Two layers:                                                                *)
(*  * T(c): the implementation-shaped outcome of one call, transcribed from   *)
(*    the code (same branch order: coercion by unyt_array(), conversion of    *)
(*    `desired` to `actual`'s unit, rtol check, atol coercion and conversion, *)
(*    _array_comp_helper's three branches, getattr(x, "units", NULL_UNIT));   *)
(*  * P(c, o): what C19 says about an observed outcome o - the verdict on     *)
(*    exact SI magnitudes |A - D| <= atol + rtol |D| with a bare atol read in *)
(*    the desired value's unit and rtol by its physical value - and nothing   *)
(*    else (see the "not demanded" notes next to each predicate).             *)
(*                                                                            *)
(* A case c:                                                                  *)
(*   helper, reg ("dy" dyadic model registry | "re" real units),              *)
(*   ka, kd   kind of actual/desired: "q" quantity, "arr" unyt_array,         *)
(*            "bs" bare scalar, "ba" bare ndarray, "lst" list of quantities   *)
(*   a, d     readings (sequences of rationals; length 1 for scalars)         *)
(*   au, du   unit name of every reading ("bare" for bare kinds)              *)
(*   rt, at   tolerances [k |-> "bare"|"q", u |-> unit name, v |-> rational]  *)
(*   sa, sd   tag of every reading: "" | "-0" | "nan" | "inf" | "-inf"        *)
(*   en       the equal_nan keyword: "" (not passed) | "true" | "false"       *)
(* An observation o: [k |-> "true"|"false"|"pass"|"raise"|"vec", exc, v].     *)
EXTENDS Rational, Sequences, FiniteSets, TLC, Json

(* ---------------- overflow-aware rationals (TLC integers are 32 bit) ---------------- *)
QAbsI(n) == IF n < 0 THEN -n ELSE n
QNorm(n, d) == IF n = 0 THEN <<0, 1>>
               ELSE LET sg == IF (n < 0) # (d < 0) THEN -1 ELSE 1
                        g == GCD(QAbsI(n), QAbsI(d)) IN <<sg * (QAbsI(n) \div g), QAbsI(d) \div g>>
QLcm(a, b) == (a \div GCD(a, b)) * b
QAdd(a, b) == LET L == QLcm(a[2], b[2]) IN QNorm(a[1] * (L \div a[2]) + b[1] * (L \div b[2]), L)
QSub(a, b) == QAdd(a, RNeg(b))
QMul(a, b) == LET g1 == GCD(QAbsI(a[1]), b[2])
                  g2 == GCD(QAbsI(b[1]), a[2]) IN
              QNorm((a[1] \div g1) * (b[1] \div g2), (a[2] \div g2) * (b[2] \div g1))
QInv(a) == IF a[1] < 0 THEN <<-a[2], -a[1]>> ELSE <<a[2], a[1]>>
QDiv(a, b) == QMul(a, QInv(b))
QLe(a, b) == QSub(a, b)[1] <= 0
QEq(a, b) == QSub(a, b)[1] = 0

(* ---------------- units ---------------- *)
\* registry "dx": the SAME SPELLING with another value - la2/lb2 are the symbols la/lb of a second dyadic registry (la = 4 there, lb
\* unchanged); lapre/lapost are the symbol la of a third registry taken before/after registry.modify("la", 4).  A unit is what it
\* is worth, not how it is spelled: the predicates only ever see dimension, scale and zero point.
\* scale relative to a per-dimension base chosen so that every scale is a small rational:
\*   dyadic registry: la = 1;  real registry: length in 1e-4 m, time in ms, temperature in 1e-2 K (off = zero point)
UT(reg, dim, n, d, off) == [reg |-> reg, dim |-> dim, s |-> <<n, d>>, off |-> off]
Units == [
  la |-> UT("dy", "L", 1, 1, 0), lb |-> UT("dy", "L", 1024, 1, 0), lc |-> UT("dy", "L", 1, 8, 0), ld |-> UT("dy", "L", 1024, 1, 0),
  ta |-> UT("dy", "T", 1, 1, 0), tb |-> UT("dy", "T", 16, 1, 0),
  na |-> UT("dy", "N", 1, 1, 0), nq |-> UT("dy", "N", 1, 4, 0),
  la2 |-> UT("dx", "L", 4, 1, 0), lb2 |-> UT("dx", "L", 1024, 1, 0), lapre |-> UT("dx", "L", 1, 1, 0), lapost |-> UT("dx", "L", 4, 1, 0),
  m |-> UT("re", "L", 10000, 1, 0), km |-> UT("re", "L", 10000000, 1, 0), cm |-> UT("re", "L", 100, 1, 0), inch |-> UT("re", "L", 254, 1, 0),
  s |-> UT("re", "T", 1000, 1, 0), ms |-> UT("re", "T", 1, 1, 0),
  dimensionless |-> UT("re", "N", 1, 1, 0), percent |-> UT("re", "N", 1, 100, 0),
  K |-> UT("re", "Th", 100, 1, 0), degC |-> UT("re", "Th", 100, 1, 27315)]
\* registry "rx": DERIVED real units - one physical unit reached by different derivations (mL / cm**3, erg / dyne*cm / g*cm**2/s**2,
\* ft / 12*inch, g/cm**3 / 1000*kg/m**3, hr / 60*min ...).  In the library the base value of a derived unit is a product of floats, so
\* two derivations of one unit may differ in the last bit; here the worth is exact (relative to a per-dimension base: volume in mL,
\* energy in erg, length in 1e-4 m, density in kg/m**3, time in ms, force in dyne, pressure in dyne/cm**2).  The name is the text
\* unyt parses.  "Equal units" is equal dimension and worth - never the spelling, the derivation or the float it produced.
DerivedNames == {"mL", "cm**3", "L", "1000*cm**3", "dm**3", "1000*mL", "erg", "dyne*cm", "g*cm**2/s**2", "J", "N*m", "kg*m**2/s**2", "W*s", "ft", "12*inch", "yd", "3*ft", "36*inch", "g/cm**3", "1000*kg/m**3", "kg/L", "g/mL", "kg/m**3", "g/L", "hr", "60*min", "3600*s", "min", "60*s", "dyne", "g*cm/s**2", "N", "kg*m/s**2", "J/m", "Pa", "N/m**2", "J/m**3", "dyne/cm**2", "erg/cm**3", "bar", "100000*Pa"}
\* the same table as an operator (one row evaluated per use; TLC rebuilds a record constant on every use in a trace specification)
UnitRow(u) ==
  CASE u = "la" -> UT("dy", "L", 1, 1, 0)
    [] u = "lb" -> UT("dy", "L", 1024, 1, 0)
    [] u = "lc" -> UT("dy", "L", 1, 8, 0)
    [] u = "ld" -> UT("dy", "L", 1024, 1, 0)
    [] u = "ta" -> UT("dy", "T", 1, 1, 0)
    [] u = "tb" -> UT("dy", "T", 16, 1, 0)
    [] u = "na" -> UT("dy", "N", 1, 1, 0)
    [] u = "nq" -> UT("dy", "N", 1, 4, 0)
    [] u = "la2" -> UT("dx", "L", 4, 1, 0)
    [] u = "lb2" -> UT("dx", "L", 1024, 1, 0)
    [] u = "lapre" -> UT("dx", "L", 1, 1, 0)
    [] u = "lapost" -> UT("dx", "L", 4, 1, 0)
    [] u = "m" -> UT("re", "L", 10000, 1, 0)
    [] u = "km" -> UT("re", "L", 10000000, 1, 0)
    [] u = "cm" -> UT("re", "L", 100, 1, 0)
    [] u = "inch" -> UT("re", "L", 254, 1, 0)
    [] u = "s" -> UT("re", "T", 1000, 1, 0)
    [] u = "ms" -> UT("re", "T", 1, 1, 0)
    [] u = "dimensionless" -> UT("re", "N", 1, 1, 0)
    [] u = "percent" -> UT("re", "N", 1, 100, 0)
    [] u = "K" -> UT("re", "Th", 100, 1, 0)
    [] u = "degC" -> UT("re", "Th", 100, 1, 27315)
    [] u = "mL" -> UT("rx", "Vol", 1, 1, 0)
    [] u = "cm**3" -> UT("rx", "Vol", 1, 1, 0)
    [] u = "L" -> UT("rx", "Vol", 1000, 1, 0)
    [] u = "1000*cm**3" -> UT("rx", "Vol", 1000, 1, 0)
    [] u = "dm**3" -> UT("rx", "Vol", 1000, 1, 0)
    [] u = "1000*mL" -> UT("rx", "Vol", 1000, 1, 0)
    [] u = "erg" -> UT("rx", "En", 1, 1, 0)
    [] u = "dyne*cm" -> UT("rx", "En", 1, 1, 0)
    [] u = "g*cm**2/s**2" -> UT("rx", "En", 1, 1, 0)
    [] u = "J" -> UT("rx", "En", 10000000, 1, 0)
    [] u = "N*m" -> UT("rx", "En", 10000000, 1, 0)
    [] u = "kg*m**2/s**2" -> UT("rx", "En", 10000000, 1, 0)
    [] u = "W*s" -> UT("rx", "En", 10000000, 1, 0)
    [] u = "ft" -> UT("rx", "L", 3048, 1, 0)
    [] u = "12*inch" -> UT("rx", "L", 3048, 1, 0)
    [] u = "yd" -> UT("rx", "L", 9144, 1, 0)
    [] u = "3*ft" -> UT("rx", "L", 9144, 1, 0)
    [] u = "36*inch" -> UT("rx", "L", 9144, 1, 0)
    [] u = "g/cm**3" -> UT("rx", "Rho", 1000, 1, 0)
    [] u = "1000*kg/m**3" -> UT("rx", "Rho", 1000, 1, 0)
    [] u = "kg/L" -> UT("rx", "Rho", 1000, 1, 0)
    [] u = "g/mL" -> UT("rx", "Rho", 1000, 1, 0)
    [] u = "kg/m**3" -> UT("rx", "Rho", 1, 1, 0)
    [] u = "g/L" -> UT("rx", "Rho", 1, 1, 0)
    [] u = "hr" -> UT("rx", "T", 3600000, 1, 0)
    [] u = "60*min" -> UT("rx", "T", 3600000, 1, 0)
    [] u = "3600*s" -> UT("rx", "T", 3600000, 1, 0)
    [] u = "min" -> UT("rx", "T", 60000, 1, 0)
    [] u = "60*s" -> UT("rx", "T", 60000, 1, 0)
    [] u = "dyne" -> UT("rx", "Fo", 1, 1, 0)
    [] u = "g*cm/s**2" -> UT("rx", "Fo", 1, 1, 0)
    [] u = "N" -> UT("rx", "Fo", 100000, 1, 0)
    [] u = "kg*m/s**2" -> UT("rx", "Fo", 100000, 1, 0)
    [] u = "J/m" -> UT("rx", "Fo", 100000, 1, 0)
    [] u = "Pa" -> UT("rx", "Pr", 10, 1, 0)
    [] u = "N/m**2" -> UT("rx", "Pr", 10, 1, 0)
    [] u = "J/m**3" -> UT("rx", "Pr", 10, 1, 0)
    [] u = "dyne/cm**2" -> UT("rx", "Pr", 1, 1, 0)
    [] u = "erg/cm**3" -> UT("rx", "Pr", 1, 1, 0)
    [] u = "bar" -> UT("rx", "Pr", 1000000, 1, 0)
    [] u = "100000*Pa" -> UT("rx", "Pr", 1000000, 1, 0)
UnitNames == DOMAIN Units \cup DerivedNames
UnitsOf(reg) == {u \in UnitNames : UnitRow(u).reg = reg}
Dimless(reg) == IF reg = "dy" THEN "na" ELSE "dimensionless"
UDim(u) == UnitRow(u).dim
UScale(u) == UnitRow(u).s
UOff(u) == UnitRow(u).off
\* equal units = same dimension, scale and zero point, whatever the spelling (lb and ld are two names of one unit)
SameUnit(u, v) == UDim(u) = UDim(v) /\ QEq(UScale(u), UScale(v)) /\ UOff(u) = UOff(v)
\* magnitude in base units (absolute for offset scales)
SI(x, u) == QAdd(QMul(x, UScale(u)), R(UOff(u)))
\* reading of (x, u) in unit v (same dimension)
ToUnit(x, u, v) == QDiv(QSub(SI(x, u), R(UOff(v))), UScale(v))

CloseHelpers == {"allclose_units", "assert_allclose_units", "np.allclose", "np.isclose"}
EqualHelpers == {"np.array_equal", "np.array_equiv", "assert_array_equal_units"}
UnytHelpers == {"allclose_units", "assert_allclose_units"}
Kinds == {"q", "arr", "bs", "ba", "lst"}
BareKinds == {"bs", "ba"}
ScalarKinds == {"q", "bs", "a0"}           \* "a0": 0-d unyt_array

El(v, i) == IF Len(v) = 1 THEN v[1] ELSE v[i]
\* an empty array (a = <<>>, its unit in au = <<u>>) broadcasts with an empty array or a scalar to an empty result
N(c) == IF Len(c.a) = 0 \/ Len(c.d) = 0 THEN 0 ELSE IF Len(c.a) > Len(c.d) THEN Len(c.a) ELSE Len(c.d)
\* special values: c.sa / c.sd tag every reading: "" finite (the rational counts), "-0" negative zero (a zero), "nan", "inf", "-inf"
\* (the rational is a placeholder).  NumPy's documented closeness: a NaN agrees with nothing - unless equal_nan=True (c.en = "true")
\* and the other side is a NaN too; an infinity agrees with the same infinity only.
NonFinite == {"nan", "inf", "-inf"}
Special(c, i) == El(c.sa, i) \in NonFinite \/ El(c.sd, i) \in NonFinite
SpecialClose(c, i) == IF El(c.sa, i) = "nan" \/ El(c.sd, i) = "nan" THEN c.en = "true" /\ El(c.sa, i) = El(c.sd, i)
                      ELSE El(c.sa, i) = El(c.sd, i)
\* "arrays without units are considered dimensionless" (unyt.testing): a bare operand of the unyt helpers is dimensionless
EU(c, u) == IF u = "bare" THEN Dimless(c.reg) ELSE u
AllTrue(v) == \A i \in DOMAIN v : v[i]

(* ======================= property side (P) ======================= *)
\* |A - D| <= atol + rtol |D| on base magnitudes
CloseEl(A, D, atolSI, r) == QLe(RAbs(QSub(A, D)), QAdd(atolSI, QMul(r, RAbs(D))))
\* verdict vector when element i of actual/desired is read in unit fa[i]/fd[i]
CloseVec(c, fa, fd, atolSI, r) ==
  [i \in 1..N(c) |-> IF Special(c, i) THEN SpecialClose(c, i) ELSE CloseEl(SI(El(c.a, i), El(fa, i)), SI(El(c.d, i), El(fd, i)), atolSI, r)]
EUa(c) == [i \in DOMAIN c.au |-> EU(c, c.au[i])]
EUd(c) == [i \in DOMAIN c.du |-> EU(c, c.du[i])]
Commens(fa, fd) == \A i \in DOMAIN fa : \A j \in DOMAIN fd : UDim(fa[i]) = UDim(fd[j]) /\ UDim(fa[i]) = UDim(fa[1])
\* rtol by its physical value (5 percent = 0.05); atol in its own unit, a bare atol in unit `ref`
RtolPhys(c) == IF c.rt.k = "bare" THEN c.rt.v ELSE QMul(c.rt.v, UScale(c.rt.u))
RtolRaw(c) == c.rt.v
AtolSI(c, ref) == IF c.at.k = "bare" THEN QMul(c.at.v, UScale(ref)) ELSE QMul(c.at.v, UScale(c.at.u))
RtolOk(c) == c.rt.k = "bare" \/ UDim(c.rt.u) = "N"
AtolOk(c, dim) == c.at.k = "bare" \/ UDim(c.at.u) = dim

\* --- allclose_units / assert_allclose_units ---
\* verdict under a reading: bare atol in the desired ("d") or the actual ("a") value's unit; rtol physical or raw
UReading(c, atolRef, rtolMode) ==
  LET fa == EUa(c)  fd == EUd(c)
      ref == IF atolRef = "d" THEN fd[1] ELSE fa[1]
      r == IF rtolMode = "phys" THEN RtolPhys(c) ELSE RtolRaw(c) IN
  AllTrue(CloseVec(c, fa, fd, AtolSI(c, ref), r))
UAcceptK(c) == IF c.helper = "allclose_units" THEN "true" ELSE "pass"
URefuseK(c) == IF c.helper = "allclose_units" THEN "false" ELSE "raise"
\* which misreading of the tolerances (if any) reproduces a wrong verdict - diagnostic, part of the finding key
Explains(c, accepted) ==
  IF UReading(c, "a", "phys") = accepted THEN "bare-atol-read-in-actual-unit"
  ELSE IF UReading(c, "d", "raw") = accepted THEN "rtol-raw-number-of-scaled-dimensionless-unit"
  ELSE IF UReading(c, "a", "raw") = accepted THEN "both-tolerance-misreadings"
  ELSE "none"
PUnyt(c, o) ==
  LET fa == EUa(c)  fd == EUd(c) IN
  IF ~Commens(fa, fd) THEN (IF o.k \in {"false", "raise"} THEN "" ELSE "accepts-incommensurable")
  \* a tolerance that cannot be a tolerance (rtol with a dimension, atol of another dimension): anything but acceptance
  ELSE IF ~(RtolOk(c) /\ AtolOk(c, UDim(fa[1]))) THEN (IF o.k \in {"false", "raise"} THEN "" ELSE "accepts-with-unusable-tolerance")
  ELSE IF UReading(c, "d", "phys") THEN (IF o.k = UAcceptK(c) THEN "" ELSE "refuses-values-within-tolerance")
  ELSE (IF o.k = URefuseK(c) THEN "" ELSE "accepts-values-outside-tolerance")
PUnytExplain(c, o) == IF Commens(EUa(c), EUd(c)) /\ RtolOk(c) /\ AtolOk(c, UDim(EUa(c)[1])) THEN Explains(c, o.k = UAcceptK(c)) ELSE "none"

\* --- np.allclose / np.isclose ---
\* Not demanded: an operand without units adopts the other operand's unit (asserted by the repository's tests); an
\* explicit scale-1 dimensionless operand is treated by the library exactly like a bare one ("arrays without units are
\* considered dimensionless") - both outcomes (adoption, refusal) are accepted for it.  A bare atol: numpy has no
\* "desired" argument, so either operand's unit is accepted as its unit.  Tolerances given as quantities: not generated.
AdoptLike(c, k, us) == k \in BareKinds \/ \A i \in DOMAIN us : us[i] # "bare" /\ SameUnit(us[i], Dimless(c.reg))
ObsVec(c, o) == IF o.k = "vec" THEN o.v ELSE <<>>
NpMatches(c, o, vec) == IF c.helper = "np.isclose" THEN o.k = "vec" /\ o.v = vec
                        ELSE o.k = (IF AllTrue(vec) THEN "true" ELSE "false")
NpNoAccept(c, o) == o.k \in {"raise", "false"} \/ (o.k = "vec" /\ \A i \in DOMAIN o.v : ~o.v[i])
NpReading(c, fa, fd, ref) == CloseVec(c, fa, fd, AtolSI(c, ref), RtolPhys(c))
NpPhysVec(c) == NpReading(c, EUa(c), EUd(c), EUd(c)[1])
PNp(c, o) ==
  LET la == AdoptLike(c, c.ka, c.au)  ld == AdoptLike(c, c.kd, c.du)
      fa == EUa(c)  fd == EUd(c) IN
  IF la /\ ld THEN (IF NpMatches(c, o, NpReading(c, fa, fd, fd[1])) THEN "" ELSE "wrong-verdict-dimensionless")
  ELSE IF la \/ ld THEN
    LET other == IF la THEN fd[1] ELSE fa[1]
        ga == IF la THEN [i \in DOMAIN fa |-> other] ELSE fa
        gd == IF ld THEN [i \in DOMAIN fd |-> other] ELSE fd IN
    IF o.k = "raise" \/ (Commens(ga, gd) /\ NpMatches(c, o, NpReading(c, ga, gd, other))) THEN "" ELSE "wrong-verdict-adopting-operand"
  ELSE IF ~Commens(fa, fd) THEN (IF NpNoAccept(c, o) THEN "" ELSE "accepts-incommensurable")
  ELSE IF NpMatches(c, o, NpReading(c, fa, fd, fd[1])) \/ NpMatches(c, o, NpReading(c, fa, fd, fa[1])) THEN ""
  ELSE IF AllTrue(NpReading(c, fa, fd, fd[1])) /\ AllTrue(NpReading(c, fa, fd, fa[1])) THEN "refuses-values-within-tolerance"
  ELSE IF c.helper = "np.allclose" THEN "accepts-values-outside-tolerance" ELSE "wrong-elementwise-verdict"

\* --- np.array_equal / np.array_equiv / assert_array_equal_units: equal values AND equal units ---
EqUnits(c) == \A i \in DOMAIN c.au : \A j \in DOMAIN c.du : SameUnit(EU(c, c.au[i]), EU(c, c.du[j])) /\ SameUnit(EU(c, c.au[i]), EU(c, c.au[1]))
ShapeOk(c) == c.helper = "np.array_equal" => ((c.ka \in ScalarKinds) = (c.kd \in ScalarKinds))
NaNPair(c, i) == El(c.sa, i) = "nan" /\ El(c.sd, i) = "nan"
\* nanEq: do two NaNs at the same position count as equal
ReadingsEqN(c, nanEq) == \A i \in 1..N(c) : IF NaNPair(c, i) THEN nanEq
                                               ELSE IF Special(c, i) THEN El(c.sa, i) = El(c.sd, i)
                                               ELSE QEq(El(c.a, i), El(c.d, i))
ReadingsEq(c) == ReadingsEqN(c, FALSE)
EqExpected(c) == EqUnits(c) /\ ShapeOk(c) /\ ReadingsEq(c)
\* Not demanded: whether NaNs at equal positions are "equal values" (np.array_equal: no, unless equal_nan=True; numpy's
\* assert_array_equal, which assert_array_equal_units wraps: yes - both documented by NumPy).  With such a pair and everything else
\* equal the predicate is silent; with different units or any other difference it demands refusal as always.
EqUndecided(c) == ~EqExpected(c) /\ EqUnits(c) /\ ShapeOk(c) /\ ReadingsEqN(c, TRUE)
PEqual(c, o) ==
  LET yes == IF c.helper = "assert_array_equal_units" THEN "pass" ELSE "true"
      no == IF c.helper = "assert_array_equal_units" THEN "raise" ELSE "false" IN
  IF EqExpected(c) THEN (IF o.k = yes THEN "" ELSE "refuses-equal-values-in-equal-units")
  ELSE IF EqUndecided(c) THEN (IF o.k \in {yes, no} THEN "" ELSE "neither-accepts-nor-refuses")
  ELSE IF o.k = no THEN ""
  ELSE IF ~EqUnits(c) THEN "accepts-different-units" ELSE "accepts-different-values"

P(c, o) == IF c.helper \in UnytHelpers THEN PUnyt(c, o)
           ELSE IF c.helper \in {"np.allclose", "np.isclose"} THEN PNp(c, o)
           ELSE PEqual(c, o)

\* physical identity of a case for the re-expression clause ("same verdict with the arguments' units re-expressed"):
\* two cases with the same PhysKey differ only in the units their arguments and tolerances are written in.
\* Only cases on which P pins the verdict to one value take part (strict = TRUE).
Strict(c) == \/ c.helper \in UnytHelpers /\ Commens(EUa(c), EUd(c)) /\ RtolOk(c) /\ AtolOk(c, UDim(EUa(c)[1]))
             \/ /\ c.helper \in {"np.allclose", "np.isclose"} /\ ~AdoptLike(c, c.ka, c.au) /\ ~AdoptLike(c, c.kd, c.du)
                /\ Commens(EUa(c), EUd(c)) /\ (RIsZero(c.at.v) \/ QEq(UScale(EUa(c)[1]), UScale(EUd(c)[1])))
PhysKey(c) ==
  IF ~Strict(c) THEN <<>>
  ELSE <<c.helper, Len(c.a), Len(c.d), UDim(EUa(c)[1]),
         [i \in DOMAIN c.a |-> SI(c.a[i], EUa(c)[i])], [i \in DOMAIN c.d |-> SI(c.d[i], EUd(c)[i])],
         RtolPhys(c), AtolSI(c, EUd(c)[1]), c.sa, c.sd, c.en>>
\* the asserting and the boolean form of one helper are ONE condition in the statement ("allclose_units and assert_allclose_units
\* accept exactly when ..."): two cases with the same FormKey differ only in the form; the assert form must pass exactly when the
\* boolean form returns True
FormKey(c) == IF c.helper \in UnytHelpers THEN <<c.reg, c.ka, c.kd, c.a, c.au, c.d, c.du, c.rt, c.at, c.sa, c.sd, c.en>> ELSE <<>>
Accepts(o) == o.k \in {"true", "pass"}
Verdict(o) == IF o.k \in {"true", "pass"} THEN <<TRUE>> ELSE IF o.k = "vec" THEN o.v ELSE <<FALSE>>

(* ======================= implementation side (T) ======================= *)
Out(k, exc, v) == [k |-> k, exc |-> exc, v |-> v]
\* unyt_array(x): a list of quantities is converted to its first element's unit; bare input is dimensionless
CoerceUnit(c, us) == EU(c, us[1])
\* atolRef/rtolMode = "d"/"phys": the documented reading, today's code (fix: commits 59e7f1d, 9551892); "a"/"raw": the code before
\* those repairs (bare atol in actual's unit, rt.value) - TOk accepts each, so the check can also be pointed at an older tree
TUnytR(c, atolRef, rtolMode) ==
  LET ua == CoerceUnit(c, c.au)  ud == CoerceUnit(c, c.du)
      bad == Out(URefuseK(c), IF c.helper = "allclose_units" THEN "" ELSE "AssertionError", <<>>) IN
  IF UDim(ud) # UDim(ua) THEN bad                                            \* des.in_units(act.units) fails -> False
  ELSE IF ~RtolOk(c) THEN Out("raise", "RuntimeError", <<>>)
  ELSE IF ~AtolOk(c, UDim(ua)) THEN bad                                      \* at.in_units(act.units) fails -> False
  ELSE LET aref == IF atolRef = "a" THEN ua ELSE ud                           \* bare: unyt_quantity(atol, des.units), des already in act's unit
           atol == IF c.at.k = "bare" THEN QDiv(QMul(c.at.v, UScale(aref)), UScale(ua)) ELSE QDiv(QMul(c.at.v, UScale(c.at.u)), UScale(ua))
           r == IF rtolMode = "raw" THEN RtolRaw(c) ELSE RtolPhys(c)          \* rt.value: the raw number
           vec == [i \in 1..N(c) |->
                    LET x == ToUnit(El(c.a, i), EU(c, El(c.au, i)), ua)
                        y == ToUnit(El(c.d, i), EU(c, El(c.du, i)), ua) IN
                    IF Special(c, i) THEN SpecialClose(c, i) ELSE QLe(RAbs(QSub(x, y)), QAdd(atol, QMul(r, RAbs(y))))] IN
       IF AllTrue(vec) THEN Out(UAcceptK(c), "", <<>>) ELSE bad
TUnyt(c) == TUnytR(c, "d", "phys")

\* getattr(x, "units", NULL_UNIT): only unyt objects have the attribute; NULL_UNIT == dimensionless
CodeUnit(c, k, us) == IF k \in {"q", "arr", "a0"} THEN us[1] ELSE "NULL"
IsNull(c, u) == u = "NULL" \/ SameUnit(u, Dimless(c.reg))
CSame(c, u, v) == IF u = "NULL" \/ v = "NULL" THEN IsNull(c, u) /\ IsNull(c, v) ELSE SameUnit(u, v)
TNp(c) ==
  LET ca == CodeUnit(c, c.ka, c.au)  cd == CodeUnit(c, c.kd, c.du) IN
  IF ~CSame(c, cd, ca) /\ ~IsNull(c, ca) /\ ~IsNull(c, cd) /\ UDim(ca) # UDim(cd) THEN Out("raise", "UnitConversionError", <<>>)
  ELSE LET conv == ~CSame(c, cd, ca) /\ ~IsNull(c, ca) /\ ~IsNull(c, cd)          \* b = b.in_units(au)
           vec == [i \in 1..N(c) |->
                    LET x == El(c.a, i)
                        y == IF conv THEN ToUnit(El(c.d, i), cd, ca) ELSE El(c.d, i) IN   \* otherwise the raw numbers meet
                    IF Special(c, i) THEN SpecialClose(c, i) ELSE QLe(RAbs(QSub(x, y)), QAdd(c.at.v, QMul(c.rt.v, RAbs(y))))] IN
       IF c.helper = "np.isclose" THEN Out("vec", "", vec) ELSE Out(IF AllTrue(vec) THEN "true" ELSE "false", "", <<>>)
TEqual(c) ==
  LET ca == CodeUnit(c, c.ka, c.au)  cd == CodeUnit(c, c.kd, c.du)
      \* NaNs at equal positions: equal for numpy's assert_array_equal, and for np.array_equal(equal_nan=True)
      nanEq == c.helper = "assert_array_equal_units" \/ (c.helper = "np.array_equal" /\ c.en = "true")
      ok == CSame(c, ca, cd) /\ ShapeOk(c) /\ ReadingsEqN(c, nanEq) IN
  IF c.helper = "assert_array_equal_units" THEN (IF ok THEN Out("pass", "", <<>>) ELSE Out("raise", "", <<>>))
  ELSE Out(IF ok THEN "true" ELSE "false", "", <<>>)
T(c) == IF c.helper \in UnytHelpers THEN TUnyt(c)
        ELSE IF c.helper \in {"np.allclose", "np.isclose"} THEN TNp(c)
        ELSE TEqual(c)
\* the exception class is compared only where the transcription names one
Agrees(t, o) == o.k = t.k /\ (t.k = "vec" => o.v = t.v) /\ (t.exc # "" => o.exc = t.exc)
TOk(c, o) == \/ Agrees(T(c), o)
             \/ c.helper \in UnytHelpers /\ \E ar \in {"a", "d"}, rm \in {"raw", "phys"} : Agrees(TUnytR(c, ar, rm), o)
=============================================================================
