-------------------------------- MODULE Defs --------------------------------
(* C02 - every unit's scale and dimension agree with its definition.          *)
(*                                                                            *)
(* Data (regenerated on every run, ASCII JSON, names travel as strings that   *)
(* TLC only concatenates and compares):                                       *)
(*   Nodes    the independent definitional DAG (data/C02_definitions.json):   *)
(*            base atoms, auxiliary constants and unit symbols; each node is  *)
(*            coef x prod(other node ^ exponent), coef = exponent vector over *)
(*            generators (primes, -1, pi, ln10, named measured values).  The  *)
(*            numeric value of a generator never enters TLC.                  *)
(*   Gens     kind and uncertainty class of each generator                    *)
(*   Table    the lookup table extracted from the tree under test (symbol,    *)
(*            dimension as 9 rationals, prefixable flag, has-offset flag)     *)
(*   Keys/Names  the name table of the tree (spelling -> canonical key)       *)
(*   Prefixes the SI prefixes as written in the definitions (independent)     *)
(*                                                                            *)
(* Symbolic results: a scale is an exponent vector over generators (and over  *)
(* atoms for compound expressions), a dimension an exponent vector over the   *)
(* base atoms.  Vectors are sparse: sorted sequences of <<id, n, d>>.         *)
(* The harness evaluates a generator vector with 60 digits and reports the    *)
(* distance of the library's float from it in units of each class tolerance   *)
(* (integers); every comparison below is made by TLC.                         *)
EXTENDS Integers, Sequences, FiniteSets, TLC, Rational, Json, IOUtils

D == JsonDeserialize(IOEnv.C02DATA)
Nodes == D.nodes
Gens == D.gens
Table == D.table
Keys == D.keys
Names == D.names
Prefixes == D.prefixes
LibPrefixes == D.libprefixes
NB == D.nbase
G2 == D.g2
G5 == D.g5

Max(a, b) == IF a >= b THEN a ELSE b
Abs(x) == IF x < 0 THEN -x ELSE x
CeilAbs(n, d) == (Abs(n) + d - 1) \div d

\* ------------------------------------------------- sparse exponent vectors
RECURSIVE VAddFrom(_, _, _, _)
VAddFrom(a, i, b, j) ==
  IF i > Len(a) THEN SubSeq(b, j, Len(b)) ELSE IF j > Len(b) THEN SubSeq(a, i, Len(a))
  ELSE IF a[i][1] < b[j][1] THEN <<a[i]>> \o VAddFrom(a, i + 1, b, j)
  ELSE IF a[i][1] > b[j][1] THEN <<b[j]>> \o VAddFrom(a, i, b, j + 1)
  ELSE LET s == RAdd(<<a[i][2], a[i][3]>>, <<b[j][2], b[j][3]>>) IN
       (IF s[1] = 0 THEN <<>> ELSE << <<a[i][1], s[1], s[2]>> >>) \o VAddFrom(a, i + 1, b, j + 1)
VAdd(a, b) == VAddFrom(a, 1, b, 1)
VScale(a, q) == IF q[1] = 0 THEN <<>>
                ELSE [i \in DOMAIN a |-> LET s == RMul(<<a[i][2], a[i][3]>>, q) IN <<a[i][1], s[1], s[2]>>]
VGet(a, id) == IF \E i \in DOMAIN a : a[i][1] = id THEN LET i == CHOOSE i \in DOMAIN a : a[i][1] = id IN <<a[i][2], a[i][3]>> ELSE RZero
Dense(a) == [b \in 1..NB |-> VGet(a, b)]

\* ------------------------------------------------- (a) the definitional DAG
IsBase(i) == Nodes[i].kind = "base"
RECURSIVE Closure(_, _)
Closure(S, n) ==
  IF n = 0 THEN S
  ELSE LET S2 == S \cup {i \in DOMAIN Nodes : \A j \in DOMAIN Nodes[i].of : Nodes[i].of[j][1] \in S} IN
       IF S2 = S THEN S ELSE Closure(S2, n - 1)
\* TLC caches constant definitions only when they do not depend on RECURSIVE operators; the tables below are therefore
\* computed once at start-up and kept in TLC registers (all C02 runs use one worker)
ASSUME TLCSet(101, Closure({i \in DOMAIN Nodes : IsBase(i)}, Len(Nodes)))
Grounded == TLCGet(101)
WellFounded == Grounded = DOMAIN Nodes
\* no node is defined through itself at the first level either (Closure already implies acyclicity)
RECURSIVE Rank(_)
Rank(i) == IF IsBase(i) \/ Nodes[i].of = <<>> THEN 0
           ELSE 1 + (LET rs == {Rank(Nodes[i].of[j][1]) : j \in DOMAIN Nodes[i].of} IN CHOOSE m \in rs : \A r \in rs : r <= m)

\* flattening: exponent vector over base atoms (= the dimension) and over generators (= the coefficient)
RECURSIVE Flat(_), FoldOf(_, _, _)
Flat(i) ==
  LET nd == Nodes[i] IN
  IF nd.kind = "base" THEN [a |-> << <<nd.base, 1, 1>> >>, g |-> <<>>, c |-> 0]
  ELSE FoldOf(nd.of, 1, [a |-> <<>>, g |-> nd.gens, c |-> nd.cls])
FoldOf(of, j, acc) ==
  IF j > Len(of) THEN acc
  ELSE LET f == Flat(of[j][1])
           e == <<of[j][2], of[j][3]>> IN
       FoldOf(of, j + 1, [a |-> VAdd(acc.a, VScale(f.a, e)), g |-> VAdd(acc.g, VScale(f.g, e)), c |-> Max(acc.c, f.c)])
ASSUME TLCSet(102, [i \in DOMAIN Nodes |-> IF i \in Grounded THEN Flat(i) ELSE [a |-> <<>>, g |-> <<>>, c |-> 0]])
FlatTab == TLCGet(102)

\* uncertainty class of a generator vector (worst class of a generator that survives) and tolerance multiplier
GenCls(g) == IF g = <<>> THEN 0 ELSE LET cs == {Gens[g[i][1]].cls : i \in DOMAIN g} IN CHOOSE m \in cs : \A c \in cs : c <= m
RECURSIVE SumCeil(_, _, _)
SumCeil(g, i, cls) == IF i > Len(g) THEN 0
                      ELSE (IF Gens[g[i][1]].cls = cls THEN CeilAbs(g[i][2], g[i][3]) ELSE 0) + SumCeil(g, i + 1, cls)
ClsOf(fl) == Max(fl.c, GenCls(fl.g))
KOf(fl) == LET c == ClsOf(fl) IN IF c = 0 THEN 1 ELSE Max(1, SumCeil(fl.g, 1, c))

\* ------------------------------------------------- table <-> definitions
NodeOfSym(s) == IF \E i \in DOMAIN Nodes : Nodes[i].kind = "unit" /\ Nodes[i].name = s
                THEN CHOOSE i \in DOMAIN Nodes : Nodes[i].kind = "unit" /\ Nodes[i].name = s ELSE 0
TabNode == [t \in DOMAIN Table |-> NodeOfSym(Table[t].sym)]
TabIdx(s) == IF \E t \in DOMAIN Table : Table[t].sym = s THEN CHOOSE t \in DOMAIN Table : Table[t].sym = s ELSE 0
Uncovered == {t \in DOMAIN Table : TabNode[t] = 0}
Orphans == {i \in DOMAIN Nodes : Nodes[i].kind = "unit" /\ TabIdx(Nodes[i].name) = 0}
\* the dimension the definition implies, as 9 rationals in the order of unyt.dimensions.base_dimensions
DefDim(t) == Dense(FlatTab[TabNode[t]].a)
TableDim(t) == [b \in 1..NB |-> <<Table[t].dim[b][1], Table[t].dim[b][2]>>]

\* ------------------------------------------------- (c) names: independent reading  key = prefix o symbol
PfxRows == {t \in DOMAIN Table : Table[t].pfx}
\* all ways to read key as prefix o prefixable symbol (candidates: the prefixes the key starts with)
Splits(key) == {x \in (DOMAIN Prefixes) \X PfxRows :
                  LET p == Prefixes[x[1]].p IN
                  /\ Len(key) > Len(p) /\ SubSeq(key, 1, Len(p)) = p
                  /\ SubSeq(key, Len(p) + 1, Len(key)) = Table[x[2]].sym}
Reading(key) == IF TabIdx(key) # 0 THEN <<0, TabIdx(key)>>
                ELSE LET sp == Splits(key) IN IF Cardinality(sp) = 1 THEN CHOOSE x \in sp : TRUE ELSE <<-1, Cardinality(sp)>>
KeyRead == [k \in DOMAIN Keys |-> Reading(Keys[k])]
PfxExp(p) == IF p = 0 THEN 0 ELSE Prefixes[p].k
\* 10^k as a generator vector
Ten(k) == IF k = 0 THEN <<>> ELSE IF G2 < G5 THEN << <<G2, k, 1>>, <<G5, k, 1>> >> ELSE << <<G5, k, 1>>, <<G2, k, 1>> >>
\* expected scale (generator vector), class, K and dimension of  prefix p (0 = none) on table row t
ExpGens(p, t) == VAdd(FlatTab[TabNode[t]].g, Ten(PfxExp(p)))
ExpCls(t) == ClsOf(FlatTab[TabNode[t]])
ExpK(p, t) == KOf(FlatTab[TabNode[t]]) + (IF p = 0 THEN 0 ELSE 1)

\* implementation-shaped: _lookup_unit_symbol / _split_prefix (one attempt: first character, or "da")
LibIsPrefix(s) == \E i \in DOMAIN LibPrefixes : LibPrefixes[i] = s
LibSplit(str) ==
  IF TabIdx(str) # 0 THEN [k |-> "direct", t |-> TabIdx(str), p |-> ""]
  ELSE IF Len(str) < 2 THEN [k |-> "raise", t |-> 0, p |-> ""]
  ELSE LET cand == IF SubSeq(str, 1, 2) = "da" THEN "da" ELSE SubSeq(str, 1, 1)
           rest == SubSeq(str, Len(cand) + 1, Len(str)) IN
       IF LibIsPrefix(cand) /\ TabIdx(rest) # 0 /\ Table[TabIdx(rest)].pfx THEN [k |-> "prefixed", t |-> TabIdx(rest), p |-> cand]
       ELSE [k |-> "raise", t |-> 0, p |-> ""]
\* a prefixed spelling that is a name in its own right (symbol or alias of something else) is not a prefixed name
NameKey(str) == IF \E n \in DOMAIN Names : Names[n].name = str THEN Names[CHOOSE n \in DOMAIN Names : Names[n].name = str].key ELSE 0

\* ------------------------------------------------- (b) unit expressions
\* Trees in prefix (Polish) form over integers:  MUL a b | DIV a b | SQRT a | INV a (= 1/a) | POW(e) a | COEF(c) a | NAME(k)
Coefs == << <<2, 1>>, <<5, 2>>, <<1000, 1>>, <<1, 4>> >>
\* the same numbers as generator vectors (primes 2 and 5): 2, 5/2, 2^3 5^3, 2^-2
CoefVec(c) == LET two(e) == <<G2, e, 1>>  five(e) == <<G5, e, 1>>
                  pair(x, y) == IF G2 < G5 THEN <<x, y>> ELSE <<y, x>> IN
              CASE c = 1 -> <<two(1)>> [] c = 2 -> pair(two(-1), five(1)) [] c = 3 -> pair(two(3), five(3)) [] c = 4 -> <<two(-2)>>
Exps == << <<-1, 1>>, <<2, 1>>, <<1, 2>>, <<3, 1>>, <<-2, 1>>, <<1, 3>>, <<3, 2>>, <<-1, 2>>, <<2, 3>> >>
MUL == 1
DIV == 2
SQRT == 3
INV == 4
CoefTok(c) == 200 + c
PowTok(e) == 300 + e
NameTok(k) == 1000 + k
IsName(t) == t > 1000
IsCoef(t) == t > 200 /\ t < 300
IsPow(t) == t > 300 /\ t < 400
Half == <<1, 2>>

\* property side: free-abelian-group semantics, top-down (every leaf gets the product of the exponents on its path)
RECURSIVE Sem(_, _, _)
Sem(a, i, m) ==
  LET t == a[i] IN
  IF IsName(t) THEN [at |-> << <<t - 1000, m[1], m[2]>> >>, co |-> <<>>, nx |-> i + 1]
  ELSE IF IsCoef(t) THEN LET x == Sem(a, i + 1, m) IN [at |-> x.at, co |-> VAdd(VScale(CoefVec(t - 200), m), x.co), nx |-> x.nx]
  ELSE IF IsPow(t) THEN Sem(a, i + 1, RMul(m, Exps[t - 300]))
  ELSE IF t = SQRT THEN Sem(a, i + 1, RMul(m, Half))
  ELSE IF t = INV THEN Sem(a, i + 1, RNeg(m))
  ELSE LET l == Sem(a, i + 1, m)
           r == Sem(a, l.nx, IF t = DIV THEN RNeg(m) ELSE m) IN
       [at |-> VAdd(l.at, r.at), co |-> VAdd(l.co, r.co), nx |-> r.nx]
Meaning(a) == LET s == Sem(a, 1, ROne) IN [at |-> s.at, co |-> s.co]

\* implementation side: _get_unit_data_from_expr / Unit.__mul__, __truediv__, __pow__: bottom-up, a (scale, dimension)
\* pair per node; scale of a Mul = product of the scales of its arguments, of a Pow = scale ** power
RECURSIVE Impl(_, _)
Impl(a, i) ==
  LET t == a[i] IN
  IF IsName(t) THEN [at |-> << <<t - 1000, 1, 1>> >>, co |-> <<>>, nx |-> i + 1]
  ELSE IF IsCoef(t) THEN LET x == Impl(a, i + 1) IN [at |-> x.at, co |-> VAdd(CoefVec(t - 200), x.co), nx |-> x.nx]
  ELSE IF IsPow(t) \/ t = SQRT \/ t = INV THEN
    LET x == Impl(a, i + 1)
        e == IF t = SQRT THEN Half ELSE IF t = INV THEN <<-1, 1>> ELSE Exps[t - 300] IN
    [at |-> VScale(x.at, e), co |-> VScale(x.co, e), nx |-> x.nx]
  ELSE LET l == Impl(a, i + 1)
           r == Impl(a, l.nx) IN
       IF t = MUL THEN [at |-> VAdd(l.at, r.at), co |-> VAdd(l.co, r.co), nx |-> r.nx]
       ELSE [at |-> VAdd(l.at, VScale(r.at, <<-1, 1>>)), co |-> VAdd(l.co, VScale(r.co, <<-1, 1>>)), nx |-> r.nx]
ImplMeaning(a) == LET s == Impl(a, 1) IN [at |-> s.at, co |-> s.co]

\* powers whose exponent is not a dyadic rational (1/3, 2/3): a float cannot hold the exponent, so x ** (n/d) is off by
\* |ln x| x (rounding of n/d) whatever the algorithm; the tolerance grows with the magnitude the harness reports
RECURSIVE NonDyadic(_, _)
NonDyadic(a, i) == IF i > Len(a) THEN 0
                   ELSE (IF IsPow(a[i]) /\ Exps[a[i] - 300][2] \notin {1, 2, 4, 8} THEN 1 ELSE 0) + NonDyadic(a, i + 1)

\* dimension of an expression over a pool of names (pool[k] = index into Names): sum of exponent x dimension of the atom
AtomRow(nm) == KeyRead[Names[nm].key][2]
AtomDimVec(nm) == FlatTab[TabNode[AtomRow(nm)]].a
RECURSIVE DimSum(_, _, _)
DimSum(at, i, pool) == IF i > Len(at) THEN <<>>
                       ELSE VAdd(VScale(AtomDimVec(pool[at[i][1]]), <<at[i][2], at[i][3]>>), DimSum(at, i + 1, pool))
ExprDim(at, pool) == Dense(DimSum(at, 1, pool))

\* ------------------------------------------------- property predicates (say only what C02 says)
\* eu = the distance of the library's float from the value the definitions imply, in units of each class tolerance
\* (a sequence indexed by class + 1); the scale agrees when it is within K units of its class
C02_Scale(eu, cls, k) == eu[cls + 1] <= k
C02_Dim(obs, want) == \A b \in 1..NB : REq(<<obs[b][1], obs[b][2]>>, want[b])
\* prefix rule: scale(p+s) = prefix(p) x scale(s) (units of the exact class, 2 roundings), dimension unchanged
C02_Prefix(eu, dimp, dims) == eu[1] <= 2 /\ \A b \in 1..NB : dimp[b] = dims[b]
\* x.to(u2) = x * scale(u1) / scale(u2)
C02_Convert(eu) == eu[1] <= 3
=============================================================================
