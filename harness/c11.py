"""C11 - persisted quantities and units come back meaning and behaving the same.

Spec: spec/Persist.tla (+ MC_C11, Trace_C11).
  1. TLC enumerates every history  Build(cls, registry, unit) ; Persist(path)^{1..MaxChain} ; StartFollow(order) ;
     Follow(f) for the whole follow-up battery  of the bounded instances and exports one case per terminal state
     (plus simulated longer chains).
  2. every case is replayed on real unyt objects (harness/impl_c11.py): after every persistence path the restored
     object is projected (numbers, unit, registry rows, identity of the dimension object, unit system, registry id);
     every follow-up is evaluated on the pristine original (baseline), and on original and restored in the order the
     case says.
  3. TLC (Trace_C11) steps through the observations: T = PathEffect / RestSame / OrigSame of Persist.tla,
     P = C11_Numbers / C11_Units / C11_Registry / SameOutcome evaluated on the observation.
Python only projects (floats -> hex strings -> digests) and snaps float noise (1e-12 relative)."""

import hashlib
import json
import random

from common import MachineryFailure

CHUNK = 3000


def _dig(x):
    return hashlib.sha1(json.dumps(x, sort_keys=True).encode()).hexdigest()[:12]


def _oc(o):
    return {"k": o["k"], "vals": _dig(o["vals"]) if o["k"] == "val" else "", "unit": _dig(o["unit"]) if o["k"] == "val" else ""}


def _st(s):
    return {
        "k": "ok",
        "cls": s["cls"],
        "nums": _dig(s["nums"]),
        "unit": _dig(s["unit"]),
        "eq_fwd": bool(s["eq_fwd"]),
        "eq_bwd": bool(s["eq_bwd"]),
        "rows": [_dig(r) for r in s["rows"]],
        "lutdig": s["lutdig"],
        "usys": s["usys"],
        "ident": s["ident"],
        "samereg": bool(s["samereg"]),
        "idsame": bool(s["idsame"]),
        "dimshared": bool(s["dimshared"]),
        "exc": "",
    }


_BLANK = {"cls": "", "nums": "", "unit": "", "eq_fwd": False, "eq_bwd": False, "rows": [], "lutdig": "", "usys": "", "ident": "na", "samereg": False, "idsame": False, "dimshared": False}


def _compress(case, ob):
    import impl_c11

    steps = []
    for s in ob["steps"]:
        if s["k"] == "ok":
            steps.append(_st(s))
        else:
            d = dict(_BLANK)
            d["k"] = s["k"]
            d["exc"] = s.get("exc", "")
            steps.append(d)
    return {
        "cls": case["cls"],
        "reg": case["reg"],
        "unit": case["unit"],
        "chain": case["chain"],
        "order": case["order"],
        "fups": [f["f"] for f in ob["fups"]],
        "watch": list(impl_c11.WATCH_SYMS),
        "orig": _st(ob["orig"]),
        "steps": steps,
        "fo": [{"base": _oc(f["base"]), "orig": _oc(f["orig"]), "rest": _oc(f["rest"])} for f in ob["fups"]],
    }


def _short(o):
    if o["k"] == "raise":
        return "raises " + o.get("exc", "")
    vals = []
    for v in o["vals"][:3]:
        try:
            vals.append(round(float.fromhex(v), 6))
        except Exception:  # noqa: BLE001
            vals.append(v)
    u = o["unit"]
    try:
        ud = [float.fromhex(u[0]), float.fromhex(u[1]), u[2]] if u else []
    except Exception:  # noqa: BLE001
        ud = u
    return {"vals": vals, "unit": ud}


def _validate(ck, cases, obs, label):
    bad = [(c, o) for c, o in zip(cases, obs) if "_error" in o]
    if bad:
        raise MachineryFailure("replay error: " + str(bad[0])[:1500])
    nb = [(c, o) for c, o in zip(cases, obs) if not o.get("built")]
    if nb:
        raise MachineryFailure("object could not be built: " + str(nb[0])[:600])
    for off in range(0, len(cases), CHUNK):
        pc = cases[off : off + CHUNK]
        po = obs[off : off + CHUNK]
        traces = [_compress(c, o) for c, o in zip(pc, po)]
        path = ck.write_json(f"traces_{label}_{off}.json", traces)
        res = ck.tlc("Trace_C11", "Trace_C11", env={"TRACES": path}, workers=1, coverage=False, label=f"trace-validation {label}", timeout=3000)
        expect = 1 + sum(len(t["chain"]) + len(t["fo"]) + 3 for t in traces)
        if res.distinct != expect:
            raise MachineryFailure(f"trace validation consumed {res.distinct} states, expected {expect}")
        ck.validated(len(traces))
        for r in res.by_tag("T-FAIL"):
            c = pc[r["tid"] - 1]
            ck.drift_step(r["op"], {"case": {k: c[k] for k in ("cls", "reg", "unit", "chain", "order")}, "model": r["model"], "observed": r["observed"]})
        for r in res.by_tag("P-FAIL"):
            c = pc[r["tid"] - 1]
            o = po[r["tid"] - 1]
            ud = o["orig"]["unit"]
            key = {
                "clause": r["clause"],
                "path": r["path"],
                "followup": r["followup"],
                "kind": c["cls"],
                "reg": c["reg"],
                "unit": c["unit"],
                "dim": ud[2],
                "offset": float.fromhex(ud[1]) != 0.0,
                "extra": r["extra"],
                "ident": r["ident"],
                "identloss": r["identloss"],
                "regchg": r["regchg"],
                "usyschg": r["usyschg"],
                "idchg": r["idchg"],
                "sharechg": r["sharechg"],
            }
            detail = {"chain": c["chain"], "order": c["order"]}
            if r["followup"]:
                fu = [f for f in o["fups"] if f["f"] == r["followup"]][0]
                detail.update(baseline=_short(fu["base"]), original=_short(fu["orig"]), restored=_short(fu["rest"]))
            else:
                s = o["steps"][r["l"] - 1]
                detail.update(step=r["l"], observed={k: s.get(k) for k in ("k", "exc", "msg", "nums", "unit", "usys", "eq_fwd", "eq_bwd") if k in s}, original={"nums": o["orig"]["nums"], "unit": o["orig"]["unit"]})
                if r["clause"] == "registry" and s.get("k") == "ok":
                    import impl_c11

                    detail["rows"] = {w: [a, b] for w, a, b in zip(impl_c11.WATCH_SYMS, o["orig"]["rows"], s["rows"]) if a != b}
            ck.violation(key, detail, case={k: c[k] for k in ("cls", "reg", "unit", "chain", "fups", "order")})


def _nontrivial(c):
    """a path that rebuilds the object (not a plain copy) followed by at least one follow-up"""
    return bool(c["fups"]) and any(not p.startswith(("copy_copy", "dot_copy")) for p in c["chain"])


def _cases_from(res, pred=None):
    out = []
    for r in res.by_tag("CASE"):
        c = {"cls": r["cls"], "reg": r["reg"], "unit": r["unit"], "chain": list(r["chain"]), "fups": list(r["fups"]), "order": r["order"]}
        if not c["fups"]:
            # the transcription says the chain does not complete: replay it with the whole battery anyway
            c["fups"] = None
        if pred is None or pred(c):
            out.append((c, r))
    return out


def run(ck):
    ck.level = "model_checking"
    ck.assumptions += [
        "objects: unyt_quantity (90.0), unyt_array ([0.5, 2.0, 90.0]) and Unit over 21 unit names; registries: the default registry, and custom registries built per case with added (foo), prefixable (pfoo), offset (ofoo), angle (afoo), logarithmic (lfoo) symbols, a modified default symbol (mile), their own 'code' unit system, and (customcgs) unit_system='cgs'",
        "every follow-up pair starts from empty process-wide lru memos; the baseline is the follow-up on the pristine original before anything was persisted",
        "floats are projected to hex strings; a restored-side number within 1e-12 relative of the original-side number is reported as equal (snap)",
        "pickle protocols 0/1 are refused by sympy itself and HDF5 needs h5py (absent): not executed; savetxt/loadtxt only for objects of the default registry (loadtxt has no registry argument); to_string/from_string refusals are not demanded; hash of the unit is observed, not demanded",
    ]
    import impl_c11  # noqa: F401  (constants only; unyt is imported in the workers)

    allf = None
    if ck.replay:
        blob = json.load(open(ck.replay))
        cases = [blob["case"]]
        obs = ck.pmap("impl_c11", "observe", cases, nproc=1)
        _validate(ck, cases, obs, "replay")
        return

    plan = ck.q(
        [("MC_C11_quick1", None, None), ("MC_C11_quick2", 2, None)],
        [("MC_C11_full1", None, None), ("MC_C11_full2", 2, None)],
    )
    seen = set()
    nontrivial = 0
    model_classes = set()
    ck.cov["bound"] = {}
    for cfg, only_len, _ in plan:
        res = ck.tlc("MC_C11", cfg, workers=1, label=f"{cfg}: histories build;persist*;follow battery, one case per terminal state", required_actions=["Build", "Persist", "Follow"], timeout=3000)
        rows = _cases_from(res, (lambda c: len(c["chain"]) == only_len) if only_len else None)
        if len(rows) < 50:
            raise MachineryFailure("too few cases exported by " + cfg)
        if allf is None:
            allf = max((c["fups"] for c, _ in rows if c["fups"]), key=len)
        cases = []
        for c, r in rows:
            if c["fups"] is None:
                c["fups"] = list(allf)
            sig = json.dumps(c, sort_keys=True)
            if sig in seen:
                continue
            seen.add(sig)
            cases.append(c)
            for i, m in enumerate(r["model"]):
                if m:
                    model_classes.add((c["fups"][i], c["unit"], "+".join(sorted({p.rstrip("0123456789") for p in c["chain"]}))))
            if r["restorefails"]:
                model_classes.add(("restore", c["unit"], c["chain"][-1].rstrip("0123456789")))
        ck.cov["bound"][cfg] = {"cases": len(cases)}
        ck.sample(cases[len(cases) // 3])
        nontrivial += sum(1 for c in cases if _nontrivial(c))
        obs = ck.pmap("impl_c11", "observe", cases, chunk_timeout=3000)
        _validate(ck, cases, obs, cfg)

    # beyond the bound: longer chains from TLC's simulator
    n_sim = ck.q(40, 1500)
    res = ck.tlc("MC_C11", "MC_C11_sim", workers=1, simulate=n_sim, depth=60, label="simulation: chains up to 4 paths", timeout=3000)
    rows = _cases_from(res, lambda c: len(c["chain"]) >= 3)
    rnd = random.Random(ck.seed)
    cases = []
    for c, r in rows:
        if c["fups"] is None:
            c["fups"] = list(allf)
        sig = json.dumps(c, sort_keys=True)
        if sig not in seen:
            seen.add(sig)
            cases.append(c)
    cases.sort(key=lambda c: json.dumps(c, sort_keys=True))
    rnd.shuffle(cases)
    cases = cases[: ck.q(60, 2500)]
    if cases:
        ck.sample(cases[0])
        nontrivial += sum(1 for c in cases if _nontrivial(c))
        obs = ck.pmap("impl_c11", "observe", cases, chunk_timeout=3000)
        _validate(ck, cases, obs, "sim")
    ck.cov["simulated_histories"] = len(cases)
    ck.cov["model_level_diverging_classes"] = len(model_classes)
    ck.cov["exhaustive"] = True
    ck.cov["evaluations"] = ck.cov["traces_validated_against_impl"]
    ck.cov["distinct_nontrivial"] = nontrivial
    ck.cov["rule"] = "histories exported by TLC (object x chain of persistence paths x order, whole follow-up battery) replayed on real objects; non-trivial = the chain contains a path that rebuilds the object (not copy.copy/.copy()) and the battery was applied"
