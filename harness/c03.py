"""C03 - unit conversion obeys identity, inverse and composition laws on every route.

Spec: spec/Convert.tla (+ MC_C03, Trace_C03).
  1. the unit table of the working tree is projected to exact rationals (c03_data.py) and handed to TLC;
  2. TLC (MC_C03) enumerates the cases - ordered triples (A, B, C) of commensurable units (same dimension vector,
     or a supported CGS<->SI electromagnetic pair) x (dtype, shape, values), and unit x unit-system base cases -
     computes the numbers the transcription of _get_conversion_factor / the EM route predicts, checks the C03 laws
     on them (model level) and exports the cases;
  3. every case is replayed in real unyt on every route (impl_c03.py); floats are matched to the specification's
     exact numbers within rounding;
  4. TLC (Trace_C03) evaluates the C03 predicates on the observations (P) and compares them with the
     transcription (T).
Two instances: `exact` (an alphabet covering every branch of the affine rule, all numbers predicted) and `table`
(every symbol of the tree's table + generated compounds; predicates only)."""

import json

import c03_data
from common import MachineryFailure

CHUNK = 4000


def _cfg(ck, name, stride, phase, allcombos, withbase):
    txt = (
        "CONSTANTS\n"
        f"  Stride = {stride}\n  Phase = {phase}\n  AllCombos = {'TRUE' if allcombos else 'FALSE'}\n  WithBase = {'TRUE' if withbase else 'FALSE'}\n"
        "INIT Init\nNEXT Next\nINVARIANT ExportCase\nCHECK_DEADLOCK FALSE\n"
    )
    open(f"{ck.spec}/{name}.cfg", "w").write(txt)


def _short(o):
    return f"{o['kind']} A={o['names']['A']} B={o['names']['B']} C={o['names']['C']} sys={o['sys']} {o['dt']} {o['sh']}"


def _validate(ck, obs, datapath, label):
    keep = ("kind", "a", "b", "c", "k", "dt", "sh", "xs", "exact", "sys", "sysi", "ustr")
    for off in range(0, len(obs), CHUNK):
        part = obs[off : off + CHUNK]
        slim = []
        for o in part:
            s = {k: o[k] for k in keep}
            s["res"] = [{k: r[k] for k in ("fam", "rt", "g", "k", "exc", "u", "dt", "v")} for r in o["res"]]
            slim.append(s)
        path = ck.write_json(f"obs_{label}_{off}.json", slim)
        res = ck.tlc("Trace_C03", env={"C03_DATA": datapath, "C03_OBS": path}, workers=1, coverage=False, label=f"trace validation {label}", timeout=3000)
        if res.distinct != len(part) + 1:
            raise MachineryFailure(f"trace validation consumed {res.distinct} states, expected {len(part) + 1}")
        ck.validated(len(part))
        for r in res.by_tag("T-FAIL"):
            o = part[r["i"] - 1]
            ck.drift_step(f"{r['what']}:{r['fam']}.{r['rt']}", {"case": _short(o), "res": [x for x in o["res"] if x["fam"] == r["fam"] and x["rt"] == r["rt"]][:1]})
        for r in res.by_tag("P-FAIL"):
            o = part[r["i"] - 1]
            x = o["res"][r["j"] - 1]
            key = {"clause": r["clause"], "fam": r["fam"], "rt": r["rt"], "dt": o["dt"], "sh": o["sh"], "cls": r["cls"], "exc": r["exc"]}
            fam = [y for y in o["res"] if y["fam"] in (r["fam"], {"abc": "ac", "aba": "id", "bback": "id"}.get(r["fam"], r["fam"]))]
            detail = {"case": _short(o), "xs": o["xs"], "observed": {f"{y['fam']}.{y['rt']}": [y["k"], y["exc"], y["u"], y["show"]] for y in fam}, "failing": f"{x['fam']}.{x['rt']}"}
            case = {k: o[k] for k in ("kind", "a", "b", "c", "k", "dt", "sh", "xs", "exact", "sys", "sysi")}
            case.update(mode=label.split("-")[0], A=o["_case"]["A"], B=o["_case"]["B"], C=o["_case"]["C"], gen=o["_case"]["gen"], cand=o["_case"]["cand"])
            ck.violation(key, detail, case=case)


def _instance(ck, mode, stride, phase, allcombos, withbase):
    data, info = c03_data.build(ck.extract(), mode)
    datapath = ck.write_json(f"c03_data_{mode}.json", data)
    _cfg(ck, f"MC_C03_{mode}", stride, phase, allcombos, withbase)
    res = ck.tlc("MC_C03", f"MC_C03_{mode}", env={"C03_DATA": datapath}, workers=1, coverage=False, label=f"case table {mode} stride={stride} allcombos={allcombos}", timeout=3000)
    cases = res.by_tag("CASE")
    if len(cases) < 50:
        raise MachineryFailure(f"too few cases exported ({len(cases)}) for {mode}")
    if res.distinct != len(cases) + 1:
        raise MachineryFailure("case export incomplete")
    return data, info, datapath, cases


def _replay(ck, mode, datapath, info, cases, label):
    obs = ck.pmap("impl_c03", "observe", cases, common=info, chunk_timeout=3000)
    bad = [o for o in obs if "_error" in o]
    if bad:
        raise MachineryFailure("replay error: " + str(bad[0]))
    for o, c in zip(obs, cases):
        o["_case"] = c
    _validate(ck, obs, datapath, label)
    return obs


def run(ck):
    ck.level = "model_checking"
    ck.assumptions += [
        "scales are s*G^tag with s an exact 32-bit-safe rational and G = pi (angles) or c (EM pairs); table values that do not rationalise get no predicted numbers (predicates are still evaluated)",
        "observed floats are matched to the specification's exact numbers (or to each other) within 512 eps (float64) / 32 eps (float32) of the largest magnitude met in the chain, offsets included",
        "dtype alphabet float64, float32, complex128, int64, int32 (1- and 2-byte integers belong to C17/C18); shapes scalar and 1-d",
        "the by-hand route (get_conversion_factor) is not demanded across dimensions (no EM route: explicit refusal)",
        "unit systems mks, cgs, imperial (+ galactic, solar in the table instance); which unit a system picks is C10's",
    ]
    if ck.replay:
        blob = json.load(open(ck.replay))
        case = blob["case"]
        mode = case.get("mode", "exact")
        data, info = c03_data.build(ck.extract(), mode)
        datapath = ck.write_json(f"c03_data_{mode}.json", data)
        _replay(ck, mode, datapath, info, [case], f"{mode}-replay")
        return

    seed = ck.seed
    model_fail = 0
    n_exact = n_cases = 0
    nontrivial = 0
    for mode, stride, allc, withbase in (
        ("exact", ck.q(8, 1), False, True),
        ("table", ck.q(31, 1), False, True),
    ):
        phase = seed % stride
        data, info, datapath, cases = _instance(ck, mode, stride, phase, allc, withbase)
        for c in cases:
            m = c["model"]
            if not (m["id"] and m["inv"] and m["comp"] and m["routes"]):
                model_fail += 1
                ck.note({"MODEL-FAIL": {k: c[k] for k in ("A", "B", "C", "dt", "sh", "model")}})
        n_cases += len(cases)
        n_exact += sum(1 for c in cases if c["exact"])
        nontrivial += sum(1 for c in cases if c["kind"] == "base" or not (c["a"] == c["b"] == c["c"]))
        ck.sample({k: cases[len(cases) // 3][k] for k in ("kind", "A", "B", "C", "dt", "sh", "xs", "sys", "exact")})
        ck.cov[f"cases_{mode}"] = len(cases)
        ck.cov[f"pool_{mode}"] = len(data["pool"])
        ck.cov[f"units_exact_{mode}"] = sum(1 for r in data["lut"] if r["ex"])
        ck.cov[f"units_total_{mode}"] = len(data["lut"])
        _replay(ck, mode, datapath, info, cases, f"{mode}-cover")
    if model_fail:
        # the transcription itself breaks a law on the grid: a claim about the design, replayed above like any case
        ck.drift_step("model-level law failure", {"count": model_fail})
    ck.cov["exhaustive"] = False  # triples of the exact pool are exhaustive in the thorough tier; combos rotate, the table pool is strided
    ck.cov["evaluations"] = n_cases
    ck.cov["cases_with_predicted_numbers"] = n_exact
    ck.cov["distinct_nontrivial"] = nontrivial
    ck.cov["rule"] = "conversion cases whose three units are not all the same unit, plus all unit-system base cases"
    ck.cov["model_level_law_failures"] = model_fail
