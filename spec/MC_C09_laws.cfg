CONSTANTS
  MaxLen = 0
  ExportLen = 0
  NUin = 1
  NUout = 1
  Diag = 0
  Part = 0
  Profile = "laws"
INIT LInit
NEXT LNext
INVARIANT L_Total
INVARIANT L_Formula
INVARIANT L_Inv
INVARIANT L_Path
INVARIANT L_Twin
INVARIANT L_Gate
INVARIANT L_Value
INVARIANT ExportLaw
CHECK_DEADLOCK FALSE
