CONSTANTS
  RowMod = 7
  RowSel = 0
INIT Init
NEXT Next
INVARIANT ModelOrderFree
INVARIANT Export
CHECK_DEADLOCK FALSE
