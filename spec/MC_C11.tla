------------------------------ MODULE MC_C11 ------------------------------
(* Bounded instances of Persist for C11.  Every history                       *)
(*   Build(cls, registry, unit) ; Persist(path)^{1..MaxChain} ; StartFollow(order) ; Follow(f) for the whole battery *)
(* is enumerated; the terminal state of each history is exported as one case  *)
(* (with the transcription's verdict per follow-up, reported as model-level   *)
(* classes).  Instances (cfg):                                                *)
(*   MC_C11_quick1   chains of length 1, every path, reduced unit alphabet    *)
(*   MC_C11_quick2   chains of length 2 over one representative per path class*)
(*   MC_C11_full1    chains of length 1, every path, every (registry, unit)   *)
(*   MC_C11_full2    chains of length <= 2, representatives, every pair       *)
(*   MC_C11_sim      chains up to length 4 with -simulate                     *)
EXTENDS Persist

AllCombos == {ru \in Regs \X UnitNames : Available(ru[1], ru[2])}
QuickCombos == {<<"default", "m">>, <<"default", "km/hr">>, <<"default", "degree">>, <<"default", "K">>, <<"default", "degC">>,
                <<"default", "delta_degC">>, <<"default", "dB">>, <<"default", "dimensionless">>, <<"default", "erg">>,
                <<"custom", "foo">>, <<"custom", "kpfoo">>, <<"custom", "ofoo">>, <<"custom", "afoo">>, <<"custom", "lfoo">>,
                <<"custom", "mile">>, <<"custom", "degC">>, <<"customcgs", "foo">>, <<"customcgs", "erg">>,
                <<"customrm", "foo">>, <<"customrm", "degree">>, <<"customrm", "km/hr">>}
Quick2Combos == {<<"default", "degree">>, <<"default", "degC">>, <<"default", "km/hr">>, <<"custom", "lfoo">>, <<"custom", "ofoo">>,
                 <<"custom", "mile">>, <<"customcgs", "foo">>, <<"customrm", "degree">>}
RepPaths == {"pickle4", "deepcopy", "dot_copy", "str_roundtrip", "json_registry", "savetxt2", "string_roundtrip", "unit_copy_deep"}
BothOrders == {"of", "rf"}
PlainPre == {<<"idlast", "warm", "insync">>}
OtherPre == {<<"idfirst", "warm", "insync">>, <<"idfirst", "cold", "insync">>, <<"idlast", "cold", "insync">>}
AllPre == PlainPre \cup OtherPre
\* objects out of sync with their registry (re-valued after creation / explicit values under a registered name), memo warm and cold
StalePre == {<<"idlast", m, s>> : m \in {"warm", "cold"}, s \in {"revalued", "shadow"}}
StaleCombos == {<<"custom", "foo">>, <<"custom", "kpfoo">>, <<"custom", "ofoo">>, <<"custom", "foo/pfoo">>, <<"default", "km/hr">>}
StalePaths == {"pickle4", "copy_copy", "dot_copy", "deepcopy", "unit_copy_deep"}
ArrayUnit == {"array", "unit"}
\* quick1: protocols 2 and 3 and the two historical savetxt forms are left to the thorough tier (the savetxt forms are
\* members of the call-form instance MC_C11_sv)
Quick1Paths == AllPaths \ {"pickle2", "pickle3", "savetxt", "savetxt2"}
OrigFirst == {"of"}
\* the savetxt / loadtxt call forms
SvCombos == {<<"default", "km/hr">>, <<"default", "degC">>}
SvFullCombos == {ru \in AllCombos : ru[1] = "default"}
ArrayOnly == {"array"}
PreCombos == {<<"customrm", "foo">>, <<"custom", "foo">>, <<"custom", "kpfoo">>, <<"custom", "mile">>, <<"customcgs", "km/hr">>, <<"default", "degC">>}
PrePaths == {"pickle4", "pickle_nested", "copy_copy", "dot_copy", "deepcopy", "unit_copy_deep", "json_registry", "str_roundtrip"}

Case == [tag |-> "CASE", cls |-> obj.cls, reg |-> obj.reg, unit |-> obj.unit, pre |-> obj.pre, memo |-> obj.memo, sync |-> obj.sync, chain |-> chain, order |-> IF order = "" THEN "of" ELSE order,
         fups |-> [i \in DOMAIN fups |-> fups[i].f], alive |-> st.alive,
         model |-> [i \in DOMAIN fups |-> IF fups[i].rest /\ fups[i].orig THEN 0 ELSE 1],
         restorefails |-> ModelRestoreFails]
Export == Terminal => PrintT(ToJson(Case))
=============================================================================
