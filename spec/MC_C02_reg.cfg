CONSTANTS
  MaxLen = 3
  SysCodes = {21, 32, 43, 14}
  FooTmpls = {1, 2}
  QuxTmpls = {}
  C1 = {1}
  C2 = {2}
  CMod = {1, 2}
  Forms1 = {"tuple", "qdef", "qreg"}
  Forms2 = {"tuple"}
  AddRegs = {1, 2}
  ModForms = {"number", "qreg"}
  Pfx1 = {TRUE, FALSE}
  Pfx2 = {FALSE}
INIT Init
NEXT Next
VIEW View
INVARIANT RunAgrees
INVARIANT Sane
INVARIANT Export
CHECK_DEADLOCK FALSE
