#!/venv/bin/python
"""Sensitivity self-test: apply each hand-made mutant (mutants/Cxx-*.patch) and each seeded change
(seeded/<id>/patch.diff + meta.json) to a scratch copy of /repo (outside /repo and /verif, removed afterwards),
run the owning check against the copy and report caught / missed.

usage: tools/selftest.py [--tier quick|thorough] [--only C01,C12] [--suite] [--jobs N] [--json out.json]
  --suite   also confirm that the repository's test-suite stays at its baseline on the changed copy
Exit 0 always (this is a report, not a check); the table goes to DESIGN.md by hand."""
import argparse
import concurrent.futures as cf
import glob
import json
import os
import re
import shutil
import subprocess
import tempfile

HERE = os.path.dirname(os.path.dirname(os.path.abspath(__file__)))


def items(only):
    out = []
    for p in sorted(glob.glob(os.path.join(HERE, "mutants", "C*-*.patch"))):
        pid = os.path.basename(p)[:3]
        out.append({"name": os.path.basename(p)[:-6], "patch": p, "props": [pid], "kind": "mutant"})
    for d in sorted(glob.glob(os.path.join(HERE, "seeded", "*"))):
        pf = os.path.join(d, "patch.diff")
        mf = os.path.join(d, "meta.json")
        if not os.path.exists(pf):
            continue
        meta = json.load(open(mf)) if os.path.exists(mf) else {}
        if meta.get("retired"):
            continue
        props = meta.get("checks") or [meta.get("property", os.path.basename(d)[:3])]
        out.append({"name": "seeded/" + os.path.basename(d), "patch": pf, "props": props, "kind": "seeded"})
    if only:
        out = [i for i in out if set(i["props"]) & set(only)]
    return out


def apply_patch(tree, patch):
    for args in (["git", "apply", "--whitespace=nowarn", patch], ["patch", "-p1", "-s", "-i", patch], ["patch", "-p0", "-s", "-i", patch]):
        r = subprocess.run(args, cwd=tree, capture_output=True, text=True)
        if r.returncode == 0:
            return True
        subprocess.run(["git", "checkout", "--", "."], cwd=tree, capture_output=True)
    return False


def run_one(it, tier, suite, ncpu):
    t = tempfile.mkdtemp(prefix="unytverif_selftest_")
    res = {"name": it["name"], "kind": it["kind"], "checks": {}}
    try:
        subprocess.run(["rsync", "-a", "--exclude", ".git", "--exclude", "__pycache__", "/repo/", t + "/"], check=True)
        subprocess.run(["git", "init", "-q", "."], cwd=t, capture_output=True)
        subprocess.run("git add -A >/dev/null; git -c user.email=a@b -c user.name=x commit -qm base", cwd=t, shell=True, capture_output=True)
        if not apply_patch(t, it["patch"]):
            res["error"] = "patch does not apply"
            return res
        if suite:
            r = subprocess.run([os.path.join(HERE, "tools", "mutant_tests.sh"), t], capture_output=True, text=True)
            res["suite"] = "green" if "SUITE-GREEN" in r.stdout else "RED"
        for pid in it["props"]:
            env = dict(os.environ, UNYT_VERIF_REPO=t, VERIF_EVIDENCE_DIR=os.path.join(t, ".evidence"), VERIF_NCPU=str(ncpu))
            r = subprocess.run([os.path.join(HERE, "check"), pid, "--tier", tier], cwd=HERE, env=env, capture_output=True, text=True)
            keys = re.findall(r"^  key=(\{.*?\}) detail", r.stdout, re.M)
            res["checks"][pid] = {"exit": r.returncode, "caught": r.returncode == 1 and "VIOLATION property=" + pid in r.stdout, "keys": keys[:3], "tail": r.stdout.strip().splitlines()[-1:] + r.stderr.strip().splitlines()[-1:]}
    finally:
        shutil.rmtree(t, ignore_errors=True)
    return res


def main():
    ap = argparse.ArgumentParser()
    ap.add_argument("--tier", default="quick")
    ap.add_argument("--only", default="")
    ap.add_argument("--suite", action="store_true")
    ap.add_argument("--jobs", type=int, default=2)
    ap.add_argument("--json")
    a = ap.parse_args()
    its = items([x for x in a.only.split(",") if x])
    ncpu = max(2, 16 // a.jobs)
    out = []
    with cf.ThreadPoolExecutor(a.jobs) as ex:
        for r in ex.map(lambda it: run_one(it, a.tier, a.suite, ncpu), its):
            out.append(r)
            for pid, c in r.get("checks", {}).items():
                print(f"{'CAUGHT' if c['caught'] else 'MISSED'} {r['name']} by {pid} (exit {c['exit']}) suite={r.get('suite', '-')} {c['keys'][:1]}", flush=True)
            if "error" in r:
                print(f"ERROR  {r['name']}: {r['error']}", flush=True)
    if a.json:
        json.dump(out, open(a.json, "w"), indent=1)
    n = sum(1 for r in out for c in r.get("checks", {}).values())
    k = sum(1 for r in out for c in r.get("checks", {}).values() if c["caught"])
    print(f"selftest: {k}/{n} caught")


if __name__ == "__main__":
    main()
