CONSTANTS
  MaxLen = 3
INIT Init
NEXT Next
VIEW View
INVARIANT ExportState
CHECK_DEADLOCK FALSE
