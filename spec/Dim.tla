-------------------------------- MODULE Dim --------------------------------
(* Physical dimensions as exponent vectors.  A dimension is a tuple of 9     *)
(* integers holding 12x the exponent of each base dimension, in the order of *)
(* unyt.dimensions.base_dimensions as extracted by harness/extract.py:       *)
(*   1 mass, 2 length, 3 time, 4 temperature, 5 angle, 6 current_mks,        *)
(*   7 "1" (always 0), 8 luminous_intensity, 9 logarithmic.                  *)
(* 12x keeps the exponents 1/2, 1/3, 1/4, 1/6 integral (cgs EM units use     *)
(* half-integer powers).                                                     *)
EXTENDS Integers, Sequences
NDim == 9
DZero == [i \in 1..NDim |-> 0]
DBase(i) == [j \in 1..NDim |-> IF j = i THEN 12 ELSE 0]
DMul(a, b) == [i \in 1..NDim |-> a[i] + b[i]]
DDiv(a, b) == [i \in 1..NDim |-> a[i] - b[i]]
\* a ** (n/d); defined only when every 12x exponent stays integral
DPowOk(a, n, d) == \A i \in 1..NDim : (a[i] * n) % d = 0
DPow(a, n, d) == [i \in 1..NDim |-> (a[i] * n) \div d]
DIsZero(a) == \A i \in 1..NDim : a[i] = 0
DMass == DBase(1)
DLength == DBase(2)
DTime == DBase(3)
DTemperature == DBase(4)
DAngle == DBase(5)
DCurrent == DBase(6)
=============================================================================
