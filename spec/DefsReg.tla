------------------------------- MODULE DefsReg -------------------------------
(* C02 over user registries: the definitional DAG of Defs extended by user    *)
(* nodes.  Two registries, each created with its own unit_system (which only  *)
(* chooses the units results are DISPLAYED in by in_base() - never a scale),  *)
(* user symbols foo (defined over default symbols) and qux (defined over foo),*)
(* introduced by define_unit (tuple / quantity bound to the default registry /*)
(* quantity bound to that registry) or registry.add, re-defined by            *)
(* registry.modify (number / quantity).  A definition is                      *)
(*        coef x template expression over existing symbols                    *)
(* and its scale and dimension are obtained by the SAME flattening as for the *)
(* built-in symbols (Defs!Flat via ExpGens), so TLC computes what every name, *)
(* prefixed name and compound expression over user + default symbols must     *)
(* resolve to in that registry, and which pairs of units must convert by      *)
(* scale(u1)/scale(u2):  the same expression in two registries that define    *)
(* the symbol differently, the same expression before and after modify, a     *)
(* user symbol against its defining expression, a compound against the        *)
(* product of its constituents.                                               *)
(*                                                                            *)
(* The state is a pure function of the history (Run), so the instance         *)
(* (MC_C02_reg) and the trace validation (Trace_C02_reg) share it.            *)
EXTENDS Defs

NameIdx(str) == IF \E n \in DOMAIN Names : Names[n].name = str THEN CHOOSE n \in DOMAIN Names : Names[n].name = str ELSE 0
\* atoms of templates and probes: default names 1..NDef, then the user symbols and their kilo forms
RegNames == <<"mile", "g", "km", "hr", "m", "s", "cal", "cm">>
NDef == Len(RegNames)
FOO == NDef + 1
QUX == NDef + 2
KFOO == NDef + 3
KQUX == NDef + 4
UserNames == <<"foo", "qux", "kfoo", "kqux">>
AMILE == 1
AG == 2
AKM == 3
AHR == 4
AM == 5
AS == 6
ACAL == 7
ACM == 8
N(k) == NameTok(k)
\* defining expressions (Polish).  1-5 over default symbols (for foo), 6-7 over foo (for qux)
Tmpl == << <<N(AMILE)>>,
           <<N(AG)>>,
           <<DIV, N(AKM), N(AHR)>>,
           <<DIV, PowTok(4), N(AM), N(AS)>>,          \* m**3/s
           <<DIV, N(ACAL), PowTok(2), N(ACM)>>,       \* cal/cm**2
           <<N(FOO)>>,
           <<DIV, N(FOO), N(AS)>> >>
UserTmpl(t) == t >= 6
Systems == <<"mks", "cgs", "imperial", "galactic">>

\* a slot of a registry table: definition coef x Tmpl[t]; for a template over foo the definition of foo AT THAT TIME
\* (bt, bc) is part of the node (define_unit evaluates the definition when it is made)
NoSlot == [on |-> FALSE, t |-> 0, c |-> 0, pfx |-> FALSE, route |-> "", bt |-> 0, bc |-> 0]
Syms == {"foo", "qux"}
InitSt(sys) == [sys |-> sys, slot |-> [r \in 1..2 |-> [s \in Syms |-> NoSlot]], prev |-> [r \in 1..2 |-> NoSlot]]

\* ---- scale and dimension a definition implies (generator vector / vector over base atoms)
DefaultRead(k) == KeyRead[Names[NameIdx(RegNames[k])].key]
\* (constant tables: evaluated once)
ASSUME TLCSet(111, [k \in 1..NDef |-> LET r == DefaultRead(k) IN [g |-> ExpGens(r[1], r[2]), d |-> FlatTab[TabNode[r[2]]].a]])
DefaultTab == TLCGet(111)
DefaultGens(k) == DefaultTab[k].g
DefaultDim(k) == DefaultTab[k].d
ASSUME TLCSet(112, [t \in DOMAIN Tmpl |-> Meaning(Tmpl[t])])
TmplMeaning == TLCGet(112)
RECURSIVE DefGens(_, _, _, _), DefDimV(_, _, _, _), SumGens(_, _, _, _), SumDims(_, _, _, _)
\* atoms of a template: default names, or FOO standing for the definition (bt, bc)
SumGens(at, i, bt, bc) ==
  IF i > Len(at) THEN <<>>
  ELSE VAdd(VScale(IF at[i][1] <= NDef THEN DefaultGens(at[i][1]) ELSE DefGens(bt, bc, 0, 0), <<at[i][2], at[i][3]>>), SumGens(at, i + 1, bt, bc))
SumDims(at, i, bt, bc) ==
  IF i > Len(at) THEN <<>>
  ELSE VAdd(VScale(IF at[i][1] <= NDef THEN DefaultDim(at[i][1]) ELSE DefDimV(bt, bc, 0, 0), <<at[i][2], at[i][3]>>), SumDims(at, i + 1, bt, bc))
DefGens(t, c, bt, bc) == LET m == TmplMeaning[t] IN VAdd(CoefVec(c), VAdd(m.co, SumGens(m.at, 1, bt, bc)))
DefDimV(t, c, bt, bc) == LET m == TmplMeaning[t] IN SumDims(m.at, 1, bt, bc)
SlotGens(sl) == DefGens(sl.t, sl.c, sl.bt, sl.bc)
SlotDimV(sl) == DefDimV(sl.t, sl.c, sl.bt, sl.bc)

\* ---- a unit expression over user + default atoms, resolved in a registry whose user table is ctx
CtxGens(k, ctx) == IF k <= NDef THEN DefaultGens(k)
                   ELSE IF k = FOO THEN SlotGens(ctx["foo"]) ELSE IF k = QUX THEN SlotGens(ctx["qux"])
                   ELSE IF k = KFOO THEN VAdd(Ten(3), SlotGens(ctx["foo"])) ELSE VAdd(Ten(3), SlotGens(ctx["qux"]))
CtxDimV(k, ctx) == IF k <= NDef THEN DefaultDim(k)
                   ELSE IF k \in {FOO, KFOO} THEN SlotDimV(ctx["foo"]) ELSE SlotDimV(ctx["qux"])
RECURSIVE CtxSumG(_, _, _), CtxSumD(_, _, _)
CtxSumG(at, i, ctx) == IF i > Len(at) THEN <<>> ELSE VAdd(VScale(CtxGens(at[i][1], ctx), <<at[i][2], at[i][3]>>), CtxSumG(at, i + 1, ctx))
CtxSumD(at, i, ctx) == IF i > Len(at) THEN <<>> ELSE VAdd(VScale(CtxDimV(at[i][1], ctx), <<at[i][2], at[i][3]>>), CtxSumD(at, i + 1, ctx))
ExprGens(toks, ctx) == LET m == Meaning(toks) IN VAdd(m.co, CtxSumG(m.at, 1, ctx))
ExprDimV(toks, ctx) == LET m == Meaning(toks) IN CtxSumD(m.at, 1, ctx)

\* ---- the calls.  e = [op, r, sym, t, c, form, pfx]
\*   define : define_unit(sym, coef x Tmpl[t], prefixable=pfx, registry=reg r); form tuple | qdef | qreg
\*   add    : reg.add(sym, <scale the definition implies>, <its dimension>, prefixable=pfx)
\*   modify : reg.modify("foo", ...) to coef c x the same template; form number | qdef | qreg
Enabled(st, e) ==
  LET tab == st.slot[e.r] IN
  CASE e.op \in {"define", "add"} ->
         /\ ~tab[e.sym].on
         /\ IF UserTmpl(e.t) THEN e.sym = "qux" /\ tab["foo"].on /\ ~UserTmpl(tab["foo"].t) /\ e.form # "qdef"
            ELSE e.sym = "foo"
    [] e.op = "modify" -> e.sym = "foo" /\ tab["foo"].on /\ tab["foo"].c # e.c
    [] OTHER -> FALSE
Apply(st, e) ==
  LET tab == st.slot[e.r] IN
  CASE e.op \in {"define", "add"} ->
         [st EXCEPT !.slot[e.r][e.sym] =
            [on |-> TRUE, t |-> e.t, c |-> e.c, pfx |-> e.pfx, route |-> IF e.op = "add" THEN "add" ELSE "define-" \o e.form,
             bt |-> IF UserTmpl(e.t) THEN tab["foo"].t ELSE 0, bc |-> IF UserTmpl(e.t) THEN tab["foo"].c ELSE 0]]
    [] e.op = "modify" ->
         [st EXCEPT !.prev[e.r] = tab["foo"],
                    !.slot[e.r]["foo"] = [tab["foo"] EXCEPT !.c = e.c, !.route = "modify-" \o e.form]]
RECURSIVE RunFrom(_, _, _)
RunFrom(st, h, i) == IF i > Len(h) THEN st ELSE RunFrom(IF Enabled(st, h[i]) THEN Apply(st, h[i]) ELSE st, h, i + 1)
Run(sys, h) == RunFrom(InitSt(sys), h, 1)
\* which steps the model expects to be accepted
RECURSIVE OkFrom(_, _, _)
OkFrom(st, h, i) == IF i > Len(h) THEN <<>> ELSE <<Enabled(st, h[i])>> \o OkFrom(IF Enabled(st, h[i]) THEN Apply(st, h[i]) ELSE st, h, i + 1)
\* the numbers / dimension a call carries (for add and modify-by-number the harness needs the scale the definition implies)
EventGens(st, e) == LET tab == st.slot[e.r] IN
                    IF e.op = "modify" THEN DefGens(tab["foo"].t, e.c, 0, 0)
                    ELSE DefGens(e.t, e.c, IF UserTmpl(e.t) THEN tab["foo"].t ELSE 0, IF UserTmpl(e.t) THEN tab["foo"].c ELSE 0)
EventDim(st, e) == LET tab == st.slot[e.r] IN
                   IF e.op = "modify" THEN Dense(DefDimV(tab["foo"].t, e.c, 0, 0))
                   ELSE Dense(DefDimV(e.t, e.c, IF UserTmpl(e.t) THEN tab["foo"].t ELSE 0, IF UserTmpl(e.t) THEN tab["foo"].c ELSE 0))

\* ---- what is looked at in the final state
PF == <<N(FOO)>>
PQ == <<N(QUX)>>
FooSqPerS == <<DIV, PowTok(2), N(FOO), N(AS)>>
FooPerS == <<DIV, N(FOO), N(AS)>>
KmFoo == <<MUL, N(AKM), N(FOO)>>
\* expressions snapshotted as Unit objects before a modify (never a prefixed form: C12 owns derived rows)
SnapExprs == <<PF, FooPerS>>
ProbesOf(st, r) ==
  LET tab == st.slot[r]
      f == tab["foo"]
      q == tab["qux"] IN
  (IF f.on THEN <<PF, FooSqPerS, <<SQRT, N(FOO)>>, KmFoo, <<DIV, N(FOO), N(AMILE)>>>> ELSE <<>>)
  \o (IF f.on /\ f.pfx THEN <<<<N(KFOO)>>, <<DIV, N(KFOO), PowTok(2), N(AS)>>>> ELSE <<>>)
  \o (IF q.on THEN <<PQ, <<DIV, N(QUX), N(FOO)>>, <<MUL, N(QUX), N(AHR)>>>> ELSE <<>>)
  \o (IF q.on /\ q.pfx THEN <<<<N(KQUX)>>>> ELSE <<>>)
  \o <<<<N(AKM)>>, <<DIV, N(AMILE), N(AHR)>>>>
Probes(st) == [i \in 1..Len(ProbesOf(st, 1)) |-> [r |-> 1, toks |-> ProbesOf(st, 1)[i]]]
              \o [i \in 1..Len(ProbesOf(st, 2)) |-> [r |-> 2, toks |-> ProbesOf(st, 2)[i]]]

\* substitute the defining expression for an atom (compound vs product of constituents):  km * foo  ->  km * (template)
MkPair(k, r1, a, w1, r2, b, w2) == [k |-> k, r1 |-> r1, a |-> a, w1 |-> w1, r2 |-> r2, b |-> b, w2 |-> w2]
CrossPairs(st) ==
  LET f1 == st.slot[1]["foo"]
      f2 == st.slot[2]["foo"] IN
  IF f1.on /\ f2.on /\ SlotDimV(f1) = SlotDimV(f2)
  THEN <<MkPair("cross", 1, PF, "new", 2, PF, "new"), MkPair("cross", 2, FooSqPerS, "new", 1, FooSqPerS, "new"), MkPair("cross", 1, KmFoo, "new", 2, KmFoo, "new")>>
  ELSE <<>>
OldNewPairs(st, r) ==
  IF st.prev[r].on THEN <<MkPair("oldnew", r, PF, "old", r, PF, "new"), MkPair("oldnew", r, FooPerS, "new", r, FooPerS, "old")>> ELSE <<>>
DefnPairs(st, r) ==
  LET f == st.slot[r]["foo"]
      q == st.slot[r]["qux"] IN
  (IF f.on THEN <<MkPair("defn", r, PF, "new", r, Tmpl[f.t], "new"), MkPair("defn", r, <<MUL, N(AKM)>> \o Tmpl[f.t], "new", r, KmFoo, "new")>> ELSE <<>>)
  \o (IF f.on /\ f.pfx THEN <<MkPair("defn", r, <<N(KFOO)>>, "new", r, Tmpl[f.t], "new")>> ELSE <<>>)
  \o (IF q.on THEN <<MkPair("defn", r, PQ, "new", r, Tmpl[q.t], "new")>> ELSE <<>>)
Pairs(st) == CrossPairs(st) \o OldNewPairs(st, 1) \o OldNewPairs(st, 2) \o DefnPairs(st, 1) \o DefnPairs(st, 2)
\* the user table a side of a pair is read in: the current one, or foo as it was before the last modify
CtxOf(st, r, w) == IF w = "old" THEN [st.slot[r] EXCEPT !["foo"] = st.prev[r]] ELSE st.slot[r]
\* generator sanity (TLC checks it on every generated state): both sides of every pair have the same dimension
PairsCommensurable(st) == \A i \in DOMAIN Pairs(st) : LET p == Pairs(st)[i] IN
                            ExprDimV(p.a, CtxOf(st, p.r1, p.w1)) = ExprDimV(p.b, CtxOf(st, p.r2, p.w2))

\* ---- the NAME of the user symbol (round 7).  Unit strings are read by a parser that rewrites alternative names before
\* the registry is consulted, so whether "the symbol the user defined" is what a string mentions depends on its spelling.
\* Candidates: every name of the tree's name table, single letters, names users give their symbols, plural / upper-case /
\* capitalised variants of the tree's alternative names (D.uextra).  Vocab = the frozen vocabulary of the library at the
\* pinned revision (data/C02_vocabulary.json; NOT regenerated).  A user symbol whose name is outside Vocab has exactly one
\* definition - the user's - and C02 demands that every expression mentioning it resolves to that definition; a name inside
\* Vocab already has a meaning by the library's own tables (which of the two wins is not demanded).
VocabSet == {D.vocab[v] : v \in DOMAIN D.vocab}
UExtra == D.uextra
NCand == Len(Names) + Len(UExtra)
USpell(k) == IF k <= Len(Names) THEN Names[k].name ELSE UExtra[k - Len(Names)].name
UClass(k) == IF k <= Len(Names) THEN "tree" ELSE UExtra[k - Len(Names)].cls
UDemandedName(str) == str \notin VocabSet
UDemanded == {k \in 1..NCand : UDemandedName(USpell(k))}
\* the kilo form of a prefixable user symbol is probed only when that spelling has no other meaning either
UKiloFree(k) == ("k" \o USpell(k)) \notin VocabSet /\ \A n \in DOMAIN Names : Names[n].name # "k" \o USpell(k)

\* ---- property predicates on observations
\* a name / compound resolved in a user registry has the scale its definition implies: exact class, tolerance one unit of
\* 4e-15 per node + 3 for the evaluation of the definition
C02_RegScale(eu, toks) == eu[1] <= Len(toks) + 3
\* every conversion route multiplies by scale(u1)/scale(u2); the detour via SI makes two conversions
C02_RegConvert(route, e) == e <= (IF route = "via_in_base" THEN 6 ELSE 3)
=============================================================================
