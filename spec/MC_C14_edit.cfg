CONSTANT MaxLen = 2
CONSTANT Deep = 0
INIT EditInit
NEXT Next
INVARIANT Export
CHECK_DEADLOCK FALSE
