---------------------------- MODULE UnitSystem ----------------------------
(* Unit systems as unyt keeps them (unyt/unit_systems.py) and the base       *)
(* conversion entry points that consult them (Unit.get_base_equivalent,      *)
(* unyt_array.in_base / convert_to_base / in_cgs / in_mks, and the           *)
(* electromagnetic route _check_em_conversion / _em_conversion of            *)
(* unyt/unit_object.py).                                                     *)
(*                                                                           *)
(* DATA (regenerated from the tree under test on every run, read from the    *)
(* JSON file named by the environment variable C10DATA):                     *)
(*   atoms[a]   = [dim: 9-vector of 12x exponents, pfx: prefixable,          *)
(*                 off: has an offset, reg: 0 default table / 1 code units]  *)
(*   nprefix    = number of SI prefixes (a prefix is an index 1..nprefix)    *)
(*   em[i]      = [from, to: atoms, fdim, tdim] (unit_object.em_conversions) *)
(*   systems[s] = [base: 9 x <<prefix, atom>> (<<0,0>> = None), bcoef: 9 x   *)
(*                 <<n, d>> numeric coefficient of each base unit, decl: seq *)
(*                 of [dim, x], reg, coef, short]                            *)
(*   defaults   = default base units of UnitSystem.__init__                  *)
(* RULES live here: what the system unit of a dimension is, which route a    *)
(* unit takes, what "inside the system" means, EM counterpart pairing,       *)
(* idempotence, agreement with get_base_equivalent, validation of base       *)
(* units, independence of the read history.                                  *)
(*                                                                           *)
(* A unit expression is a set of triples <<prefix, atom, 12*exponent>>.      *)
EXTENDS Dim, Rational, FiniteSets, TLC, Json, IOUtils

D == JsonDeserialize(IOEnv.C10DATA)
Atoms == D.atoms
NAtoms == Len(Atoms)
NPrefix == D.nprefix
EMTab == D.em
Systems == D.systems
Defaults == D.defaults
NoUnit == <<0, 0>>
CUR == 6                         \* position of current_mks in a dimension vector

ToSet(s) == {s[i] : i \in DOMAIN s}
Known(x) == \A t \in x : t[2] \in 1..NAtoms /\ t[1] \in 0..NPrefix
RECURSIVE XDim(_)
XDim(x) == IF x = {} THEN DZero
           ELSE LET t == CHOOSE t \in x : TRUE IN DMul(DPow(Atoms[t[2]].dim, t[3], 12), XDim(x \ {t}))
XAtoms(x) == {<<t[1], t[2]>> : t \in x}
\* several spellings of one prefix (u, micro sign, Greek mu) are rewritten to one when a name is parsed
PCanon(p) == IF p = 0 THEN 0 ELSE D.pcanon[p]
XCanon(x) == {<<PCanon(t[1]), t[2], t[3]>> : t \in x}

(* ------------------------------------------------------------------------ *)
(* Implementation-shaped part (T)                                            *)
(* ------------------------------------------------------------------------ *)
\* a system value: [base, decl: seq of [dim, x], reg, coef]
HasCur(S) == S.base[CUR] # NoUnit
DeclDims(S) == {S.decl[i].dim : i \in DOMAIN S.decl}
\* later declarations of the same dimension override earlier ones (__setitem__)
DeclOf(S, d) == LET i == CHOOSE i \in DOMAIN S.decl : S.decl[i].dim = d /\ \A j \in DOMAIN S.decl : S.decl[j].dim = d => j <= i
                IN ToSet(S.decl[i].x)
BaseAtoms(S) == {S.base[i] : i \in {j \in 1..NDim : S.base[j] # NoUnit}}
\* _get_system_unit_string: every base dimension of the key is replaced by the base unit, same power
Factor(S, d) == {<<S.base[i][1], S.base[i][2], d[i]>> : i \in {j \in 1..NDim : d[j] # 0}}
\* numeric coefficient of a unit expressed in S: every base unit enters with its own coefficient (a base unit given as
\* the quantity 2*kpc counts as 2 kpc), raised to the same power; atoms that are not base units of S contribute 1.
\* Half-integer powers make the coefficient irrational, so it is compared raised to CPow (1, 2; 12 = not compared).
CPow(x) == IF \A t \in x : t[3] % 12 = 0 THEN 1 ELSE IF \A t \in x : t[3] % 6 = 0 THEN 2 ELSE 12
SlotOf(S, pa) == CHOOSE i \in 1..NDim : S.base[i] = pa
RECURSIVE XCoef(_, _, _)
XCoef(S, x, k) == IF x = {} THEN ROne
                  ELSE LET t == CHOOSE t \in x : TRUE
                           c == IF <<t[1], t[2]>> \in BaseAtoms(S) THEN RPow(S.bcoef[SlotOf(S, <<t[1], t[2]>>)], (k * t[3]) \div 12) ELSE ROne
                       IN RMul(c, XCoef(S, x \ {t}, k))
\* UnitSystem.__getitem__ : declared (or memoised) entry, else MissingMKSCurrent, else synthesis
SysUnit(S, d) == IF d \in DeclDims(S) THEN [k |-> "unit", x |-> DeclOf(S, d)]
                 ELSE IF d[CUR] # 0 /\ ~HasCur(S) THEN [k |-> "nocur", x |-> {}]
                 ELSE [k |-> "unit", x |-> Factor(S, d)]

EMDims == {EMTab[i].fdim : i \in DOMAIN EMTab}
IsAtomicX(x) == Cardinality(x) = 1 /\ \A t \in x : t[3] = 12
TheAtom(x) == CHOOSE t \in x : TRUE
EMEntries(x) == {i \in DOMAIN EMTab : EMTab[i].from = TheAtom(x)[2] /\ EMTab[i].fdim = XDim(x)}
\* _check_em_conversion(unit, unit_system=S): which branch answers
Route(S, x) ==
  LET d == XDim(x) IN
  IF d \notin EMDims THEN "plain"
  ELSE IF IsAtomicX(x) /\ EMEntries(x) # {}
       THEN (IF d[CUR] # 0 /\ HasCur(S) THEN "em_same" ELSE "em_counter")
       ELSE IF \E t \in x : Atoms[t[2]].dim[CUR] # 0 /\ Atoms[t[2]].dim \notin DeclDims(S) /\ ~HasCur(S)
            THEN "em_raise" ELSE "plain"
EMCounter(x) == LET t == TheAtom(x) i == CHOOSE i \in EMEntries(x) : TRUE IN {<<PCanon(t[1]), EMTab[i].to, 12>>}
\* Unit.get_base_equivalent(S) / the unit of in_base(S): raise or a unit expression
Target(S, x) ==
  LET d == XDim(x)
      r == Route(S, x)
      s == SysUnit(S, d) IN
  IF r = "em_raise" THEN [k |-> "raise", x |-> {}]
  ELSE IF s.k = "unit" /\ s.x = XCanon(x) THEN [k |-> "ok", x |-> XCanon(x)]
  ELSE IF r = "em_counter"
       THEN (IF TheAtom(x)[1] # 0 /\ ~Atoms[TheAtom(EMCounter(x))[2]].pfx THEN [k |-> "raise", x |-> {}]
             ELSE [k |-> "ok", x |-> EMCounter(x)])
  ELSE IF s.k = "nocur" THEN [k |-> "raise", x |-> {}]
  ELSE [k |-> "ok", x |-> s.x]
\* the same entry points under one possible repair of the EM route (an EM atom of the other convention is first
\* replaced by its counterpart and then expressed in S; an atom of the system's own convention takes the plain
\* route).  Accepted by trace validation as an alternative T so that such a repair is not reported as drift.
\* Not proposed as a patch: V / ohm expressed in cgs base units can no longer be converted back with .to().
TargetFixed(S, x) ==
  LET d == XDim(x)
      r == Route(S, x)
      s == SysUnit(S, d) IN
  IF r = "em_raise" THEN [k |-> "raise", x |-> {}]
  ELSE IF s.k = "unit" /\ s.x = XCanon(x) THEN [k |-> "ok", x |-> XCanon(x)]
  ELSE IF r = "em_counter" /\ ((d[CUR] # 0) # HasCur(S))
       THEN LET i == CHOOSE i \in EMEntries(x) : TRUE
                c == SysUnit(S, EMTab[i].tdim) IN
            IF c.k = "nocur" THEN [k |-> "raise", x |-> {}] ELSE [k |-> "ok", x |-> c.x]
  ELSE IF s.k = "nocur" THEN [k |-> "raise", x |-> {}]
  ELSE [k |-> "ok", x |-> s.x]

\* UnitSystem.__init__ validation: the dimension of every base unit is the slot's dimension
SlotOk(i, pa) == IF pa = NoUnit THEN i = CUR \/ i = 7
                 ELSE /\ pa[2] \in 1..NAtoms /\ Atoms[pa[2]].dim = DBase(i) /\ (pa[1] = 0 \/ Atoms[pa[2]].pfx)
Consistent(base) == \A i \in 1..NDim : SlotOk(i, base[i])

(* ------------------------------------------------------------------------ *)
(* Property side (P): only what the statement of C10 says                    *)
(* ------------------------------------------------------------------------ *)
\* the documented CGS/SI electromagnetic counterparts (charge, current, magnetic field, potential, resistance)
EMPairsOneWay == {<< <<0, 0, 12, 0, 0, 12, 0, 0, 0>>,     <<6, 18, -12, 0, 0, 0, 0, 0, 0>> >>,
                  << <<0, 0, 0, 0, 0, 12, 0, 0, 0>>,      <<6, 18, -24, 0, 0, 0, 0, 0, 0>> >>,
                  << <<12, 0, -24, 0, 0, -12, 0, 0, 0>>,  <<6, -6, -12, 0, 0, 0, 0, 0, 0>> >>,
                  << <<12, 24, -36, 0, 0, -12, 0, 0, 0>>, <<6, 6, -12, 0, 0, 0, 0, 0, 0>> >>,
                  << <<12, 24, -36, 0, 0, -24, 0, 0, 0>>, <<0, -12, 12, 0, 0, 0, 0, 0, 0>> >>}
EMPairs == EMPairsOneWay \cup {<<p[2], p[1]>> : p \in EMPairsOneWay}

DeclAtoms(S, d) == IF d \in DeclDims(S) THEN XAtoms(DeclOf(S, d)) ELSE {}
\* "expressed only in S's base units or in units S declares for that dimension"
Inside(S, x, d) == /\ Known(x)
                   /\ XAtoms(x) \subseteq (BaseAtoms(S) \cup DeclAtoms(S, d))
\* ... including the scale: a result written in base units carries exactly the coefficient those base units imply,
\* a result that is the declared unit carries none.  rc = observed coefficient ** CPow as a rational.
ImpliedCoef(S, x, d) == IF d \in DeclDims(S) /\ DeclOf(S, d) = x THEN ROne ELSE XCoef(S, x, CPow(x))
ScaleOk(S, x, d, rc, k) == CPow(x) > 2 \/ (k = CPow(x) /\ Known(x) /\ rc = ImpliedCoef(S, x, d))
\* "the same dimension (or the documented CGS/SI electromagnetic counterpart)"
DimOk(din, dout) == dout = din \/ <<din, dout>> \in EMPairs

\* "returns the same physical quantity expressed in S's units": the unit object that comes back must BE the unit its
\* spelling names in the registry of the quantity that was converted - same scale (lab.scale = observed base_value over the
\* base_value of the freshly resolved spelling, a rational), same zero point (lab.off; uoff = the returned unit has a zero
\* point at all, which only a lone atom with a zero point - degC, degF, any prefix - has), same dimensions (lab.dim) - and
\* the returned numbers read under that spelling must convert back to the original ones (lab.back).  A result that is
\* (uoff is not judged when the spelling carries a numeric factor: unyt reads 1.0*degC as a product, which has no zero point.)
\* merely labelled like S's unit (re-homed without its offset, or with the scale another registry gives the symbol) fails.
HasZeroPoint(x) == Known(x) /\ IsAtomicX(x) /\ Atoms[TheAtom(x)[2]].off
LabelOk(ox, o) == /\ o.lab.scale = ROne /\ o.lab.off /\ o.lab.dim /\ o.lab.back
                  /\ ((Known(ox) /\ ~o.coef) => o.uoff = HasZeroPoint(ox))

\* clauses that fail on one observation o of converting unit x into system S.
\* o = [k: "ok"|"raise"|"noinput"|"nosystem", exc, x, coef, dim, back, si, uoff, lab: [scale, off, dim, back],
\*      gbe: [k, x], twice: [k, x, same]]
\* back / si / twice.same are taken on data of the case's value class (float, narrow float, integer, complex): numbers that
\* lose their imaginary part or their precision on the way do not convert back.
Clauses(S, x, o) ==
  LET ox == ToSet(o.x) IN
  IF o.k = "raise" THEN (IF o.exc = "UnitsNotReducible" THEN {} ELSE {"RaisesOnlyUnitsNotReducible"})
                        \cup (IF o.gbe.k = "ok" THEN {"AgreesWithBaseEquivalent"} ELSE {})
  ELSE IF o.k # "ok" THEN {}
  ELSE (IF Inside(S, ox, o.dim) /\ ScaleOk(S, ox, o.dim, o.coefr, o.cpow) THEN {} ELSE {"Inside"})
       \cup (IF Known(ox) /\ DimOk(XDim(x), o.dim) /\ XDim(ox) = o.dim THEN {} ELSE {"Dimension"})
       \cup (IF o.back THEN {} ELSE {"ConvertsBack"})
       \cup (IF o.si /\ LabelOk(ox, o) THEN {} ELSE {"SameQuantity"})
       \cup (IF o.gbe.k = "ok" /\ ToSet(o.gbe.x) = ox /\ o.gbe.coefr = o.coefr THEN {} ELSE {"AgreesWithBaseEquivalent"})
       \cup (IF o.twice.k = "ok" /\ ToSet(o.twice.x) = ox /\ o.twice.coefr = o.coefr /\ o.twice.same THEN {} ELSE {"Idempotent"})
=============================================================================
