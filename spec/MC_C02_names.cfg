CONSTANTS
  Stride = 1
  Phase = 0
INIT Init
NEXT NextNames
INVARIANT Export
CHECK_DEADLOCK FALSE
