------------------------------- MODULE Shape -------------------------------
(* C16 - scalars are quantities, arrays are arrays, views stay attached.      *)
(*                                                                            *)
(* Objects are [k, sh, u, nm]: class (Q unyt_quantity, A unyt_array, nd bare  *)
(* ndarray, num Python float, exc = the call raised), shape, unit string,     *)
(* "carries the parent's name".  Memory is [buf, fam, offs]: buffer identity, *)
(* family (buffers that MAY alias: introduced where the deciding side is      *)
(* silent) and the buffer offset of every element in C order.                 *)
(*                                                                            *)
(* Part 1  NumPy's shape / element-mapping rules (indexing forms int, slice,  *)
(*         ellipsis, newaxis, boolean mask, fancy; reshape, transpose, ravel, *)
(*         flatten, squeeze, expand_dims, broadcast, repeat; reductions with  *)
(*         axis/keepdims; broadcasting of binary operands).  Shared by both   *)
(*         sides: "slice", "transpose" ... mean what NumPy defines.           *)
(* Part 2  Implementation-shaped transition Res(o, m, op): the class          *)
(*         decisions as coded in unyt (ufunc wrap-up: shape () -> quantity,   *)
(*         else array; __getitem__/squeeze/reshape: 0-d -> quantity, else     *)
(*         ndarray-native                                                     *)
(*         class preservation; handlers choosing by ndim; Unit.__mul__ by     *)
(*         data.shape; unyt_quantity.reshape override; unyt_quantity.__new__  *)
(*         size check), name propagation, and view/copy of every call (TMem). *)
(* Part 3  Property side: C16_Class, C16_Index, PMem (view set / copy set /   *)
(*         silent), C16_Mixed.  Says only what the statement says.            *)
EXTENDS Integers, Sequences, FiniteSets, TLC, Json

(* ======================= Part 1: shapes and element maps =================== *)
RECURSIVE Prod(_)
Prod(s) == IF s = <<>> THEN 1 ELSE Head(s) * Prod(Tail(s))
Size(sh) == Prod(sh)
CStride(sh, k) == Prod(SubSeq(sh, k + 1, Len(sh)))
Iota(n) == [i \in 1..n |-> i - 1]
RECURSIVE SumF(_, _)
SumF(f, n) == IF n = 0 THEN 0 ELSE f[n] + SumF(f, n - 1)
Range(s) == {s[i] : i \in DOMAIN s}
Injective(s) == \A i, j \in DOMAIN s : s[i] = s[j] => i = j
Consecutive(s) == \A i \in 1..(Len(s) - 1) : s[i + 1] = s[i] + 1
\* elements in C order form an arithmetic progression (all axes can be merged: any reshape is a view)
AP(s) == Len(s) <= 2 \/ \A i \in 2..(Len(s) - 1) : s[i + 1] - s[i] = s[2] - s[1]
RECURSIVE Concat(_)
Concat(ss) == IF ss = <<>> THEN <<>> ELSE Head(ss) \o Concat(Tail(ss))

\* named slices (harness/impl_c16.py maps the names to Python slices)
SliceIdx(nm, n) ==
  CASE nm = "all" -> Iota(n)
    [] nm = "from1" -> SelectSeq(Iota(n), LAMBDA i : i >= 1)
    [] nm = "to1" -> SelectSeq(Iota(n), LAMBDA i : i < 1)
    [] nm = "step2" -> SelectSeq(Iota(n), LAMBDA i : i % 2 = 0)
    [] nm = "rev" -> [j \in 1..n |-> n - j]
    [] nm = "empty" -> <<>>
    [] nm = "last" -> SelectSeq(Iota(n), LAMBDA i : i = n - 1)
    [] nm = "mid" -> SelectSeq(Iota(n), LAMBDA i : i = 1)
\* named integer-array indices: [0], [0,0], [-1,0], [], [-1], [[0],[-1]]
FancyIx(nm, n) ==
  CASE nm = "f0" -> <<0>> [] nm = "f00" -> <<0, 0>> [] nm = "fl0" -> <<n - 1, 0>>
    [] nm = "fe" -> <<>> [] nm = "fneg" -> <<n - 1>> [] nm = "f2d" -> <<0, n - 1>>
FancyDims(nm) ==
  CASE nm = "f0" -> <<1>> [] nm = "f00" -> <<2>> [] nm = "fl0" -> <<2>>
    [] nm = "fe" -> <<0>> [] nm = "fneg" -> <<1>> [] nm = "f2d" -> <<2, 1>>
\* named boolean masks over n positions
MaskIx(nm, n) ==
  CASE nm = "mnone" -> <<>> [] nm = "mall" -> Iota(n)
    [] nm = "mfirst" -> SelectSeq(Iota(n), LAMBDA i : i < 1)
    [] nm = "malt" -> SelectSeq(Iota(n), LAMBDA i : i % 2 = 0)

\* index items: [t, i, s];  t in int | sl | fancy | mask1 | ell | new | maskfull | bool
It(t, i, s) == [t |-> t, i |-> i, s |-> s]
Consumes(it) == it.t \in {"int", "sl", "fancy", "mask1"}
NCons(items) == Cardinality({j \in DOMAIN items : Consumes(items[j])})
HasEll(items) == \E j \in DOMAIN items : items[j].t = "ell"
Advanced(items) == \E j \in DOMAIN items : items[j].t \in {"fancy", "mask1", "maskfull", "bool"}
Fill(n) == [j \in 1..n |-> It("sl", 0, "all")]
Expand(items, r) ==
  IF HasEll(items)
  THEN LET e == CHOOSE j \in DOMAIN items : items[j].t = "ell" IN
       SubSeq(items, 1, e - 1) \o Fill(r - NCons(items)) \o SubSeq(items, e + 1, Len(items))
  ELSE items \o Fill(r - NCons(items))
\* result axes of an expanded index: [ax = source axis or 0, ix = selected source indices, dims = extents contributed]
RECURSIVE BuildR(_, _, _)
BuildR(X, sh, a) ==
  IF X = <<>> THEN <<>> ELSE
  LET it == Head(X)
      a2 == IF Consumes(it) THEN a + 1 ELSE a
      n == IF Consumes(it) THEN sh[a2] ELSE 0
      me == CASE it.t = "int" -> <<>>
              [] it.t = "sl" -> <<[ax |-> a2, ix |-> SliceIdx(it.s, n), dims |-> <<Len(SliceIdx(it.s, n))>>]>>
              [] it.t = "fancy" -> <<[ax |-> a2, ix |-> FancyIx(it.s, n), dims |-> FancyDims(it.s)]>>
              [] it.t = "mask1" -> <<[ax |-> a2, ix |-> MaskIx(it.s, n), dims |-> <<Len(MaskIx(it.s, n))>>]>>
              [] it.t = "new" -> <<[ax |-> 0, ix |-> <<0>>, dims |-> <<1>>]>>
              [] it.t = "bool" -> <<[ax |-> 0, ix |-> IF it.i = 1 THEN <<0>> ELSE <<>>, dims |-> <<IF it.i = 1 THEN 1 ELSE 0>>]>>
  IN me \o BuildR(Tail(X), sh, a2)
RECURSIVE BuildF(_, _, _)
BuildF(X, sh, a) ==
  IF X = <<>> THEN <<>> ELSE
  LET it == Head(X)
      a2 == IF Consumes(it) THEN a + 1 ELSE a
  IN (IF it.t = "int" THEN << <<a2, IF it.i < 0 THEN it.i + sh[a2] ELSE it.i>> >> ELSE <<>>) \o BuildF(Tail(X), sh, a2)
\* logical (C-order) position in the source of every element of the result
GatherL(sh, rax, fxs) ==
  LET msh == [j \in DOMAIN rax |-> Len(rax[j].ix)]
      n == Prod(msh)
      r == Len(sh)
      \* per source axis: the fixed index (or -1) and the result axis that sweeps it (or 0); strides of both shapes
      fixv == [k \in 1..r |-> IF \E m \in DOMAIN fxs : fxs[m][1] = k THEN fxs[CHOOSE m \in DOMAIN fxs : fxs[m][1] = k][2] ELSE 0 - 1]
      raxof == [k \in 1..r |-> IF fixv[k] >= 0 THEN 0 ELSE CHOOSE j \in DOMAIN rax : rax[j].ax = k]
      mstr == [j \in DOMAIN rax |-> CStride(msh, j)]
      sstr == [k \in 1..r |-> CStride(sh, k)]
      Term(p, k) == (IF fixv[k] >= 0 THEN fixv[k]
                     ELSE rax[raxof[k]].ix[((p \div mstr[raxof[k]]) % msh[raxof[k]]) + 1]) * sstr[k]
  IN [p \in 1..n |-> SumF([k \in 1..r |-> Term(p - 1, k)], r)]
IdxShape(sh, items) ==
  IF Len(items) = 1 /\ items[1].t = "maskfull" THEN <<Len(MaskIx(items[1].s, Size(sh)))>>
  ELSE LET rax == BuildR(Expand(items, Len(sh)), sh, 0) IN Concat([j \in DOMAIN rax |-> rax[j].dims])
IdxLPos(sh, items) ==
  IF Len(items) = 1 /\ items[1].t = "maskfull" THEN MaskIx(items[1].s, Size(sh))
  ELSE LET X == Expand(items, Len(sh)) IN GatherL(sh, BuildR(X, sh, 0), BuildF(X, sh, 0))
\* NumPy hands back a scalar (not a 0-d view): every axis indexed by an integer, no ellipsis
ScalarCase(sh, items) == Len(items) = Len(sh) /\ \A j \in DOMAIN items : items[j].t = "int"
IdxValid(sh, items) ==
  /\ NCons(items) <= Len(sh)
  /\ Cardinality({j \in DOMAIN items : items[j].t = "ell"}) <= 1
  /\ Cardinality({j \in DOMAIN items : items[j].t \in {"fancy", "mask1", "maskfull", "bool"}}) <= 1
  /\ (Advanced(items) => \A j \in DOMAIN items : items[j].t # "int")
  /\ (\E j \in DOMAIN items : items[j].t \in {"maskfull", "bool"}) => Len(items) = 1
  /\ LET X == Expand(items, Len(sh)) IN
     \A j \in DOMAIN X : Consumes(X[j]) =>
        LET n == sh[Cardinality({m \in 1..j : Consumes(X[m])})] IN
        /\ (X[j].t = "int" => (X[j].i < n /\ X[j].i >= -n))
        /\ (X[j].t = "fancy" => (n >= 1 \/ X[j].s = "fe"))
        /\ (X[j].t = "mask1" => X[j].i = n)

\* transposition: result axis j is source axis perm[j]
PermShape(sh, perm) == [j \in DOMAIN perm |-> sh[perm[j]]]
PermLPos(sh, perm) == GatherL(sh, [j \in DOMAIN perm |-> [ax |-> perm[j], ix |-> Iota(sh[perm[j]]), dims |-> <<sh[perm[j]]>>]], <<>>)
Reverse(n) == [j \in 1..n |-> n + 1 - j]
Swap(n, a, b) == [j \in 1..n |-> IF j = a THEN b ELSE IF j = b THEN a ELSE j]
\* broadcast to (2,) + sh
BcastLPos(sh) == GatherL(sh, <<[ax |-> 0, ix |-> <<0, 0>>, dims |-> <<2>>]>> \o [k \in DOMAIN sh |-> [ax |-> k, ix |-> Iota(sh[k]), dims |-> <<sh[k]>>]], <<>>)
SqueezeShape(sh) == SelectSeq(sh, LAMBDA e : e # 1)
DropAxis(sh, k) == SubSeq(sh, 1, k - 1) \o SubSeq(sh, k + 1, Len(sh))
InsertAxis(sh, k) == SubSeq(sh, 1, k - 1) \o <<1>> \o SubSeq(sh, k, Len(sh))
\* reductions: ax = 0 means axis=None, otherwise the 1-based axis
RedShape(sh, ax, kd) ==
  IF ax = 0 THEN (IF kd THEN [j \in DOMAIN sh |-> 1] ELSE <<>>)
  ELSE IF kd THEN [sh EXCEPT ![ax] = 1] ELSE DropAxis(sh, ax)
\* number of elements each result element is reduced over
RedCount(sh, ax) == IF ax = 0 THEN Size(sh) ELSE sh[ax]
\* broadcasting of the binary partner kinds
PartnerShape(sh, pk) ==
  CASE pk \in {"self", "q", "num", "rnum", "nd", "rnd", "rq"} -> sh
    [] pk = "a1" -> IF sh = <<>> THEN <<1>> ELSE sh
    [] pk = "nd2" -> <<2>> \o sh

(* ---- memory layout of a source ndarray: buffer offset of every element in C order ---- *)
\* C  contiguous;  F  Fortran order;  col  base[..., 1] of a base with a trailing axis of 2 (stride 2, offset 1);
\* rev  base[::-1] (first axis reversed)
FStride(sh, k) == Prod(SubSeq(sh, 1, k - 1))
LayOffs(sh, lay) ==
  LET n == Size(sh) IN
  CASE lay = "C" -> Iota(n)
    [] lay = "F" -> [p \in 1..n |-> SumF([k \in DOMAIN sh |-> (((p - 1) \div CStride(sh, k)) % sh[k]) * FStride(sh, k)], Len(sh))]
    [] lay = "col" -> [p \in 1..n |-> 2 * (p - 1) + 1]
    [] lay = "rev" -> IF sh = <<>> THEN Iota(n)
                      ELSE [p \in 1..n |-> (p - 1) + (sh[1] - 1 - 2 * ((p - 1) \div CStride(sh, 1))) * CStride(sh, 1)]
\* the layout is a different case from C only when the elements are not consecutive in memory
LayDistinct(sh, lay) == lay = "C" \/ (Size(sh) >= 2 /\ ~Consecutive(LayOffs(sh, lay)))

(* ---- affine unit table: 180 * (value in K) = UA*x + UB for temperatures, (value in cm) = UA*x for lengths ---- *)
UA(u) == CASE u = "km" -> 100000 [] u = "m" -> 100 [] u = "cm" -> 1
           [] u = "K" -> 180 [] u = "degC" -> 180 [] u = "degF" -> 100 [] u = "R" -> 100
UB(u) == CASE u = "degC" -> 49167 [] u = "degF" -> 45967 [] OTHER -> 0
LenFam == <<"km", "m", "cm">>
TempFam == <<"K", "degC", "degF", "R">>
Fam(u) == IF u \in {"km", "m", "cm"} THEN LenFam ELSE TempFam
Abs(x) == IF x < 0 THEN 0 - x ELSE x
RECURSIVE GCD(_, _)
GCD(a, b) == IF b = 0 THEN a ELSE GCD(b, a % b)
\* x in unit u, expressed in unit v, as a reduced rational <<num, den>> (den > 0): the exact affine conversion
ConvRat(x, u, v) ==
  LET num == UA(u) * x + UB(u) - UB(v)
      den == UA(v)
      g == GCD(Abs(num), den) IN
  IF num = 0 THEN <<0, 1>> ELSE <<num \div g, den \div g>>

(* ======================= objects, memory ================================== *)
Obj(k, sh, u, nm) == [k |-> k, sh |-> sh, u |-> u, nm |-> nm]
ExcObj == Obj("exc", <<>>, "", FALSE)
IsUnyt(o) == o.k \in {"Q", "A"}
IsArr(o) == o.k \in {"Q", "A", "nd"}
Mem(buf, fam, offs) == [buf |-> buf, fam |-> fam, offs |-> offs]
\* memory of a result: cls in view | copy | silent; lpos = logical source position of every result element
\* (when lpos does not describe the result - n # Len(lpos) - the relation is unknown: fresh buffer, same family)
NewMem(m, cls, lpos, n, nb) ==
  IF cls = "view" /\ Len(lpos) = n THEN Mem(m.buf, m.fam, [j \in 1..n |-> m.offs[lpos[j] + 1]])
  ELSE IF cls = "copy" THEN Mem(nb, nb, Iota(n))
  ELSE Mem(nb, m.fam, Iota(n))
\* what object o holds after a write of W(p) through object w at position p (cur = contents before);
\* defined (known) when the buffers are equal or the families differ
WriteKnown(mo, mw) == mo.buf = mw.buf \/ mo.fam # mw.fam
WriteVal(w, p) == 0 - (100 * w + p)
AfterWrite(mo, mw, w, curo) ==
  IF mo.buf # mw.buf THEN curo
  ELSE [j \in DOMAIN curo |->
          IF \E p \in DOMAIN mw.offs : mw.offs[p] = mo.offs[j]
          THEN WriteVal(w, CHOOSE p \in DOMAIN mw.offs : mw.offs[p] = mo.offs[j]) ELSE curo[j]]

(* ======================= operations ======================================= *)
\* op = [op, src, items, t, s, a, b]   (uniform record; unused fields are <<>> / "" / 0)
Op(op, items, t, s, a, b) == [op |-> op, src |-> 0, items |-> items, t |-> t, s |-> s, a |-> a, b |-> b]
Op0(op) == Op(op, <<>>, <<>>, "", 0, 0)
\* mixed-unit lists: op.t = the unit pattern (element / row j is written in unit t[1 + j mod Len(t)]), op.s = the call
\* form: unyt_array(list) | unyt_array(tuple) | arr[:] = list | np.add(arr, list), arr being zeros in the op.a-th unit of
\* the family.  The list is coerced to its first unit; what comes out is labelled with the first unit (constructors) or
\* with arr's unit (assignment, ufunc operand)
MixUnit(op, row) == op.t[1 + (row % Len(op.t))]
MixTarget(op) == IF op.s \in {"list", "tuple"} THEN op.t[1] ELSE Fam(op.t[1])[op.a]
Units == {"km", "m", "cm"}
Factor(u1, u2) == CASE u1 = u2 -> 1 [] u1 = "km" /\ u2 = "m" -> 1000 [] u1 = "km" /\ u2 = "cm" -> 100000
                    [] u1 = "m" /\ u2 = "cm" -> 100 [] OTHER -> 0
StripOps == {"d", "ndview", "ndarray_view", "asarray"}
CopyStripOps == {"v", "value", "to_ndarray"}
ConvertOps == {"in_units", "to"}
\* call forms of copy(): op.s = the order argument ("" = not given), op.a = 1 when it is passed positionally;
\* the copy protocols next to the method: copy.copy(x), copy.deepcopy(x), np.copy(x, subok=True)
CopyOrders == {"", "C", "F", "A", "K"}
CopyProtoOps == {"py_copy", "py_deepcopy", "np_copy"}
BaseOps == {"in_base", "in_mks", "in_cgs"}
BaseTarget(op) == IF op = "in_cgs" THEN "cm" ELSE "m"
TransOps == {"T", "transpose", "np_transpose", "swapaxes"}
ReshapeOps == {"reshape", "np_reshape"}
SqueezeOps == {"squeeze", "np_squeeze", "squeeze_ax"}
RedFns == {"sum", "max", "mean", "std", "np_ptp", "np_median", "np_sum", "np_max", "min"}
EmptyRaises == {"max", "np_ptp", "np_max", "min"}
UnaryFns == {"neg", "abs", "sqrt", "pos"}
BinFns == {"add", "sub", "mul", "div"}
ArrFns == {"take_i", "take_l", "m_take_i", "dot", "np_dot", "einsum", "concat", "stack", "norm", "np_sort", "np_where", "np_clip"}
ReshapeTargetOk(o, t) == Size(t) = Size(o.sh)
TransPerm(o, op) == CASE op.op \in {"T", "transpose", "np_transpose"} -> Reverse(Len(o.sh))
                      [] op.op = "swapaxes" -> Swap(Len(o.sh), op.a, op.b)

\* is the call meaningful for this object (guards of the generator; the replay never sees anything else)
Enabled(o, m, op) ==
  CASE op.op \in {"ctor_a", "ctor_am", "ctor_q", "mul_unit", "rmul_unit", "ctor_list"} -> o.k = "nd" /\ o.u = ""
    [] op.op = "mixlist" -> o.k = "nd" /\ Len(o.sh) \in {1, 2} /\ o.sh[1] >= 1 /\ Size(o.sh) >= 1
                            /\ op.s \in {"list", "tuple", "setitem", "ufunc"} /\ (op.s = "ufunc" => op.t[1] \in {"km", "m", "cm"})
    [] op.op = "idx" -> IsUnyt(o) /\ IdxValid(o.sh, op.items)
    [] op.op = "iter" -> IsUnyt(o) /\ (IF Len(o.sh) = 0 THEN TRUE ELSE op.a < o.sh[1])
    [] op.op \in ReshapeOps -> IsUnyt(o) /\ ReshapeTargetOk(o, op.t) /\ Injective(m.offs) /\ (AP(m.offs) \/ Len(op.t) = 1)
    [] op.op \in {"T", "transpose", "np_transpose"} -> IsUnyt(o)
    [] op.op = "swapaxes" -> IsUnyt(o) /\ op.a < op.b /\ op.b <= Len(o.sh)
    [] op.op \in {"ravel", "flatten", "squeeze", "np_squeeze", "atleast_1d", "view", "broadcast_to", "repeat2"} -> IsUnyt(o)
    [] op.op = "squeeze_ax" -> IsUnyt(o) /\ op.a <= Len(o.sh) /\ op.a >= 1 /\ o.sh[op.a] = 1
    [] op.op = "expand_dims" -> IsUnyt(o) /\ op.a >= 1 /\ op.a <= Len(o.sh) + 1
    [] op.op = "copy" -> IsUnyt(o) /\ op.s \in CopyOrders /\ op.a \in {0, 1} /\ (op.a = 1 => op.s # "")
    [] op.op \in StripOps \cup CopyStripOps \cup CopyProtoOps \cup {"to_value", "ctor_a_from"} -> IsUnyt(o)
    [] op.op \in ConvertOps \cup {"to_value_u"} -> IsUnyt(o) /\ o.u \in Units /\ op.s \in Units /\ Factor(o.u, op.s) # 0
    [] op.op \in BaseOps -> IsUnyt(o) /\ o.u \in Units /\ Factor(o.u, BaseTarget(op.op)) # 0
    [] op.op = "red" -> IsUnyt(o) /\ op.s \in RedFns /\ op.a <= Len(o.sh)
    [] op.op = "cumsum" -> IsUnyt(o) /\ op.a <= Len(o.sh)
    [] op.op = "unary" -> IsUnyt(o) /\ op.s \in UnaryFns
    [] op.op = "bin" -> IsUnyt(o) /\ op.s \in BinFns /\ (op.t[1] \in {"num", "rnum", "nd", "rnd", "nd2"} => op.s \in {"mul", "div"})
                         /\ (op.t[1] \in {"rnum", "rnd", "rq"} => op.s \in {"mul", "add"})
    [] op.op = "arrfn" -> IsUnyt(o) /\ op.s \in ArrFns
                          /\ (op.s \in {"take_i", "take_l", "m_take_i"} => Size(o.sh) >= 1)
                          /\ (op.s \in {"dot", "np_dot", "einsum"} => Len(o.sh) = 1)
                          /\ (op.s \in {"concat", "np_sort"} => Len(o.sh) >= 1)
                          /\ (op.s = "norm" => Len(o.sh) \in {1, 2} /\ Size(o.sh) >= 1)
    [] OTHER -> FALSE

(* ======================= Part 2: the implementation-shaped transition ===== *)
\* class chosen by the wrap-up of __array_ufunc__ (array.py:2020-2033): shape () -> quantity; size 1 -> array;
\* otherwise ret_class, cast to array if it is a quantity class
UfuncK(sh) == IF sh = <<>> THEN "Q" ELSE "A"
\* ndarray-native results keep the subclass (view casting); __getitem__ re-wraps 0-d results as quantities
NativeK(o) == o.k
\* handlers choosing by ndim (take, einsum ...): ndim 0 -> quantity else array; ndarray * Unit: data.shape == ()
NdimK(sh) == IF sh = <<>> THEN "Q" ELSE "A"
\* unyt_quantity.__new__ refuses size > 1 (also under bypass_validation)
QRefuses(k, sh) == k = "Q" /\ Size(sh) > 1
\* unyt_array.squeeze / reshape (_wrap_0d): a 0-d result is handed out as a quantity (a view, the parent's name and
\* unit), anything else keeps the ndarray-native class
Wrap0d(o, rsh) == IF rsh = <<>> THEN "Q" ELSE NativeK(o)

\* shape NumPy reads back from nested lists: nothing can be nested below an empty list
RECURSIVE ListShape(_)
ListShape(sh) == IF sh = <<>> THEN <<>> ELSE IF Head(sh) = 0 THEN <<0>> ELSE <<Head(sh)>> \o ListShape(Tail(sh))
R(k, sh, u, nm, cls, lpos, scale) == [exc |-> FALSE, o |-> Obj(k, sh, u, nm), cls |-> cls, lpos |-> lpos, scale |-> scale]
RExc == [exc |-> TRUE, o |-> ExcObj, cls |-> "copy", lpos |-> <<>>, scale |-> 0]
Same(o) == Iota(Size(o.sh))

\* Res(o, m, op): result object, memory class (view | copy), element map, value scale
Res(o, m, op) ==
  LET n == Size(o.sh) IN
  CASE op.op = "ctor_a" -> R("A", o.sh, "km", TRUE, "view", Same(o), 1)
    [] op.op = "ctor_am" -> R("A", o.sh, "m", TRUE, "view", Same(o), 1)
    [] op.op = "ctor_q" -> IF n > 1 THEN RExc ELSE R("Q", o.sh, "km", TRUE, "view", Same(o), 1)
    [] op.op \in {"mul_unit", "rmul_unit"} -> R(NdimK(o.sh), o.sh, "km", FALSE, "copy", Same(o), 1)
    [] op.op = "ctor_list" -> R("A", ListShape(o.sh), "km", TRUE, "copy", Same(o), 1)
    [] op.op = "mixlist" -> R("A", o.sh, MixTarget(op), FALSE, "copy", Same(o), 0)   \* values: C16_Mixed
    [] op.op = "idx" ->
         LET rsh == IdxShape(o.sh, op.items) IN
         R(IF rsh = <<>> THEN "Q" ELSE NativeK(o), rsh, o.u, o.nm,
           IF Advanced(op.items) \/ ScalarCase(o.sh, op.items) THEN "copy" ELSE "view", IdxLPos(o.sh, op.items), 1)
    [] op.op = "iter" ->
         IF Len(o.sh) = 0 THEN RExc
         ELSE LET it == <<It("int", op.a, "")>> rsh == IdxShape(o.sh, it) IN
              R(IF rsh = <<>> THEN "Q" ELSE NativeK(o), rsh, o.u, o.nm, IF Len(o.sh) = 1 THEN "copy" ELSE "view", IdxLPos(o.sh, it), 1)
    [] op.op \in ReshapeOps ->
         \* unyt_quantity.reshape: () -> ndarray.reshape; anything else -> unyt_array(self).reshape (name not passed on)
         LET cls == IF AP(m.offs) THEN "view" ELSE "copy" IN
         IF o.k = "Q" /\ op.t # <<>> THEN R("A", op.t, o.u, FALSE, cls, Same(o), 1)
         ELSE R(Wrap0d(o, op.t), op.t, o.u, o.nm, cls, Same(o), 1)
    [] op.op \in TransOps -> R(NativeK(o), PermShape(o.sh, TransPerm(o, op)), o.u, o.nm, "view", PermLPos(o.sh, TransPerm(o, op)), 1)
    [] op.op = "ravel" -> R(NativeK(o), <<n>>, o.u, o.nm, IF Consecutive(m.offs) THEN "view" ELSE "copy", Same(o), 1)
    [] op.op = "flatten" -> R(NativeK(o), <<n>>, o.u, o.nm, "copy", Same(o), 1)
    [] op.op \in {"squeeze", "np_squeeze"} -> R(Wrap0d(o, SqueezeShape(o.sh)), SqueezeShape(o.sh), o.u, o.nm, "view", Same(o), 1)
    [] op.op = "squeeze_ax" -> R(Wrap0d(o, DropAxis(o.sh, op.a)), DropAxis(o.sh, op.a), o.u, o.nm, "view", Same(o), 1)
    [] op.op = "expand_dims" ->   \* np.expand_dims -> a.reshape(...)
         IF o.k = "Q" THEN R("A", InsertAxis(o.sh, op.a), o.u, FALSE, "view", Same(o), 1)
         ELSE R("A", InsertAxis(o.sh, op.a), o.u, o.nm, "view", Same(o), 1)
    [] op.op = "atleast_1d" ->    \* ndim 0 -> reshape(1); otherwise the object itself
         IF o.sh = <<>> THEN R("A", <<1>>, o.u, IF o.k = "Q" THEN FALSE ELSE o.nm, "view", Same(o), 1)
         ELSE R(NativeK(o), o.sh, o.u, o.nm, "view", Same(o), 1)
    [] op.op = "view" -> R(NativeK(o), o.sh, o.u, o.nm, "view", Same(o), 1)
    [] op.op = "broadcast_to" -> R(NativeK(o), <<2>> \o o.sh, o.u, o.nm, "view", BcastLPos(o.sh), 1)
    [] op.op = "repeat2" -> R(NativeK(o), <<2 * n>>, o.u, o.nm, "copy", [p \in 1..(2 * n) |-> (p - 1) \div 2], 1)
    [] op.op \in StripOps -> R("nd", o.sh, "", FALSE, "view", Same(o), 1)
    [] op.op \in CopyStripOps -> R("nd", o.sh, "", FALSE, "copy", Same(o), 1)
    [] op.op = "to_value" ->      \* quantity: float(v) (TypeError unless 0-d)
         IF o.k = "Q" THEN (IF o.sh = <<>> THEN R("num", <<>>, "", FALSE, "copy", Same(o), 1) ELSE RExc)
         ELSE R("nd", o.sh, "", FALSE, "copy", Same(o), 1)
    [] op.op = "to_value_u" ->
         IF QRefuses(o.k, o.sh) THEN RExc
         ELSE IF o.k = "Q" THEN (IF o.sh = <<>> THEN R("num", <<>>, "", FALSE, "copy", Same(o), Factor(o.u, op.s)) ELSE RExc)
         ELSE R("nd", o.sh, "", FALSE, "copy", Same(o), Factor(o.u, op.s))
    \* copy(order): type(self)(np.copy(np.asarray(self)), units, name) - the order argument is not looked at (the copy
    \* keeps the layout of the data), fresh data in every call form; __deepcopy__ re-wraps ndarray's deep copy the same way
    [] op.op \in {"copy", "py_deepcopy"} -> IF QRefuses(o.k, o.sh) THEN RExc ELSE R(NativeK(o), o.sh, o.u, o.nm, "copy", Same(o), 1)
    \* copy.copy / np.copy(subok=True): ndarray-native (class, unit and name through __array_finalize__)
    [] op.op \in {"py_copy", "np_copy"} -> R(NativeK(o), o.sh, o.u, o.nm, "copy", Same(o), 1)
    [] op.op = "ctor_a_from" -> R("A", o.sh, o.u, FALSE, "view", Same(o), 1)
    [] op.op \in ConvertOps -> IF QRefuses(o.k, o.sh) THEN RExc ELSE R(NativeK(o), o.sh, op.s, o.nm, "copy", Same(o), Factor(o.u, op.s))
    [] op.op \in BaseOps ->       \* outside the electromagnetic branch: self.in_units(base equivalent) - class and name as in_units
         IF QRefuses(o.k, o.sh) THEN RExc
         ELSE R(NativeK(o), o.sh, BaseTarget(op.op), o.nm, "copy", Same(o), Factor(o.u, BaseTarget(op.op)))
    [] op.op = "red" ->
         LET rsh == RedShape(o.sh, op.a, op.b = 1) IN
         IF op.s \in EmptyRaises /\ RedCount(o.sh, op.a) = 0 THEN RExc   \* no identity: ValueError
         \* np.median is not wrapped: NumPy computes the un-kept result (0-d -> quantity) and re-inserts the axes by indexing
         ELSE R(IF op.s = "np_median" THEN UfuncK(RedShape(o.sh, op.a, FALSE)) ELSE UfuncK(rsh), rsh, o.u, FALSE, "copy", <<>>, 0)
    [] op.op = "cumsum" -> R(UfuncK(IF op.a = 0 THEN <<n>> ELSE o.sh), IF op.a = 0 THEN <<n>> ELSE o.sh, o.u, FALSE, "copy", <<>>, 0)
    [] op.op = "unary" -> R(UfuncK(o.sh), o.sh, IF op.s = "sqrt" THEN "sqrt(" \o o.u \o ")" ELSE o.u, FALSE, "copy", <<>>, 0)
    [] op.op = "bin" ->
         LET rsh == PartnerShape(o.sh, op.t[1])
             ru == CASE op.s \in {"add", "sub"} -> o.u
                     [] op.s = "mul" -> IF op.t[1] \in {"self", "q", "rq", "a1"} THEN o.u \o "**2" ELSE o.u
                     [] op.s = "div" -> IF op.t[1] \in {"self", "q", "rq", "a1"} THEN "dimensionless" ELSE o.u
         IN R(UfuncK(rsh), rsh, ru, FALSE, "copy", <<>>, 0)
    [] op.op = "arrfn" ->
         CASE op.s \in {"take_i", "m_take_i"} -> R(NdimK(<<>>), <<>>, o.u, FALSE, "copy", <<>>, 0)
           [] op.s = "take_l" -> R(NdimK(<<2>>), <<2>>, o.u, FALSE, "copy", <<>>, 0)
           [] op.s \in {"dot", "np_dot"} -> R(NdimK(<<>>), <<>>, o.u \o "**2", FALSE, "copy", <<>>, 0)
           [] op.s = "einsum" -> R(NdimK(<<>>), <<>>, o.u \o "**2", FALSE, "copy", <<>>, 0)   \* product of the operands' units (fix 7030a26)
           [] op.s = "concat" -> R("A", <<2 * o.sh[1]>> \o Tail(o.sh), o.u, FALSE, "copy", <<>>, 0)
           [] op.s = "stack" -> R("A", <<2>> \o o.sh, o.u, FALSE, "copy", <<>>, 0)
           [] op.s = "norm" -> R("Q", <<>>, o.u, FALSE, "copy", <<>>, 0)
           [] op.s = "np_sort" -> R(NativeK(o), o.sh, o.u, o.nm, "copy", <<>>, 0)
           [] op.s = "np_where" -> R(UfuncK(o.sh), o.sh, o.u, FALSE, "copy", <<>>, 0)
           [] op.s = "np_clip" -> R(UfuncK(o.sh), o.sh, o.u, FALSE, "copy", <<>>, 0)

(* ======================= Part 3: the property side ======================== *)
\* "Any unyt result of shape () is a unyt_quantity and any result with more than one element is a unyt_array,
\*  never a multi-element quantity."  Silent on size-1 non-scalars and on empty results.
ClassOk(r) == IsUnyt(r) => ((r.sh = <<>> => r.k = "Q") /\ (Size(r.sh) > 1 => r.k = "A"))
\* a call is judged when its input obeys the rule itself (a 0-d array / multi-element quantity handed in is passed
\* through by class-preserving calls - the defect is the call that produced it), and when the caller did not name the
\* class himself (explicit constructors)
ExplicitClass == {"ctor_a", "ctor_am", "ctor_q", "ctor_list", "ctor_a_from"}
C16_Class(src, op, r) == (ClassOk(src) /\ op.op \notin ExplicitClass) => ClassOk(r)
\* "indexing or iterating an array yields quantities/arrays with the parent's units and name"
C16_Index(src, op, r) == (op.op \in {"idx", "iter"} /\ r.k # "exc") => (IsUnyt(r) /\ r.u = src.u /\ r.nm = src.nm)
\* view set / copy set / silent.  cc = the parent is C-contiguous (NumPy itself copies when it cannot reshape in place)
PMem(src, cc, op, rsh) ==
  CASE op.op = "idx" -> IF ~Advanced(op.items) /\ Len(rsh) >= 1 THEN "view" ELSE "silent"
    [] op.op \in ReshapeOps -> IF cc THEN "view" ELSE "silent"
    [] op.op \in TransOps -> "view"
    [] op.op \in {"d", "ndview", "ndarray_view"} -> "view"
    [] op.op \in {"ctor_a", "ctor_am"} -> "view"
    [] op.op \in CopyStripOps \cup {"to_value", "to_value_u", "copy"} \cup ConvertOps \cup BaseOps -> "copy"
    [] op.op \in {"mul_unit", "rmul_unit"} -> "copy"
    [] OTHER -> "silent"
\* element map the property side attaches to a view-set call (NumPy's definition of the call)
PLPos(src, op) ==
  CASE op.op = "idx" -> IdxLPos(src.sh, op.items)
    [] op.op \in TransOps -> PermLPos(src.sh, TransPerm(src, op))
    [] OTHER -> Same(src)
\* "a list of quantities in mixed commensurable units is coerced to the first element's unit with values converted":
\* every element comes out as its exact (affine, for temperatures) conversion into the unit of the result; obs values are
\* reduced rationals <<num, den>>
C16_Mixed(src, srcvals, op, r, rvals) ==
  /\ r.k = "A" /\ r.u = MixTarget(op) /\ r.sh = src.sh /\ Len(rvals) = Len(srcvals)
  /\ \A j \in DOMAIN srcvals :
       LET row == IF Len(src.sh) = 1 THEN j - 1 ELSE (j - 1) \div src.sh[2] IN
       rvals[j] = ConvRat(srcvals[j], MixUnit(op, row), MixTarget(op))
=============================================================================
