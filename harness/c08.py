"""C08 - offset temperature scales follow point/difference semantics or refuse.

Spec: spec/Temperature.tla (+ MC_C08, Trace_C08).
  1. TLC enumerates the bounded single-step instance MC_C08 (conversions, the
     binary pair table in four call forms, diff/ediff1d/ptp/gradient, the
     multiplicative/power family, repeated products/quotients over 1-4 elements
     and grids with every axis argument, chains of 2-3 conversion routes / point +
     difference arithmetic applied to the SAME source object), computes for every case the
     implementation-shaped outcome, the property verdict on that outcome
     (model-level counterexamples) and the candidate values, and exports them.
  2. every case is replayed on the real library (harness/impl_c08.py).
  3. TLC (Trace_C08) evaluates the C08 predicates on the observed outcomes (P)
     and compares them with the transcription (T).
"""

import json

from common import MachineryFailure

CHUNK = 30000


def _uname(u):
    return u["pfx"] + u["base"]


def _key(r):
    """stable, specific identification of a failing call (operation + units + form)."""
    k = {
        "clause": r["clause"],
        "fam": r["fam"],
        "op": r["op"],
        "form": r["form"],
        "left": r["left"],
        "left_base": r["left_base"],
        "left_kind": r["left_kind"],
    }
    if r["fam"] == "conv":
        k.update(dtype=r["dt"], shape=r["shape"])
    if r["fam"] in ("bin", "conv"):
        k.update(right=r["right"], right_base=r["right_base"], right_kind=r["right_kind"], same_scale=bool(r["same_scale"]))
    if r["fam"] == "red":
        k.update(left_kelvin_sized=bool(r["left_kelvin_sized"]))
    if r["fam"] == "ref":
        k.update(partner=r["part"], shape=r["shape"])
    if r["fam"] == "chain":
        k.update(op=r["route"], step=r["step"], routes=">".join(r["routes"][: r["step"]]), dtype=r["dt"], shape=r["shape"])
    return k


def _strip(c):
    return {k: c[k] for k in ("fam", "op", "form", "u0", "u1", "rs", "shape", "part", "chain", "dt", "x0", "x1", "t", "cands")}


def _validate(ck, cases, obs, label):
    """TLC evaluates P and T on every observation; chunks run concurrently (one JVM each, one worker each);
    verdicts are registered in chunk order, so the output is deterministic."""
    import concurrent.futures as cf

    from common import NCPU

    recs = [{"c": {k: c[k] for k in ("fam", "op", "form", "u0", "u1", "rs", "shape", "part", "chain", "dt")}, "obs": o} for c, o in zip(cases, obs)]
    chunk = min(CHUNK, max(2000, -(-len(recs) // max(1, NCPU))))
    offs = list(range(0, len(recs), chunk))

    def one(off):
        part = recs[off : off + chunk]
        path = ck.write_json(f"obs_{label}_{off}.json", part)
        res = ck.tlc("Trace_C08", env={"OBS": path}, workers=1, coverage=False, label=f"trace-validation {label} [{off}:{off + len(part)}]", timeout=1800)
        if res.distinct != len(part) + 1:
            raise MachineryFailure(f"trace validation consumed {res.distinct} states, expected {len(part) + 1}")
        return off, len(part), res

    with cf.ThreadPoolExecutor(max_workers=max(1, min(NCPU, len(offs)))) as ex:
        results = list(ex.map(one, offs))
    npf = 0
    for off, n, res in results:
        ck.validated(n)
        for r in res.by_tag("T-FAIL"):
            ck.drift_step(f"{r['fam']}:{r['op']}", {"routes": r["routes"], "form": r["form"], "left": r["left"], "right": r["right"], "part": r["part"], "model": r["model"], "observed": r["observed"]})
        for r in res.by_tag("UNDECIDED"):
            ck.drift_step(f"{r['fam']}:{r['op']}:label-outside-alphabet", {"form": r["form"], "left": r["left"], "right": r["right"], "observed": r["observed"]})
        for r in res.by_tag("P-FAIL"):
            npf += 1
            c = cases[off + r["i"] - 1]
            ck.violation(_key(r), {"observed": r["observed"], "model": r["model"], "x0": c["x0"], "x1": c["x1"], "shape": r["shape"]}, case=_strip(c))
    return npf


FAMILY_GROUPS = [["chain"], ["conv", "pred"], ["bin", "red", "ref"], ["mix"]]


def _case_tables(ck, cfg):
    """one TLC run per family group, concurrently (each exports with PrintT: one worker each)."""
    import concurrent.futures as cf
    import re

    text = open(ck.spec + f"/{cfg}.cfg").read()

    def one(group):
        nm = f"{cfg}_{'_'.join(group)}"
        fams = "{" + ", ".join('"%s"' % g for g in group) + "}"
        open(ck.spec + f"/{nm}.cfg", "w").write(re.sub(r"Fams = \{[^}]*\}", "Fams = " + fams, text))
        # no -coverage: TLC's coverage bookkeeping makes the recursive operators of the chain family ~12x slower;
        # vacuity is excluded by requiring cases of every family instead
        res = ck.tlc("MC_C08", nm, workers=1, coverage=False, label=f"case table {nm}", timeout=3000)
        cs = [r["c"] for r in res.by_tag("CASE")]
        if len(cs) != res.distinct - 1:
            raise MachineryFailure(f"{nm}: exported {len(cs)} cases for {res.distinct} states")
        return cs

    with cf.ThreadPoolExecutor(max_workers=len(FAMILY_GROUPS)) as ex:
        parts = list(ex.map(one, FAMILY_GROUPS))
    seen = set()
    cases = []
    for cs, group in zip(parts, FAMILY_GROUPS):
        for c in cs:
            k = json.dumps({f: c[f] for f in ("fam", "op", "form", "u0", "u1", "rs", "shape", "part", "chain", "dt")}, sort_keys=True)
            if k not in seen:  # the refusal pair table overlaps the binary table on the small prefixes
                seen.add(k)
                if group == ["mix"]:
                    c = dict(c, group="mix")
                cases.append(c)
    return cases


def run(ck):
    ck.level = "model_checking"
    ck.assumptions += [
        "units: K, R, degC, degF, delta_degC, delta_degF and ASCII-spelled SI prefixes of K/degC/delta_degC (the two non-ASCII micro spellings only in the refusal pair table; Tsun and T_pl are not in the alphabet)",
        "two differently prefixed Celsius scales (mdegC vs degC) are read as two different offset scales: combining them must raise",
        "integer sources hold the integral readings of set 1; results are matched at the precision of the float type the library produced (float16 2e-3, float32 5e-6, float64 1e-10)",
        "readings: two fixed sets of three rationals per operand (TLC has no reals); floats are matched to the specification's rationals at rtol 1e-10",
        "TLC 32-bit integers: arithmetic pairs are restricted to prefixes whose decimal exponents differ by at most 6; conversion sources with a zero point different from the target's to |exponent| <= 3",
        "to_value returns a bare number: it is taken to be labelled with the requested unit",
        "for conversions the implementation-shaped outcome is the affine map itself (no separate T)",
        "known findings are matched on (clause, operation, unit names / kinds, scale relation)",
    ]
    if ck.replay:
        blob = json.load(open(ck.replay))
        cases = [blob["case"]]
        obs = ck.pmap("impl_c08", "observe", cases, nproc=1)
        if "_error" in obs[0]:
            raise MachineryFailure("replay error: " + str(obs[0]))
        _validate(ck, cases, obs, "replay")
        return

    cfg = ck.q("MC_C08_quick", "MC_C08_thorough")
    cases = _case_tables(ck, cfg)
    if len(cases) < 1000:
        raise MachineryFailure(f"exported only {len(cases)} cases")
    cases.sort(key=lambda c: json.dumps({k: c[k] for k in ("fam", "op", "form", "u0", "u1", "rs", "shape", "part", "chain", "dt")}, sort_keys=True))
    ck.cov["exhaustive"] = True
    fams = {}
    for c in cases:
        fams[c["fam"]] = fams.get(c["fam"], 0) + 1
    fams["bin(refusal pair table)"] = sum(1 for c in cases if c.get("group") == "mix")
    fams["ref(repeated products)"] = sum(1 for c in cases if c["fam"] == "ref" and c["shape"] not in ("arr", "sc"))
    ck.cov["cases_by_family"] = fams
    ck.cov["cases_by_dtype"] = {}
    for c in cases:
        ck.cov["cases_by_dtype"][c["dt"]] = ck.cov["cases_by_dtype"].get(c["dt"], 0) + 1
    for fam in ("bin", "conv", "red", "ref", "chain", "bin(refusal pair table)", "ref(repeated products)"):
        if not fams.get(fam):
            raise MachineryFailure(f"no case of family {fam} generated (vacuous instance)")
    model_cex = {}
    for c in cases:
        if c["mp"]:
            k = f"{c['fam']}:{c['op']}:{c['mp']}"
            model_cex[k] = model_cex.get(k, 0) + 1
    ck.cov["model_level_counterexamples"] = model_cex
    units = sorted({_uname(c["u0"]) for c in cases} | {_uname(c["u1"]) for c in cases})
    ck.cov["units"] = units
    for fam in ("bin", "conv", "red", "ref", "chain"):
        ex = [c for c in cases if c["fam"] == fam]
        if ex:
            c = ex[len(ex) // 2]
            ck.sample({"fam": fam, "chain": [x["r"] + (":" + _uname(x["v"]) if x["v"]["base"] else "") for x in c["chain"]], "dtype": c["dt"], "op": c["op"], "form": c["form"], "u0": _uname(c["u0"]), "u1": _uname(c["u1"]), "shape": c["shape"], "model": c["t"]})

    obs = ck.pmap("impl_c08", "observe", cases)
    bad = [o for o in obs if "_error" in o]
    if bad:
        raise MachineryFailure("replay error: " + str(bad[0]))
    npf = _validate(ck, cases, obs, "table")

    ck.cov["evaluations"] = len(cases)
    # non-trivial: the case exercises a clause of C08 (a conversion; an add/subtract of the listed kinds that returned;
    # a pair of different offset scales; a multiplicative/power operation on an offset unit; a difference reduction)
    nontrivial = 0
    for c, o in zip(cases, obs):
        p0 = c["u0"]["base"] in ("degC", "degF")
        p1 = c["u1"]["base"] in ("degC", "degF")
        if c["fam"] in ("conv", "red", "chain"):
            nontrivial += 1
        elif c["fam"] == "ref":
            nontrivial += p0
        elif p0 and p1 and c["u0"]["base"] != c["u1"]["base"]:
            nontrivial += 1
        elif c["op"] in ("add", "subtract") and o["k"] == "val":
            inscope = not (p0 and p1) if c["op"] == "add" else not ((not p0) and p1)
            nontrivial += inscope
    ck.cov["distinct_nontrivial"] = int(nontrivial)
    ck.cov["rule"] = "conversion, difference reduction, offset unit under a multiplicative/power operation, pair of different offset scales, or returning add/subtract of the kinds the property lists"
    ck.cov["observed_p_fail_cases"] = npf
    ck.cov["model_level_p_fail_cases"] = sum(model_cex.values())
