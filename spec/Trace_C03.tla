----------------------------- MODULE Trace_C03 -----------------------------
(* Trace validation for C03: the observations of the real library for the    *)
(* cases exported by MC_C03 are read back (IOEnv.C03_OBS) and, per case,      *)
(*   P  the C03 predicates are evaluated on the observed numbers and units,   *)
(*   T  the observation is compared with what the transcription predicts.     *)
(* An observed number is a reference to a candidate vector of the case (the   *)
(* harness matched the float to the specification's exact number within       *)
(* rounding) or a foreign cluster id; equality below is equality of those.    *)
(*                                                                            *)
(* What P demands (and nothing else):                                         *)
(*   Total   every route of a supported conversion request returns           *)
(*           (exception: the by-hand route across dimensions, which has no    *)
(*           EM route - an explicit refusal, not demanded); a unit-system     *)
(*           request may be refused, but then by every route                  *)
(*   Shape   one number per input number                                      *)
(*   Id      A->A returns the input numbers, on every route; and the SOURCE  *)
(*           object of any copy-route conversion still holds its input        *)
(*           numbers under its input unit afterwards - also after an          *)
(*           in-place conversion was applied to the returned copy (fam src):   *)
(*           the laws hold for every use of a quantity, not only the first    *)
(*   Inv     A->B->A (copy, in place, mixed, via a unit-system base) returns  *)
(*           the input numbers                                                *)
(*   Comp    A->B->C gives the numbers and the unit of A->C (same route;      *)
(*           copy then in place (mixed) against the copy route)               *)
(*   Routes  all routes of one request give the same numbers, and those that  *)
(*           return a unit the same unit; this includes A->A'(copy)->B (in    *)
(*           place on the copy) and A->B asked again of the source afterwards *)
(* A unit-system request may name the system (string or UnitSystem object) *)
(* or leave the argument out: the default means the unit system the          *)
(* quantity's registry is configured with (MKS when none was configured).    *)
(* When that is the named system of the case, the default-argument forms     *)
(* belong to the same Routes/Inv family as the named forms (fam base/bback); *)
(* otherwise they are a request of their own (fam based/dback), which must   *)
(* agree among themselves.  Which of the two applies is decided by the       *)
(* specification (DefaultIsNamed), case by case, before the replay.           *)
(* A route may name its target as a Unit object, as a string (to_name:     *)
(* resolved in the quantity's registry) or - for unit-system requests - as   *)
(* the expression in_base arrived at, rebuilt in the quantity's registry      *)
(* (to_named).  The resulting unit is projected to its string; a unit whose   *)
(* expression means something else in the quantity's registry (bound to       *)
(* another table with other values) is marked as a different unit, so "same   *)
(* resulting unit" is about meaning, not only spelling.                       *)
(* Not demanded: bit-identical floats, result dtype/class (C16/C17), which    *)
(* unit a unit system picks (C10), 1- and 2-byte integers (C17/C18).          *)
EXTENDS Convert
Obs == JsonDeserialize(IOEnv.C03_OBS)
VARIABLE i

UA(o) == PoolU[o.a]
UB(o) == PoolU[o.b]
UC(o) == PoolU[o.c]
\* LET-bound: TLC passes operator arguments by name, a LET value is computed once
Ev(o) == LET A == PoolU[o.a] B == PoolU[o.b] C == PoolU[o.c] IN CaseEval(o.kind, A, B, C, o.sysi, o.cfgi, o.dt, o.xs)
X(o) == InVec(o.dt, o.xs)

ShapeOk(o, r) == Len(r.v) = Len(o.xs)
RefsOk(cd, r) == \A e \in DOMAIN r.v : r.v[e][1] <= Len(cd[r.g])
Nums(cd, r) == ObsVec(cd[r.g], r.v)
Good(o, cd) == {j \in DOMAIN o.res : o.res[j].k = "ok" /\ ShapeOk(o, o.res[j]) /\ RefsOk(cd, o.res[j])}
InFam(o, S, f) == {j \in S : o.res[j].fam = f}
First(S) == CHOOSE j \in S : \A k \in S : j <= k

\* get_conversion_factor applied by hand has no EM route: refusing across dimensions is not a disagreement
Refusable(o, r) == /\ r.rt \in {"hand", "hand_default"}
                   /\ LET A == PoolU[o.a] IN
                      \/ r.fam = "ab" /\ A.dim # PoolU[o.b].dim
                      \/ r.fam = "ac" /\ A.dim # PoolU[o.c].dim
                      \/ r.fam \in {"base", "based"} /\ A.dim \in EmDims

\* the unit-system request a family belongs to: named system (base, back from it: bback) or - when the default
\* argument resolves to another system than the named one - the registry's configured system (based, dback)
ReqFam(f) == IF f \in {"base", "bback"} THEN "base" ELSE "based"

Fail(n, o, j, clause) == [tag |-> "P-FAIL", i |-> n, clause |-> clause, fam |-> o.res[j].fam, rt |-> o.res[j].rt,
                       exc |-> o.res[j].exc, cls |-> ClsOf(UA(o)), j |-> j]

PFails(n, o, ev) ==
  LET cd == ev.cd
      G == Good(o, cd)
      x == AsObs(X(o))
      \* a supported conversion request returns; a unit-system request may be refused (UnitsNotReducible: the system
      \* cannot express the dimension) but then by every route
      total == {j \in DOMAIN o.res : /\ o.res[j].k # "ok" /\ ~Refusable(o, o.res[j])
                                      /\ \/ o.res[j].fam \notin {"base", "bback", "based", "dback"}
                                         \/ \E k \in DOMAIN o.res : o.res[k].fam = ReqFam(o.res[j].fam) /\ o.res[k].k = "ok"}
      shape == {j \in DOMAIN o.res : o.res[j].k = "ok" /\ ~(ShapeOk(o, o.res[j]) /\ RefsOk(cd, o.res[j]))}
      idto == {k \in InFam(o, G, "id") : o.res[k].rt = "to"}
      id == {j \in InFam(o, G, "id") : Nums(cd, o.res[j]) # x}
            \cup {j \in InFam(o, G, "src") : \/ Nums(cd, o.res[j]) # x
                                              \/ \E k \in idto : o.res[k].u # o.res[j].u}
      inv == {j \in InFam(o, G, "aba") \cup InFam(o, G, "bback") \cup InFam(o, G, "dback") : Nums(cd, o.res[j]) # x}
      comp == {j \in InFam(o, G, "abc") :
                 \E k \in InFam(o, G, "ac") : /\ o.res[k].rt = (IF o.res[j].rt = "mixed" THEN "to" ELSE o.res[j].rt)
                                              /\ \/ Nums(cd, o.res[k]) # Nums(cd, o.res[j])
                                                 \/ o.res[k].u # o.res[j].u}
      routes == UNION {
                  LET S == InFam(o, G, f) IN
                  IF S = {} THEN {}
                  ELSE LET ref == First(S)
                           SU == {j \in S : o.res[j].u # ""} IN
                       {j \in S : Nums(cd, o.res[j]) # Nums(cd, o.res[ref])}
                       \cup (IF SU = {} THEN {} ELSE {j \in SU : o.res[j].u # o.res[First(SU)].u})
                  : f \in {"id", "ab", "ac", "base", "based"}} IN
  {Fail(n, o, j, "Total") : j \in total} \cup {Fail(n, o, j, "Shape") : j \in shape} \cup {Fail(n, o, j, "Id") : j \in id}
  \cup {Fail(n, o, j, "Inv") : j \in inv} \cup {Fail(n, o, j, "Comp") : j \in comp} \cup {Fail(n, o, j, "Routes") : j \in routes}

\* T: the transcription's prediction for each route (exact cases: numbers; all cases: return/refuse, requested unit)
ExpectedIdx(r) == CASE r.fam = "id" -> 1 [] r.fam = "src" -> 1 [] r.fam = "aba" -> 2 [] r.fam = "bback" -> 2 [] r.fam = "ab" -> 1
                    [] r.fam = "abc" -> 1 [] r.fam = "ac" -> 2 [] r.fam = "base" -> 1
                    [] r.fam = "based" -> 1 [] r.fam = "dback" -> 1
ExpectedDt(o, r) == IF r.rt = "to_value" THEN ToValueDt(o.dt, o.sh)
                    ELSE IF r.rt \in {"to", "in_units"} /\ r.fam \in {"id", "ab", "ac"} THEN CopyDt(o.dt)
                    ELSE IF r.rt = "convert" /\ r.fam \in {"id", "ab", "ac"} THEN InPlaceDt(o.dt) ELSE NormDt(r.dt)
TFails(n, o, ev) ==
  LET cd == ev.cd
      \* no prediction for unit-system requests (refusals are the unit system's business) nor for to_value of a
      \* complex quantity (float() of a complex number: recorded finding)
      kbad == {j \in DOMAIN o.res : /\ o.res[j].fam \notin {"base", "bback", "based", "dback"}
                                     /\ ~(o.res[j].rt = "to_value" /\ o.sh = "scalar" /\ IsComplex(o.dt))
                                     /\ (o.res[j].k = "ok") = Refusable(o, o.res[j])}
      G == Good(o, cd)
      nbad == IF ~ev.exact THEN {}
              ELSE {j \in G : /\ ~(o.res[j].fam = "based" /\ Len(cd.C) = 0)   \* no prediction for that target
                              /\ \/ ExpectedIdx(o.res[j]) > Len(cd[o.res[j].g])
                                 \/ Nums(cd, o.res[j]) # AsObs(cd[o.res[j].g][ExpectedIdx(o.res[j])])}
      ubad == {j \in G : o.res[j].u # "" /\ o.kind = "conv" /\ o.res[j].u # o.ustr[o.res[j].g]}
      dbad == {j \in G : /\ ~(o.res[j].rt = "to_value" /\ o.sh = "scalar" /\ IsComplex(o.dt))
                          /\ NormDt(o.res[j].dt) # ExpectedDt(o, o.res[j])}
      xbad == IF ev.exact = o.exact THEN {} ELSE {0}
      \* the default-argument forms were filed under the request the specification says they express
      fbad == IF o.kind # "base" THEN {}
              ELSE {j \in DOMAIN o.res : o.res[j].fam \in {"based", "dback"} /\ DefaultIsNamed(o.sysi, o.cfgi)} IN
  {[tag |-> "T-FAIL", i |-> n, what |-> "return", fam |-> o.res[j].fam, rt |-> o.res[j].rt] : j \in kbad}
  \cup {[tag |-> "T-FAIL", i |-> n, what |-> "numbers", fam |-> o.res[j].fam, rt |-> o.res[j].rt] : j \in nbad}
  \cup {[tag |-> "T-FAIL", i |-> n, what |-> "unit", fam |-> o.res[j].fam, rt |-> o.res[j].rt] : j \in ubad}
  \cup {[tag |-> "T-FAIL", i |-> n, what |-> "dtype", fam |-> o.res[j].fam, rt |-> o.res[j].rt] : j \in dbad}
  \cup {[tag |-> "T-FAIL", i |-> n, what |-> "exactness", fam |-> "", rt |-> ""] : j \in xbad}
  \cup {[tag |-> "T-FAIL", i |-> n, what |-> "family", fam |-> o.res[j].fam, rt |-> o.res[j].rt] : j \in fbad}

Report(n, o) == LET ev == Ev(o) IN
                /\ \A f \in PFails(n, o, ev) : PrintT(ToJson(f))
                /\ \A f \in TFails(n, o, ev) : PrintT(ToJson(f))

\* one fan-out step: every observation is a successor of the initial state (TLC evaluates the tables built from
\* IOEnv data once per evaluation of Next, so all cases are judged within a single evaluation)
Init == i = 0
Next == /\ i = 0
        /\ \E n \in 1..Len(Obs) : Report(n, Obs[n]) /\ i' = n
=============================================================================
