------------------------------ MODULE MC_C03 ------------------------------
(* Bounded instance of Convert for C03: a single-step case table.           *)
(*   conv cases : ordered triples (A, B, C) of the pool with every leg      *)
(*                supported (same dimension vector, or a supported CGS<->SI *)
(*                electromagnetic pair) x (dtype, shape, values) combos     *)
(*   base cases : unit A x unit system x combos                             *)
(* For every case TLC computes the numbers the transcription predicts (the  *)
(* candidate vectors), checks the C03 laws on them (model-level verdict,    *)
(* exported as MODEL-FAIL) and exports the case for replay.                 *)
(* Every case also names the unit system the quantity's registry is        *)
(* configured with (cfg: 0 = none, else an index of Systems): base cases    *)
(* enumerate it (requested system x configured system), conv cases rotate   *)
(* through it.  For a base case TLC also decides which request the          *)
(* default-argument forms (in_base(), convert_to_base(), ...) express:      *)
(* the named one (dfam = "base") when the default resolves to the requested *)
(* system, else one of their own (dfam = "based").                          *)
(* Stride/Phase thin the triples deterministically (quick tier);            *)
(* AllCombos = FALSE rotates one combo per triple instead of all.           *)
EXTENDS Convert
CONSTANTS Stride, Phase, AllCombos, WithBase, CfgAll
VARIABLE c

FloatGrid == <<<<-2, 1>>, <<1, 2>>, <<7, 1>>>>
IntGrid == <<<<-2, 1>>, <<3, 1>>, <<7, 1>>>>
Combos == IF ExactMode
          THEN << [dt |-> "f8", sh |-> "array", xs |-> FloatGrid],
                  [dt |-> "f8", sh |-> "scalar", xs |-> <<FloatGrid[2]>>],
                  [dt |-> "f8", sh |-> "scalar", xs |-> <<FloatGrid[3]>>],
                  [dt |-> "f8", sh |-> "scalar", xs |-> <<RZero>>],
                  [dt |-> "f4", sh |-> "array", xs |-> FloatGrid],
                  [dt |-> "f4", sh |-> "scalar", xs |-> <<FloatGrid[1]>>],
                  [dt |-> "c16", sh |-> "array", xs |-> FloatGrid],
                  [dt |-> "c16", sh |-> "scalar", xs |-> <<FloatGrid[2]>>],
                  [dt |-> "i8", sh |-> "array", xs |-> IntGrid],
                  [dt |-> "i8", sh |-> "scalar", xs |-> <<IntGrid[2]>>],
                  [dt |-> "i4", sh |-> "array", xs |-> IntGrid] >>
          ELSE << [dt |-> "f8", sh |-> "array", xs |-> FloatGrid],
                  [dt |-> "f8", sh |-> "scalar", xs |-> <<FloatGrid[3]>>],
                  [dt |-> "i8", sh |-> "array", xs |-> IntGrid] >>
NCombos == Len(Combos)

CompatOf == [i \in 1..NPool |-> {j \in 1..NPool : Supported(PoolU[i], PoolU[j])}]
Gen(A) == IF A.dim = AngleDim THEN "pi" ELSE IF A.tag # 0 \/ A.dim \in EmDims THEN "c" ELSE ""

Terms(p) == SelectSeq(<< <<-2, p[1][1], p[1][2]>>, <<-1, p[2][1], p[2][2]>>, <<0, p[3][1], p[3][2]>>,
                         <<1, p[4][1], p[4][2]>>, <<2, p[5][1], p[5][2]>> >>, LAMBDA t : t[2] # 0)
NumJ(z) == [r |-> Terms(z.re), i |-> Terms(z.im)]
VecJ(v) == [e \in DOMAIN v |-> NumJ(v[e])]
VecsJ(vs) == [j \in DOMAIN vs |-> VecJ(vs[j])]

NSys == Len(Systems)
CfgName(r) == IF r = 0 THEN "" ELSE Systems[r].name

ConvCase(a, b, cc, k) ==
  LET A == PoolU[a] B == PoolU[b] C == PoolU[cc] cb == Combos[k]
      ev == CaseEval("conv", A, B, C, 1, 0, cb.dt, cb.xs)
      r == (a + 2 * b + cc) % (NSys + 1)
      ex == ev.exact cd == ev.cd x == InVec(cb.dt, cb.xs) IN
  [kind |-> "conv", a |-> a, b |-> b, c |-> cc, k |-> k, A |-> Pool[a], B |-> Pool[b], C |-> Pool[cc],
   dt |-> cb.dt, sh |-> cb.sh, xs |-> cb.xs, exact |-> ex, gen |-> Gen(A), sys |-> "", sysi |-> 1,
   cfgi |-> r, cfg |-> CfgName(r), dfam |-> "", dbfam |-> "", dg |-> "",
   cand |-> [A |-> VecsJ(cd.A), B |-> VecsJ(cd.B), C |-> VecsJ(cd.C)],
   model |-> IF ex THEN [id |-> M_Id(ev, x), inv |-> M_Inv(ev, x), comp |-> M_Comp(ev), routes |-> M_Routes(A, B)]
             ELSE [id |-> TRUE, inv |-> TRUE, comp |-> TRUE, routes |-> TRUE]]

BaseCase(a, s, r, k) ==
  LET A == PoolU[a] cb == Combos[k]
      ev == CaseEval("base", A, A, A, s, r, cb.dt, cb.xs)
      same == DefaultIsNamed(s, r)
      ex == ev.exact cd == ev.cd IN
  [kind |-> "base", a |-> a, b |-> a, c |-> a, k |-> k, A |-> Pool[a], B |-> Pool[a], C |-> Pool[a],
   dt |-> cb.dt, sh |-> cb.sh, xs |-> cb.xs, exact |-> ex, gen |-> Gen(A), sys |-> Systems[s].name, sysi |-> s,
   cfgi |-> r, cfg |-> CfgName(r), dfam |-> IF same THEN "base" ELSE "based", dbfam |-> IF same THEN "bback" ELSE "dback",
   dg |-> IF same THEN "B" ELSE "C",
   cand |-> [A |-> VecsJ(cd.A), B |-> VecsJ(cd.B), C |-> VecsJ(cd.C)],
   model |-> [id |-> TRUE, inv |-> IF ex THEN cd.A[2] = cd.A[1] ELSE TRUE, comp |-> TRUE, routes |-> TRUE]]

\* quick: the configured system that makes the default argument mean the requested system, and one other (rotating,
\* 0 = a registry made without a unit system included); thorough: every configured system
KeepCfg(a, s, r) == CfgAll \/ r = s \/ r = ((a + s) % (NSys + 1))
KeepTriple(a, b, cc) == ((a * 7 + b * 3 + cc) % Stride) = Phase
KeepCombo(a, b, cc, k) == AllCombos \/ k = ((a + b + cc) % NCombos) + 1

Init == c = <<>>
Next == /\ c = <<>>
        /\ \/ \E a \in 1..NPool : \E b \in CompatOf[a] : \E cc \in (CompatOf[a] \cap CompatOf[b]) : \E k \in 1..NCombos :
                /\ a \in CompatOf[b] /\ KeepTriple(a, b, cc) /\ KeepCombo(a, b, cc, k)
                /\ c' = ConvCase(a, b, cc, k)
           \/ /\ WithBase
              /\ \E a \in 1..NPool : \E s \in DOMAIN Systems : \E r \in 0..NSys : \E k \in 1..NCombos :
                /\ PoolU[a].ok /\ KeepCfg(a, s, r) /\ KeepCombo(a, s, r, k)
                /\ c' = BaseCase(a, s, r, k)

ExportCase == (c # <<>>) => PrintT(ToJson([tag |-> "CASE"] @@ c))
=============================================================================
