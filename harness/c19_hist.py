"""C19, histories of closeness/equality helper calls over reused operand objects:
MC_C19_hist -> replay (impl_c19.observe_hist) -> Trace_C19_hist."""

import concurrent.futures as cf
import json

from common import MachineryFailure


def _key(r):
    return {
        "fam": "hist",
        "clause": r["clause"],
        "changed": r["changed"],
        "role": r["role"],
        "helper": r["helper"],
        "actual_kind": r["actual_kind"],
        "desired_kind": r["desired_kind"],
        "actual_dtype": r["actual_dtype"],
        "desired_dtype": r["desired_dtype"],
        "same_object": bool(r["same_object"]),
        "reexpressed": bool(r["reexpressed"]),
        "first_call": bool(r["first_call"]),
    }


def _case(c):
    return {"fam": "hist", "pool": c["pool"], "steps": c["steps"], "c": c["c"]}


def validate(ck, cases, obs, label, chunk=8000, workers=3):
    recs = [{"pool": c["pool"], "steps": c["steps"], "obs": o["steps"]} for c, o in zip(cases, obs)]
    offs = list(range(0, len(recs), chunk))

    def one(off):
        part = recs[off : off + chunk]
        path = ck.write_json(f"obs_hist_{label}_{off}.json", part)
        res = ck.tlc("Trace_C19_hist", env={"OBS": path}, workers=1, coverage=False, label=f"trace-validation helper histories {label} [{off}:{off + len(part)}]", timeout=2400)
        if res.distinct != len(part) + 1:
            raise MachineryFailure(f"trace validation consumed {res.distinct} states, expected {len(part) + 1}")
        return off, len(part), res

    with cf.ThreadPoolExecutor(max_workers=workers) as ex:
        results = list(ex.map(one, offs))
    out = {"validated": 0, "drift": [], "viol": [], "classes": {}}
    for off, n, res in results:
        out["validated"] += n
        for r in res.by_tag("T-FAIL"):
            c = cases[off + r["i"] - 1]
            out["drift"].append(("hist:" + r["helper"], {"step": r["step"], "call": c["steps"][r["step"] - 1], "model": r["model"], "observed": r["observed"]}))
        for r in res.by_tag("P-FAIL"):
            c = cases[off + r["i"] - 1]
            cls = f"{r['helper']}|{r['clause']}|{r['changed']}|{r['role']}|first_call={r['first_call']}"
            out["classes"][cls] = out["classes"].get(cls, 0) + 1
            out["viol"].append((_key(r), {"step": r["step"], "call": c["steps"][r["step"] - 1], "pool": c["pool"], "observed": r["observed"], "model": r["model"]}, _case(c)))
    return out


def generate(ck):
    cfg = ck.q("MC_C19_hist_quick", "MC_C19_hist_thorough")
    res = ck.tlc("MC_C19_hist", cfg, workers=1, coverage=False, label=f"helper histories over reused operand objects {cfg}", timeout=3000)
    cases = [r for r in res.by_tag("CASE")]
    if len(cases) < 1000:
        raise MachineryFailure(f"exported only {len(cases)} helper histories")
    cases.sort(key=lambda c: json.dumps(_case(c), sort_keys=True))
    return cases
