#!/bin/bash
# usage: tools/integrate.sh C08 Temperature [more topic prefixes]  -> git add the files owned by that property builder
ID="$1"; shift; lc=$(echo "$ID" | tr 'A-Z' 'a-z')
cd "$(dirname "$0")/.."
FILES=$(ls spec/MC_${ID}* spec/Trace_${ID}* harness/${lc}.py harness/${lc}_*.py harness/impl_${lc}*.py known_findings.d/${ID}.jsonl manifest_parts/${ID}.json design_parts/${ID}.md mutants/${ID}-* fixes/${ID}-* evidence/${ID}.json 2>/dev/null)
for T in "$@"; do FILES="$FILES $(ls spec/${T}*.tla spec/${T}*.cfg 2>/dev/null)"; done
git add $FILES
python3 tools/gen_manifest.py && python3 tools/merge_design.py && git add MANIFEST.json DESIGN.md
/opt/veriftools/pyvenv/bin/python -c "
import json,jsonschema
jsonschema.validate(json.load(open('MANIFEST.json')), json.load(open('/root/.vp/MANIFEST.schema.json')))
jsonschema.validate(json.load(open('evidence/$ID.json')), json.load(open('/root/.vp/EVIDENCE.schema.json')))
e=json.load(open('evidence/$ID.json'))['coverage']
print('schemas ok; evidence keys:', {k:e.get(k) for k in ('states','transitions','traces_validated_against_impl','evaluations','distinct_nontrivial','exhaustive')})"
git status --short | grep -v '^??' | head -40
