CONSTANTS
  ArithP = {"", "m", "k"}
  ConvSrcP = {"", "m", "k", "c", "da", "M", "n"}
  ConvDstP = {"", "m", "k", "h", "u", "G", "y"}
  ReadSets = {1}
  Shapes = {"arr", "sc"}
  BinForms = {"operator", "ufunc", "inplace", "out", "out0", "out1", "outv0", "outv1"}
  BinOpSet = {"add", "subtract", "maximum", "less", "equal"}
  ConvVias = {"in_units", "convert_to_units", "to_value", "in_base", "convert_to_base"}
  ChainP = {""}
  ChainTgt = {"K", "degC", "degF"}
  ChainDT = {"f8", "f4", "i4"}
  ChainLen3 = FALSE
  ChainBases = {"degC", "degF", "K", "delta_degF"}
  ConvDT = {"f8", "f4", "i2", "u2", "i4", "i8"}
  MixP = {"", "Y", "Z", "E", "P", "T", "G", "M", "k", "h", "da", "d", "c", "m", "u", "n", "p", "f", "a", "z", "y", "micro_sign", "micro_mu"}
  MixOps = {"add", "subtract", "maximum", "less", "equal"}
  RefFreeP = {""}
  PredP = {"", "m"}
  PredShapes = {"v1", "v2", "v3", "v4", "g12", "g21", "g22", "g23"}
  PredForms = {"function", "axnone", "ax0", "ax1", "axm1", "axt01"}
  Fams = {"conv", "bin", "red", "ref", "pred", "chain", "mix"}
INIT Init
NEXT Next
INVARIANT Export
CHECK_DEADLOCK FALSE
