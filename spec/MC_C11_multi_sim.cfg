CONSTANTS
  MaxSteps = 7
  Pairs <- AllPairs
  ClsSet <- AllCls
  HowSet <- AllHow
INIT MInit
NEXT MNext
INVARIANT ExportM
CHECK_DEADLOCK FALSE
