CONSTANTS
  Tier = "quick"
  Part = "kind"
INIT Init
NEXT Next
INVARIANT Export
CHECK_DEADLOCK FALSE
