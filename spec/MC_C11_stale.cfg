CONSTANTS
  MaxChain = 1
  PathSet <- StalePaths
  Combos <- StaleCombos
  ClsSet <- ArrayUnit
  OrderSet <- OrigFirst
  PreSet <- StalePre
INIT Init
NEXT Next
INVARIANT Export
CHECK_DEADLOCK FALSE
