------------------------------- MODULE MC_C07 -------------------------------
(* Bounded instance of ArrayFnUnit for C07: the case table.                  *)
(* One state per case: function x call template x shape x dimension          *)
(* assignment of the operands x re-expression pattern (all operands of a     *)
(* dimension / one operand only) x power-of-two factor, for float and        *)
(* integer data on the dyadic model registry and for ordinary units.         *)
(* The catalogue of functions (IOEnv.CAT) is extracted from the working tree *)
(* by the harness; functions the table does not know get the plain call F(x) *)
(* with an unknown signature.  Every case carries the property-side          *)
(* signature resolved for its shape (sig), the transcribed unit formula      *)
(* (io), the outcome the transcription predicts for both runs (tb, tv) and   *)
(* mp: the outputs on which the transcription itself contradicts the         *)
(* signature (model-level counterexamples).                                  *)
EXTENDS ArrayFnUnit, IOUtils
CONSTANTS Factors,     \* exponents r of the power-of-two re-expression factor 2^r (dyadic float cases)
          IntFactors,  \* the same for integer data (negative: stored numbers stay integers)
          RealIdx,     \* indices of the ordinary units a dimension is re-expressed in (0 = m / s)
          Bases,       \* <<KL, KT>>: log2 scales of the units of the base run
          Fams,        \* which families to generate: "dy", "int", "real"
          DTypes,      \* further dtypes of the data ("f4", "c16") for the rows that also take integers
          DataSets,    \* which of the fixed data sets (1..3) the operands hold
          TempPairs,   \* <<base unit, target unit>> indices into K, degC, degF, R for the offset-unit family
          TmPairs,     \* <<base unit, target unit>> indices into K, mK, R, delta_degF, delta_degC (multiplicative temperature units)
          OneOpFactors,\* factors of the one-operand re-expression patterns and of the bare-operand forms
          BareKinds,   \* how a bare operand is given: "a" plain ndarray (0-d: float), "l" list
          Fixes        \* proposed repairs (fixes/C07-*.patch) present in the tree: the transcription follows them

F2 == {2, -4}
F5 == {2, -4, 6, -2, 3}
FI1 == {-2}
FI2 == {-2, -5}
R1 == {1}
R3 == {1, 2, 3}
B1 == {<<3, -2>>}
B2 == {<<3, -2>>, <<0, 1>>}
FamsAll == {"dy", "int", "real", "reg", "temp", "tm", "bare"}
TM1 == {<<1, 2>>}
TM5 == {<<1, 2>>, <<0, 2>>, <<1, 3>>, <<4, 3>>, <<0, 1>>}
OF1 == {2}
BK1 == {"a"}
BK2 == {"a", "l"}
TP2 == {<<0, 2>>, <<1, 3>>}
TP7 == {<<0, 2>>, <<1, 3>>, <<0, 1>>, <<0, 3>>, <<1, 2>>, <<2, 0>>, <<3, 1>>}
DT0 == {}
DT2 == {"f4", "c16"}
DS1 == {1}
DS3 == {1, 2, 3}

Cat == JsonDeserialize(IOEnv.CAT)
CatNames == {Cat[i][1] : i \in DOMAIN Cat}
HCls(f) == Cat[CHOOSE i \in DOMAIN Cat : Cat[i][1] = f][2]
\* The transitions transcribe /repo HEAD.  Each proposed repair of a handler's unit formula has its transcription
\* behind a switch so that T stays exact once the repair is committed (harness/c07.py TREE_FIXES):
\* "det": a.units ** a.shape[-1]; "einsum": product of the operands' units, no equality check;
\* "intersect1d": return_indices=True multiplies the values by ar1.units; "methods": unyt_array.trace keeps the unit
NoFixes == {}
FixIo(row) ==
  CASE row.f = "np.linalg.det" /\ "det" \in Fixes -> Impl("none", <<Dg(ORDER, 0, 0)>>)
    [] row.f = "np.einsum" /\ "einsum" \in Fixes -> Impl("none", row.sig.o)
    [] row.f = "np.intersect1d" /\ row.t = "idx" /\ "intersect1d" \in Fixes -> Impl("eq", <<D1, Bare, Bare>>)
    [] row.f = "nd.trace" /\ "methods" \in Fixes -> Impl("none", <<D1>>)
    [] OTHER -> row.io
AllQ == <<TRUE, TRUE, TRUE>>
Active == {[r EXCEPT !.io = FixIo(r)] @@ [q |-> AllQ] : r \in {r \in Rows : r.f \in CatNames}}
          \cup {r @@ [q |-> AllQ] : r \in GenericRows(CatNames \ (RowNames \cup NotDemanded))}
          \cup {r \in OptAllRows : r.f \in CatNames}

VARIABLE c
vars == <<c>>
Init == c = <<>>

DimsIn(da) == {da[i] : i \in DOMAIN da}
\* "o<i>" is a different case from "all" only when another operand shares operand i's dimension
\* only operands that are quantities in this call form (q) can be re-expressed
PatOK(da, p, q, rd) == IF p = "all" THEN \E i \in DOMAIN da : q[i] /\ da[i] = rd
                       ELSE (PatIdx(p) <= Len(da) /\ q[PatIdx(p)] /\ \E j \in DOMAIN da : j # PatIdx(p) /\ q[j] /\ da[j] = da[PatIdx(p)])
PrimaryDeg(sig) == IF sig.k = "unknown" \/ sig.o[1].bare THEN <<2, 0, 0>> ELSE sig.o[1].deg

\* outputs on which the transcribed formula contradicts the property-side signature
ModelFails(c0, us) ==
  IF c0.io.chk = "na" \/ c0.sig.k = "unknown" \/ ImplRaises(c0.io, us) THEN {}
  ELSE {j \in DOMAIN c0.io.o :
          LET s == SigAt(c0, j, Len(c0.io.o))
              m == c0.io.o[j] IN
          IF s.bare THEN ~(m.bare \/ ExpDims(m.deg, us) = <<0, 0>>)
          ELSE IF m.bare THEN ExpDims(s.deg, us) # <<0, 0>>
          ELSE ExpDims(m.deg, us) # ExpDims(s.deg, us)}

\* ---- registries: the SAME symbol with different values in different UnitRegistry objects
\* registry 1: ql = 2^3 m, qt = 2^-2 s; registry 2: ql = 2^5 m, qt = 2^1 s (custom dyadic registries);
\* registry 3: the default registry's ft (0.3048 m) / min (60 s); registry 4: a registry where ft = 2^-2 m, min = 2^6 s.
\* 0 = the ordinary model units (every symbol unique).  In a registry case the base run draws operand i's unit from
\* registry rg[i] under the shared spelling; the other run holds the same physical operands in ONE registry's units.
QK(j, d) == IF j = 1 THEN (IF d = "L" THEN 3 ELSE -2) ELSE (IF d = "L" THEN 5 ELSE 1)
RegAssign(n, a, b) == {rg \in [1..n -> {a, b}] : \E i \in 1..n : rg[i] = b}
RegMixed(n, a, b) == {rg \in RegAssign(n, a, b) : \E i \in 1..n : rg[i] = a}

CaseU(row, sh, da, u, v, rg, p, rd, r, dt, real, ds) ==
  LET sig == ResSig(row.sig, sh)
      io == IF row.io.chk = "na" THEN row.io ELSE ResSig(row.io, sh)
      c0 == [f |-> row.f, t |-> row.t, sh |-> sh, n |-> row.n, da |-> da, u |-> u, v |-> v, rg |-> rg, ok |-> "-", bm |-> "-", bk |-> "-", pat |-> p, rd |-> rd, r |-> r,
             dt |-> dt, real |-> real, ds |-> ds, cls |-> row.cls, hcls |-> HCls(row.f), sig |-> sig, io |-> io,
             exact |-> row.ex, nocov |-> "nocov" \in row.fl, novals |-> "novals" \in row.fl, unord |-> "unordered" \in row.fl, od |-> PrimaryDeg(sig)] IN
  c0 @@ [tb |-> ImplRun(c0, u), tv |-> ImplRun(c0, v), mp |-> ModelFails(c0, u) \cup ModelFails(c0, v)]
NoReg(da) == [i \in DOMAIN da |-> 0]
\* dyadic registries 1 / 2 against everything held in registry 1's scales under unique symbols
RegCase(row, sh, da, rg) ==
  CaseU(row, sh, da, [i \in DOMAIN da |-> <<da[i], QK(rg[i], da[i])>>], [i \in DOMAIN da |-> <<da[i], QK(1, da[i])>>],
        [i \in DOMAIN da |-> rg[i]], "reg", "L", 0, "f8", FALSE, 1)
\* default registry (3) and a registry that redefines its symbols (4) against everything in m / s (ordinary units: tolerance;
\* the second component of a base unit is only a tag that keeps units of different registries unequal)
RegDCase(row, sh, da, rg) ==
  CaseU(row, sh, da, [i \in DOMAIN da |-> <<da[i], rg[i]>>], [i \in DOMAIN da |-> <<da[i], 0>>],
        [i \in DOMAIN da |-> rg[i]], "reg", "L", 0, "f8", TRUE, 1)
\* merging and comparing functions: several operands of one dimension whose units must be reconciled
RegRow(row) == row.n >= 2 /\ row.cls \in {"same", "bare"} /\ row.q = AllQ
PlainDa(da) == \A i \in DOMAIN da : da[i] \in {"L", "T"}

Case(row, sh, da, p, rd, r, dt, real, kl, kt, ds) ==
  LET u == BaseUnits(da, kl, kt)
      v == VarUnits(da, u, p, rd, r)
      sig == ResSig(row.sig, sh)
      io == IF row.io.chk = "na" THEN row.io ELSE ResSig(row.io, sh)
      c0 == [f |-> row.f, t |-> row.t, sh |-> sh, n |-> row.n, da |-> da, u |-> u, v |-> v, pat |-> p, rd |-> rd, r |-> r,
             dt |-> dt, real |-> real, ds |-> ds, cls |-> row.cls, hcls |-> HCls(row.f), sig |-> sig, io |-> io,
             rg |-> NoReg(da), ok |-> "-", bm |-> "-", bk |-> "-",
             exact |-> row.ex, nocov |-> "nocov" \in row.fl, novals |-> "novals" \in row.fl, unord |-> "unordered" \in row.fl, od |-> PrimaryDeg(sig)] IN
  [c0 EXCEPT !.od = PrimaryDeg(sig)] @@ [tb |-> ImplRun(c0, u), tv |-> ImplRun(c0, v), mp |-> ModelFails(c0, u) \cup ModelFails(c0, v)]

\* every assignment with two different dimensions also runs with the second dimension replaced by the reciprocal of
\* the first (L, 1/L) and the first by the reciprocal of the second (1/T, T): products and quotients whose unit is
\* dimensionless with a scale, partial cancellation in three-operand cases
DasOf(row) == row.das \cup {Recip(da) : da \in {x \in row.das : HasBoth(x)}} \cup {RecipT(da) : da \in {x \in row.das : HasBoth(x)}}

\* kind of the out= target: a unyt_array in ANOTHER commensurable unit ("u"), a unyt_array already in the result's
\* unit ("r"), a plain ndarray ("b"); "-" = the template has no out=
OutKinds(row) == IF IsOutT(row.t) THEN {"u", "r", "b"} ELSE {"-"}
\* ---- offset units: the temperature family K (0), degC (1), degF (2), R (3) for the functions that bring one operand
\* into another's unit or merge/compare operands; TempPairs = <<unit of the base run, unit re-expressed into>>.
\* Not demanded there: functions that are not covariant under an AFFINE change of scale by their mathematics
\* (geometric spacing, weighted means with temperature weights, sums of readings)
NotAffine == {"np.geomspace", "np.average", "np.sum", "nd.sum"}
TempRow(row) == row.f \notin NotAffine /\ ~(row.f = "np.linspace" /\ row.t = "retstep") /\   \* the step is a difference, not a reading (C08)
                (RegRow(row) \/ (row.f = "np.histogram" /\ row.t \in {"range", "o:q-"}))
AllL(da) == \A i \in DOMAIN da : da[i] = "L"
TempCase(row, sh, da, p, pr) ==
  LET dt == [i \in DOMAIN da |-> "Th"]
      u == [i \in DOMAIN da |-> <<"Th", pr[1]>>] IN
  CaseU(row, sh, dt, u, VarUnits(dt, u, p, "Th", pr[2] - pr[1]), NoReg(da), p, "Th", pr[2] - pr[1], "f8", TRUE, 1)

\* ---- multiplicative temperature units: every row of the table with its length operands holding temperatures (K, mK, R,
\* delta_degF, delta_degC - degrees of different width, all without a zero point, so every function is demanded as on lengths)
TmOf(da) == [i \in DOMAIN da |-> IF da[i] = "L" THEN "Tm" ELSE da[i]]
TmCase(row, sh, da, pr) ==
  LET dt == TmOf(da)
      u == [i \in DOMAIN da |-> IF dt[i] = "Tm" THEN <<"Tm", pr[1]>> ELSE <<dt[i], 0>>] IN
  CaseU(row, sh, dt, u, VarUnits(dt, u, "all", "Tm", pr[2] - pr[1]), NoReg(da), "all", "Tm", pr[2] - pr[1], "f8", TRUE, 1)

\* ---- bare leading operands: the call form in which the first operand (and possibly more) is a plain ndarray / list and
\* a quantity sits further down the signature.  m[i] = TRUE: operand i is given bare (the same numbers in both runs); every
\* quantity operand is re-expressed.  A bare operand in a MERGING position (it shares its dimension with a quantity
\* operand in every dimension assignment of the row: concatenation, comparison, insertion, bounds ...) either makes the
\* call refuse or adopts the quantity's unit (deliberate in this library): it keeps that dimension in the signature and
\* the numbers are not compared (nocov), but the UNIT of the result is demanded - a bare result where the signature has
\* the quantity's dimension is a silent drop.  A bare operand in an independent position (factor of a product, weights,
\* matrix of a linear system) is a pure number: dimension "N", everything demanded.
BareMasks(n) == {m \in [1..n -> BOOLEAN] : m[1] /\ \E i \in 1..n : ~m[i]}
MergesWith(row, i, j) == \A da \in row.das : da[i] = da[j]
\* a merging position: the two operands share their dimension in every assignment AND one of them has degree zero in every
\* output (it is compared with / written into / bounds the other; factors of a product have non-zero degrees)
ZeroDeg(row, i) == \A j \in DOMAIN row.sig.o : row.sig.o[j].bare \/ row.sig.o[j].deg[i] = 0
Adopts(row, m, i) == m[i] /\ \E j \in 1..row.n : ~m[j] /\ MergesWith(row, i, j) /\ (ZeroDeg(row, i) \/ ZeroDeg(row, j))
OptTs == {r.t : r \in OptAllRows}
MaskStr(m, n) == (IF m[1] THEN "b" ELSE "q") \o (IF m[2] THEN "b" ELSE "q") \o (IF n >= 3 THEN (IF m[3] THEN "b" ELSE "q") ELSE "")
BareRow(row) == row.n >= 2 /\ row.t \notin OptTs /\ SubSeq(row.f, 1, 3) # "nd." /\ row.sig.k # "unknown"
BareCase(row, sh, da, m, r, kl, kt, bk) ==
  LET n == row.n
      ad == [i \in 1..n |-> Adopts(row, m, i)]
      u == [i \in 1..n |-> IF m[i] THEN <<(IF ad[i] THEN da[i] ELSE "N"), 0>> ELSE <<da[i], KOf(da[i], kl, kt)>>]
      v == [i \in 1..n |-> IF m[i] THEN u[i] ELSE <<da[i], u[i][2] + r>>]
      anyad == \E i \in 1..n : ad[i]
      row2 == [row EXCEPT !.io = NA,   \* no transcription of this call form (several handlers die on <first argument>.units)
                          !.fl = IF anyad THEN row.fl \cup {"nocov"} ELSE row.fl]
      c1 == CaseU(row2, sh, [i \in 1..n |-> u[i][1]], u, v, NoReg(da), "bare", da[1], r, "f8", FALSE, 1) IN
  [c1 EXCEPT !.bm = MaskStr(m, n), !.bk = bk]

Next ==
  /\ c = <<>>
  /\ \E row \in Active : \E sh \in row.shs, da \in DasOf(row) : \E p \in Patterns(da), rd \in {"L", "T", "iL", "iT"} :
       /\ Len(da) = row.n
       /\ PatOK(da, p, row.q, rd)
       /\ IF p = "all" THEN rd \in DimsIn(da) ELSE rd = da[PatIdx(p)]
       /\ \/ /\ "dy" \in Fams
             /\ \E r \in (IF p = "all" THEN Factors ELSE OneOpFactors), b \in Bases, ds \in DataSets : \E k \in OutKinds(row) : c' = [Case(row, sh, da, p, rd, r, "f8", FALSE, b[1], b[2], ds) EXCEPT !.ok = k]
          \/ /\ "int" \in Fams /\ "int" \in row.fl /\ p = "all"
             /\ \E r \in IntFactors : \E k \in OutKinds(row) : c' = [Case(row, sh, da, p, rd, r, "i8", FALSE, 0, -1, 1) EXCEPT !.ok = k]
          \/ /\ "int" \in Fams /\ "int" \in row.fl /\ p = "all"
             /\ \E r \in Factors, dt \in DTypes : \E k \in OutKinds(row) : c' = [Case(row, sh, da, p, rd, r, dt, FALSE, 3, -2, 1) EXCEPT !.ok = k]
          \/ /\ "real" \in Fams
             /\ \E r \in RealIdx, ds \in DataSets : \E k \in OutKinds(row) : c' = [Case(row, sh, da, p, rd, r, "f8", TRUE, 0, 0, ds) EXCEPT !.ok = k]
          \/ /\ "temp" \in Fams /\ TempRow(row) /\ AllL(da) /\ rd = "L"
             /\ \E pr \in TempPairs : \E k \in OutKinds(row) : c' = [TempCase(row, sh, da, p, pr) EXCEPT !.ok = k]
          \/ /\ "tm" \in Fams /\ row.q = AllQ /\ PlainDa(da) /\ p = "all" /\ rd = "L" /\ "L" \in DimsIn(da)
             /\ \E pr \in TmPairs : \E k \in OutKinds(row) : c' = [TmCase(row, sh, da, pr) EXCEPT !.ok = k]
          \/ /\ "bare" \in Fams /\ BareRow(row) /\ PlainDa(da) /\ p = "all" /\ rd = da[1]
             /\ \E m \in BareMasks(row.n), r \in OneOpFactors \cap F2, b \in Bases, bk \in BareKinds :
                  c' = [BareCase(row, sh, da, m, r, b[1], b[2], bk) EXCEPT !.ok = IF IsOutT(row.t) THEN "u" ELSE "-"]
          \/ /\ "reg" \in Fams /\ RegRow(row) /\ PlainDa(da) /\ p = "all" /\ rd = da[1]
             /\ \/ \E rg \in RegAssign(row.n, 1, 2) : \E k \in OutKinds(row) : c' = [RegCase(row, sh, da, rg) EXCEPT !.ok = k]
                \/ \E rg \in RegMixed(row.n, 4, 3) : \E k \in OutKinds(row) : c' = [RegDCase(row, sh, da, rg) EXCEPT !.ok = k]
Spec == Init /\ [][Next]_vars

Export == c # <<>> => PrintT(ToJson(c))

\* Model-level theorems about the table, checked on every case (plain invariants):
\* a signature never has more degrees than operands; class "same" has a non-bare primary output of total degree 1;
\* integer cases never produce fractional stored numbers (all scales <= 0)
WellFormed == c # <<>> =>
  /\ \A j \in DOMAIN c.sig.o : \A i \in 1..3 : (i > c.n => c.sig.o[j].deg[i] = 0)
  /\ (c.cls = "same" /\ c.sig.k # "unknown") => \E j \in DOMAIN c.sig.o : ~c.sig.o[j].bare /\ c.sig.o[j].deg[1] + c.sig.o[j].deg[2] + c.sig.o[j].deg[3] = 2
  /\ (c.dt = "i8" => \A i \in DOMAIN c.u : c.u[i][2] <= 0 /\ c.v[i][2] <= 0)
\* the re-expression changes at least one unit and never a dimension
ReexpressionProper == c # <<>> =>
  /\ \E i \in DOMAIN c.u : c.u[i] # c.v[i]
  /\ \A i \in DOMAIN c.u : c.u[i][1] = c.v[i][1]
  /\ (c.pat = "reg" <=> \E i \in DOMAIN c.rg : c.rg[i] # 0)
\* covariance of the signature itself: re-expression never changes the expected exponent vector
SigCovariant == c # <<>> => \A j \in DOMAIN c.sig.o : ExpDims(c.sig.o[j].deg, c.u) = ExpDims(c.sig.o[j].deg, c.v)
=============================================================================
