"""External tracer for executions of unyt (pytest plugin, add-only, env-guarded).

Loaded with `-p unyt_verif_tracer` (PYTHONPATH=/verif/harness) and active only
when UNYT_VERIF_TRACE=<file> is set.  It wraps public entry points of unyt *by
attribute* (no source change), logs one ndjson event per TOP-LEVEL call (a
depth counter skips nested calls; the event is written in `finally`, so the
error path is recorded too) and never alters arguments or results.

A sequential library's linearisation point is the return of the public call:
each event holds the projection of every unyt operand before and after the
call, the result, and the exception class if one was raised.

Projection of an object (only ints, strings, bools, lists - TLC-readable):
  k     "Q" unyt_quantity | "A" unyt_array | "nd" ndarray | "num" python/numpy scalar
        | "seq" list/tuple | "U" Unit | "none" | "other"
  id    id(obj)             sh  shape            dt  dtype.str        sz  size
  u     str(units)          dim 12x exponent vector over unyt's base dimensions (None if not integral)
  off   has a non-zero offset            regd  units.registry is the default registry
  dig   sha1 of the data bytes (None for object dtypes)
  zero  every element == 0  (bare operands: the documented bare-zero exception)
  hasq  a sequence contains a unyt object
"""

import hashlib
import json
import os
import sys

_OUT = os.environ.get("UNYT_VERIF_TRACE")
_state = {"depth": 0, "fh": None, "seq": 0, "test": ""}


def _dimvec(dims, _cache={}):
    key = dims
    try:
        if key in _cache:
            return _cache[key]
    except TypeError:
        key = None
    import sympy
    from unyt import dimensions as D

    base = [D.mass, D.length, D.time, D.temperature, D.angle, D.current_mks, D.luminous_intensity, D.logarithmic]
    out = [0] * len(base)
    try:
        if dims == 1 or dims is sympy.S.One:
            pd = {}
        else:
            pd = sympy.sympify(dims).as_powers_dict()
        for b, e in pd.items():
            if getattr(b, "is_Number", False):
                continue
            if b not in base:
                out = None
                break
            e12 = sympy.Rational(e) * 12
            if e12.q != 1:
                out = None
                break
            out[base.index(b)] = int(e12)
    except Exception:  # noqa: BLE001
        out = None
    if key is not None:
        _cache[key] = out
    return out


def _digest(a):
    import numpy as np

    try:
        b = np.asarray(a)
        if b.dtype.kind in "OSUV":
            return None
        return hashlib.sha1(np.ascontiguousarray(b).tobytes()).hexdigest()[:16]
    except Exception:  # noqa: BLE001
        return None


def proj(x):
    import numpy as np
    from unyt.array import unyt_array, unyt_quantity
    from unyt.unit_object import Unit
    from unyt.unit_registry import default_unit_registry

    try:
        if x is None:
            return {"k": "none"}
        if isinstance(x, unyt_array):
            u = x.units
            nd = x.view(np.ndarray)
            return {
                "k": "Q" if isinstance(x, unyt_quantity) else "A",
                "id": id(x),
                "sh": list(x.shape),
                "sz": int(x.size),
                "dt": x.dtype.str,
                "u": str(u),
                "dim": _dimvec(u.dimensions),
                "off": bool(u.base_offset != 0),
                "regd": u.registry is default_unit_registry,
                "dig": _digest(nd),
                "zero": bool(nd.dtype.kind in "biufc" and np.count_nonzero(nd) == 0),
            }
        if isinstance(x, Unit):
            return {"k": "U", "id": id(x), "u": str(x), "dim": _dimvec(x.dimensions), "off": bool(x.base_offset != 0), "regd": x.registry is default_unit_registry}
        if isinstance(x, np.ndarray):
            return {"k": "nd", "id": id(x), "sh": list(x.shape), "sz": int(x.size), "dt": x.dtype.str, "dig": _digest(x), "zero": bool(x.dtype.kind in "biufc" and np.count_nonzero(x) == 0)}
        if isinstance(x, (bool, int, float, complex, np.generic)):
            val = None
            try:
                from fractions import Fraction

                if not isinstance(x, (complex, np.complexfloating)):
                    fr = Fraction(float(x))
                    if fr.denominator <= 64 and abs(fr.numerator) <= 4096:
                        val = [fr.numerator, fr.denominator]
            except Exception:  # noqa: BLE001
                val = None
            return {"k": "num", "zero": bool(x == 0), "dt": np.asarray(x).dtype.str, "val": val}
        if isinstance(x, (list, tuple)):
            hasq = any(isinstance(e, unyt_array) for e in x)
            z = False
            if not hasq:
                try:
                    arr = np.asarray(x)
                    z = bool(arr.dtype.kind in "biufc" and np.count_nonzero(arr) == 0)
                except Exception:  # noqa: BLE001
                    z = False
            return {"k": "seq", "n": len(x), "hasq": hasq, "zero": z, "items": [proj(e) for e in x[:6]] if hasq else []}
        if isinstance(x, str):
            return {"k": "str", "s": x[:80]}
        return {"k": "other", "t": type(x).__name__}
    except Exception as e:  # noqa: BLE001
        return {"k": "projerr", "t": type(e).__name__}


def _emit(ev):
    fh = _state["fh"]
    if fh is None:
        fh = _state["fh"] = open(_OUT, "a", encoding="ascii")
    _state["seq"] += 1
    ev["seq"] = _state["seq"]
    ev["test"] = _state["test"]
    fh.write(json.dumps(ev, ensure_ascii=True, default=str) + "\n")
    fh.flush()


def _wrap(owner, name, kind, describe):
    """Replace owner.name by a logging wrapper.  describe(args, kwargs) -> (label dict, list of operand objects)."""
    import functools

    orig = owner.__dict__[name]
    is_static = isinstance(orig, staticmethod)
    is_class = isinstance(orig, classmethod)
    f = orig.__func__ if (is_static or is_class) else orig

    @functools.wraps(f)
    def wrapper(*args, **kwargs):
        if _state["depth"] > 0:
            return f(*args, **kwargs)
        _state["depth"] += 1
        ev = {"ev": kind}
        ops = []
        try:
            try:
                label, ops = describe(args, kwargs)
                ev.update(label)
                ev["pre"] = [proj(o) for o in ops]
            except Exception as e:  # noqa: BLE001
                ev["descr_error"] = type(e).__name__
            res = f(*args, **kwargs)
            ev["exc"] = ""
            try:
                ev["res"] = [proj(r) for r in res] if isinstance(res, tuple) else [proj(res)]
                ev["res_is_tuple"] = isinstance(res, tuple)
            except Exception as e:  # noqa: BLE001
                ev["res"] = [{"k": "projerr", "t": type(e).__name__}]
            return res
        except BaseException as e:
            ev["exc"] = type(e).__name__
            ev["res"] = []
            raise
        finally:
            try:
                ev["post"] = [proj(o) for o in ops]
                _emit(ev)
            except Exception:  # noqa: BLE001
                pass
            _state["depth"] -= 1

    if is_static:
        wrapper = staticmethod(wrapper)
    elif is_class:
        wrapper = classmethod(wrapper)
    setattr(owner, name, wrapper)


def install():
    from unyt import array as A
    from unyt import unit_object as UO
    from unyt import unit_registry as UR

    def d_ufunc(args, kw):
        self, ufunc, method = args[0], args[1], args[2]
        inputs = list(args[3:])
        out = kw.get("out")
        outs = list(out) if isinstance(out, tuple) else ([] if out is None else [out])
        lab = {"fn": ufunc.__name__, "method": method, "nin": len(inputs), "nout": len(outs), "out_is": [next((i for i, x in enumerate(inputs) if x is o), -1) for o in outs], "kw": sorted(k for k in kw if k != "out")}
        return lab, inputs + outs

    def d_arrfn(args, kw):
        self, func, types, fargs, fkw = args[0], args[1], args[2], args[3], args[4]
        ops = []

        def walk(x, depth=0):
            if isinstance(x, (A.unyt_array,)) or (hasattr(x, "dtype") and hasattr(x, "shape")):
                ops.append(x)
            elif isinstance(x, (list, tuple)) and depth < 2:
                for e in x:
                    walk(e, depth + 1)

        for a in fargs:
            walk(a)
        outk = fkw.get("out")
        if outk is None:
            # out passed positionally: bind against the public signature
            try:
                import inspect

                outk = inspect.signature(func).bind(*fargs, **fkw).arguments.get("out")
            except Exception:  # noqa: BLE001
                outk = None
        for k in sorted(fkw):
            walk(fkw[k])
        lab = {"fn": getattr(func, "__module__", "") + "." + func.__name__, "has_out": outk is not None, "out_pos": [i for i, o in enumerate(ops) if o is outk or (isinstance(outk, tuple) and any(o is q for q in outk))], "kw": sorted(fkw)}
        return lab, ops

    def d_method(name, mutating):
        def d(args, kw):
            self = args[0]
            ops = [self] + [a for a in args[1:] if hasattr(a, "dtype") or isinstance(a, UO.Unit)]
            tgt = args[1] if len(args) > 1 else kw.get("units", kw.get("unit_system"))
            return {"fn": name, "mutating": mutating, "target": (str(tgt)[:60] if isinstance(tgt, (str, UO.Unit)) else type(tgt).__name__), "equiv": str(kw.get("equivalence", args[2] if len(args) > 2 and isinstance(args[2], str) else ""))}, ops

        return d

    _wrap(A.unyt_array, "__array_ufunc__", "ufunc", d_ufunc)
    _wrap(A.unyt_array, "__array_function__", "arrfn", d_arrfn)
    for name, mut in [
        ("in_units", False),
        ("to", False),
        ("to_value", False),
        ("in_base", False),
        ("in_cgs", False),
        ("in_mks", False),
        ("to_equivalent", False),
        ("convert_to_units", True),
        ("convert_to_base", True),
        ("convert_to_cgs", True),
        ("convert_to_mks", True),
        ("convert_to_equivalent", True),
        ("copy", False),
        ("__getitem__", False),
        ("__setitem__", True),
    ]:
        if name in A.unyt_array.__dict__:
            _wrap(A.unyt_array, name, "method", d_method(name, mut))

    def d_unitop(name):
        def d(args, kw):
            return {"fn": name}, list(args[:2])

        return d

    for name in ("__mul__", "__truediv__", "__pow__", "__rmul__", "__rtruediv__"):
        if name in UO.Unit.__dict__:
            _wrap(UO.Unit, name, "unitop", d_unitop(name))

    def d_reg(name):
        def d(args, kw):
            self = args[0]
            sym = args[1] if len(args) > 1 else kw.get("symbol")
            return {"fn": name, "sym": str(sym)[:40], "regid": id(self), "regd": self is UR.default_unit_registry, "had": bool(isinstance(sym, str) and sym in self.lut)}, []

        return d

    for name in ("add", "modify", "remove"):
        _wrap(UR.UnitRegistry, name, "registry", d_reg(name))


def pytest_configure(config):
    if _OUT:
        install()


def pytest_runtest_setup(item):
    _state["test"] = item.nodeid[-120:]


def pytest_unconfigure(config):
    if _state["fh"] is not None:
        _state["fh"].close()


if _OUT and "pytest" not in sys.modules:  # imported by a driver script rather than as a plugin
    install()
