CONSTANTS
  DT <- DT15
  OutDT <- DT13
  ConvVC <- AllVC
  UVC0 <- BaseVC
  UVC1 <- QuickVC1
  Routes <- AllCopyRoutes
  Pairs <- PairsQuick
  UPairs <- UPairsQuick
  Ops <- OpsQuick
  OutOps <- OpsOutQuick
  Shapes <- ShapesAll
  UShapes <- UShapesQuick
  Fams <- FamsAll
  CDA <- CDAQuick
  CDE <- CDEQuick
  CVB <- CVBQuick
  CPairs <- CPairsQuick
  COps <- COpsQuick
  OffPairs <- OffPairsQuick
  OffVC <- OffVCQuick
  RPairs <- RealPairsQuick
  RRoutes <- RRoutesQuick
INIT Init
NEXT Next
INVARIANT Export
INVARIANT NoIntegerResult
INVARIANT RefusalsAllowed
INVARIANT FloatsKeepWidth
CHECK_DEADLOCK FALSE
