----------------------------- MODULE NamesEdit -----------------------------
(* C14 on a custom registry with EDITED contents.  The clause "denotes the   *)
(* same unit whether reached by string, by attribute or through a custom     *)
(* registry's namespace", and "scaled by exactly the prefix", are about the  *)
(* registry's CURRENT contents, whatever was resolved before.                *)
(*                                                                           *)
(* Alphabet.  Keys edits may touch: the prefixable default symbol pc, the    *)
(* non-prefixable default symbol ft, the user symbols foo and kfoo (kfoo is  *)
(* also prefix k + foo, so "table symbol wins over prefix split" is          *)
(* observable).  Scales are mantissa names: "Dpc"/"Dft" (the default scale), *)
(* "2", "4", "7" (metres); a denotation is <<mantissa, decimal exponent>>.   *)
(* Twelve probe strings: atomic, alias, prefixed, word-prefixed alias,       *)
(* Title-case, prefix on a non-prefixable unit, user symbols.                *)
(*                                                                           *)
(* Transition side (same branch order as unyt/unit_registry.py add / remove  *)
(* / modify - each clears the string memo, none touches derived rows -,      *)
(* Unit.__new__ with the string memo, _lookup_unit_symbol with the derived-  *)
(* row write-back, unit_systems.add_symbols: Unit(attribute.expr, registry)  *)
(* for every unit_symbols attribute, then Unit(key, registry) for every      *)
(* other table key).  Property side: the reference view `user` (what the     *)
(* caller put in) and RefDen, the reading of a probe under it.               *)
EXTENDS Integers, Sequences, FiniteSets, TLC, Json

EditKeys == {"pc", "ft", "foo", "kfoo"}
DerivedKeys == <<"kpc", "Mpc", "kft", "kfoo", "Mfoo">>     \* keys _lookup_unit_symbol may write back
DerivedSet == {DerivedKeys[i] : i \in DOMAIN DerivedKeys}
AllKeys == EditKeys \cup DerivedSet
\* probe strings: s = spelling, e/b = its reading 10^e x unit b, canon = the symbol the tokenizer hands to the table
\* look-up (alias table), us = it is an attribute of unyt.unit_symbols
ProbeSeq == <<
  [s |-> "pc",         e |-> 0, b |-> "pc",  canon |-> "pc",   us |-> TRUE],
  [s |-> "parsec",     e |-> 0, b |-> "pc",  canon |-> "pc",   us |-> TRUE],
  [s |-> "kpc",        e |-> 3, b |-> "pc",  canon |-> "kpc",  us |-> TRUE],
  [s |-> "kiloparsec", e |-> 3, b |-> "pc",  canon |-> "kpc",  us |-> TRUE],
  [s |-> "Kiloparsec", e |-> 3, b |-> "pc",  canon |-> "kpc",  us |-> TRUE],
  [s |-> "Mpc",        e |-> 6, b |-> "pc",  canon |-> "Mpc",  us |-> TRUE],
  [s |-> "ft",         e |-> 0, b |-> "ft",  canon |-> "ft",   us |-> TRUE],
  [s |-> "foot",       e |-> 0, b |-> "ft",  canon |-> "ft",   us |-> TRUE],
  [s |-> "kft",        e |-> 3, b |-> "ft",  canon |-> "kft",  us |-> FALSE],
  [s |-> "foo",        e |-> 0, b |-> "foo", canon |-> "foo",  us |-> FALSE],
  [s |-> "kfoo",       e |-> 3, b |-> "foo", canon |-> "kfoo", us |-> FALSE],
  [s |-> "Mfoo",       e |-> 6, b |-> "foo", canon |-> "Mfoo", us |-> FALSE]>>
PIdx == DOMAIN ProbeSeq
\* derived key -> its split <<e, base>> (first character is the prefix)
SplitOf(c) == CASE c = "kpc" -> <<3, "pc">> [] c = "Mpc" -> <<6, "pc">> [] c = "kft" -> <<3, "ft">>
                [] c = "kfoo" -> <<3, "foo">> [] c = "Mfoo" -> <<6, "foo">> [] OTHER -> <<0, "">>

Absent == [m |-> "", e |-> 0, pfx |-> FALSE]
Row(m, e, pfx) == [m |-> m, e |-> e, pfx |-> pfx]
Present(r) == r.m # ""
Table0 == [k \in AllKeys |-> IF k = "pc" THEN Row("Dpc", 0, TRUE) ELSE IF k = "ft" THEN Row("Dft", 0, FALSE) ELSE Absent]
RaiseO == [k |-> "raise", den |-> <<>>]
UnitO(r) == [k |-> "unit", den |-> <<r.m, r.e>>]
OkO == [k |-> "ok", den |-> <<>>]

VARIABLES user,   \* reference view: key -> row | Absent (what the caller put in; defaults included)
          lut,    \* the table as the code keeps it (incl. derived rows)
          memo,   \* set of [s, o]: registry._unit_object_cache restricted to the probe strings
          hist,   \* the calls made so far
          last    \* result of the last call
evars == <<user, lut, memo, hist, last>>
EditInit == user = Table0 /\ lut = Table0 /\ memo = {} /\ hist = <<>> /\ last = OkO

\* ----------------------------------------------------------- transition side
\* _lookup_unit_symbol(c, lut): <<outcome, lut after>>
LookupE(c, L) ==
  IF Present(L[c]) THEN <<UnitO(L[c]), L>>
  ELSE LET sp == SplitOf(c) IN
       IF sp[2] # "" /\ Present(L[sp[2]]) /\ L[sp[2]].pfx
       THEN LET r == Row(L[sp[2]].m, L[sp[2]].e + sp[1], FALSE) IN <<UnitO(r), [L EXCEPT ![c] = r]>>
       ELSE <<RaiseO, L>>
Add(k, m, pfx) == /\ lut' = [lut EXCEPT ![k] = Row(m, 0, pfx)] /\ user' = [user EXCEPT ![k] = Row(m, 0, pfx)]
                  /\ memo' = {} /\ last' = OkO
Remove(k) == IF Present(lut[k])
             THEN /\ lut' = [lut EXCEPT ![k] = Absent] /\ user' = [user EXCEPT ![k] = Absent] /\ memo' = {} /\ last' = OkO
             ELSE /\ UNCHANGED <<lut, user, memo>> /\ last' = RaiseO
Modify(k, m) == IF Present(lut[k])
                THEN /\ lut' = [lut EXCEPT ![k].m = m, ![k].e = 0] /\ memo' = {} /\ last' = OkO
                     /\ user' = IF Present(user[k]) THEN [user EXCEPT ![k].m = m] ELSE user
                ELSE /\ UNCHANGED <<lut, user, memo>> /\ last' = RaiseO
\* Unit(ProbeSeq[p].s, registry=reg): memo first; on success the string is memoised
PeekStr(p, L, M) == LET s == ProbeSeq[p].s IN
                    IF \E x \in M : x.s = s THEN <<(CHOOSE x \in M : x.s = s).o, L>> ELSE LookupE(ProbeSeq[p].canon, L)
Construct(p) == LET r == PeekStr(p, lut, memo) IN
                /\ lut' = r[2] /\ last' = r[1] /\ user' = user
                /\ memo' = IF r[1].k = "unit" THEN memo \cup {[s |-> ProbeSeq[p].s, o |-> r[1]]} ELSE memo
\* add_symbols(ns, reg): the unit_symbols attributes in module order (ft's names come before pc's; a name that
\* cannot be resolved aborts the whole call - before any of the modelled derived rows is written), then the other keys
UsOrder == <<7, 8, 1, 2, 3, 4, 5, 6>>
RECURSIVE NsWalk(_, _, _)
NsWalk(i, L, acc) == IF i > Len(UsOrder) THEN <<TRUE, L, acc>>
                     ELSE LET r == LookupE(ProbeSeq[UsOrder[i]].canon, L) IN
                          IF r[1].k = "raise" THEN <<FALSE, L, acc>>
                          ELSE NsWalk(i + 1, r[2], [acc EXCEPT ![UsOrder[i]] = r[1]])
NsAbsent == [k |-> "absent", den |-> <<>>]
NsOf(L) == LET w == NsWalk(1, L, [p \in PIdx |-> NsAbsent]) IN
           IF ~w[1] THEN [ok |-> FALSE, lut |-> L, ns |-> [p \in PIdx |-> NsAbsent]]
           ELSE [ok |-> TRUE, lut |-> w[2],
                 ns |-> [p \in PIdx |-> IF ProbeSeq[p].us THEN w[3][p]
                                        ELSE IF ProbeSeq[p].s \in AllKeys /\ Present(w[2][ProbeSeq[p].s]) THEN UnitO(w[2][ProbeSeq[p].s]) ELSE NsAbsent]]
AddSymbols == LET r == NsOf(lut) IN
              /\ lut' = r.lut /\ user' = user
              /\ last' = [k |-> IF r.ok THEN "ns" ELSE "raise", den |-> <<>>, ns |-> r.ns]
              /\ memo' = IF r.ok THEN memo \cup {[s |-> ProbeSeq[p].s, o |-> r.ns[p]] : p \in {q \in PIdx : ~ProbeSeq[q].us /\ r.ns[q].k = "unit"
                                                                                               /\ ~(\E x \in memo : x.s = ProbeSeq[q].s)}}
                         ELSE memo

\* ------------------------------------------------------------ property side
\* the reading of probe p under the caller's view U: the table symbol wins; otherwise prefix x a prefixable unit
RefDen(U, p) == LET q == ProbeSeq[p] IN
                IF q.canon \in EditKeys /\ q.e # 0 /\ Present(U[q.canon]) THEN UnitO(U[q.canon])     \* kfoo as a user symbol
                ELSE IF ~Present(U[q.b]) THEN RaiseO
                ELSE IF q.e = 0 THEN UnitO(U[q.b])
                ELSE IF U[q.b].pfx THEN UnitO(Row(U[q.b].m, q.e, FALSE)) ELSE RaiseO
\* an observed resolution o = [ok, den (tuple of <<mantissa, exponent>>)] agrees with the reading
Agrees(o, want) == IF want.k = "raise" THEN ~o.ok ELSE o.ok /\ (\E x \in DOMAIN o.den : o.den[x] = want.den)
\* EditStr: the string denotes its reading under the current contents (accepted iff it has one)
C14_EditStr(U, p, o) == Agrees(o, RefDen(U, p))
\* EditNs: a namespace entry denotes the reading of its name under the contents at the time add_symbols ran
C14_EditNs(U, p, a) == a.present => Agrees(a, RefDen(U, p))
\* which memo layer explains a stale answer: a derived prefixed row written before the base symbol was edited
\* (the defect C12 records: derived rows survive add/modify/remove of their base symbol), or none
Layer(U, p, rowsBefore) == LET c == ProbeSeq[p].canon IN
                           IF (\E i \in DOMAIN DerivedKeys : DerivedKeys[i] = c /\ rowsBefore[i]) /\ ~(c \in EditKeys /\ Present(U[c]))
                           THEN "lutrow" ELSE "fresh"
ModelRows(L) == [i \in DOMAIN DerivedKeys |-> Present(L[DerivedKeys[i]])]
=============================================================================
