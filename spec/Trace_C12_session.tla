------------------------- MODULE Trace_C12_session -------------------------
(* Trace validation for the Session composition (C12): executions recorded   *)
(* from the real library are stepped through the Session actions.  For every *)
(* step: T = the caller's result, the table rows, the memo keys and every    *)
(* live object agree with the transition; P = the C12 clauses evaluated on   *)
(* the OBSERVATION only - the reference outcome of the call is computed from *)
(* the observed operands as they were before the call (`pre`) and from the   *)
(* caller's view of the registry (`ruser`, driven by the observed outcome of *)
(* each edit), so P does not depend on the transcription being right.        *)
EXTENDS Session, IOUtils
Traces == JsonDeserialize(IOEnv.TRACES)
VARIABLES tid, l, ruser, redit, pre, preex, sync
tvars == <<svars, tid, l, ruser, redit, pre, preex, sync>>
KeyIdx(k) == CHOOSE i \in DOMAIN KeySeq : KeySeq[i] = k
ProbeIdx(p) == CHOOSE i \in DOMAIN ProbeSeq : ProbeSeq[i] = p

TraceInit == SInit /\ tid = 1 /\ l = 1 /\ ruser = InitTable /\ redit = [s \in Keys |-> "none"] /\ pre = <<>> /\ preex = <<>> /\ sync = TRUE
Ev == Traces[tid].ev[l]
RegOps == {"add", "modify", "remove", "contains", "unit"}

\* can the transition be taken from the model's state at all?  (not after the model and the code disagreed about which
\* objects exist: the step is then consumed without the transition and reported as drift)
Guard(e) ==
  CASE e.op \in RegOps -> TRUE
    [] e.op = "newsys" -> TRUE
    [] e.op \in {"make", "makem"} -> Len(objs) < MaxObj
    [] e.op \in {"insys", "convinsys"} -> e.i \in DOMAIN objs /\ SysOk(user) /\ ~Stale(user, objs[e.i])
    [] e.op \in {"to", "plus", "tou"} -> Len(objs) < MaxObj /\ e.i \in DOMAIN objs /\ (e.op # "to" => e.j \in DOMAIN objs)
    [] e.op = "over" -> e.i \in DOMAIN objs /\ e.j \in DOMAIN objs /\ OverPlain(e.i, e.j) /\ Small(objs[e.i]) /\ Small(objs[e.j])
    [] e.op = "convinu" -> e.i \in DOMAIN objs /\ e.j \in DOMAIN objs
    [] e.op = "times" -> e.i \in DOMAIN objs /\ e.j \in DOMAIN objs /\ TimesPlain(e.i, e.j) /\ Small(objs[e.i]) /\ Small(objs[e.j])
    [] e.op \in {"eq", "lt"} -> e.i \in DOMAIN objs /\ e.j \in DOMAIN objs
    [] OTHER -> e.i \in DOMAIN objs
StepAction(e) ==
  CASE e.op = "add" -> RegCall(e.h, Add(e.sym, e.scale, e.pfx, e.dim))
    [] e.op = "modify" -> RegCall(e.h, Modify(e.sym, e.scale))
    [] e.op = "remove" -> RegCall(e.h, Remove(e.sym))
    [] e.op = "contains" -> RegCall(e.h, Contains(e.sym))
    [] e.op = "unit" -> RegCall(e.h, Construct(e.str))
    [] e.op = "make" -> Make(e.h, e.str)
    [] e.op = "newsys" -> NewSys
    [] e.op = "makem" -> MakeM(e.h)
    [] e.op = "insys" -> InSys(e.i)
    [] e.op = "convinsys" -> ConvInSys(e.i)
    [] e.op = "to" -> To(e.i, e.str)
    [] e.op = "convin" -> ConvIn(e.i, e.str)
    [] e.op = "plus" -> Plus(e.i, e.j)
    [] e.op = "times" -> Times(e.i, e.j)
    [] e.op = "over" -> Over(e.i, e.j)
    [] e.op = "tou" -> ToU(e.i, e.j)
    [] e.op = "convinu" -> ConvInU(e.i, e.j)
    [] e.op \in {"eq", "lt"} -> Cmp(e.op, e.i, e.j)
    [] e.op \in {"copy", "deepcopy"} -> Dup(e.op, e.i)
    [] e.op = "pickle" -> Pickle(e.i)
    [] e.op = "inbase" -> InBase(e.i)

ObsRow(e, k) == e.rows[KeyIdx(k)]
RUser(e) ==
  IF e.op \notin {"add", "modify", "remove"} \/ e.obs.k # "ok" THEN ruser
  ELSE CASE e.op = "add" -> [ruser EXCEPT ![e.sym] = [scale |-> e.scale, pfx |-> e.pfx, dim |-> e.dim]]
         [] e.op = "modify" -> IF ruser[e.sym].scale # 0 THEN [ruser EXCEPT ![e.sym].scale = e.scale]
                               ELSE [ruser EXCEPT ![e.sym] = [scale |-> e.scale, pfx |-> FALSE, dim |-> ObsRow(e, e.sym)[3]]]
         [] e.op = "remove" -> [ruser EXCEPT ![e.sym] = Absent]
REdit(e) ==
  IF e.op \notin {"add", "modify", "remove"} \/ e.obs.k # "ok" THEN redit
  ELSE CASE e.op = "add" -> [redit EXCEPT ![e.sym] = IF ruser[e.sym].scale # 0 \/ redit[e.sym] # "none" THEN "readd" ELSE "add"]
         [] e.op = "modify" -> [redit EXCEPT ![e.sym] = "modify"]
         [] e.op = "remove" -> [redit EXCEPT ![e.sym] = "remove"]
RLastEdit(p) == LET as == Atoms(p)
                    es == {redit[Base(as[i])] : i \in DOMAIN as} \cup {redit[as[i]] : i \in DOMAIN as} IN
                IF "remove" \in es THEN "remove" ELSE IF "modify" \in es THEN "modify"
                ELSE IF "readd" \in es THEN "readd" ELSE IF "add" \in es THEN "add" ELSE "none"

(* ---- T ---- *)
ModelRow(k) == <<lut'[k].scale, lut'[k].pfx, IF lut'[k].scale = 0 THEN "L" ELSE lut'[k].dim>>
ModelObjs == [n \in DOMAIN objs' |-> Proj(objs'[n])]
TOk(e) == /\ sres' = e.res
          /\ (e.op \in RegOps => last' = e.obs)
          /\ \A k \in Keys : ModelRow(k) = ObsRow(e, k)
          /\ \A p \in Probes : (ucache'[p] # None) = e.cache[ProbeIdx(p)]
          /\ ModelObjs = e.objs

(* ---- P, on the observation ---- *)
HasPre(e) == (("i" \in DOMAIN e) => e.i \in DOMAIN pre) /\ (("j" \in DOMAIN e) => e.j \in DOMAIN pre)
\* was an operand labelled before an edit of its spelling?  From the observation: the symbols the operand's unit is
\* written with (preex) no longer mean, in the caller's view of the registry, the scale and dimension the operand holds.
\* The statement says such objects keep the value they had; it does not say every call must still accept them (a call
\* that looks their symbols up in the table may refuse) - so for a stale operand a refusal is not judged, a result is.
ObsStale(n) == n \in DOMAIN pre /\ n \in DOMAIN preex /\
               Stale(ruser, [s |-> pre[n].s, d |-> pre[n].d, ex |-> [k \in Keys |-> preex[n][KeyIdx(k)]], plain |-> preex[n][5] = 0])
StaleOp(e) == ("i" \in DOMAIN e /\ ObsStale(e.i)) \/ ("j" \in DOMAIN e /\ ObsStale(e.j))
Want(e) ==
  CASE e.op = "unit" -> RefResolve(ruser, e.str)
    [] e.op = "make" -> LET w == RefResolve(ruser, e.str) IN
                        IF w.k = "unit" THEN [k |-> "obj", o |-> [v |-> R(2 * Len(pre) + 3), s |-> w.s, d |-> w.d]] ELSE Raise
    [] e.op \in {"to", "convin"} -> RefConv(ruser, pre[e.i], e.str)
    [] e.op = "plus" -> RefPlus(pre[e.i], pre[e.j])
    [] e.op = "times" -> RefTimes(pre[e.i], pre[e.j])
    [] e.op = "over" -> RefOver(pre[e.i], pre[e.j])
    [] e.op \in {"tou", "convinu"} -> RefConvU(pre[e.i], pre[e.j])
    [] e.op \in {"eq", "lt"} -> RefCmp(e.op, pre[e.i], pre[e.j])
    [] e.op \in {"copy", "deepcopy", "pickle"} -> RefSame(pre[e.i])
    [] e.op = "inbase" -> RefBase(pre[e.i])
    [] e.op = "makem" -> [k |-> "obj", o |-> [v |-> R(2 * Len(pre) + 3), s |-> ROne, d |-> <<1, 0>>]]
    [] e.op \in {"insys", "convinsys"} -> IF SysOk(ruser) /\ ~ObsStale(e.i) THEN RefSys(ruser, pre[e.i]) ELSE e.res
    [] OTHER -> e.res
Clause(e) == IF e.op \in {"unit", "make", "makem", "insys", "convinsys"} THEN "C12_Fresh"
             ELSE IF e.op \in {"copy", "deepcopy", "pickle"} THEN "C12_Keep" ELSE "C12_HistoryFree"
\* did the call go through another handle than the last successful edit?
Target(e) == IF e.op \in {"convin", "convinu", "convinsys"} THEN {e.i} ELSE {}
FrameBad(e) == {n \in DOMAIN pre : /\ n \in DOMAIN e.objs
                                   /\ e.objs[n] # pre[n]
                                   /\ (n \notin Target(e) \/ Want(e).k # "obj")}
StepP(e) ==
  /\ (HasPre(e) /\ e.res # Want(e) /\ ~(StaleOp(e) /\ e.res.k = "raise")) =>
        PrintT(ToJson([tag |-> "P-FAIL", tid |-> tid, l |-> l, clause |-> Clause(e), op |-> e.op, what |-> "result",
                       str |-> IF "str" \in DOMAIN e THEN e.str ELSE "", edit |-> IF "str" \in DOMAIN e THEN RLastEdit(e.str) ELSE "",
                       stale |-> StaleOp(e), h |-> e.h, observed |-> e.res, expected |-> Want(e)]))
  /\ (HasPre(e) /\ FrameBad(e) # {}) =>
        PrintT(ToJson([tag |-> "P-FAIL", tid |-> tid, l |-> l, clause |-> "C12_Keep", op |-> e.op, what |-> "frame",
                       str |-> IF "str" \in DOMAIN e THEN e.str ELSE "", edit |-> IF "str" \in DOMAIN e THEN RLastEdit(e.str) ELSE "",
                       stale |-> StaleOp(e), h |-> e.h,
                       observed |-> [n \in FrameBad(e) |-> e.objs[n]], expected |-> [n \in FrameBad(e) |-> pre[n]]]))

Reset == /\ user' = InitTable /\ lut' = InitTable /\ ucache' = [p \in Probes |-> None]
         /\ edit' = [s \in Keys |-> "none"] /\ hist' = <<>> /\ last' = None
         /\ objs' = <<>> /\ aux' = <<>> /\ sres' = None
         /\ ruser' = InitTable /\ redit' = [s \in Keys |-> "none"] /\ pre' = <<>> /\ preex' = <<>> /\ sync' = TRUE
TraceNext ==
  \/ /\ tid <= Len(Traces) /\ l <= Len(Traces[tid].ev) /\ Guard(Ev)
     /\ StepAction(Ev)
     /\ StepP(Ev)
     /\ ruser' = RUser(Ev) /\ redit' = REdit(Ev) /\ pre' = Ev.objs /\ preex' = Ev.exs
     /\ sync' = (sync /\ TOk(Ev))
     /\ (sync /\ ~TOk(Ev)) => PrintT(ToJson([tag |-> "T-FAIL", tid |-> tid, l |-> l, op |-> Ev.op, model |-> sres', observed |-> Ev.res,
                                               mobjs |-> ModelObjs, oobjs |-> Ev.objs,
                                               rows |-> [i \in DOMAIN KeySeq |-> ModelRow(KeySeq[i])], orows |-> Ev.rows]))
     /\ l' = l + 1 /\ tid' = tid
  \/ /\ tid <= Len(Traces) /\ l <= Len(Traces[tid].ev) /\ ~Guard(Ev)
     /\ StepP(Ev)
     /\ sync => PrintT(ToJson([tag |-> "T-FAIL", tid |-> tid, l |-> l, op |-> Ev.op, model |-> [k |-> "disabled"], observed |-> Ev.res]))
     /\ ruser' = RUser(Ev) /\ redit' = REdit(Ev) /\ pre' = Ev.objs /\ preex' = Ev.exs /\ sync' = FALSE
     /\ l' = l + 1 /\ tid' = tid /\ UNCHANGED svars
  \/ /\ tid <= Len(Traces) /\ l > Len(Traces[tid].ev)
     /\ tid' = tid + 1 /\ l' = 1 /\ Reset
TraceSpec == TraceInit /\ [][TraceNext]_tvars
=============================================================================
