---------------------------- MODULE MC_C14_edit ----------------------------
(* All histories of at most MaxLen calls on one custom registry: add /       *)
(* remove / modify of the default symbols pc (prefixable) and ft (not), of   *)
(* the user symbols foo and kfoo, Unit(str) of the strings that leave a      *)
(* derived row or a memo entry behind, add_symbols into a fresh namespace.   *)
(* Every history (of every length) is exported for replay; at its end the    *)
(* harness resolves all probe strings and builds a namespace.  TLC also      *)
(* evaluates the property on the transcription itself (ModelStale).          *)
EXTENDS NamesEdit
CONSTANT MaxLen
WarmProbes == {ProbeNo(s) : s \in {"kpc", "kiloparsec", "kft", "kfoo", "Mfoo", "Mpccm", "ka", "kmcm"}}
\* names handed to define_unit, one per reading class: plain new name (quux, foo), existing table symbol (pc), listed
\* alias (parsec), prefix + prefixable symbol (kpc: cold in a custom registry, warm in the default one or after Unit),
\* prefix word + alias (kiloparsec), prefix + non-prefixable symbol (kft), prefix + user symbol (kfoo)
\* strings that leave ONLY a memo entry behind (no derived row): the table symbol itself, a listed alternative of a
\* prefixable symbol, a listed alternative of a non-prefixable symbol - neither alternative contains its canonical symbol
\* as text.  Used BEFORE an edit of the canonical symbol (add / remove / modify follow in every history of two calls) they
\* make "what the alternative spelling denotes afterwards" depend on how the edit treats what was memoised: the final
\* observation demands the reading under the CURRENT contents (C14_EditStr / EditNs / EditAgree; after remove: rejected).
\* Only on custom registries: Unit(s) without registry= never consults the memo.
MemoProbes == {ProbeNo(s) : s \in {"pc", "parsec", "foot"}}
DefineNames == {"quux", "pc", "parsec", "kpc", "kiloparsec", "kft", "kfoo"}
CustomNext ==
           \/ \E k \in {"pc", "ft", "foo"}, pfx \in BOOLEAN : Add(k, "2", pfx) /\ hist' = Append(hist, [op |-> "add", k |-> k, m |-> "2", pfx |-> pfx, p |-> 0])
           \/ \E k \in {"pccm", "a", "mcm"} : Add(k, "2", TRUE) /\ hist' = Append(hist, [op |-> "add", k |-> k, m |-> "2", pfx |-> TRUE, p |-> 0])
           \/ Add("kfoo", "7", FALSE) /\ hist' = Append(hist, [op |-> "add", k |-> "kfoo", m |-> "7", pfx |-> FALSE, p |-> 0])
           \/ \E k \in {"pc", "ft", "foo", "kfoo"} : Remove(k) /\ hist' = Append(hist, [op |-> "remove", k |-> k, m |-> "", pfx |-> FALSE, p |-> 0])
           \/ \E k \in {"pc", "ft", "foo"} : Modify(k, "4") /\ hist' = Append(hist, [op |-> "modify", k |-> k, m |-> "4", pfx |-> FALSE, p |-> 0])
           \/ \E p \in MemoProbes : Construct(p) /\ hist' = Append(hist, [op |-> "unit", k |-> "", m |-> "", pfx |-> FALSE, p |-> p])
           \/ AddSymbols /\ hist' = Append(hist, [op |-> "addsymbols", k |-> "", m |-> "", pfx |-> FALSE, p |-> 0])
Next == /\ Len(hist) < MaxLen
        /\ \/ \E sym \in DefineNames : Define(sym, "7", FALSE) /\ hist' = Append(hist, [op |-> "define", k |-> sym, m |-> "7", pfx |-> FALSE, p |-> 0])
           \/ \E pfx \in BOOLEAN : Define("foo", "2", pfx) /\ hist' = Append(hist, [op |-> "define", k |-> "foo", m |-> "2", pfx |-> pfx, p |-> 0])
           \/ \E p \in WarmProbes : Construct(p) /\ hist' = Append(hist, [op |-> "unit", k |-> "", m |-> "", pfx |-> FALSE, p |-> p])
           \/ kind = "custom" /\ CustomNext
Spec == EditInit /\ [][Next]_evars
\* model level: probes whose resolution on the transcription differs from the reading under the caller's view
ModelStale == {p \in PIdx : PeekStr(p, lut, MemoRead)[1] \notin RefDens(user, p)}
ModelStaleNs == LET r == NsOf(lut) IN IF r.ok /\ kind = "custom" THEN {p \in PIdx : r.ns[p].k = "unit" /\ r.ns[p] \notin RefDens(user, p)} ELSE {}
\* tch: the history changed the table (model level) - the sweep over all documented names is replayed in full only then
\* (otherwise only the rows present in the table are compared: the table is the initial one)
Export == PrintT(ToJson([tag |-> "HIST", kind |-> kind, h |-> hist, tch |-> (lut # (IF kind = "default" THEN TableWarm ELSE Table0)),
                         stale |-> {[s |-> ProbeSeq[p].s, layer |-> LayerModel(user, p, ModelRows(lut))] : p \in ModelStale \cup ModelStaleNs}]))
\* beyond MaxLen: a state cover one step deeper - VIEW hides the history, TLC keeps one witness history per distinct
\* registry state (kind, caller's view, table, memo, last result) and the witnesses of length Deep are exported
CONSTANT Deep
View == <<kind, user, lut, memo, last>>
ExportDeep == Len(hist) = Deep => Export
=============================================================================
