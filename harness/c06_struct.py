"""Instantiation of the structural cases of MC_C06 (spec/ArrayFnNum.tla, Part A) as real NumPy calls.

case = {fn, t, a: [arrays {sh, v}], ia: [int lists | arrays], p: [ints], s: [strings], dt}.
build(case, mode, mk) -> argument dict (mode "u": unyt inputs, "b": the stripped bare data);
call(case, args, np)  -> result of the one call;  targets(case, args) -> in-place targets to read back."""

CMP = {"isclose", "allclose", "array_equal", "array_equiv"}
# who carries units (case["s"] of the comparison family): quantity / bare ndarray / Python list or number / dimensionless
CARRIER_UNIT = {"q": "km", "b": None, "l": None, "d": "dimensionless"}
PROD2 = {"dot", "vdot", "inner", "outer", "kron", "cross", "tensordot", "convolve", "correlate", "solve"}
SECOND_S = {"trapezoid"}


def _ia(x, np):
    if isinstance(x, dict):
        vals = [n // d for n, d in x["v"]]
        return np.array(vals, dtype=np.int64).reshape(tuple(x["sh"]))
    return [int(v) for v in x]


def build(case, mode, mk):
    import numpy as np

    fn = case["fn"]
    dt = case["dt"]
    arrs = []
    for j, rec in enumerate(case["a"]):
        u = "km"
        d = dt
        if j == 1 and (fn in PROD2 or fn in SECOND_S):
            u = "s"
        if fn == "interp" and j == 2:
            u = "s"
        if fn == "pad" and j == 1:
            u = None
        if fn == "solve" and j == 1:
            d = "f"
        if fn in CMP:
            u = CARRIER_UNIT[case["s"][j]]
        x = mk(rec, d, mode, u)
        if fn in CMP and case["s"][j] == "l":
            x = x.tolist()  # a Python list (0-d: a Python number) in both modes
        arrs.append(x)
    ia = [_ia(x, np) for x in case["ia"]]
    return {"a": arrs, "ia": ia, "p": [int(x) for x in case["p"]], "s": list(case["s"])}


def _b(x):
    return x.astype(bool)


def call(case, args, np):
    fn, t = case["fn"], case["t"]
    a, ia, p, s = args["a"], args["ia"], args["p"], args["s"]
    A = a[0] if a else None
    if fn == "concatenate":
        return np.concatenate(a, axis=None) if t == "axnone" else np.concatenate(a, axis=p[0])
    if fn in ("vstack", "hstack", "dstack", "column_stack"):
        return getattr(np, fn)(a)
    if fn == "stack":
        return np.stack(a, axis={0: 0, 1: 1, 9: -1}[p[0]])
    if fn == "block":
        return np.block(a) if t == "flat" else np.block([[a[0], a[1]], [a[2], a[3]]])
    if fn == "append":
        return np.append(a[0], a[1])
    if fn == "where":
        return np.where(_b(ia[0]), a[0], a[1])
    if fn == "choose":
        return np.choose(ia[0], a)
    if fn == "select":
        return np.select([_b(ia[0]), _b(ia[1])], [a[0], a[1]], a[2])
    if fn == "clip":
        return np.clip(A, a[1], a[2])
    if fn == "take":
        return np.take(A, ia[0]) if t == "pos" else np.take(A, ia[0], axis=p[0])
    if fn == "insert":
        return np.insert(A, p[0], a[1])
    if fn == "delete":
        return np.delete(A, p[0])
    if fn == "pad":
        return np.pad(A, (p[0], p[1]), constant_values=a[1].item())
    if fn in ("triu", "tril"):
        return getattr(np, fn)(A, p[0])
    if fn == "diff":
        return np.diff(A, p[0]) if t == "n" else np.diff(A, n=p[0], axis=p[1])
    if fn == "ediff1d":
        return np.ediff1d(A)
    if fn in ("sum", "prod", "max", "min", "ptp", "mean"):
        return getattr(np, fn)(A) if t == "all" else getattr(np, fn)(A, axis=p[0])
    if fn == "cumsum":
        return np.cumsum(A) if t == "all" else np.cumsum(A, axis=p[0])
    if fn == "trace":
        return np.trace(A, offset=p[0])
    if fn in ("dot", "vdot", "inner", "outer", "kron", "cross"):
        return getattr(np, fn)(a[0], a[1])
    if fn == "tensordot":
        return np.tensordot(a[0], a[1], axes=p[0])
    if fn in ("convolve", "correlate"):
        return getattr(np, fn)(a[0], a[1], mode=s[0])
    if fn in ("union1d", "intersect1d", "setdiff1d", "setxor1d", "isin"):
        return getattr(np, fn)(a[0], a[1])
    if fn in ("isclose", "allclose"):
        rt, at = p[0] / p[1], p[2] / p[3]  # dyadic: exact
        return getattr(np, fn)(a[0], a[1], rt, at) if t == "tol" else getattr(np, fn)(a[0], a[1], atol=at, rtol=rt)
    if fn in ("array_equal", "array_equiv"):
        return getattr(np, fn)(a[0], a[1])
    if fn == "unique":
        return np.unique(A)
    if fn == "searchsorted":
        return np.searchsorted(a[0], a[1], side=s[0])
    if fn == "digitize":
        return np.digitize(a[0], a[1])
    if fn == "trapezoid":
        return np.trapezoid(a[0], dx=a[1]) if t == "dx" else np.trapezoid(a[0], a[1])
    if fn == "interp":
        return np.interp(a[0], a[1], a[2])
    if fn == "histogram":
        return np.histogram(a[0], bins=a[1])
    if fn in ("sort", "argsort"):
        return getattr(np, fn)(A, kind="stable") if t == "pos" else getattr(np, fn)(A, axis=p[0], kind="stable")
    if fn in ("transpose", "ravel", "fliplr", "flipud", "rot90", "flip"):
        return getattr(np, fn)(A)
    if fn == "reshape":
        return np.reshape(A, (p[0], p[1]))
    if fn == "roll":
        return np.roll(A, p[0])
    if fn in ("repeat", "tile"):
        return getattr(np, fn)(A, p[0])
    if fn in ("det", "inv"):
        return getattr(np.linalg, fn)(A)
    if fn == "solve":
        return np.linalg.solve(a[0], a[1])
    # in-place writers
    if fn == "fill_diagonal":
        return np.fill_diagonal(A, a[1])
    if fn == "put":
        return np.put(A, ia[0], a[1])
    if fn == "putmask":
        return np.putmask(A, _b(ia[0]), a[1])
    if fn == "place":
        return np.place(A, _b(ia[0]), a[1])
    if fn == "copyto":
        return np.copyto(A, a[1], where=_b(ia[0]))
    raise KeyError("no call for structural function " + fn)


INPLACE = {"fill_diagonal", "put", "putmask", "place", "copyto"}


def targets(case, args):
    return [args["a"][0]] if case["fn"] in INPLACE else []
