--------------------------- MODULE Trace_C14_edit ---------------------------
(* Trace validation of the replayed edit histories (custom registry, or the  *)
(* default registry with define_unit).  Each recorded call is stepped        *)
(* through the NamesEdit actions (T: result, derived rows present, namespace *)
(* of an add_symbols call).  The reference view `ruser` is driven by the     *)
(* OBSERVED outcome of each edit, so P does not depend on the transcription. *)
(* P is evaluated on every observed define_unit / Unit(str) / add_symbols    *)
(* step and on the final observation (every probe string resolved from the   *)
(* same state; a fresh add_symbols namespace, resp. the unyt top-level       *)
(* namespace for the default registry).                                      *)
EXTENDS NamesEdit, IOUtils
Traces == JsonDeserialize(IOEnv.TRACES)
VARIABLES tid, l, ruser, rprev, cur, stale, sprev
tvars == <<evars, tid, l, ruser, rprev, cur, stale, sprev>>
NoEv == [op |-> "init"]
TraceInit == EditInitK("custom") /\ tid = 0 /\ l = 0 /\ ruser = Table0 /\ rprev = Table0 /\ cur = NoEv /\ stale = {} /\ sprev = {}
Step(e) == CASE e.op = "add" -> Add(e.k, e.m, e.pfx)
             [] e.op = "remove" -> Remove(e.k)
             [] e.op = "modify" -> Modify(e.k, e.m)
             [] e.op = "define" -> Define(e.k, e.m, e.pfx)
             [] e.op = "unit" -> Construct(e.p)
             [] e.op = "addsymbols" -> AddSymbols
RUser(e) == IF e.obs.k # "ok" THEN ruser
            ELSE CASE e.op \in {"add", "define"} -> [ruser EXCEPT ![e.k] = Row(e.m, 0, e.pfx)]
                   [] e.op = "remove" -> [ruser EXCEPT ![e.k] = Absent]
                   [] e.op = "modify" -> IF Present(ruser[e.k]) THEN [ruser EXCEPT ![e.k].m = e.m] ELSE ruser
                   [] OTHER -> ruser
TraceNext ==
  \/ /\ tid = 0 /\ \E t \in 1..Len(Traces) : (tid' = t /\ kind' = Traces[t].kind
                                               /\ lut' = IF Traces[t].kind = "default" THEN TableWarm ELSE Table0)
     /\ l' = 1 /\ UNCHANGED <<user, memo, hist, last, ruser, rprev, cur, stale, sprev>>
  \/ /\ tid > 0 /\ l <= Len(Traces[tid].ev)
     /\ Step(Traces[tid].ev[l]) /\ hist' = hist
     /\ ruser' = RUser(Traces[tid].ev[l]) /\ rprev' = ruser
     /\ cur' = Traces[tid].ev[l]
     /\ stale' = StaleAfter(stale, Traces[tid].ev[l], Traces[tid].ev[l].rowsbefore, Traces[tid].ev[l].rows) /\ sprev' = stale
     /\ l' = l + 1 /\ tid' = tid
  \/ /\ tid > 0 /\ l = Len(Traces[tid].ev) + 1
     /\ cur' = [op |-> "final"] /\ l' = l + 1
     /\ UNCHANGED <<evars, ruser, rprev, tid, stale, sprev>>

\* form: the call form by which the string was used as a unit string - "Unit" = Unit(s, registry=reg), "quantity" =
\* unyt_quantity(1.0, s, registry=reg).units (every Unit(str) step and every probe of the final observation is made
\* through both, in this order; "can be used as a unit string" and "denotes the same unit" hold for either)
PFailF(clause, form, p, layer, o, want) == PrintT(ToJson([tag |-> "P-FAIL", tid |-> tid, l |-> l - 1, clause |-> clause, form |-> form, probe |-> ProbeSeq[p].s,
                                                   layer |-> layer, observed |-> o, expected |-> want]))
PFail(clause, p, layer, o, want) == PFailF(clause, "Unit", p, layer, o, want)
TFail(what, model) == PrintT(ToJson([tag |-> "T-FAIL", tid |-> tid, l |-> l - 1, what |-> what, model |-> model]))
TStrOk(m, o) == IF m.k = "unit" THEN o.ok /\ (\E x \in DOMAIN o.den : o.den[x] = m.den) ELSE ~o.ok
\* a step that was just taken: cur = its record (with observation), evars = the model's state after it
CheckStep ==
  (tid > 0 /\ cur.op \notin {"init", "final"}) =>
    /\ (cur.op = "unit" =>
          /\ (~C14_EditStr(ruser, cur.p, cur.obs) => PFail("EditStr", cur.p, Layer(sprev, cur.p), cur.obs, RefDens(ruser, cur.p)))
          /\ (~C14_EditStr(ruser, cur.p, cur.obsq) => PFailF("EditStr", "quantity", cur.p, Layer(sprev, cur.p), cur.obsq, RefDens(ruser, cur.p)))
          /\ (~TStrOk(last, cur.obs) => TFail("unit", last))
          /\ (~TStrOk(last, cur.obsq) => TFail("unit-quantity", last)))
    /\ (cur.op = "define" =>
          (~C14_DefineGuard(rprev, cur.k, cur.obs.k = "ok") =>
              PFail("DefineGuard", ProbeNo(cur.k), Layer(sprev, ProbeNo(cur.k)), cur.obs, {RaiseO})))
    /\ (cur.op = "addsymbols" =>
          /\ (cur.obs.k = "ns" => \A p \in PIdx :
                ~C14_EditNs(ruser, p, cur.ns[p]) => PFail("EditNs", p, Layer(sprev, p), cur.ns[p], RefDens(ruser, p)))
          /\ ((cur.obs.k = "ns") # (last.k = "ns") => TFail("addsymbols", [k |-> last.k]))
          /\ ((cur.obs.k = "ns" /\ last.k = "ns") => \A p \in PIdx :
                (IF last.ns[p].k = "unit" THEN ~(cur.ns[p].present /\ TStrOk(last.ns[p], cur.ns[p])) ELSE cur.ns[p].present)
                  => TFail("ns-entry", [probe |-> ProbeSeq[p].s, model |-> last.ns[p]])))
    /\ (cur.op \in {"add", "remove", "modify", "define"} => (cur.obs.k # last.k => TFail(cur.op, last)))
    /\ (ModelRows(lut) # cur.rows => TFail("rows", [rows |-> ModelRows(lut)]))
\* the final observation of a trace
Final == Traces[tid].final
CheckFinal ==
  (tid > 0 /\ cur.op = "final") =>
    /\ \A p \in PIdx :
         /\ (~C14_EditStr(ruser, p, Final.probes[p]) => PFail("EditStr", p, Layer(stale, p), Final.probes[p], RefDens(ruser, p)))
         /\ (~C14_EditStr(ruser, p, Final.probesq[p]) => PFailF("EditStr", "quantity", p, Layer(stale, p), Final.probesq[p], RefDens(ruser, p)))
         /\ (~TStrOk(PeekStr(p, lut, MemoRead)[1], Final.probes[p]) => TFail("final-unit", [probe |-> ProbeSeq[p].s, model |-> PeekStr(p, lut, MemoRead)[1]]))
         /\ (~TStrOk(PeekStr(p, lut, MemoRead)[1], Final.probesq[p]) => TFail("final-unit-quantity", [probe |-> ProbeSeq[p].s, model |-> PeekStr(p, lut, MemoRead)[1]]))
    /\ (Final.nsok => \A p \in PIdx :
          /\ (~C14_EditNs(ruser, p, Final.ns[p]) => PFail("EditNs", p, Layer(stale, p), Final.ns[p], RefDens(ruser, p)))
          /\ ((Final.ns[p].present /\ Final.probes[p].ok /\ Final.ns[p].den # Final.probes[p].den)
                => PFail("EditAgree", p, Layer(stale, p), Final.ns[p], {[k |-> "unit", den |-> Final.probes[p].den]})))
    /\ ((kind = "custom" /\ Final.nsok # NsOf(lut).ok) => TFail("final-addsymbols", [ok |-> NsOf(lut).ok]))
    \* EditSweep: every documented symbol-level name (table symbol, prefix symbol + prefixable symbol) whose base symbol no
    \* call of the history touched still denotes prefix x canonical in this registry, i.e. what it denotes in an unedited
    \* registry - whatever user symbols were added and resolved (the harness lists the names that do not)
    /\ \A x \in DOMAIN Final.sweepbad :
          PrintT(ToJson([tag |-> "P-FAIL", tid |-> tid, l |-> l - 1, clause |-> "EditSweep", form |-> "Unit", probe |-> Final.sweepbad[x].name, layer |-> "fresh",
                         observed |-> Final.sweepbad[x].got, expected |-> {Final.sweepbad[x].want}]))
Check == CheckStep /\ CheckFinal
=============================================================================
